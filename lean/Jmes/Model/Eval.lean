/-
  Mirror of /repo/internal/evaluator/evaluator.go and variable.go.
-/
import Jmes.Model.Node
import Jmes.Model.Functions
namespace Jmes
open Res

abbrev Env := List (Bytes × Val)

def Env.get (env : Env) (name : Bytes) : Option Val := objLookup name env

/-- `evaluate` of the eager builtins once their arguments are values -/
def applyFn (f : Fn) (args : List Val) : Res Val :=
  match f, args with
  | .abs, [a] => numAbs a
  | .avg, [a] => numAvg a
  | .ceil, [a] => numCeil a
  | .contains, [a, b] => contains a b
  | .endsWith, [a, b] => endsWith a b
  | .findFirst, [a, b] => findFirst a b
  | .findFirstBetween, [a, b, c, d] => findFirstBetween a b c d
  | .findFirstFrom, [a, b, c] => findFirstFrom a b c
  | .findLast, [a, b] => findLast a b
  | .findLastBetween, [a, b, c, d] => findLastBetween a b c d
  | .findLastFrom, [a, b, c] => findLastFrom a b c
  | .floor, [a] => numFloor a
  | .fromItems, [a] => fromItems a
  | .items, [a] => items a
  | .join, [a, b] => join a b
  | .keys, [a] => keys a
  | .length, [a] => length a
  | .lower, [a] => lower a
  | .max, [a] => arrayMax a
  | .min, [a] => arrayMin a
  | .padLeft, [a, b, c] => padLeft a b c
  | .padRight, [a, b, c] => padRight a b c
  | .padSpaceLeft, [a, b] => padSpaceLeft a b
  | .padSpaceRight, [a, b] => padSpaceRight a b
  | .replace, [a, b, c] => replace a b c
  | .replaceCount, [a, b, c, d] => replaceCount a b c d
  | .reverse, [a] => reverse a
  | .sort, [a] => sortArray a
  | .split, [a, b] => split a b
  | .splitCount, [a, b, c] => splitCount a b c
  | .startsWith, [a, b] => startsWith a b
  | .sum, [a] => numSum a
  | .toArray, [a] => .ok (toArray a)
  | .toNumber, [a] => .ok (toNumber a)
  | .toString, [a] => toStringV a
  | .trim, [a, b] => trim a b
  | .trimLeft, [a, b] => trimLeft a b
  | .trimRight, [a, b] => trimRight a b
  | .trimSpace, [a] => trimSpace a
  | .trimSpaceLeft, [a] => trimSpaceLeft a
  | .trimSpaceRight, [a] => trimSpaceRight a
  | .type, [a] => typeName a
  | .upper, [a] => upper a
  | .values, [a] => values a
  | _, _ => .err [Cat.evaluationFailed]   -- unreachable: the parser builds each node with its own arity

def applyBinOp (op : BinOp) (l r : Val) : Res Val :=
  match op with
  | .add => add l r
  | .sub => subtract l r
  | .mul => multiply l r
  | .div => divide l r
  | .idiv => integerDivide l r
  | .mod => modulo l r
  | .eq => do let b ← equalR l r; pure (.bool b)
  | .ne => do let b ← equalR l r; pure (.bool (!b))
  | .lt => .ok (less l r)
  | .le => .ok (lessOrEqual l r)
  | .gt => .ok (greater l r)
  | .ge => .ok (greaterOrEqual l r)

def negateVal (child : Val) : Val :=
  match toFloat child with
  | some f => .num (.f64 f.neg)
  | none =>
    match toDecimal child with
    | none => .null
    | some d => if d.isZero then .num (.dec d) else .num (.dec d.neg)

/-- combine the outcomes of sub-expressions that Go evaluates in map order, stopping at the first failure -/
def combineUnordered (acc : Res (List (Bytes × Val))) (k : Bytes) (r : Res Val) : Res (List (Bytes × Val)) :=
  match acc, r with
  | .panic w, _ => .panic w
  | _, .panic w => .panic w
  | .unmodelled w, _ => .unmodelled w
  | _, .unmodelled w => .unmodelled w
  | .nondet, _ => .nondet
  | _, .nondet => .nondet
  | .err a, .err b => .err (Cat.dedup (a ++ b))
  | .err a, .ok _ => .err a
  | .ok _, .err b => .err b
  | .ok kvs, .ok v => .ok (objInsert k v kvs)

def zipRows : Nat → List (List Val) → List Val
  | 0, _ => []
  | n + 1, cols => .arr .plain (cols.map (fun c => c.headD .null)) :: zipRows n (cols.map List.tail)

def zipArgs : List Val → Res (List (List Val))
  | [] => .ok []
  | .arr t xs :: rest => do
    let cols ← zipArgs rest
    if enum2 t xs then .nondet else pure (xs :: cols)
  | _ :: _ => errType

def zipCheck : List Val → Res Unit
  | [] => .ok ()
  | .arr _ _ :: rest => zipCheck rest
  | _ :: _ => errType

def mergeArgs : List Val → List (Bytes × Val) → Res (List (Bytes × Val))
  | [], acc => .ok acc
  | .obj kvs :: rest, acc => mergeArgs rest (kvs.foldl (fun a kv => objInsert kv.1 kv.2 a) acc)
  | _ :: _, _ => errType

mutual
/-- `evaluator.evaluate(node, current, variables)` -/
def ieval (root : Val) : INode → Val → Env → Res Val
  | .lit v, _, _ => .ok v
  | .current, cur, _ => .ok cur
  | .root, _, _ => .ok root
  | .field k, cur, _ => .ok (field k cur)
  | .variable name, _, env =>
    (match env.get name with
     | some v => .ok v
     | none => .err [Cat.undefinedVariable])
  | .binop op l r, cur, env => do
    let a ← ieval root l cur env
    let b ← ieval root r cur env
    applyBinOp op a b
  | .and l r, cur, env => do
    let a ← ieval root l cur env
    if !isTrue a then pure a else ieval root r cur env
  | .or l r, cur, env => do
    let a ← ieval root l cur env
    if isTrue a then pure a else ieval root r cur env
  | .not c, cur, env => do
    let a ← ieval root c cur env
    pure (.bool (!isTrue a))
  | .negate c, cur, env => do
    let a ← ieval root c cur env
    pure (negateVal a)
  | .assertNumber c, cur, env => do
    let a ← ieval root c cur env
    pure (if isNumber a then a else .null)
  | .call f args, cur, env => do
    let vs ← ievalList root args cur env
    applyFn f vs
  | .defineVariables vars child, cur, env => do
    let bs ← ievalFields root vars cur env
    ieval root child cur (bs ++ env)
  | .filter c f, cur, env => do
    let a ← ieval root c cur env
    filterArray (fun v => ieval root f v env) a
  | .filterCurrent f, cur, env => filterArray (fun v => ieval root f v env) cur
  | .filterAndProject l f r, cur, env => do
    let a ← ieval root l cur env
    filterAndProjectArray (fun v => ieval root f v env) (fun v => ieval root r v env) a
  | .filterAndProjectCurrent f c, cur, env =>
    filterAndProjectArray (fun v => ieval root f v env) (fun v => ieval root c v env) cur
  | .flatten c, cur, env => do
    let a ← ieval root c cur env
    pure (flatten a)
  | .flattenCurrent, cur, _ => .ok (flatten cur)
  | .flattenAndProject l r, cur, env => do
    let a ← ieval root l cur env
    flattenAndProjectArray (fun v => ieval root r v env) a
  | .flattenAndProjectCurrent c, cur, env => flattenAndProjectArray (fun v => ieval root c v env) cur
  | .index c i, cur, env => do
    let a ← ieval root c cur env
    index a i
  | .indexCurrent i, cur, _ => index cur i
  | .smallIndexCurrent i, cur, _ => index cur i
  | .objectValues c, cur, env => do
    let a ← ieval root c cur env
    pure (objectValues a)
  | .objectValuesCurrent, cur, _ => .ok (objectValues cur)
  | .pipe l r, cur, env => do
    let a ← ieval root l cur env
    ieval root r a env
  | .projectArray l r, cur, env => do
    let a ← ieval root l cur env
    match a with
    | .str _ => if l.isSlice then ieval root r a env else projectArray (fun v => ieval root r v env) a
    | _ => projectArray (fun v => ieval root r v env) a
  | .projectArrayCurrent c, cur, env => projectArray (fun v => ieval root c v env) cur
  | .projectObject l r, cur, env => do
    let a ← ieval root l cur env
    projectObject (fun v => ieval root r v env) a
  | .projectObjectCurrent c, cur, env => projectObject (fun v => ieval root c v env) cur
  | .pruneArray c, cur, env => do
    let a ← ieval root c cur env
    pure (pruneArray a)
  | .pruneArrayCurrent, cur, _ => .ok (pruneArray cur)
  | .selectArray c fs, cur, env => do
    let a ← ieval root c cur env
    if a.isNull then pure .null
    else do
      let vs ← ievalList root fs a env
      pure (.arr .plain vs)
  | .selectArrayCurrent fs, cur, env =>
    if cur.isNull then .ok .null
    else do
      let vs ← ievalList root fs cur env
      pure (.arr .plain vs)
  | .selectArraySingle c f, cur, env => do
    let a ← ieval root c cur env
    if a.isNull then pure .null
    else do
      let v ← ieval root f a env
      pure (.arr .plain [v])
  | .selectArraySingleCurrent f, cur, env => do
    let v ← ieval root f cur env
    pure (.arr .plain [v])
  | .selectObject c fs, cur, env => do
    let a ← ieval root c cur env
    if a.isNull then pure .null
    else do
      let kvs ← ievalFields root fs a env
      pure (.obj kvs)
  | .selectObjectCurrent fs, cur, env =>
    if cur.isNull then .ok .null
    else do
      let kvs ← ievalFields root fs cur env
      pure (.obj kvs)
  | .selectObjectSingle c k f, cur, env => do
    let a ← ieval root c cur env
    if a.isNull then pure .null
    else do
      let v ← ieval root f a env
      pure (.obj [(k, v)])
  | .selectObjectSingleCurrent k f, cur, env => do
    let v ← ieval root f cur env
    pure (.obj [(k, v)])
  | .slice c a b, cur, env => do
    let v ← ieval root c cur env
    slice v a b
  | .sliceCurrent a b, cur, _ => slice cur a b
  | .sliceStep c a b s, cur, env => do
    let v ← ieval root c cur env
    sliceStep v a b s
  | .sliceStepCurrent a b s, cur, _ => sliceStep cur a b s
  | .groupBy a e, cur, env => do
    let v ← ieval root a cur env
    groupBy (fun x => ieval root e x env) v
  | .map e a, cur, env => do
    let v ← ieval root a cur env
    mapArray (fun x => ieval root e x env) v
  | .maxBy a e, cur, env => do
    let v ← ieval root a cur env
    arrayMaxBy (fun x => ieval root e x env) v
  | .minBy a e, cur, env => do
    let v ← ieval root a cur env
    arrayMinBy (fun x => ieval root e x env) v
  | .sortBy a e, cur, env => do
    let v ← ieval root a cur env
    sortArrayBy (fun x => ieval root e x env) v
  | .merge args, cur, env => do
    -- Go checks each argument's type right after evaluating it
    let kvs ← ievalMerge root args cur env []
    pure (.obj kvs)
  | .notNull args, cur, env => ievalNotNull root args cur env
  | .zip args, cur, env => do
    let vs ← ievalZip root args cur env
    let cols ← zipArgs vs
    match cols with
    | [] => pure (.arr .plain [])
    | c :: cs =>
      let count := cs.foldl (fun m x => min m x.length) c.length
      pure (.arr .plain (zipRows count cols))
/-- arguments / multi-select elements: left to right, stop at the first failure -/
def ievalList (root : Val) : List INode → Val → Env → Res (List Val)
  | [], _, _ => .ok []
  | n :: ns, cur, env => do
    let v ← ieval root n cur env
    let vs ← ievalList root ns cur env
    pure (v :: vs)
/-- members of a multi-select hash / bindings of a let: a Go map of sub-expressions, evaluated in map order -/
def ievalFields (root : Val) : List (Bytes × INode) → Val → Env → Res (List (Bytes × Val))
  | [], _, _ => .ok []
  | (k, n) :: rest, cur, env =>
    combineUnordered (ievalFields root rest cur env) k (ieval root n cur env)
def ievalMerge (root : Val) : List INode → Val → Env → List (Bytes × Val) → Res (List (Bytes × Val))
  | [], _, _, acc => .ok acc
  | n :: ns, cur, env, acc => do
    let v ← ieval root n cur env
    match v with
    | .obj kvs => ievalMerge root ns cur env (kvs.foldl (fun a kv => objInsert kv.1 kv.2 a) acc)
    | _ => errType
def ievalNotNull (root : Val) : List INode → Val → Env → Res Val
  | [], _, _ => .ok .null
  | n :: ns, cur, env => do
    let v ← ieval root n cur env
    if v.isNull then ievalNotNull root ns cur env else pure v
/-- zip evaluates and type-checks its arguments one by one -/
def ievalZip (root : Val) : List INode → Val → Env → Res (List Val)
  | [], _, _ => .ok []
  | n :: ns, cur, env => do
    let v ← ieval root n cur env
    match v with
    | .arr _ _ => do
      let vs ← ievalZip root ns cur env
      pure (v :: vs)
    | _ => errType
end

/-- `evaluator.Evaluate(node, data)` -/
def evaluate (n : INode) (data : Val) : Res Val := ieval data n data []

end Jmes
