/-
  Mirror of /repo/internal/evaluator/functions.go.
-/
import Jmes.Model.String
import Jmes.Model.Json
namespace Jmes
open Res

def length (v : Val) : Res Val :=
  match v with
  | .arr _ xs => .ok (.num (.int .i64 xs.length))
  | .obj kvs => .ok (.num (.int .i64 kvs.length))
  | .str s => .ok (.num (.int .i64 (runeCount s)))
  | _ => errType

def lower (v : Val) : Res Val :=
  match v with
  | .str s => caseMap lowerRune s
  | _ => errType

def upper (v : Val) : Res Val :=
  match v with
  | .str s => caseMap upperRune s
  | _ => errType

/-- the string branch of `reverse`: runes from the end, re-encoded -/
def reverseRunes : Nat → Bytes → Bytes
  | 0, _ => []
  | _, [] => []
  | fuel + 1, s =>
    let (r, sz) := decodeLastRune s
    encodeRune r ++ reverseRunes fuel (s.take (s.length - sz))

def reverse (v : Val) : Res Val :=
  match v with
  | .str s => .ok (.str (reverseRunes s.length s))
  | .arr t xs => .ok (.arr t.derived xs.reverse)
  | _ => errType

def toArray (v : Val) : Val :=
  match v with
  | .arr t xs => .arr t xs
  | v => .arr .plain [v]

/-- the JSON number grammar, as `to_number` requires of a string -/
def toNumber (v : Val) : Val :=
  match v with
  | .num n => .num n
  | .str s =>
    if Json.isValidNumber s then
      (match Dec.unmarshalJSON s with
       | some d => .num (.dec d)
       | none => .null)
    else .null
  | _ => .null

def toStringV (v : Val) : Res Val :=
  match v with
  | .str s => .ok (.str s)
  | v =>
    if v.hasEnum2 then .nondet
    else match Json.encode v with
      | .ok b => .ok (.str b)
      | .fail => .err [Cat.evaluationFailed]
      | .unmodelled w => .unmodelled w

def strVal (s : String) : Val := .str (s.toUTF8.toList.map UInt8.toNat)

def typeName (v : Val) : Res Val :=
  match v with
  | .arr _ _ => .ok (strVal "array")
  | .obj _ => .ok (strVal "object")
  | .bool _ => .ok (strVal "boolean")
  | .num _ => .ok (strVal "number")
  | .str _ => .ok (strVal "string")
  | .null => .ok (strVal "null")
  | .foreign _ => errType

end Jmes
