/-
  Mirror of /repo/internal/evaluator/number.go.
-/
import Jmes.Model.Value
namespace Jmes
open Res

/-- `strconv.ParseInt(s, 10, 64)`: `none` on syntax or range error. -/
def parseInt64 (s : Bytes) : Option Int :=
  let (neg, d) := match s with
    | 0x2B :: r => (false, r)
    | 0x2D :: r => (true, r)
    | _ => (false, s)
  if d.isEmpty then none
  else if d.all Dec.isDigit then
    let v : Nat := d.foldl (fun (acc : Nat) (b : Nat) => acc * 10 + (b - 0x30)) 0
    if neg then (if v > 2 ^ 63 then none else some (-(v : Int)))
    else (if v > 2 ^ 63 - 1 then none else some v)
  else none

/-- outcome of `strconv.ParseFloat(s, 64)` as far as `toInt` needs it -/
inductive PF where | ok | bad | unmodelled
  deriving DecidableEq

/-- decimal float syntax of strconv: sign? (digits [. digits?] | . digits) ([eE] sign? digits)?,
    or inf/infinity/nan; hexadecimal floats and underscores are left unmodelled / rejected as strconv does. -/
def parseFloatOk (s : Bytes) : PF :=
  let d := match s with
    | 0x2B :: r => r
    | 0x2D :: r => r
    | _ => s
  let signed := d.length != s.length
  let low := d.map Dec.lowerByte
  if low = [0x69, 0x6E, 0x66] ∨ low = [0x69, 0x6E, 0x66, 0x69, 0x6E, 0x69, 0x74, 0x79] then .ok
  else if low = [0x6E, 0x61, 0x6E] then (if signed then .bad else .ok)
  else match low with
    | 0x30 :: 0x78 :: _ => .unmodelled
    | _ =>
      if d.any (· = 0x5F) then .bad
      else
        -- reuse the decimal grammar of decimal128's parser without separators; it coincides with strconv's
        -- on sign-free decimal forms, then apply the binary64 range check (≥ 2^1024 − 2^970 rounds to ±Inf)
        match Dec.prun false {} d with
        | none => .bad
        | some st =>
          if !st.caneof then .bad
          else if st.c = 0 then .ok
          else if st.maxexp then (if st.eneg then .ok else .bad)
          else
            let e : Int := (if st.eneg then -(st.exp : Int) else st.exp) - st.nfrac
            if e > 400 then .bad
            else if e < 0 then .ok
            else if st.c * 10 ^ e.toNat ≥ 2 ^ 1024 - 2 ^ 970 then .bad else .ok

def toDecimal : Val → Option Dec
  | .num (.dec d) => some d
  | .num (.jnum t) => match Dec.parse t with
    | .ok d => some d
    | _ => none
  | .num (.f64 f) => some f.toDec
  | .num (.f32 f) => some f.toDec
  | .num (.int _ v) => some (Dec.ofInt v)
  | _ => none

def toFloat : Val → Option F64
  | .num (.f64 f) => some f
  | .num (.f32 f) => some f
  | _ => none

def toFloatPair (x y : Val) : Option (F64 × F64) :=
  match toFloat x, toFloat y with
  | some a, some b => some (a, b)
  | _, _ => none

def isNumber : Val → Bool
  | .num _ => true
  | _ => false

/-- result of `toInt`: the three return values `(int, isNum, ok)` folded into one type;
    `panic` is `Decimal(NaN).Int64()`. -/
inductive ToInt where
  | int (i : Int)       -- (i, true, true)
  | notInt              -- (0, true, false)
  | notNum              -- (0, false, false)
  | panic
  | unmodelled
  deriving Repr, DecidableEq

/-- the `decimal128.Decimal` branch of `toInt`: NaN and non-integral values are "a number, not an integer" -/
def decToInt (d : Dec) : ToInt :=
  if d.isNaN then .notInt
  else match d.int64 with
    | .panic => .panic
    | .notOk => .notInt
    | .ok i => if (Dec.ofInt i).equal d then .int i else .notInt

def toInt : Val → ToInt
  | .num (.dec d) => decToInt d
  | .num (.jnum t) => match parseInt64 t with
    | some i => .int i
    | none =>
      match Dec.parse t with
      | .ok d => decToInt d
      | _ => match parseFloatOk t with
        | .ok => .notInt
        | .bad => .notNum
        | .unmodelled => .unmodelled
  | .num (.f64 f) => match f.toInt with | some i => .int i | none => .notInt
  | .num (.f32 f) => match f.toInt with | some i => .int i | none => .notInt
  | .num (.int k v) =>
    match k with
    | .u64 | .uint => if v > 2 ^ 63 - 1 then .notInt else .int v
    | _ => .int v
  | _ => .notNum

def errType {α} : Res α := .err [Cat.invalidType]
def errValue {α} : Res α := .err [Cat.invalidValue]
def errNaN {α} : Res α := .err [Cat.notANumber]

def checkF (r : F64) : Res Val :=
  if r.isInf then errNaN else if r.isNaN then errNaN else .ok (.num (.f64 r))

def checkD (r : Dec) : Res Val :=
  if r.isInf then errNaN else if r.isNaN then errNaN else .ok (.num (.dec r))

def arith (fop : F64 → F64 → F64) (dop : Dec → Dec → Dec) (x y : Val) : Res Val :=
  match toFloatPair x y with
  | some (a, b) => checkF (fop a b)
  | none =>
    match toDecimal x with
    | none => errType
    | some xd =>
      match toDecimal y with
      | none => errType
      | some yd => checkD (dop xd yd)

def add := arith F64.add Dec.add
def subtract := arith F64.sub Dec.sub
def multiply := arith F64.mul Dec.mul
def divide := arith F64.div Dec.quo
def integerDivide := arith (fun a b => (F64.div a b).trunc) (fun a b => (Dec.quoRem a b).1)
def modulo := arith F64.mod (fun a b => (Dec.quoRem a b).2)

def numAbs (v : Val) : Res Val :=
  match toFloat v with
  | some f => .ok (.num (.f64 f.abs))
  | none => match toDecimal v with
    | none => errType
    | some d => .ok (.num (.dec d.abs))

def numCeil (v : Val) : Res Val :=
  match toFloat v with
  | some f => .ok (.num (.f64 f.ceil))
  | none => match toDecimal v with
    | none => errType
    | some d => .ok (.num (.dec d.ceil))

def numFloor (v : Val) : Res Val :=
  match toFloat v with
  | some f => .ok (.num (.f64 f.floor))
  | none => match toDecimal v with
    | none => errType
    | some d => .ok (.num (.dec d.floor))

/-- fold of `r = r.Add(d)` over the elements; `none` if an element is not a number -/
def sumDec : List Val → Dec → Option Dec
  | [], acc => some acc
  | v :: vs, acc => match toDecimal v with
    | none => none
    | some d => sumDec vs (acc.add d)

/-- sufficient condition for "every subset sum of these finite decimals is exact", used to decide that the sum
    of a map-ordered array does not depend on the order -/
def sumOrderFree (ds : List Dec) : Bool :=
  let fins := ds.filterMap (fun d => match d with | .fin _ c e => if c = 0 then none else some (c, e) | _ => none)
  if fins.length != ds.length - (ds.filter Dec.isZero).length then false
  else match fins with
    | [] => true
    | (c0, e0) :: rest =>
      let lo := rest.foldl (fun m (p : Nat × Int) => min m p.2) e0
      let hi := rest.foldl (fun m (p : Nat × Int) => max m (Dec.ndigits p.1 + p.2)) (Dec.ndigits c0 + e0)
      hi - lo + Dec.ndigits ds.length ≤ 34 ∧ lo ≥ Dec.EMIN ∧ hi ≤ 6000

def enumSumOk (t : ATag) (xs : List Val) : Bool :=
  match t with
  | .enum => xs.length < 2 || sumOrderFree (xs.filterMap toDecimal)
  | _ => true

def numSum (v : Val) : Res Val :=
  match v with
  | .arr t xs =>
    match sumDec xs (Dec.zero) with
    | none => errType
    | some r => if enumSumOk t xs then checkD r else .nondet
  | _ => errType

def numAvg (v : Val) : Res Val :=
  match v with
  | .arr t xs =>
    if xs.isEmpty then .ok .null
    else match sumDec xs (Dec.zero) with
      | none => errType
      | some r => if enumSumOk t xs then checkD (r.quo (Dec.ofInt xs.length)) else .nondet
  | _ => errType

end Jmes
