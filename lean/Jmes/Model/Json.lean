/-
  The parts of Go's encoding/json that /repo relies on: decoding one value with `UseNumber` (JSON literals
  between backticks, and the documents of the correspondence protocol) and `json.Marshal` (`to_string`).
-/
import Jmes.Model.Value
namespace Jmes
namespace Json

@[inline] def isWs (b : Nat) : Bool := b == 0x20 || b == 0x09 || b == 0x0A || b == 0x0D

def skipWs : Bytes → Bytes
  | [] => []
  | b :: t => if isWs b then skipWs t else b :: t

def hexVal (b : Nat) : Option Nat :=
  if 0x30 ≤ b ∧ b ≤ 0x39 then some (b - 0x30)
  else if 0x61 ≤ b ∧ b ≤ 0x66 then some (b - 0x61 + 10)
  else if 0x41 ≤ b ∧ b ≤ 0x46 then some (b - 0x41 + 10)
  else none

def hex4 : Bytes → Option (Nat × Bytes)
  | a :: b :: c :: d :: rest =>
    match hexVal a, hexVal b, hexVal c, hexVal d with
    | some a, some b, some c, some d => some (((a * 16 + b) * 16 + c) * 16 + d, rest)
    | _, _, _, _ => none
  | _ => none

def isSurrogate (r : Nat) : Bool := 0xD800 ≤ r && r ≤ 0xDFFF

/-- `utf16.DecodeRune`: U+FFFD unless (high, low) surrogates -/
def utf16Decode (r1 r2 : Nat) : Nat :=
  if 0xD800 ≤ r1 ∧ r1 < 0xDC00 ∧ 0xDC00 ≤ r2 ∧ r2 < 0xE000 then (r1 - 0xD800) * 1024 + (r2 - 0xDC00) + 0x10000
  else RuneError

/-- body of a JSON string after the opening quote: decoded bytes and the rest after the closing quote.
    Invalid UTF-8 is replaced by U+FFFD, as `unquote` does. -/
def parseStringBody : Nat → Bytes → Bytes → Option (Bytes × Bytes)
  | 0, _, _ => none
  | _, [], _ => none
  | fuel + 1, b :: t, acc =>
    if b = 0x22 then some (acc, t)
    else if b < 0x20 then none
    else if b = 0x5C then
      match t with
      | [] => none
      | e :: t' =>
        if e = 0x22 then parseStringBody fuel t' (acc ++ [0x22])
        else if e = 0x5C then parseStringBody fuel t' (acc ++ [0x5C])
        else if e = 0x2F then parseStringBody fuel t' (acc ++ [0x2F])
        else if e = 0x62 then parseStringBody fuel t' (acc ++ [0x08])
        else if e = 0x66 then parseStringBody fuel t' (acc ++ [0x0C])
        else if e = 0x6E then parseStringBody fuel t' (acc ++ [0x0A])
        else if e = 0x72 then parseStringBody fuel t' (acc ++ [0x0D])
        else if e = 0x74 then parseStringBody fuel t' (acc ++ [0x09])
        else if e = 0x75 then
          match hex4 t' with
          | none => none
          | some (r, t'') =>
            if isSurrogate r then
              match t'' with
              | 0x5C :: 0x75 :: t3 =>
                (match hex4 t3 with
                 | some (r2, t4) =>
                   let dec := utf16Decode r r2
                   if dec ≠ RuneError then parseStringBody fuel t4 (acc ++ encodeRune dec)
                   else parseStringBody fuel t'' (acc ++ encodeRune RuneError)
                 | none => none)
              | _ => parseStringBody fuel t'' (acc ++ encodeRune RuneError)
            else parseStringBody fuel t'' (acc ++ encodeRune r)
        else none
    else if b < 0x80 then parseStringBody fuel t (acc ++ [b])
    else
      let (r, sz) := decodeRune (b :: t)
      if r = RuneError ∧ sz = 1 then parseStringBody fuel t (acc ++ encodeRune RuneError)
      else parseStringBody fuel ((b :: t).drop sz) (acc ++ (b :: t).take sz)

def takeDigits : Bytes → Bytes × Bytes
  | [] => ([], [])
  | b :: t => if Dec.isDigit b then let (d, r) := takeDigits t; (b :: d, r) else ([], b :: t)

/-- a JSON number token: returns its text and the rest -/
def parseNumberTok (s : Bytes) : Option (Bytes × Bytes) :=
  let (sign, s1) := match s with | 0x2D :: t => ([0x2D], t) | _ => ([], s)
  let intPart : Option (Bytes × Bytes) := match s1 with
    | 0x30 :: t => some ([0x30], t)
    | b :: _ => if 0x31 ≤ b ∧ b ≤ 0x39 then some (takeDigits s1) else none
    | [] => none
  match intPart with
  | none => none
  | some (ip, s2) =>
    let fracPart : Option (Bytes × Bytes) := match s2 with
      | 0x2E :: t => let (d, r) := takeDigits t; if d.isEmpty then none else some (0x2E :: d, r)
      | _ => some ([], s2)
    match fracPart with
    | none => none
    | some (fp, s3) =>
      let expPart : Option (Bytes × Bytes) := match s3 with
        | e :: t =>
          if e = 0x65 ∨ e = 0x45 then
            let (sg, t') := match t with
              | 0x2B :: u => ([0x2B], u)
              | 0x2D :: u => ([0x2D], u)
              | _ => ([], t)
            let (d, r) := takeDigits t'
            if d.isEmpty then none else some (e :: sg ++ d, r)
          else some ([], s3)
        | [] => some ([], s3)
      match expPart with
      | none => none
      | some (ep, s4) => some (sign ++ ip ++ fp ++ ep, s4)

def maxDepth : Nat := 10000

mutual
/-- one JSON value (leading whitespace allowed); `depth` counts open containers -/
def parseValue : Nat → Nat → Bytes → Option (Val × Bytes)
  | 0, _, _ => none
  | fuel + 1, depth, s =>
    match skipWs s with
    | [] => none
    | 0x6E :: 0x75 :: 0x6C :: 0x6C :: t => some (.null, t)
    | 0x74 :: 0x72 :: 0x75 :: 0x65 :: t => some (.bool true, t)
    | 0x66 :: 0x61 :: 0x6C :: 0x73 :: 0x65 :: t => some (.bool false, t)
    | 0x22 :: t => (parseStringBody (t.length + 1) t []).map (fun (b, r) => (Val.str b, r))
    | 0x5B :: t =>
      if depth + 1 > maxDepth then none
      else match skipWs t with
        | 0x5D :: r => some (.arr .plain [], r)
        | _ => (parseElems fuel (depth + 1) t []).map (fun (xs, r) => (Val.arr .plain xs, r))
    | 0x7B :: t =>
      if depth + 1 > maxDepth then none
      else match skipWs t with
        | 0x7D :: r => some (.obj [], r)
        | _ => (parseMembers fuel (depth + 1) t []).map (fun (kvs, r) => (Val.obj kvs, r))
    | b :: t =>
      if b = 0x2D ∨ Dec.isDigit b then (parseNumberTok (b :: t)).map (fun (n, r) => (Val.num (.jnum n), r))
      else none
def parseElems : Nat → Nat → Bytes → List Val → Option (List Val × Bytes)
  | 0, _, _, _ => none
  | fuel + 1, depth, s, acc =>
    match parseValue fuel depth s with
    | none => none
    | some (v, r) =>
      match skipWs r with
      | 0x2C :: r' => parseElems fuel depth r' (acc ++ [v])
      | 0x5D :: r' => some (acc ++ [v], r')
      | _ => none
def parseMembers : Nat → Nat → Bytes → List (Bytes × Val) → Option (List (Bytes × Val) × Bytes)
  | 0, _, _, _ => none
  | fuel + 1, depth, s, acc =>
    match skipWs s with
    | 0x22 :: t =>
      (match parseStringBody (t.length + 1) t [] with
       | none => none
       | some (k, r) =>
         match skipWs r with
         | 0x3A :: r1 =>
           (match parseValue fuel depth r1 with
            | none => none
            | some (v, r2) =>
              match skipWs r2 with
              | 0x2C :: r3 => parseMembers fuel depth r3 (objInsert k v acc)
              | 0x7D :: r3 => some (objInsert k v acc, r3)
              | _ => none)
         | _ => none)
    | _ => none
end

/-- `Decoder.Decode` of one value followed only by whitespace -/
def decode (s : Bytes) : Option Val :=
  match parseValue (2 * s.length + 2) 0 s with
  | some (v, r) => if (skipWs r).isEmpty then some v else none
  | none => none

/-! ### json.Marshal -/

def hexDigit (n : Nat) : Nat := if n < 10 then 0x30 + n else 0x61 + (n - 10)

def u00 (b : Nat) : Bytes := [0x5C, 0x75, 0x30, 0x30, hexDigit (b / 16), hexDigit (b % 16)]

/-- `appendString` with HTML escaping on -/
def encStringAux : Nat → Bytes → Bytes
  | 0, _ => []
  | _, [] => []
  | fuel + 1, b :: t =>
    if b < 0x80 then
      (if b = 0x22 then [0x5C, 0x22]
       else if b = 0x5C then [0x5C, 0x5C]
       else if b = 0x08 then [0x5C, 0x62]
       else if b = 0x0C then [0x5C, 0x66]
       else if b = 0x0A then [0x5C, 0x6E]
       else if b = 0x0D then [0x5C, 0x72]
       else if b = 0x09 then [0x5C, 0x74]
       else if b < 0x20 ∨ b = 0x3C ∨ b = 0x3E ∨ b = 0x26 then u00 b
       else [b]) ++ encStringAux fuel t
    else
      let (r, sz) := decodeRune (b :: t)
      if r = RuneError ∧ sz = 1 then [0x5C, 0x75, 0x66, 0x66, 0x66, 0x64] ++ encStringAux fuel t
      else if r = 0x2028 then [0x5C, 0x75, 0x32, 0x30, 0x32, 0x38] ++ encStringAux fuel ((b :: t).drop sz)
      else if r = 0x2029 then [0x5C, 0x75, 0x32, 0x30, 0x32, 0x39] ++ encStringAux fuel ((b :: t).drop sz)
      else (b :: t).take sz ++ encStringAux fuel ((b :: t).drop sz)

def encString (s : Bytes) : Bytes := [0x22] ++ encStringAux (s.length + 1) s ++ [0x22]

def isValidNumber (s : Bytes) : Bool :=
  match parseNumberTok s with
  | some (_, []) => true
  | _ => false

def intToBytes (i : Int) : Bytes := if i < 0 then 0x2D :: Dec.natToBytes i.natAbs else Dec.natToBytes i.natAbs

def intersperse (sep : Bytes) : List Bytes → Bytes
  | [] => []
  | [x] => x
  | x :: rest => x ++ sep ++ intersperse sep rest

inductive Enc where
  | ok (b : Bytes)
  | fail            -- json.Marshal returns an error
  | unmodelled (why : String)

mutual
def encode : Val → Enc
  | .null => .ok [0x6E, 0x75, 0x6C, 0x6C]
  | .bool true => .ok [0x74, 0x72, 0x75, 0x65]
  | .bool false => .ok [0x66, 0x61, 0x6C, 0x73, 0x65]
  | .str s => .ok (encString s)
  | .num (.jnum t) => if t.isEmpty then .ok [0x30] else if isValidNumber t then .ok t else .fail
  | .num (.dec d) => (match d.marshalJSON with | some b => .ok b | none => .fail)
  | .num (.int _ v) => .ok (intToBytes v)
  | .num (.f64 _) => .unmodelled "float formatting"
  | .num (.f32 _) => .unmodelled "float formatting"
  | .arr .nil _ => .ok [0x6E, 0x75, 0x6C, 0x6C]
  | .arr _ xs => (match encodeL xs with
    | .ok parts => .ok ([0x5B] ++ parts ++ [0x5D])
    | e => e)
  | .obj kvs => (match encodeF kvs with
    | .ok parts => .ok ([0x7B] ++ parts ++ [0x7D])
    | e => e)
  | .foreign _ => .unmodelled "foreign value"
def encodeL : List Val → Enc
  | [] => .ok []
  | [x] => encode x
  | x :: rest => (match encode x with
    | .ok b => (match encodeL rest with
      | .ok r => .ok (b ++ [0x2C] ++ r)
      | e => e)
    | e => e)
def encodeF : List (Bytes × Val) → Enc
  | [] => .ok []
  | [(k, x)] => (match encode x with
    | .ok b => .ok (encString k ++ [0x3A] ++ b)
    | e => e)
  | (k, x) :: rest => (match encode x with
    | .ok b => (match encodeF rest with
      | .ok r => .ok (encString k ++ [0x3A] ++ b ++ [0x2C] ++ r)
      | e => e)
    | e => e)
end

end Json
end Jmes
