def hello := "world"
