import Jmes.Generated.Effects
import Jmes.Tie.Common
namespace Jmes.Tie
open Jmes.Generated
set_option maxRecDepth 100000

def privatePart (p : String × String) : Bool :=
  p.1 == "alloc" || p.1 == "makeSlice" || p.1 == "makeMap" || p.1 == "fresh" || p.1 == "const" || p.1 == "zero"
  || p.1 == "scalar" || p.1 == "copy" || p.1 == "initGlobal"
  || (p.1 == "perCall" && (p.2 == "*lexer.Token" || p.2 == "*lexer.Lexer" || p.2 == "*parser.parser"
        || p.2 == "*parser.writeVisitor" || p.2 == "*evaluator.evaluator" || p.2 == "*strings.Builder"))
  -- the Swap methods of the two sort helpers write through the slices the helper was built from (next theorem)
  || (p.1 == "param" && (p.2 == "evaluator.sortByString" || p.2 == "evaluator.sortByNumber"))

/-- [C06, C07] every store, map update, append, copy, delete, clear and in-place sort of the four packages writes
    memory that the call itself allocated (or per-call parser/lexer state, or a package variable during init):
    nothing is written through a parameter of type `any`, `[]any`, `map[string]any`, `parser.Node`, `*Expression`
    or `*variableScope`, nor through anything loaded from one -/
theorem effects_private : effects.all (fun e => e.root.all privatePart) = true := by decide

/-- [C06, C07, C13] the sort helpers are built from `slices.Clone` / `make` only -/
theorem sort_helpers_fresh :
    (effects.filter (fun e => e.kind == "fieldInit:*evaluator.sortByString" || e.kind == "fieldInit:*evaluator.sortByNumber")).all
      (fun e => e.root.all (fun p => p.1 == "fresh" || p.1 == "makeSlice" || p.1 == "const")) = true := by decide

/-- [C06, C07, C15] package-level state consists of error sentinels and one byte-slice constant, all written during init only
    (`effects_private` accepts stores to globals only with the `initGlobal` tag) -/
theorem globals_are_constants : globals.all (fun g => g.2.2 == "*error" || g.2.2 == "*[]byte") = true := by decide

/-- [C07] no goroutine is started by the library -/
theorem no_go_statements : (goStatements == []) = true := by decide

/-- [C06] a compiled expression holds the AST and nothing else -/
theorem expression_fields : (expressionFields == [("node", "parser.Node")]) = true := by decide

/-- library functions that read their arguments and write nothing reachable from them (trusted; see DESIGN §6.5) -/
def readOnlyCallee (k : String) : Bool :=
  ["extcall:reflect.TypeOf#0", "extcall:slices.Clone#0", "extcall:maps.Clone#0", "extcall:strings.Clone#0",
   "extcall:encoding/json.Marshal#0",
   "extcall:invoke:reflect.Type.String#0", "extcall:invoke:reflect.Type.Name#0",
   "extcall:invoke:reflect.Type.Kind#0", "extcall:invoke:reflect.Type.Elem#0",
   -- the SOURCE argument of a copying function (the destination, argument 0, must be private as any written memory)
   "extcall:maps.Copy#1", "extcall:maps.Values#0", "extcall:maps.Keys#0", "extcall:maps.All#0",
   "extcall:slices.Values#0", "extcall:slices.All#0", "extcall:slices.Collect#0", "extcall:slices.Sorted#0",
   "extcall:slices.Contains#0", "extcall:slices.Index#0", "extcall:slices.Equal#0", "extcall:slices.Equal#1"].contains k

/-- the debugging printer of the parser writes to the caller's io.Writer: allowed there and nowhere else -/
def printerCall (e : Effect) : Bool :=
  e.fn == "(*parser.writeVisitor).Visit"
    && ["extcall:invoke:io.Writer.Write#0", "extcall:invoke:io.Writer.Write#1", "extcall:fmt.Fprintf#0", "extcall:fmt.Fprintf#1",
        "extcall:fmt.Fprintf#2"].contains e.kind

/-- memory a call outside the four packages may write: what the call itself allocated, or a decoder made in this function -/
def privateArg (p : String × String) : Bool :=
  privatePart p || (p.1 == "call" && p.2 == "encoding/json.NewDecoder")

/-- [C06, C07] default deny for code outside the four packages: every argument that is not an immutable value and is
    handed to a foreign function, to a method of a foreign interface or to a function value is either memory the call
    itself allocated, or the callee is one of a short list of read-only library functions -/
theorem extcalls_safe : extCalls.all (fun e => readOnlyCallee e.kind || printerCall e || e.root.all privateArg) = true := by decide

/-- packages of the standard library (and decimal128) whose functions keep no state between calls that a caller can
    observe (trusted; `io` is reached only by the parser's debugging printer) -/
def statelessPkg (p : String) : Bool :=
  ["builtin-interface", "encoding/json", "errors", "fmt", "github.com/woodsbury/decimal128", "math", "math/big", "math/bits",
   "reflect", "slices", "maps", "sort", "strconv", "strings", "bytes", "cmp", "unicode", "unicode/utf16", "unicode/utf8"].contains p

/-- [C06, C07, C15] the library calls into no package that holds observable state (os, time, math/rand, sync, …), whatever
    the arguments -/
theorem foreign_packages_stateless :
    foreignCalls.all (fun c => statelessPkg c.2 || (c.2 == "io" && c.1 == "(*parser.writeVisitor).Visit")) = true := by decide

/-- [C06, C08] every return that can carry a nil error (or hands on the results of another function of the package) is
    dominated by a call of the parser, of the evaluator or of such a function: no entry point answers without doing the
    work; MustCompile's panic is guarded by exactly `err != nil` for the parser's error; the parser is given the
    caller's expression text unchanged -/
theorem entry_points_do_the_work :
    (successReturns.all (fun r => !r.2.isEmpty)
     && (successReturns.filter (·.1 == "jmespath.Search")).all (fun r =>
          (r.2.contains "parser.Parse" && r.2.contains "evaluator.Evaluate") || r.2.any (fun c => c != "parser.Parse" && c != "evaluator.Evaluate"))
     && (mustCompilePanicCond == "errNotNil:parser.Parse" || mustCompilePanicCond == "errNotNil:jmespath.Compile")
     && parseArgs.all (·.2) && !parseArgs.isEmpty) = true := by decide

/-- sorting functions of the standard library -/
def isSortCall (k : String) : Bool :=
  ["extcall:sort.Sort#0", "extcall:sort.Stable#0", "extcall:sort.Slice#0", "extcall:sort.SliceStable#0", "extcall:sort.Strings#0",
   "extcall:sort.Ints#0", "extcall:sort.Float64s#0", "extcall:slices.Sort#0", "extcall:slices.SortFunc#0",
   "extcall:slices.SortStableFunc#0"].contains k

/-- [C13] whatever `sort_by` sorts with (in `sortArrayBy` or in helpers it calls) is a stable sort, and it does sort:
    the order of elements with equal keys is the original one at every length -/
theorem sort_by_is_stable :
    ((extCalls.filter (fun e => reachFromSortBy.contains e.fn && isSortCall e.kind)).all
        (fun e => e.kind == "extcall:sort.Stable#0" || e.kind == "extcall:sort.SliceStable#0" || e.kind == "extcall:slices.SortStableFunc#0")
     && extCalls.any (fun e => reachFromSortBy.contains e.fn && isSortCall e.kind)) = true := by decide

def reaches (ep callee : String) : Bool :=
  entryReach.any (fun r => r.1 == ep && r.2.1.contains callee)

/-- [C06, C08] the four entry points, through whatever private helpers of the root package: one-shot `Search` runs
    `parser.Parse` and `evaluator.Evaluate`; `Compile` and `MustCompile` run `parser.Parse` and never the evaluator;
    `(*Expression).Search` runs `evaluator.Evaluate` and never the parser; only `MustCompile` can panic in the root
    package's own code -/
theorem entry_point_calls :
    (reaches "jmespath.Search" "parser.Parse" && reaches "jmespath.Search" "evaluator.Evaluate"
     && reaches "jmespath.Compile" "parser.Parse" && !reaches "jmespath.Compile" "evaluator.Evaluate"
     && reaches "jmespath.MustCompile" "parser.Parse" && !reaches "jmespath.MustCompile" "evaluator.Evaluate"
     && reaches "(*jmespath.Expression).Search" "evaluator.Evaluate" && !reaches "(*jmespath.Expression).Search" "parser.Parse"
     && entryReach.all (fun r => r.2.2 == (r.1 == "jmespath.MustCompile")) && entryReach.length == 4) = true := by decide

/-- [C08] every (value, error) return of the root package: a non-nil error comes with the literal nil value and is
    produced by one of the two mapping functions (or is handed on unchanged from another function of the package that
    obeys the same rule) -/
theorem error_returns_nil_result :
    pairReturns.all (fun r =>
      let resK := r.2.1; let resA := r.2.2.1; let errK := r.2.2.2.1; let errA := r.2.2.2.2
      errK == "nil"
      || (resK == "nil" && ((errK == "call" && (errA == "parseError" || errA == "evaluateError")) || errK == "delegate1"))
      || (resK == "delegate0" && errK == "delegate1" && resA == errA)) = true := by decide

end Jmes.Tie
