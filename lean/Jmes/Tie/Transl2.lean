/-
  Tie #3, second group: the integer preludes of the string builtins that take counts, widths and offsets —
  `pad_left` / `pad_right` (both arities), `split` with a count, `replace` with a count, `find_first` / `find_last`
  with a start and with a start and an end — TRANSLATED from the tree under test on every run
  (`Jmes/Generated/Transl2.lean`, harness/cmd/facts/transl.go) and proved to take the decisions of the hand-written
  model (`padWith`, `splitCount`, `replaceCount`, `startOffset`, `finishOffset`) for all 64-bit arguments and every
  string length, and to reach their allocations and loops only with values bounded by the sizes of input and result.
  The int variables defined before the region (`w, isNum, ok := toInt(width)`) are parameters: every 64-bit value.
  Applicability: `Jmes.Tie.TranslShape2.transl2_tables`; when it does not check this tie does not apply (NOTE).
-/
import Jmes.Tie.TranslShape2
import Jmes.Model.String
namespace Jmes.Tie
open Jmes.Generated Jmes.Tie.TranslBase

/-! ### Go's wrapping operations where they do not wrap -/

theorem wadd_eq2 (a b : Int) (h1 : -2 ^ 63 ≤ a + b) (h2 : a + b ≤ 2 ^ 63 - 1) : wadd a b = a + b := by
  simp only [wadd, wrap64]; omega
theorem wsub_eq2 (a b : Int) (h1 : -2 ^ 63 ≤ a - b) (h2 : a - b ≤ 2 ^ 63 - 1) : wsub a b = a - b := by
  simp only [wsub, wrap64]; omega
theorem wneg_eq2 (a : Int) (h1 : -2 ^ 63 < a) (h2 : a ≤ 2 ^ 63) : wneg a = -a := by
  simp only [wneg, wrap64]; omega

/-! ### padding -/

/-- what the prelude of a pad function decides -/
inductive PadPlan where
  | errNeg | errPad | orig | pad (n : Int)
deriving DecidableEq, Repr

/-- the decisions of the model's `padWith`, on the width, the code-point count of the pad string and of the subject -/
def padPlan (w rp rs : Int) : PadPlan :=
  if w < 0 then .errNeg else if rp ≠ 1 then .errPad else
  let n := w - rs
  if n ≤ 0 then .orig else .pad n

/-- three-argument forms: `ret 0` negative width, `ret 1` pad string not one code point, `ret 2` the value itself,
`reach 0` the builder loop entered with `n` pad characters to write (entered with `n ≤ 0` it writes nothing and the
result is the subject: the same outcome as returning the value, so a test `n < 0` for `n <= 0` still checks) -/
def viewPad3 : Exit → Option PadPlan
  | .ret 0 _ => some .errNeg
  | .ret 1 _ => some .errPad
  | .ret 2 _ => some .orig
  | .reach 0 [_, n] => some (if n ≤ 0 then .orig else .pad n)
  | _ => none

/-- two-argument forms (pad with spaces) -/
def viewPad2 : Exit → Option PadPlan
  | .ret 0 _ => some .errNeg
  | .ret 1 _ => some .orig
  | .reach 0 [_, n] => some (if n ≤ 0 then .orig else .pad n)
  | _ => none

/-- the model's `padWith` takes exactly the decisions of `padPlan` -/
theorem padWith_plan (left : Bool) (s p : Bytes) (w : Int) (orig : Val) :
    padWith left s w p orig = match padPlan w (runeCount p) (runeCount s) with
      | .errNeg => errValue
      | .errPad => errValue
      | .orig => .ok orig
      | .pad n =>
        if n.toNat > padLimit then .unmodelled "padding wider than the model materialises"
        else
          let pad := (List.replicate n.toNat p).foldr (· ++ ·) []
          .ok (.str (if left then pad ++ s else s ++ pad)) := by
  unfold padWith padPlan
  dsimp only
  by_cases h1 : w < 0
  · simp [h1]
  · by_cases h2 : runeCount p = 1
    · by_cases h3 : (w - (runeCount s : Int)) ≤ 0
      · simp [h1, h2, h3]
      · simp [h1, h2, h3]
    · have h2' : ¬ ((runeCount p : Nat) : Int) = 1 := by omega
      simp [h1, h2, h2']

macro "transl2_close" : tactic => `(tactic|
  all_goals first
    | rfl
    | (exfalso; omega)
    | ((try simp (disch := omega) only [wadd_eq2, wsub_eq2, wneg_eq2] at *) <;>
       first | rfl | omega | (exfalso; omega) | (simp <;> omega)))

/-- [C02, C11, C09] **`pad_left(s, w, p)` as the Go text has it**: for every 64-bit width and all code-point counts the
translated prelude takes the model's decisions — negative width and a pad string that is not one code point are
invalid-value, a width not above the code-point count of the subject returns the subject itself, and otherwise the
builder loop writes exactly `w - count(s)` pad characters -/
theorem padLeft_tie (w rp rs : Int) (hw : InRange w) (hs : 0 ≤ rs) (hs' : rs ≤ 2 ^ 62) :
    viewPad3 (T2.padLeft w rp rs) = some (padPlan w rp rs) := by
  simp only [InRange, MaxInt, MinInt] at hw
  unfold T2.padLeft padPlan
  dsimp only
  simp only [apply_ite viewPad3]
  simp only [viewPad3]
  repeat' split
  transl2_close

/-- [C02, C11, C09] `pad_right(s, w, p)` likewise -/
theorem padRight_tie (w rp rs : Int) (hw : InRange w) (hs : 0 ≤ rs) (hs' : rs ≤ 2 ^ 62) :
    viewPad3 (T2.padRight w rp rs) = some (padPlan w rp rs) := by
  simp only [InRange, MaxInt, MinInt] at hw
  unfold T2.padRight padPlan
  dsimp only
  simp only [apply_ite viewPad3]
  simp only [viewPad3]
  repeat' split
  transl2_close

/-- [C02, C11, C09] `pad_left(s, w)`: the pad string is one space -/
theorem padSpaceLeft_tie (w rs : Int) (hw : InRange w) (hs : 0 ≤ rs) (hs' : rs ≤ 2 ^ 62) :
    viewPad2 (T2.padSpaceLeft w rs) = some (padPlan w 1 rs) := by
  simp only [InRange, MaxInt, MinInt] at hw
  unfold T2.padSpaceLeft padPlan
  dsimp only
  simp only [apply_ite viewPad2]
  simp only [viewPad2]
  repeat' split
  transl2_close

/-- [C02, C11, C09] `pad_right(s, w)` likewise -/
theorem padSpaceRight_tie (w rs : Int) (hw : InRange w) (hs : 0 ≤ rs) (hs' : rs ≤ 2 ^ 62) :
    viewPad2 (T2.padSpaceRight w rs) = some (padPlan w 1 rs) := by
  simp only [InRange, MaxInt, MinInt] at hw
  unfold T2.padSpaceRight padPlan
  dsimp only
  simp only [apply_ite viewPad2]
  simp only [viewPad2]
  repeat' split
  transl2_close

/-- [C09, C03] the builder loop of a pad function is entered with `1 ≤ n ≤ w` and `n + count(s) = w`: the number of
characters written is the width of the *result*, never more -/
theorem go_pad_loop_bound (w rp rs n : Int) (hw : InRange w) (hs : 0 ≤ rs) (hs' : rs ≤ 2 ^ 62)
    (h : viewPad3 (T2.padLeft w rp rs) = some (.pad n)) : 1 ≤ n ∧ n ≤ w ∧ n + rs = w := by
  rw [padLeft_tie w rp rs hw hs hs'] at h
  unfold padPlan at h
  dsimp only at h
  repeat' split at h
  all_goals simp at h
  omega

/-- [C02, C11] **composition: what `pad_left(s, w, p)` returns, read off the Go text** — for every string, pad string,
64-bit width: when the translated prelude leaves through an error return the model's `padWith` is invalid-value, when
it returns the value the model returns the subject unchanged, and when it enters the builder loop it does so with
`n = w − count(s) > 0` and the model writes exactly `n` copies of the pad string on the left. With
`C11.padded_length` this is "the result has exactly `max(w, count(s))` code points" for the Go text. -/
theorem go_padLeft_model (s p : Bytes) (w : Int) (orig : Val) (hw : InRange w) (hs : (runeCount s : Int) ≤ 2 ^ 62) :
    match viewPad3 (T2.padLeft w (runeCount p) (runeCount s)) with
    | some .errNeg => w < 0 ∧ padWith true s w p orig = errValue
    | some .errPad => runeCount p ≠ 1 ∧ padWith true s w p orig = errValue
    | some .orig => w ≤ runeCount s ∧ padWith true s w p orig = .ok orig
    | some (.pad n) => n = w - runeCount s ∧ 0 < n ∧
        (padWith true s w p orig = .unmodelled "padding wider than the model materialises" ∨
         padWith true s w p orig = .ok (.str ((List.replicate n.toNat p).foldr (· ++ ·) [] ++ s)))
    | none => False := by
  rw [padLeft_tie w (runeCount p) (runeCount s) hw (by omega) hs, padWith_plan]
  unfold padPlan
  dsimp only
  by_cases h1 : w < 0
  · simp [h1]
  · by_cases h2 : ((runeCount p : Nat) : Int) = 1
    · by_cases h3 : w - (runeCount s : Int) ≤ 0
      · simp only [h1, h2, h3, ↓reduceIte, ne_eq, not_true_eq_false, and_true]; omega
      · simp only [h1, h2, h3, ↓reduceIte, ne_eq, not_true_eq_false, true_and]
        refine ⟨by omega, ?_⟩
        by_cases h4 : (w - (runeCount s : Int)).toNat > padLimit <;> simp [h4] <;> omega
    · have : runeCount p ≠ 1 := by omega
      simp [h1, h2, this]

/-! ### `split` with a count -/

inductive SplitPlan where
  | errNeg | whole | empty | make (n : Int)
deriving DecidableEq, Repr

/-- the decisions of the model's `splitCount` together with the clamp of the Go text: the count is cut down to the
number of separators present (code points minus one for the empty separator) before it sizes the result -/
def splitPlan (n ls lp rc cnt : Int) : SplitPlan :=
  if n < 0 then .errNeg else if n = 0 then .whole else if ls = 0 then .empty
  else if lp = 0 then .make (if n > rc - 1 then rc - 1 else n) else .make (if n > cnt then cnt else n)

def viewSplit : Exit → Option SplitPlan
  | .ret 0 _ => some .errNeg
  | .ret 1 _ => some .whole
  | .ret 2 _ => some .empty
  | .reach 0 (n :: _) => some (.make n)
  | _ => none

/-- [C02, C09, C03] **`split(s, sep, n)` as the Go text has it**: for every 64-bit count the translated prelude returns
invalid-value for a negative count, `[s]` for 0, `[]` for the empty subject, and otherwise reaches
`make([]any, n+1)` with the count cut down to the separators present -/
theorem splitCount_tie (n ls lp rc cnt : Int) (hn : InRange n) (hrc : 0 ≤ rc) (hrc' : rc ≤ 2 ^ 62)
    (hc : 0 ≤ cnt) (hc' : cnt ≤ 2 ^ 62) :
    viewSplit (T2.splitCount n ls lp rc cnt) = some (splitPlan n ls lp rc cnt) := by
  simp only [InRange, MaxInt, MinInt] at hn
  unfold T2.splitCount splitPlan
  dsimp only
  simp only [apply_ite viewSplit]
  simp only [viewSplit]
  repeat' split
  all_goals first
    | rfl
    | (exfalso; omega)
    | ((try simp (disch := omega) only [wadd_eq2, wsub_eq2, wneg_eq2] at *) <;>
       (first | rfl | omega | (exfalso; omega) | (simp only [Option.some.injEq, SplitPlan.make.injEq]; omega) | (simp <;> omega)))

/-- [C09, C03] **`make([]any, n+1)` in the Go text of `split`** is reached with `0 ≤ n`, `n` at most the count given and
at most the number of separators present (a non-empty subject has at least one code point): the allocation cannot
panic and is sized by the result, never by the magnitude of the count -/
theorem go_split_make_safe (n ls lp rc cnt m : Int) (hn : InRange n) (hrc : 1 ≤ rc) (hrc' : rc ≤ 2 ^ 62)
    (hc : 0 ≤ cnt) (hc' : cnt ≤ 2 ^ 62)
    (h : viewSplit (T2.splitCount n ls lp rc cnt) = some (.make m)) :
    0 ≤ m ∧ m ≤ n ∧ (m ≤ rc - 1 ∨ m ≤ cnt) ∧ m + 1 ≤ 2 ^ 62 + 1 := by
  rw [splitCount_tie n ls lp rc cnt hn (by omega) hrc' hc hc'] at h
  unfold splitPlan at h
  repeat' split at h
  all_goals simp at h
  all_goals omega

/-- the model's `splitCount` takes the decisions of `splitPlan` (the model clamps inside `splitRunes` / `splitOn`) -/
theorem splitCount_model (s p : Bytes) (count : Val) (n : Int) (h : intArg count = .ok n) :
    (n < 0 → Jmes.splitCount (.str s) (.str p) count = errValue) ∧
    (n = 0 → Jmes.splitCount (.str s) (.str p) count = .ok (.arr .plain [.str s])) ∧
    (0 < n → s = [] → Jmes.splitCount (.str s) (.str p) count = .ok (.arr .plain [])) ∧
    (0 < n → s ≠ [] → Jmes.splitCount (.str s) (.str p) count =
        if p.isEmpty then .ok (strsToArr (splitRunes s (some n.toNat))) else .ok (strsToArr (splitOn s p (some n.toNat)))) := by
  unfold Jmes.splitCount
  simp only [strArg, h, bind, Res.bind, pure]
  refine ⟨fun h1 => by simp [h1], fun h2 => by simp [h2], fun h1 h2 => ?_, fun h1 h2 => ?_⟩
  · have : ¬ n < 0 := by omega
    have : ¬ n = 0 := by omega
    simp [*]
  · have : ¬ n < 0 := by omega
    have : ¬ n = 0 := by omega
    cases s with
    | nil => exact absurd rfl h2
    | cons a s => cases p <;> simp [*]

/-! ### `split` without a count -/

/-- `ret 0` the empty result; `reach 0` is `make([]any, n+1)`: `n` is the first frame variable, or — declared inside the
branch for the empty separator — the value appended after the frame -/
def viewSplit0 : Exit → Option (Option Int)
  | .ret 0 _ => some none
  | .reach 0 [_, _, n] => some (some n)
  | .reach 0 [n, _] => some (some n)
  | _ => none

/-- [C02, C11, C09] **`split(s, sep)` as the Go text has it**: the empty subject gives `[]`; otherwise `make([]any, n+1)` is
reached with `n` the number of code points minus one for the empty separator (one element per code point) and the
number of occurrences of the separator otherwise -/
theorem split_tie (ls lp rc cnt : Int) (hrc : 0 ≤ rc) (hrc' : rc ≤ 2 ^ 62) :
    viewSplit0 (T2.split ls lp rc cnt) = some (if ls = 0 then none else if lp = 0 then some (rc - 1) else some cnt) := by
  unfold T2.split
  dsimp only
  simp only [apply_ite viewSplit0]
  simp only [viewSplit0]
  repeat' split
  transl2_close

/-- [C03, C09] `make([]any, n+1)` in the Go text of `split` is reached with `n ≥ 0` (a non-empty subject has at least one
code point; a count of occurrences is not negative): the allocation cannot panic and has one cell per element of the
result -/
theorem go_split0_make_safe (ls lp rc cnt n : Int) (hrc : 1 ≤ rc) (hrc' : rc ≤ 2 ^ 62) (hc : 0 ≤ cnt)
    (h : viewSplit0 (T2.split ls lp rc cnt) = some (some n)) : 0 ≤ n ∧ (n = rc - 1 ∨ n = cnt) := by
  rw [split_tie ls lp rc cnt (by omega) hrc'] at h
  repeat' split at h
  all_goals simp at h
  all_goals omega

example : viewSplit0 (T2.split 5 0 3 0) = some (some 2) ∧ viewSplit0 (T2.split 5 1 3 4) = some (some 4)
    ∧ viewSplit0 (T2.split 0 1 0 0) = some none := by decide

/-! ### `replace` with a count -/

/-- [C02] **`replace(s, old, new, n)` as the Go text has it**: a negative count is invalid-value, every other 64-bit
count reaches `strings.Replace` unchanged -/
theorem replaceCount_tie (n : Int) :
    T2.replaceCount n = if n < 0 then .ret 0 [n] else .ret 1 [n] := by
  unfold T2.replaceCount
  repeat' split
  all_goals first | rfl | (exfalso; omega)

/-! ### `find_first` / `find_last` with a start, and with a start and an end -/

inductive FindPlan where
  | null
  | found (i r : Int)        -- searched from byte offset `i`; result `r`
  | iloop (i : Int)          -- the loop converting the start position is entered with `i`
deriving DecidableEq, Repr

def viewFrom : Exit → Option FindPlan
  | .ret 0 _ => some .null
  | .ret 1 [i, r] => some (.found i r)
  | .reach 0 (i :: _) => some (.iloop i)
  | _ => none

/-- the decisions of the model's `startOffset`: a negative start searches from offset 0, a start beyond the byte
length is null, anything else is converted from code points to bytes by a loop of `i` steps -/
def fromPlan (i idx rc len : Int) : FindPlan :=
  if i < 0 then (if idx = -1 then .null else .found 0 rc) else if i > len then .null else .iloop i

theorem startOffset_plan (s : Bytes) (i : Int) :
    startOffset s i = if i < 0 then some 0 else if i > s.length then none else runeOffset i.toNat s 0 := rfl

/-- [C02, C11, C09] **`find_first(s, sub, start)` as the Go text has it** -/
theorem findFirstFrom_tie (i idx rc len : Int) :
    viewFrom (T2.findFirstFrom i idx rc len) = some (fromPlan i idx rc len) := by
  unfold T2.findFirstFrom fromPlan
  dsimp only
  simp only [apply_ite viewFrom]
  simp only [viewFrom]
  repeat' split
  transl2_close

/-- [C02, C11, C09] `find_last(s, sub, start)` likewise -/
theorem findLastFrom_tie (i idx rc len : Int) :
    viewFrom (T2.findLastFrom i idx rc len) = some (fromPlan i idx rc len) := by
  unfold T2.findLastFrom fromPlan
  dsimp only
  simp only [apply_ite viewFrom]
  simp only [viewFrom]
  repeat' split
  transl2_close

/-- [C09, C03] the conversion loop is entered only with `0 ≤ i ≤ len(s)`: however large the start, the loop runs at
most `len(s)` times, and `s[0:]` is the only slice taken without it -/
theorem go_find_loop_bound (i idx rc len k : Int) (h : viewFrom (T2.findFirstFrom i idx rc len) = some (.iloop k)) :
    0 ≤ k ∧ k ≤ len ∧ k = i := by
  rw [findFirstFrom_tie] at h
  unfold fromPlan at h
  repeat' split at h
  all_goals simp at h
  omega

inductive BetweenPlan where
  | null
  | found (i j r : Int)
  | jloop (i j : Int)        -- start already converted (`i`), the end-position loop is entered with `j`
  | iloop (i j : Int)        -- the start-position loop is entered with `i`; `j` still to be converted
deriving DecidableEq, Repr

def viewBetween : Exit → Option BetweenPlan
  | .ret 0 _ => some .null
  | .ret 1 [i, j, r] => some (.found i j r)
  | .reach 0 (i :: j :: _) => some (.jloop i j)
  | .reach 1 (i :: j :: _) => some (.iloop i j)
  | _ => none

/-- the decisions of the model's `startOffset` followed by `finishOffset` and the test `i > j` -/
def betweenPlan (i j len idx rc : Int) : BetweenPlan :=
  if i < 0 then
    (if j < 0 then .null
     else if j > len then (if 0 > len then .null else if idx = -1 then .null else .found 0 len rc)
     else .jloop 0 j)
  else if i > len then .null else .iloop i j

theorem finishOffset_plan (s : Bytes) (j : Int) :
    finishOffset s j = if j < 0 then none else if j > s.length then some s.length
      else some ((runeOffset j.toNat s 0).getD s.length) := rfl

/-- [C02, C11, C09] **`find_first(s, sub, start, end)` as the Go text has it**: negative start is offset 0, start beyond
the byte length is null, negative end is null, end beyond the byte length is the byte length -/
theorem findFirstBetween_tie (i j len idx rc : Int) :
    viewBetween (T2.findFirstBetween i j len idx rc) = some (betweenPlan i j len idx rc) := by
  unfold T2.findFirstBetween betweenPlan
  dsimp only
  simp only [apply_ite viewBetween]
  simp only [viewBetween]
  repeat' split
  transl2_close

/-- [C02, C11, C09] `find_last(s, sub, start, end)` likewise -/
theorem findLastBetween_tie (i j len idx rc : Int) :
    viewBetween (T2.findLastBetween i j len idx rc) = some (betweenPlan i j len idx rc) := by
  unfold T2.findLastBetween betweenPlan
  dsimp only
  simp only [apply_ite viewBetween]
  simp only [viewBetween]
  repeat' split
  transl2_close

/-- [C09, C03] both conversion loops are entered only with positions between 0 and `len(s)` -/
theorem go_between_loop_bound (i j len idx rc a b : Int) (hl : 0 ≤ len) :
    (viewBetween (T2.findFirstBetween i j len idx rc) = some (.jloop a b) → a = 0 ∧ 0 ≤ b ∧ b ≤ len) ∧
    (viewBetween (T2.findFirstBetween i j len idx rc) = some (.iloop a b) → 0 ≤ a ∧ a ≤ len) := by
  rw [findFirstBetween_tie]
  unfold betweenPlan
  constructor <;> intro h <;> repeat' split at h
  all_goals simp at h
  all_goals omega

/-- non-vacuity: the translated code on concrete arguments -/
example : viewPad3 (T2.padLeft 5 1 3) = some (.pad 2) ∧ viewPad3 (T2.padLeft 3 1 3) = some .orig
    ∧ viewPad3 (T2.padLeft (-1) 1 3) = some .errNeg ∧ viewPad3 (T2.padLeft 5 2 3) = some .errPad := by decide
example : viewSplit (T2.splitCount (2 ^ 63 - 1) 5 1 5 2) = some (.make 2)
    ∧ viewSplit (T2.splitCount (2 ^ 63 - 1) 5 0 5 0) = some (.make 4) := by decide
example : viewFrom (T2.findFirstFrom (2 ^ 63 - 1) 0 0 5) = some .null
    ∧ viewFrom (T2.findFirstFrom (-(2 ^ 63)) 3 3 5) = some (.found 0 3) := by decide
example : viewBetween (T2.findFirstBetween 1 (2 ^ 63 - 1) 5 0 0) = some (.iloop 1 (2 ^ 63 - 1)) := by decide

end Jmes.Tie
