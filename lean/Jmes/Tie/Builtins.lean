import Jmes.Tie.Common
namespace Jmes.Tie
open Jmes.Generated
set_option maxRecDepth 100000

/-- shape of a Go argument parser -/
def argShape : String → Option (Nat × Option Nat × Nat)   -- (min, max, special: 0 none, 1 exp, 2 map, 3 var)
  | "function1Arg" => some (1, some 1, 0)
  | "function1To2Arg" => some (1, some 2, 0)
  | "function2Arg" => some (2, some 2, 0)
  | "function2To3Arg" => some (2, some 3, 0)
  | "function2To4Arg" => some (2, some 4, 0)
  | "function3To4Arg" => some (3, some 4, 0)
  | "function2ExpArg" => some (2, some 2, 1)
  | "function2MapArg" => some (2, some 2, 2)
  | "functionVarArg" => some (1, none, 3)
  | _ => none

def specShape : Parser.ArgSpec → Nat × Option Nat × Nat
  | .fixed mn mx _ => (mn, some mx, 0)
  | .expArg _ => (2, some 2, 1)
  | .mapArg _ => (2, some 2, 2)
  | .varArg _ => (1, none, 3)

/-- [C02, C08] the builtin table: the same set of names, each once, same arity class for each -/
theorem builtin_names :
    (sameSet (builtins.map (fun r => r.2.1)) (Parser.builtinTable.map (·.1))
     && (builtins.length == Parser.builtinTable.length)) = true := by decide

/-- [C02, C08] arity classes -/
theorem builtin_arities :
    builtins.all (fun r => match Parser.lookupBuiltin r.2.1, argShape r.2.2.1 with
      | some spec, some sh => specShape spec == sh
      | _, _ => false) = true := by decide

/-- name of the Go node type the model's constructor mirrors -/
def nodeName : INode → String
  | .call f _ => (match f with
    | .abs => "AbsNode" | .avg => "AvgNode" | .ceil => "CeilNode" | .contains => "ContainsNode" | .endsWith => "EndsWithNode"
    | .findFirst => "FindFirstNode" | .findFirstBetween => "FindFirstBetweenNode" | .findFirstFrom => "FindFirstFromNode"
    | .findLast => "FindLastNode" | .findLastBetween => "FindLastBetweenNode" | .findLastFrom => "FindLastFromNode"
    | .floor => "FloorNode" | .fromItems => "FromItemsNode" | .items => "ItemsNode" | .join => "JoinNode" | .keys => "KeysNode"
    | .length => "LengthNode" | .lower => "LowerNode" | .max => "MaxNode" | .min => "MinNode" | .padLeft => "PadLeftNode"
    | .padRight => "PadRightNode" | .padSpaceLeft => "PadSpaceLeftNode" | .padSpaceRight => "PadSpaceRightNode"
    | .replace => "ReplaceNode" | .replaceCount => "ReplaceCountNode" | .reverse => "ReverseNode" | .sort => "SortNode"
    | .split => "SplitNode" | .splitCount => "SplitCountNode" | .startsWith => "StartsWithNode" | .sum => "SumNode"
    | .toArray => "ToArrayNode" | .toNumber => "ToNumberNode" | .toString => "ToStringNode" | .trim => "TrimNode"
    | .trimLeft => "TrimLeftNode" | .trimRight => "TrimRightNode" | .trimSpace => "TrimSpaceNode"
    | .trimSpaceLeft => "TrimSpaceLeftNode" | .trimSpaceRight => "TrimSpaceRightNode" | .type => "TypeNode"
    | .upper => "UpperNode" | .values => "ValuesNode")
  | .groupBy .. => "GroupByNode" | .map .. => "MapNode" | .maxBy .. => "MaxByNode" | .minBy .. => "MinByNode"
  | .sortBy .. => "SortByNode" | .merge .. => "MergeNode" | .notNull .. => "NotNullNode" | .zip .. => "ZipNode"
  | _ => "?"

/-- the nodes the model builds for each accepted argument count -/
def builtNodes : Parser.ArgSpec → List String
  | .fixed mn mx mk => (List.range (mx + 1 - mn)).map (fun i => nodeName (mk (List.replicate (mn + i) .current)))
  | .expArg mk => [nodeName (mk .current .current)]
  | .mapArg mk => [nodeName (mk .current .current)]
  | .varArg mk => [nodeName (mk [.current])]

/-- [C02] for every builtin and every accepted argument count the model builds the node Go builds
    (Go's source lists them by increasing count, except that `trim…`/`pad…`/`split`/`replace` list the short form
    first as well — compared as sets in source order) -/
theorem builtin_nodes :
    builtins.all (fun r => match Parser.lookupBuiltin r.2.1 with
      | some spec => (builtNodes spec).all (fun n => r.2.2.2.contains n) && r.2.2.2.all (fun n => (builtNodes spec).contains n)
      | none => false) = true := by decide


/-- [C02, C08] every field of the node a builtin's case builds is initialised with an argument as the argument parser
    returned it — a plain local (`arg`, `arg1` … `args`, `args[i]`), never a part of it, a call or a conversion: no case
    looks inside its arguments to build something other than the call that was written (`length(keys(x))` stays a
    `length` of a `keys`) -/
theorem builtin_args_plain :
    builtinInits.all (fun row => row.2.all (fun leaf =>
      ["arg", "arg1", "arg2", "arg3", "arg4", "arg5", "args", "args[0]", "args[1]", "args[2]", "args[3]", "args[1:]",
        "args[2:]", "first", "second", "third", "fourth", "rest", "a", "b", "c", "d", "x", "y"].contains leaf)) = true := by
  decide

end Jmes.Tie
