/-
  Tie #1 (DESIGN.md §2.4, §6): the facts regenerated from /repo's working tree on every run
  (Jmes/Generated/*.lean, written by harness/cmd/facts) agree with the hand-written model.
  One module per group of facts, so that a broken obligation is attributed to the properties it serves
  (the tag in brackets in each doc comment) and to no others.
-/
import Jmes.Generated.Tables
import Jmes.Model.Api
namespace Jmes.Tie
open Jmes.Generated

def tokOfName : String → Option TokenType
  | "UnknownToken" => some .unknown
  | "EndToken" => some .«end»
  | "OpenBraceToken" => some .openBrace
  | "CloseBraceToken" => some .closeBrace
  | "OpenParenToken" => some .openParen
  | "CloseParenToken" => some .closeParen
  | "OpenSqBraceToken" => some .openSqBrace
  | "CloseSqBraceToken" => some .closeSqBrace
  | "AddToken" => some .add
  | "AndToken" => some .and
  | "ArrayWildcardToken" => some .arrayWildcard
  | "AssignToken" => some .assign
  | "AsteriskToken" => some .asterisk
  | "ColonToken" => some .colon
  | "CommaToken" => some .comma
  | "DivideToken" => some .divide
  | "DotToken" => some .dot
  | "EqualToken" => some .equal
  | "FilterToken" => some .filter
  | "FlattenToken" => some .flatten
  | "InToken" => some .«in»
  | "GreaterToken" => some .greater
  | "GreaterOrEqualToken" => some .greaterOrEqual
  | "IntegerDivideToken" => some .integerDivide
  | "LessToken" => some .less
  | "LessOrEqualToken" => some .lessOrEqual
  | "LetToken" => some .«let»
  | "ModuloToken" => some .modulo
  | "MultiplyToken" => some .multiply
  | "NotToken" => some .not
  | "NotEqualToken" => some .notEqual
  | "ObjectWildcardToken" => some .objectWildcard
  | "OrToken" => some .or
  | "PipeToken" => some .pipe
  | "SubtractToken" => some .subtract
  | "CurrentToken" => some .current
  | "ExpressionToken" => some .expression
  | "IntegerLiteralToken" => some .integerLiteral
  | "JSONLiteralToken" => some .jsonLiteral
  | "QuotedIdentifierToken" => some .quotedIdentifier
  | "RootToken" => some .root
  | "UnquotedIdentifierToken" => some .unquotedIdentifier
  | "StringLiteralToken" => some .stringLiteral
  | "VariableToken" => some .variable
  | _ => none

/-- equal as sets: the order of the cases of a Go type switch / rune switch carries no meaning -/
def sameSet {α} [BEq α] (a b : List α) : Bool := a.all (b.contains ·) && b.all (a.contains ·)

def allTokens : List TokenType := [.unknown, .«end», .openBrace, .closeBrace, .openParen, .closeParen, .openSqBrace, .closeSqBrace, .add, .and, .arrayWildcard, .assign, .asterisk, .colon, .comma, .divide, .dot, .equal, .filter, .flatten, .«in», .greater, .greaterOrEqual, .integerDivide, .less, .lessOrEqual, .«let», .modulo, .multiply, .not, .notEqual, .objectWildcard, .or, .pipe, .subtract, .current, .expression, .integerLiteral, .jsonLiteral, .quotedIdentifier, .root, .unquotedIdentifier, .stringLiteral, .variable]



end Jmes.Tie
