/-
  Vocabulary of the regenerated translation `Jmes/Generated/Transl.lean` (harness/cmd/facts/transl.go): the ways out of
  a translated integer prelude and Go's 64-bit integer operations.
-/
import Jmes.Model.Slice
namespace Jmes.Tie.TranslBase

/-- how control leaves the translated code: a `return` (index into the region's table of return texts), the first
statement the translator does not follow (index into the table of such statements), or a division by zero -/
inductive Exit where
  | ret (k : Nat) (env : List Int)
  | reach (k : Nat) (env : List Int)
  | divz
deriving DecidableEq, Repr

def wadd (a b : Int) : Int := wrap64 (a + b)
def wsub (a b : Int) : Int := wrap64 (a - b)
def wmul (a b : Int) : Int := wrap64 (a * b)
def wneg (a : Int) : Int := wrap64 (-a)
/-- Go's `/` on `int`: truncated quotient; `MinInt / -1` wraps -/
def wquo (a b : Int) : Int := wrap64 (Int.tdiv a b)

def InRange (i : Int) : Prop := MinInt ≤ i ∧ i ≤ MaxInt

end Jmes.Tie.TranslBase
