import Jmes.Tie.Common
namespace Jmes.Tie
open Jmes.Generated
set_option maxRecDepth 100000

def sentinelCat : String → Option Cat
  | "ErrSyntax" => some .syntax | "ErrInvalidArity" => some .arity | "ErrUnknownFunction" => some .unknownFunction
  | "ErrInvalidType" => some .invalidType | "ErrInvalidValue" => some .invalidValue | "ErrNotANumber" => some .notANumber
  | "ErrUndefinedVariable" => some .undefinedVariable | "ErrEvaluationFailed" => some .evaluationFailed
  | _ => none

def publicCat (ty : String) : Option Cat :=
  match isTable.find? (fun r => r.1 == "jmespath" && r.2.1 == ty) with
  | some r => sentinelCat r.2.2
  | none => none

def perrGoName : PErr → String
  | .invalidFunctionArgument => "InvalidFunctionArgumentError"
  | .invalidFunctionCall => "InvalidFunctionCallError"
  | .invalidSliceStep => "InvalidSliceStepError"
  | .unknownFunction => "UnknownFunctionError"
  | _ => "<fallback>"

/-- [C08] … and composing Go's `parseError` with the `Is` methods gives the model's `parseCat` for every parser error -/
theorem parse_cat_tie :
    [PErr.lex .invalidRune, .lex .unexpectedEnd, .lex (.unexpectedRune 0), .unexpectedToken, .invalidFunctionArgument,
     .invalidFunctionCall, .invalidSliceStep, .unknownFunction, .invalidIndex, .invalidJSONLiteral, .invalidQuotedString].all
      (fun e => match parseErrorMap.find? (fun r => r.1 == perrGoName e) with
        | some r => publicCat r.2 == some (parseCat e)
        | none => false) = true := by decide

/-- [C08] every public error type matches exactly one sentinel, and the evaluator's categories map as the model says -/
theorem evaluate_cat_tie :
    ((evaluateErrorMap.zip [Cat.invalidType, .invalidValue, .notANumber, .notANumber, .undefinedVariable, .evaluationFailed]).all
        (fun p => p.1.2 == "" || publicCat p.1.2 == some p.2)   -- "" = built inside a helper the extractor does not follow
     && evaluateErrorMap.length == 6) = true := by decide


/-- [C08] every public error type of package jmespath matches exactly one sentinel (one `Is` method per type,
    comparing with one of the eight exported sentinels) -/
theorem public_errors_one_sentinel :
    ((isTable.filter (fun r => r.1 == "jmespath")).all (fun r =>
        (sentinelCat r.2.2).isSome
        && ((isTable.filter (fun q => q.1 == "jmespath" && q.2.1 == r.2.1)).length == 1))) = true := by decide

/-- [C08] every error type that `parseError` / `evaluateError` can return is one of those -/
theorem mapped_errors_are_public :
    ((parseErrorMap ++ evaluateErrorMap).all (fun r => r.2 == "" || (publicCat r.2).isSome)) = true := by decide

/-- [C08] every internal evaluator error with an `Is` method matches a sentinel that `evaluateError` tests for, so it is
    never reported as evaluation-failed by accident -/
theorem evaluator_errors_mapped :
    ((isTable.filter (fun r => r.1 == "evaluator")).all (fun r =>
        evaluateErrorMap.any (fun m => m.1 == r.2.2) || r.2.2 == "ErrUndefinedVariable")) = true := by decide

end Jmes.Tie
