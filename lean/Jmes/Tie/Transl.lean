/-
  Tie #3: the integer preludes of `slice`, `sliceStep` and `index`, TRANSLATED from the tree under test on every run
  (`Jmes/Generated/Transl.lean`, written by harness/cmd/facts/transl.go), are proved equal to the hand-written model
  functions `clamp1`, `clampStep` and `index`'s bound arithmetic for every length and all 64-bit arguments. The C12
  theorems (`clamp1_spec`, `clampStep_spec`: the clamps are Python's `slice.indices`) and the C03 theorems about these
  functions therefore speak about what the Go text says now, not about a model compared with it by sampling.
  `Jmes.Tie.TranslShape.transl_tables` (built first) says that the translator still recognises the five regions with
  the frames and exits the views below interpret. When it does not — the code was restructured beyond what the
  translator follows, e.g. the clamp moved into a helper with several results — this tie does not apply to the tree
  under test and the check falls back on the correspondence tie alone for these functions (a NOTE, not a violation).
  When it does, every theorem below is an obligation.
  The proofs are by case analysis on the generated decision tree and linear arithmetic: a rewrite of the Go code that
  computes the same bounds still checks; one that does not breaks the theorem naming the region.
-/
import Jmes.Tie.TranslShape
import Jmes.Properties.C12
import Jmes.Properties.C09
namespace Jmes.Tie
open Jmes.Generated Jmes.Tie.TranslBase Jmes.C12 Jmes.Spec

/-- `index`: `ret 0` is `return nil`, `ret 1` is `return a[i]` with the final `i` -/
def viewIndex : Exit → Option (Option Int)
  | .ret 0 _ => some none
  | .ret 1 [i] => some (some i)
  | _ => none

/-- the model's bound arithmetic of `index` -/
def indexBound (l i : Int) : Option Int :=
  let j := if i < 0 then i + l else i
  if j < 0 ∨ j ≥ l then none else some j

/-- `slice` on arrays: `ret 0` is the empty result, `ret 1` is `a[start:stop]` -/
def viewSliceArr : Exit → Option (Option (Int × Int))
  | .ret 0 _ => some none
  | .ret 1 [start, stop, _] => some (some (start, stop))
  | _ => none

/-- `slice` on strings: `ret 0` is `""`, `reach 0` the two rune loops entered with the final `start`, `stop` -/
def viewSliceStr : Exit → Option (Option (Int × Int))
  | .ret 0 _ => some none
  | .reach 0 (start :: stop :: _) => some (some (start, stop))
  | _ => none

/-- `sliceStep`: `ret 0` is the empty result, `reach 0` the copy loop entered with the final `start` and `n` -/
def viewStep : Exit → Option (Option (Int × Int))
  | .ret 0 _ => some none
  | .reach 0 [start, _, _, _, n] => some (some (start, n))
  | _ => none


/-! ### arithmetic of Go's wrapping operations where they do not wrap -/

theorem wadd_eq (a b : Int) (h1 : -2 ^ 63 ≤ a + b) (h2 : a + b ≤ 2 ^ 63 - 1) : wadd a b = a + b := by
  simp only [wadd, wrap64]; omega
theorem wsub_eq (a b : Int) (h1 : -2 ^ 63 ≤ a - b) (h2 : a - b ≤ 2 ^ 63 - 1) : wsub a b = a - b := by
  simp only [wsub, wrap64]; omega
theorem wneg_eq (a : Int) (h1 : -2 ^ 63 < a) (h2 : a ≤ 2 ^ 63) : wneg a = -a := by
  simp only [wneg, wrap64]; omega

theorem tdiv_bounds (c s : Int) (hc : 0 ≤ c) : -c ≤ Int.tdiv c s ∧ Int.tdiv c s ≤ c := by
  have := Int.natAbs_tdiv_le_natAbs c s
  omega

theorem wquo_eq (c s : Int) (hc : 0 ≤ c) (hc' : c ≤ 2 ^ 62) : wquo c s = Int.tdiv c s := by
  have := tdiv_bounds c s hc
  simp only [wquo, wrap64]; omega

theorem wadd_tdiv_one (c s : Int) (hc : 0 ≤ c) (hc' : c ≤ 2 ^ 62) : wadd (Int.tdiv c s) 1 = Int.tdiv c s + 1 := by
  have := tdiv_bounds c s hc
  simp only [wadd, wrap64]; omega

theorem tmod_ne_zero_eq (c s : Int) (hc : 0 ≤ c) : (Int.tmod c s ≠ 0) = (Int.tmod c s > 0) := by
  have := Int.tmod_nonneg s hc
  apply propext; constructor <;> intro h <;> omega

theorem tmod_eq_zero_eq (c s : Int) (hc : 0 ≤ c) : (Int.tmod c s = 0) = ¬ (Int.tmod c s > 0) := by
  have := Int.tmod_nonneg s hc
  apply propext; constructor <;> intro h <;> omega

def flatCnt (a c s : Int) : Option (Int × Int) :=
  if Int.tmod c s > 0 then some (a, Int.tdiv c s + 1) else some (a, Int.tdiv c s)

def flatStopPos (l a stop step : Int) : Option (Int × Int) :=
  if stop < 0 then (if stop < -l then none else if a ≥ stop + l then none else flatCnt a (stop + l - a) step)
  else if stop > l then (if a ≥ l then none else flatCnt a (l - a) step)
  else if a ≥ stop then none else flatCnt a (stop - a) step

def flatStopNeg (l a stop s : Int) : Option (Int × Int) :=
  if stop < 0 then (if stop < -l then (if a ≤ -1 then none else flatCnt a (a - (-1)) s)
                    else if a ≤ stop + l then none else flatCnt a (a - (stop + l)) s)
  else if stop ≥ l then none
  else if a ≤ stop then none else flatCnt a (a - stop) s

def flatClampStep (l start stop step : Int) : Option (Int × Int) :=
  if step > 0 then
    if start < 0 then (if start < -l then flatStopPos l 0 stop step else flatStopPos l (start + l) stop step)
    else if start ≥ l then none else flatStopPos l start stop step
  else
    if start < 0 then (if start < -l then none else flatStopNeg l (start + l) stop (wmul step (-1)))
    else if start ≥ l then flatStopNeg l (l - 1) stop (wmul step (-1)) else flatStopNeg l start stop (wmul step (-1))

theorem clampStep_flat (l start stop step : Int) : clampStep l start stop step = flatClampStep l start stop step := by
  unfold clampStep flatClampStep flatStopPos flatStopNeg flatCnt wmul
  repeat' split
  all_goals first | (simp_all; done) | (simp_all; omega)

def flatStop1 (l a stop : Int) : Option (Int × Int) :=
  if stop < 0 then (if stop < -l then none else some (a, stop + l))
  else if stop ≥ l then some (a, l) else some (a, stop)

def flatClamp1 (l start stop : Int) : Option (Int × Int) :=
  if start < 0 then (if start < -l then flatStop1 l 0 stop else flatStop1 l (start + l) stop)
  else if start ≥ l then none else flatStop1 l start stop

theorem clamp1_flat (l start stop : Int) : clamp1 l start stop = flatClamp1 l start stop := by
  unfold clamp1 flatClamp1 flatStop1
  repeat' split
  all_goals simp_all


macro "transl_close" : tactic => `(tactic|
  all_goals first
    | rfl
    | (exfalso; omega)
    | ((try simp (disch := omega) only [wneg_eq] at *) <;>
       (try simp (disch := omega) only [wadd_eq, wsub_eq, wneg_eq] at *) <;>
       (try simp (disch := omega) only [wadd_eq, wsub_eq, wneg_eq, wquo_eq, wadd_tdiv_one, tmod_ne_zero_eq,
         tmod_eq_zero_eq] at *) <;>
       first | rfl | omega | (exfalso; omega) | (simp only [Option.some.injEq, Prod.mk.injEq]; omega) | (simp <;> omega)))

/-- [C01, C03] **`index` as the Go text has it** (regenerated): for every array length and every 64-bit index the
translated code returns `nil` or `a[j]` exactly as the model's `index` does — in particular `0 ≤ j < len(a)`, the
access cannot panic, and a negative index counts from the end. -/
theorem index_tie (l i : Int) (hl : 0 ≤ l) (hl' : l ≤ 2 ^ 62) (hi : InRange i) :
    viewIndex (T.index i l) = some (indexBound l i) := by
  simp only [InRange, MaxInt, MinInt] at hi
  unfold T.index indexBound
  dsimp only
  simp only [apply_ite viewIndex]
  simp only [viewIndex]
  repeat' split
  transl_close

/-- [C03] the index handed to `a[i]` is in range -/
theorem index_safe (l i j : Int) (hl : 0 ≤ l) (hl' : l ≤ 2 ^ 62) (hi : InRange i)
    (h : viewIndex (T.index i l) = some (some j)) : 0 ≤ j ∧ j < l := by
  rw [index_tie l i hl hl' hi] at h
  unfold indexBound at h
  dsimp only at h
  split at h <;> simp at h
  all_goals omega

/-- the model's `index` is `indexBound` followed by the element access -/
theorem index_model (t : ATag) (xs : List Val) (i : Int) :
    Jmes.index (.arr t xs) i = match indexBound xs.length i with
      | none => .ok .null
      | some j => if enum2 t xs then .nondet else .ok (xs.getD j.toNat .null) := by
  unfold Jmes.index indexBound
  dsimp only
  split <;> split <;> simp_all

/-- [C12, C01] **`slice` on arrays as the Go text has it**: the bounds reaching `a[start:stop]`, or the empty result, are
the model's `clamp1` followed by its emptiness test, for every length and all 64-bit bounds -/
theorem slice_arr_tie (l start stop : Int) (hl : 0 ≤ l) (hl' : l ≤ 2 ^ 62) (h1 : InRange start) (h2 : InRange stop) :
    viewSliceArr (T.slice_arr start stop l) =
      some ((clamp1 l start stop).bind fun p => if p.1 ≥ p.2 then none else some p) := by
  simp only [InRange, MaxInt, MinInt] at h1 h2
  rw [clamp1_flat]
  unfold T.slice_arr flatClamp1 flatStop1
  dsimp only
  simp only [apply_ite viewSliceArr]
  simp only [viewSliceArr]
  repeat' split
  transl_close

/-- [C03] `a[start:stop]` is reached only with `0 ≤ start < stop ≤ len(a)`: the slice expression cannot panic -/
theorem slice_arr_safe (l start stop a b : Int) (hl : 0 ≤ l) (hl' : l ≤ 2 ^ 62) (h1 : InRange start)
    (h2 : InRange stop) (h : viewSliceArr (T.slice_arr start stop l) = some (some (a, b))) :
    0 ≤ a ∧ a < b ∧ b ≤ l := by
  simp only [InRange, MaxInt, MinInt] at h1 h2
  unfold T.slice_arr at h
  dsimp only at h
  simp only [apply_ite viewSliceArr] at h
  simp only [viewSliceArr] at h
  repeat' split at h
  all_goals first
    | (simp at h; done)
    | (simp at h; omega)
    | ((try simp (disch := omega) only [wneg_eq] at *) <;>
       (try simp (disch := omega) only [wadd_eq, wsub_eq, wneg_eq] at *) <;> simp at h <;> omega)

/-- [C12, C11] **`slice` on strings as the Go text has it**: the rune loops are entered with the model's `clamp1`
bounds over the code-point count -/
theorem slice_str_tie (l start stop : Int) (hl : 0 ≤ l) (hl' : l ≤ 2 ^ 62) (h1 : InRange start) (h2 : InRange stop) :
    viewSliceStr (T.slice_str start stop l) = some (clamp1 l start stop) := by
  simp only [InRange, MaxInt, MinInt] at h1 h2
  rw [clamp1_flat]
  unfold T.slice_str flatClamp1 flatStop1
  dsimp only
  simp only [apply_ite viewSliceStr]
  simp only [viewSliceStr]
  repeat' split
  transl_close

/-- [C09, C11] the two rune loops of `slice` on strings are entered with `0 ≤ start ≤ l` and `stop ≤ l`, `l` the
code-point count: however large the bounds, the loops run at most `l` times each -/
theorem slice_str_safe (l start stop a b : Int) (hl : 0 ≤ l) (hl' : l ≤ 2 ^ 62) (h1 : InRange start)
    (h2 : InRange stop) (h : viewSliceStr (T.slice_str start stop l) = some (some (a, b))) :
    0 ≤ a ∧ a ≤ l ∧ b ≤ l := by
  simp only [InRange, MaxInt, MinInt] at h1 h2
  unfold T.slice_str at h
  dsimp only at h
  simp only [apply_ite viewSliceStr] at h
  simp only [viewSliceStr] at h
  repeat' split at h
  all_goals first
    | (simp at h; done)
    | (simp at h; omega)
    | ((try simp (disch := omega) only [wneg_eq] at *) <;>
       (try simp (disch := omega) only [wadd_eq, wsub_eq, wneg_eq] at *) <;> simp at h <;> omega)

/- prune the decision tree of `sliceStep` on the tests of the incoming `step` and `start` before splitting the rest:
the whole tree is too large for one `split` -/
set_option hygiene false in
macro "transl_step" : tactic => `(tactic|
  (by_cases c1 : step > 0 <;> by_cases c2 : start < 0 <;> by_cases c3 : start < -l <;> by_cases c4 : start ≥ l <;>
     simp (config := { maxSteps := 10000000 }) only [c1, c2, c3, c4, ↓reduceIte, gt_iff_lt, ge_iff_le]
   all_goals try (exfalso; omega)
   all_goals repeat' split
   transl_close))

set_option maxHeartbeats 1600000 in
/-- [C12, C03, C09] **`sliceStep` on arrays as the Go text has it**: the first index and the element count `n` with
which `make([]any, n)` and the copy loop are reached are the model's `clampStep` (Python's `slice.indices`, C12), for
every length, all 64-bit bounds and every non-zero 64-bit step including `MinInt`, whose negation wraps -/
theorem sliceStep_arr_tie (l start stop step : Int) (hl : 0 ≤ l) (hl' : l ≤ 2 ^ 62) (h1 : InRange start)
    (h2 : InRange stop) (h3 : InRange step) (h0 : step ≠ 0) :
    viewStep (T.sliceStep_arr start stop step l) = some (clampStep l start stop step) := by
  simp only [InRange, MaxInt, MinInt] at h1 h2 h3
  rw [clampStep_flat]
  unfold T.sliceStep_arr flatClampStep flatStopPos flatStopNeg flatCnt
  dsimp only
  simp (config := { maxSteps := 10000000 }) only [apply_ite viewStep]
  simp (config := { maxSteps := 10000000 }) only [viewStep]
  have hs0 : wmul step (-1) ≠ 0 := by simp only [wmul, wrap64]; omega
  generalize wmul step (-1) = s at hs0 ⊢
  rw [wneg_eq l (by omega) (by omega)]
  transl_step

set_option maxHeartbeats 1600000 in
/-- [C12, C11, C09] **`sliceStep` on strings as the Go text has it**: same clamp over the code-point count; `n` sizes
`b.Grow(n)` and bounds the walk -/
theorem sliceStep_str_tie (l start stop step : Int) (hl : 0 ≤ l) (hl' : l ≤ 2 ^ 62) (h1 : InRange start)
    (h2 : InRange stop) (h3 : InRange step) (h0 : step ≠ 0) :
    viewStep (T.sliceStep_str start stop step l) = some (clampStep l start stop step) := by
  simp only [InRange, MaxInt, MinInt] at h1 h2 h3
  rw [clampStep_flat]
  unfold T.sliceStep_str flatClampStep flatStopPos flatStopNeg flatCnt
  dsimp only
  simp (config := { maxSteps := 10000000 }) only [apply_ite viewStep]
  simp (config := { maxSteps := 10000000 }) only [viewStep]
  have hs0 : wmul step (-1) ≠ 0 := by simp only [wmul, wrap64]; omega
  generalize wmul step (-1) = s at hs0 ⊢
  rw [wneg_eq l (by omega) (by omega)]
  transl_step

/-! ### composition with the property theorems: statements about the Go text -/

/-- [C12] **the Go text of `sliceStep` computes Python's `slice.indices`** (composition of the translation tie with the
C12 theorems about `clampStep`): for a positive step the copy loop starts at Python's adjusted start and runs
`ceil((stop' - start') / step)` times; for a negative step likewise from the upper end. -/
theorem go_sliceStep_python (l start stop step a cnt : Int) (hl : 0 ≤ l) (hl' : l ≤ 2 ^ 62) (h1 : InRange start)
    (h2 : InRange stop) (h3 : InRange step) (h0 : step ≠ 0)
    (h : viewStep (T.sliceStep_arr start stop step l) = some (some (a, cnt))) :
    if step > 0 then
      a = pyAdjust l 0 l start ∧ pyAdjust l 0 l start < pyAdjust l 0 l stop ∧
        cnt = ceilDiv (pyAdjust l 0 l stop - pyAdjust l 0 l start) step
    else
      a = pyAdjust l (-1) (l - 1) start ∧ pyAdjust l (-1) (l - 1) stop < pyAdjust l (-1) (l - 1) start ∧
        cnt = ceilDiv (pyAdjust l (-1) (l - 1) start - pyAdjust l (-1) (l - 1) stop) (wrap64 (step * -1)) := by
  rw [sliceStep_arr_tie l start stop step hl hl' h1 h2 h3 h0] at h
  have h' := Option.some.inj h
  split
  · exact clampStep_pos_some l start stop step a cnt hl ‹_› h'
  · exact clampStep_neg_some l start stop step a cnt hl ‹_› h'

/-- [C12] …and leaves through the empty-result return exactly when Python's walk is empty -/
theorem go_sliceStep_empty (l start stop step : Int) (hl : 0 ≤ l) (hl' : l ≤ 2 ^ 62) (h1 : InRange start)
    (h2 : InRange stop) (h3 : InRange step) (h0 : step ≠ 0)
    (h : viewStep (T.sliceStep_arr start stop step l) = some none) :
    if step > 0 then pyAdjust l 0 l stop ≤ pyAdjust l 0 l start
    else pyAdjust l (-1) (l - 1) start ≤ pyAdjust l (-1) (l - 1) stop := by
  rw [sliceStep_arr_tie l start stop step hl hl' h1 h2 h3 h0] at h
  have h' := Option.some.inj h
  split
  · exact clampStep_pos_none l start stop step hl ‹_› h'
  · exact clampStep_neg_none l start stop step hl ‹_› h'

/-- [C03, C09] **`make([]any, n)` in the Go text of `sliceStep`** is reached with `1 ≤ n ≤ len(a)` and a first index inside the
array, for all 64-bit bounds and every non-zero 64-bit step: the allocation cannot panic and is never sized by the
magnitude of a bound or of the step -/
theorem go_sliceStep_make_safe (l start stop step a n : Int) (hl : 0 ≤ l) (hl' : l ≤ 2 ^ 62) (h1 : InRange start)
    (h2 : InRange stop) (h3 : InRange step) (h0 : step ≠ 0)
    (h : viewStep (T.sliceStep_arr start stop step l) = some (some (a, n))) : 0 ≤ a ∧ a < l ∧ 1 ≤ n ∧ n ≤ l := by
  rw [sliceStep_arr_tie l start stop step hl hl' h1 h2 h3 h0] at h
  have h' := Option.some.inj h
  have b1 := C09.clampStep_count_le l start stop step a n h' hl h0 h3.1
  have b2 := C12.clampStep_cnt_pos l start stop step a n hl (by simp only [MaxInt]; omega) h0 h3.1 h'
  omega

/-- [C09, C11] **`b.Grow(n)` in the Go text of `sliceStep` on strings** is reached with `1 ≤ n ≤` the code-point count -/
theorem go_sliceStep_grow_safe (l start stop step a n : Int) (hl : 0 ≤ l) (hl' : l ≤ 2 ^ 62) (h1 : InRange start)
    (h2 : InRange stop) (h3 : InRange step) (h0 : step ≠ 0)
    (h : viewStep (T.sliceStep_str start stop step l) = some (some (a, n))) : 0 ≤ a ∧ a < l ∧ 1 ≤ n ∧ n ≤ l := by
  rw [sliceStep_str_tie l start stop step hl hl' h1 h2 h3 h0] at h
  have h' := Option.some.inj h
  have b1 := C09.clampStep_count_le l start stop step a n h' hl h0 h3.1
  have b2 := C12.clampStep_cnt_pos l start stop step a n hl (by simp only [MaxInt]; omega) h0 h3.1 h'
  omega

/-- non-vacuity: the translated code on concrete arguments (`[0,1,2,3,4][-1:-6:-2]`, `a[1]`, `a[-1]`, an index beyond) -/
example : viewStep (T.sliceStep_arr (-1) (-6) (-2) 5) = some (some (4, 3)) := by decide
example : viewStep (T.sliceStep_arr 0 (2 ^ 63 - 1) (-(2 ^ 63)) 5) = some none := by decide
example : viewStep (T.sliceStep_arr (2 ^ 63 - 1) (-(2 ^ 63)) (-(2 ^ 63)) 5) = some (some (4, 1)) := by decide
example : viewSliceArr (T.slice_arr (-3) (2 ^ 63 - 1) 5) = some (some (2, 5)) := by decide
example : viewIndex (T.index (-1) 3) = some (some 2) ∧ viewIndex (T.index 3 3) = some none := by decide

end Jmes.Tie
