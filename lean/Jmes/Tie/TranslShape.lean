/-
  Shape of the regenerated translation (`Jmes/Generated/Transl.lean`): which regions the translator recognised in the
  tree under test, their frames, inputs and exits. This is the applicability test of `Jmes.Tie.Transl`, not an
  obligation of any property: see the header of that module.
-/
import Jmes.Generated.Transl
namespace Jmes.Tie
open Jmes.Generated Jmes.Tie.TranslBase

/-- the regions the translator found, their frames, inputs, exits: what the views below interpret -/
theorem transl_tables :
    (T.regions == ["index", "sliceStep_arr", "sliceStep_str", "slice_arr", "slice_str"]
      && T.index_frame == ["i"] && T.index_inputs == ["len(a)"] && T.index_rets == ["nil", "a[i]"]
      && T.index_reaches == []
      && T.slice_arr_frame == ["start", "stop", "l"] && T.slice_arr_inputs == ["len(a)"]
      && T.slice_arr_rets == ["[]any{}", "a[start:stop]"] && T.slice_arr_reaches == []
      && T.slice_str_frame.take 3 == ["start", "stop", "l"] && T.slice_str_inputs == ["utf8.RuneCountInString(s)"]
      && T.slice_str_rets == ["\"\""] && T.slice_str_reaches.length == 1
      && T.sliceStep_arr_frame == ["start", "stop", "step", "l", "n"] && T.sliceStep_arr_inputs == ["len(a)"]
      && T.sliceStep_arr_rets == ["[]any{}"] && T.sliceStep_arr_reaches == ["r := make([]any, n)"]
      && T.sliceStep_str_frame == ["start", "stop", "step", "l", "n"]
      && T.sliceStep_str_inputs == ["utf8.RuneCountInString(s)"]
      && T.sliceStep_str_rets == ["\"\""] && T.sliceStep_str_reaches.length == 1) = true := by decide


end Jmes.Tie
