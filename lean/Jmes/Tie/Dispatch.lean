/-
  Tie #1, group "dispatch": where the evaluator looks at the type of a syntax node.
-/
import Jmes.Tie.Common
namespace Jmes.Tie
open Jmes.Generated

/-- [C01, C17, C02, C06] **the evaluator looks at the type of a syntax node only in `evaluate` (its dispatch) and in
`isSliceNode`** (regenerated fact `nodeDispatchFuncs`: every evaluator function with a type switch case or a type
assertion naming a type of package `parser`). The model's `ieval` has one arm per node type and `isSliceNode`'s list is
tied by `Kinds.slice_nodes`; an evaluation-time shortcut keyed on the *shape of the expression* — a projection that
treats a bare field specially (seeded N05), a sort that skips the copy for "allocating" argument nodes (J01, K02), a
merge that writes into an object-literal argument (J02) — adds such a function and is code the model does not have. -/
theorem node_dispatch_confined : nodeDispatchFuncs.all (fun f => ["evaluate", "isSliceNode"].contains f) = true := by
  decide

end Jmes.Tie
