import Jmes.Tie.Common
namespace Jmes.Tie
open Jmes.Generated
set_option maxRecDepth 100000

def numericKinds : List String :=
  ["decimal128.Decimal", "json.Number", "float32", "float64", "int8", "int16", "int32", "int64", "int",
   "uint8", "uint16", "uint32", "uint64", "uint"]

def caseTypes (fn : String) : List String :=
  (kindCases.filter (fun r => r.1 == fn)).flatMap (fun r => r.2.1)

/-- [C14, C05] every numeric helper lists all fourteen numeric Go kinds -/
theorem kinds_complete :
    (["toDecimal", "toInt", "isNumber", "isTrue", "typeName", "toNumber"].all (fun fn =>
      numericKinds.all (fun k => (caseTypes fn).contains k))) = true := by decide

/-- [C14] the float fast path is taken for the two float kinds only -/
theorem float_path_kinds :
    (["toFloat", "toFloatPair"].all (fun fn =>
      (caseTypes fn).all (fun k => k == "float32" || k == "float64" || k == "default"))) = true := by decide

def floatish (callee : String) : Bool :=
  ["Float64", "Float32", "ParseFloat", "FromFloat64", "FromFloat32", "float64", "float32", "math.Floor", "math.Trunc",
   "v.Float64", "big.Float"].any (fun f => callee == f || callee == "decimal128." ++ f || callee == "strconv." ++ f)

/-- [C05] "never routed through binary floating point": in `toDecimal`, the cases for json.Number, decimal and every
    integer kind call no float-typed conversion -/
theorem no_float_detour :
    ((kindCases.filter (fun r => r.1 == "toDecimal" && !(r.2.1.contains "float32") && !(r.2.1.contains "float64"))).all
      (fun r => r.2.2.all (fun c => !floatish c))) = true := by decide

/-- [C12] the node types by which the evaluator recognises a string slice -/
theorem slice_nodes : sameSet sliceNodes ["SliceNode", "SliceCurrentNode", "SliceStepNode", "SliceStepCurrentNode"] = true := by decide

end Jmes.Tie
