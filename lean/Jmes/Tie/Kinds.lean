import Jmes.Tie.Common
namespace Jmes.Tie
open Jmes.Generated
set_option maxRecDepth 100000

def numericKinds : List String :=
  ["decimal128.Decimal", "json.Number", "float32", "float64", "int8", "int16", "int32", "int64", "int",
   "uint8", "uint16", "uint32", "uint64", "uint"]

def caseTypes (fn : String) : List String :=
  (kindCases.filter (fun r => r.1 == fn)).flatMap (fun r => r.2.1)

/-- [C14, C05] every numeric helper lists all fourteen numeric Go kinds -/
theorem kinds_complete :
    (["toDecimal", "toInt", "isNumber", "isTrue", "typeName", "toNumber"].all (fun fn =>
      numericKinds.all (fun k => (caseTypes fn).contains k))) = true := by decide

/-- [C14] the float fast path is taken for the two float kinds only -/
theorem float_path_kinds :
    (["toFloat", "toFloatPair"].all (fun fn =>
      (caseTypes fn).all (fun k => k == "float32" || k == "float64" || k == "default"))) = true := by decide

def floatish (callee : String) : Bool :=
  ["Float64", "Float32", "ParseFloat", "FromFloat64", "FromFloat32", "float64", "float32", "math.Floor", "math.Trunc",
   "v.Float64", "big.Float"].any (fun f => callee == f || callee == "decimal128." ++ f || callee == "strconv." ++ f)

/-- [C05] "never routed through binary floating point": in `toDecimal`, the cases for json.Number, decimal and every
    integer kind call no float-typed conversion -/
theorem no_float_detour :
    ((kindCases.filter (fun r => r.1 == "toDecimal" && !(r.2.1.contains "float32") && !(r.2.1.contains "float64"))).all
      (fun r => r.2.2.all (fun c => !floatish c))) = true := by decide

/-- the modelled conversion functions: the only places where the Go kind of a number is inspected -/
def kindFamily : List String :=
  ["toDecimal", "toFloat", "toFloatPair", "toInt", "isNumber", "isTrue", "typeName", "toNumber"]

def callersOfKind (f : String) : List String := (kindCallers.filter (fun r => r.1 == f)).flatMap (fun r => r.2)

/-- `f` is one of the conversion functions, or a helper all of whose callers (up to `n` levels) are -/
def kindConfined : Nat → String → Bool
  | 0, f => kindFamily.contains f
  | n + 1, f => kindFamily.contains f || (!(callersOfKind f).isEmpty && (callersOfKind f).all (kindConfined n))

/-- [C14, C05, C20, C13] **the Go kind of a number is inspected only inside the modelled conversion functions**: every
evaluator function with a type switch or type assertions over two or more numeric kinds is `toDecimal`, `toInt`,
`toFloat`, `toFloatPair`, `isNumber`, `isTrue`, `typeName`, `toNumber` or a helper reached only from them. A
comparison, sum or sort that looks at the representation itself (a machine-word or binary64 shortcut: seeded M02, M07,
M10) adds such a function outside the family. -/
theorem kind_dispatch_confined : kindSwitchFuncs.all (kindConfined 4) = true := by decide

/-- [C12] the node types by which the evaluator recognises a string slice -/
theorem slice_nodes : sameSet sliceNodes ["SliceNode", "SliceCurrentNode", "SliceStepNode", "SliceStepCurrentNode"] = true := by decide

end Jmes.Tie
