import Jmes.Generated.Shape
import Jmes.Tie.Common
import Jmes.Tie.Errors
namespace Jmes.Tie
open Jmes.Generated
set_option maxRecDepth 100000

/-- the Go node type built for a binary-operator token of the model -/
def goNodeOfBin : BinOp → String
  | .add => "AddNode" | .sub => "SubtractNode" | .mul => "MultiplyNode" | .div => "DivideNode"
  | .idiv => "IntegerDivideNode" | .mod => "ModuloNode" | .eq => "EqualNode" | .ne => "NotEqualNode"
  | .lt => "LessNode" | .le => "LessOrEqualNode" | .gt => "GreaterNode" | .ge => "GreaterOrEqualNode"

/-- the tokens for which the model's `exprLoop` parses a right operand at the token's own power and builds a two-child node -/
def expectedLoopNode (t : TokenType) : Option String :=
  match Parser.binOpOf t with
  | some op => some (goNodeOfBin op)
  | none => match t with
    | .and => some "AndNode" | .or => some "OrNode" | .pipe => some "PipeNode" | _ => none

/-- [C10, C04] every binary-operator case of Go's `expressionLoop` builds the node the model builds for that token, with the
    operand parsed so far on the left and the newly parsed one on the right -/
theorem binary_cases :
    loopNodes.all (fun row => row.1.all (fun tn =>
      match tokOfName tn with
      | none => false
      | some t => match expectedLoopNode t with
        | some n => row.2 == [(n, [("Left", "node"), ("Right", "right")])]
        | none => true)) = true := by decide

/-- [C10, C04, C20] …and hands on nothing else: every assignment to the loop's result in a binary-operator case is that node
    freshly built — no case may substitute a folded, negated or otherwise rewritten operand for the operator node -/
theorem binary_cases_assign :
    loopAssigns.all (fun row => row.1.all (fun tn =>
      match tokOfName tn with
      | none => false
      | some t => match expectedLoopNode t with
        | some n => row.2 == ["lit:" ++ n]
        | none => true)) = true := by decide

/-- [C19, C08] `parser.let` hands on the `DefineVariables` node it builds and nothing else (or `nil` beside an error): no scope
    is merged with another, elided or replaced by its body at parse time -/
theorem let_builds_define :
    (letReturns.all (fun r => r == "nil" || r == "lit:DefineVariables") && letReturns.contains "lit:DefineVariables") = true := by
  decide

/-- [C10, C04] …and every such token has a case -/
theorem binary_cases_complete :
    allTokens.all (fun t => (expectedLoopNode t).isNone || loopNodes.any (fun row => row.1.any (fun tn => tokOfName tn == some t))) = true := by
  decide

/-- [C10, C04, C01] the binding power handed to every recursive `p.expression(…)` call: the operator's own power in the loop
    (left associativity), the power of `*` after a unary sign, the power of `!` after `!`, the caller's power inside a
    projection, and 1 (a complete expression) everywhere else -/
theorem operand_powers :
    expressionCalls.all (fun c =>
      if c.1 == "expressionLoop" then c.2.2 == "newPrec"
      else if c.1 == "primaryExpression" then
        ((c.2.1 == "AddToken" || c.2.1 == "SubtractToken") && c.2.2 == "precedence(lexer.MultiplyToken)")
        || (c.2.1 == "NotToken" && c.2.2 == "precedence(lexer.NotToken)")
        || (c.2.1 == "OpenParenToken" && c.2.2 == "1")
      else if c.1 == "projection" then c.2.2 == "prec"
      else c.2.2 == "1") = true := by decide

/-- [C08] no public error type has an `Unwrap` or `As` method: `errors.Is` can match a public error only through its
    single `Is` method -/
theorem public_errors_only_is : (errorMethods.filter (fun m => m.1 == "jmespath")).all (fun m => m.2.2 == "Is") = true := by decide

/-- [C08] no error type of the evaluator has an `Unwrap` or `As` method either: the category `evaluateError` finds with
    `errors.Is` is decided by the evaluator's own `Is` methods and never by an error a foreign value handed in (a failed
    `MarshalJSON` inside `to_string`; FX29) -/
theorem evaluator_errors_only_is : (errorMethods.filter (fun m => m.1 == "evaluator")).all (fun m => m.2.2 == "Is") = true := by decide

/-- [C08] every `Is` method is the single comparison `target == <sentinel>` recorded in `isTable`: an error matches its
    one sentinel and nothing else under `errors.Is` -/
theorem is_methods_single_comparison :
    (isBodies.all (fun b => isTable.any (fun r => r.1 == b.1 && r.2.1 == b.2.1 && b.2.2 == "target == " ++ r.2.2))
     && isBodies.length == isTable.length) = true := by decide

/-- [C08] the exported sentinels (and the internal ones) are distinct values, each made by its own `errors.New`: no
    sentinel is an alias of another, so "exactly one category" is meaningful -/
theorem sentinels_distinct : sentinelInits.all (fun s => s.2.2 == "errors.New") = true := by decide

/-- the model's category for what `evaluateError` tests -/
def testedCat : String → Option Cat
  | "ErrInvalidType" => some .invalidType | "ErrInvalidValue" => some .invalidValue
  | "ErrInfinity" => some .notANumber | "ErrNotANumber" => some .notANumber
  | "UndefinedVariableError" => some .undefinedVariable | "<fallback>" => some .evaluationFailed
  | _ => none

/-- [C08] `evaluateError` pairs each tested internal category with the public error type of the SAME category (the
    tests cannot be swapped without breaking this), and tests for each internal category once -/
theorem evaluate_pairs_tie :
    (evaluateErrorMap.all (fun r => (testedCat r.1).isSome && (r.2 == "" || testedCat r.1 == publicCat r.2))
     && sameSet (evaluateErrorMap.map (·.1))
          ["ErrInvalidType", "ErrInvalidValue", "ErrInfinity", "ErrNotANumber", "UndefinedVariableError", "<fallback>"]
     && evaluateErrorMap.length == 6) = true := by decide

/-- [C06, C07] no struct of the four packages has a field whose type mentions a channel, a function value,
    unsafe.Pointer or a type of package sync: AST nodes, compiled expressions and per-call state are plain data -/
theorem struct_fields_plain : structFields.all (fun f => f.2.2.2.2 == "") = true := by decide

end Jmes.Tie
