import Jmes.Tie.Common
namespace Jmes.Tie
open Jmes.Generated
set_option maxRecDepth 100000

/-- [C01, C04, C10] every row of Go's `precedence` switch is the model's binding power -/
theorem precedence_rows :
    precedenceTable.all (fun r => match tokOfName r.1 with
      | some t => precedence t == r.2
      | none => false) = true := by decide

/-- [C01, C04, C10] …and every token the Go switch does not list has binding power 0 in the model -/
theorem precedence_default :
    allTokens.all (fun t => precedenceTable.any (fun r => tokOfName r.1 == some t) || precedence t == 0) = true := by decide

/-- [C01, C17] one projection power, used by every call of `parser.projection` -/
theorem projection_power :
    (Generated.projectionPrecedence == Jmes.projectionPrecedence
      && projectionCalls.all (fun c => c.2 == "projectionPrecedence")) = true := by decide

/-- [C04] the token kinds of token.go are exactly the model's -/
theorem token_kinds : (tokenTypes.map tokOfName == allTokens.map some) = true := by decide


end Jmes.Tie
