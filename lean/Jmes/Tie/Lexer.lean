import Jmes.Tie.Common
namespace Jmes.Tie
open Jmes.Generated
set_option maxRecDepth 100000

/-- inputs that exercise every case of the switch: (input, token type, token length) -/
def lexProbes : List (Bytes × TokenType × Nat) := [
  ([37, 97], TokenType.modulo, 1),
  ([40, 97], TokenType.openParen, 1),
  ([41, 97], TokenType.closeParen, 1),
  ([42, 97], TokenType.asterisk, 1),
  ([43, 97], TokenType.add, 1),
  ([44, 97], TokenType.comma, 1),
  ([58, 97], TokenType.colon, 1),
  ([64, 97], TokenType.current, 1),
  ([93, 97], TokenType.closeSqBrace, 1),
  ([123, 97], TokenType.openBrace, 1),
  ([125, 97], TokenType.closeBrace, 1),
  ([195, 151, 97], TokenType.multiply, 2),
  ([195, 183, 97], TokenType.divide, 2),
  ([226, 136, 146, 97], TokenType.subtract, 3),
  ([38, 38, 97], TokenType.and, 2),
  ([38, 97], TokenType.expression, 1),
  ([46, 42, 97], TokenType.objectWildcard, 2),
  ([46, 97], TokenType.dot, 1),
  ([47, 47, 97], TokenType.integerDivide, 2),
  ([47, 97], TokenType.divide, 1),
  ([60, 61, 97], TokenType.lessOrEqual, 2),
  ([60, 97], TokenType.less, 1),
  ([61, 61, 97], TokenType.equal, 2),
  ([61, 97], TokenType.assign, 1),
  ([62, 61, 97], TokenType.greaterOrEqual, 2),
  ([62, 97], TokenType.greater, 1),
  ([124, 124, 97], TokenType.or, 2),
  ([124, 97], TokenType.pipe, 1),
  ([33, 61, 97], TokenType.notEqual, 2),
  ([33, 97], TokenType.not, 1),
  ([91, 42, 93, 97], TokenType.arrayWildcard, 3),
  ([91, 63, 97], TokenType.filter, 2),
  ([91, 93, 97], TokenType.flatten, 2),
  ([91, 97], TokenType.openSqBrace, 1),
  ([91, 42, 97], TokenType.openSqBrace, 1),
  ([45, 97], TokenType.subtract, 1),
  ([45, 49, 50, 97], TokenType.integerLiteral, 3),
  ([49, 50, 97], TokenType.integerLiteral, 2),
  ([48], TokenType.integerLiteral, 1),
  ([36], TokenType.root, 1),
  ([36, 46], TokenType.root, 1),
  ([36, 97, 49, 95, 32], TokenType.variable, 4),
  ([36, 49], TokenType.root, 1),
  ([97, 98, 99, 95, 57, 32], TokenType.unquotedIdentifier, 5),
  ([95, 120], TokenType.unquotedIdentifier, 2),
  ([105, 110, 32], TokenType.«in», 2),
  ([108, 101, 116, 32], TokenType.«let», 3),
  ([108, 101, 116, 115], TokenType.unquotedIdentifier, 4),
  ([105, 110, 110], TokenType.unquotedIdentifier, 3),
  ([34, 97, 92, 34, 98, 34, 32], TokenType.quotedIdentifier, 6),
  ([39, 97, 92, 39, 98, 39, 32], TokenType.stringLiteral, 6),
  ([96, 97, 92, 96, 98, 96, 32], TokenType.jsonLiteral, 6)]

/-- [C04, C10, C16] on every probe the model's `lexToken` produces that token with that extent -/
theorem lexer_model_probes :
    lexProbes.all (fun p => match lexToken p.1 with
      | .ok (t, n) => t.type == p.2.1 && n == p.2.2 && t.value == p.1.take p.2.2
      | .error _ => false) = true := by decide

/-- [C04] every token type the Go switch can produce is produced by the model on a probe starting with a rune of that case -/
theorem lexer_cases_covered :
    lexerCases.all (fun row => row.2.2.1.all (fun name =>
      lexProbes.any (fun p => tokOfName name == some p.2.1))) = true := by decide


end Jmes.Tie
