/-
  Shape of the second regenerated translation (`Jmes/Generated/Transl2.lean`): the integer preludes of the string
  builtins that take counts, widths and offsets. Applicability test of `Jmes.Tie.Transl2`, not an obligation of any
  property (see the header of `Jmes.Tie.Transl`): when the translator no longer recognises the regions with the frames
  and exits the views of `Transl2` interpret, that tie does not apply to the tree under test.
-/
import Jmes.Generated.Transl2
namespace Jmes.Tie
open Jmes.Generated Jmes.Tie.TranslBase

theorem transl2_tables :
    (T2.regions == ["findFirstBetween", "findFirstFrom", "findLastBetween", "findLastFrom", "padLeft", "padRight",
        "padSpaceLeft", "padSpaceRight", "replaceCount", "split", "splitCount"]
      && T2.padLeft_frame == ["w", "n"] && T2.padRight_frame == ["w", "n"]
      && T2.padLeft_inputs == ["utf8.RuneCountInString(p)", "utf8.RuneCountInString(s)"]
      && T2.padRight_inputs == ["utf8.RuneCountInString(p)", "utf8.RuneCountInString(s)"]
      && T2.padLeft_rets == ["nil, &negativeIntegerError{", "nil, &padLengthError{", "value, nil"]
      && T2.padRight_rets == ["nil, &negativeIntegerError{", "nil, &padLengthError{", "value, nil"]
      && T2.padLeft_reaches.length == 1 && T2.padRight_reaches.length == 1
      && T2.padSpaceLeft_frame == ["w", "n"] && T2.padSpaceRight_frame == ["w", "n"]
      && T2.padSpaceLeft_inputs == ["utf8.RuneCountInString(s)"] && T2.padSpaceRight_inputs == ["utf8.RuneCountInString(s)"]
      && T2.padSpaceLeft_rets == ["nil, &negativeIntegerError{", "value, nil"]
      && T2.padSpaceRight_rets == ["nil, &negativeIntegerError{", "value, nil"]
      && T2.padSpaceLeft_reaches.length == 1 && T2.padSpaceRight_reaches.length == 1
      && T2.replaceCount_frame == ["n"] && T2.replaceCount_inputs == []
      && T2.replaceCount_rets == ["nil, &negativeIntegerError{", "strings.Replace(s, po, pn, n), nil"]
      && T2.replaceCount_reaches == []
      && T2.split_inputs == ["len(s)", "len(p)", "utf8.RuneCountInString(s)", "strings.Count(s, p)"]
      && T2.split_rets == ["[]any{}, nil"] && T2.split_reaches == ["r := make([]any, n+1)"]
      && T2.splitCount_frame.take 1 == ["n"]
      && T2.splitCount_inputs == ["len(s)", "len(p)", "utf8.RuneCountInString(s)", "strings.Count(s, p)"]
      && T2.splitCount_rets == ["nil, &negativeIntegerError{", "[]any{s}, nil", "[]any{}, nil"]
      && T2.splitCount_reaches == ["r := make([]any, n+1)"]
      && T2.findFirstFrom_frame == ["i", "r"] && T2.findLastFrom_frame == ["i", "r"]
      && T2.findFirstFrom_inputs == ["strings.Index(s[i:], p)", "utf8.RuneCountInString(s[:r+i])", "len(s)"]
      && T2.findLastFrom_inputs == ["strings.LastIndex(s[i:], p)", "utf8.RuneCountInString(s[:r+i])", "len(s)"]
      && T2.findFirstFrom_rets == ["nil, nil", "int64(r), nil"] && T2.findLastFrom_rets == ["nil, nil", "int64(r), nil"]
      && T2.findFirstFrom_reaches.length == 1 && T2.findLastFrom_reaches.length == 1
      && T2.findFirstBetween_frame == ["i", "j", "r"] && T2.findLastBetween_frame == ["i", "j", "r"]
      && T2.findFirstBetween_inputs == ["len(s)", "strings.Index(s[i:j], p)", "utf8.RuneCountInString(s[:r+i])"]
      && T2.findLastBetween_inputs == ["len(s)", "strings.LastIndex(s[i:j], p)", "utf8.RuneCountInString(s[:r+i])"]
      && T2.findFirstBetween_rets == ["nil, nil", "int64(r), nil"] && T2.findLastBetween_rets == ["nil, nil", "int64(r), nil"]
      && T2.findFirstBetween_reaches == ["for k := 0; k < j; k++ {", "for k := 0; k < i; k++ {"]
      && T2.findLastBetween_reaches == ["for k := 0; k < j; k++ {", "for k := 0; k < i; k++ {"]) = true := by decide

end Jmes.Tie
