/-
  Tie #1, group "bytes": where the evaluator handles text by byte position.
-/
import Jmes.Tie.Common
namespace Jmes.Tie
open Jmes.Generated

/-- [C11, C12, C03] **the evaluator indexes a string by byte position only in `isJSONNumber`** (regenerated fact
`byteIndexFuncs`: every function with an index expression `s[i]` over a string). Every other string operation goes through
`utf8.DecodeRuneInString` / `RuneCountInString` / the `strings` package, which is what the model's rune functions mirror
and what the C11 theorems speak about; a byte-indexed walk over a subject string (an "all ASCII" fast path: seeded J05,
M01, M06) is code the model does not have. `isJSONNumber` validates the ASCII grammar of a JSON number, where bytes are
the specified unit. -/
theorem byte_index_confined : byteIndexFuncs.all (fun f => ["isJSONNumber"].contains f) = true := by decide

end Jmes.Tie
