/-
  Bytes and UTF-8, mirroring Go's `string` (a byte sequence that need not be valid UTF-8)
  and package `unicode/utf8`.

  Bytes are plain `Nat`s (< 256 is an invariant, `Bytes.Ok`), because `omega` sees through `Nat`.
-/
namespace Jmes

abbrev Bytes := List Nat

def Bytes.Ok (b : Bytes) : Prop := ∀ x ∈ b, x < 256

def RuneError : Nat := 0xFFFD
def MaxRune : Nat := 0x10FFFF

/-- continuation byte 0x80..0xBF -/
@[inline] def isCont (b : Nat) : Bool := 0x80 ≤ b && b ≤ 0xBF

/-- `utf8.DecodeRuneInString`: `(rune, size)`; `(RuneError, 0)` on empty input,
    `(RuneError, 1)` on any invalid or truncated sequence. -/
def decodeRune : Bytes → Nat × Nat
  | [] => (RuneError, 0)
  | b0 :: rest =>
    if b0 < 0x80 then (b0, 1)
    else if 0xC2 ≤ b0 ∧ b0 ≤ 0xDF then
      match rest with
      | b1 :: _ => if isCont b1 then ((b0 - 0xC0) * 64 + (b1 - 0x80), 2) else (RuneError, 1)
      | _ => (RuneError, 1)
    else if 0xE0 ≤ b0 ∧ b0 ≤ 0xEF then
      match rest with
      | b1 :: b2 :: _ =>
        let lo := if b0 = 0xE0 then 0xA0 else 0x80
        let hi := if b0 = 0xED then 0x9F else 0xBF
        if lo ≤ b1 ∧ b1 ≤ hi ∧ isCont b2 then
          ((b0 - 0xE0) * 4096 + (b1 - 0x80) * 64 + (b2 - 0x80), 3)
        else (RuneError, 1)
      | _ => (RuneError, 1)
    else if 0xF0 ≤ b0 ∧ b0 ≤ 0xF4 then
      match rest with
      | b1 :: b2 :: b3 :: _ =>
        let lo := if b0 = 0xF0 then 0x90 else 0x80
        let hi := if b0 = 0xF4 then 0x8F else 0xBF
        if lo ≤ b1 ∧ b1 ≤ hi ∧ isCont b2 ∧ isCont b3 then
          ((b0 - 0xF0) * 262144 + (b1 - 0x80) * 4096 + (b2 - 0x80) * 64 + (b3 - 0x80), 4)
        else (RuneError, 1)
      | _ => (RuneError, 1)
    else (RuneError, 1)

/-- a scalar value: not a surrogate, ≤ U+10FFFF -/
def isScalar (r : Nat) : Bool := r < 0xD800 || (0xDFFF < r && r ≤ MaxRune)

/-- `utf8.AppendRune` / `strings.Builder.WriteRune` for a valid scalar; invalid runes encode U+FFFD. -/
def encodeRune (r : Nat) : Bytes :=
  if r < 0x80 then [r]
  else if r < 0x800 then [0xC0 + r / 64, 0x80 + r % 64]
  else if ¬ isScalar r then [0xEF, 0xBF, 0xBD]
  else if r < 0x10000 then [0xE0 + r / 4096, 0x80 + (r / 64) % 64, 0x80 + r % 64]
  else [0xF0 + r / 262144, 0x80 + (r / 4096) % 64, 0x80 + (r / 64) % 64, 0x80 + r % 64]

/-- decode a whole byte string into runes the way a Go `for range` / repeated `DecodeRuneInString`
    does (invalid bytes become one U+FFFD each). Fuel = length. -/
def decodeAllAux : Nat → Bytes → List Nat
  | 0, _ => []
  | _, [] => []
  | fuel + 1, b :: bs =>
    let (r, sz) := decodeRune (b :: bs)
    r :: decodeAllAux fuel ((b :: bs).drop sz)

def decodeAll (bs : Bytes) : List Nat := decodeAllAux bs.length bs

/-- `utf8.RuneCountInString` -/
def runeCount (bs : Bytes) : Nat := (decodeAll bs).length

def encodeAll (rs : List Nat) : Bytes := rs.flatMap encodeRune

/-- `utf8.ValidString`: every decoding step is a real (non-error-by-invalidity) rune. -/
def validAux : Nat → Bytes → Bool
  | 0, bs => bs.isEmpty
  | _, [] => true
  | fuel + 1, b :: bs =>
    let (r, sz) := decodeRune (b :: bs)
    if r = RuneError ∧ sz = 1 then false else validAux fuel ((b :: bs).drop sz)

def validUTF8 (bs : Bytes) : Bool := validAux bs.length bs

/-- `utf8.RuneStart` -/
@[inline] def runeStart (b : Nat) : Bool := ¬ isCont b

/-- `utf8.DecodeLastRuneInString` (transliterated: the backwards scan over at most three
    bytes for a rune start is unrolled). -/
def decodeLastRune (s : Bytes) : Nat × Nat :=
  let n := s.length
  if n = 0 then (RuneError, 0) else
  let last := s.getD (n - 1) 0
  if last < 0x80 then (last, 1) else
  let start :=
    if 2 ≤ n ∧ runeStart (s.getD (n - 2) 0) then n - 2
    else if 3 ≤ n ∧ runeStart (s.getD (n - 3) 0) then n - 3
    else if 4 ≤ n ∧ runeStart (s.getD (n - 4) 0) then n - 4
    else if 5 ≤ n then n - 5 else 0
  let (r, sz) := decodeRune (s.drop start)
  if start + sz ≠ n then (RuneError, 1) else (r, sz)

end Jmes
