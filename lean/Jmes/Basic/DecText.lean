/-
  Text ⇄ decimal: `decimal128.Parse` (used by `toDecimal` on `json.Number`), `Decimal.UnmarshalJSON`
  (used by `to_number`) and `Decimal.MarshalJSON` (used by `to_string`), transliterated from scan.go/json.go.
-/
import Jmes.Basic.Dec
namespace Jmes
namespace Dec

/-- significand is "full" in `parseNumber`'s second loop: further digits are dropped -/
def PFULL : Nat := 0x18ffffffffffffff * 2 ^ 64 + (2 ^ 64 - 1)
def P1MAX : Nat := 0x18ffffffffffffff

structure PState where
  c : Nat := 0          -- significand digits kept
  nfrac : Int := 0
  sticky : Bool := false
  exp : Nat := 0
  maxexp : Bool := false
  caneof : Bool := false
  cansep : Bool := false
  cansgn : Bool := false
  eneg : Bool := false
  sawdig : Bool := false
  sawdot : Bool := false
  sawexp : Bool := false

@[inline] def isDigit (b : Nat) : Bool := 0x30 ≤ b && b ≤ 0x39

/-- one character of `parseNumber`; `none` = syntax error -/
def pstep (sepallowed : Bool) (s : PState) (b : Nat) : Option PState :=
  let phase1 := !s.sawexp && s.c ≤ P1MAX
  if isDigit b then
    let s := { s with caneof := true, cansep := true, cansgn := false, sawdig := true }
    if s.sawexp then
      some { s with maxexp := s.maxexp || s.exp > 618, exp := if s.maxexp || s.exp > 618 then s.exp else s.exp * 10 + (b - 0x30) }
    else if s.c ≤ PFULL then
      some { s with c := s.c * 10 + (b - 0x30), nfrac := if s.sawdot then s.nfrac + 1 else s.nfrac }
    else
      some { s with sticky := s.sticky || b != 0x30, nfrac := if s.sawdot then s.nfrac else s.nfrac - 1 }
  else if b = 0x2E then -- '.'
    if s.sawdot || s.sawexp then none
    else some { s with caneof := true, cansep := false, cansgn := false, sawdot := true }
  else if b = 0x45 || b = 0x65 then -- 'E' 'e'
    if !s.sawdig || s.sawexp then none
    else some { s with caneof := false, cansep := false, cansgn := true, sawexp := true }
  else if b = 0x5F then -- '_'
    if phase1 then
      if !sepallowed || !s.cansep then none
      else some { s with caneof := false, cansep := false, cansgn := false }
    else
      if !s.cansep then none
      else some { s with caneof := false, cansep := false, cansgn := false }
  else if b = 0x2D then -- '-'
    if phase1 || !s.cansgn then none
    else some { s with caneof := false, cansep := false, cansgn := false, eneg := true }
  else if b = 0x2B then -- '+'
    if phase1 || !s.cansgn then none
    else some { s with caneof := false, cansep := false, cansgn := false }
  else none

def prun (sepallowed : Bool) : PState → Bytes → Option PState
  | s, [] => some s
  | s, b :: bs => match pstep sepallowed s b with
    | none => none
    | some s' => prun sepallowed s' bs

inductive ParseResult where
  | syntax
  | range (d : Dec)     -- value out of range: ±Inf with an error
  | ok (d : Dec)
  deriving Repr, DecidableEq

def parseNumber (d : Bytes) (neg sepallowed : Bool) : ParseResult :=
  match prun sepallowed {} d with
  | none => .syntax
  | some s =>
    if !s.caneof then .syntax
    else if s.c = 0 then .ok (.fin neg 0 0)
    else if s.maxexp then (if s.eneg then .ok (.fin neg 0 0) else .range (.inf neg))
    else
      let e : Int := (if s.eneg then -(s.exp : Int) else s.exp) - s.nfrac
      if e > EMAX + 39 then .range (.inf neg)
      else if e < EMIN - 39 then .ok (.fin neg 0 0)
      else match reduce neg s.c e s.sticky with
        | .inf n => .range (.inf n)
        | r => .ok r

@[inline] def lowerByte (b : Nat) : Nat := if 0x41 ≤ b ∧ b ≤ 0x5A then b + 32 else b

/-- `decimal128.Parse` -/
def parse (s : Bytes) : ParseResult :=
  match s with
  | [] => .syntax
  | b0 :: rest0 =>
    let (neg, d) := if b0 = 0x2B then (false, rest0) else if b0 = 0x2D then (true, rest0) else (false, s)
    if d.isEmpty then .syntax
    else
      let low := d.map lowerByte
      if low = [0x69, 0x6E, 0x66] then .ok (.inf neg)            -- inf
      else if low = [0x6E, 0x61, 0x6E] then .ok .nan               -- nan
      else if low = [0x69, 0x6E, 0x66, 0x69, 0x6E, 0x69, 0x74, 0x79] then .ok (.inf neg) -- infinity
      else parseNumber d neg true

/-- `Decimal.UnmarshalJSON` applied to the zero value: `none` = error. -/
def unmarshalJSON (data : Bytes) : Option Dec :=
  if data = [0x6E, 0x75, 0x6C, 0x6C] then some (.fin false 0 0)  -- "null": no error, value untouched
  else match data with
    | [] => some (.fin false 0 0)
    | b0 :: rest =>
      let (neg, d) := if b0 = 0x2B then (false, rest) else if b0 = 0x2D then (true, rest) else (false, data)
      match parseNumber d neg false with
      | .ok r => some r
      | _ => none

/-- decimal digits of a natural number, most significant first (empty for 0) -/
def digitsOfAux : Nat → Nat → List Nat → List Nat
  | 0, _, acc => acc
  | fuel + 1, n, acc => if n = 0 then acc else digitsOfAux fuel (n / 10) ((0x30 + n % 10) :: acc)
def digitsOf (n : Nat) : List Nat := digitsOfAux (Nat.log2 n + 2) n []

def natToBytes (n : Nat) : Bytes := if n = 0 then [0x30] else digitsOf n

/-- `Decimal.MarshalJSON` for a finite value (`none` for NaN/Inf: json.UnsupportedValueError). -/
def marshalJSON : Dec → Option Bytes
  | .nan => none
  | .inf _ => none
  | .fin neg c e =>
    let sign : Bytes := if neg then [0x2D] else []
    if c = 0 then some (sign ++ [0x30])
    else
      match normalize (.fin neg c e) with
      | .fin _ c e =>
        let ds := digitsOf c
        let nd := ds.length
        let prec := nd - 1
        let sci : Int := e + prec
        if sci < -6 ∨ sci ≥ 20 then
          -- d[.ddd]e±X
          let mant := match ds with
            | [] => [0x30]
            | d0 :: rest => if rest.isEmpty then [d0] else d0 :: 0x2E :: rest
          let es : Bytes := if sci < 0 then 0x2D :: natToBytes sci.natAbs else 0x2B :: natToBytes sci.natAbs
          some (sign ++ mant ++ [0x65] ++ es)
        else
          let dp : Int := nd + e
          if e ≥ 0 then
            some (sign ++ ds ++ List.replicate e.toNat 0x30)
          else if dp > 0 then
            some (sign ++ ds.take dp.toNat ++ [0x2E] ++ ds.drop dp.toNat)
          else
            some (sign ++ [0x30, 0x2E] ++ List.replicate (-dp).toNat 0x30 ++ ds)
      | _ => none

end Dec
end Jmes
