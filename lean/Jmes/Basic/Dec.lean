/-
  Model of `github.com/woodsbury/decimal128` as far as `/repo` uses it.

  A finite value is `(-1)^neg · c · 10^e`.  The library's significand limit is *not* 10^34 but
  `MAXSIG = 0x27fff_ffffffff_ffffffff_ffffffff` (≈ 1.298·10^34): every result is the exact result reduced
  (digits dropped from the right, round-half-even with a sticky flag) until the significand is ≤ MAXSIG and
  the exponent lies in `[EMIN, EMAX]`.  All results are kept *normalised* (no trailing zeros in `c`),
  because every observable of the library used by `/repo` (comparison, `MarshalJSON`, `Int64`, …) is a function
  of the value only.
-/
import Jmes.Basic.Bytes
namespace Jmes

inductive Dec where
  | nan
  | inf (neg : Bool)
  | fin (neg : Bool) (c : Nat) (e : Int)
  deriving Repr, DecidableEq, Inhabited

namespace Dec

def MAXSIG : Nat := 0x27fffffffffffffffffffffffffff
def EMIN : Int := -6176
def EMAX : Int := 6111

def zero (neg : Bool := false) : Dec := .fin neg 0 0

/-- strip trailing zeros (fuel = number of decimal digits is enough; we use `c` itself bounded by log). -/
def stripZeros : Nat → Nat → Int → Nat × Int
  | 0, c, e => (c, e)
  | fuel + 1, c, e => if c ≠ 0 ∧ c % 10 = 0 then stripZeros fuel (c / 10) (e + 1) else (c, e)

def normalize : Dec → Dec
  | .fin neg c e =>
    if c = 0 then .fin neg 0 0
    else
      let (c', e') := stripZeros (Nat.log2 c + 1) c e
      .fin neg c' e'
  | d => d

/-- drop digits until `c ≤ MAXSIG`; returns `(c, e, lastDigit, sticky)`. -/
def dropHigh : Nat → Nat → Int → Nat → Bool → Nat × Int × Nat × Bool
  | 0, c, e, dg, st => (c, e, dg, st)
  | fuel + 1, c, e, dg, st =>
    if c > MAXSIG then dropHigh fuel (c / 10) (e + 1) (c % 10) (st || dg != 0)
    else (c, e, dg, st)

/-- drop digits while the exponent is below `EMIN` (gradual underflow). -/
def dropLow : Nat → Nat → Int → Nat → Bool → Nat × Int × Nat × Bool
  | 0, c, e, dg, st => (c, e, dg, st)
  | fuel + 1, c, e, dg, st =>
    if e < EMIN then
      let st' := st || dg != 0
      let c' := c / 10
      let dg' := c % 10
      if c' = 0 ∧ dg' = 0 then (0, EMIN, 0, false)
      else dropLow fuel c' (e + 1) dg' st'
    else (c, e, dg, st)

/-- scale up while the exponent is above `EMAX` and the significand has room. -/
def scaleUp : Nat → Nat → Int → Nat × Int
  | 0, c, e => (c, e)
  | fuel + 1, c, e =>
    if e > EMAX ∧ c * 10 ≤ MAXSIG ∧ c ≠ 0 then scaleUp fuel (c * 10) (e - 1) else (c, e)

/-- round-half-even on the dropped digit and sticky flag; a carry out of `MAXSIG` drops one more digit. -/
def roundEven : Nat → Nat → Int → Nat → Bool → Nat × Int
  | 0, c, e, _, _ => (c, e)
  | fuel + 1, c, e, dg, st =>
    let up := if st then dg ≥ 5 else (dg > 5 || (dg == 5 && c % 2 == 1))
    if up then
      if c + 1 > MAXSIG then roundEven fuel (c / 10) (e + 1) (c % 10) (st || dg != 0)
      else (c + 1, e)
    else (c, e)

/-- `RoundingMode.reduce*` followed by the callers' overflow test: the exact value `c·10^e` (plus a sticky
    flag for a non-zero tail below it) rounded into the format. -/
def reduce (neg : Bool) (c : Nat) (e : Int) (sticky : Bool := false) : Dec :=
  if c = 0 ∧ ¬ sticky then .fin neg 0 0 else
  let fuel := Nat.log2 (c + 1) + 2
  let (c1, e1, d1, s1) := dropHigh fuel c e 0 sticky
  let lowFuel := (EMIN - e1).toNat + 1
  let (c2, e2, d2, s2) := dropLow (min lowFuel 60) c1 e1 d1 s1
  -- far below the smallest subnormal: everything is dropped
  let (c2, e2, d2, s2) := if e2 < EMIN then (0, EMIN, 0, true) else (c2, e2, d2, s2)
  let (c3, e3) := scaleUp 40 c2 e2
  let (c4, e4) := roundEven 3 c3 e3 d2 s2
  if e4 > EMAX then .inf neg else normalize (.fin neg c4 e4)

def isNaN : Dec → Bool | .nan => true | _ => false
def isInf : Dec → Bool | .inf _ => true | _ => false
def isSpecial : Dec → Bool | .fin .. => false | _ => true
def isZero : Dec → Bool | .fin _ 0 _ => true | _ => false
def signbit : Dec → Bool | .fin n _ _ => n | .inf n => n | .nan => false

def neg : Dec → Dec
  | .fin n c e => .fin (!n) c e
  | .inf n => .inf (!n)
  | .nan => .nan

def abs : Dec → Dec
  | .fin _ c e => .fin false c e
  | .inf _ => .inf false
  | .nan => .nan

def pow10 (n : Nat) : Nat := 10 ^ n

/-- exact sum of two finite values as a signed coefficient at the smaller exponent -/
def addFin (n1 : Bool) (c1 : Nat) (e1 : Int) (n2 : Bool) (c2 : Nat) (e2 : Int) : Dec :=
  if c1 = 0 then
    if c2 = 0 then .fin (n1 && n2) 0 0 else normalize (.fin n2 c2 e2)
  else if c2 = 0 then normalize (.fin n1 c1 e1)
  else
    let e := min e1 e2
    let a : Int := (if n1 then -1 else 1) * (c1 * pow10 (e1 - e).toNat : Nat)
    let b : Int := (if n2 then -1 else 1) * (c2 * pow10 (e2 - e).toNat : Nat)
    let s := a + b
    if s = 0 then .fin false 0 0
    else reduce (decide (s < 0)) s.natAbs e

def add : Dec → Dec → Dec
  | .nan, _ => .nan
  | _, .nan => .nan
  | .inf n, .inf m => if n = m then .inf n else .nan
  | .inf n, _ => .inf n
  | _, .inf m => .inf m
  | .fin n1 c1 e1, .fin n2 c2 e2 => addFin n1 c1 e1 n2 c2 e2

def sub : Dec → Dec → Dec
  | .nan, _ => .nan
  | _, .nan => .nan
  | .inf n, .inf m => if n = m then .nan else .inf n
  | .inf n, _ => .inf n
  | _, .inf m => .inf (!m)
  | .fin n1 c1 e1, .fin n2 c2 e2 =>
    if c1 = 0 ∧ c2 = 0 then .fin (n1 && !n2) 0 0 else addFin n1 c1 e1 (!n2) c2 e2

def mul : Dec → Dec → Dec
  | .nan, _ => .nan
  | _, .nan => .nan
  | .inf n, .inf m => .inf (n != m)
  | .inf n, .fin m c _ => if c = 0 then .nan else .inf (n != m)
  | .fin n c _, .inf m => if c = 0 then .nan else .inf (n != m)
  | .fin n1 c1 e1, .fin n2 c2 e2 =>
    if c1 = 0 ∨ c2 = 0 then .fin (n1 != n2) 0 0 else reduce (n1 != n2) (c1 * c2) (e1 + e2)

/-- number of decimal digits of `c` (0 for 0) -/
def ndigitsAux : Nat → Nat → Nat
  | 0, _ => 0
  | fuel + 1, c => if c = 0 then 0 else 1 + ndigitsAux fuel (c / 10)
def ndigits (c : Nat) : Nat := ndigitsAux (Nat.log2 c + 2) c

/-- correctly rounded quotient of two non-zero finite values -/
def quoFin (neg : Bool) (c1 : Nat) (e1 : Int) (c2 : Nat) (e2 : Int) : Dec :=
  -- scale the dividend so that the integer quotient has at least 38 digits
  let k := 40 + ndigits c2
  let num := c1 * pow10 k
  let q := num / c2
  let r := num % c2
  reduce neg q (e1 - e2 - k) (r != 0)

def quo : Dec → Dec → Dec
  | .nan, _ => .nan
  | _, .nan => .nan
  | .inf _, .inf _ => .nan
  | .inf n, .fin m _ _ => .inf (n != m)
  | .fin n _ _, .inf m => .fin (n != m) 0 0
  | .fin n1 c1 e1, .fin n2 c2 e2 =>
    if c2 = 0 then (if c1 = 0 then .nan else .inf (n1 != n2))
    else if c1 = 0 then .fin (n1 != n2) 0 0
    else quoFin (n1 != n2) c1 e1 c2 e2

/-- `QuoRem`: truncated integer quotient and the remainder with the sign of the dividend. -/
def quoRem : Dec → Dec → Dec × Dec
  | .nan, _ => (.nan, .nan)
  | _, .nan => (.nan, .nan)
  | .inf _, .inf _ => (.nan, .nan)
  | .inf n, .fin m _ _ => (.inf (n != m), .nan)
  | .fin n c e, .inf m => (.fin (n != m) 0 0, normalize (.fin n c e))
  | .fin n1 c1 e1, .fin n2 c2 e2 =>
    if c2 = 0 then (if c1 = 0 then (.nan, .nan) else (.inf (n1 != n2), .nan))
    else if c1 = 0 then (.fin (n1 != n2) 0 0, .fin n1 0 0)
    else
      let e := min e1 e2
      let a := c1 * pow10 (e1 - e).toNat
      let b := c2 * pow10 (e2 - e).toNat
      let q := a / b
      let r := a % b
      (reduce (n1 != n2) q 0, reduce n1 r e)

/-- three-way comparison of finite values: -1, 0, 1 -/
def cmpFin (n1 : Bool) (c1 : Nat) (e1 : Int) (n2 : Bool) (c2 : Nat) (e2 : Int) : Int :=
  let e := min e1 e2
  let a : Int := (if n1 then -1 else 1) * (c1 * pow10 (e1 - e).toNat : Nat)
  let b : Int := (if n2 then -1 else 1) * (c2 * pow10 (e2 - e).toNat : Nat)
  if a < b then -1 else if a = b then 0 else 1

/-- `Decimal.Cmp`: `none` when either side is NaN. -/
def cmp : Dec → Dec → Option Int
  | .nan, _ => none
  | _, .nan => none
  | .inf n, .inf m => some (if n = m then 0 else if n then -1 else 1)
  | .inf n, _ => some (if n then -1 else 1)
  | _, .inf m => some (if m then 1 else -1)
  | .fin n1 c1 e1, .fin n2 c2 e2 => some (cmpFin n1 c1 e1 n2 c2 e2)

def equal (a b : Dec) : Bool := cmp a b == some 0
def less (a b : Dec) : Bool := cmp a b == some (-1)
def greater (a b : Dec) : Bool := cmp a b == some 1
def lessEq (a b : Dec) : Bool := less a b || equal a b
def greaterEq (a b : Dec) : Bool := greater a b || equal a b

/-- `decimal128.Compare`: NaN sorts below everything and equals itself. -/
def compare (a b : Dec) : Int :=
  match a, b with
  | .nan, .nan => 0
  | .nan, _ => -1
  | _, .nan => 1
  | a, b => (cmp a b).getD 0

def ceil : Dec → Dec
  | .fin n c e =>
    if c = 0 then .fin n 0 0
    else if e ≥ 0 then normalize (.fin n c e)
    else
      let p := pow10 (-e).toNat
      let q := c / p
      let r := c % p
      if r = 0 then normalize (.fin n q 0)
      else if n then normalize (.fin n q 0) else normalize (.fin n (q + 1) 0)
  | d => d

def floor : Dec → Dec
  | .fin n c e =>
    if c = 0 then .fin n 0 0
    else if e ≥ 0 then normalize (.fin n c e)
    else
      let p := pow10 (-e).toNat
      let q := c / p
      let r := c % p
      if r = 0 then normalize (.fin n q 0)
      else if n then normalize (.fin n (q + 1) 0) else normalize (.fin n q 0)
  | d => d

inductive Int64Result where
  | panic                 -- `Decimal(NaN).Int64()` panics
  | notOk
  | ok (i : Int)
  deriving Repr, DecidableEq

/-- `Decimal.Int64`: the value truncated toward zero when it fits in an `int64`. -/
def int64 : Dec → Int64Result
  | .nan => .panic
  | .inf _ => .notOk
  | .fin n c e =>
    if e < -35 then .ok 0
    else
      let m : Nat := if e < 0 then c / pow10 (-e).toNat else
        -- a huge positive exponent cannot fit; avoid building 10^e for e > 40
        if e > 40 then (if c = 0 then 0 else 2 ^ 64) else c * pow10 e.toNat
      if n then (if m > 2 ^ 63 then .notOk else .ok (-(m : Int)))
      else (if m > 2 ^ 63 - 1 then .notOk else .ok m)

def ofInt (i : Int) : Dec :=
  if i = 0 then .fin false 0 0 else normalize (.fin (decide (i < 0)) i.natAbs 0)

/-- exact value `(-1)^neg · m · 2^x` rounded into the format (`FromFloat64`). -/
def ofBinary (neg : Bool) (m : Nat) (x : Int) : Dec :=
  if m = 0 then .fin neg 0 0
  else if x ≥ 0 then reduce neg (m * 2 ^ x.toNat) 0
  else reduce neg (m * 5 ^ (-x).toNat) x

end Dec
end Jmes
