/-
  IEEE-754 binary64 as exact dyadic values (Lean's opaque `Float` is deliberately not used, so that the
  float paths of `number.go` can be reasoned about).  `fin neg m e` is `(-1)^neg · m · 2^e`, kept normalised:
  `m` odd, or `m = 0 ∧ e = 0`.
-/
import Jmes.Basic.Dec
namespace Jmes

inductive F64 where
  | nan
  | inf (neg : Bool)
  | fin (neg : Bool) (m : Nat) (e : Int)
  deriving Repr, DecidableEq, Inhabited

namespace F64

def stripTwos : Nat → Nat → Int → Nat × Int
  | 0, m, e => (m, e)
  | fuel + 1, m, e => if m ≠ 0 ∧ m % 2 = 0 then stripTwos fuel (m / 2) (e + 1) else (m, e)

def mk (neg : Bool) (m : Nat) (e : Int) : F64 :=
  if m = 0 then .fin neg 0 0
  else let (m', e') := stripTwos (Nat.log2 m + 1) m e; .fin neg m' e'

/-- adjust the exponent so that the integer quotient lands in [2^52, 2^53) (or e = -1074) -/
def fixExp : Nat → Nat → Nat → Int → Int
  | 0, _, _, e => e
  | fuel + 1, num, den, e =>
    let q := if e ≥ 0 then num / (den * 2 ^ e.toNat) else (num * 2 ^ (-e).toNat) / den
    if q ≥ 2 ^ 53 then fixExp fuel num den (e + 1)
    else if q < 2 ^ 52 ∧ e > -1074 then fixExp fuel num den (e - 1)
    else e

/-- round the positive rational `num/den` to nearest-even binary64 -/
def roundPos (neg : Bool) (num den : Nat) : F64 :=
  if num = 0 then .fin neg 0 0 else
  let e0 : Int := (Nat.log2 num : Int) - (Nat.log2 den : Int) - 52
  let e0 := if e0 < -1074 then -1074 else e0
  let e := fixExp 6 num den e0
  let (n, d) := if e ≥ 0 then (num, den * 2 ^ e.toNat) else (num * 2 ^ (-e).toNat, den)
  let q := n / d
  let r := n % d
  let q := if 2 * r > d ∨ (2 * r = d ∧ q % 2 = 1) then q + 1 else q
  -- q may have become 2^53: still exactly representable (mk renormalises)
  if q ≥ 2 ^ 53 ∧ e + 1 > 971 then .inf neg
  else if e > 971 then .inf neg
  else mk neg q e

/-- exact signed dyadic sum, then rounded -/
def addFin (n1 : Bool) (m1 : Nat) (e1 : Int) (n2 : Bool) (m2 : Nat) (e2 : Int) : F64 :=
  if m1 = 0 ∧ m2 = 0 then .fin (n1 && n2) 0 0
  else
    let e := min e1 e2
    let a : Int := (if n1 then -1 else 1) * (m1 * 2 ^ (e1 - e).toNat : Nat)
    let b : Int := (if n2 then -1 else 1) * (m2 * 2 ^ (e2 - e).toNat : Nat)
    let s := a + b
    if s = 0 then .fin false 0 0
    else if e ≥ 0 then roundPos (decide (s < 0)) (s.natAbs * 2 ^ e.toNat) 1
    else roundPos (decide (s < 0)) s.natAbs (2 ^ (-e).toNat)

def neg : F64 → F64
  | .nan => .nan
  | .inf n => .inf (!n)
  | .fin n m e => .fin (!n) m e

def abs : F64 → F64
  | .nan => .nan
  | .inf _ => .inf false
  | .fin _ m e => .fin false m e

def add : F64 → F64 → F64
  | .nan, _ => .nan
  | _, .nan => .nan
  | .inf n, .inf m => if n = m then .inf n else .nan
  | .inf n, _ => .inf n
  | _, .inf m => .inf m
  | .fin n1 m1 e1, .fin n2 m2 e2 => addFin n1 m1 e1 n2 m2 e2

def sub (a b : F64) : F64 := add a (neg b)

def mul : F64 → F64 → F64
  | .nan, _ => .nan
  | _, .nan => .nan
  | .inf n, .inf m => .inf (n != m)
  | .inf n, .fin m c _ => if c = 0 then .nan else .inf (n != m)
  | .fin n c _, .inf m => if c = 0 then .nan else .inf (n != m)
  | .fin n1 m1 e1, .fin n2 m2 e2 =>
    if m1 = 0 ∨ m2 = 0 then .fin (n1 != n2) 0 0
    else
      let e := e1 + e2
      if e ≥ 0 then roundPos (n1 != n2) (m1 * m2 * 2 ^ e.toNat) 1
      else roundPos (n1 != n2) (m1 * m2) (2 ^ (-e).toNat)

def div : F64 → F64 → F64
  | .nan, _ => .nan
  | _, .nan => .nan
  | .inf _, .inf _ => .nan
  | .inf n, .fin m _ _ => .inf (n != m)
  | .fin n _ _, .inf m => .fin (n != m) 0 0
  | .fin n1 m1 e1, .fin n2 m2 e2 =>
    if m2 = 0 then (if m1 = 0 then .nan else .inf (n1 != n2))
    else if m1 = 0 then .fin (n1 != n2) 0 0
    else
      let e := e1 - e2
      if e ≥ 0 then roundPos (n1 != n2) (m1 * 2 ^ e.toNat) m2
      else roundPos (n1 != n2) m1 (m2 * 2 ^ (-e).toNat)

/-- `math.Floor` -/
def floor : F64 → F64
  | .fin n m e =>
    if e ≥ 0 ∨ m = 0 then .fin n m e
    else
      let p := 2 ^ (-e).toNat
      let q := m / p
      -- m odd and e < 0, so the value is never integral
      if n then mk n (q + 1) 0 else mk n q 0
  | f => f

/-- `math.Ceil` -/
def ceil : F64 → F64
  | .fin n m e =>
    if e ≥ 0 ∨ m = 0 then .fin n m e
    else
      let p := 2 ^ (-e).toNat
      let q := m / p
      if n then mk n q 0 else mk n (q + 1) 0
  | f => f

/-- `math.Trunc` -/
def trunc : F64 → F64
  | .fin n m e =>
    if e ≥ 0 ∨ m = 0 then .fin n m e
    else mk n (m / 2 ^ (-e).toNat) 0
  | f => f

/-- `math.Mod(x, y)`: exact remainder with the sign of `x`. -/
def mod : F64 → F64 → F64
  | .nan, _ => .nan
  | _, .nan => .nan
  | .inf _, _ => .nan
  | .fin n m e, .inf _ => .fin n m e
  | .fin n1 m1 e1, .fin _ m2 e2 =>
    if m2 = 0 then .nan
    else if m1 = 0 then .fin n1 0 0
    else
      let e := min e1 e2
      let a := m1 * 2 ^ (e1 - e).toNat
      let b := m2 * 2 ^ (e2 - e).toNat
      let r := a % b
      if r = 0 then .fin n1 0 0 else mk n1 r e

def isNaN : F64 → Bool | .nan => true | _ => false
def isInf : F64 → Bool | .inf _ => true | _ => false

def toDec : F64 → Dec
  | .nan => .nan
  | .inf n => .inf n
  | .fin n m e => Dec.ofBinary n m e

/-- the `float64` branch of `toInt`: `none` = "is a number but not an integer in range". -/
def toInt : F64 → Option Int
  | .nan => none
  | .inf _ => none
  | .fin n m e =>
    if e < 0 then none   -- m odd ⇒ not integral (m = 0 has e = 0)
    else if e > 63 then none
    else
      let v := m * 2 ^ e.toNat
      if n then (if v > 2 ^ 63 then none else some (-(v : Int)))
      else if v ≥ 2 ^ 63 then none   -- 2^63 itself is out of range (before FX27 it wrapped to −2^63 on amd64)
      else some v

end F64
end Jmes
