/-
  C05, third round — the gaps an independent review found after Jmes/Properties/C05B.lean:

  §1  the ROUNDING FUNCTION of the format, in closed form: `Dec.reduce` (the one place where the library rounds) equals
      `roundN` — ±Inf exactly when the exact magnitude is `≥ (MAXSIG + ½)·10^EMAX` (`OverflowsD`), otherwise the value
      with its `k = kdrop c e` lowest digits rounded away HALF-EVEN (`rhe`), where `k` is the least number of digits that
      leaves a coefficient `≤ MAXSIG` at an exponent `≥ EMIN`.  Consequences: exact on representable values, within half
      a unit of the last kept digit otherwise, ties to even, at least 34 digits kept unless the result is subnormal.
  §2  `+ - * / // %` THROUGH THE EVALUATOR, for operands given by value (`C05B.NumIs`), as that function of the exact
      result — all six operators, rounded case and underflow included (the gap: no rounded theorem for `-`, `//`, `%`
      at evaluator level; `%` turns out to be ALWAYS exact on operands of the format, `mod_always_exact`).
  §3  the ERROR clause in both directions: `applyBinOp op x y = .err cs  ↔  cs = [not-a-number] ∧ (division by zero ∨ the
      exact result overflows)`, and nothing else is ever reported for numeric operands.
  §4  `sum` = the left fold of the evaluator's `+` with error propagation; an INTERMEDIATE overflow is an error although
      the exact sum is representable (`sum([9e6144, 9e6144, -9e6144])`; Go agrees).
  §5  comparison of number texts with more than 34 digits compares the ROUNDED values: two different 36-digit
      numbers are `==`, `<=`, `>=` and neither `<` nor `>` (Go agrees).

  Every concrete instance quoted with "Go" below was run against /repo (jmespath.Search) and agrees with the model.
  Against the property TEXT: `sum` is not "exact whenever the result has at most 34 digits" — §4 adds intermediate OVERFLOW
  to the intermediate rounding found in C05B; the largest number is `MAXSIG·10^EMAX = 1.2980742146337069071326240823050239e6145`
  (not `9.99…e6144`), so "overflow" starts half a unit above that.
-/
import Jmes.Proofs.C05CLemmas
import Jmes.Properties.C20B
namespace Jmes.C05C
open Jmes.Dec
open Jmes.C05B (NumIs arith_numIs numIs_dec numIs_int numIs_of_toDecimal numIs_text_34 compare_exact_eval)
open Jmes.C05CLemmas
open Jmes.C20B (rhe ndrop)

/-! ## 1. the rounding function -/

/-- **`Dec.reduce` IS the rounding function `roundN`** (every coefficient, every exponent, no sticky flag):
    `roundN neg c e = if OverflowsD c 1 e then ±Inf else normalize (fin neg (rhe c k) (e + k))`, `k = kdrop c e`. -/
theorem reduce_is_round (neg : Bool) (c : Nat) (e : Int) :
    reduce neg c e false =
      if OverflowsD c 1 e then .inf neg else normalize (.fin neg (rhe c (kdrop c e)) (e + ((kdrop c e : Nat) : Int))) :=
  reduce_closed neg c e

/-- the same for a quotient `X / D` with `X = q·D + r`, `r < D`, whose integer part `q` has more than 34 digits and whose
    sticky flag says `r ≠ 0` — the way `Dec.quo` calls `reduce` -/
theorem reduce_is_round_quotient (neg : Bool) (q r D : Nat) (e : Int) (hr : r < D) (hq : MAXSIG < q) :
    reduce neg q e (r != 0) =
      if OverflowsD (q * D + r) D e then .inf neg
      else normalize (.fin neg (rheD (q * D + r) D (kdrop q e)) (e + ((kdrop q e : Nat) : Int))) :=
  reduce_bigD neg q r D e hr hq

-- 2/3·10^41 at exponent -41: seven digits go, the last kept digit is rounded up
example : reduce false (2 * 10 ^ 41 / 3) (-41) (2 * 10 ^ 41 % 3 != 0) = .fin false 6666666666666666666666666666666667 (-34) := by
  decide
example : kdrop (2 * 10 ^ 41 / 3) (-41) = 7 ∧ rheD (2 * 10 ^ 41) 3 7 = 6666666666666666666666666666666667 := by decide
-- MAXSIG·10^EMAX is the largest number; half a unit more overflows, a little less does not (ties go to the even MAXSIG + 1)
example : reduce false (10 * MAXSIG + 5) (EMAX - 1) = .inf false ∧ reduce false (10 * MAXSIG + 4) (EMAX - 1) = .fin false MAXSIG EMAX := by
  decide
example : OverflowsD (10 * MAXSIG + 5) 1 (EMAX - 1) ∧ ¬ OverflowsD (10 * MAXSIG + 4) 1 (EMAX - 1) := by decide

/-- **what overflow means.**  By definition `OverflowsD X D e` is `(MAXSIG + ½)·10^EMAX ≤ (X / D)·10^e`, written in
    the integers.  (i) For a coefficient that needs rounding it is "the correctly rounded result needs an exponent
    above `EMAX`"; (ii) for one that fits, "the exponent is above `EMAX` and the zeros that would bring it down to
    `EMAX` do not fit"; (iii) it only depends on the value. -/
theorem overflow_meaning (c : Nat) (e : Int) :
    (OverflowsD c 1 e ↔ (2 * MAXSIG + 1) * 10 ^ (EMAX - e).toNat ≤ 2 * c * 10 ^ (e - EMAX).toNat) ∧
    (MAXSIG < c → (OverflowsD c 1 e ↔
      EMAX < e + ((kdrop c e : Nat) : Int) + (if rhe c (kdrop c e) ≤ MAXSIG then 0 else 1))) ∧
    (c ≤ MAXSIG → (OverflowsD c 1 e ↔ (EMAX < e ∧ MAXSIG < c * 10 ^ (e - EMAX).toNat))) ∧
    (∀ d : Nat, OverflowsD (c * 10 ^ d) 1 e ↔ OverflowsD c 1 (e + (d : Int))) :=
  ⟨by unfold OverflowsD; rw [Nat.mul_one], overflows_iff_exponent c e, overflows_small c e, fun d => overflowsD_shift c 1 d e⟩

example : OverflowsD 13 1 6144 ∧ ¬ OverflowsD 12 1 6144 := by decide

/-- **the rounding function on a representable value is the identity** (`Representable`: some coefficient `≤ MAXSIG` —
    e.g. at most 34 digits — at an exponent in `[EMIN, EMAX]` denotes it) -/
theorem round_exact (neg : Bool) (c : Nat) (e : Int) (h : Representable c e) :
    roundN neg c e = normalize (.fin neg c e) := roundN_exact neg c e h

/-- **… and otherwise correctly rounded, half-even**: when the value does not overflow the result is
    `c4·10^(e+k)` with `k = kdrop c e`, `c4 = rhe c k`, where
    * `k` is the least number of dropped digits that makes the value fit: `c / 10^k ≤ MAXSIG`, `e + k ≥ EMIN`, and (if
      `k > 0`) either `c / 10^(k-1) > MAXSIG` — then at least 34 digits are kept, `c4 ≥ 10^33` — or `e + k = EMIN`
      (gradual underflow: the result is a multiple of `10^EMIN`);
    * `c4·10^k` is within half a unit `10^k` of `c` (`Close`), `c4` is `c / 10^k` or one more, and an exact tie
      (`2·(c mod 10^k) = 10^k`) goes to the even neighbour. -/
theorem round_value (neg : Bool) (c : Nat) (e : Int) (h : ¬ OverflowsD c 1 e) :
    roundN neg c e = normalize (.fin neg (rhe c (kdrop c e)) (e + ((kdrop c e : Nat) : Int))) ∧
    EMIN ≤ e + ((kdrop c e : Nat) : Int) ∧ c / 10 ^ kdrop c e ≤ MAXSIG ∧
    (kdrop c e = 0 ∨ e + ((kdrop c e : Nat) : Int) = EMIN ∨ (MAXSIG < c / 10 ^ (kdrop c e - 1) ∧ 10 ^ 33 ≤ rhe c (kdrop c e))) ∧
    Close c (kdrop c e) (rhe c (kdrop c e)) ∧
    c / 10 ^ kdrop c e ≤ rhe c (kdrop c e) ∧ rhe c (kdrop c e) ≤ c / 10 ^ kdrop c e + 1 ∧
    (2 * (c % 10 ^ kdrop c e) = 10 ^ kdrop c e → rhe c (kdrop c e) % 2 = 0) := by
  obtain ⟨k1, k2, k3⟩ := kdrop_spec c e
  have hb := rheQ_bounds c (10 ^ kdrop c e)
  rw [← rhe_eq_rheQ] at hb
  refine ⟨by rw [roundN_eq, if_neg h], k2, k1, ?_, rhe_close _ _, hb.1, hb.2, fun ht => ?_⟩
  · rcases k3 with h0 | h0 | ⟨_, h1, h2⟩
    · exact Or.inl h0
    · exact Or.inr (Or.inl h0)
    · refine Or.inr (Or.inr ⟨h1, ?_⟩)
      have : 10 ^ 33 ≤ (MAXSIG + 1) / 10 := by decide
      omega
  · rw [rhe_eq_rheQ]; exact rheQ_tie_even _ _ ht

/-- the rounding function depends on the value only -/
theorem round_by_value (neg : Bool) (c d : Nat) (e : Int) : roundN neg (c * 10 ^ d) e = roundN neg c (e + (d : Int)) :=
  roundN_shift neg c d e

/-- **closure**: a result that does not overflow is again a number of the format (`Representable`), so the theorems of §2
    compose — the output of one operator satisfies the side conditions on the operands of the next -/
theorem round_result_representable (neg : Bool) (c : Nat) (e : Int) (h : ¬ OverflowsD c 1 e) :
    ∃ c' e', roundN neg c e = normalize (.fin neg c' e') ∧ Representable c' e' := by
  have hEm : EMIN = -6176 := rfl
  have hEx : EMAX = 6111 := rfl
  obtain ⟨hv, hlo, hq, _, _, _, hub, _⟩ := round_value neg c e h
  refine ⟨_, _, hv, ?_⟩
  by_cases hc : MAXSIG < c
  · have hno := (not_congr (overflows_iff_exponent c e hc)).mp h
    by_cases hr : rhe c (kdrop c e) ≤ MAXSIG
    · simp only [hr, if_true] at hno
      exact fits_of_le hr hlo (by omega)
    · simp only [hr, if_false] at hno
      have : rhe c (kdrop c e) = MAXSIG + 1 := by omega
      rw [this]
      exact ⟨(MAXSIG + 1) / 10, 0, 1, by decide, by decide, by omega, by omega⟩
  · have hc' : c ≤ MAXSIG := by omega
    have hno := (not_congr (overflows_small c e hc')).mp h
    have hk : kdrop c e = (EMIN - e).toNat := by unfold kdrop; rw [C20B.ndrop_zero hc']; omega
    by_cases he : e < EMIN
    · have hk1 : 1 ≤ kdrop c e := by omega
      have : c / 10 ^ kdrop c e ≤ c / 10 ^ 1 := C20B.div_pow_anti c hk1
      refine fits_of_le ?_ hlo (by omega)
      rw [MAXSIG_val] at *
      omega
    · have hk0 : kdrop c e = 0 := by omega
      rw [hk0, C20B.rhe_zero]
      by_cases he' : e ≤ EMAX
      · exact fits_of_le hc' (by omega) (by simpa [hk0] using he')
      · have hfit : c * 10 ^ (e - EMAX).toNat ≤ MAXSIG := by
          apply Nat.le_of_not_lt
          intro hlt
          exact hno ⟨by omega, hlt⟩
        exact ⟨c * 10 ^ (e - EMAX).toNat, (e - EMAX).toNat, 0, by simp, hfit, by omega, by omega⟩

example : ∃ c' e', roundN false (2 * 10 ^ 34 + 15) 0 = normalize (.fin false c' e') ∧ Representable c' e' :=
  round_result_representable _ _ _ (by decide +kernel)

-- 2e34 + 5 (35 digits): one digit goes, the tie is resolved to the even 2000…000; 2e34 + 15 goes up to …002
example : roundN false (2 * 10 ^ 34 + 5) 0 = .fin false 2 34 ∧
    roundN false (2 * 10 ^ 34 + 15) 0 = .fin false 2000000000000000000000000000000002 1 := by decide +kernel
example : roundN true 123 (-2) = normalize (.fin true 123 (-2)) := round_exact _ _ _ (C05B.fits_34_digits (by decide) (by decide) (by decide))
example : roundN false (7 * 10 ^ 50) (-50) = roundN false 7 ((-50 : Int) + (50 : Nat)) := round_by_value false 7 50 (-50)
example : (roundN false 15 (-6177) = normalize (.fin false (rhe 15 (kdrop 15 (-6177))) ((-6177 : Int) + ((kdrop 15 (-6177) : Nat) : Int)))) ∧
    kdrop 15 (-6177) = 1 ∧ rhe 15 1 = 2 := ⟨(round_value false 15 (-6177) (by decide +kernel)).1, by decide, by decide⟩

/-! ## 2. `+ - * / // %` through the evaluator, operands by value -/

/-- the evaluator's outcome for an exact result of sign `neg` and magnitude `c·10^e`: `not-a-number` on overflow,
    otherwise the decimal `roundN neg c e` -/
def roundedRes (neg : Bool) (c : Nat) (e : Int) : Res Val :=
  if OverflowsD c 1 e then .err [Cat.notANumber]
  else .ok (.num (.dec (normalize (.fin neg (rhe c (kdrop c e)) (e + ((kdrop c e : Nat) : Int))))))

/-- the same for an exact result `(X / D)·10^e` -/
def roundedResD (neg : Bool) (X D : Nat) (e : Int) : Res Val :=
  if OverflowsD X D e then .err [Cat.notANumber]
  else .ok (.num (.dec (normalize (.fin neg (rheD X D (kdrop (X / D) e)) (e + ((kdrop (X / D) e : Nat) : Int))))))

/-- `checkD` (the NaN/Inf test every operator ends with) applied to a rounded result -/
theorem checkD_roundN (neg : Bool) (c : Nat) (e : Int) : checkD (roundN neg c e) = roundedRes neg c e := by
  rw [roundN_eq]
  unfold roundedRes
  by_cases h : OverflowsD c 1 e
  · simp only [h, if_true]; rfl
  · simp only [h, if_false]; exact C05B.checkD_normalize _ _ _

/-- see `checkD_roundN` -/
theorem checkD_roundD (neg : Bool) (X D : Nat) (e : Int) : checkD (roundD neg X D e) = roundedResD neg X D e := by
  unfold roundD roundedResD
  by_cases h : OverflowsD X D e
  · simp only [h, if_true]; rfl
  · simp only [h, if_false]; exact C05B.checkD_normalize _ _ _

example : checkD (roundN false 13 6144) = .err [Cat.notANumber] := by
  rw [show roundN false 13 6144 = .inf false by decide]; rfl
example : checkD (roundD false (2 * 10 ^ 41) 3 (-41)) = .ok (.num (.dec (.fin false 6666666666666666666666666666666667 (-34)))) := by
  rw [show roundD false (2 * 10 ^ 41) 3 (-41) = .fin false 6666666666666666666666666666666667 (-34) by decide +kernel]; rfl

/-- **exact whenever representable** -/
theorem roundedRes_exact (neg : Bool) (c : Nat) (e : Int) (h : Representable c e) :
    roundedRes neg c e = .ok (.num (.dec (normalize (.fin neg c e)))) := by
  rw [← checkD_roundN, roundN_exact neg c e h, C05B.checkD_normalize]

/-- **an error exactly on overflow**, and then `not-a-number` -/
theorem roundedRes_err_iff (neg : Bool) (c : Nat) (e : Int) (cs : List Cat) :
    roundedRes neg c e = .err cs ↔ cs = [Cat.notANumber] ∧ OverflowsD c 1 e := by
  unfold roundedRes
  by_cases h : OverflowsD c 1 e
  · rw [if_pos h]
    exact ⟨fun h' => (by cases h'; exact ⟨rfl, h⟩), fun h' => (by rw [h'.1])⟩
  · rw [if_neg h]
    exact ⟨fun h' => (by cases h'), fun h' => absurd h'.2 h⟩

/-- see `roundedRes_err_iff` -/
theorem roundedResD_err_iff (neg : Bool) (X D : Nat) (e : Int) (cs : List Cat) :
    roundedResD neg X D e = .err cs ↔ cs = [Cat.notANumber] ∧ OverflowsD X D e := by
  unfold roundedResD
  by_cases h : OverflowsD X D e
  · rw [if_pos h]
    exact ⟨fun h' => (by cases h'; exact ⟨rfl, h⟩), fun h' => (by rw [h'.1])⟩
  · rw [if_neg h]
    exact ⟨fun h' => (by cases h'), fun h' => absurd h'.2 h⟩

/-- computing an instance: evaluate the rounding function (a `Dec`, decidable) -/
theorem roundedRes_of_fin {neg : Bool} {c : Nat} {e : Int} {n : Bool} {c' : Nat} {e' : Int}
    (h : roundN neg c e = .fin n c' e') : roundedRes neg c e = .ok (.num (.dec (.fin n c' e'))) := by
  rw [← checkD_roundN, h]; rfl

/-- see `roundedRes_of_fin` -/
theorem roundedRes_of_inf {neg : Bool} {c : Nat} {e : Int} {b : Bool}
    (h : roundN neg c e = .inf b) : roundedRes neg c e = .err [Cat.notANumber] := by
  rw [← checkD_roundN, h]; rfl

/-- see `roundedRes_of_fin` -/
theorem roundedResD_of_fin {neg : Bool} {X D : Nat} {e : Int} {n : Bool} {c' : Nat} {e' : Int}
    (h : roundD neg X D e = .fin n c' e') : roundedResD neg X D e = .ok (.num (.dec (.fin n c' e'))) := by
  rw [← checkD_roundD, h]; rfl

/-- **exact or close, in one statement**: the outcome for an exact result `±c·10^e` is (i) the exact value whenever it is
    representable, (ii) `not-a-number` iff it overflows, (iii) otherwise `c4·10^(e+k)` where `k = kdrop c e` digits are dropped,
    `c4 = rhe c k` is within half a unit `10^k` of `c`, ties to even, and at least 34 digits are kept unless `e + k = EMIN`
    (gradual underflow, no error). -/
theorem roundedRes_exact_or_close (neg : Bool) (c : Nat) (e : Int) :
    (Representable c e → roundedRes neg c e = .ok (.num (.dec (normalize (.fin neg c e))))) ∧
    (OverflowsD c 1 e → roundedRes neg c e = .err [Cat.notANumber]) ∧
    (¬ OverflowsD c 1 e → ∃ c4 k : Nat,
      roundedRes neg c e = .ok (.num (.dec (normalize (.fin neg c4 (e + (k : Int)))))) ∧ k = kdrop c e ∧ c4 = rhe c k ∧
      Close c k c4 ∧ EMIN ≤ e + (k : Int) ∧ (k = 0 ∨ e + (k : Int) = EMIN ∨ 10 ^ 33 ≤ c4) ∧
      (2 * (c % 10 ^ k) = 10 ^ k → c4 % 2 = 0)) := by
  refine ⟨roundedRes_exact neg c e, fun h => by unfold roundedRes; rw [if_pos h], fun h => ?_⟩
  obtain ⟨_, hlo, _, hd, hcl, _, _, htie⟩ := round_value neg c e h
  refine ⟨rhe c (kdrop c e), kdrop c e, by unfold roundedRes; rw [if_neg h], rfl, rfl, hcl, hlo, ?_, htie⟩
  rcases hd with h0 | h0 | ⟨_, h0⟩
  · exact Or.inl h0
  · exact Or.inr (Or.inl h0)
  · exact Or.inr (Or.inr h0)

example : ∃ c4 k : Nat, roundedRes false (2 * 10 ^ 34 + 15) 0 = .ok (.num (.dec (normalize (.fin false c4 ((0 : Int) + (k : Int)))))) ∧
    k = kdrop (2 * 10 ^ 34 + 15) 0 ∧ c4 = rhe (2 * 10 ^ 34 + 15) k ∧ Close (2 * 10 ^ 34 + 15) k c4 ∧ EMIN ≤ (0 : Int) + (k : Int) ∧
    (k = 0 ∨ (0 : Int) + (k : Int) = EMIN ∨ 10 ^ 33 ≤ c4) ∧ (2 * ((2 * 10 ^ 34 + 15) % 10 ^ k) = 10 ^ k → c4 % 2 = 0) :=
  (roundedRes_exact_or_close false (2 * 10 ^ 34 + 15) 0).2.2 (by decide +kernel)

example : roundedRes false 121 (-2) = .ok (.num (.dec (normalize (.fin false 121 (-2))))) :=
  roundedRes_exact _ _ _ (C05B.fits_34_digits (by decide) (by decide) (by decide))
example : roundedRes false 13 6144 = .err [Cat.notANumber] := (roundedRes_err_iff _ _ _ _).mpr ⟨rfl, by decide⟩
example : roundedResD false (10 ^ 200) 1 6000 = .err [Cat.notANumber] := (roundedResD_err_iff _ _ _ _ _).mpr ⟨rfl, by decide +kernel⟩

/-- **`x + y`, every case**: `S` the exact sum in units of `10^m` (`m` any exponent below both operands).  A zero sum is
    a zero; otherwise the result is `S·10^m` rounded by the rounding function of §1 — exact if representable, half-even
    to ≥ 34 digits (or to a multiple of `10^EMIN`) if not, `not-a-number` iff it overflows.
    `hr1`/`hr2`: a zero operand returns the other operand as it is, which must then be a number of the format (true of
    every `json.Number`, `decimal128.Decimal` and Go integer). -/
theorem add_rounded_eval {x y : Val} (hnf : x.NoFloat ∨ y.NoFloat) {n1 n2 : Bool} {C1 C2 : Nat} {E1 E2 : Int}
    (hx : NumIs x n1 C1 E1) (hy : NumIs y n2 C2 E2) (hr1 : C2 = 0 → Representable C1 E1) (hr2 : C1 = 0 → Representable C2 E2)
    (m : Int) (hm1 : m ≤ E1) (hm2 : m ≤ E2) (S : Int) (hS : S = sval n1 C1 E1 m + sval n2 C2 E2 m) :
    (S = 0 → ∃ b, applyBinOp .add x y = .ok (.num (.dec (.fin b 0 0)))) ∧
    (S ≠ 0 → applyBinOp .add x y = roundedRes (decide (S < 0)) S.natAbs m) := by
  obtain ⟨d1, hd1, hD1⟩ := hx
  obtain ⟨d2, hd2, hD2⟩ := hy
  have hrep := add_round_den hD1 hD2 hr1 hr2 m hm1 hm2 S hS
  have he : applyBinOp .add x y = checkD (Dec.add d1 d2) := arith_numIs hnf hd1 hd2
  rw [he]
  rcases hrep with ⟨h0, b, hb⟩ | ⟨hne, hr⟩
  · exact ⟨fun _ => ⟨b, by rw [hb]; rfl⟩, fun h => absurd h0 h⟩
  · exact ⟨fun h => absurd h hne, fun _ => by rw [hr, checkD_roundN]⟩

/-- **`x - y`, every case** (there was no rounded theorem for `-`) -/
theorem sub_rounded_eval {x y : Val} (hnf : x.NoFloat ∨ y.NoFloat) {n1 n2 : Bool} {C1 C2 : Nat} {E1 E2 : Int}
    (hx : NumIs x n1 C1 E1) (hy : NumIs y n2 C2 E2) (hr1 : C2 = 0 → Representable C1 E1) (hr2 : C1 = 0 → Representable C2 E2)
    (m : Int) (hm1 : m ≤ E1) (hm2 : m ≤ E2) (S : Int) (hS : S = sval n1 C1 E1 m - sval n2 C2 E2 m) :
    (S = 0 → ∃ b, applyBinOp .sub x y = .ok (.num (.dec (.fin b 0 0)))) ∧
    (S ≠ 0 → applyBinOp .sub x y = roundedRes (decide (S < 0)) S.natAbs m) := by
  obtain ⟨d1, hd1, hD1⟩ := hx
  obtain ⟨d2, hd2, hD2⟩ := hy
  have hrep := sub_round_den hD1 hD2 hr1 hr2 m hm1 hm2 S hS
  have he : applyBinOp .sub x y = checkD (Dec.sub d1 d2) := arith_numIs hnf hd1 hd2
  rw [he]
  rcases hrep with ⟨h0, b, hb⟩ | ⟨hne, hr⟩
  · exact ⟨fun _ => ⟨b, by rw [hb]; rfl⟩, fun h => absurd h0 h⟩
  · exact ⟨fun h => absurd h hne, fun _ => by rw [hr, checkD_roundN]⟩

/-- **`x * y`, every case**: the exact product `C1·C2·10^(E1+E2)` through the rounding function (no side condition) -/
theorem mul_rounded_eval {x y : Val} (hnf : x.NoFloat ∨ y.NoFloat) {n1 n2 : Bool} {C1 C2 : Nat} {E1 E2 : Int}
    (hx : NumIs x n1 C1 E1) (hy : NumIs y n2 C2 E2) :
    applyBinOp .mul x y = roundedRes (n1 != n2) (C1 * C2) (E1 + E2) := by
  obtain ⟨d1, hd1, hD1⟩ := hx
  obtain ⟨d2, hd2, hD2⟩ := hy
  have he : applyBinOp .mul x y = checkD (Dec.mul d1 d2) := arith_numIs hnf hd1 hd2
  rw [he, mul_round_den hD1 hD2, checkD_roundN]

/-- **`x // y` and `x % y`, every case** (`y ≠ 0`): with `A`, `B` the coefficients aligned at `m = min E1 E2`
    (`x = ±A·10^m`, `y = ±B·10^m`), `//` is the truncated integer quotient `A / B` with the sign `n1 ≠ n2`, `%` the
    remainder `(A % B)·10^m` with the sign of the dividend — each through the rounding function: an integer quotient
    of more than 34 digits is rounded half-even, one of `≥ 1.298…·10^6145` is `not-a-number`. -/
theorem idiv_mod_rounded_eval {x y : Val} (hnf : x.NoFloat ∨ y.NoFloat) {n1 n2 : Bool} {C1 C2 : Nat} {E1 E2 : Int}
    (hx : NumIs x n1 C1 E1) (hy : NumIs y n2 C2 E2) (hC2 : C2 ≠ 0) :
    applyBinOp .idiv x y = roundedRes (n1 != n2) (aligned C1 E1 (min E1 E2) / aligned C2 E2 (min E1 E2)) 0 ∧
    applyBinOp .mod x y = roundedRes n1 (aligned C1 E1 (min E1 E2) % aligned C2 E2 (min E1 E2)) (min E1 E2) := by
  obtain ⟨d1, hd1, hD1⟩ := hx
  obtain ⟨d2, hd2, hD2⟩ := hy
  obtain ⟨hq, hr⟩ := quoRem_round_den hD1 hD2 hC2
  have he1 : applyBinOp .idiv x y = checkD (Dec.quoRem d1 d2).1 := arith_numIs hnf hd1 hd2
  have he2 : applyBinOp .mod x y = checkD (Dec.quoRem d1 d2).2 := arith_numIs hnf hd1 hd2
  rw [he1, he2, hq, hr, checkD_roundN, checkD_roundN]
  exact ⟨rfl, rfl⟩

/-- **`x / y`, every case** (both non-zero): the exact quotient `(C1 / C2)·10^(E1−E2)`, written as the fraction
    `C1·10^Ka / (C2·10^Kb)` at the exponent `E1 − E2 − Ka + Kb` (same value; `Ka`, `Kb` are the scaling the library
    uses, large enough for an integer part of more than 34 digits), rounded half-even after dropping the fewest digits
    (`rheD`: the tie rule looks at the whole fraction, not at the integer part), `not-a-number` iff it overflows. -/
theorem div_rounded_eval {x y : Val} (hnf : x.NoFloat ∨ y.NoFloat) {n1 n2 : Bool} {C1 C2 : Nat} {E1 E2 : Int}
    (hx : NumIs x n1 C1 E1) (hy : NumIs y n2 C2 E2) (hC1 : C1 ≠ 0) (hC2 : C2 ≠ 0) :
    ∃ Ka Kb : Nat, MAXSIG < C1 * 10 ^ Ka / (C2 * 10 ^ Kb) ∧
      applyBinOp .div x y = roundedResD (n1 != n2) (C1 * 10 ^ Ka) (C2 * 10 ^ Kb) (E1 - E2 - (Ka : Int) + (Kb : Int)) := by
  obtain ⟨d1, hd1, hD1⟩ := hx
  obtain ⟨d2, hd2, hD2⟩ := hy
  obtain ⟨Ka, Kb, hbig, hq⟩ := quo_round_den hD1 hD2 hC1 hC2
  have he : applyBinOp .div x y = checkD (Dec.quo d1 d2) := arith_numIs hnf hd1 hd2
  exact ⟨Ka, Kb, hbig, by rw [he, hq, checkD_roundD]⟩

/-- **`x / y` by value**: ANY way of writing the exact quotient as a fraction `C1·10^a / (C2·10^b)` (exponent
    `E1 − E2 − a + b`) whose integer part has more than 34 digits gives the result — the library's internal scaling does
    not show. -/
theorem div_rounded_eval_any {x y : Val} (hnf : x.NoFloat ∨ y.NoFloat) {n1 n2 : Bool} {C1 C2 : Nat} {E1 E2 : Int}
    (hx : NumIs x n1 C1 E1) (hy : NumIs y n2 C2 E2) (hC1 : C1 ≠ 0) (hC2 : C2 ≠ 0) (a b : Nat)
    (h : MAXSIG < C1 * 10 ^ a / (C2 * 10 ^ b)) :
    applyBinOp .div x y = roundedResD (n1 != n2) (C1 * 10 ^ a) (C2 * 10 ^ b) (E1 - E2 - (a : Int) + (b : Int)) := by
  obtain ⟨Ka, Kb, hbig, hq⟩ := div_rounded_eval hnf hx hy hC1 hC2
  rw [hq, ← checkD_roundD, ← checkD_roundD, roundD_rescale _ C1 C2 Ka Kb a b (E1 - E2) (Nat.pos_of_ne_zero hC2) hbig h]

-- 2 / 3 with the scaling 10^40 / 10^0: 0.6666…67 (34 digits)
example : applyBinOp .div (.num (.int .i64 2)) (.num (.int .i64 3)) =
    roundedResD (false != false) (2 * 10 ^ 40) (3 * 10 ^ 0) ((0 : Int) - 0 - ((40 : Nat) : Int) + ((0 : Nat) : Int)) :=
  div_rounded_eval_any (Or.inl (Val.noFloat_int _ _)) (numIs_int .i64 2) (numIs_int .i64 3) (by decide) (by decide) 40 0 (by decide)
example : roundedResD (false != false) (2 * 10 ^ 40) (3 * 10 ^ 0) ((0 : Int) - 0 - ((40 : Nat) : Int) + ((0 : Nat) : Int)) =
    .ok (.num (.dec (.fin false 6666666666666666666666666666666667 (-34)))) := roundedResD_of_fin (by decide +kernel)

/-- the rounded quotient is within half a unit of the last kept digit of the exact quotient, ties to even -/
theorem rheD_meaning (X D k : Nat) (hD : 0 < D) :
    2 * X ≤ (2 * rheD X D k + 1) * (10 ^ k * D) ∧ 2 * rheD X D k * (10 ^ k * D) ≤ 2 * X + 10 ^ k * D ∧
    (2 * (X % (10 ^ k * D)) = 10 ^ k * D → rheD X D k % 2 = 0) ∧
    (X % (10 ^ k * D) = 0 → rheD X D k = X / (10 ^ k * D)) := by
  have hM : 0 < 10 ^ k * D := Nat.mul_pos (pow_pos10 k) hD
  obtain ⟨h1, h2⟩ := rheQ_close X (10 ^ k * D) hM
  exact ⟨h1, h2, rheQ_tie_even X _, rheQ_exact X _ hM⟩

example : 2 * (2 * 10 ^ 41) ≤ (2 * rheD (2 * 10 ^ 41) 3 7 + 1) * (10 ^ 7 * 3) ∧
    2 * rheD (2 * 10 ^ 41) 3 7 * (10 ^ 7 * 3) ≤ 2 * (2 * 10 ^ 41) + 10 ^ 7 * 3 :=
  ⟨(rheD_meaning _ 3 7 (by decide)).1, (rheD_meaning _ 3 7 (by decide)).2.1⟩

/-- **division by zero**: `x / 0`, `x // 0`, `x % 0` are `not-a-number` for every finite `x` (zero included) -/
theorem div_by_zero_eval {x y : Val} (hnf : x.NoFloat ∨ y.NoFloat) {n1 n2 : Bool} {C1 : Nat} {E1 E2 : Int}
    (hx : NumIs x n1 C1 E1) (hy : NumIs y n2 0 E2) :
    applyBinOp .div x y = .err [Cat.notANumber] ∧ applyBinOp .idiv x y = .err [Cat.notANumber] ∧
    applyBinOp .mod x y = .err [Cat.notANumber] := by
  obtain ⟨d1, hd1, _⟩ := hx
  obtain ⟨d2, hd2, hD2⟩ := hy
  obtain ⟨c2, e2, rfl, hz, _, _⟩ := hD2.unpack
  have hc2 : c2 = 0 := hz.mpr rfl
  subst hc2
  exact C05.div_zero_is_error (C05.no_float_pair hnf) hd1 hd2

-- the overflow threshold through `+` (Go agrees on all three): with MAX = 12980742146337069071326240823050239e6111 the largest number,
-- MAX + 4e6110 = MAX (rounded down), MAX + 5e6110 is a tie that goes to the even MAXSIG + 1 and overflows
example : applyBinOp .add (.num (.dec (.fin false MAXSIG 6111))) (.num (.dec (.fin false 4 6110))) = .ok (.num (.dec (.fin false MAXSIG 6111))) := by
  rw [(add_rounded_eval (Or.inl (Val.noFloat_dec _)) (numIs_dec false MAXSIG 6111) (numIs_dec false 4 6110)
    (fun h => absurd h (by decide)) (fun h => absurd h (by decide)) 6110 (by decide) (by decide) (10 * MAXSIG + 4) (by decide)).2 (by decide)]
  exact roundedRes_of_fin (by decide)
example : applyBinOp .add (.num (.dec (.fin false MAXSIG 6111))) (.num (.dec (.fin false 5 6110))) = .err [Cat.notANumber] := by
  rw [(add_rounded_eval (Or.inl (Val.noFloat_dec _)) (numIs_dec false MAXSIG 6111) (numIs_dec false 5 6110)
    (fun h => absurd h (by decide)) (fun h => absurd h (by decide)) 6110 (by decide) (by decide) (10 * MAXSIG + 5) (by decide)).2 (by decide)]
  exact roundedRes_of_inf (b := false) (by decide)
-- 1 + -1 = 0
example : ∃ b, applyBinOp .add (.num (.int .i64 1)) (.num (.int .i64 (-1))) = .ok (.num (.dec (.fin b 0 0))) :=
  (add_rounded_eval (Or.inl (Val.noFloat_int _ _)) (numIs_int .i64 1) (numIs_int .i64 (-1))
    (fun h => absurd h (by decide)) (fun h => absurd h (by decide)) 0 (by decide) (by decide) 0 (by decide)).1 rfl
-- 1 - 1e-40 : the exact difference 0.999…9 (40 nines) is not representable; it is rounded (up, to 1): Go returns 1
example : applyBinOp .sub (.num (.int .i64 1)) (.num (.dec (.fin false 1 (-40)))) = roundedRes (decide ((10 ^ 40 - 1 : Int) < 0)) (10 ^ 40 - 1 : Int).natAbs (-40) :=
  (sub_rounded_eval (Or.inl (Val.noFloat_int _ _)) (numIs_int .i64 1) (numIs_dec false 1 (-40))
    (fun h => absurd h (by decide)) (fun h => absurd h (by decide)) (-40) (by decide)
    (by decide) (10 ^ 40 - 1) (by decide)).2 (by decide)
example : roundedRes (decide ((10 ^ 40 - 1 : Int) < 0)) (10 ^ 40 - 1 : Int).natAbs (-40) = .ok (.num (.dec (.fin false 1 0))) :=
  roundedRes_of_fin (by decide +kernel)
-- 1e6144 * 13 overflows, 1e6144 * 12 does not (the largest number is 1.298…e6145, not 9.99…e6144)
example : applyBinOp .mul (.num (.dec (.fin false 1 6144))) (.num (.int .i64 13)) = .err [Cat.notANumber] := by
  rw [mul_rounded_eval (Or.inl (Val.noFloat_dec _)) (numIs_dec false 1 6144) (numIs_int .i64 13)]
  exact roundedRes_of_inf (b := false) (by decide)
example : applyBinOp .mul (.num (.dec (.fin false 1 6144))) (.num (.int .i64 12)) = .ok (.num (.dec (.fin false 12 6144))) := by
  rw [mul_rounded_eval (Or.inl (Val.noFloat_dec _)) (numIs_dec false 1 6144) (numIs_int .i64 12)]
  exact roundedRes_of_fin (by decide)
-- 2e40 // 3 : the 40-digit quotient 666…6 is rounded half-even to 34 digits (C05B has this as a remark; now it is the theorem)
example : applyBinOp .idiv (.num (.dec (.fin false 2 40))) (.num (.dec (.fin false 3 0))) =
    roundedRes (false != false) (aligned 2 40 (min 40 0) / aligned 3 0 (min 40 0)) 0 :=
  (idiv_mod_rounded_eval (Or.inl (Val.noFloat_dec _)) (numIs_dec false 2 40) (numIs_dec false 3 0) (by decide)).1
example : roundedRes (false != false) (aligned 2 40 (min 40 0) / aligned 3 0 (min 40 0)) 0 =
    .ok (.num (.dec (.fin false 6666666666666666666666666666666667 6))) := roundedRes_of_fin (by decide +kernel)
-- 1e6144 // 1e-100 overflows (Go: "result of operation is an infinity")
example : applyBinOp .idiv (.num (.dec (.fin false 1 6144))) (.num (.dec (.fin false 1 (-100)))) = .err [Cat.notANumber] := by
  rw [(idiv_mod_rounded_eval (Or.inl (Val.noFloat_dec _)) (numIs_dec false 1 6144) (numIs_dec false 1 (-100)) (by decide)).1]
  exact roundedRes_of_inf (b := false) (by decide +kernel)
-- 1 / 0, 0 / 0, 1 % 0
example : applyBinOp .div (.num (.int .i64 1)) (.num (.jnum [0x30])) = .err [Cat.notANumber] :=
  (div_by_zero_eval (Or.inl (Val.noFloat_int _ _)) (numIs_int .i64 1) (numIs_of_toDecimal (show toDecimal _ = some (.fin false 0 0) by decide))).1
example : applyBinOp .mod (.num (.int .i64 0)) (.num (.jnum [0x30])) = .err [Cat.notANumber] :=
  (div_by_zero_eval (Or.inl (Val.noFloat_int _ _)) (numIs_int .i64 0) (numIs_of_toDecimal (show toDecimal _ = some (.fin false 0 0) by decide))).2.2
-- 10000000000000000000000000000000001 / 0.2 = 50000000000000000000000000000000005 exactly: a tie, resolved to the even 5e34 (Go: 5e+34)
example : ∃ Ka Kb : Nat, MAXSIG < 10000000000000000000000000000000001 * 10 ^ Ka / (2 * 10 ^ Kb) ∧
    applyBinOp .div (.num (.dec (.fin false 10000000000000000000000000000000001 0))) (.num (.dec (.fin false 2 (-1)))) =
      roundedResD (false != false) (10000000000000000000000000000000001 * 10 ^ Ka) (2 * 10 ^ Kb) ((0 : Int) - (-1) - (Ka : Int) + (Kb : Int)) :=
  div_rounded_eval (Or.inl (Val.noFloat_dec _)) (numIs_dec _ _ _) (numIs_dec _ _ _) (by decide) (by decide)
example : Dec.quo (.fin false 10000000000000000000000000000000001 0) (.fin false 2 (-1)) = .fin false 5 34 := by decide
example : rheD (10000000000000000000000000000000001 * 10 ^ 41) 2 41 = 5000000000000000000000000000000000 ∧
    2 * (10000000000000000000000000000000001 * 10 ^ 41 % (10 ^ 41 * 2)) = 10 ^ 41 * 2 ∧
    kdrop (10000000000000000000000000000000001 * 10 ^ 41 / 2) (-40) = 41 := by decide

/-- **`%` never rounds**: for operands that are numbers of the format (`Representable`, by value: every `json.Number` the
    reader accepts, every `decimal128.Decimal`, every Go integer) and `y ≠ 0`, the remainder is a multiple of the finer of
    the two units, smaller than `|y|` and not larger than `|x|`, hence representable: `x % y` is EXACT — there is no
    inexact `%` (and no overflow).  (`//` is different: `2e40 // 3` above.) -/
theorem mod_always_exact {x y : Val} (hnf : x.NoFloat ∨ y.NoFloat) {n1 n2 : Bool} {C1 C2 : Nat} {E1 E2 : Int}
    (hx : NumIs x n1 C1 E1) (hy : NumIs y n2 C2 E2) (hr1 : Representable C1 E1) (hr2 : Representable C2 E2) (hC2 : C2 ≠ 0) :
    applyBinOp .mod x y =
      .ok (.num (.dec (normalize (.fin n1 (aligned C1 E1 (min E1 E2) % aligned C2 E2 (min E1 E2)) (min E1 E2))))) :=
  (C05B.idiv_mod_exact_eval hnf hx hy hC2).2 (mod_representable hr1 hr2 hC2)

/-- the same for operands given by their stored decimals (coefficient `≤ MAXSIG`, exponent in `[EMIN, EMAX]`) -/
theorem mod_always_exact_stored {x y : Val} (hnf : x.NoFloat ∨ y.NoFloat) {n1 n2 : Bool} {c1 c2 : Nat} {e1 e2 : Int}
    (hx : toDecimal x = some (.fin n1 c1 e1)) (hy : toDecimal y = some (.fin n2 c2 e2)) (hc2 : c2 ≠ 0)
    (h1 : c1 ≤ MAXSIG) (h2 : c2 ≤ MAXSIG) (hl1 : EMIN ≤ e1) (hh1 : e1 ≤ EMAX) (hl2 : EMIN ≤ e2) (hh2 : e2 ≤ EMAX) :
    applyBinOp .mod x y =
      .ok (.num (.dec (normalize (.fin n1 (aligned c1 e1 (min e1 e2) % aligned c2 e2 (min e1 e2)) (min e1 e2))))) :=
  mod_always_exact hnf (numIs_of_toDecimal hx) (numIs_of_toDecimal hy) (fits_of_le h1 hl1 hh1) (fits_of_le h2 hl2 hh2) hc2

-- 1e40 % 3 = 1 (the dividend aligned at exponent 0 has 41 digits; the remainder has one)
example : applyBinOp .mod (.num (.dec (.fin false 1 40))) (.num (.dec (.fin false 3 0))) =
    .ok (.num (.dec (normalize (.fin false (aligned 1 40 (min 40 0) % aligned 3 0 (min 40 0)) (min 40 0))))) :=
  mod_always_exact_stored (Or.inl (Val.noFloat_dec _)) rfl rfl (by decide) (by decide) (by decide) (by decide) (by decide) (by decide) (by decide)
example : normalize (.fin false (aligned 1 40 (min 40 0) % aligned 3 0 (min 40 0)) (min 40 0)) = .fin false 1 0 := by decide
-- 1e6144 % 7e6140 = 4e6140 : the stored exponents are above EMAX, the values are representable
example : applyBinOp .mod (.num (.dec (.fin false 1 6144))) (.num (.dec (.fin false 7 6140))) =
    .ok (.num (.dec (normalize (.fin false (aligned 1 6144 (min 6144 6140) % aligned 7 6140 (min 6144 6140)) (min 6144 6140))))) :=
  mod_always_exact (Or.inl (Val.noFloat_dec _)) (numIs_dec _ _ _) (numIs_dec _ _ _)
    ⟨10 ^ 33, 33, 0, by decide, by decide, by decide, by decide⟩ ⟨7 * 10 ^ 29, 29, 0, by decide, by decide, by decide, by decide⟩ (by decide)
example : normalize (.fin false (aligned 1 6144 (min 6144 6140) % aligned 7 6140 (min 6144 6140)) (min 6144 6140)) = .fin false 4 6140 := by
  decide

/-! ## 3. the error clause, both directions -/

/-- `/`, `//`, `%` -/
def IsDivision (op : BinOp) : Prop := op = .div ∨ op = .idiv ∨ op = .mod

/-- **the exact result of `op` overflows**: its magnitude is at least `(MAXSIG + ½)·10^EMAX = 1.29807…e6145`.  Exact result:
    `x ± y`, `x · y`, `x / y` as rationals; for `//` the truncated integer quotient, for `%` the remainder
    (`A`, `B`: the operands' coefficients aligned at `min E1 E2`). -/
def ResultOverflows (op : BinOp) (n1 n2 : Bool) (C1 C2 : Nat) (E1 E2 : Int) : Prop :=
  match op with
  | .add => OverflowsD (sval n1 C1 E1 (min E1 E2) + sval n2 C2 E2 (min E1 E2)).natAbs 1 (min E1 E2)
  | .sub => OverflowsD (sval n1 C1 E1 (min E1 E2) - sval n2 C2 E2 (min E1 E2)).natAbs 1 (min E1 E2)
  | .mul => OverflowsD (C1 * C2) 1 (E1 + E2)
  | .div => C2 ≠ 0 ∧ OverflowsD C1 C2 (E1 - E2)
  | .idiv => C2 ≠ 0 ∧ OverflowsD (aligned C1 E1 (min E1 E2) / aligned C2 E2 (min E1 E2)) 1 0
  | .mod => C2 ≠ 0 ∧ OverflowsD (aligned C1 E1 (min E1 E2) % aligned C2 E2 (min E1 E2)) 1 (min E1 E2)
  | _ => False

instance (op : BinOp) : Decidable (IsDivision op) := by unfold IsDivision; exact inferInstance
instance (op : BinOp) (n1 n2 : Bool) (C1 C2 : Nat) (E1 E2 : Int) : Decidable (ResultOverflows op n1 n2 C1 C2 E1 E2) := by
  cases op <;> unfold ResultOverflows <;> exact inferInstance

/-- **the error clause as an equivalence.**  For finite numeric operands in any representation (not both floats; each a
    number of the format, `Representable`), an arithmetic operator reports an error iff it is a division by zero or
    the exact result overflows — and the error is then `not-a-number`, never anything else. -/
theorem arith_error_iff {x y : Val} (hnf : x.NoFloat ∨ y.NoFloat) {n1 n2 : Bool} {C1 C2 : Nat} {E1 E2 : Int}
    (hx : NumIs x n1 C1 E1) (hy : NumIs y n2 C2 E2) (hr1 : Representable C1 E1) (hr2 : Representable C2 E2)
    (op : BinOp) (hop : C05.isArith op = true) (cs : List Cat) :
    applyBinOp op x y = .err cs ↔
      cs = [Cat.notANumber] ∧ ((IsDivision op ∧ C2 = 0) ∨ ResultOverflows op n1 n2 C1 C2 E1 E2) := by
  have hz : ∀ e : Int, ¬ OverflowsD 0 1 e := fun e => not_overflows_zero 1 e (by decide)
  cases op <;> simp only [C05.isArith] at hop <;> try (exact absurd hop (by decide))
  case add =>
    obtain ⟨h0, h1⟩ := add_rounded_eval hnf hx hy (fun _ => hr1) (fun _ => hr2) (min E1 E2) (Int.min_le_left ..)
      (Int.min_le_right ..) _ rfl
    have hnd : ¬ (IsDivision .add ∧ C2 = 0) := by simp [IsDivision]
    simp only [hnd, false_or, ResultOverflows]
    by_cases hS : sval n1 C1 E1 (min E1 E2) + sval n2 C2 E2 (min E1 E2) = 0
    · obtain ⟨b, hb⟩ := h0 hS
      rw [hb, hS]
      exact ⟨fun h => (by cases h), fun h => absurd h.2 (hz _)⟩
    · rw [h1 hS]; exact roundedRes_err_iff _ _ _ _
  case sub =>
    obtain ⟨h0, h1⟩ := sub_rounded_eval hnf hx hy (fun _ => hr1) (fun _ => hr2) (min E1 E2) (Int.min_le_left ..)
      (Int.min_le_right ..) _ rfl
    have hnd : ¬ (IsDivision .sub ∧ C2 = 0) := by simp [IsDivision]
    simp only [hnd, false_or, ResultOverflows]
    by_cases hS : sval n1 C1 E1 (min E1 E2) - sval n2 C2 E2 (min E1 E2) = 0
    · obtain ⟨b, hb⟩ := h0 hS
      rw [hb, hS]
      exact ⟨fun h => (by cases h), fun h => absurd h.2 (hz _)⟩
    · rw [h1 hS]; exact roundedRes_err_iff _ _ _ _
  case mul =>
    have hnd : ¬ (IsDivision .mul ∧ C2 = 0) := by simp [IsDivision]
    simp only [hnd, false_or, ResultOverflows]
    rw [mul_rounded_eval hnf hx hy]; exact roundedRes_err_iff _ _ _ _
  case div =>
    have hd : IsDivision .div := Or.inl rfl
    simp only [hd, true_and, ResultOverflows]
    by_cases hC2 : C2 = 0
    · subst hC2
      rw [(div_by_zero_eval hnf hx hy).1]
      exact ⟨fun h => (by cases h; exact ⟨rfl, Or.inl rfl⟩), fun h => (by rw [h.1])⟩
    · by_cases hC1 : C1 = 0
      · subst hC1
        rw [C05B.div_zero_left_eval hnf hx hy hC2]
        refine ⟨fun h => (by cases h), fun h => ?_⟩
        rcases h.2 with h' | ⟨_, h'⟩
        · exact absurd h' hC2
        · exact absurd h' (not_overflows_zero C2 _ (Nat.pos_of_ne_zero hC2))
      · obtain ⟨Ka, Kb, _, hq⟩ := div_rounded_eval hnf hx hy hC1 hC2
        rw [hq, roundedResD_err_iff, overflowsD_shift, overflowsD_shiftD]
        have he : E1 - E2 - (Ka : Int) + (Kb : Int) + (Ka : Int) - (Kb : Int) = E1 - E2 := by omega
        rw [he]
        simp only [hC2, false_or, ne_eq, not_false_eq_true, true_and]
  case idiv =>
    have hd : IsDivision .idiv := Or.inr (Or.inl rfl)
    simp only [hd, true_and, ResultOverflows]
    by_cases hC2 : C2 = 0
    · subst hC2
      rw [(div_by_zero_eval hnf hx hy).2.1]
      exact ⟨fun h => (by cases h; exact ⟨rfl, Or.inl rfl⟩), fun h => (by rw [h.1])⟩
    · rw [(idiv_mod_rounded_eval hnf hx hy hC2).1, roundedRes_err_iff]
      simp only [hC2, false_or, ne_eq, not_false_eq_true, true_and]
  case mod =>
    have hd : IsDivision .mod := Or.inr (Or.inr rfl)
    simp only [hd, true_and, ResultOverflows]
    by_cases hC2 : C2 = 0
    · subst hC2
      rw [(div_by_zero_eval hnf hx hy).2.2]
      exact ⟨fun h => (by cases h; exact ⟨rfl, Or.inl rfl⟩), fun h => (by rw [h.1])⟩
    · rw [(idiv_mod_rounded_eval hnf hx hy hC2).2, roundedRes_err_iff]
      simp only [hC2, false_or, ne_eq, not_false_eq_true, true_and]

/-- for `%` the equivalence is simply: an error iff the divisor is zero (the remainder never overflows, `mod_always_exact`) -/
theorem mod_error_iff {x y : Val} (hnf : x.NoFloat ∨ y.NoFloat) {n1 n2 : Bool} {C1 C2 : Nat} {E1 E2 : Int}
    (hx : NumIs x n1 C1 E1) (hy : NumIs y n2 C2 E2) (hr1 : Representable C1 E1) (hr2 : Representable C2 E2) (cs : List Cat) :
    applyBinOp .mod x y = .err cs ↔ cs = [Cat.notANumber] ∧ C2 = 0 := by
  by_cases hC2 : C2 = 0
  · subst hC2
    rw [(div_by_zero_eval hnf hx hy).2.2]
    exact ⟨fun h => (by cases h; exact ⟨rfl, rfl⟩), fun h => (by rw [h.1])⟩
  · rw [mod_always_exact hnf hx hy hr1 hr2 hC2]
    exact ⟨fun h => (by cases h), fun h => absurd h.2 hC2⟩

example : ∀ cs, applyBinOp .mod (.num (.int .i64 7)) (.num (.int .i64 2)) ≠ .err cs := fun cs h =>
  absurd ((mod_error_iff (Or.inl (Val.noFloat_int _ _)) (numIs_int .i64 7) (numIs_int .i64 2)
    (C05B.fits_34_digits (by decide) (by decide) (by decide)) (C05B.fits_34_digits (by decide) (by decide) (by decide)) cs).mp h).2 (by decide)

-- both directions, on instances: 9e6144 + 9e6144 (exact sum 1.8e6145 ≥ 1.298…e6145) is an error, and it is `not-a-number`; 1 + 2 is not
example : ∀ cs, applyBinOp .add (.num (.dec (.fin false 9 6144))) (.num (.dec (.fin false 9 6144))) = .err cs ↔
    cs = [Cat.notANumber] ∧ ((IsDivision .add ∧ 9 = 0) ∨ ResultOverflows .add false false 9 9 6144 6144) := fun cs =>
  arith_error_iff (Or.inl (Val.noFloat_dec _)) (numIs_dec false 9 6144) (numIs_dec false 9 6144)
    ⟨9 * 10 ^ 33, 33, 0, by decide, by decide, by decide, by decide⟩ ⟨9 * 10 ^ 33, 33, 0, by decide, by decide, by decide, by decide⟩
    .add rfl cs
example : ResultOverflows .add false false 9 9 6144 6144 := by decide
example : applyBinOp .add (.num (.dec (.fin false 9 6144))) (.num (.dec (.fin false 9 6144))) = .err [Cat.notANumber] :=
  (arith_error_iff (Or.inl (Val.noFloat_dec _)) (numIs_dec false 9 6144) (numIs_dec false 9 6144)
    ⟨9 * 10 ^ 33, 33, 0, by decide, by decide, by decide, by decide⟩ ⟨9 * 10 ^ 33, 33, 0, by decide, by decide, by decide, by decide⟩
    .add rfl _).mpr ⟨rfl, Or.inr (by decide)⟩
example : ∀ cs, applyBinOp .add (.num (.int .i64 1)) (.num (.int .i64 2)) ≠ .err cs := fun cs h =>
  absurd ((arith_error_iff (Or.inl (Val.noFloat_int _ _)) (numIs_int .i64 1) (numIs_int .i64 2)
    (C05B.fits_34_digits (by decide) (by decide) (by decide)) (C05B.fits_34_digits (by decide) (by decide) (by decide)) .add rfl cs).mp h).2
    (by decide +kernel)
-- `//`: no error unless the divisor is zero or the integer quotient overflows
example : ∀ cs, applyBinOp .idiv (.num (.int .i64 7)) (.num (.int .i64 0)) = .err cs ↔
    cs = [Cat.notANumber] ∧ ((IsDivision .idiv ∧ (0 : Int).natAbs = 0) ∨ ResultOverflows .idiv false false 7 (0 : Int).natAbs 0 0) := fun cs =>
  arith_error_iff (Or.inl (Val.noFloat_int _ _)) (numIs_int .i64 7) (numIs_int .i64 0)
    (C05B.fits_34_digits (by decide) (by decide) (by decide)) (C05B.fits_34_digits (by decide) (by decide) (by decide)) .idiv rfl cs

/-! ## 4. `sum` is the left fold of `+`; an intermediate overflow is an error -/

/-- the left fold of the evaluator's `+` over the elements, from the accumulator `acc`; the first error ends it -/
def sumFold : List Val → Val → Res Val
  | [], acc => .ok acc
  | x :: xs, acc => Res.bind (applyBinOp .add acc x) (sumFold xs)

/-- the fold from a finite decimal accumulator is the fold of `Dec.add` followed by the NaN/Inf test: once a partial sum
    is ±Inf it stays ±Inf -/
theorem sumFold_eq : ∀ (xs : List Val) (n : Bool) (c : Nat) (e : Int),
    (∀ x ∈ xs, ∃ n c e, toDecimal x = some (.fin n c e)) →
    sumFold xs (.num (.dec (.fin n c e))) = (match sumDec xs (.fin n c e) with
      | some r => checkD r
      | none => errType)
  | [], n, c, e, _ => rfl
  | x :: xs, n, c, e, h => by
    obtain ⟨n', c', e', hx⟩ := h x (List.mem_cons_self ..)
    have hxs : ∀ y ∈ xs, ∃ n c e, toDecimal y = some (.fin n c e) := fun y hy => h y (List.mem_cons_of_mem _ hy)
    have hadd : applyBinOp .add (.num (.dec (.fin n c e))) x = checkD (Dec.add (.fin n c e) (.fin n' c' e')) := by
      simp only [applyBinOp, Jmes.add]
      exact arith_numIs (Or.inl (Val.noFloat_dec _)) rfl hx
    simp only [sumFold, sumDec, hx, hadd]
    rcases add_fin_fin_or_inf n c e n' c' e' with ⟨b, hb⟩ | ⟨n2, c2, e2, hb⟩
    · rw [hb, sumDec_inf xs b hxs]; rfl
    · rw [hb]
      exact sumFold_eq xs n2 c2 e2 hxs

/-- **`sum(xs)` = the left fold of the evaluator's `+` from `0`, with error propagation** — for an array of finite
    numbers (an element that is not a number makes `sum` an invalid-type error whatever comes before it, see below).
    So a partial sum that overflows makes the whole `sum` `not-a-number`, even when the exact total is representable. -/
theorem sum_is_fold_of_add (t : ATag) (xs : List Val) (hfin : ∀ x ∈ xs, ∃ n c e, toDecimal x = some (.fin n c e))
    (hok : enumSumOk t xs = true) : applyFn .sum [.arr t xs] = sumFold xs (.num (.dec (.fin false 0 0))) := by
  simp only [applyFn]
  rw [C05.sum_is_decimal_fold, sumFold_eq xs false 0 0 hfin]
  show (match sumDec xs (.fin false 0 0) with | none => errType | some r => if enumSumOk t xs = true then checkD r else Res.nondet) = _
  cases sumDec xs (.fin false 0 0) with
  | none => rfl
  | some r => simp only [hok, if_true]

/-- **`avg(xs)` = that fold, then the evaluator's `/` by the length** (non-empty array of finite numbers): the same
    intermediate overflow makes `avg` `not-a-number` -/
theorem avg_is_fold_then_div (t : ATag) (xs : List Val) (hfin : ∀ x ∈ xs, ∃ n c e, toDecimal x = some (.fin n c e))
    (hok : enumSumOk t xs = true) (hne : xs ≠ []) :
    applyFn .avg [.arr t xs] =
      Res.bind (sumFold xs (.num (.dec (.fin false 0 0)))) (fun s => applyBinOp .div s (.num (.int .int xs.length))) := by
  simp only [applyFn]
  rw [C05.avg_is_decimal_fold t xs hne, sumFold_eq xs false 0 0 hfin]
  show (match sumDec xs (.fin false 0 0) with
    | none => errType
    | some r => if enumSumOk t xs = true then checkD (r.quo (Dec.ofInt xs.length)) else Res.nondet) = _
  have hlen : (xs.length : Int) ≠ 0 := by
    cases xs with
    | nil => exact absurd rfl hne
    | cons _ _ => simp only [List.length_cons]; omega
  obtain ⟨n', c', e', hof⟩ : ∃ n c e, Dec.ofInt (xs.length : Int) = .fin n c e := by
    unfold Dec.ofInt
    simp only [hlen, if_false]
    obtain ⟨c', e', h⟩ := Dec.normalize_fin (decide ((xs.length : Int) < 0)) (xs.length : Int).natAbs 0
    exact ⟨_, c', e', h⟩
  cases hs : sumDec xs (.fin false 0 0) with
  | none => rfl
  | some r =>
    simp only [hok, if_true]
    cases r with
    | nan => rfl
    | inf b => rw [hof]; rfl
    | fin n c e =>
      show _ = applyBinOp .div (.num (.dec (.fin n c e))) (.num (.int .int xs.length))
      have : applyBinOp .div (.num (.dec (.fin n c e))) (.num (.int .int xs.length)) =
          checkD (Dec.quo (.fin n c e) (Dec.ofInt (xs.length : Int))) := by
        simp only [applyBinOp, Jmes.divide]
        exact arith_numIs (Or.inl (Val.noFloat_dec _)) rfl rfl
      rw [this]

-- avg([1, 2]) as fold and division
example : applyFn .avg [.arr .plain [.num (.int .i64 1), .num (.int .i64 2)]] =
    Res.bind (sumFold [.num (.int .i64 1), .num (.int .i64 2)] (.num (.dec (.fin false 0 0))))
      (fun s => applyBinOp .div s (.num (.int .int ([Val.num (.int .i64 1), .num (.int .i64 2)].length : Nat)))) :=
  avg_is_fold_then_div .plain _ (by
    intro x hx
    simp only [List.mem_cons, List.not_mem_nil, or_false] at hx
    rcases hx with rfl | rfl
    · exact ⟨false, 1, 0, by decide⟩
    · exact ⟨false, 2, 0, by decide⟩) rfl (by simp)

/-- `9e6144` as a `json.Number` text -/
def big9 : Val := .num (.jnum [0x39, 0x65, 0x36, 0x31, 0x34, 0x34])
/-- `-9e6144` -/
def negBig9 : Val := .num (.jnum [0x2D, 0x39, 0x65, 0x36, 0x31, 0x34, 0x34])

/-- **intermediate overflow**: `sum([9e6144, 9e6144, -9e6144])` is `not-a-number` — the partial sum `1.8e6145` exceeds the
    largest number `1.298…e6145` — although the exact sum `9e6144` is representable, and although the same elements in
    the order `[9e6144, -9e6144, 9e6144]` sum to `9e6144`.  Go returns the same ("result of operation is an infinity"
    / `9e+6144`); `avg` likewise. -/
theorem sum_intermediate_overflow :
    applyFn .sum [.arr .plain [big9, big9, negBig9]] = .err [Cat.notANumber] ∧
    applyFn .sum [.arr .plain [big9, negBig9, big9]] = .ok (.num (.dec (.fin false 9 6144))) ∧
    applyFn .avg [.arr .plain [big9, big9, negBig9]] = .err [Cat.notANumber] ∧
    Representable 9 6144 := by
  refine ⟨?_, ?_, ?_, ⟨9 * 10 ^ 33, 33, 0, by decide, by decide, by decide, by decide⟩⟩
  · simp only [applyFn]
    rw [C05.sum_is_decimal_fold, show sumDec [big9, big9, negBig9] Dec.zero = some (.inf false) by decide]
    rfl
  · simp only [applyFn]
    rw [C05.sum_is_decimal_fold, show sumDec [big9, negBig9, big9] Dec.zero = some (.fin false 9 6144) by decide]
    rfl
  · simp only [applyFn]
    rw [C05.avg_is_decimal_fold _ _ (by simp), show sumDec [big9, big9, negBig9] Dec.zero = some (.inf false) by decide]
    rfl

-- the same through the fold: the second `+` already fails
example : sumFold [big9, big9, negBig9] (.num (.dec (.fin false 0 0))) = .err [Cat.notANumber] := by
  rw [← sum_is_fold_of_add .plain _ (by
    intro x hx
    simp only [List.mem_cons, List.not_mem_nil, or_false] at hx
    rcases hx with rfl | rfl | rfl
    · exact ⟨false, 9, 6144, by decide⟩
    · exact ⟨false, 9, 6144, by decide⟩
    · exact ⟨true, 9, 6144, by decide⟩) rfl]
  exact sum_intermediate_overflow.1

/-- the hypothesis "all elements are numbers" is needed: `sum([9e6144, 9e6144, "a"])` is an invalid-type error (Go:
    "invalid type string when expecting number"), while the fold of `+` stops at the overflow before it sees `"a"` -/
example : applyFn .sum [.arr .plain [big9, big9, .str [0x61]]] = .err [Cat.invalidType] ∧
    sumFold [big9, big9, .str [0x61]] (.num (.dec (.fin false 0 0))) = .err [Cat.notANumber] := by
  have h1 : toDecimal big9 = some (.fin false 9 6144) := by decide
  constructor
  · simp only [applyFn]
    rw [C05.sum_is_decimal_fold, show sumDec [big9, big9, .str [0x61]] Dec.zero = none by decide]
    rfl
  · have e1 : applyBinOp .add (.num (.dec (.fin false 0 0))) big9 = checkD (Dec.add (.fin false 0 0) (.fin false 9 6144)) := by
      simp only [applyBinOp, Jmes.add]
      exact arith_numIs (Or.inl (Val.noFloat_dec _)) rfl h1
    have e2 : applyBinOp .add (.num (.dec (.fin false 9 6144))) big9 = checkD (Dec.add (.fin false 9 6144) (.fin false 9 6144)) := by
      simp only [applyBinOp, Jmes.add]
      exact arith_numIs (Or.inl (Val.noFloat_dec _)) rfl h1
    have s1 : sumFold [big9, big9, .str [0x61]] (.num (.dec (.fin false 0 0))) =
        Res.bind (applyBinOp .add (.num (.dec (.fin false 0 0))) big9) (sumFold [big9, .str [0x61]]) := rfl
    rw [s1, e1, show Dec.add (.fin false 0 0) (.fin false 9 6144) = .fin false 9 6144 by decide]
    have s2 : Res.bind (checkD (.fin false 9 6144)) (sumFold [big9, .str [0x61]]) =
        Res.bind (applyBinOp .add (.num (.dec (.fin false 9 6144))) big9) (sumFold [.str [0x61]]) := rfl
    rw [s2, e2, show Dec.add (.fin false 9 6144) (.fin false 9 6144) = .inf false by decide]
    rfl

/-! ## 5. comparison of number texts with more than 34 digits: the ROUNDED values are compared -/

/-- the integer `p.1 · 10^(p.2 − m)`: the pair `(coefficient, exponent)` written at the lower exponent `m` -/
def pairAt (p : Int × Int) (m : Int) : Int := p.1 * (10 : Int) ^ (p.2 - m).toNat

/-- the signed coefficient of a decimal at `m` is `pairAt` of its pair -/
theorem pairAt_decRat (n : Bool) (c : Nat) (e m : Int) : pairAt (C20B.decRat (.fin n c e)) m = sval n c e m := by
  cases n <;> simp [pairAt, C20B.decRat, sval, pow10, Int.natCast_mul, Int.natCast_pow, Int.neg_mul]

example : pairAt (C20B.decRat (.fin true 25 (-1))) (-3) = sval true 25 (-1) (-3) := pairAt_decRat _ _ _ _
example : pairAt (-25, -1) (-3) = -2500 := by decide

/-- **`< <= > >= == !=` on number texts of ANY length** (`C20B.Regular`: grammatical, no overflow, no underflow): each text
    is first rounded half-even to the longest coefficient `≤ MAXSIG` (`C20B.round34 (ratRaw t)`: the identity on texts of
    at most 34 digits, which is `C05B.compare_exact_eval`), and the ROUNDED values are compared exactly.  So two
    different numbers may compare equal. -/
theorem compare_rounded_texts {t1 t2 : Bytes} (h1 : C20B.Regular t1) (h2 : C20B.Regular t2) (m : Int)
    (hm1 : m ≤ (C20B.round34 (C20B.ratRaw t1)).2) (hm2 : m ≤ (C20B.round34 (C20B.ratRaw t2)).2) (v1 v2 : Int)
    (hv1 : v1 = pairAt (C20B.round34 (C20B.ratRaw t1)) m) (hv2 : v2 = pairAt (C20B.round34 (C20B.ratRaw t2)) m) :
    applyBinOp .lt (.num (.jnum t1)) (.num (.jnum t2)) = .ok (.bool (decide (v1 < v2))) ∧
    applyBinOp .le (.num (.jnum t1)) (.num (.jnum t2)) = .ok (.bool (decide (v1 ≤ v2))) ∧
    applyBinOp .gt (.num (.jnum t1)) (.num (.jnum t2)) = .ok (.bool (decide (v1 > v2))) ∧
    applyBinOp .ge (.num (.jnum t1)) (.num (.jnum t2)) = .ok (.bool (decide (v1 ≥ v2))) ∧
    applyBinOp .eq (.num (.jnum t1)) (.num (.jnum t2)) = .ok (.bool (decide (v1 = v2))) ∧
    applyBinOp .ne (.num (.jnum t1)) (.num (.jnum t2)) = .ok (.bool (decide (v1 ≠ v2))) := by
  obtain ⟨n1, c1, e1, hd1, hr1⟩ := C20B.toDecimal_regular h1
  obtain ⟨n2, c2, e2, hd2, hr2⟩ := C20B.toDecimal_regular h2
  have hx : NumIs (.num (.jnum t1)) n1 c1 e1 := ⟨_, hd1, denotes_normalize n1 c1 e1⟩
  have hy : NumIs (.num (.jnum t2)) n2 c2 e2 := ⟨_, hd2, denotes_normalize n2 c2 e2⟩
  have he1 : (C20B.round34 (C20B.ratRaw t1)).2 = e1 := by rw [← hr1]; rfl
  have he2 : (C20B.round34 (C20B.ratRaw t2)).2 = e2 := by rw [← hr2]; rfl
  exact compare_exact_eval hx hy m (by omega) (by omega) v1 v2 (by rw [hv1, ← hr1, pairAt_decRat])
    (by rw [hv2, ← hr2, pairAt_decRat])

/-- the 36-digit text `100000000000000000000000000000000001` -/
def long1 : Bytes := C20B.digits 100000000000000000000000000000000001
/-- the 36-digit text `100000000000000000000000000000000002` -/
def long2 : Bytes := C20B.digits 100000000000000000000000000000000002

/-- **two different 36-digit numbers compare equal**: both are rounded to `1e35`, so `==`, `<=`, `>=` are true and `<`,
    `>`, `!=` false.  Go returns the same six answers. -/
theorem long_numbers_compare_equal :
    applyBinOp .eq (.num (.jnum long1)) (.num (.jnum long2)) = .ok (.bool true) ∧
    applyBinOp .ne (.num (.jnum long1)) (.num (.jnum long2)) = .ok (.bool false) ∧
    applyBinOp .lt (.num (.jnum long1)) (.num (.jnum long2)) = .ok (.bool false) ∧
    applyBinOp .le (.num (.jnum long1)) (.num (.jnum long2)) = .ok (.bool true) ∧
    applyBinOp .gt (.num (.jnum long1)) (.num (.jnum long2)) = .ok (.bool false) ∧
    applyBinOp .ge (.num (.jnum long1)) (.num (.jnum long2)) = .ok (.bool true) := by
  obtain ⟨a, b, c, d, e, f⟩ := compare_rounded_texts (t1 := long1) (t2 := long2) (by decide) (by decide) 1 (by decide) (by decide)
    (10 ^ 34) (10 ^ 34) (by decide) (by decide)
  exact ⟨e, f, a, b, c, d⟩

example : C20B.ratRaw long1 ≠ C20B.ratRaw long2 ∧ C20B.round34 (C20B.ratRaw long1) = (10 ^ 34, 1) ∧
    C20B.round34 (C20B.ratRaw long2) = (10 ^ 34, 1) := by decide
-- … while 35-digit numbers below MAXSIG are still told apart: 10000000000000000000000000000000001 < …002
example : applyBinOp .lt (.num (.jnum (C20B.digits 10000000000000000000000000000000001)))
    (.num (.jnum (C20B.digits 10000000000000000000000000000000002))) = .ok (.bool true) :=
  (compare_rounded_texts (t1 := C20B.digits 10000000000000000000000000000000001)
    (t2 := C20B.digits 10000000000000000000000000000000002) (by decide) (by decide) 0 (by decide) (by decide)
    10000000000000000000000000000000001 10000000000000000000000000000000002 (by decide) (by decide)).1

end Jmes.C05C
