/-
  C16, second part — what the first file (`C16.lean`) left open:

  1. every escape form of quoted identifiers / JSON strings (`QEsc`): raw runes, the two-character escapes,
     `\uXXXX` in either case, surrogate pairs; lone and unpaired surrogates (where the two syntaxes DIFFER: a quoted
     identifier is rejected — since FX28 also when a second `\u` escape follows that is no low surrogate —, a JSON
     string reads U+FFFD);
  2. every JSON value, rendered with any whitespace policy, written between backticks evaluates to that value;
     every JSON text (RFC 8259 grammar) that is valid UTF-8 can be written between backticks;
  3. literals inside larger expressions (`{ "k" : … }`, `a . "k"`, function arguments);
  4. raw strings: `'\X'` keeps the backslash for every rune `X` other than `'` and `\`.
-/
import Jmes.Proofs.C16BLemmas
import Jmes.Properties.C04G
import Jmes.Proofs.Lex
namespace Jmes.C16B
open Jmes Jmes.Utf8 Jmes.Literals Jmes.C16 Jmes.C16BL Jmes.Lexical

/-! ## 1. every way of writing a string between double quotes -/

/-- `QEsc s w`: `w` is a way of writing the string `s` between double quotes.  Rune by rune: the rune itself (if it
    is not a control character, `"` or `\`), a two-character escape, `\uXXXX` with hexadecimal digits in either case
    (for any code point of the basic plane that is not a surrogate — control characters, `"`, `\`, U+FFFD, … included),
    or a surrogate pair `\uD8xx\uDCxx` (for a code point beyond the basic plane). -/
inductive QEsc : Bytes → Bytes → Prop
  | nil : QEsc [] []
  | raw (c : Nat) {s w : Bytes} : isScalar c = true → 0x20 ≤ c → c ≠ 0x22 → c ≠ 0x5C → QEsc s w →
      QEsc (encodeRune c ++ s) (encodeRune c ++ w)
  | short (e b : Nat) {s w : Bytes} : (e, b) ∈ shortEsc → QEsc s w → QEsc (b :: s) (0x5C :: e :: w)
  | uni (a b c d r : Nat) {s w : Bytes} : Json.hex4 [a, b, c, d] = some (r, []) → Json.isSurrogate r = false →
      QEsc s w → QEsc (encodeRune r ++ s) (0x5C :: 0x75 :: a :: b :: c :: d :: w)
  | pair (a b c d a' b' c' d' hi lo : Nat) {s w : Bytes} :
      Json.hex4 [a, b, c, d] = some (hi, []) → Json.hex4 [a', b', c', d'] = some (lo, []) →
      0xD800 ≤ hi → hi < 0xDC00 → 0xDC00 ≤ lo → lo < 0xE000 → QEsc s w →
      QEsc (encodeRune (0x10000 + (hi - 0xD800) * 1024 + (lo - 0xDC00)) ++ s)
        (0x5C :: 0x75 :: a :: b :: c :: d :: 0x5C :: 0x75 :: a' :: b' :: c' :: d' :: w)

/-- `parseQuotedIdentifier`'s loop decodes every `QEsc` writing -/
theorem contQ_qesc {s w : Bytes} (h : QEsc s w) : ∀ (fuel : Nat) (acc : Bytes), w.length ≤ fuel →
    contQ fuel w acc = some (acc ++ s) := by
  induction h with
  | nil => intro fuel acc _; simp [contQ_nil]
  | raw c h1 h2 h3 h4 _ ih =>
    intro fuel acc hf
    simp only [List.length_append] at hf
    rw [contQ_plains fuel _ (rune_no_bs c h4), ih fuel _ (by omega)]; simp
  | short e b he _ ih =>
    intro fuel acc hf
    simp only [List.length_cons] at hf
    match fuel, hf with
    | f + 1, hf => rw [contQ_short f e b he, ih f _ (by omega)]; simp
  | uni a b c d r hx hs _ ih =>
    intro fuel acc hf
    simp only [List.length_cons] at hf
    match fuel, hf with
    | f + 1, hf => rw [contQ_esc_u f _ _ acc r (hex4_ext hx _) hs, ih f _ (by omega)]; simp
  | pair a b c d a' b' c' d' hi lo hx hx' g1 g2 g3 g4 _ ih =>
    intro fuel acc hf
    simp only [List.length_cons] at hf
    match fuel, hf with
    | f + 1, hf =>
      rw [contQ_pair f _ _ _ acc hi lo (hex4_ext hx _) (by simp [Json.isSurrogate]; omega) (hex4_ext hx' _)
          (utf16Decode_pair_ne g1 g2 g3 g4),
        utf16Decode_pair g1 g2 g3 g4, ih f _ (by omega)]; simp

/-- Go's JSON string decoder decodes every `QEsc` writing, to the same string -/
theorem psb_qesc {s w : Bytes} (h : QEsc s w) : ∀ (fuel : Nat) (acc rest : Bytes), w.length < fuel →
    Json.parseStringBody fuel (w ++ 0x22 :: rest) acc = some (acc ++ s, rest) := by
  induction h with
  | nil =>
    intro fuel acc rest hf
    match fuel, hf with
    | f + 1, _ => simp [psb_quote]
  | raw c h1 h2 h3 h4 _ ih =>
    intro fuel acc rest hf
    have hp := encodeRune_length_pos c
    simp only [List.length_append] at hf
    match fuel, hf with
    | f + 1, hf =>
      rw [List.append_assoc]
      by_cases hc : c < 0x80
      · rw [encodeRune_ascii c hc] at hf ⊢
        rw [List.cons_append, List.nil_append, psb_ascii f c h2 hc h3 h4, ih f _ _ (by simp at hf; omega)]; simp
      · rw [psb_rune f c h1 (by omega), ih f _ _ (by omega)]; simp
  | short e b he _ ih =>
    intro fuel acc rest hf
    simp only [List.length_cons] at hf
    match fuel, hf with
    | f + 1, hf => rw [List.cons_append, List.cons_append, psb_short f e b he, ih f _ _ (by omega)]; simp
  | uni a b c d r hx hs _ ih =>
    intro fuel acc rest hf
    simp only [List.length_cons] at hf
    match fuel, hf with
    | f + 1, hf =>
      simp only [List.cons_append]
      rw [psb_esc_u f _ _ acc r (hex4_ext hx _) hs, ih f _ _ (by omega)]; simp
  | pair a b c d a' b' c' d' hi lo hx hx' g1 g2 g3 g4 _ ih =>
    intro fuel acc rest hf
    simp only [List.length_cons] at hf
    match fuel, hf with
    | f + 1, hf =>
      simp only [List.cons_append]
      rw [psb_pair f _ _ _ acc hi lo (hex4_ext hx _) (by simp [Json.isSurrogate]; omega) (hex4_ext hx' _),
        utf16Decode_pair g1 g2 g3 g4, if_pos (by simp [RuneError]; omega), ih f _ _ (by omega)]; simp

/-- the same with more text after the writing: the loop arrives at that text with `s` appended and at least the fuel
    that was not needed -/
theorem contQ_qesc_app {s w : Bytes} (h : QEsc s w) : ∀ (k : Nat) (acc tail : Bytes),
    ∃ k', k ≤ k' ∧ contQ (w.length + k) (w ++ tail) acc = contQ k' tail (acc ++ s) := by
  induction h with
  | nil => intro k acc tail; exact ⟨k, Nat.le_refl _, by simp⟩
  | raw c h1 h2 h3 h4 _ ih =>
    intro k acc tail
    obtain ⟨k', hk, e⟩ := ih (k + (encodeRune c).length) (acc ++ encodeRune c) tail
    refine ⟨k', by omega, ?_⟩
    rw [List.append_assoc, contQ_plains _ _ (rune_no_bs c h4), ← List.append_assoc acc, ← e]
    congr 1; simp only [List.length_append]; omega
  | @short e b s w he _ ih =>
    intro k acc tail
    obtain ⟨k', hk, e'⟩ := ih (k + 1) (acc ++ [b]) tail
    refine ⟨k', by omega, ?_⟩
    have : (0x5C :: e :: w).length + k = (w.length + (k + 1)) + 1 := by simp only [List.length_cons]; omega
    rw [this, List.cons_append, List.cons_append, contQ_short _ e b he, e']; simp
  | @uni a b c d r s w hx hs _ ih =>
    intro k acc tail
    obtain ⟨k', hk, e'⟩ := ih (k + 5) (acc ++ encodeRune r) tail
    refine ⟨k', by omega, ?_⟩
    have : (0x5C :: 0x75 :: a :: b :: c :: d :: w).length + k = (w.length + (k + 5)) + 1 := by
      simp only [List.length_cons]; omega
    simp only [List.cons_append]
    rw [this, contQ_esc_u _ _ _ acc r (hex4_ext hx _) hs, e']; simp
  | @pair a b c d a' b' c' d' hi lo s w hx hx' g1 g2 g3 g4 _ ih =>
    intro k acc tail
    obtain ⟨k', hk, e'⟩ := ih (k + 11) (acc ++ encodeRune (0x10000 + (hi - 0xD800) * 1024 + (lo - 0xDC00))) tail
    refine ⟨k', by omega, ?_⟩
    have : (0x5C :: 0x75 :: a :: b :: c :: d :: 0x5C :: 0x75 :: a' :: b' :: c' :: d' :: w).length + k
        = (w.length + (k + 11)) + 1 := by simp only [List.length_cons]; omega
    simp only [List.cons_append]
    rw [this, contQ_pair _ _ _ _ acc hi lo (hex4_ext hx _) (by simp [Json.isSurrogate]; omega) (hex4_ext hx' _)
        (utf16Decode_pair_ne g1 g2 g3 g4),
      utf16Decode_pair g1 g2 g3 g4, e']; simp

/-- the same for Go's JSON string decoder -/
theorem psb_qesc_app {s w : Bytes} (h : QEsc s w) : ∀ (k : Nat) (acc tail : Bytes),
    ∃ k', k ≤ k' ∧ Json.parseStringBody (w.length + k) (w ++ tail) acc = Json.parseStringBody k' tail (acc ++ s) := by
  induction h with
  | nil => intro k acc tail; exact ⟨k, Nat.le_refl _, by simp⟩
  | @raw c s w h1 h2 h3 h4 _ ih =>
    intro k acc tail
    have hp := encodeRune_length_pos c
    obtain ⟨k', hk, e⟩ := ih (k + ((encodeRune c).length - 1)) (acc ++ encodeRune c) tail
    refine ⟨k', by omega, ?_⟩
    have : (encodeRune c ++ w).length + k = (w.length + (k + ((encodeRune c).length - 1))) + 1 := by
      simp only [List.length_append]; omega
    rw [this, List.append_assoc]
    by_cases hc : c < 0x80
    · rw [encodeRune_ascii c hc] at e ⊢
      rw [List.cons_append, List.nil_append, psb_ascii _ c h2 hc h3 h4, e]; simp
    · rw [psb_rune _ c h1 (by omega), e]; simp
  | @short e b s w he _ ih =>
    intro k acc tail
    obtain ⟨k', hk, e'⟩ := ih (k + 1) (acc ++ [b]) tail
    refine ⟨k', by omega, ?_⟩
    have : (0x5C :: e :: w).length + k = (w.length + (k + 1)) + 1 := by simp only [List.length_cons]; omega
    rw [this, List.cons_append, List.cons_append, psb_short _ e b he, e']; simp
  | @uni a b c d r s w hx hs _ ih =>
    intro k acc tail
    obtain ⟨k', hk, e'⟩ := ih (k + 5) (acc ++ encodeRune r) tail
    refine ⟨k', by omega, ?_⟩
    have : (0x5C :: 0x75 :: a :: b :: c :: d :: w).length + k = (w.length + (k + 5)) + 1 := by
      simp only [List.length_cons]; omega
    simp only [List.cons_append]
    rw [this, psb_esc_u _ _ _ acc r (hex4_ext hx _) hs, e']; simp
  | @pair a b c d a' b' c' d' hi lo s w hx hx' g1 g2 g3 g4 _ ih =>
    intro k acc tail
    obtain ⟨k', hk, e'⟩ := ih (k + 11) (acc ++ encodeRune (0x10000 + (hi - 0xD800) * 1024 + (lo - 0xDC00))) tail
    refine ⟨k', by omega, ?_⟩
    have : (0x5C :: 0x75 :: a :: b :: c :: d :: 0x5C :: 0x75 :: a' :: b' :: c' :: d' :: w).length + k
        = (w.length + (k + 11)) + 1 := by simp only [List.length_cons]; omega
    simp only [List.cons_append]
    rw [this, psb_pair _ _ _ _ acc hi lo (hex4_ext hx _) (by simp [Json.isSurrogate]; omega) (hex4_ext hx' _),
      utf16Decode_pair g1 g2 g3 g4, if_pos (by simp [RuneError]; omega), e']; simp

/-- a `QEsc` writing contains no raw control character -/
theorem qesc_ge {s w : Bytes} (h : QEsc s w) : ∀ x ∈ w, 0x20 ≤ x := by
  induction h with
  | nil => intro x hx; cases hx
  | raw c h1 h2 h3 h4 _ ih =>
    intro x hx
    rcases List.mem_append.1 hx with hx | hx
    · by_cases hc : c < 0x80
      · rw [encodeRune_ascii c hc] at hx; simp at hx; omega
      · have := encodeRune_bytes_ge c (by omega) x hx; omega
    · exact ih x hx
  | short e b he _ ih =>
    intro x hx
    simp only [shortEsc, List.mem_cons, Prod.mk.injEq, List.not_mem_nil, or_false] at he hx
    rcases hx with rfl | rfl | hx
    · omega
    · omega
    · exact ih x hx
  | uni a b c d r hx' hs _ ih =>
    intro x hx
    have hb := hex4_bytes hx'
    simp only [List.mem_cons, List.not_mem_nil, or_false] at hx hb
    rcases hx with rfl | rfl | rfl | rfl | rfl | rfl | hx
    · omega
    · omega
    · have := hb x (Or.inl rfl); omega
    · have := hb x (Or.inr (Or.inl rfl)); omega
    · have := hb x (Or.inr (Or.inr (Or.inl rfl))); omega
    · have := hb x (Or.inr (Or.inr (Or.inr rfl))); omega
    · exact ih x hx
  | pair a b c d a' b' c' d' hi lo hx1 hx2 g1 g2 g3 g4 _ ih =>
    intro x hx
    have hb := hex4_bytes hx1
    have hb' := hex4_bytes hx2
    simp only [List.mem_cons, List.not_mem_nil, or_false] at hx hb hb'
    rcases hx with rfl | rfl | rfl | rfl | rfl | rfl | rfl | rfl | rfl | rfl | rfl | rfl | hx
    · omega
    · omega
    · have := hb x (Or.inl rfl); omega
    · have := hb x (Or.inr (Or.inl rfl)); omega
    · have := hb x (Or.inr (Or.inr (Or.inl rfl))); omega
    · have := hb x (Or.inr (Or.inr (Or.inr rfl))); omega
    · omega
    · omega
    · have := hb' x (Or.inl rfl); omega
    · have := hb' x (Or.inr (Or.inl rfl)); omega
    · have := hb' x (Or.inr (Or.inr (Or.inl rfl))); omega
    · have := hb' x (Or.inr (Or.inr (Or.inr rfl))); omega
    · exact ih x hx

/-- four hexadecimal digits are four plain runes for the lexer's scanning rule -/
theorem body_hex4 {delim : Nat} (hd : delim = 0x22 ∨ delim = 0x27 ∨ delim = 0x60) {a b c d r : Nat}
    (hx : Json.hex4 [a, b, c, d] = some (r, [])) {w : Bytes} (hw : Body delim w) :
    Body delim (a :: b :: c :: d :: w) := by
  have hb := hex4_bytes hx
  simp only [List.mem_cons, List.not_mem_nil, or_false] at hb
  have ha := hb a (Or.inl rfl)
  have hb2 := hb b (Or.inr (Or.inl rfl))
  have hc := hb c (Or.inr (Or.inr (Or.inl rfl)))
  have hd2 := hb d (Or.inr (Or.inr (Or.inr rfl)))
  refine Body.plain1 a (by omega) (by omega) (by omega) ?_
  refine Body.plain1 b (by omega) (by omega) (by omega) ?_
  refine Body.plain1 c (by omega) (by omega) (by omega) ?_
  exact Body.plain1 d (by omega) (by omega) (by omega) hw

/-- the lexer's scanning rule accepts every `QEsc` writing as the inside of a quoted identifier -/
theorem body_qesc {s w : Bytes} (h : QEsc s w) : Body 0x22 w := by
  induction h with
  | nil => exact Body.nil
  | raw c h1 h2 h3 h4 _ ih => exact Body.plain c _ h1 h3 h4 ih
  | short e b he _ ih =>
    simp only [shortEsc, List.mem_cons, Prod.mk.injEq, List.not_mem_nil, or_false] at he
    exact Body.esc1 e (by omega) ih
  | uni a b c d r hx hs _ ih => exact Body.esc1 0x75 (by omega) (body_hex4 (Or.inl rfl) hx ih)
  | pair a b c d a' b' c' d' hi lo hx1 hx2 g1 g2 g3 g4 _ ih =>
    exact Body.esc1 0x75 (by omega) (body_hex4 (Or.inl rfl) hx1
      (Body.esc1 0x75 (by omega) (body_hex4 (Or.inl rfl) hx2 ih)))

/-- four hexadecimal digits are four plain runes of a JSON-literal body -/
theorem jbody_hex4 {a b c d r : Nat} (hx : Json.hex4 [a, b, c, d] = some (r, [])) {w : Bytes} (hw : JBody w) :
    JBody (a :: b :: c :: d :: w) := by
  have hb := hex4_bytes hx
  simp only [List.mem_cons, List.not_mem_nil, or_false] at hb
  have ha := hb a (Or.inl rfl)
  have hb2 := hb b (Or.inr (Or.inl rfl))
  have hc := hb c (Or.inr (Or.inr (Or.inl rfl)))
  have hd2 := hb d (Or.inr (Or.inr (Or.inr rfl)))
  refine JBody.plain1 a (by omega) (by omega) ?_
  refine JBody.plain1 b (by omega) (by omega) ?_
  refine JBody.plain1 c (by omega) (by omega) ?_
  exact JBody.plain1 d (by omega) (by omega) hw

/-- … and, once its backticks are escaped, as the inside of a JSON literal: no backslash of a `QEsc` writing
    stands before a backtick -/
theorem jbody_qesc {s w : Bytes} (h : QEsc s w) : JBody w := by
  induction h with
  | nil => exact JBody.nil
  | raw c h1 h2 h3 h4 _ ih => exact JBody.plain c _ h1 h4 ih
  | short e b he _ ih =>
    simp only [shortEsc, List.mem_cons, Prod.mk.injEq, List.not_mem_nil, or_false] at he
    exact JBody.esc1 e (by omega) (by omega) ih
  | uni a b c d r hx hs _ ih => exact JBody.esc1 0x75 (by omega) (by omega) (jbody_hex4 hx ih)
  | pair a b c d a' b' c' d' hi lo hx1 hx2 g1 g2 g3 g4 _ ih =>
    exact JBody.esc1 0x75 (by omega) (by omega) (jbody_hex4 hx1
      (JBody.esc1 0x75 (by omega) (by omega) (jbody_hex4 hx2 ih)))

/-- the string a `QEsc` writing denotes is valid UTF-8 -/
theorem qesc_valid {s w : Bytes} (h : QEsc s w) : validUTF8 s = true := by
  have key : ∃ cs, Scalars cs ∧ s = encodeAll cs := by
    induction h with
    | nil => exact ⟨[], Scalars.nil, rfl⟩
    | raw c h1 _ _ _ _ ih =>
      obtain ⟨cs, hcs, rfl⟩ := ih
      exact ⟨c :: cs, Scalars.cons h1 hcs, by rw [encodeAll_cons]⟩
    | short e b he _ ih =>
      obtain ⟨cs, hcs, rfl⟩ := ih
      simp only [shortEsc, List.mem_cons, Prod.mk.injEq, List.not_mem_nil, or_false] at he
      have hb : b < 0x80 := by omega
      exact ⟨b :: cs, Scalars.cons (isScalar_ascii b hb) hcs, by rw [encodeAll_cons, encodeRune_ascii b hb]; rfl⟩
    | uni a b c d r hx hs _ ih =>
      obtain ⟨cs, hcs, rfl⟩ := ih
      have hr := hex4_lt hx
      have : isScalar r = true := by
        rw [isScalar_iff]; simp [Json.isSurrogate] at hs; omega
      exact ⟨r :: cs, Scalars.cons this hcs, by rw [encodeAll_cons]⟩
    | pair a b c d a' b' c' d' hi lo hx1 hx2 g1 g2 g3 g4 _ ih =>
      obtain ⟨cs, hcs, rfl⟩ := ih
      have : isScalar (0x10000 + (hi - 0xD800) * 1024 + (lo - 0xDC00)) = true := by
        rw [isScalar_iff]; omega
      exact ⟨_ :: cs, Scalars.cons this hcs, by rw [encodeAll_cons]⟩
  obtain ⟨cs, hcs, rfl⟩ := key
  exact validUTF8_encodeAll cs hcs

/-! ### the three statements of the task, and the end-to-end forms -/

/-- **C16 (quoted identifier, every escape form)**: `"w"` decodes to `s` -/
theorem parseQuotedIdentifier_qesc {s w : Bytes} (h : QEsc s w) :
    parseQuotedIdentifier ([0x22] ++ w ++ [0x22]) = some s := by
  rw [parseQuotedIdentifier_eq, stripDelims_wrap]
  have : w.any (· < 0x20) = false := by
    rw [List.any_eq_false]
    intro x hx; have := qesc_ge h x hx; simp; omega
  rw [this]
  simp [contQ_qesc h _ [] (Nat.le_succ _)]

/-- **C16 (JSON string, every escape form)**: Go's decoder reads `"w"` as the string `s` — the same string as the
    quoted identifier -/
theorem decode_qesc {s w : Bytes} (h : QEsc s w) : Json.decode ([0x22] ++ w ++ [0x22]) = some (.str s) := by
  have := psb_qesc h ((w ++ [0x22]).length + 1) [] [] (by simp; omega)
  exact decode_string w s (by simpa using this)

/-- every `QEsc` writing is one `quotedIdentifier` token -/
theorem lex_qesc {s w : Bytes} (h : QEsc s w) :
    lexAll ([0x22] ++ w ++ [0x22]) = ([⟨.quotedIdentifier, [0x22] ++ w ++ [0x22]⟩, ⟨.end, []⟩], none) :=
  lexAll_single 0x22 _ (by omega) (by decide) _ (lexToken_quoted (body_qesc h))

/-- **C16 (quoted identifier, end to end)**: whichever way the key is escaped, `"w"` selects the member named `s` -/
theorem qid_esc_roundtrip {s w : Bytes} (h : QEsc s w) (kvs : List (Bytes × Val)) :
    search ([0x22] ++ w ++ [0x22]) (.obj kvs) = .ok ((objLookup s kvs).getD .null) := by
  rw [search_single _ _ _ _ (lex_qesc h) (fun f => prim_quoted f _ _ (parseQuotedIdentifier_qesc h))]
  rfl

/-- **C16 (JSON string literal, end to end)**: whichever way the string is escaped, `` `"w"` `` (backticks inside
    escaped) evaluates to `s` -/
theorem json_esc_roundtrip {s w : Bytes} (h : QEsc s w) (d : Val) :
    search (jsonLit ([0x22] ++ w ++ [0x22])) d = .ok (.str s) :=
  json_literal_roundtrip _ _ d
    (JBody.append (JBody.append (JBody.plain1 0x22 (by omega) (by omega) JBody.nil) (jbody_qesc h))
      (JBody.plain1 0x22 (by omega) (by omega) JBody.nil))
    (decode_qesc h)

/-- 😀 = U+1F600 as a surrogate pair (upper- and lower-case digits), `\n \t \b \f \r \/`, `\u00E9` = é, `\u0022` = `"` -/
example : QEsc [0xF0, 0x9F, 0x98, 0x80] [0x5C, 0x75, 0x44, 0x38, 0x33, 0x64, 0x5C, 0x75, 0x64, 0x45, 0x30, 0x30] :=
  QEsc.pair 0x44 0x38 0x33 0x64 0x64 0x45 0x30 0x30 0xD83D 0xDE00 (by decide) (by decide) (by decide) (by decide)
    (by decide) (by decide) QEsc.nil
example : parseQuotedIdentifier [0x22, 0x5C, 0x75, 0x44, 0x38, 0x33, 0x64, 0x5C, 0x75, 0x64, 0x45, 0x30, 0x30, 0x22]
    = some [0xF0, 0x9F, 0x98, 0x80] := by decide
example : QEsc [0x0A, 0x09, 0x08, 0x0C, 0x0D, 0x2F]
    [0x5C, 0x6E, 0x5C, 0x74, 0x5C, 0x62, 0x5C, 0x66, 0x5C, 0x72, 0x5C, 0x2F] :=
  QEsc.short 0x6E 0x0A (by decide) (QEsc.short 0x74 0x09 (by decide) (QEsc.short 0x62 0x08 (by decide)
    (QEsc.short 0x66 0x0C (by decide) (QEsc.short 0x72 0x0D (by decide) (QEsc.short 0x2F 0x2F (by decide) QEsc.nil)))))
example : QEsc [0xC3, 0xA9, 0x22] [0x5C, 0x75, 0x30, 0x30, 0x45, 0x39, 0x5C, 0x75, 0x30, 0x30, 0x32, 0x32] :=
  QEsc.uni 0x30 0x30 0x45 0x39 0xE9 (by decide) (by decide)
    (QEsc.uni 0x30 0x30 0x32 0x32 0x22 (by decide) (by decide) QEsc.nil)
example (d : Val) :
    search (jsonLit [0x22, 0x5C, 0x75, 0x44, 0x38, 0x33, 0x64, 0x5C, 0x75, 0x64, 0x45, 0x30, 0x30, 0x22]) d
      = .ok (.str [0xF0, 0x9F, 0x98, 0x80]) :=
  json_esc_roundtrip (QEsc.pair 0x44 0x38 0x33 0x64 0x64 0x45 0x30 0x30 0xD83D 0xDE00 (by decide) (by decide)
    (by decide) (by decide) (by decide) (by decide) QEsc.nil) d

/-- `"\n\t\b\f\r\/"` selects the member whose name is those six characters -/
example : search [0x22, 0x5C, 0x6E, 0x5C, 0x74, 0x5C, 0x62, 0x5C, 0x66, 0x5C, 0x72, 0x5C, 0x2F, 0x22]
    (.obj [([0x0A, 0x09, 0x08, 0x0C, 0x0D, 0x2F], .bool true)]) = .ok (.bool true) :=
  qid_esc_roundtrip (QEsc.short 0x6E 0x0A (by decide) (QEsc.short 0x74 0x09 (by decide) (QEsc.short 0x62 0x08 (by decide)
    (QEsc.short 0x66 0x0C (by decide) (QEsc.short 0x72 0x0D (by decide) (QEsc.short 0x2F 0x2F (by decide) QEsc.nil)))))) _
/-- upper- and lower-case digits, a raw multi-byte rune, an escaped quote: `"\u00E9\u00e9é\""` is `ééé"` -/
example : Json.decode [0x22, 0x5C, 0x75, 0x30, 0x30, 0x45, 0x39, 0x5C, 0x75, 0x30, 0x30, 0x65, 0x39, 0xC3, 0xA9, 0x5C, 0x22, 0x22]
    = some (.str [0xC3, 0xA9, 0xC3, 0xA9, 0xC3, 0xA9, 0x22]) :=
  decode_qesc (QEsc.uni 0x30 0x30 0x45 0x39 0xE9 (by decide) (by decide) (QEsc.uni 0x30 0x30 0x65 0x39 0xE9 (by decide)
    (by decide) (QEsc.raw 0xE9 (by decide) (by decide) (by decide) (by decide) (QEsc.short 0x22 0x22 (by decide) QEsc.nil))))
/-- U+FFFD written as itself and as `\uFFFD` -/
example : parseQuotedIdentifier [0x22, 0xEF, 0xBF, 0xBD, 0x5C, 0x75, 0x46, 0x46, 0x46, 0x44, 0x22]
    = some [0xEF, 0xBF, 0xBD, 0xEF, 0xBF, 0xBD] :=
  parseQuotedIdentifier_qesc (QEsc.raw 0xFFFD (by decide) (by decide) (by decide) (by decide)
    (QEsc.uni 0x46 0x46 0x46 0x44 0xFFFD (by decide) (by decide) QEsc.nil))

/-- the escaping function of the first part (`escQ`: `\"`, `\\`, `\u00xx`, everything else raw) is one of the
    writings `QEsc` allows: the theorems above extend `qid_roundtrip` / `json_str_roundtrip` -/
theorem qesc_escQ : ∀ cs : List Nat, Scalars cs → QEsc (encodeAll cs) (escQ (encodeAll cs))
  | [], _ => QEsc.nil
  | c :: cs, h => by
    have ih := qesc_escQ cs h.tail
    rw [encodeAll_cons, escQ_append]
    by_cases hc : c < 0x80
    · rw [encodeRune_ascii c hc]
      have e : escQ [c] = qEscByte c := by simp [escQ]
      rw [e]; unfold qEscByte
      by_cases h1 : c = 0x22
      · subst h1; exact QEsc.short 0x22 0x22 (by decide) ih
      · by_cases h2 : c = 0x5C
        · subst h2; exact QEsc.short 0x5C 0x5C (by decide) ih
        · by_cases h3 : c < 0x20
          · simp only [h1, h2, h3, if_false, if_true]
            have := QEsc.uni 0x30 0x30 (hexLower (c / 16)) (hexLower (c % 16)) c
              (by simpa [hexLower_eq] using hex4_u00 c (by omega) []) (by simp [Json.isSurrogate]; omega) ih
            rwa [encodeRune_ascii c hc] at this
          · simp only [h1, h2, h3, if_false]
            have := QEsc.raw c (isScalar_ascii c hc) (by omega) h1 h2 ih
            rwa [encodeRune_ascii c hc] at this
    · have e : escQ (encodeRune c) = encodeRune c :=
        flatMap_id_of _ (fun b hb => qEscByte_hi b (encodeRune_bytes_ge c (by omega) b hb))
      rw [e]
      exact QEsc.raw c h.head (by omega) (by omega) (by omega) ih

example : QEsc [0x61, 0x0A] (escQ [0x61, 0x0A]) := qesc_escQ [0x61, 0x0A] (by intro c hc; simp at hc; rcases hc with rfl | rfl <;> decide)

/-! ### lone surrogates: the two syntaxes differ -/

/-- A surrogate escape that is not followed by a second `\u` escape makes a **quoted identifier** invalid
    (Go: `invalid quoted string`), whatever precedes it. -/
theorem qid_lone_surrogate_rejected {s w : Bytes} (h : QEsc s w) {a b c d r : Nat}
    (hx : Json.hex4 [a, b, c, d] = some (r, [])) (hs : Json.isSurrogate r = true) (rest : Bytes)
    (hn : ∀ x, rest ≠ 0x5C :: 0x75 :: x) :
    parseQuotedIdentifier ([0x22] ++ (w ++ 0x5C :: 0x75 :: a :: b :: c :: d :: rest) ++ [0x22]) = none := by
  rw [parseQuotedIdentifier_eq, stripDelims_wrap]
  split
  · rfl
  · obtain ⟨k', hk, e⟩ := contQ_qesc_app h (7 + rest.length) [] (0x5C :: 0x75 :: a :: b :: c :: d :: rest)
    have : (w ++ 0x5C :: 0x75 :: a :: b :: c :: d :: rest).length + 1 = w.length + (7 + rest.length) := by
      simp only [List.length_append, List.length_cons]; omega
    rw [this, e]
    obtain ⟨f, rfl⟩ : ∃ f, k' = f + 1 := ⟨k' - 1, by omega⟩
    exact contQ_lone f _ _ _ r (hex4_ext hx _) hs hn

/-- `"\uD800"`, `"\uD800A"` are rejected -/
example : parseQuotedIdentifier [0x22, 0x5C, 0x75, 0x44, 0x38, 0x30, 0x30, 0x22] = none :=
  qid_lone_surrogate_rejected QEsc.nil (r := 0xD800) (by decide) (by decide) [] (by intro x h; cases h)
example : search [0x22, 0x5C, 0x75, 0x44, 0x38, 0x30, 0x30, 0x41, 0x22] (.obj []) = .err [.syntax] :=
  search_quoted_invalid _ _ _ (by decide)
    (qid_lone_surrogate_rejected QEsc.nil (a := 0x44) (b := 0x38) (c := 0x30) (d := 0x30) (r := 0xD800)
      (by decide) (by decide) [0x41] (by intro x h; cases h))

/-- … while in a **JSON string** (hence in a JSON literal) the same escape reads as U+FFFD and decoding goes on. -/
theorem decode_lone_surrogate {s w s2 w2 : Bytes} (h : QEsc s w) {a b c d r : Nat}
    (hx : Json.hex4 [a, b, c, d] = some (r, [])) (hs : Json.isSurrogate r = true) (h2 : QEsc s2 w2)
    (hn : ∀ x, w2 ≠ 0x5C :: 0x75 :: x) :
    Json.decode ([0x22] ++ (w ++ 0x5C :: 0x75 :: a :: b :: c :: d :: w2) ++ [0x22])
      = some (.str (s ++ [0xEF, 0xBF, 0xBD] ++ s2)) := by
  show Json.decode (0x22 :: (w ++ 0x5C :: 0x75 :: a :: b :: c :: d :: w2 ++ [0x22])) = _
  refine decode_string _ _ ?_
  obtain ⟨k', hk, e⟩ := psb_qesc_app h (8 + w2.length) [] (0x5C :: 0x75 :: a :: b :: c :: d :: (w2 ++ [0x22]))
  have e1 : (w ++ 0x5C :: 0x75 :: a :: b :: c :: d :: w2 ++ [0x22]).length + 1 = w.length + (8 + w2.length) := by
    simp only [List.length_append, List.length_cons, List.length_nil]; omega
  have e2 : w ++ 0x5C :: 0x75 :: a :: b :: c :: d :: w2 ++ [0x22]
      = w ++ 0x5C :: 0x75 :: a :: b :: c :: d :: (w2 ++ [0x22]) := by simp
  rw [e1, e2, e]
  obtain ⟨f, rfl⟩ : ∃ f, k' = f + 1 := ⟨k' - 1, by omega⟩
  · have hn' : ∀ x, w2 ++ [0x22] ≠ 0x5C :: 0x75 :: x := by
      intro x hw
      cases w2 with
      | nil => simp at hw
      | cons y t =>
        cases t with
        | nil => simp at hw
        | cons z t' => simp at hw; exact hn t' (by rw [hw.1, hw.2.1])
    rw [psb_lone f _ _ _ r (hex4_ext hx _) hs hn', psb_qesc h2 f _ [] (by omega)]
    have eR : encodeRune RuneError = [0xEF, 0xBF, 0xBD] := by decide
    simp [eR]

/-- `` `"\uD800"` `` is U+FFFD, `` `"\uD800A"` `` is U+FFFD followed by `A` -/
example : search (jsonLit [0x22, 0x5C, 0x75, 0x44, 0x38, 0x30, 0x30, 0x22]) .null = .ok (.str [0xEF, 0xBF, 0xBD]) :=
  json_literal_roundtrip _ _ _
    (JBody.plain1 0x22 (by omega) (by omega) (JBody.esc1 0x75 (by omega) (by omega) (JBody.ascii _ (by decide))))
    (by rfl)
example : Json.decode [0x22, 0x5C, 0x75, 0x44, 0x38, 0x30, 0x30, 0x41, 0x22] = some (.str [0xEF, 0xBF, 0xBD, 0x41]) :=
  decode_lone_surrogate QEsc.nil (r := 0xD800) (by decide) (by decide)
    (QEsc.raw 0x41 (by decide) (by decide) (by decide) (by decide) QEsc.nil) (by intro x h; cases h)

/-- A surrogate escape followed by a `\u` escape with which it does not form a (high, low) pair — an ordinary
    character, a high surrogate after a high one, anything after a low one: the **quoted identifier** is rejected
    (Go: `invalid quoted string`), whatever precedes and whatever follows.
    (FX28.  Before that fix `utf16.DecodeRune`'s U+FFFD was written and BOTH escapes were consumed: `"\uD800\u0041"`
    named the member U+FFFD, the `A` was lost, and `"\uDC00\uD800"` compiled.) -/
theorem qid_unpaired_surrogate_rejected {s w : Bytes} (h : QEsc s w) {a b c d r a' b' c' d' r2 : Nat}
    (hx : Json.hex4 [a, b, c, d] = some (r, [])) (hs : Json.isSurrogate r = true)
    (hx2 : Json.hex4 [a', b', c', d'] = some (r2, []))
    (hnp : ¬ (0xD800 ≤ r ∧ r < 0xDC00 ∧ 0xDC00 ≤ r2 ∧ r2 < 0xE000)) (rest : Bytes) :
    parseQuotedIdentifier
        ([0x22] ++ (w ++ 0x5C :: 0x75 :: a :: b :: c :: d :: 0x5C :: 0x75 :: a' :: b' :: c' :: d' :: rest) ++ [0x22])
      = none := by
  rw [parseQuotedIdentifier_eq, stripDelims_wrap]
  split
  · rfl
  · obtain ⟨k', hk, e⟩ := contQ_qesc_app h (13 + rest.length) []
      (0x5C :: 0x75 :: a :: b :: c :: d :: 0x5C :: 0x75 :: a' :: b' :: c' :: d' :: rest)
    have e1 : (w ++ 0x5C :: 0x75 :: a :: b :: c :: d :: 0x5C :: 0x75 :: a' :: b' :: c' :: d' :: rest).length + 1
        = w.length + (13 + rest.length) := by
      simp only [List.length_append, List.length_cons]; omega
    rw [e1, e]
    obtain ⟨f, rfl⟩ : ∃ f, k' = f + 1 := ⟨k' - 1, by omega⟩
    exact contQ_unpaired f _ _ _ _ r r2 (hex4_ext hx _) hs (hex4_ext hx2 _) ((utf16Decode_eq_fffd_iff r r2).2 hnp)

/-- the case of the first part of this file: a surrogate escape followed by the `\u` escape of an ordinary character.
    (Statement changed by FX28: it used to read `= some (s ++ [0xEF, 0xBF, 0xBD] ++ s2)` — one U+FFFD for both escapes.) -/
theorem qid_unpaired_surrogate {s w s2 w2 : Bytes} (h : QEsc s w) {a b c d r a' b' c' d' r2 : Nat}
    (hx : Json.hex4 [a, b, c, d] = some (r, [])) (hs : Json.isSurrogate r = true)
    (hx2 : Json.hex4 [a', b', c', d'] = some (r2, [])) (hs2 : Json.isSurrogate r2 = false) (_h2 : QEsc s2 w2) :
    parseQuotedIdentifier
        ([0x22] ++ (w ++ 0x5C :: 0x75 :: a :: b :: c :: d :: 0x5C :: 0x75 :: a' :: b' :: c' :: d' :: w2) ++ [0x22])
      = none :=
  qid_unpaired_surrogate_rejected h hx hs hx2 (by simp [Json.isSurrogate] at hs2; omega) w2

/-- … while the **JSON decoder** writes U+FFFD for the first escape and then reads the second one normally. -/
theorem decode_unpaired_surrogate {s w s2 w2 : Bytes} (h : QEsc s w) {a b c d r a' b' c' d' r2 : Nat}
    (hx : Json.hex4 [a, b, c, d] = some (r, [])) (hs : Json.isSurrogate r = true)
    (hx2 : Json.hex4 [a', b', c', d'] = some (r2, [])) (hs2 : Json.isSurrogate r2 = false) (h2 : QEsc s2 w2) :
    Json.decode
        ([0x22] ++ (w ++ 0x5C :: 0x75 :: a :: b :: c :: d :: 0x5C :: 0x75 :: a' :: b' :: c' :: d' :: w2) ++ [0x22])
      = some (.str (s ++ [0xEF, 0xBF, 0xBD] ++ encodeRune r2 ++ s2)) := by
  show Json.decode (0x22 ::
    (w ++ 0x5C :: 0x75 :: a :: b :: c :: d :: 0x5C :: 0x75 :: a' :: b' :: c' :: d' :: w2 ++ [0x22])) = _
  refine decode_string _ _ ?_
  obtain ⟨k', hk, e⟩ := psb_qesc_app h (14 + w2.length) []
    (0x5C :: 0x75 :: a :: b :: c :: d :: 0x5C :: 0x75 :: a' :: b' :: c' :: d' :: (w2 ++ [0x22]))
  have e1 : (w ++ 0x5C :: 0x75 :: a :: b :: c :: d :: 0x5C :: 0x75 :: a' :: b' :: c' :: d' :: w2 ++ [0x22]).length + 1
      = w.length + (14 + w2.length) := by
    simp only [List.length_append, List.length_cons, List.length_nil]; omega
  have e2 : w ++ 0x5C :: 0x75 :: a :: b :: c :: d :: 0x5C :: 0x75 :: a' :: b' :: c' :: d' :: w2 ++ [0x22]
      = w ++ 0x5C :: 0x75 :: a :: b :: c :: d :: 0x5C :: 0x75 :: a' :: b' :: c' :: d' :: (w2 ++ [0x22]) := by simp
  rw [e1, e2, e]
  obtain ⟨f, rfl⟩ : ∃ f, k' = f + 1 := ⟨k' - 1, by omega⟩
  · have hdec : Json.utf16Decode r r2 = RuneError := by
      unfold Json.utf16Decode
      simp [Json.isSurrogate] at hs2
      rw [if_neg (by omega)]
    have h2' := psb_qesc (QEsc.uni a' b' c' d' r2 hx2 hs2 h2) f ([] ++ s ++ encodeRune RuneError) [] (by
      simp only [List.length_cons]; omega)
    simp only [List.cons_append] at h2'
    rw [psb_pair f _ _ _ _ r r2 (hex4_ext hx _) hs (hex4_ext hx2 _), hdec, if_neg (by simp), h2']
    have eR : encodeRune RuneError = [0xEF, 0xBF, 0xBD] := by decide
    simp [eR]

/-- `"\uD800\u0041"` is rejected (regression example for FX28: it used to name the member U+FFFD, the `A` was lost),
    and so are `"\uDC00\uD800"` (low, then high; it used to be one U+FFFD) and `"\uD800\uD800"`; whereas the JSON literal
    `` `"\uD800\u0041"` `` is the two-character string U+FFFD `A`.  The Go code does exactly this. -/
example : parseQuotedIdentifier [0x22, 0x5C, 0x75, 0x44, 0x38, 0x30, 0x30, 0x5C, 0x75, 0x30, 0x30, 0x34, 0x31, 0x22]
    = none :=
  qid_unpaired_surrogate QEsc.nil (r := 0xD800) (r2 := 0x41) (by decide) (by decide) (by decide) (by decide) QEsc.nil
example : parseQuotedIdentifier [0x22, 0x5C, 0x75, 0x44, 0x43, 0x30, 0x30, 0x5C, 0x75, 0x44, 0x38, 0x30, 0x30, 0x22]
    = none :=
  qid_unpaired_surrogate_rejected QEsc.nil (r := 0xDC00) (r2 := 0xD800) (by decide) (by decide) (by decide) (by omega) []
example : parseQuotedIdentifier [0x22, 0x5C, 0x75, 0x44, 0x38, 0x30, 0x30, 0x5C, 0x75, 0x44, 0x38, 0x30, 0x30, 0x22]
    = none :=
  qid_unpaired_surrogate_rejected QEsc.nil (r := 0xD800) (r2 := 0xD800) (by decide) (by decide) (by decide) (by omega) []
/-- the hypothesis `hnp` cannot be dropped: a genuine pair is accepted -/
example : parseQuotedIdentifier [0x22, 0x5C, 0x75, 0x44, 0x38, 0x30, 0x30, 0x5C, 0x75, 0x44, 0x43, 0x30, 0x30, 0x22]
    = some [0xF0, 0x90, 0x80, 0x80] := by decide
example : Json.decode [0x22, 0x5C, 0x75, 0x44, 0x38, 0x30, 0x30, 0x5C, 0x75, 0x30, 0x30, 0x34, 0x31, 0x22]
    = some (.str [0xEF, 0xBF, 0xBD, 0x41]) :=
  decode_unpaired_surrogate QEsc.nil (r := 0xD800) (r2 := 0x41) (by decide) (by decide) (by decide) (by decide) QEsc.nil

/-! #### the same four facts, end to end -/

/-- a `QEsc` writing, one more `\\uXXXX` escape (surrogate or not), a `QEsc` writing: still a quoted-identifier body -/
theorem body_lone {s w s2 w2 : Bytes} (h : QEsc s w) {a b c d r : Nat} (hx : Json.hex4 [a, b, c, d] = some (r, []))
    (h2 : QEsc s2 w2) : Body 0x22 (w ++ 0x5C :: 0x75 :: a :: b :: c :: d :: w2) :=
  Body.append (body_qesc h) (Body.esc1 0x75 (by omega) (body_hex4 (Or.inl rfl) hx (body_qesc h2)))

/-- … and, between double quotes, still a JSON-literal body -/
theorem jbody_lone {s w s2 w2 : Bytes} (h : QEsc s w) {a b c d r : Nat} (hx : Json.hex4 [a, b, c, d] = some (r, []))
    (h2 : QEsc s2 w2) : JBody ([0x22] ++ (w ++ 0x5C :: 0x75 :: a :: b :: c :: d :: w2) ++ [0x22]) :=
  JBody.append (JBody.append (JBody.plain1 0x22 (by omega) (by omega) JBody.nil)
    (JBody.append (jbody_qesc h) (JBody.esc1 0x75 (by omega) (by omega) (jbody_hex4 hx (jbody_qesc h2)))))
    (JBody.plain1 0x22 (by omega) (by omega) JBody.nil)

/-- a quoted identifier with a lone surrogate escape is a syntax error … -/
theorem qid_lone_surrogate_search {s w s2 w2 : Bytes} (h : QEsc s w) {a b c d r : Nat}
    (hx : Json.hex4 [a, b, c, d] = some (r, [])) (hs : Json.isSurrogate r = true) (h2 : QEsc s2 w2)
    (hn : ∀ x, w2 ≠ 0x5C :: 0x75 :: x) (doc : Val) :
    search ([0x22] ++ (w ++ 0x5C :: 0x75 :: a :: b :: c :: d :: w2) ++ [0x22]) doc = .err [.syntax] :=
  search_quoted_invalid _ _ doc
    (lexAll_single 0x22 _ (by omega) (by decide) _ (lexToken_quoted (body_lone h hx h2)))
    (qid_lone_surrogate_rejected h hx hs w2 hn)

/-- … the JSON literal with the same text is a string containing U+FFFD -/
theorem json_lone_surrogate_search {s w s2 w2 : Bytes} (h : QEsc s w) {a b c d r : Nat}
    (hx : Json.hex4 [a, b, c, d] = some (r, [])) (hs : Json.isSurrogate r = true) (h2 : QEsc s2 w2)
    (hn : ∀ x, w2 ≠ 0x5C :: 0x75 :: x) (doc : Val) :
    search (jsonLit ([0x22] ++ (w ++ 0x5C :: 0x75 :: a :: b :: c :: d :: w2) ++ [0x22])) doc
      = .ok (.str (s ++ [0xEF, 0xBF, 0xBD] ++ s2)) :=
  json_literal_roundtrip _ _ doc (jbody_lone h hx h2) (decode_lone_surrogate h hx hs h2 hn)

/-- a surrogate escape followed by a `\u` escape with which it forms no (high, low) pair: the quoted identifier is a
    syntax error (FX28), on every document … -/
theorem qid_unpaired_surrogate_rejected_search {s w s2 w2 : Bytes} (h : QEsc s w) {a b c d r a' b' c' d' r2 : Nat}
    (hx : Json.hex4 [a, b, c, d] = some (r, [])) (hs : Json.isSurrogate r = true)
    (hx2 : Json.hex4 [a', b', c', d'] = some (r2, []))
    (hnp : ¬ (0xD800 ≤ r ∧ r < 0xDC00 ∧ 0xDC00 ≤ r2 ∧ r2 < 0xE000)) (h2 : QEsc s2 w2) (doc : Val) :
    search ([0x22] ++ (w ++ 0x5C :: 0x75 :: a :: b :: c :: d :: 0x5C :: 0x75 :: a' :: b' :: c' :: d' :: w2) ++ [0x22])
        doc
      = .err [.syntax] := by
  have hb : Body 0x22 (w ++ 0x5C :: 0x75 :: a :: b :: c :: d :: 0x5C :: 0x75 :: a' :: b' :: c' :: d' :: w2) :=
    Body.append (body_qesc h) (Body.esc1 0x75 (by omega) (body_hex4 (Or.inl rfl) hx
      (Body.esc1 0x75 (by omega) (body_hex4 (Or.inl rfl) hx2 (body_qesc h2)))))
  exact search_quoted_invalid _ _ doc
    (lexAll_single 0x22 _ (by omega) (by decide) _ (lexToken_quoted hb))
    (qid_unpaired_surrogate_rejected h hx hs hx2 hnp w2)

/-- a surrogate escape followed by an ordinary `\u` escape: the quoted identifier is a syntax error …
    (Statement changed by FX28: it used to read `search … (.obj kvs) = .ok ((objLookup (s ++ U+FFFD ++ s2) kvs).getD .null)`
    — the member `s ++ U+FFFD ++ s2` was selected, the second escape was lost.) -/
theorem qid_unpaired_surrogate_search {s w s2 w2 : Bytes} (h : QEsc s w) {a b c d r a' b' c' d' r2 : Nat}
    (hx : Json.hex4 [a, b, c, d] = some (r, [])) (hs : Json.isSurrogate r = true)
    (hx2 : Json.hex4 [a', b', c', d'] = some (r2, [])) (hs2 : Json.isSurrogate r2 = false) (h2 : QEsc s2 w2)
    (doc : Val) :
    search ([0x22] ++ (w ++ 0x5C :: 0x75 :: a :: b :: c :: d :: 0x5C :: 0x75 :: a' :: b' :: c' :: d' :: w2) ++ [0x22])
        doc
      = .err [.syntax] :=
  qid_unpaired_surrogate_rejected_search h hx hs hx2 (by simp [Json.isSurrogate] at hs2; omega) h2 doc

/-- … the JSON literal with the same text is the string `s ++ U+FFFD ++ <the second character> ++ s2` -/
theorem json_unpaired_surrogate_search {s w s2 w2 : Bytes} (h : QEsc s w) {a b c d r a' b' c' d' r2 : Nat}
    (hx : Json.hex4 [a, b, c, d] = some (r, [])) (hs : Json.isSurrogate r = true)
    (hx2 : Json.hex4 [a', b', c', d'] = some (r2, [])) (hs2 : Json.isSurrogate r2 = false) (h2 : QEsc s2 w2)
    (doc : Val) :
    search (jsonLit ([0x22] ++
        (w ++ 0x5C :: 0x75 :: a :: b :: c :: d :: 0x5C :: 0x75 :: a' :: b' :: c' :: d' :: w2) ++ [0x22])) doc
      = .ok (.str (s ++ [0xEF, 0xBF, 0xBD] ++ encodeRune r2 ++ s2)) :=
  json_literal_roundtrip _ _ doc (jbody_lone h hx (QEsc.uni a' b' c' d' r2 hx2 hs2 h2))
    (decode_unpaired_surrogate h hx hs hx2 hs2 h2)

/-- `"\uD800\u0041"` on `{"\uFFFD": true, "\uFFFDA": false}` is a syntax error (regression example for FX28: it used to
    be `true`), and so is `"\uDC00\uD800"` (it used to select the member named U+FFFD); `` `"\uD800\u0041"` `` is `"\uFFFDA"` -/
example : search [0x22, 0x5C, 0x75, 0x44, 0x38, 0x30, 0x30, 0x5C, 0x75, 0x30, 0x30, 0x34, 0x31, 0x22]
    (.obj [([0xEF, 0xBF, 0xBD], .bool true), ([0xEF, 0xBF, 0xBD, 0x41], .bool false)]) = .err [.syntax] :=
  qid_unpaired_surrogate_search QEsc.nil (r := 0xD800) (r2 := 0x41) (by decide) (by decide) (by decide) (by decide)
    QEsc.nil _
example : search [0x22, 0x5C, 0x75, 0x44, 0x43, 0x30, 0x30, 0x5C, 0x75, 0x44, 0x38, 0x30, 0x30, 0x22]
    (.obj [([0xEF, 0xBF, 0xBD], .bool true)]) = .err [.syntax] :=
  qid_unpaired_surrogate_rejected_search QEsc.nil (r := 0xDC00) (r2 := 0xD800) (by decide) (by decide) (by decide)
    (by omega) QEsc.nil _
example : search (jsonLit [0x22, 0x5C, 0x75, 0x44, 0x38, 0x30, 0x30, 0x5C, 0x75, 0x30, 0x30, 0x34, 0x31, 0x22]) .null
    = .ok (.str [0xEF, 0xBF, 0xBD, 0x41]) :=
  json_unpaired_surrogate_search QEsc.nil (r := 0xD800) (r2 := 0x41) (by decide) (by decide) (by decide) (by decide)
    QEsc.nil _

/-! ## 2. every JSON value between backticks -/

mutual
/-- the JSON text of a value, with the white space `w` at every place where the grammar allows white space inside
    a value: after `[` `{` `,` `:` and before `]` `}` `,` `:` -/
def render (w : Bytes) : Val → Bytes
  | .null => [0x6E, 0x75, 0x6C, 0x6C]
  | .bool true => [0x74, 0x72, 0x75, 0x65]
  | .bool false => [0x66, 0x61, 0x6C, 0x73, 0x65]
  | .str s => jsonText s
  | .num (.jnum t) => t
  | .num _ => []
  | .arr _ xs => 0x5B :: renderL w xs
  | .obj kvs => 0x7B :: renderF w kvs
  | .foreign _ => []
/-- elements and the closing bracket -/
def renderL (w : Bytes) : List Val → Bytes
  | [] => w ++ [0x5D]
  | x :: xs => w ++ render w x ++ renderT w xs
/-- the elements after the first, each preceded by a comma, and the closing bracket -/
def renderT (w : Bytes) : List Val → Bytes
  | [] => w ++ [0x5D]
  | x :: xs => w ++ 0x2C :: (w ++ render w x ++ renderT w xs)
/-- members and the closing brace -/
def renderF (w : Bytes) : List (Bytes × Val) → Bytes
  | [] => w ++ [0x7D]
  | (k, v) :: rest => w ++ jsonText k ++ w ++ 0x3A :: (w ++ render w v ++ renderU w rest)
/-- the members after the first, each preceded by a comma, and the closing brace -/
def renderU (w : Bytes) : List (Bytes × Val) → Bytes
  | [] => w ++ [0x7D]
  | (k, v) :: rest => w ++ 0x2C :: (w ++ jsonText k ++ w ++ 0x3A :: (w ++ render w v ++ renderU w rest))
end

mutual
/-- the values JSON can denote, as Go's decoder (with `UseNumber`) represents them: strings are valid UTF-8, numbers
    are `json.Number`s with a valid spelling (any length, any exponent), arrays are plain slices, object keys are
    valid UTF-8, distinct, and kept in increasing order (the model's representation of a Go map) -/
def Plain : Val → Prop
  | .null => True
  | .bool _ => True
  | .str s => validUTF8 s = true
  | .num (.jnum t) => Json.isValidNumber t = true
  | .num _ => False
  | .arr .plain xs => PlainL xs
  | .arr _ _ => False
  | .obj kvs => PlainF kvs
  | .foreign _ => False
/-- `Plain` for every element -/
def PlainL : List Val → Prop
  | [] => True
  | x :: xs => Plain x ∧ PlainL xs
/-- `Plain` for every member value; keys valid UTF-8 and strictly increasing -/
def PlainF : List (Bytes × Val) → Prop
  | [] => True
  | (k, v) :: rest => validUTF8 k = true ∧ Plain v ∧ (∀ p ∈ rest, bytesLt k p.1 = true) ∧ PlainF rest
end

mutual
/-- number of nodes: the decoder's fuel -/
def sz : Val → Nat
  | .arr _ xs => 1 + szL xs
  | .obj kvs => 1 + szF kvs
  | _ => 1
/-- `sz` of a list of elements (one more per element) -/
def szL : List Val → Nat
  | [] => 0
  | x :: xs => 1 + sz x + szL xs
/-- `sz` of a list of members (one more per member) -/
def szF : List (Bytes × Val) → Nat
  | [] => 0
  | (_, v) :: rest => 1 + sz v + szF rest
end

mutual
/-- nesting depth (Go's decoder refuses more than 10000 open containers) -/
def dp : Val → Nat
  | .arr _ xs => 1 + dpL xs
  | .obj kvs => 1 + dpF kvs
  | _ => 0
/-- deepest element -/
def dpL : List Val → Nat
  | [] => 0
  | x :: xs => max (dp x) (dpL xs)
/-- deepest member value -/
def dpF : List (Bytes × Val) → Nat
  | [] => 0
  | (_, v) :: rest => max (dp v) (dpF rest)
end

/-- every value has at least one node -/
theorem sz_pos : ∀ v : Val, 1 ≤ sz v
  | .null | .bool _ | .str _ | .num _ | .foreign _ => by simp [sz]
  | .arr _ _ => by simp [sz]
  | .obj _ => by simp [sz]

/-- unfolding `renderL` on a one-element list, followed by `rest` -/
theorem renderL_single (w : Bytes) (x : Val) (rest : Bytes) :
    renderL w [x] ++ rest = w ++ (render w x ++ (w ++ 0x5D :: rest)) := by
  simp [renderL, renderT]

/-- unfolding `renderL` on a list of at least two elements: the tail is again a `renderL` -/
theorem renderL_cons2 (w : Bytes) (x y : Val) (ys : List Val) (rest : Bytes) :
    renderL w (x :: y :: ys) ++ rest = w ++ (render w x ++ (w ++ 0x2C :: (renderL w (y :: ys) ++ rest))) := by
  simp [renderL, renderT]

/-- unfolding `renderF` on a single member -/
theorem renderF_single (w : Bytes) (k : Bytes) (v : Val) (rest : Bytes) :
    renderF w [(k, v)] ++ rest
      = w ++ 0x22 :: (escQ k ++ 0x22 :: (w ++ 0x3A :: (w ++ (render w v ++ (w ++ 0x7D :: rest))))) := by
  simp [renderF, renderU, jsonText]

/-- unfolding `renderF` on at least two members: the tail is again a `renderF` -/
theorem renderF_cons2 (w : Bytes) (k : Bytes) (v : Val) (q : Bytes × Val) (qs : List (Bytes × Val)) (rest : Bytes) :
    renderF w ((k, v) :: q :: qs) ++ rest
      = w ++ 0x22 :: (escQ k ++ 0x22 :: (w ++ 0x3A :: (w ++ (render w v ++ (w ++ 0x2C :: (renderF w (q :: qs) ++ rest)))))) := by
  obtain ⟨k', v'⟩ := q
  simp [renderF, renderU, jsonText]

/-- a rendered value starts with a byte that is neither white space nor `]` -/
theorem render_head (w : Bytes) : (v : Val) → Plain v → ∃ b t, render w v = b :: t ∧ Json.isWs b = false ∧ b ≠ 0x5D
  | .null, _ => ⟨_, _, rfl, by decide, by decide⟩
  | .bool true, _ => ⟨_, _, rfl, by decide, by decide⟩
  | .bool false, _ => ⟨_, _, rfl, by decide, by decide⟩
  | .str s, _ => ⟨0x22, escQ s ++ [0x22], by simp [render, jsonText], by decide, by decide⟩
  | .num (.jnum t), h => Leaf.head (.num t) (show Json.isValidNumber t = true by simpa [Plain] using h)
  | .num (.dec _), h => by simp [Plain] at h
  | .num (.int _ _), h => by simp [Plain] at h
  | .num (.f64 _), h => by simp [Plain] at h
  | .num (.f32 _), h => by simp [Plain] at h
  | .arr _ xs, _ => ⟨0x5B, renderL w xs, by simp [render], by decide, by decide⟩
  | .obj kvs, _ => ⟨0x7B, renderF w kvs, by simp [render], by decide, by decide⟩
  | .foreign _, h => by simp [Plain] at h

/-- `,` cannot continue a number -/
theorem not_numChar_comma : ¬ NumChar 0x2C := by unfold NumChar; omega
/-- `]` cannot continue a number -/
theorem not_numChar_rbracket : ¬ NumChar 0x5D := by unfold NumChar; omega
/-- `}` cannot continue a number -/
theorem not_numChar_rbrace : ¬ NumChar 0x7D := by unfold NumChar; omega

open Jmes.JsonGrammar in
mutual
/-- Go's decoder reads the rendering of a value back as that value, whatever follows (as long as it cannot continue
    a number) -/
theorem pv_render (w : Bytes) (hw : Ws w) : (v : Val) → Plain v → ∀ (f d : Nat) (rest : Bytes), sz v ≤ f →
    d + dp v ≤ Json.maxDepth → Stop rest → Json.parseValue f d (render w v ++ rest) = some (v, rest)
  | .null, _, f, d, rest, hf, _, _ => by
    obtain ⟨f', rfl⟩ : ∃ f', f = f' + 1 := ⟨f - 1, by simp [sz] at hf; omega⟩
    exact Literals.parseValue_null f' d rest
  | .bool true, _, f, d, rest, hf, _, _ => by
    obtain ⟨f', rfl⟩ : ∃ f', f = f' + 1 := ⟨f - 1, by simp [sz] at hf; omega⟩
    exact Literals.parseValue_true f' d rest
  | .bool false, _, f, d, rest, hf, _, _ => by
    obtain ⟨f', rfl⟩ : ∃ f', f = f' + 1 := ⟨f - 1, by simp [sz] at hf; omega⟩
    exact Literals.parseValue_false f' d rest
  | .str s, hp, f, d, rest, hf, _, _ => by
    obtain ⟨f', rfl⟩ : ∃ f', f = f' + 1 := ⟨f - 1, by simp [sz] at hf; omega⟩
    exact parseValue_jsonText f' d s (by simpa [Plain] using hp) rest
  | .num (.jnum t), hp, f, d, rest, hf, _, hs => by
    obtain ⟨f', rfl⟩ : ∃ f', f = f' + 1 := ⟨f - 1, by simp [sz] at hf; omega⟩
    exact parseValue_number_ext f' d t rest (by simpa [Plain] using hp) hs
  | .num (.dec _), h, _, _, _, _, _, _ => by simp [Plain] at h
  | .num (.int _ _), h, _, _, _, _, _, _ => by simp [Plain] at h
  | .num (.f64 _), h, _, _, _, _, _, _ => by simp [Plain] at h
  | .num (.f32 _), h, _, _, _, _, _, _ => by simp [Plain] at h
  | .foreign _, h, _, _, _, _, _, _ => by simp [Plain] at h
  | .arr .nil _, h, _, _, _, _, _, _ => by simp [Plain] at h
  | .arr .enum _, h, _, _, _, _, _, _ => by simp [Plain] at h
  | .arr .plain [], _, f, d, rest, hf, hd, _ => by
    obtain ⟨f', rfl⟩ : ∃ f', f = f' + 1 := ⟨f - 1, by simp [sz] at hf; omega⟩
    have hd' : ¬ (d + 1 > Json.maxDepth) := by simp [dp, dpL] at hd; omega
    have e : render w (.arr .plain []) ++ rest = 0x5B :: (w ++ 0x5D :: rest) := by simp [render, renderL]
    rw [e, JsonGrammar.parseValue_arr, if_neg hd', skipWs_ws_cons hw 0x5D rest (by decide)]
    rfl
  | .arr .plain (x :: xs), hp, f, d, rest, hf, hd, _ => by
    obtain ⟨f', rfl⟩ : ∃ f', f = f' + 1 := ⟨f - 1, by simp [sz] at hf; omega⟩
    have hd' : ¬ (d + 1 > Json.maxDepth) := by simp [dp] at hd; omega
    have hpl : PlainL (x :: xs) := by simpa [Plain] using hp
    have e : render w (.arr .plain (x :: xs)) ++ rest = 0x5B :: (renderL w (x :: xs) ++ rest) := by simp [render]
    have hpe := pe_render w hw (x :: xs) (by simp) hpl f' (d + 1) [] rest (by simp [sz] at hf; omega)
      (by simp [dp] at hd; omega)
    obtain ⟨b, t, hb, hws, hne⟩ := render_head w x hpl.1
    have hsk : Json.skipWs (renderL w (x :: xs) ++ rest) = b :: (t ++ (renderT w xs ++ rest)) := by
      have : renderL w (x :: xs) ++ rest = w ++ (b :: (t ++ (renderT w xs ++ rest))) := by
        simp [renderL, hb]
      rw [this, skipWs_ws_append _ hw, JsonGrammar.skipWs_cons _ hws]
    rw [e, JsonGrammar.parseValue_arr, if_neg hd', hsk]
    split
    · rename_i heq; simp at heq; exact absurd heq.1 hne
    · rw [hpe]; simp
  | .obj [], _, f, d, rest, hf, hd, _ => by
    obtain ⟨f', rfl⟩ : ∃ f', f = f' + 1 := ⟨f - 1, by simp [sz] at hf; omega⟩
    have hd' : ¬ (d + 1 > Json.maxDepth) := by simp [dp, dpF] at hd; omega
    have e : render w (.obj []) ++ rest = 0x7B :: (w ++ 0x7D :: rest) := by simp [render, renderF]
    rw [e, JsonGrammar.parseValue_obj, if_neg hd', skipWs_ws_cons hw 0x7D rest (by decide)]
    rfl
  | .obj ((k, v) :: kvs), hp, f, d, rest, hf, hd, _ => by
    obtain ⟨f', rfl⟩ : ∃ f', f = f' + 1 := ⟨f - 1, by simp [sz] at hf; omega⟩
    have hd' : ¬ (d + 1 > Json.maxDepth) := by simp [dp] at hd; omega
    have hpl : PlainF ((k, v) :: kvs) := by simpa [Plain] using hp
    have e : render w (.obj ((k, v) :: kvs)) ++ rest = 0x7B :: (renderF w ((k, v) :: kvs) ++ rest) := by
      simp [render]
    have hpm := pm_render w hw ((k, v) :: kvs) (by simp) hpl f' (d + 1) [] rest (by simp [sz] at hf; omega)
      (by simp [dp] at hd; omega) (by intro p hp; cases hp)
    have hsk : ∃ t, Json.skipWs (renderF w ((k, v) :: kvs) ++ rest) = 0x22 :: t := by
      refine ⟨escQ k ++ 0x22 :: (w ++ 0x3A :: (w ++ render w v ++ renderU w kvs) ++ rest), ?_⟩
      have : renderF w ((k, v) :: kvs) ++ rest
          = w ++ (0x22 :: (escQ k ++ 0x22 :: (w ++ 0x3A :: (w ++ render w v ++ renderU w kvs) ++ rest))) := by
        simp [renderF, jsonText]
      rw [this, skipWs_ws_append _ hw, JsonGrammar.skipWs_cons _ (by decide)]
    obtain ⟨t, ht⟩ := hsk
    rw [e, JsonGrammar.parseValue_obj, if_neg hd', ht, hpm]; simp
/-- Go's decoder reads the rendering of a non-empty element list (closing bracket included) back as those elements -/
theorem pe_render (w : Bytes) (hw : Ws w) : (l : List Val) → l ≠ [] → PlainL l →
    ∀ (f d : Nat) (acc : List Val) (rest : Bytes), szL l ≤ f → d + dpL l ≤ Json.maxDepth →
      Json.parseElems f d (renderL w l ++ rest) acc = some (acc ++ l, rest)
  | [], h, _, _, _, _, _, _, _ => absurd rfl h
  | [x], _, hp, f, d, acc, rest, hf, hd => by
    have hx := sz_pos x
    obtain ⟨f', rfl⟩ : ∃ f', f = f' + 2 := ⟨f - 2, by simp [szL] at hf; omega⟩
    have hv : Json.parseValue (f' + 1) d (w ++ (render w x ++ (w ++ 0x5D :: rest))) = some (x, w ++ 0x5D :: rest) := by
      rw [parseValue_ws hw]
      exact pv_render w hw x hp.1 (f' + 1) d _ (by simp [szL] at hf; omega) (by simp [dpL] at hd; omega)
        (stop_ws hw 0x5D not_numChar_rbracket rest)
    rw [renderL_single, pe_last acc hv (skipWs_ws_cons hw 0x5D rest (by decide))]
  | x :: y :: ys, _, hp, f, d, acc, rest, hf, hd => by
    have hx := sz_pos x
    obtain ⟨f', rfl⟩ : ∃ f', f = f' + 2 := ⟨f - 2, by simp [szL] at hf; omega⟩
    have hv : Json.parseValue (f' + 1) d (w ++ (render w x ++ (w ++ 0x2C :: (renderL w (y :: ys) ++ rest))))
        = some (x, w ++ 0x2C :: (renderL w (y :: ys) ++ rest)) := by
      rw [parseValue_ws hw]
      exact pv_render w hw x hp.1 (f' + 1) d _ (by simp [szL] at hf; omega)
        (by simp only [dpL] at hd; have := Nat.le_max_left (dp x) (max (dp y) (dpL ys)); omega)
        (stop_ws hw 0x2C not_numChar_comma _)
    rw [renderL_cons2, pe_more acc hv (skipWs_ws_cons hw 0x2C _ (by decide)),
      pe_render w hw (y :: ys) (by simp) hp.2 (f' + 1) d (acc ++ [x]) rest (by simp [szL] at hf ⊢; omega)
        (by simp only [dpL] at hd ⊢; have := Nat.le_max_right (dp x) (max (dp y) (dpL ys)); omega)]
    simp
/-- Go's decoder reads the rendering of a non-empty member list (closing brace included) back as those members, appended in order to the members read so far (all of which have smaller keys) -/
theorem pm_render (w : Bytes) (hw : Ws w) : (l : List (Bytes × Val)) → l ≠ [] → PlainF l →
    ∀ (f d : Nat) (acc : List (Bytes × Val)) (rest : Bytes), szF l ≤ f → d + dpF l ≤ Json.maxDepth →
      (∀ p ∈ acc, ∀ q ∈ l, bytesLt p.1 q.1 = true) →
      Json.parseMembers f d (renderF w l ++ rest) acc = some (acc ++ l, rest)
  | [], h, _, _, _, _, _, _, _, _ => absurd rfl h
  | [(k, v)], _, hp, f, d, acc, rest, hf, hd, hacc => by
    have hx := sz_pos v
    obtain ⟨f', rfl⟩ : ∃ f', f = f' + 2 := ⟨f - 2, by simp [szF] at hf; omega⟩
    have hv : Json.parseValue (f' + 1) d (w ++ (render w v ++ (w ++ 0x7D :: rest))) = some (v, w ++ 0x7D :: rest) := by
      rw [parseValue_ws hw]
      exact pv_render w hw v hp.2.1 (f' + 1) d _ (by simp [szF] at hf; omega) (by simp [dpF] at hd; omega)
        (stop_ws hw 0x7D not_numChar_rbrace rest)
    rw [renderF_single, pm_last acc (skipWs_ws_cons hw 0x22 _ (by decide)) (psb_key k hp.1 _)
      (skipWs_ws_cons hw 0x3A _ (by decide)) hv (skipWs_ws_cons hw 0x7D rest (by decide)),
      objInsert_snoc k v acc (fun p hp' => hacc p hp' (k, v) (by simp))]
  | (k, v) :: q :: qs, _, hp, f, d, acc, rest, hf, hd, hacc => by
    have hx := sz_pos v
    obtain ⟨f', rfl⟩ : ∃ f', f = f' + 2 := ⟨f - 2, by simp [szF] at hf; omega⟩
    have hv : Json.parseValue (f' + 1) d (w ++ (render w v ++ (w ++ 0x2C :: (renderF w (q :: qs) ++ rest))))
        = some (v, w ++ 0x2C :: (renderF w (q :: qs) ++ rest)) := by
      rw [parseValue_ws hw]
      exact pv_render w hw v hp.2.1 (f' + 1) d _ (by simp [szF] at hf; omega)
        (by simp only [dpF] at hd; have := Nat.le_max_left (dp v) (dpF (q :: qs)); omega)
        (stop_ws hw 0x2C not_numChar_comma _)
    rw [renderF_cons2, pm_more acc (skipWs_ws_cons hw 0x22 _ (by decide)) (psb_key k hp.1 _)
      (skipWs_ws_cons hw 0x3A _ (by decide)) hv (skipWs_ws_cons hw 0x2C _ (by decide)),
      objInsert_snoc k v acc (fun p hp' => hacc p hp' (k, v) (by simp)),
      pm_render w hw (q :: qs) (by simp) hp.2.2.2 (f' + 1) d (acc ++ [(k, v)]) rest (by simp [szF] at hf ⊢; omega)
        (by simp only [dpF] at hd ⊢; have := Nat.le_max_right (dp v) (dpF (q :: qs)); omega)
        (by
          intro p hp' r hr
          rcases List.mem_append.1 hp' with hp' | hp'
          · exact hacc p hp' r (by simp [hr])
          · simp at hp'; subst hp'; exact hp.2.2.1 r hr)]
    simp
end

mutual
/-- the rendering of a value is at least as long as the value has nodes: the decoder's fuel `2 * length + 2` is enough -/
theorem sz_le (w : Bytes) : (v : Val) → Plain v → sz v ≤ (render w v).length
  | .null, _ => by simp [sz, render]
  | .bool true, _ => by simp [sz, render]
  | .bool false, _ => by simp [sz, render]
  | .str s, _ => by simp [sz, render, jsonText]
  | .num (.jnum t), h => by
    obtain ⟨b, t', e, _⟩ := Leaf.head (.num t) (show Json.isValidNumber t = true by simpa [Plain] using h)
    have e' : t = b :: t' := e
    simp [sz, render, e']
  | .num (.dec _), h => by simp [Plain] at h
  | .num (.int _ _), h => by simp [Plain] at h
  | .num (.f64 _), h => by simp [Plain] at h
  | .num (.f32 _), h => by simp [Plain] at h
  | .foreign _, h => by simp [Plain] at h
  | .arr .nil _, h => by simp [Plain] at h
  | .arr .enum _, h => by simp [Plain] at h
  | .arr .plain xs, h => by
    have := szL_le w xs (by simpa [Plain] using h)
    simp [sz, render]; omega
  | .obj kvs, h => by
    have := szF_le w kvs (by simpa [Plain] using h)
    simp [sz, render]; omega
/-- the same for `renderL` -/
theorem szL_le (w : Bytes) : (l : List Val) → PlainL l → szL l ≤ (renderL w l).length
  | [], _ => by simp [szL]
  | x :: xs, h => by
    have h1 := sz_le w x h.1
    have h2 := szT_le w xs h.2
    simp [szL, renderL]; omega
/-- the same for `renderT` -/
theorem szT_le (w : Bytes) : (l : List Val) → PlainL l → szL l + 1 ≤ (renderT w l).length
  | [], _ => by simp [szL, renderT]
  | x :: xs, h => by
    have h1 := sz_le w x h.1
    have h2 := szT_le w xs h.2
    simp [szL, renderT]; omega
/-- the same for `renderF` -/
theorem szF_le (w : Bytes) : (l : List (Bytes × Val)) → PlainF l → szF l ≤ (renderF w l).length
  | [], _ => by simp [szF]
  | (k, v) :: rest, h => by
    have h1 := sz_le w v h.2.1
    have h2 := szU_le w rest h.2.2.2
    simp [szF, renderF]; omega
/-- the same for `renderU` -/
theorem szU_le (w : Bytes) : (l : List (Bytes × Val)) → PlainF l → szF l + 1 ≤ (renderU w l).length
  | [], _ => by simp [szF, renderU]
  | (k, v) :: rest, h => by
    have h1 := sz_le w v h.2.1
    have h2 := szU_le w rest h.2.2.2
    simp [szF, renderU]; omega
end

/-- the JSON text of a valid UTF-8 string can stand in a JSON literal -/
theorem jbody_strText (s : Bytes) (h : validUTF8 s = true) : JBody (jsonText s) := Leaf.jbody (.str s) h

mutual
/-- the rendering of a value can be written between backticks (after escaping its backticks) -/
theorem jb_render (w : Bytes) (hw : Ws w) : (v : Val) → Plain v → JBody (render w v)
  | .null, _ => Leaf.jbody .null trivial
  | .bool true, _ => Leaf.jbody (.bool true) trivial
  | .bool false, _ => Leaf.jbody (.bool false) trivial
  | .str s, h => jbody_strText s (by simpa [Plain] using h)
  | .num (.jnum t), h => Leaf.jbody (.num t) (show Json.isValidNumber t = true by simpa [Plain] using h)
  | .num (.dec _), h => by simp [Plain] at h
  | .num (.int _ _), h => by simp [Plain] at h
  | .num (.f64 _), h => by simp [Plain] at h
  | .num (.f32 _), h => by simp [Plain] at h
  | .foreign _, h => by simp [Plain] at h
  | .arr .nil _, h => by simp [Plain] at h
  | .arr .enum _, h => by simp [Plain] at h
  | .arr .plain xs, h => by
    have := jbL_render w hw xs (by simpa [Plain] using h)
    simp only [render]
    exact JBody.plain1 0x5B (by omega) (by omega) this
  | .obj kvs, h => by
    have := jbF_render w hw kvs (by simpa [Plain] using h)
    simp only [render]
    exact JBody.plain1 0x7B (by omega) (by omega) this
/-- the same for `renderL` -/
theorem jbL_render (w : Bytes) (hw : Ws w) : (l : List Val) → PlainL l → JBody (renderL w l)
  | [], _ => by
    simp only [renderL]
    exact JBody.append (ws_jbody hw) (JBody.plain1 0x5D (by omega) (by omega) JBody.nil)
  | x :: xs, h => by
    simp only [renderL]
    exact JBody.append (JBody.append (ws_jbody hw) (jb_render w hw x h.1)) (jbT_render w hw xs h.2)
/-- the same for `renderT` -/
theorem jbT_render (w : Bytes) (hw : Ws w) : (l : List Val) → PlainL l → JBody (renderT w l)
  | [], _ => by
    simp only [renderT]
    exact JBody.append (ws_jbody hw) (JBody.plain1 0x5D (by omega) (by omega) JBody.nil)
  | x :: xs, h => by
    simp only [renderT]
    exact JBody.append (ws_jbody hw) (JBody.plain1 0x2C (by omega) (by omega)
      (JBody.append (JBody.append (ws_jbody hw) (jb_render w hw x h.1)) (jbT_render w hw xs h.2)))
/-- the same for `renderF` -/
theorem jbF_render (w : Bytes) (hw : Ws w) : (l : List (Bytes × Val)) → PlainF l → JBody (renderF w l)
  | [], _ => by
    simp only [renderF]
    exact JBody.append (ws_jbody hw) (JBody.plain1 0x7D (by omega) (by omega) JBody.nil)
  | (k, v) :: rest, h => by
    simp only [renderF]
    exact JBody.append (JBody.append (JBody.append (ws_jbody hw) (jbody_strText k h.1)) (ws_jbody hw))
      (JBody.plain1 0x3A (by omega) (by omega)
        (JBody.append (JBody.append (ws_jbody hw) (jb_render w hw v h.2.1)) (jbU_render w hw rest h.2.2.2)))
/-- the same for `renderU` -/
theorem jbU_render (w : Bytes) (hw : Ws w) : (l : List (Bytes × Val)) → PlainF l → JBody (renderU w l)
  | [], _ => by
    simp only [renderU]
    exact JBody.append (ws_jbody hw) (JBody.plain1 0x7D (by omega) (by omega) JBody.nil)
  | (k, v) :: rest, h => by
    simp only [renderU]
    exact JBody.append (ws_jbody hw) (JBody.plain1 0x2C (by omega) (by omega)
      (JBody.append (JBody.append (JBody.append (ws_jbody hw) (jbody_strText k h.1)) (ws_jbody hw))
        (JBody.plain1 0x3A (by omega) (by omega)
          (JBody.append (JBody.append (ws_jbody hw) (jb_render w hw v h.2.1)) (jbU_render w hw rest h.2.2.2)))))
end

/-- skipping a run of white space leaves nothing -/
theorem skipWs_ws {w : Bytes} (hw : Ws w) : Json.skipWs w = [] := by
  have := JsonGrammar.skipWs_ws_append [] hw
  rw [List.append_nil] at this
  rw [this]; rfl

/-- a run of white space cannot continue a number -/
theorem stop_of_ws {w : Bytes} (hw : Ws w) : Stop w := by
  cases w with
  | nil => exact Stop.nil
  | cons b t => exact Stop.cons (ws_not_numChar (hw b (by simp)))

/-- **Go's decoder (with `UseNumber`) reads the rendering of a value back as that value** — whatever the white
    space inside (`w`), before (`w1`) and after (`w2`); numbers verbatim; nesting up to Go's limit of 10000 -/
theorem decode_render (w w1 w2 : Bytes) (hw : Ws w) (hw1 : Ws w1) (hw2 : Ws w2) (v : Val) (hp : Plain v)
    (hd : dp v ≤ Json.maxDepth) : Json.decode (w1 ++ render w v ++ w2) = some v := by
  unfold Json.decode
  obtain ⟨f, hf⟩ : ∃ f, 2 * (w1 ++ render w v ++ w2).length + 2 = f + 1 := ⟨_, rfl⟩
  have hsz := sz_le w v hp
  rw [hf, List.append_assoc, JsonGrammar.parseValue_ws hw1,
    pv_render w hw v hp (f + 1) 0 w2 (by simp only [List.length_append] at hf; omega) (by omega) (stop_of_ws hw2)]
  simp [skipWs_ws hw2]

/-- **C16 (every JSON value between backticks)**: for every value `v` JSON can denote, its JSON text — with any
    white space policy — written between backticks (backticks inside escaped) evaluates to `v`: strings and keys
    with arbitrary content, numbers at full precision, arrays and objects nested to any depth up to Go's limit -/
theorem json_value_roundtrip (w w1 w2 : Bytes) (hw : Ws w) (hw1 : Ws w1) (hw2 : Ws w2) (v d : Val) (hp : Plain v)
    (hd : dp v ≤ Json.maxDepth) : search (jsonLit (w1 ++ render w v ++ w2)) d = .ok v :=
  json_literal_roundtrip _ _ d (JBody.append (JBody.append (ws_jbody hw1) (jb_render w hw v hp)) (ws_jbody hw2))
    (decode_render w w1 w2 hw hw1 hw2 v hp hd)

/-- `{"a`":[1.0,null,{"b":true}],"c":"x","n":-123456789012345678901234567890.5e-7000}` with a blank at every
    place where white space may go, a line feed before and a tab after -/
def exVal : Val :=
  .obj [([0x61, 0x60], .arr .plain [.num (.jnum [0x31, 0x2E, 0x30]), .null, .obj [([0x62], .bool true)]]),
        ([0x63], .str [0x78]),
        ([0x6E], .num (.jnum [0x2D, 0x31, 0x32, 0x33, 0x34, 0x35, 0x36, 0x37, 0x38, 0x39, 0x30, 0x31, 0x32, 0x33, 0x34,
          0x35, 0x36, 0x37, 0x38, 0x39, 0x30, 0x31, 0x32, 0x33, 0x34, 0x35, 0x36, 0x37, 0x38, 0x39, 0x30, 0x2E, 0x35,
          0x65, 0x2D, 0x37, 0x30, 0x30, 0x30]))]

/-- the example value is one JSON can denote -/
theorem exVal_plain : Plain exVal := by
  simp only [exVal, Plain, PlainL, PlainF]
  decide

example (d : Val) : search (jsonLit ([0x0A] ++ render [0x20] exVal ++ [0x09])) d = .ok exVal :=
  json_value_roundtrip [0x20] [0x0A] [0x09] (by unfold Ws; decide) (by unfold Ws; decide) (by unfold Ws; decide) exVal d exVal_plain (by decide)

example : render [] (.arr .plain [.null, .obj [([0x61], .bool true)]])
    = [0x5B, 0x6E, 0x75, 0x6C, 0x6C, 0x2C, 0x7B, 0x22, 0x61, 0x22, 0x3A, 0x74, 0x72, 0x75, 0x65, 0x7D, 0x5D] := by
  simp [render, renderL, renderT, renderF, renderU, jsonText, escQ, qEscByte]

/-! ### every JSON text between backticks -/

/-- **C16 (JSON literal, any JSON text)**: let `t` be any JSON text in the sense of RFC 8259 (`JsonText`: any white
    space, any escapes, any nesting) that is valid UTF-8.  Then `t` has the shape the lexer needs (`JBody`: no
    backslash stands before a backtick or at the end), so that writing `t` between backticks with `btEscape` applied
    (every backtick gets a backslash) is one `jsonLiteral` token, which un-escapes to `t` again and evaluates to
    whatever Go's decoder makes of `t`.  (The length bound is a crude way of staying below Go's nesting limit of
    10000; `json_value_roundtrip` has the exact bound.) -/
theorem json_text_literal {t : Bytes} (h : JsonText t) (hu : validUTF8 t = true) (hlen : t.length ≤ Json.maxDepth)
    (d : Val) : JBody t ∧ ∃ v, Json.decode t = some v ∧ search (jsonLit t) d = .ok v := by
  have hb := jbody_jsonText h hu
  have hs := JsonGrammar.decode_complete h hlen
  cases hdec : Json.decode t with
  | none => rw [hdec] at hs; cases hs
  | some v => exact ⟨hb, v, rfl, json_literal_roundtrip t v d hb hdec⟩

/-- the lexer-level half on its own: the escaped text is exactly one token -/
theorem lex_json_text {t : Bytes} (h : JsonText t) (hu : validUTF8 t = true) :
    lexAll (jsonLit t) = ([⟨.jsonLiteral, jsonLit t⟩, ⟨.end, []⟩], none) :=
  lex_jsonLit t (jbody_jsonText h hu)

/-- ` {"a`":"\u0060\\`\n"} ` (a backtick in a key, an escaped backtick, an escaped backslash before a backtick) -/
example : ∃ v, search (jsonLit [0x20, 0x7B, 0x22, 0x61, 0x60, 0x22, 0x3A, 0x22, 0x5C, 0x75, 0x30, 0x30, 0x36, 0x30,
    0x5C, 0x5C, 0x60, 0x5C, 0x6E, 0x22, 0x7D, 0x20]) .null = .ok v :=
  let ⟨v, _, h⟩ := (json_text_literal (JsonGrammar.decode_sound (v := .obj [([0x61, 0x60], .str [0x60, 0x5C, 0x60, 0x0A])])
    (by rfl)) (by decide) (by decide) .null).2
  ⟨v, h⟩

/-! ### the literal is Go's decoder, whatever the size; the nesting limit -/

section Decoder
open Jmes.Parser

/-- a JSON-literal token that does not decode makes `primaryExpression` fail -/
theorem prim_json_invalid (f : Nat) (v : Bytes) (h : parseJSONLiteral v = none) :
    (primaryExpression (f+1)).run ⟨⟨.jsonLiteral, v⟩, ⟨.end, []⟩, [], none⟩
    = .error .invalidJSONLiteral := by
  rw [primaryExpression]
  simp only [bind, StateT.bind, get, getThe, MonadStateOf.get, StateT.get, pure, Except.pure, StateT.run,
    Except.bind, h]
  rfl

/-- an expression consisting of one JSON-literal token that does not decode is a syntax error -/
theorem search_json_invalid (e v : Bytes) (d : Val)
    (hl : lexAll e = ([⟨.jsonLiteral, v⟩, ⟨.end, []⟩], none)) (h : parseJSONLiteral v = none) :
    search e d = .err [.syntax] := by
  unfold search Parser.parse
  rw [hl]
  simp only [List.length_cons, List.length_nil, fuelFor]
  have : (do
        let node ← expression (46 + 2) 1
        if (← currType) != .end then fail .unexpectedToken
        return node : PM INode).run ⟨⟨.jsonLiteral, v⟩, ⟨.end, []⟩, [], none⟩ = .error .invalidJSONLiteral := by
    rw [StateT.run_bind, expression]
    show ((primaryExpression (46+1) >>= fun node => exprLoop (46+1) node 1).run _ >>= _) = _
    rw [StateT.run_bind, prim_json_invalid 46 v h]
    rfl
  simp only [] at this
  rw [this]
  rfl

/-- `parseJSONLiteral` on an escaped text is Go's decoder on the text (an empty text is rejected by both) -/
theorem parseJSONLiteral_jsonLit_eq (t : Bytes) : parseJSONLiteral (jsonLit t) = Json.decode t := by
  unfold parseJSONLiteral
  rw [jsonLit, stripDelims_wrap, unescapeBackticks_btEscape]
  cases t with
  | nil => rfl
  | cons b t => simp

/-- **C16 (JSON literal = Go's decoder, no size bound)**: for every text `t` of the shape `JBody` — in particular
    (`jbody_jsonText`) every JSON text that is valid UTF-8 — the expression `` `t` `` (backticks escaped) evaluates to
    what Go's decoder makes of `t`, and is a syntax error when the decoder rejects `t` -/
theorem json_literal_search (t : Bytes) (hb : JBody t) (d : Val) :
    search (jsonLit t) d = (match Json.decode t with | some v => .ok v | none => .err [.syntax]) := by
  cases hdec : Json.decode t with
  | some v => exact json_literal_roundtrip t v d hb hdec
  | none => exact search_json_invalid _ _ d (lex_jsonLit t hb) (by rw [parseJSONLiteral_jsonLit_eq, hdec])

/-- `` `[1,]` `` is a syntax error -/
example : search (jsonLit [0x5B, 0x31, 0x2C, 0x5D]) .null = .err [.syntax] :=
  (json_literal_search _ (JBody.ascii _ (by decide)) .null).trans (by rfl)

/-! ### the nesting limit is real -/

open Json in
/-- more than 10000 open brackets: Go's decoder gives up ("exceeded max depth"), whatever the fuel -/
theorem parseValue_too_deep : ∀ (n : Nat), 1 ≤ n → ∀ (f d : Nat) (rest : Bytes), maxDepth < d + n →
    parseValue f d (List.replicate n 0x5B ++ rest) = none
  | 0, h, _, _, _, _ => by omega
  | n + 1, _, f, d, rest, hd => by
    match f with
    | 0 => simp [parseValue]
    | f + 1 =>
      rw [List.replicate_succ, List.cons_append, JsonGrammar.parseValue_arr]
      by_cases hd' : d + 1 > maxDepth
      · rw [if_pos hd']
      · rw [if_neg hd']
        match n, hd with
        | 0, hd => omega
        | n + 1, hd =>
          have ih := parseValue_too_deep (n + 1) (by omega) (f - 1) (d + 1) rest (by omega)
          have hsk : skipWs (List.replicate (n + 1) 0x5B ++ rest) = 0x5B :: (List.replicate n 0x5B ++ rest) := by
            rw [List.replicate_succ, List.cons_append]; exact JsonGrammar.skipWs_cons _ (by decide)
          rw [hsk]
          simp only []
          match f with
          | 0 => simp [parseElems]
          | f + 1 =>
            rw [parseElems]
            simp only [Nat.add_sub_cancel] at ih
            rw [ih]
            rfl

/-- `n` opening and `n` closing brackets: the empty array nested `n - 1` deep -/
def deepText (n : Nat) : Bytes := List.replicate n 0x5B ++ List.replicate n 0x5D

/-- **Counterexample to "every JSON value written between backticks evaluates to that value"**: the array nested
    more than 10000 deep is a JSON value, but its literal is a syntax error — Go's `encoding/json` refuses more than
    10000 open containers.  (The Go code does the same on 10001 brackets: `invalid expression`; 10000 are accepted.)
    So the bound `dp v ≤ 10000` of `json_value_roundtrip` cannot be dropped. -/
theorem json_depth_limit (n : Nat) (hn : Json.maxDepth < n) (d : Val) :
    search (jsonLit (deepText n)) d = .err [.syntax] := by
  have hb : JBody (deepText n) := JBody.ascii _ (by
    intro b hb
    simp only [deepText, List.mem_append, List.mem_replicate] at hb
    rcases hb with ⟨_, rfl⟩ | ⟨_, rfl⟩ <;> omega)
  rw [json_literal_search _ hb d]
  have : Json.decode (deepText n) = none := by
    unfold Json.decode
    rw [deepText, parseValue_too_deep n (by omega) _ 0 _ (by omega)]
  rw [this]

example (d : Val) : search (jsonLit (deepText 10001)) d = .err [.syntax] :=
  json_depth_limit 10001 (by decide) d

/-- the empty array inside `n` further arrays -/
def nest : Nat → Val
  | 0 => .arr .plain []
  | n + 1 => .arr .plain [nest n]

/-- `nest n` is a plain JSON value of depth `n + 1` -/
theorem nest_plain : ∀ n, Plain (nest n) ∧ dp (nest n) = n + 1
  | 0 => by simp [nest, Plain, PlainL, dp, dpL]
  | n + 1 => by
    have ih := nest_plain n
    simp [nest, Plain, PlainL, dp, dpL, ih.1, ih.2]; omega

/-- its text without white space is `n + 1` opening and `n + 1` closing brackets -/
theorem render_nest : ∀ n, render [] (nest n) = deepText (n + 1)
  | 0 => by simp [nest, render, renderL, deepText]
  | n + 1 => by
    have ih := render_nest n
    simp only [nest, render, renderL, renderT, List.nil_append, ih, deepText]
    rw [List.replicate_succ (n := n + 1), List.replicate_succ' (n := n + 1)]
    simp

/-- … and up to the limit everything is fine: 10000 brackets evaluate to the array nested 10000 deep -/
theorem json_depth_ok (n : Nat) (hn : n + 1 ≤ Json.maxDepth) (d : Val) :
    search (jsonLit (deepText (n + 1))) d = .ok (nest n) := by
  have := json_value_roundtrip [] [] [] (by intro b hb; cases hb) (by intro b hb; cases hb) (by intro b hb; cases hb)
    (nest n) d (nest_plain n).1 (by rw [(nest_plain n).2]; exact hn)
  simpa [render_nest] using this

example (d : Val) : search (jsonLit (deepText 10000)) d = .ok (nest 9999) := json_depth_ok 9999 (by decide) d

end Decoder

section InContext
open Jmes.Grammar

/-! ## 3. literals inside larger expressions -/

/-- the lexer-proof shape `Body` plus the closing delimiter is the specification shape `DelimBody` -/
theorem delimBody_of_body {d : Nat} {w : Bytes} (h : Body d w) : DelimBody d (w ++ [d]) := by
  induction h with
  | nil => exact DelimBody.close
  | plain c w h1 h2 h3 _ ih => rw [List.append_assoc]; exact DelimBody.plain c _ h1 h2 h3 ih
  | esc c w h1 _ ih =>
    rw [List.cons_append, List.append_assoc]; exact DelimBody.esc c _ h1 ih

/-- the key token `"w"` -/
def qTok (w : Bytes) : Token := ⟨.quotedIdentifier, [0x22] ++ w ++ [0x22]⟩
/-- the raw string token `'…'` for the string `s` -/
def rTok (s : Bytes) : Token := ⟨.stringLiteral, rawLiteral s⟩
/-- the JSON literal token for the JSON text `t` -/
def jTok (t : Bytes) : Token := ⟨.jsonLiteral, jsonLit t⟩

/-- `"w"` has the shape of a quoted-identifier token -/
theorem qTok_shape {s w : Bytes} (h : QEsc s w) : TokShape (qTok w).type (qTok w).value :=
  ⟨w ++ [0x22], by simp [qTok], delimBody_of_body (body_qesc h)⟩

/-- `'…'` has the shape of a raw-string token -/
theorem rTok_shape {s : Bytes} (h : validUTF8 s = true) : TokShape (rTok s).type (rTok s).value :=
  ⟨escRaw s ++ [0x27], by simp [rTok, rawLiteral], delimBody_of_body (body_raw_valid s h)⟩

/-- `` `…` `` has the shape of a JSON-literal token -/
theorem jTok_shape {t : Bytes} (h : JBody t) : TokShape (jTok t).type (jTok t).value :=
  ⟨btEscape t ++ [0x60], by simp [jTok, jsonLit], delimBody_of_body (body_btEscape h)⟩

/-- `{ "w" : e }` -/
theorem hash_key_parse {s w : Bytes} (h : QEsc s w) (e : PTree) (he : WellPrec e)
    (hts : ∀ t ∈ Grammar.flatten e, TokShape t.type t.value) :
    Parser.parse (spaced (([tLBrace, qTok w, tColon] ++ Grammar.flatten e ++ [tRBrace]).map (·.value)))
      = .ok (.selectObjectSingleCurrent s (erase e)) := by
  have hk : parseQuotedIdentifier (qTok w).value = some s := parseQuotedIdentifier_qesc h
  have hw : WellPrec (.multiHash [(qTok w, e)]) := by
    have he' : wp false e = true := he
    simp [WellPrec, wp, wpKVs, keyOK, qTok, he']
    exact (by simpa [qTok] using congrArg Option.isSome hk)
  have hl := Lex.lexAll_spaced ([tLBrace, qTok w, tColon] ++ Grammar.flatten e ++ [tRBrace]) (by
    intro t ht
    simp only [List.mem_append, List.mem_cons, List.not_mem_nil, or_false] at ht
    rcases ht with ((rfl | rfl | rfl) | ht) | rfl
    · rfl
    · exact qTok_shape h
    · rfl
    · exact hts t ht
    · rfl)
  have := C04G.parse_complete hw (e := spaced (([tLBrace, qTok w, tColon] ++ Grammar.flatten e ++ [tRBrace]).map (·.value)))
    (by rw [hl]; simp [Grammar.flatten, flat, flatKVs]; rfl)
  rw [this]
  have hk' : parseQuotedIdentifier (0x22 :: (w ++ [0x22])) = some s := hk
  simp [erase, eraseKVs, hashNode, keyOf, qTok, hk']
/-- **C16 (quoted key inside a multi-select hash)**: in `{ "w" : e }` the key — escaped in any of the `QEsc` ways —
    names the member `s` of the result, for every well-formed expression `e` -/
theorem hash_key_search {s w : Bytes} (h : QEsc s w) (e : PTree) (he : WellPrec e)
    (hts : ∀ t ∈ Grammar.flatten e, TokShape t.type t.value) (d : Val) :
    search (spaced (([tLBrace, qTok w, tColon] ++ Grammar.flatten e ++ [tRBrace]).map (·.value))) d
      = (evaluate (erase e) d >>= fun v => .ok (.obj [(s, v)])) := by
  unfold search
  rw [hash_key_parse h e he hts]
  simp only [evaluate, ieval]
  rfl

/-- the token `@` -/
def tAt : Token := ⟨.current, [0x40]⟩

/-- `{ "w" : @ }` is the object whose only member is named `s` and holds the document -/
theorem hash_key_current {s w : Bytes} (h : QEsc s w) (d : Val) :
    search ([0x7B, 0x20] ++ ([0x22] ++ w ++ [0x22]) ++ [0x20, 0x3A, 0x20, 0x40, 0x20, 0x7D]) d = .ok (.obj [(s, d)]) := by
  have := hash_key_search h (.atom tAt) (by decide) (by
    intro t ht; simp [Grammar.flatten, flat] at ht; subst ht; rfl) d
  simp only [Grammar.flatten, flat, spaced, tLBrace, tRBrace, tColon, qTok, tAt, erase, atomNode, evaluate, ieval,
    List.map, List.cons_append, List.nil_append, List.append_assoc, Option.getD] at this ⊢
  rw [this]; rfl

/-- `{ "\u0041\n" : @ }` -/
example (d : Val) : search [0x7B, 0x20, 0x22, 0x5C, 0x75, 0x30, 0x30, 0x34, 0x31, 0x5C, 0x6E, 0x22, 0x20, 0x3A, 0x20,
    0x40, 0x20, 0x7D] d = .ok (.obj [([0x41, 0x0A], d)]) :=
  hash_key_current (QEsc.uni 0x30 0x30 0x34 0x31 0x41 (by decide) (by decide)
    (QEsc.short 0x6E 0x0A (by decide) QEsc.nil)) d

/-- **C16 (quoted identifier after a dot)**: `a . "w"` selects the member `s` of the member `a`; `a` is any
    unquoted identifier, the key is escaped in any of the `QEsc` ways -/
theorem dot_key_search {s w a : Bytes} (h : QEsc s w) (ha : TokShape .unquotedIdentifier a) (d : Val) :
    search (a ++ [0x20, 0x2E, 0x20] ++ ([0x22] ++ w ++ [0x22])) d = .ok (field s (field a d)) := by
  have hk : parseQuotedIdentifier (0x22 :: (w ++ [0x22])) = some s := parseQuotedIdentifier_qesc h
  have hw : WellPrec (.dotId (.atom ⟨.unquotedIdentifier, a⟩) (.atom (qTok w))) := by
    simp [WellPrec, wp, atomNode, qTok, hk, startsWithIdent, flat, llevel, rlevel, PTree.isIcur, lvlDot, top]
  have hl := Lex.lexAll_spaced [⟨.unquotedIdentifier, a⟩, tDot, qTok w] (by
    intro t ht
    simp only [List.mem_cons, List.not_mem_nil, or_false] at ht
    rcases ht with rfl | rfl | rfl
    · exact ha
    · rfl
    · exact qTok_shape h)
  have hp := C04G.parse_complete hw (e := spaced ([⟨.unquotedIdentifier, a⟩, tDot, qTok w].map (·.value)))
    (by rw [hl]; rfl)
  have e1 : a ++ [0x20, 0x2E, 0x20] ++ ([0x22] ++ w ++ [0x22])
      = spaced ([⟨.unquotedIdentifier, a⟩, tDot, qTok w].map (·.value)) := by
    simp [spaced, tDot, qTok]
  unfold search
  rw [e1, hp]
  simp [erase, atomNode, qTok, hk, subNode, optNode, PTree.isIcur, evaluate, ieval]
  rfl

/-- `foo . "\uD83D\uDE00"` on `{"foo": {"😀": true}}` -/
example : search ([0x66, 0x6F, 0x6F] ++ [0x20, 0x2E, 0x20] ++
      ([0x22] ++ [0x5C, 0x75, 0x44, 0x38, 0x33, 0x44, 0x5C, 0x75, 0x44, 0x45, 0x30, 0x30] ++ [0x22]))
    (.obj [([0x66, 0x6F, 0x6F], .obj [([0xF0, 0x9F, 0x98, 0x80], .bool true)])]) = .ok (.bool true) :=
  dot_key_search (QEsc.pair 0x44 0x38 0x33 0x44 0x44 0x45 0x30 0x30 0xD83D 0xDE00 (by decide) (by decide) (by decide)
    (by decide) (by decide) (by decide) QEsc.nil) ⟨⟨0x66, [0x6F, 0x6F], rfl, by decide, by decide⟩, by decide, by decide⟩ _

/-- the name `not_null` -/
def nnTok : Token := ⟨.unquotedIdentifier, [0x6E, 0x6F, 0x74, 0x5F, 0x6E, 0x75, 0x6C, 0x6C]⟩

/-- `not_null` is an identifier -/
theorem nnTok_shape : TokShape nnTok.type nnTok.value :=
  ⟨⟨0x6E, [0x6F, 0x74, 0x5F, 0x6E, 0x75, 0x6C, 0x6C], rfl, by decide, by decide⟩, by decide, by decide⟩

/-- a literal token as the only argument of `not_null`: the call evaluates to the literal's value -/
theorem arg_literal_search (t : Token) (v : Val) (hs : TokShape t.type t.value) (ha : atomNode t = some (.lit v))
    (d : Val) : search (nnTok.value ++ [0x20, 0x28, 0x20] ++ t.value ++ [0x20, 0x29]) d = .ok v := by
  have hb : Parser.lookupBuiltin nnTok.value = some (.varArg .notNull) := by rfl
  have hw : WellPrec (.call nnTok [.atom t]) := by
    have hb' : Parser.lookupBuiltin [0x6E, 0x6F, 0x74, 0x5F, 0x6E, 0x75, 0x6C, 0x6C] = some (.varArg .notNull) := hb
    simp [WellPrec, wp, nnTok, wpArgs, ha, hb', argsOK, PTree.isRef]
  have hl := Lex.lexAll_spaced [nnTok, tLParen, t, tRParen] (by
    intro x hx
    simp only [List.mem_cons, List.not_mem_nil, or_false] at hx
    rcases hx with rfl | rfl | rfl | rfl
    · exact nnTok_shape
    · rfl
    · exact hs
    · rfl)
  have hp := C04G.parse_complete hw (e := spaced ([nnTok, tLParen, t, tRParen].map (·.value))) (by rw [hl]; rfl)
  have e1 : nnTok.value ++ [0x20, 0x28, 0x20] ++ t.value ++ [0x20, 0x29]
      = spaced ([nnTok, tLParen, t, tRParen].map (·.value)) := by
    simp [spaced, tLParen, tRParen]
  unfold search
  rw [e1, hp]
  simp only [erase, hb, eraseL, callNode, ha, Option.getD, evaluate, ieval, ievalNotNull]
  cases v <;> rfl

/-- **C16 (raw string as a function argument)**: `not_null ( '…' )` is the string `s` -/
theorem arg_raw_search (s : Bytes) (h : validUTF8 s = true) (d : Val) :
    search (nnTok.value ++ [0x20, 0x28, 0x20] ++ rawLiteral s ++ [0x20, 0x29]) d = .ok (.str s) := by
  have := arg_literal_search (rTok s) (.str s) (rTok_shape h)
    (by simp [atomNode, rTok, parseStringLiteral_escRaw]) d
  exact this

/-- **C16 (JSON literal as a function argument)**: `` not_null ( `t` ) `` is the value Go's decoder makes of `t` -/
theorem arg_json_search (t : Bytes) (v : Val) (hb : JBody t) (hd : Json.decode t = some v) (d : Val) :
    search (nnTok.value ++ [0x20, 0x28, 0x20] ++ jsonLit t ++ [0x20, 0x29]) d = .ok v := by
  have := arg_literal_search (jTok t) v (jTok_shape hb)
    (by simp [atomNode, jTok, parseJSONLiteral_jsonLit t v hd]) d
  exact this

/-- `not_null ( 'a\'b' )`, `` not_null ( `[1.0,"\`"]` ) `` -/
example : search (nnTok.value ++ [0x20, 0x28, 0x20] ++ rawLiteral [0x61, 0x27, 0x62] ++ [0x20, 0x29]) .null
    = .ok (.str [0x61, 0x27, 0x62]) := arg_raw_search _ (by decide) _
example : search (nnTok.value ++ [0x20, 0x28, 0x20] ++ jsonLit [0x5B, 0x31, 0x2E, 0x30, 0x2C, 0x22, 0x60, 0x22, 0x5D] ++
    [0x20, 0x29]) .null = .ok (.arr .plain [.num (.jnum [0x31, 0x2E, 0x30]), .str [0x60]]) :=
  arg_json_search _ _ (JBody.ascii _ (by decide)) (by rfl) _

/-- **all three literal syntaxes in one expression**: `[ '…' , `…` , "…" ]` -/
theorem list_literals_search {s1 t s w : Bytes} {v : Val} (h1 : validUTF8 s1 = true) (hb : JBody t)
    (hd : Json.decode t = some v) (h : QEsc s w) (d : Val) (hn : d.isNull = false) :
    search ([0x5B, 0x20] ++ rawLiteral s1 ++ [0x20, 0x2C, 0x20] ++ jsonLit t ++ [0x20, 0x2C, 0x20] ++
        ([0x22] ++ w ++ [0x22]) ++ [0x20, 0x5D]) d
      = .ok (.arr .plain [.str s1, v, field s d]) := by
  have hk : parseQuotedIdentifier (0x22 :: (w ++ [0x22])) = some s := parseQuotedIdentifier_qesc h
  have hj := parseJSONLiteral_jsonLit t v hd
  have hw : WellPrec (.multiList [.atom (rTok s1), .atom (jTok t), .atom (qTok w)]) := by
    simp [WellPrec, wp, wpL, atomNode, rTok, jTok, qTok, hk, hj]
  have hl := Lex.lexAll_spaced [tLBracket, rTok s1, tComma, jTok t, tComma, qTok w, tRBracket] (by
    intro x hx
    simp only [List.mem_cons, List.not_mem_nil, or_false] at hx
    rcases hx with rfl | rfl | rfl | rfl | rfl | rfl | rfl
    · rfl
    · exact rTok_shape h1
    · rfl
    · exact jTok_shape hb
    · rfl
    · exact qTok_shape h
    · rfl)
  have hp := C04G.parse_complete hw
    (e := spaced ([tLBracket, rTok s1, tComma, jTok t, tComma, qTok w, tRBracket].map (·.value))) (by rw [hl]; rfl)
  have e1 : [0x5B, 0x20] ++ rawLiteral s1 ++ [0x20, 0x2C, 0x20] ++ jsonLit t ++ [0x20, 0x2C, 0x20] ++
        ([0x22] ++ w ++ [0x22]) ++ [0x20, 0x5D]
      = spaced ([tLBracket, rTok s1, tComma, jTok t, tComma, qTok w, tRBracket].map (·.value)) := by
    simp [spaced, tLBracket, tRBracket, tComma, rTok, jTok, qTok]
  unfold search
  rw [e1, hp]
  simp [erase, eraseL, listNode, atomNode, rTok, jTok, qTok, hk, hj, parseStringLiteral_escRaw, evaluate, ieval,
    ievalList, hn]
  rfl

end InContext

/-! ## 4. raw strings: a backslash before any other character is kept -/

/-- un-escaping an escaped prefix gives the prefix back and goes on with the rest -/
theorem unescRaw_escRaw_append (a r : Bytes) : unescRaw (escRaw a ++ r) = a ++ unescRaw r := by
  induction a with
  | nil => simp [escRaw]
  | cons b t ih =>
    rw [escRaw_cons]
    unfold rawEscByte
    by_cases h1 : b = 0x27
    · subst h1; simp only [if_true, List.cons_append, List.nil_append, unescRaw_pair, ih]; simp [rawEsc]
    · by_cases h2 : b = 0x5C
      · subst h2; simp only [h1, if_false, if_true, List.cons_append, List.nil_append, unescRaw_pair, ih]
        simp [rawEsc]
      · simp only [h1, h2, if_false, List.cons_append, List.nil_append, unescRaw_plain b h2, ih]

/-- bytes other than the backslash are copied -/
theorem unescRaw_high : ∀ (l r : Bytes), (∀ b ∈ l, b ≠ 0x5C) → unescRaw (l ++ r) = l ++ unescRaw r
  | [], _, _ => rfl
  | b :: l, r, h => by
    rw [List.cons_append, unescRaw_plain b (h b (by simp)), unescRaw_high l r (fun x hx => h x (by simp [hx]))]
    rfl

/-- un-escaping `\X`, `X` any rune other than `'` and `\`, multi-byte runes included: both are kept -/
theorem unescRaw_kept (c : Nat) (h1 : c ≠ 0x27) (h2 : c ≠ 0x5C) (r : Bytes) :
    unescRaw (0x5C :: (encodeRune c ++ r)) = 0x5C :: (encodeRune c ++ unescRaw r) := by
  by_cases hc : c < 0x80
  · rw [encodeRune_ascii c hc]
    simp [unescRaw_pair, rawEsc, h1, h2]
  · obtain ⟨x, y, hxy⟩ := List.exists_cons_of_ne_nil (encodeRune_ne_nil c)
    have hge := encodeRune_bytes_ge c (by omega)
    rw [hxy] at hge ⊢
    have hx := hge x (by simp)
    rw [List.cons_append, unescRaw_pair, unescRaw_high y r (fun b hb => by have := hge b (by simp [hb]); omega)]
    have e : rawEsc x = [0x5C, x] := by
      simp [rawEsc, show x ≠ 0x27 by omega, show x ≠ 0x5C by omega]
    rw [e]; rfl

/-- **C16 (escapes the grammar leaves untouched, every rune, any surroundings)**: in a raw string, `\X` — for every
    rune `X` other than `'` and `\`, ASCII or multi-byte — stands for the two characters `\` `X`, wherever it occurs:
    `'a\Xb'` (with `a`, `b` arbitrary strings escaped as the grammar prescribes) evaluates to `a\Xb` -/
theorem raw_backslash_kept (a b : Bytes) (c : Nat) (ha : validUTF8 a = true) (hb : validUTF8 b = true)
    (hc : isScalar c = true) (h1 : c ≠ 0x27) (h2 : c ≠ 0x5C) (d : Val) :
    search ([0x27] ++ (escRaw a ++ 0x5C :: (encodeRune c ++ escRaw b)) ++ [0x27]) d
      = .ok (.str (a ++ 0x5C :: (encodeRune c ++ b))) := by
  have hbody : Body 0x27 (escRaw a ++ 0x5C :: (encodeRune c ++ escRaw b)) :=
    Body.append (body_raw_valid a ha) (Body.esc c _ hc (body_raw_valid b hb))
  have hl : lexAll ([0x27] ++ (escRaw a ++ 0x5C :: (encodeRune c ++ escRaw b)) ++ [0x27])
      = ([⟨.stringLiteral, [0x27] ++ (escRaw a ++ 0x5C :: (encodeRune c ++ escRaw b)) ++ [0x27]⟩, ⟨.end, []⟩], none) :=
    lexAll_single 0x27 _ (by omega) (by decide) _ (lexToken_raw hbody)
  rw [search_single _ _ _ d hl (fun f => prim_string f _), parseStringLiteral_unesc, stripDelims_wrap,
    unescRaw_escRaw_append, unescRaw_kept c h1 h2, unescRaw_escRaw]
  rfl

/-- `'\é'` is the two characters `\` `é`; `'it\'s \😀 \\'` is `it's \😀 \` -/
example : search [0x27, 0x5C, 0xC3, 0xA9, 0x27] .null = .ok (.str [0x5C, 0xC3, 0xA9]) :=
  raw_backslash_kept [] [] 0xE9 (by decide) (by decide) (by decide) (by decide) (by decide) .null
example : search ([0x27] ++ (escRaw [0x69, 0x74, 0x27, 0x73, 0x20] ++ 0x5C :: (encodeRune 0x1F600 ++ escRaw [0x20, 0x5C])) ++
    [0x27]) .null = .ok (.str ([0x69, 0x74, 0x27, 0x73, 0x20] ++ 0x5C :: (encodeRune 0x1F600 ++ [0x20, 0x5C]))) :=
  raw_backslash_kept _ _ 0x1F600 (by decide) (by decide) (by decide) (by decide) (by decide) .null

/-- the two escapes the grammar does define are NOT kept verbatim: `'\''` is `'`, `'\\'` is `\` -/
example : search [0x27, 0x5C, 0x27, 0x27] .null = .ok (.str [0x27]) := raw_roundtrip [0x27] .null (by decide)
example : search [0x27, 0x5C, 0x5C, 0x27] .null = .ok (.str [0x5C]) := raw_roundtrip [0x5C] .null (by decide)

end Jmes.C16B
