/-
  C12, second part — the gaps an independent review found in `Properties/C12.lean`:

  * G1  string slices against the Python reference walk `Spec.pyWalk` (`slice_string_spec`, `sliceStep_string_spec`,
        and the `getElem` versions in which no default value occurs);
  * G2  "a slice of an array starts a projection; a slice of a string yields a string" at the evaluator
        (`slice_of_string_no_projection`, `slice_of_array_projects`, the non-slice contrast, end-to-end forms);
  * G3  `compile` of the *text* of a slice for all optional 64-bit integers (`compile_sliceText`,
        `compile_sliceText_error_iff`, prefixed form `compile_field_sliceText`);
  * G4  step 0 never reaches the evaluator for a compiled expression (`compile_steps_nonzero`,
        `compile_slice_args_int64`), and the restated no-error theorems with `step ≠ 0`;
  * G5  arrays tagged `.enum`: `.nondet` exactly when the walk is non-empty and there are at least two elements.
-/
import Jmes.Properties.C11
import Jmes.Properties.C12
import Jmes.Proofs.C12BLemmas
import Jmes.Proofs.Refine
namespace Jmes.C12B
open Jmes Jmes.Spec Jmes.Utf8 Jmes.C12

/-! ## G1. String slices select the code points at the indices of the Python walk -/

/-- the code points of `cs` at the indices `is` (in that order); `RuneError` would stand for an index outside the
    string, which `pyWalk_in_range` excludes (see `atWalk_eq_getElem`) -/
def atWalk (cs : List Nat) (is : List Int) : List Nat := is.map (fun i => cs.getD i.toNat RuneError)

/-- `drop`/`take` read the positions `a, …, a+m-1` -/
theorem take_drop_getD (cs : List Nat) (a m : Nat) (h : a + m ≤ cs.length) :
    (cs.drop a).take m = (List.range m).map (fun k => cs.getD (a + k) RuneError) := by
  apply List.ext_getElem
  · simp only [List.length_take, List.length_drop, List.length_map, List.length_range]; omega
  · intro i h1 h2
    simp only [List.length_map, List.length_range] at h2
    simp only [List.getElem_take, List.getElem_drop, List.getElem_map, List.getElem_range]
    rw [List.getD_eq_getElem?_getD, List.getElem?_eq_getElem (by omega)]
    rfl

/-- the code points picked by `C11.subCodepoints` are those at the indices `walk1 (clamp1 …)` -/
theorem subCodepoints_eq_walk1 (cs : List Nat) (start stop : Int) :
    C11.subCodepoints cs start stop = atWalk cs (walk1 (clamp1 cs.length start stop)) := by
  have hn : (0 : Int) ≤ cs.length := by omega
  have hch := clamp1_char cs.length start stop hn
  have bA := pyAdjust_bounds cs.length 0 cs.length start hn
  have bB := pyAdjust_bounds cs.length 0 cs.length stop hn
  unfold C11.subCodepoints atWalk
  cases hc : clamp1 cs.length start stop with
  | none => rfl
  | some ab =>
    obtain ⟨a, b⟩ := ab
    rw [hc] at hch
    simp only at hch
    obtain ⟨ha, hb⟩ := hch
    simp only [walk1]
    by_cases hab : a ≥ b
    · have : (b - a).toNat = 0 := by omega
      simp only [this, List.take_zero, List.range_zero, List.map_nil]
    · rw [take_drop_getD cs a.toNat (b - a).toNat (by omega), List.map_map]
      apply List.map_congr_left
      intro k _
      simp only [Function.comp]
      congr 1
      omega

/-- the code points picked by `C11.stepCodepoints` are those at the indices `walkStep step (clampStep …)` -/
theorem stepCodepoints_eq_walkStep (cs : List Nat) (start stop step : Int) :
    C11.stepCodepoints cs start stop step = atWalk cs (walkStep step (clampStep cs.length start stop step)) := by
  unfold C11.stepCodepoints atWalk
  cases clampStep cs.length start stop step with
  | none => rfl
  | some ab =>
    obtain ⟨a, cnt⟩ := ab
    simp only [walkStep, List.map_map]
    rfl

/--
  `slice_string_spec` (G1, step 1): on the string whose code points are `cs` (any list of Unicode scalar values, so any
  mixture of 1–4-byte encodings), for all optional bounds handed over in the parser's step-1 encoding, `slice` returns
  the string made of exactly the code points at the indices of the Python walk, in walk order.
-/
theorem slice_string_spec (cs : List Nat) (h : Scalars cs) (s? e? : Option Int) (hM : (cs.length : Int) ≤ MaxInt) :
    slice (.str (encodeAll cs)) (encStart 1 s?) (encStop 1 e?)
      = .ok (.str (encodeAll (atWalk cs (pyWalk cs.length s? e? 1)))) := by
  rw [C11.slice_string_codepoints cs h, subCodepoints_eq_walk1, clamp1_spec _ s? e? (by omega) hM]

/-- explicit bounds, any integers: no sentinel is involved, so no bound on the length is needed -/
theorem slice_string_spec_explicit (cs : List Nat) (h : Scalars cs) (start stop : Int) :
    slice (.str (encodeAll cs)) start stop
      = .ok (.str (encodeAll (atWalk cs (pyWalk cs.length (some start) (some stop) 1)))) := by
  rw [C11.slice_string_codepoints cs h, subCodepoints_eq_walk1, clamp1_spec_explicit _ start stop (by omega)]

/--
  `sliceStep_string_spec` (G1): the same for `sliceStep` and every non-zero 64-bit step (`MinInt` included), bounds in
  the parser's encoding for that step: the result is the string of the code points at the indices of the Python walk.
-/
theorem sliceStep_string_spec (cs : List Nat) (h : Scalars cs) (s? e? : Option Int) (step : Int) (h0 : step ≠ 0)
    (hmin : MinInt ≤ step) (hM : (cs.length : Int) ≤ MaxInt) :
    sliceStep (.str (encodeAll cs)) (encStart step s?) (encStop step e?) step
      = .ok (.str (encodeAll (atWalk cs (pyWalk cs.length s? e? step)))) := by
  have hmin' : -2 ^ 63 ≤ step := by simpa only [MinInt] using hmin
  have hlen : cs.length < 2 ^ 63 := by
    have : (cs.length : Int) < 2 ^ 63 := by simp only [MaxInt] at hM; omega
    exact_mod_cast this
  rw [C11.sliceStep_string_codepoints cs h _ _ step h0 hmin' hlen, stepCodepoints_eq_walkStep,
    clampStep_spec _ s? e? step (by omega) hM h0 hmin]

/-- the statement exactly as the review asked for it (with the `getD` spelled out) -/
theorem sliceStep_string_spec' (cs : List Nat) (h : Scalars cs) (s? e? : Option Int) (step : Int) (h0 : step ≠ 0)
    (hmin : MinInt ≤ step) (hM : (cs.length : Int) ≤ MaxInt) :
    sliceStep (.str (encodeAll cs)) (encStart step s?) (encStop step e?) step
      = .ok (.str (encodeAll ((pyWalk cs.length s? e? step).map (fun i => cs.getD i.toNat RuneError)))) :=
  sliceStep_string_spec cs h s? e? step h0 hmin hM

/-- the code points of `cs` at the indices `is`, all of which are proved to be positions of `cs`: no default value -/
def atWalkIn (cs : List Nat) : (is : List Int) → (∀ i ∈ is, 0 ≤ i ∧ i < cs.length) → List Nat
  | [], _ => []
  | i :: is, h =>
    cs[i.toNat]'(by have := h i (List.mem_cons_self ..); omega) ::
      atWalkIn cs is (fun j hj => h j (List.mem_cons_of_mem _ hj))

/-- when every index is a position of the string the `getD` default of `atWalk` is never used -/
theorem atWalk_eq_getElem (cs : List Nat) : ∀ (is : List Int) (hin : ∀ i ∈ is, 0 ≤ i ∧ i < cs.length),
    atWalk cs is = atWalkIn cs is hin
  | [], _ => rfl
  | i :: is, hin => by
    have hi := hin i (List.mem_cons_self ..)
    have ih := atWalk_eq_getElem cs is (fun j hj => hin j (List.mem_cons_of_mem _ hj))
    unfold atWalk at ih ⊢
    rw [List.map_cons, ih, atWalkIn, List.getD_eq_getElem?_getD, List.getElem?_eq_getElem (by omega)]
    rfl

/-- every code point a string slice returns is a code point *of the string* (at a walk index): nothing is invented -/
theorem atWalk_pyWalk_mem (cs : List Nat) (s? e? : Option Int) (step : Int) (h0 : step ≠ 0) :
    ∀ c ∈ atWalk cs (pyWalk cs.length s? e? step), c ∈ cs := by
  intro c hc
  obtain ⟨i, hi, rfl⟩ := List.mem_map.1 hc
  have := pyWalk_in_range cs.length s? e? step (by omega) h0 i hi
  rw [List.getD_eq_getElem?_getD, List.getElem?_eq_getElem (by omega)]
  exact List.getElem_mem _

/--
  `sliceStep_string_spec_getElem`: the version without any default value — the result is built from `cs[i]` for the
  indices `i` of the Python walk, each of which is a valid position (`pyWalk_in_range`).
-/
theorem sliceStep_string_spec_getElem (cs : List Nat) (h : Scalars cs) (s? e? : Option Int) (step : Int)
    (h0 : step ≠ 0) (hmin : MinInt ≤ step) (hM : (cs.length : Int) ≤ MaxInt) :
    sliceStep (.str (encodeAll cs)) (encStart step s?) (encStop step e?) step
      = .ok (.str (encodeAll (atWalkIn cs (pyWalk cs.length s? e? step)
          (pyWalk_in_range cs.length s? e? step (by omega) h0)))) := by
  rw [sliceStep_string_spec cs h s? e? step h0 hmin hM, atWalk_eq_getElem]

/-- the step-1 analogue of `sliceStep_string_spec_getElem`: the result is built from `cs[i]`, `i` ranging over the walk -/
theorem slice_string_spec_getElem (cs : List Nat) (h : Scalars cs) (s? e? : Option Int)
    (hM : (cs.length : Int) ≤ MaxInt) :
    slice (.str (encodeAll cs)) (encStart 1 s?) (encStop 1 e?)
      = .ok (.str (encodeAll (atWalkIn cs (pyWalk cs.length s? e? 1)
          (pyWalk_in_range cs.length s? e? 1 (by omega) (by decide))))) := by
  rw [slice_string_spec cs h s? e? hM, atWalk_eq_getElem]

/-- "héllo"[1:3] = "él": walk `[1, 2]` -/
example : slice (.str [0x68, 0xC3, 0xA9, 0x6C, 0x6C, 0x6F]) 1 3 = .ok (.str [0xC3, 0xA9, 0x6C]) :=
  slice_string_spec C11.hello C11.hello_scalars (some 1) (some 3) (by decide)
example : pyWalk 5 (some 1) (some 3) 1 = [1, 2] := by decide
/-- "héllo"[-4:] = "éllo": absent stop, negative start -/
example : slice (.str [0x68, 0xC3, 0xA9, 0x6C, 0x6C, 0x6F]) (-4) MaxInt = .ok (.str [0xC3, 0xA9, 0x6C, 0x6C, 0x6F]) :=
  slice_string_spec C11.hello C11.hello_scalars (some (-4)) none (by decide)
/-- "héllo"[::-1] = "olléh": both bounds absent, negative step -/
example : sliceStep (.str [0x68, 0xC3, 0xA9, 0x6C, 0x6C, 0x6F]) MaxInt MinInt (-1)
    = .ok (.str [0x6F, 0x6C, 0x6C, 0xC3, 0xA9, 0x68]) :=
  (sliceStep_string_spec C11.hello C11.hello_scalars none none (-1) (by decide) (by decide) (by decide) :)
example : pyWalk 5 none none (-1) = [4, 3, 2, 1, 0] := by decide
/-- "aé€😀"[::-2] = "😀é" (4-byte and 2-byte code points), "aé€😀"[:1:-1] = "😀€", "aé€😀"[-3::2] = "é😀" -/
example : sliceStep (.str (encodeAll C11.mixed)) MaxInt MinInt (-2) = .ok (.str (encodeAll [0x1F600, 0xE9])) :=
  (sliceStep_string_spec C11.mixed C11.mixed_scalars none none (-2) (by decide) (by decide) (by decide) :)
example : sliceStep (.str (encodeAll C11.mixed)) MaxInt 1 (-1) = .ok (.str (encodeAll [0x1F600, 0x20AC])) :=
  (sliceStep_string_spec C11.mixed C11.mixed_scalars none (some 1) (-1) (by decide) (by decide) (by decide) :)
example : sliceStep (.str (encodeAll C11.mixed)) (-3) MaxInt 2 = .ok (.str (encodeAll [0xE9, 0x1F600])) :=
  sliceStep_string_spec C11.mixed C11.mixed_scalars (some (-3)) none 2 (by decide) (by decide) (by decide)
example : encodeAll C11.mixed = [0x61, 0xC3, 0xA9, 0xE2, 0x82, 0xAC, 0xF0, 0x9F, 0x98, 0x80] := by decide
/-- the extreme step: "aé€😀"[::MinInt] = "😀" (Go's `step * -1` wraps there; the result is still Python's) -/
example : sliceStep (.str (encodeAll C11.mixed)) MaxInt MinInt MinInt = .ok (.str (encodeAll [0x1F600])) :=
  (sliceStep_string_spec C11.mixed C11.mixed_scalars none none MinInt (by decide) (by decide) (by decide) :)
/-- the `getElem` form on an instance -/
example : atWalkIn C11.mixed (pyWalk 4 none none (-2)) (pyWalk_in_range 4 none none (-2) (by decide) (by decide))
    = [0x1F600, 0xE9] := by decide

/-! ## G5. Arrays of any tag -/

/--
  `slice_array_spec_anyTag`: an array whose order is determined — tag `.plain` or `.nil`, or tag `.enum` (the product of
  ranging over a Go map) with fewer than two elements — is sliced exactly like a plain one: the elements at the indices of
  the Python walk, in a fresh plain array.
-/
theorem slice_array_spec_anyTag (t : ATag) (xs : List Val) (s? e? : Option Int) (hM : (xs.length : Int) ≤ MaxInt)
    (ht : enum2 t xs = false) :
    slice (.arr t xs) (encStart 1 s?) (encStop 1 e?) =
      .ok (.arr .plain ((pyWalk xs.length s? e? 1).map (fun i => xs.getD i.toNat .null))) := by
  rw [← slice_array_spec xs s? e? hM]
  simp only [slice, ht, enum2_plain]

/-- the same for `sliceStep` and every non-zero 64-bit step -/
theorem sliceStep_array_spec_anyTag (t : ATag) (xs : List Val) (s? e? : Option Int) (step : Int)
    (hM : (xs.length : Int) ≤ MaxInt) (h0 : step ≠ 0) (hmin : MinInt ≤ step) (ht : enum2 t xs = false) :
    sliceStep (.arr t xs) (encStart step s?) (encStop step e?) step =
      .ok (.arr .plain ((pyWalk xs.length s? e? step).map (fun i => xs.getD i.toNat .null))) := by
  rw [← sliceStep_array_spec xs s? e? step hM h0 hmin]
  simp only [sliceStep, ht, enum2_plain]

/--
  `slice_enum_nondet`: an array in map order with at least two elements, sliced with a non-empty walk: the model answers
  `.nondet` (the elements selected depend on Go's random map iteration order). With `C12.empty_walk_slice` — the empty
  walk gives `.ok []` for every tag — this settles every case of an `.enum` array.
-/
theorem slice_enum_nondet (t : ATag) (xs : List Val) (s? e? : Option Int) (hM : (xs.length : Int) ≤ MaxInt)
    (ht : enum2 t xs = true) (hw : pyWalk xs.length s? e? 1 ≠ []) :
    slice (.arr t xs) (encStart 1 s?) (encStop 1 e?) = .nondet := by
  have hn : (0 : Int) ≤ xs.length := by omega
  rw [← clamp1_spec _ s? e? hn hM] at hw
  simp only [slice]
  cases hc : clamp1 xs.length (encStart 1 s?) (encStop 1 e?) with
  | none => rw [hc] at hw; exact absurd rfl hw
  | some ab =>
    obtain ⟨a, b⟩ := ab
    rw [hc] at hw
    simp only [walk1, ne_eq, List.map_eq_nil_iff, List.range_eq_nil] at hw
    have hab : ¬ a ≥ b := by omega
    simp only [hab, if_false, ht, if_true]

/-- the same for `sliceStep`: map order, two or more elements, non-empty walk: `.nondet` -/
theorem sliceStep_enum_nondet (t : ATag) (xs : List Val) (s? e? : Option Int) (step : Int)
    (hM : (xs.length : Int) ≤ MaxInt) (h0 : step ≠ 0) (hmin : MinInt ≤ step)
    (ht : enum2 t xs = true) (hw : pyWalk xs.length s? e? step ≠ []) :
    sliceStep (.arr t xs) (encStart step s?) (encStop step e?) step = .nondet := by
  have hn : (0 : Int) ≤ xs.length := by omega
  rw [← clampStep_spec _ s? e? step hn hM h0 hmin] at hw
  simp only [sliceStep]
  cases hc : clampStep xs.length (encStart step s?) (encStop step e?) step with
  | none => rw [hc] at hw; exact absurd rfl hw
  | some ab =>
    obtain ⟨a, cnt⟩ := ab
    simp only [ht, if_true]

/-- the dichotomy for `.enum` arrays with two or more elements: `.ok []` iff the walk is empty, else `.nondet` -/
theorem sliceStep_enum_cases (xs : List Val) (s? e? : Option Int) (step : Int)
    (hM : (xs.length : Int) ≤ MaxInt) (h0 : step ≠ 0) (hmin : MinInt ≤ step) (h2 : 2 ≤ xs.length) :
    sliceStep (.arr .enum xs) (encStart step s?) (encStop step e?) step =
      if pyWalk xs.length s? e? step = [] then .ok (.arr .plain []) else .nondet := by
  have ht : enum2 .enum xs = true := by simp [enum2, h2]
  split
  · next hw => exact empty_walk_sliceStep .enum xs s? e? step hM h0 hmin hw
  · next hw => exact sliceStep_enum_nondet .enum xs s? e? step hM h0 hmin ht hw

example : slice (.arr .enum [.null, .bool true, .null]) 1 MaxInt = .nondet :=
  slice_enum_nondet .enum _ (some 1) none (by decide) (by decide) (by decide)
example : sliceStep (.arr .enum [.null, .bool true, .null]) MaxInt MinInt (-1) = .nondet :=
  (sliceStep_enum_nondet .enum [.null, .bool true, .null] none none (-1) (by decide) (by decide) (by decide) (by decide) (by decide) :)
/-- one element in map order: no ambiguity, sliced like a plain array -/
example : slice (.arr .enum [.bool true]) 0 MaxInt = .ok (.arr .plain [.bool true]) :=
  slice_array_spec_anyTag .enum [.bool true] none none (by decide) (by decide)
example : sliceStep (.arr .nil []) MaxInt MinInt (-1) = .ok (.arr .plain []) :=
  (sliceStep_array_spec_anyTag .nil [] none none (-1) (by decide) (by decide) (by decide) (by decide) :)

/-! ## G2. A slice of an array starts a projection; a slice of a string yields a string

  `evaluator.go`, case `ProjectArrayNode`: the left side is evaluated; when the result is a string *and* the left node
  is one of the four slice nodes, the right side is applied to that string once; otherwise `projectArray` applies it to
  every element of an array and yields null for anything that is not an array. -/

/-- what the four slice nodes compute: the evaluator calls `slice` / `sliceStep` with the literal bounds and the literal
    step stored in the node — nothing else ever reaches these two functions -/
theorem ieval_sliceCurrent (root cur : Val) (env : Env) (a b : Int) :
    ieval root (.sliceCurrent a b) cur env = slice cur a b := by simp only [ieval]
theorem ieval_sliceStepCurrent (root cur : Val) (env : Env) (a b s : Int) :
    ieval root (.sliceStepCurrent a b s) cur env = sliceStep cur a b s := by simp only [ieval]
theorem ieval_slice (root cur : Val) (env : Env) (c : INode) (a b : Int) :
    ieval root (.slice c a b) cur env = (ieval root c cur env >>= fun v => slice v a b) := by simp only [ieval]
theorem ieval_sliceStep (root cur : Val) (env : Env) (c : INode) (a b s : Int) :
    ieval root (.sliceStep c a b s) cur env = (ieval root c cur env >>= fun v => sliceStep v a b s) := by
  simp only [ieval]

example : ieval .null (.sliceStepCurrent 0 MaxInt 2) (.arr .plain [.null, .bool true, .null]) [] =
    sliceStep (.arr .plain [.null, .bool true, .null]) 0 MaxInt 2 := ieval_sliceStepCurrent ..

/-- **a slice of a string yields a string**: when the left side is a slice node and gives a string, the right side is
    applied to that string itself — no projection -/
theorem slice_of_string_no_projection (root cur : Val) (env : Env) (l r : INode) (s : Bytes)
    (hl : l.isSlice = true) (h : ieval root l cur env = .ok (.str s)) :
    ieval root (.projectArray l r) cur env = ieval root r (.str s) env := by
  simp only [ieval, h, Res.ok_bind, hl, if_true]

/-- **a slice of an array starts a projection**: the right side is applied to every element, null results dropped
    (this clause does not depend on the left node being a slice) -/
theorem slice_of_array_projects (root cur : Val) (env : Env) (l r : INode) (t : ATag) (xs : List Val)
    (h : ieval root l cur env = .ok (.arr t xs)) :
    ieval root (.projectArray l r) cur env = projectArray (fun v => ieval root r v env) (.arr t xs) := by
  simp only [ieval, h, Res.ok_bind]

/-- the contrast: a left side that is *not* a slice node and gives a string is projected like any non-array: null -/
theorem nonslice_string_projects_to_null (root cur : Val) (env : Env) (l r : INode) (s : Bytes)
    (hl : l.isSlice = false) (h : ieval root l cur env = .ok (.str s)) :
    ieval root (.projectArray l r) cur env = .ok .null := by
  simp only [ieval, h, Res.ok_bind, hl, Bool.false_eq_true, if_false, projectArray]

/-- a slice of anything that is neither an array nor a string is null, and so is the projection -/
theorem slice_of_other_is_null (root cur : Val) (env : Env) (l r : INode) (v : Val)
    (hv : ∀ t xs, v ≠ .arr t xs) (h : ieval root l cur env = .ok v) (hs : ∀ s, v ≠ .str s) :
    ieval root (.projectArray l r) cur env = .ok .null := by
  simp only [ieval, h, Res.ok_bind]
  cases v with
  | arr t xs => exact absurd rfl (hv t xs)
  | str s => exact absurd rfl (hs s)
  | _ => rfl

/-- `@` is the identity right-hand side (what the parser supplies when nothing follows the `]`) -/
theorem ieval_current (root cur : Val) (env : Env) : ieval root .current cur env = .ok cur := by simp only [ieval]

/-- the node of `foo[0]` applied after `"héllo"[1:3]`-style slices would see the string; with the non-slice left side
    `foo` the same string is projected to null -/
example : ieval .null (.projectArray (.field [0x66]) .current) (.obj [([0x66], .str [0x68, 0x69])]) [] = .ok .null :=
  nonslice_string_projects_to_null _ _ _ _ _ [0x68, 0x69] rfl (by simp only [ieval]; rfl)
example : ieval .null (.projectArray (.slice (.field [0x66]) 0 1) .current) (.obj [([0x66], .str [0x68, 0x69])]) []
    = .ok (.str [0x68]) := by
  rw [slice_of_string_no_projection _ _ _ _ _ [0x68] rfl (by simp only [ieval]; rfl), ieval_current]

/-! ### End to end: the four slice node shapes on a string and on an array -/

/--
  `project_sliceCurrent_string` — `[a:b]`, `[a:b:1]`, `[a:b:]` on a string value: the node the parser builds,
  `projectArray (sliceCurrent …) r`, gives `r` applied to the sliced *string* (the code points at the Python walk's
  indices); with `r = @` (nothing after the `]`) the sliced string itself.
-/
theorem project_sliceCurrent_string (root : Val) (env : Env) (r : INode) (cs : List Nat) (h : Scalars cs)
    (s? e? : Option Int) (hM : (cs.length : Int) ≤ MaxInt) :
    ieval root (.projectArray (.sliceCurrent (encStart 1 s?) (encStop 1 e?)) r) (.str (encodeAll cs)) env =
      ieval root r (.str (encodeAll (atWalk cs (pyWalk cs.length s? e? 1)))) env :=
  slice_of_string_no_projection _ _ _ _ _ _ rfl
    ((ieval_sliceCurrent ..).trans (slice_string_spec cs h s? e? hM))

/-- `[a:b:c]` with `c ≠ 1` on a string value -/
theorem project_sliceStepCurrent_string (root : Val) (env : Env) (r : INode) (cs : List Nat) (h : Scalars cs)
    (s? e? : Option Int) (step : Int) (h0 : step ≠ 0) (hmin : MinInt ≤ step) (hM : (cs.length : Int) ≤ MaxInt) :
    ieval root (.projectArray (.sliceStepCurrent (encStart step s?) (encStop step e?) step) r)
        (.str (encodeAll cs)) env =
      ieval root r (.str (encodeAll (atWalk cs (pyWalk cs.length s? e? step)))) env :=
  slice_of_string_no_projection _ _ _ _ _ _ rfl
    ((ieval_sliceStepCurrent ..).trans (sliceStep_string_spec cs h s? e? step h0 hmin hM))

/-- `c[a:b]` where the prefix `c` evaluates to a string -/
theorem project_slice_string (root cur : Val) (env : Env) (c r : INode) (cs : List Nat) (h : Scalars cs)
    (hc : ieval root c cur env = .ok (.str (encodeAll cs))) (s? e? : Option Int) (hM : (cs.length : Int) ≤ MaxInt) :
    ieval root (.projectArray (.slice c (encStart 1 s?) (encStop 1 e?)) r) cur env =
      ieval root r (.str (encodeAll (atWalk cs (pyWalk cs.length s? e? 1)))) env :=
  slice_of_string_no_projection _ _ _ _ _ _ rfl
    (by rw [ieval_slice, hc, Res.ok_bind, slice_string_spec cs h s? e? hM])

/-- `c[a:b:step]` where the prefix `c` evaluates to a string -/
theorem project_sliceStep_string (root cur : Val) (env : Env) (c r : INode) (cs : List Nat) (h : Scalars cs)
    (hc : ieval root c cur env = .ok (.str (encodeAll cs))) (s? e? : Option Int) (step : Int) (h0 : step ≠ 0)
    (hmin : MinInt ≤ step) (hM : (cs.length : Int) ≤ MaxInt) :
    ieval root (.projectArray (.sliceStep c (encStart step s?) (encStop step e?) step) r) cur env =
      ieval root r (.str (encodeAll (atWalk cs (pyWalk cs.length s? e? step)))) env :=
  slice_of_string_no_projection _ _ _ _ _ _ rfl
    (by rw [ieval_sliceStep, hc, Res.ok_bind, sliceStep_string_spec cs h s? e? step h0 hmin hM])

/-- top level, nothing after the bracket: `search`-style evaluation of `[a:b:step]` on a string document returns the
    sliced string -/
theorem evaluate_sliceStep_string (cs : List Nat) (h : Scalars cs) (s? e? : Option Int) (step : Int) (h0 : step ≠ 0)
    (hmin : MinInt ≤ step) (hM : (cs.length : Int) ≤ MaxInt) :
    evaluate (.projectArray (.sliceStepCurrent (encStart step s?) (encStop step e?) step) .current)
        (.str (encodeAll cs)) = .ok (.str (encodeAll (atWalk cs (pyWalk cs.length s? e? step)))) := by
  unfold evaluate
  rw [project_sliceStepCurrent_string _ _ _ cs h s? e? step h0 hmin hM, ieval_current]

/-- the same for the step-1 node -/
theorem evaluate_slice_string (cs : List Nat) (h : Scalars cs) (s? e? : Option Int) (hM : (cs.length : Int) ≤ MaxInt) :
    evaluate (.projectArray (.sliceCurrent (encStart 1 s?) (encStop 1 e?)) .current) (.str (encodeAll cs)) =
      .ok (.str (encodeAll (atWalk cs (pyWalk cs.length s? e? 1)))) := by
  unfold evaluate
  rw [project_sliceCurrent_string _ _ _ cs h s? e? hM, ieval_current]

/-- the node of `[::-1]` on "héllo": the reversed string "olléh", not an array, not null -/
example : evaluate (.projectArray (.sliceStepCurrent MaxInt MinInt (-1)) .current)
    (.str [0x68, 0xC3, 0xA9, 0x6C, 0x6C, 0x6F]) = .ok (.str [0x6F, 0x6C, 0x6C, 0xC3, 0xA9, 0x68]) :=
  (evaluate_sliceStep_string C11.hello C11.hello_scalars none none (-1) (by decide) (by decide) (by decide) :)
/-- the node of `foo[1:3]` on `{"foo": "héllo"}`: "él" -/
example : evaluate (.projectArray (.slice (.field [0x66, 0x6F, 0x6F]) 1 3) .current)
    (.obj [([0x66, 0x6F, 0x6F], .str [0x68, 0xC3, 0xA9, 0x6C, 0x6C, 0x6F])]) = .ok (.str [0xC3, 0xA9, 0x6C]) := by
  unfold evaluate
  have h := project_slice_string (.obj [([0x66, 0x6F, 0x6F], .str [0x68, 0xC3, 0xA9, 0x6C, 0x6C, 0x6F])])
    (.obj [([0x66, 0x6F, 0x6F], .str [0x68, 0xC3, 0xA9, 0x6C, 0x6C, 0x6F])]) [] (.field [0x66, 0x6F, 0x6F]) .current
    C11.hello C11.hello_scalars (by simp only [ieval]; rfl) (some 1) (some 3) (by decide)
  rw [ieval_current] at h
  exact h

/--
  `project_sliceStepCurrent_array` — on an array with a determined order the node `projectArray (sliceStep… ) r`
  projects `r` over the elements at the Python walk's indices (a fresh plain array).
-/
theorem project_sliceStepCurrent_array (root : Val) (env : Env) (r : INode) (t : ATag) (xs : List Val)
    (s? e? : Option Int) (step : Int) (h0 : step ≠ 0) (hmin : MinInt ≤ step) (hM : (xs.length : Int) ≤ MaxInt)
    (ht : enum2 t xs = false) :
    ieval root (.projectArray (.sliceStepCurrent (encStart step s?) (encStop step e?) step) r) (.arr t xs) env =
      projectArray (fun v => ieval root r v env)
        (.arr .plain ((pyWalk xs.length s? e? step).map (fun i => xs.getD i.toNat .null))) :=
  slice_of_array_projects _ _ _ _ _ _ _
    ((ieval_sliceStepCurrent ..).trans (sliceStep_array_spec_anyTag t xs s? e? step hM h0 hmin ht))

/-- `[a:b]` on an array: projection over the walk's elements -/
theorem project_sliceCurrent_array (root : Val) (env : Env) (r : INode) (t : ATag) (xs : List Val)
    (s? e? : Option Int) (hM : (xs.length : Int) ≤ MaxInt) (ht : enum2 t xs = false) :
    ieval root (.projectArray (.sliceCurrent (encStart 1 s?) (encStop 1 e?)) r) (.arr t xs) env =
      projectArray (fun v => ieval root r v env)
        (.arr .plain ((pyWalk xs.length s? e? 1).map (fun i => xs.getD i.toNat .null))) :=
  slice_of_array_projects _ _ _ _ _ _ _
    ((ieval_sliceCurrent ..).trans (slice_array_spec_anyTag t xs s? e? hM ht))

/-- `c[a:b]` where the prefix `c` evaluates to an array -/
theorem project_slice_array (root cur : Val) (env : Env) (c r : INode) (t : ATag) (xs : List Val)
    (hc : ieval root c cur env = .ok (.arr t xs)) (s? e? : Option Int) (hM : (xs.length : Int) ≤ MaxInt)
    (ht : enum2 t xs = false) :
    ieval root (.projectArray (.slice c (encStart 1 s?) (encStop 1 e?)) r) cur env =
      projectArray (fun v => ieval root r v env)
        (.arr .plain ((pyWalk xs.length s? e? 1).map (fun i => xs.getD i.toNat .null))) :=
  slice_of_array_projects _ _ _ _ _ _ _
    (by rw [ieval_slice, hc, Res.ok_bind, slice_array_spec_anyTag t xs s? e? hM ht])

/-- `c[a:b:step]` where the prefix `c` evaluates to an array -/
theorem project_sliceStep_array (root cur : Val) (env : Env) (c r : INode) (t : ATag) (xs : List Val)
    (hc : ieval root c cur env = .ok (.arr t xs)) (s? e? : Option Int) (step : Int) (h0 : step ≠ 0)
    (hmin : MinInt ≤ step) (hM : (xs.length : Int) ≤ MaxInt) (ht : enum2 t xs = false) :
    ieval root (.projectArray (.sliceStep c (encStart step s?) (encStop step e?) step) r) cur env =
      projectArray (fun v => ieval root r v env)
        (.arr .plain ((pyWalk xs.length s? e? step).map (fun i => xs.getD i.toNat .null))) :=
  slice_of_array_projects _ _ _ _ _ _ _
    (by rw [ieval_sliceStep, hc, Res.ok_bind, sliceStep_array_spec_anyTag t xs s? e? step hM h0 hmin ht])

/-- the node of `[::-1]` on `[true, null, false]`: the elements in reverse, and the projection drops the null -/
example : evaluate (.projectArray (.sliceStepCurrent MaxInt MinInt (-1)) .current)
    (.arr .plain [.bool true, .null, .bool false]) = .ok (.arr .plain [.bool false, .bool true]) := by
  unfold evaluate
  have h := project_sliceStepCurrent_array (.arr .plain [.bool true, .null, .bool false]) [] .current .plain
    [.bool true, .null, .bool false] none none (-1) (by decide) (by decide) (by decide) (by decide)
  refine Eq.trans h ?_
  show projectArray _ (.arr .plain [.bool false, .null, .bool true]) = _
  simp [projectArray, widen, mapPrune, ieval, Val.isNull, ATag.derived]

/-! ## G4 (a). No evaluation error — restated for the steps Go can actually be called with

  `C12.sliceStep_no_error` is stated for *every* integer step, zero included. That is true of the model only because
  `Int.tdiv c 0 = 0` in Lean; the Go code computes `c / step` (slice.go) and would panic with "integer divide by zero"
  if a zero step reached it. The statements below carry the hypothesis `step ≠ 0`; `compile_steps_nonzero` (G4 (b))
  shows that the hypothesis holds for every slice node of every compiled expression. -/

/-- `sliceStep` with a non-zero step reports no error and does not panic, whatever the value and the bounds -/
theorem sliceStep_no_error' (v : Val) (start stop step : Int) (_h0 : step ≠ 0) :
    (∀ cs, sliceStep v start stop step ≠ .err cs) ∧ (∀ w, sliceStep v start stop step ≠ .panic w) :=
  sliceStep_no_error v start stop step

/-- evaluation of a slice never fails, for any value and any integers with a non-zero step; the only slice error is the
    parser's `invalidSliceStep` (category invalid-value) for step 0 -/
theorem only_step_zero_errors' (v : Val) (start stop step : Int) (h0 : step ≠ 0) :
    (∀ cs, slice v start stop ≠ .err cs) ∧ (∀ w, slice v start stop ≠ .panic w) ∧
    (∀ cs, sliceStep v start stop step ≠ .err cs) ∧ (∀ w, sliceStep v start stop step ≠ .panic w) :=
  ⟨(slice_no_error v start stop).1, (slice_no_error v start stop).2,
   (sliceStep_no_error' v start stop step h0).1, (sliceStep_no_error' v start stop step h0).2⟩

/-- the Go-faithful reading of `sliceStep` (slice.go): with step 0 the code takes the `else` branch of `step > 0`,
    clamps, returns the empty result when the clamps say so, and otherwise divides by `step * -1 = 0`: a run-time panic
    (checked against the Go code: `sliceStep([]any{1,2,3}, 2, 0, 0)` and `sliceStep("abc", 2, 0, 0)` panic with
    "integer divide by zero", `sliceStep([]any{1,2,3}, 0, 1<<62, 0)` returns `[]`). The model returns one element there
    (`Int.tdiv c 0 = 0`, `Int.tmod c 0 = c > 0`). -/
def sliceStepGo (v : Val) (a b s : Int) : Res Val :=
  if s = 0 then
    (match v with
     | .arr _ xs =>
       (match clampStep xs.length a b 0 with
        | none => .ok (.arr .plain [])
        | some _ => .panic "runtime error: integer divide by zero")
     | .str st =>
       (match clampStep (runeCount st) a b 0 with
        | none => .ok (.str [])
        | some _ => .panic "runtime error: integer divide by zero")
     | _ => .ok .null)
  else sliceStep v a b s

/-- for a non-zero step the guarded version is the model's -/
theorem sliceStepGo_eq (v : Val) (a b s : Int) (h0 : s ≠ 0) : sliceStepGo v a b s = sliceStep v a b s := by
  simp only [sliceStepGo, h0, if_false]

example : sliceStepGo (.arr .plain [.null, .null, .null]) 2 0 0 = .panic "runtime error: integer divide by zero" :=
  rfl
/-- the model on the same input (never reached from a compiled expression, see below) -/
example : sliceStep (.arr .plain [.null, .null, .null]) 2 0 0 = .ok (.arr .plain [.null]) := rfl
example : sliceStepGo (.arr .plain [.null, .null, .null]) 0 MaxInt 0 = .ok (.arr .plain []) := rfl
example : ∀ cs, sliceStep (.arr .plain [.null]) 0 MaxInt 2 ≠ .err cs :=
  (only_step_zero_errors' _ 0 MaxInt 2 (by decide)).2.2.1

/-! ## G4 (b). Step 0 never reaches the evaluator; all slice arguments of a compiled expression are 64-bit -/

open Jmes.C12BL

/-- every `sliceStep…` sub-node carries a non-zero step -/
def _root_.Jmes.INode.stepsNonzero (n : INode) : Bool :=
  n.all (fun m => match m with
    | .sliceStep _ _ _ s => s != 0
    | .sliceStepCurrent _ _ s => s != 0
    | _ => true)

/-- every bound and step stored in a slice sub-node is a Go `int` (`MinInt ≤ · ≤ MaxInt`) -/
def _root_.Jmes.INode.sliceArgsInt64 (n : INode) : Bool :=
  n.all (fun m => match m with
    | .slice _ a b => inI a && inI b
    | .sliceCurrent a b => inI a && inI b
    | .sliceStep _ a b s => inI a && inI b && inI s
    | .sliceStepCurrent a b s => inI a && inI b && inI s
    | _ => true)

/-- the strongest form: in a compiled expression every slice node has 64-bit bounds, every stepped slice node a 64-bit
    step that is neither 0 nor 1, every index node a 64-bit index (`C12BL.argOk`) -/
theorem compile_argOk {e : Bytes} {n : INode} (h : compile e = .ok n) : n.all C12BL.argOk = true :=
  C12BL.parse_argsOk h

/--
  `compile_steps_nonzero`: **no compiled expression contains a slice node with step 0** — the parser's
  `if step == 0 { return InvalidSliceStepError }` (parser.go, `index`) is the only producer of stepped slice nodes and
  runs before the node is built. Since the evaluator calls `sliceStep` only with the step stored in such a node
  (`ieval_sliceStep`, `ieval_sliceStepCurrent`: the two places), Go's division `c / step` in slice.go is never
  executed with a zero divisor for a compiled expression.
-/
theorem compile_steps_nonzero {e : Bytes} {n : INode} (h : compile e = .ok n) : n.stepsNonzero = true := by
  refine C12BL.all_mono (fun m hm => ?_) n (compile_argOk h)
  cases m <;> simp only [C12BL.argOk, Bool.and_eq_true] at hm ⊢ <;> first | exact hm.1.2 | rfl

/-- `compile_slice_args_int64`: every start, stop and step of every slice node of a compiled expression lies in
    `[MinInt, MaxInt]` — together with `compile_steps_nonzero` the hypotheses `step ≠ 0`, `MinInt ≤ step` of the C12
    theorems hold for every slice a compiled expression can perform -/
theorem compile_slice_args_int64 {e : Bytes} {n : INode} (h : compile e = .ok n) : n.sliceArgsInt64 = true := by
  refine C12BL.all_mono (fun m hm => ?_) n (compile_argOk h)
  cases m <;> simp only [C12BL.argOk, Bool.and_eq_true] at hm ⊢ <;>
    first | exact hm | exact ⟨hm.1.1.1, hm.1.1.2⟩ | exact hm.1.1 | rfl

/-- the two calls of `sliceStep` in the evaluator, for nodes as the parser builds them, are calls of the Go-faithful
    `sliceStepGo`: no division by zero -/
theorem ieval_sliceStepCurrent_go (root cur : Val) (env : Env) (a b s : Int)
    (h : (INode.sliceStepCurrent a b s).stepsNonzero = true) :
    ieval root (.sliceStepCurrent a b s) cur env = sliceStepGo cur a b s := by
  simp only [INode.stepsNonzero, INode.all, bne_iff_ne, ne_eq] at h
  rw [ieval_sliceStepCurrent, sliceStepGo_eq _ _ _ _ h]

/-- the same for the node with a prefix; the prefix's own slice nodes have non-zero steps too -/
theorem ieval_sliceStep_go (root cur : Val) (env : Env) (c : INode) (a b s : Int)
    (h : (INode.sliceStep c a b s).stepsNonzero = true) :
    ieval root (.sliceStep c a b s) cur env = (ieval root c cur env >>= fun v => sliceStepGo v a b s) ∧
      c.stepsNonzero = true := by
  simp only [INode.stepsNonzero, INode.all, Bool.and_eq_true, bne_iff_ne, ne_eq] at h
  refine ⟨?_, h.2⟩
  rw [ieval_sliceStep]
  congr 1
  funext v
  exact (sliceStepGo_eq _ _ _ _ h.1).symm

/-- the hypotheses of `C12.sliceStep_array_spec`, `sliceStep_string_spec`, … for a stepped slice node of a compiled
    expression met at the top: `step ≠ 0` and `MinInt ≤ step ≤ MaxInt` -/
theorem compiled_sliceStepCurrent_hyps {e : Bytes} {a b s : Int} {r : INode}
    (h : compile e = .ok (.projectArray (.sliceStepCurrent a b s) r)) :
    s ≠ 0 ∧ MinInt ≤ s ∧ s ≤ MaxInt := by
  have := compile_argOk h
  simp only [INode.all, C12BL.argOk, Bool.and_eq_true, inI_iff, bne_iff_ne, ne_eq] at this
  exact ⟨this.1.2.1.2, this.1.2.1.1.2⟩

/-- `foo[::2].bar[1:]` compiles; its nodes have non-zero steps and 64-bit arguments -/
example : ∀ n, compile [0x66, 0x6F, 0x6F, 0x5B, 0x3A, 0x3A, 0x32, 0x5D, 0x2E, 0x62, 0x61, 0x72, 0x5B, 0x31, 0x3A, 0x5D]
    = .ok n → n.stepsNonzero = true ∧ n.sliceArgsInt64 = true :=
  fun _ h => ⟨compile_steps_nonzero h, compile_slice_args_int64 h⟩
/-- the predicates are not vacuous: a hand-made node with step 0, or with a bound beyond 64 bits, violates them -/
example : (INode.projectArray (.sliceStepCurrent 0 MaxInt 0) .current).stepsNonzero = false := by decide
example : (INode.projectArray (.sliceCurrent 0 (MaxInt + 1)) .current).sliceArgsInt64 = false := by decide

/-! ## G3. `compile` of the text of a slice, for all optional 64-bit integers

  `sliceText s? e? st?` (`Proofs/C12BLemmas.lean`) is the compact text `[` start? `:` stop? (`:` step?)? `]` with the
  numbers printed as `strconv.Itoa` prints them, no blanks; `st? = none`: no second colon (`[a:b]`), `st? = some none`:
  a second colon without a step (`[a:b:]`), `st? = some (some c)`: `[a:b:c]`. `stepOf st?` is the step it denotes (1 when
  absent), `sliceNodeE child s? e? step` the slice node in the `encStart`/`encStop` encoding of `Properties/C12.lean`.
  The lexing of the compact text is proved (`C12BL.lexAll_sliceText`); the parser side goes through the grammar
  equivalence `C04G.parse_complete`. -/

/-- `I64 i`: `MinInt ≤ i ≤ MaxInt`; `OptI64`, `StepI64`: the same for an optional bound / an optional optional step -/
example : I64 MinInt ∧ I64 MaxInt ∧ ¬ I64 (MaxInt + 1) := by unfold I64; decide

/--
  `compile_sliceText`: for all optional 64-bit start, stop, step with step ≠ 0 (the limits `MinInt`, `MaxInt`
  included), `[a:b]`, `[a:b:]`, `[a:b:c]` compile to `projectArray (slice node) @`, the slice node carrying the
  `encStart`/`encStop` encoding of the bounds: `sliceCurrent` when the step is absent or 1, else `sliceStepCurrent`.
-/
theorem compile_sliceText (s? e? : Option Int) (st? : Option (Option Int)) (hs : OptI64 s?) (he : OptI64 e?)
    (hst : StepI64 st?) (h0 : st? ≠ some (some 0)) :
    compile (sliceText s? e? st?) = .ok (.projectArray (sliceNodeE none s? e? (stepOf st?)) .current) :=
  parse_sliceText s? e? st? hs he hst h0

/-- the step is absent or 1: the two-argument slice node -/
theorem compile_sliceText_step1 (s? e? : Option Int) (st? : Option (Option Int)) (hs : OptI64 s?) (he : OptI64 e?)
    (h1 : stepOf st? = 1) :
    compile (sliceText s? e? st?) = .ok (.projectArray (.sliceCurrent (encStart 1 s?) (encStop 1 e?)) .current) := by
  have hst : StepI64 st? := by
    rcases st? with _ | _ | c
    · trivial
    · trivial
    · have : c = 1 := h1
      subst this; exact ⟨by decide, by decide⟩
  have h0 : st? ≠ some (some 0) := by intro h; subst h; exact absurd h1 (by decide)
  rw [compile_sliceText s? e? st? hs he hst h0, h1]
  rfl

/-- an explicit step other than 0 and 1: the three-argument slice node -/
theorem compile_sliceText_step (s? e? : Option Int) (c : Int) (hs : OptI64 s?) (he : OptI64 e?) (hc : I64 c)
    (h0 : c ≠ 0) (h1 : c ≠ 1) :
    compile (sliceText s? e? (some (some c))) =
      .ok (.projectArray (.sliceStepCurrent (encStart c s?) (encStop c e?) c) .current) := by
  rw [compile_sliceText s? e? (some (some c)) hs he hc (by intro h; exact h0 (by simpa using h))]
  simp only [stepOf, sliceNodeE, h1, if_false]

/-- the prefixed form `name[a:b:c]` (any identifier other than the keywords `let`, `in`) -/
theorem compile_field_sliceText {v : Bytes} (hv : Lexical.Ident v) (h1 : v ≠ Lexical.kwLet) (h2 : v ≠ Lexical.kwIn)
    (s? e? : Option Int) (st? : Option (Option Int)) (hs : OptI64 s?) (he : OptI64 e?)
    (hst : StepI64 st?) (h0 : st? ≠ some (some 0)) :
    compile (v ++ sliceText s? e? st?) =
      .ok (.projectArray (sliceNodeE (some (.field v)) s? e? (stepOf st?)) .current) :=
  parse_field_sliceText hv h1 h2 s? e? st? hs he hst h0

/--
  `compile_sliceText_error_iff`: **the only error of a slice text is step 0**: for optional 64-bit parts, compilation
  fails with `invalidSliceStep` exactly when the step is written and equal to 0 — and in every other case it does not fail
  at all (`compile_sliceText`). The category of that error is invalid-value.
-/
theorem compile_sliceText_error_iff (s? e? : Option Int) (st? : Option (Option Int)) (hs : OptI64 s?)
    (he : OptI64 e?) (hst : StepI64 st?) :
    compile (sliceText s? e? st?) = .error .invalidSliceStep ↔ st? = some (some 0) := by
  constructor
  · intro h
    by_cases h0 : st? = some (some 0)
    · exact h0
    · rw [compile_sliceText s? e? st? hs he hst h0] at h
      cases h
  · rintro rfl
    exact parse_sliceText_zero s? e? hs he

/-- a slice text with 64-bit parts either compiles or is the step-0 error: no third outcome -/
theorem compile_sliceText_ok_or_step0 (s? e? : Option Int) (st? : Option (Option Int)) (hs : OptI64 s?)
    (he : OptI64 e?) (hst : StepI64 st?) :
    (∃ n, compile (sliceText s? e? st?) = .ok n) ∨
      (st? = some (some 0) ∧ compile (sliceText s? e? st?) = .error .invalidSliceStep) := by
  by_cases h0 : st? = some (some 0)
  · exact Or.inr ⟨h0, (compile_sliceText_error_iff s? e? st? hs he hst).2 h0⟩
  · exact Or.inl ⟨_, compile_sliceText s? e? st? hs he hst h0⟩

example : parseCat .invalidSliceStep = .invalidValue := rfl

/-- `[-5::2]`, `[1:2:]`, `[::0]`, and the limits `[-9223372036854775808:9223372036854775807:-9223372036854775808]` -/
example : sliceText (some (-5)) none (some (some 2)) = [0x5B, 0x2D, 0x35, 0x3A, 0x3A, 0x32, 0x5D] := by decide
example : compile (sliceText (some (-5)) none (some (some 2))) =
    .ok (.projectArray (.sliceStepCurrent (-5) MaxInt 2) .current) :=
  compile_sliceText_step (some (-5)) none 2 ⟨by decide, by decide⟩ trivial ⟨by decide, by decide⟩ (by decide)
    (by decide)
example : sliceText (some 1) (some 2) (some none) = [0x5B, 0x31, 0x3A, 0x32, 0x3A, 0x5D] := by decide
example : compile (sliceText (some 1) (some 2) (some none)) = .ok (.projectArray (.sliceCurrent 1 2) .current) :=
  compile_sliceText_step1 (some 1) (some 2) (some none) ⟨by decide, by decide⟩ ⟨by decide, by decide⟩ rfl
example : compile (sliceText none none (some (some 0))) = .error .invalidSliceStep :=
  (compile_sliceText_error_iff none none (some (some 0)) trivial trivial (show I64 0 from ⟨by decide, by decide⟩)).2 rfl
example : compile (sliceText (some MinInt) (some MaxInt) (some (some MinInt))) =
    .ok (.projectArray (.sliceStepCurrent MinInt MaxInt MinInt) .current) :=
  compile_sliceText_step (some MinInt) (some MaxInt) MinInt ⟨by decide, by decide⟩ ⟨by decide, by decide⟩
    ⟨by decide, by decide⟩ (by decide) (by decide)
/-- `foo[::-1]` -/
example : compile ([0x66, 0x6F, 0x6F] ++ sliceText none none (some (some (-1)))) =
    .ok (.projectArray (.sliceStep (.field [0x66, 0x6F, 0x6F]) MaxInt MinInt (-1)) .current) :=
  compile_field_sliceText ⟨0x66, [0x6F, 0x6F], rfl, by decide, by decide⟩ (by decide) (by decide) none none
    (some (some (-1))) trivial trivial ⟨by decide, by decide⟩ (by decide)

/-! ### From the text to the value: G1 + G2 + G3 -/

/-- a step that is not written as 0 is not 0 (an absent step is 1) -/
theorem stepOf_ne_zero (st? : Option (Option Int)) (h0 : st? ≠ some (some 0)) : stepOf st? ≠ 0 := by
  rcases st? with _ | _ | c
  · decide
  · decide
  · intro h; exact h0 (by simp only [stepOf] at h; rw [h])

/-- the denoted step is 64-bit when the written one is -/
theorem stepOf_i64 (st? : Option (Option Int)) (hst : StepI64 st?) : I64 (stepOf st?) := by
  rcases st? with _ | _ | c
  · exact ⟨by decide, by decide⟩
  · exact ⟨by decide, by decide⟩
  · exact hst

/--
  `search_sliceText_string`: **the whole path for strings** — searching a string document (code points `cs`) with the
  text `[a:b:c]` (any optional 64-bit parts, step ≠ 0) returns the *string* made of the code points at the indices of the
  Python walk `pyWalk |cs| a b step`, in walk order.
-/
theorem search_sliceText_string (cs : List Nat) (h : Scalars cs) (hM : (cs.length : Int) ≤ MaxInt)
    (s? e? : Option Int) (st? : Option (Option Int)) (hs : OptI64 s?) (he : OptI64 e?) (hst : StepI64 st?)
    (h0 : st? ≠ some (some 0)) :
    search (sliceText s? e? st?) (.str (encodeAll cs)) =
      .ok (.str (encodeAll (atWalk cs (pyWalk cs.length s? e? (stepOf st?))))) := by
  have hc := compile_sliceText s? e? st? hs he hst h0
  unfold compile at hc
  unfold search
  rw [hc]
  simp only [sliceNodeE]
  by_cases h1 : stepOf st? = 1
  · simp only [h1, if_true]
    exact evaluate_slice_string cs h s? e? hM
  · simp only [h1, if_false]
    exact evaluate_sliceStep_string cs h s? e? (stepOf st?) (stepOf_ne_zero st? h0) (stepOf_i64 st? hst).1 hM

/--
  `search_sliceText_array`: **the whole path for arrays** — on an array with a determined order the text `[a:b:c]` starts
  a projection over the elements at the indices of the Python walk (with nothing after the bracket the projection is the
  identity on each element and drops the nulls, as every projection does).
-/
theorem search_sliceText_array (t : ATag) (xs : List Val) (hM : (xs.length : Int) ≤ MaxInt) (ht : enum2 t xs = false)
    (s? e? : Option Int) (st? : Option (Option Int)) (hs : OptI64 s?) (he : OptI64 e?) (hst : StepI64 st?)
    (h0 : st? ≠ some (some 0)) :
    search (sliceText s? e? st?) (.arr t xs) =
      projectArray (fun v => .ok v)
        (.arr .plain ((pyWalk xs.length s? e? (stepOf st?)).map (fun i => xs.getD i.toNat .null))) := by
  have hc := compile_sliceText s? e? st? hs he hst h0
  unfold compile at hc
  unfold search
  rw [hc]
  have hcur : (fun v => ieval (.arr t xs) .current v []) = fun v => Res.ok v := by
    funext v; exact ieval_current _ _ _
  unfold evaluate
  simp only [sliceNodeE]
  by_cases h1 : stepOf st? = 1
  · simp only [h1, if_true]
    rw [project_sliceCurrent_array _ _ _ t xs s? e? hM ht, hcur]
  · simp only [h1, if_false]
    rw [project_sliceStepCurrent_array _ _ _ t xs s? e? (stepOf st?) (stepOf_ne_zero st? h0) (stepOf_i64 st? hst).1 hM ht,
      hcur]

/-- `[::-1]` on "héllo" is "olléh"; `[::0]` is the invalid-value error whatever the document -/
example : search (sliceText none none (some (some (-1)))) (.str [0x68, 0xC3, 0xA9, 0x6C, 0x6C, 0x6F]) =
    .ok (.str [0x6F, 0x6C, 0x6C, 0xC3, 0xA9, 0x68]) :=
  (search_sliceText_string C11.hello C11.hello_scalars (by decide) none none (some (some (-1))) trivial trivial
    ⟨by decide, by decide⟩ (by decide) :)
example : sliceText none none (some (some (-1))) = [0x5B, 0x3A, 0x3A, 0x2D, 0x31, 0x5D] := by decide
example (d : Val) : search (sliceText none none (some (some 0))) d = .err [.invalidValue] := by
  have h : Parser.parse (sliceText none none (some (some 0))) = .error .invalidSliceStep :=
    (compile_sliceText_error_iff none none (some (some 0)) trivial trivial (show I64 0 from ⟨by decide, by decide⟩)).2 rfl
  unfold search
  rw [h]
  rfl

end Jmes.C12B

