/-
  C09 — "Every call terminates, using time and memory bounded by a low-order polynomial in the length of the
  expression, the size of the document and the size of the result.  In particular the magnitude of integer literals
  and numeric arguments (slice bounds and steps, search offsets, replace and split counts) never by itself drives the
  running time or an allocation."

  Termination: every function of `Jmes/Model` is total (accepted by Lean's termination checker; loops became
  structural or fuel-bounded recursions).  What is proved here is the magnitude-freeness of the *amount of work* of the
  integer-parameterised operations, against the cost model of `Jmes/Spec/Cost.lean` (one tick function per Go loop
  nest, following the model's recursion; closed forms in the length and the integers):

  1. `clampStep_count_le`, `clampStep_bounds`, `clamp1_bounds`         — the clamps never produce more than `n`
  2. `slice_cost_bound`, `sliceStep_cost_bound`, `find_cost_bound`, …  — every closed form ≤ small linear bound,
                                                                          ∀ start stop step : Int
  3. `walk_skips_bounded` (`dropRunes_clamp`, `dropLastRunes_clamp`, `runeOffset_clamp`) and the tick equalities
     `dropRunesTicks_eq`, `walkFwdTicks_eq`, `runeOffsetTicks_eq`, …  — ticks = closed form on the actual data
  4. `result_size_bounds`                                              — memory
  5. `index_const`
  6. `parseInt64_range`, `parseInt64_in_range`, `indexP_bad_literal`   — integer literals out of range are errors
  7. `fuel_sufficient` (proved in `Jmes/Proofs/Fuel.lean`)             — the parser's fuel never runs out
-/
import Jmes.Spec.Cost
import Jmes.Proofs.Utf8
import Jmes.Properties.C12
import Jmes.Proofs.Fuel
namespace Jmes.C09
open Jmes Jmes.Cost

/-! ## 0. UTF-8 decoding steps on arbitrary (possibly invalid) byte strings -/

theorem snd_ite_ge (c : Prop) [Decidable c] (x y k m lo : Nat) (h1 : lo ≤ k) (h2 : lo ≤ m) :
    lo ≤ (if c then (x, k) else (y, m)).2 := by split <;> assumption
theorem snd_ite_le (c : Prop) [Decidable c] (x y k m hi : Nat) (h1 : k ≤ hi) (h2 : m ≤ hi) :
    (if c then (x, k) else (y, m)).2 ≤ hi := by split <;> assumption

theorem decodeRune_size (s : Bytes) : (s ≠ [] → 1 ≤ (decodeRune s).2) ∧ (decodeRune s).2 ≤ s.length := by
  match s with
  | [] => simp [decodeRune]
  | b0 :: rest =>
    refine ⟨fun _ => ?_, ?_⟩
    all_goals
      simp only [decodeRune]
      split
      · simp
      · split
        · split
          · first | (apply snd_ite_ge <;> omega) | (apply snd_ite_le <;> simp)
          · simp
        · split
          · split
            · first | (apply snd_ite_ge <;> omega) | (apply snd_ite_le <;> simp)
            · simp
          · split
            · split
              · first | (apply snd_ite_ge <;> omega) | (apply snd_ite_le <;> simp)
              · simp
            · simp

theorem decodeLastRune_size (s : Bytes) :
    (s ≠ [] → 1 ≤ (decodeLastRune s).2) ∧ (decodeLastRune s).2 ≤ s.length := by
  unfold decodeLastRune
  by_cases h0 : s.length = 0
  · have : s = [] := List.eq_nil_of_length_eq_zero h0
    subst this; simp
  · simp only [h0, if_false]
    split
    · simp; omega
    · generalize hst : (if 2 ≤ s.length ∧ runeStart (s.getD (s.length - 2) 0) = true then s.length - 2
        else if 3 ≤ s.length ∧ runeStart (s.getD (s.length - 3) 0) = true then s.length - 3
        else if 4 ≤ s.length ∧ runeStart (s.getD (s.length - 4) 0) = true then s.length - 4
        else if 5 ≤ s.length then s.length - 5 else 0) = start
      have hs : start < s.length := by
        rw [← hst]; repeat' split
        all_goals omega
      have hd := decodeRune_size (s.drop start)
      have hdn : s.drop start ≠ [] := by
        intro h; have := congrArg List.length h; simp at this; omega
      have h1 := hd.1 hdn
      have h2 := hd.2
      rw [List.length_drop] at h2
      split
      · simp; omega
      · simp only; omega

theorem decodeRune_pos (s : Bytes) (h : s ≠ []) : 1 ≤ (decodeRune s).2 := (decodeRune_size s).1 h
theorem decodeRune_le (s : Bytes) : (decodeRune s).2 ≤ s.length := (decodeRune_size s).2
theorem decodeLastRune_pos (s : Bytes) (h : s ≠ []) : 1 ≤ (decodeLastRune s).2 := (decodeLastRune_size s).1 h
theorem decodeLastRune_le (s : Bytes) : (decodeLastRune s).2 ≤ s.length := (decodeLastRune_size s).2

theorem length_pos_of_ne_nil {s : Bytes} (h : s ≠ []) : 1 ≤ s.length := by
  cases s with
  | nil => exact absurd rfl h
  | cons b bs => simp

/-- `decodeAllAux` does not depend on the fuel once it covers the length -/
theorem decodeAllAux_fuel : ∀ (f1 f2 : Nat) (s : Bytes), s.length ≤ f1 → s.length ≤ f2 →
    decodeAllAux f1 s = decodeAllAux f2 s := by
  intro f1
  induction f1 with
  | zero =>
    intro f2 s h1 _
    have : s = [] := List.eq_nil_of_length_eq_zero (by omega)
    subst this; rw [Utf8.decodeAllAux_nil, Utf8.decodeAllAux_nil]
  | succ f1 ih =>
    intro f2 s h1 h2
    by_cases hne : s = []
    · subst hne; rw [Utf8.decodeAllAux_nil, Utf8.decodeAllAux_nil]
    · have hp := decodeRune_pos s hne
      have hl := length_pos_of_ne_nil hne
      match f2, h2 with
      | 0, h2 => omega
      | f2 + 1, h2 =>
        rw [Utf8.decodeAllAux_succ _ _ hne, Utf8.decodeAllAux_succ _ _ hne]
        congr 1
        apply ih <;> (rw [List.length_drop]; omega)

/-- one decoding step consumes exactly one code point of the count -/
theorem runeCount_step (s : Bytes) (h : s ≠ []) :
    runeCount s = 1 + runeCount (s.drop (decodeRune s).2) := by
  have hp := decodeRune_pos s h
  have hl := length_pos_of_ne_nil h
  unfold runeCount decodeAll
  obtain ⟨k, hk⟩ : ∃ k, s.length = k + 1 := ⟨s.length - 1, by omega⟩
  rw [hk, Utf8.decodeAllAux_succ _ _ h, List.length_cons,
    decodeAllAux_fuel k (s.drop (decodeRune s).2).length _ (by rw [List.length_drop]; omega) (Nat.le_refl _)]
  omega

theorem runeCount_nil : runeCount [] = 0 := rfl

theorem runeCount_pos (s : Bytes) (h : s ≠ []) : 1 ≤ runeCount s := by
  rw [runeCount_step s h]; omega

theorem runeCount_le_length : ∀ (k : Nat) (s : Bytes), s.length ≤ k → runeCount s ≤ s.length := by
  intro k
  induction k with
  | zero => intro s h; have : s = [] := List.eq_nil_of_length_eq_zero (by omega); subst this; simp [runeCount_nil]
  | succ k ih =>
    intro s h
    by_cases hne : s = []
    · subst hne; simp [runeCount_nil]
    · have hp := decodeRune_pos s hne
      have hl := decodeRune_le s
      rw [runeCount_step s hne]
      have := ih (s.drop (decodeRune s).2) (by rw [List.length_drop]; omega)
      rw [List.length_drop] at this
      omega

/-! ## 1. The clamps: results within the length for all integers -/

theorem ceilDiv_le (c s : Int) (hc : 0 < c) :
    (if Int.tmod c s > 0 then Int.tdiv c s + 1 else Int.tdiv c s) ≤ c := by
  by_cases hs : s > 0
  · have e : s * Int.tdiv c s + Int.tmod c s = c := Int.mul_tdiv_add_tmod c s
    have m0 : 0 ≤ Int.tmod c s := Int.tmod_nonneg s (by omega)
    have m1 : Int.tmod c s < s := Int.tmod_lt_of_pos c hs
    have q0 : 0 ≤ Int.tdiv c s := Int.tdiv_nonneg (by omega) (by omega)
    generalize Int.tdiv c s = q at *
    generalize Int.tmod c s = m at *
    split
    · have : 2 * q ≤ s * q := Int.mul_le_mul_of_nonneg_right (by omega) q0
      omega
    · have : 1 * q ≤ s * q := Int.mul_le_mul_of_nonneg_right (by omega) q0
      omega
  · by_cases hz : s = 0
    · subst hz; simp [Int.tdiv_zero, Int.tmod_zero]; omega
    · have e : s = -(-s) := by omega
      have q0 : 0 ≤ Int.tdiv c (-s) := Int.tdiv_nonneg (by omega) (by omega)
      rw [e, Int.tdiv_neg]
      split <;> omega

theorem clamp1_bounds (n start stop a b : Int) (hn : 0 ≤ n) (h : clamp1 n start stop = some (a, b)) :
    0 ≤ a ∧ a ≤ n ∧ 0 ≤ b ∧ b ≤ n := by
  unfold clamp1 at h
  by_cases h1 : start < 0 <;> by_cases h2 : start < -n <;> by_cases h3 : start ≥ n <;>
  by_cases h4 : stop < 0 <;> by_cases h5 : stop < -n <;> by_cases h6 : stop ≥ n <;>
  simp only [h1, h2, h3, h4, h5, h6, if_true, if_false] at h <;>
  first
  | (exfalso; omega)
  | (cases h; done)
  | (cases h; omega)

/-- for EVERY `step : Int` (zero and values outside 64 bits included): the first index is a valid index and the
    number of selected elements is at most the length -/
theorem clampStep_bounds (n start stop step a cnt : Int)
    (h : clampStep n start stop step = some (a, cnt)) : 0 ≤ a ∧ a < n ∧ cnt ≤ n := by
  unfold clampStep at h
  by_cases hpos : step > 0
  · simp only [hpos, if_true] at h
    split at h
    · cases h
    · rename_i a' ha'
      split at h
      · cases h
      · rename_i b' hb'
        split at h
        · cases h
        · rename_i hab
          injection h with h; injection h with h1 h2
          subst h1
          have fa : 0 ≤ a' := by
            split at ha'
            · split at ha' <;> (injection ha' with ha'; omega)
            · split at ha'
              · cases ha'
              · injection ha' with ha'; omega
          have fb : b' ≤ n := by
            split at hb'
            · split at hb'
              · cases hb'
              · injection hb' with hb'; omega
            · split at hb' <;> (injection hb' with hb'; omega)
          have := ceilDiv_le (b' - a') step (by omega)
          omega
  · simp only [hpos, if_false] at h
    generalize hw : wrap64 (step * -1) = s at h
    split at h
    · cases h
    · rename_i a' ha'
      split at h
      · cases h
      · rename_i b' hb'
        split at h
        · cases h
        · rename_i hab
          injection h with h; injection h with h1 h2
          subst h1
          have fa : a' < n := by
            split at ha'
            · split at ha'
              · cases ha'
              · injection ha' with ha'; omega
            · split at ha' <;> (injection ha' with ha'; omega)
          have fb : -1 ≤ b' := by
            split at hb'
            · split at hb' <;> (injection hb' with hb'; omega)
            · split at hb'
              · cases hb'
              · injection hb' with hb'; omega
          have := ceilDiv_le (a' - b') s (by omega)
          omega

/-- item 1 as requested -/
theorem clampStep_count_le (n start stop step a cnt : Int)
    (h : clampStep n start stop step = some (a, cnt)) (_hn : 0 ≤ n) (_h0 : step ≠ 0) (_hmin : MinInt ≤ step) :
    cnt ≤ n ∧ 0 ≤ a ∧ a < n :=
  have := clampStep_bounds n start stop step a cnt h
  ⟨this.2.2, this.1, this.2.1⟩

example : clampStep 5 (-(2^63)) (2^63 - 1) (2^62) = some (0, 1) := by decide
example : clampStep 5 (2^63 - 1) (-(2^63)) (-(2^63)) = some (4, 1) := by decide
example : clampStep 5 (2^63 - 1) (-(2^63)) (-1) = some (4, 5) := by decide
example : clamp1 5 (-(2^63)) (2^63 - 1) = some (0, 5) := by decide

/-! ## 3. The rune walkers stop at the end of the string: `walk_skips_bounded` -/

theorem runeCount_eq_zero (s : Bytes) (h : runeCount s = 0) : s = [] := by
  by_cases hne : s = []
  · exact hne
  · have := runeCount_pos s hne; omega

theorem runeCount_dropRunes : ∀ (k : Nat) (s : Bytes), runeCount (dropRunes k s) = runeCount s - k := by
  intro k
  induction k with
  | zero => intro s; rfl
  | succ k ih =>
    intro s
    by_cases hne : s = []
    · subst hne; rw [Utf8.dropRunes_nil, runeCount_nil]; omega
    · rw [Utf8.dropRunes_succ _ _ hne, ih, runeCount_step s hne]; omega

/-- once `k` reaches the number of code points the string is exhausted -/
theorem dropRunes_all : ∀ (k : Nat) (s : Bytes), runeCount s ≤ k → dropRunes k s = [] := by
  intro k
  induction k with
  | zero => intro s h; exact runeCount_eq_zero s (by omega)
  | succ k ih =>
    intro s h
    by_cases hne : s = []
    · subst hne; rfl
    · rw [Utf8.dropRunes_succ _ _ hne]
      apply ih
      rw [runeCount_step s hne] at h; omega

/-- `dropRunes k` costs and does the same as `dropRunes (min k (runeCount s))`: a step of 2^62 costs no more than
    the remaining length -/
theorem dropRunes_clamp (k : Nat) (s : Bytes) : dropRunes k s = dropRunes (min k (runeCount s)) s := by
  by_cases h : k ≤ runeCount s
  · rw [Nat.min_eq_left h]
  · rw [Nat.min_eq_right (by omega), dropRunes_all k s (by omega), dropRunes_all _ s (Nat.le_refl _)]

theorem dropRunesTicks_nil (k : Nat) : dropRunesTicks k [] = 0 := by cases k <;> rfl
theorem dropRunesTicks_succ (k : Nat) (s : Bytes) (h : s ≠ []) :
    dropRunesTicks (k + 1) s = 1 + dropRunesTicks k (s.drop (decodeRune s).2) := by
  cases s with
  | nil => exact absurd rfl h
  | cons b bs => rfl

/-- the skipping loop performs exactly `min k (runeCount s)` iterations -/
theorem dropRunesTicks_eq : ∀ (k : Nat) (s : Bytes), dropRunesTicks k s = min k (runeCount s) := by
  intro k
  induction k with
  | zero => intro s; simp [dropRunesTicks]
  | succ k ih =>
    intro s
    by_cases hne : s = []
    · subst hne; rw [dropRunesTicks_nil, runeCount_nil]; simp
    · rw [dropRunesTicks_succ _ _ hne, ih, runeCount_step s hne]; omega

example : dropRunes (2 ^ 62) [0x61, 0x62, 0x63] = dropRunes 3 [0x61, 0x62, 0x63] := by
  rw [dropRunes_clamp]; rfl
example : dropRunesTicks (2 ^ 62) [0x61, 0x62, 0x63] = 3 := by rw [dropRunesTicks_eq]; decide

/-! ### backwards -/

theorem backCountAux_nil (f : Nat) : backCountAux f [] = 0 := by cases f <;> rfl
theorem backCountAux_succ (f : Nat) (s : Bytes) (h : s ≠ []) :
    backCountAux (f + 1) s = 1 + backCountAux f (s.take (s.length - (decodeLastRune s).2)) := by
  cases s with
  | nil => exact absurd rfl h
  | cons b bs => rfl

theorem backCountAux_fuel : ∀ (f1 f2 : Nat) (s : Bytes), s.length ≤ f1 → s.length ≤ f2 →
    backCountAux f1 s = backCountAux f2 s := by
  intro f1
  induction f1 with
  | zero =>
    intro f2 s h1 _
    have : s = [] := List.eq_nil_of_length_eq_zero (by omega)
    subst this; rw [backCountAux_nil, backCountAux_nil]
  | succ f1 ih =>
    intro f2 s h1 h2
    by_cases hne : s = []
    · subst hne; rw [backCountAux_nil, backCountAux_nil]
    · have hp := decodeLastRune_pos s hne
      have hl := length_pos_of_ne_nil hne
      match f2, h2 with
      | 0, h2 => omega
      | f2 + 1, h2 =>
        rw [backCountAux_succ _ _ hne, backCountAux_succ _ _ hne]
        congr 1
        apply ih <;> (rw [List.length_take]; omega)

theorem backCount_nil : backCount [] = 0 := rfl

theorem backCount_step (s : Bytes) (h : s ≠ []) :
    backCount s = 1 + backCount (s.take (s.length - (decodeLastRune s).2)) := by
  have hp := decodeLastRune_pos s h
  have hl := length_pos_of_ne_nil h
  unfold backCount
  obtain ⟨k, hk⟩ : ∃ k, s.length = k + 1 := ⟨s.length - 1, by omega⟩
  rw [hk, backCountAux_succ _ _ h, ← hk,
    backCountAux_fuel k (s.take (s.length - (decodeLastRune s).2)).length _
      (by rw [List.length_take]; omega) (Nat.le_refl _)]

theorem backCount_pos (s : Bytes) (h : s ≠ []) : 1 ≤ backCount s := by
  rw [backCount_step s h]; omega

theorem backCount_eq_zero (s : Bytes) (h : backCount s = 0) : s = [] := by
  by_cases hne : s = []
  · exact hne
  · have := backCount_pos s hne; omega

theorem backCount_le_length : ∀ (k : Nat) (s : Bytes), s.length ≤ k → backCount s ≤ s.length := by
  intro k
  induction k with
  | zero => intro s h; have : s = [] := List.eq_nil_of_length_eq_zero (by omega); subst this; simp [backCount_nil]
  | succ k ih =>
    intro s h
    by_cases hne : s = []
    · subst hne; simp [backCount_nil]
    · have hp := decodeLastRune_pos s hne
      have hl := decodeLastRune_le s
      rw [backCount_step s hne]
      have := ih (s.take (s.length - (decodeLastRune s).2)) (by rw [List.length_take]; omega)
      rw [List.length_take] at this
      omega

/-- on valid UTF-8 counting from the back gives the number of code points -/
theorem backCount_encodeAll : ∀ rs : List Nat, Utf8.Scalars rs → backCount (encodeAll rs.reverse) = rs.length := by
  intro rs
  induction rs with
  | nil => intro _; rfl
  | cons c rs ih =>
    intro h
    rw [backCount_step _ (Utf8.encodeAll_reverse_cons_ne_nil c rs), Utf8.decodeLastRune_snoc c rs h.head]
    simp only [Utf8.take_snoc]
    rw [ih h.tail, List.length_cons]; omega

theorem backCount_valid (cs : List Nat) (h : Utf8.Scalars cs) : backCount (encodeAll cs) = runeCount (encodeAll cs) := by
  have := backCount_encodeAll cs.reverse h.reverse
  rw [List.reverse_reverse] at this
  rw [this, Utf8.runeCount_encodeAll cs h, List.length_reverse]

theorem backCount_dropLastRunes : ∀ (k : Nat) (s : Bytes), backCount (dropLastRunes k s) = backCount s - k := by
  intro k
  induction k with
  | zero => intro s; rfl
  | succ k ih =>
    intro s
    by_cases hne : s = []
    · subst hne; rw [Utf8.dropLastRunes_nil, backCount_nil]; omega
    · rw [Utf8.dropLastRunes_succ _ _ hne, ih, backCount_step s hne]; omega

theorem dropLastRunes_all : ∀ (k : Nat) (s : Bytes), backCount s ≤ k → dropLastRunes k s = [] := by
  intro k
  induction k with
  | zero => intro s h; exact backCount_eq_zero s (by omega)
  | succ k ih =>
    intro s h
    by_cases hne : s = []
    · subst hne; rfl
    · rw [Utf8.dropLastRunes_succ _ _ hne]
      apply ih
      rw [backCount_step s hne] at h; omega

theorem dropLastRunes_clamp (k : Nat) (s : Bytes) :
    dropLastRunes k s = dropLastRunes (min k (backCount s)) s := by
  by_cases h : k ≤ backCount s
  · rw [Nat.min_eq_left h]
  · rw [Nat.min_eq_right (by omega), dropLastRunes_all k s (by omega), dropLastRunes_all _ s (Nat.le_refl _)]

theorem dropLastRunesTicks_nil (k : Nat) : dropLastRunesTicks k [] = 0 := by cases k <;> rfl
theorem dropLastRunesTicks_succ (k : Nat) (s : Bytes) (h : s ≠ []) :
    dropLastRunesTicks (k + 1) s = 1 + dropLastRunesTicks k (s.take (s.length - (decodeLastRune s).2)) := by
  cases s with
  | nil => exact absurd rfl h
  | cons b bs => rfl

theorem dropLastRunesTicks_eq : ∀ (k : Nat) (s : Bytes), dropLastRunesTicks k s = min k (backCount s) := by
  intro k
  induction k with
  | zero => intro s; simp [dropLastRunesTicks]
  | succ k ih =>
    intro s
    by_cases hne : s = []
    · subst hne; rw [dropLastRunesTicks_nil, backCount_nil]; simp
    · rw [dropLastRunesTicks_succ _ _ hne, ih, backCount_step s hne]; omega

example : dropLastRunes (2 ^ 63) [0x61, 0x62, 0x63] = dropLastRunes 3 [0x61, 0x62, 0x63] := by
  rw [dropLastRunes_clamp]; rfl
example : dropLastRunesTicks (2 ^ 63) [0x61, 0x62, 0x63] = 3 := by rw [dropLastRunesTicks_eq]; decide

/-! ### the selecting loops -/

theorem walkCost_le (step : Nat) : ∀ (c rem : Nat), walkCost step c rem ≤ c + rem := by
  intro c
  induction c with
  | zero => intro rem; simp [walkCost]
  | succ c ih =>
    intro rem
    have := ih (rem - 1 - min (step - 1) (rem - 1))
    simp only [walkCost]
    omega

/-- the forward selecting loop on the actual string performs exactly `walkCost` decode steps -/
theorem walkFwdTicks_eq (step : Nat) : ∀ (c : Nat) (s : Bytes),
    walkFwdTicks step c s = walkCost step c (runeCount s) := by
  intro c
  induction c with
  | zero => intro s; rfl
  | succ c ih =>
    intro s
    simp only [walkFwdTicks, walkCost]
    rw [ih, dropRunesTicks_eq, runeCount_dropRunes]
    by_cases hne : s = []
    · subst hne
      have e : (decodeRune ([] : Bytes)).2 = 0 := rfl
      rw [e, List.drop_zero, runeCount_nil]; simp
    · rw [runeCount_step s hne]
      have e1 : 1 + runeCount (s.drop (decodeRune s).2) - 1 = runeCount (s.drop (decodeRune s).2) := by omega
      rw [e1]
      have e2 : runeCount (s.drop (decodeRune s).2) - (step - 1)
          = runeCount (s.drop (decodeRune s).2) - min (step - 1) (runeCount (s.drop (decodeRune s).2)) := by omega
      rw [e2]

theorem walkBwdTicks_eq (step : Nat) : ∀ (c : Nat) (s : Bytes),
    walkBwdTicks step c s = walkCost step c (backCount s) := by
  intro c
  induction c with
  | zero => intro s; rfl
  | succ c ih =>
    intro s
    simp only [walkBwdTicks, walkCost]
    rw [ih, dropLastRunesTicks_eq, backCount_dropLastRunes]
    by_cases hne : s = []
    · subst hne
      have e : (decodeLastRune ([] : Bytes)).2 = 0 := rfl
      rw [e]; simp [backCount_nil]
    · rw [backCount_step s hne]
      generalize backCount (s.take (s.length - (decodeLastRune s).2)) = r
      have e1 : 1 + r - 1 = r := by omega
      rw [e1]
      have e2 : r - (step - 1) = r - min (step - 1) r := by omega
      rw [e2]

/-- a step of 2^62 on a three-letter string: one decode and two skips, not 2^62 -/
example : walkFwdTicks (2 ^ 62) 1 [0x61, 0x62, 0x63] = 3 := by rw [walkFwdTicks_eq]; decide
example : walkBwdTicks (2 ^ 63) 1 [0x61, 0x62, 0x63] = 3 := by
  rw [walkBwdTicks_eq]
  have : backCount [0x61, 0x62, 0x63] = 3 := by decide
  rw [this]; decide

/-! ### the offset conversion loop of `find_first` / `find_last` -/

theorem runeOffset_nil (i : Nat) (acc : Nat) : runeOffset (i + 1) [] acc = none := rfl

/-- asking for an offset beyond the end fails -/
theorem runeOffset_none : ∀ (i : Nat) (s : Bytes) (acc : Nat), runeCount s < i → runeOffset i s acc = none := by
  intro i
  induction i with
  | zero => intro s acc h; omega
  | succ i ih =>
    intro s acc h
    by_cases hne : s = []
    · subst hne; rfl
    · rw [Utf8.runeOffset_succ _ _ _ hne]
      apply ih
      rw [runeCount_step s hne] at h; omega

/-- … after at most `runeCount s + 1` recursion steps: the result for `i` is the result for `min i (runeCount s + 1)` -/
theorem runeOffset_clamp (i : Nat) (s : Bytes) (acc : Nat) :
    runeOffset i s acc = runeOffset (min i (runeCount s + 1)) s acc := by
  by_cases h : i ≤ runeCount s + 1
  · rw [Nat.min_eq_left h]
  · rw [Nat.min_eq_right (by omega), runeOffset_none i s acc (by omega), runeOffset_none _ s acc (by omega)]

theorem runeOffsetTicks_nil (i : Nat) : runeOffsetTicks (i + 1) [] = 1 := rfl
theorem runeOffsetTicks_succ (i : Nat) (s : Bytes) (h : s ≠ []) :
    runeOffsetTicks (i + 1) s = 1 + runeOffsetTicks i (s.drop (decodeRune s).2) := by
  cases s with
  | nil => exact absurd rfl h
  | cons b bs => rfl

theorem runeOffsetTicks_eq : ∀ (i : Nat) (s : Bytes), runeOffsetTicks i s = min i (runeCount s + 1) := by
  intro i
  induction i with
  | zero => intro s; simp [runeOffsetTicks]
  | succ i ih =>
    intro s
    by_cases hne : s = []
    · subst hne; rw [runeOffsetTicks_nil, runeCount_nil]; omega
    · rw [runeOffsetTicks_succ _ _ hne, ih, runeCount_step s hne]; omega

example : runeOffset (2 ^ 62) [0x61, 0x62, 0x63] 0 = none := runeOffset_none _ _ _ (by decide)
example : runeOffsetTicks (2 ^ 62) [0x61, 0x62, 0x63] = 4 := by rw [runeOffsetTicks_eq]; decide

/-- item 3, collected -/
theorem walk_skips_bounded (k : Nat) (s : Bytes) (acc : Nat) :
    dropRunes k s = dropRunes (min k (runeCount s)) s ∧
    dropRunesTicks k s = min k (runeCount s) ∧
    dropLastRunes k s = dropLastRunes (min k (backCount s)) s ∧
    dropLastRunesTicks k s = min k (backCount s) ∧
    runeOffset k s acc = runeOffset (min k (runeCount s + 1)) s acc ∧
    runeOffsetTicks k s = min k (runeCount s + 1) ∧
    (runeCount s < k → runeOffset k s acc = none) ∧
    runeCount s ≤ s.length ∧ backCount s ≤ s.length :=
  ⟨dropRunes_clamp k s, dropRunesTicks_eq k s, dropLastRunes_clamp k s, dropLastRunesTicks_eq k s,
   runeOffset_clamp k s acc, runeOffsetTicks_eq k s, runeOffset_none k s acc,
   runeCount_le_length _ s (Nat.le_refl _), backCount_le_length _ s (Nat.le_refl _)⟩

/-! ## 2. Every closed form is linear in the length, for all integer parameters -/

/-- `slice`: an array costs one step; a string of `n` code points costs at most `2 n` decode steps
    (`n` of them are the `RuneCountInString` pass), ∀ start stop : Int -/
theorem slice_cost_bound (n : Int) (hn : 0 ≤ n) : ∀ start stop : Int,
    sliceArrayCost n start stop = 1 ∧ sliceStringCost n start stop ≤ 2 * n.toNat := by
  intro start stop
  refine ⟨rfl, ?_⟩
  unfold sliceStringCost
  cases h : clamp1 n start stop with
  | none => simp only; omega
  | some p =>
    obtain ⟨a, b⟩ := p
    have := clamp1_bounds n start stop a b hn h
    simp only; omega

example : sliceStringCost 3 (-(2 ^ 63)) (2 ^ 63 - 1) = 6 := by decide
example : sliceStringCost 3 (2 ^ 62) (2 ^ 63 - 1) = 3 := by decide

theorem walkCost_total (n lead cnt step : Nat) (hl : lead ≤ n) :
    lead + walkCost step cnt (n - lead) ≤ n + cnt := by
  have := walkCost_le step cnt (n - lead); omega

/-- `sliceStep`: ∀ start stop step : Int (zero, `2^63 - 1`, `-2^63` and values beyond 64 bits included) the copy loop
    and the `make` are at most `n`, and the string branch performs at most `2 n` decode steps after the counting
    pass, `4 n` ticks and cells in all -/
theorem sliceStep_cost_bound (n : Int) (hn : 0 ≤ n) : ∀ start stop step : Int,
    sliceStepArrayTicks n start stop step ≤ n.toNat ∧
    sliceStepArrayCells n start stop step ≤ n.toNat ∧
    sliceStepArrayCost n start stop step ≤ 2 * n.toNat ∧
    sliceStepStringDecodes n start stop step ≤ 2 * n.toNat ∧
    sliceStepStringCost n start stop step ≤ 4 * n.toNat := by
  intro start stop step
  have h1 : sliceStepArrayTicks n start stop step ≤ n.toNat := by
    unfold sliceStepArrayTicks
    cases h : clampStep n start stop step with
    | none => simp only; omega
    | some p =>
      obtain ⟨a, cnt⟩ := p
      have := clampStep_bounds n start stop step a cnt h
      simp only; omega
  have h2 : sliceStepStringDecodes n start stop step ≤ 2 * n.toNat := by
    unfold sliceStepStringDecodes
    cases h : clampStep n start stop step with
    | none => simp only; omega
    | some p =>
      obtain ⟨a, cnt⟩ := p
      have hb := clampStep_bounds n start stop step a cnt h
      have hl : leadSkips n a step ≤ n.toNat := by unfold leadSkips; split <;> omega
      have := walkCost_total n.toNat (leadSkips n a step) cnt.toNat step.natAbs hl
      simp only; omega
  unfold sliceStepArrayCost sliceStepStringCost sliceStepArrayCells sliceStepStringCells
  omega

example : sliceStepArrayCost 5 (-(2 ^ 63)) (2 ^ 63 - 1) (2 ^ 62) = 2 := by decide
example : sliceStepArrayCost 5 (2 ^ 63 - 1) (-(2 ^ 63)) (-(2 ^ 63)) = 2 := by decide
example : sliceStepStringCost 3 0 (2 ^ 63 - 1) (2 ^ 62) = 3 + 3 + 1 := by decide
example : sliceStepStringCost 3 (2 ^ 63 - 1) (-(2 ^ 63)) (-(2 ^ 63)) = 3 + 3 + 1 := by decide

/-! ### the closed forms are what the model does on the actual string -/

theorem runesLenTicks_nil (k : Nat) : runesLenTicks k [] = 0 := by cases k <;> rfl
theorem runesLenTicks_succ (k : Nat) (s : Bytes) (h : s ≠ []) :
    runesLenTicks (k + 1) s = 1 + runesLenTicks k (s.drop (decodeRune s).2) := by
  cases s with
  | nil => exact absurd rfl h
  | cons b bs => rfl

theorem runesLenTicks_eq : ∀ (k : Nat) (s : Bytes), runesLenTicks k s = min k (runeCount s) := by
  intro k
  induction k with
  | zero => intro s; simp [runesLenTicks]
  | succ k ih =>
    intro s
    by_cases hne : s = []
    · subst hne; rw [runesLenTicks_nil, runeCount_nil]; simp
    · rw [runesLenTicks_succ _ _ hne, ih, runeCount_step s hne]; omega

/-- the model's `slice` on `s` performs exactly the decode steps of the closed form -/
theorem sliceStringTicks_eq (s : Bytes) (start stop : Int) :
    runeCount s + sliceStringTicks s start stop = sliceStringCost (runeCount s) start stop := by
  unfold sliceStringTicks sliceStringCost
  cases h : clamp1 (runeCount s) start stop with
  | none => simp
  | some p =>
    obtain ⟨a, b⟩ := p
    have := clamp1_bounds _ start stop a b (by omega) h
    simp only
    rw [dropRunesTicks_eq, runesLenTicks_eq, runeCount_dropRunes]
    omega

/-- positive step: the model's `sliceStep` on `s` performs exactly the decode steps of the closed form -/
theorem sliceStepStringTicks_fwd (s : Bytes) (start stop step : Int) (hp : step > 0) :
    sliceStepStringTicks s start stop step = sliceStepStringDecodes (runeCount s) start stop step := by
  unfold sliceStepStringTicks sliceStepStringDecodes
  dsimp only
  cases h : clampStep (runeCount s) start stop step with
  | none => rfl
  | some p =>
    obtain ⟨a, cnt⟩ := p
    have := clampStep_bounds _ start stop step a cnt h
    simp only [hp, if_true, leadSkips]
    rw [dropRunesTicks_eq, walkFwdTicks_eq, runeCount_dropRunes]
    have e1 : step.toNat = step.natAbs := by omega
    have e2 : min a.toNat (runeCount s) = a.toNat := by omega
    have e3 : ((runeCount s : Nat) : Int).toNat = runeCount s := by omega
    rw [e1, e2, e3]

/-- negative step: the same when decoding from the back finds as many code points as decoding from the front
    (always so on valid UTF-8, `backCount_valid`) -/
theorem sliceStepStringTicks_bwd (s : Bytes) (start stop step : Int) (hp : ¬ step > 0)
    (hv : backCount s = runeCount s) :
    sliceStepStringTicks s start stop step = sliceStepStringDecodes (runeCount s) start stop step := by
  unfold sliceStepStringTicks sliceStepStringDecodes
  dsimp only
  cases h : clampStep (runeCount s) start stop step with
  | none => rfl
  | some p =>
    obtain ⟨a, cnt⟩ := p
    have := clampStep_bounds _ start stop step a cnt h
    simp only [hp, if_false, leadSkips]
    rw [dropLastRunesTicks_eq, walkBwdTicks_eq, backCount_dropLastRunes, hv]
    have e1 : (-step).toNat = step.natAbs := by omega
    have e2 : min ((runeCount s : Int) - 1 - a).toNat (runeCount s) = ((runeCount s : Int) - 1 - a).toNat := by omega
    have e3 : ((runeCount s : Nat) : Int).toNat = runeCount s := by omega
    rw [e1, e2, e3]

/-- whatever the bytes and the integers: at most `2·|s|` decode steps -/
theorem sliceStepStringTicks_le (s : Bytes) : ∀ start stop step : Int,
    sliceStepStringTicks s start stop step ≤ 2 * s.length := by
  intro start stop step
  have hr := runeCount_le_length _ s (Nat.le_refl _)
  have hb := backCount_le_length _ s (Nat.le_refl _)
  unfold sliceStepStringTicks
  dsimp only
  cases h : clampStep (runeCount s) start stop step with
  | none => simp
  | some p =>
    obtain ⟨a, cnt⟩ := p
    have := clampStep_bounds _ start stop step a cnt h
    simp only
    split
    · rw [dropRunesTicks_eq, walkFwdTicks_eq, runeCount_dropRunes]
      have := walkCost_le step.toNat cnt.toNat (runeCount s - a.toNat)
      omega
    · rw [dropLastRunesTicks_eq, walkBwdTicks_eq, backCount_dropLastRunes]
      have := walkCost_le (-step).toNat cnt.toNat (backCount s - ((runeCount s : Int) - 1 - a).toNat)
      omega

/-- "héllo"[::2^62]: 6 bytes, 5 code points; one selected code point and four skips -/
example : sliceStepStringTicks [0x68, 0xC3, 0xA9, 0x6C, 0x6C, 0x6F] 0 (2 ^ 63 - 1) (2 ^ 62) = 5 := by
  rw [sliceStepStringTicks_fwd _ _ _ _ (by decide)]; decide

/-! ### `find_first` / `find_last` -/

theorem startOffsetTicks_eq (s : Bytes) (i : Int) :
    startOffsetTicks s i = offsetTicks s.length (runeCount s) i := by
  unfold startOffsetTicks offsetTicks; rw [runeOffsetTicks_eq]

theorem finishOffsetTicks_eq (s : Bytes) (j : Int) :
    finishOffsetTicks s j = offsetTicks s.length (runeCount s) j := by
  unfold finishOffsetTicks offsetTicks; rw [runeOffsetTicks_eq]

theorem offsetTicks_le (len n : Nat) (i : Int) : offsetTicks len n i ≤ n + 1 := by
  unfold offsetTicks; split
  · omega
  · split <;> omega

/-- the search window is a part of the subject -/
theorem find_window_le (s : Bytes) (i j : Nat) : ((s.drop i).take (j - i)).length ≤ s.length := by
  rw [List.length_take, List.length_drop]; omega

/-- ∀ i j : Int, the offsets cost at most `n + 1` iterations each; the whole call is linear in the subject -/
theorem find_cost_bound (len n : Nat) : ∀ i j : Int, findCost len n i j ≤ 2 * (n + 1) + 2 * len + 1 := by
  intro i j
  have := offsetTicks_le len n i
  have := offsetTicks_le len n j
  unfold findCost; omega

example : findCost 3 3 (2 ^ 62) (2 ^ 63 - 1) = 7 := by decide
example : findCost 3 3 (-(2 ^ 63)) 2 = 9 := by decide
example : startOffsetTicks [0x61, 0x62, 0x63] 3 = 3 := by rw [startOffsetTicks_eq]; decide

/-! ## 4. Memory: the size of the result never depends on the magnitude of an integer -/

/-! ### arrays -/

theorem pickStep_length (xs : List Val) (step : Int) : ∀ (k : Nat) (a : Int), (pickStep xs a step k).length = k := by
  intro k
  induction k with
  | zero => intro a; rfl
  | succ k ih => intro a; simp [pickStep, ih]

/-- `slice` on an array of length `n`: at most `n` elements, ∀ start stop : Int -/
theorem slice_array_size (t : ATag) (xs : List Val) : ∀ (start stop : Int) (r : Val),
    slice (.arr t xs) start stop = .ok r → ∃ ys, r = .arr .plain ys ∧ ys.length ≤ xs.length := by
  intro start stop r h
  simp only [slice] at h
  split at h
  · cases h; exact ⟨[], rfl, by simp⟩
  · split at h
    · cases h; exact ⟨[], rfl, by simp⟩
    · split at h
      · cases h
      · cases h; refine ⟨_, rfl, ?_⟩
        rw [List.length_take, List.length_drop]; omega

/-- `sliceStep` on an array of length `n`: at most `n` elements, ∀ start stop step : Int -/
theorem sliceStep_array_size (t : ATag) (xs : List Val) : ∀ (start stop step : Int) (r : Val),
    sliceStep (.arr t xs) start stop step = .ok r → ∃ ys, r = .arr .plain ys ∧ ys.length ≤ xs.length := by
  intro start stop step r h
  simp only [sliceStep] at h
  split at h
  · cases h; exact ⟨[], rfl, by simp⟩
  · rename_i a cnt hc
    have := clampStep_bounds _ start stop step a cnt hc
    split at h
    · cases h
    · cases h; refine ⟨_, rfl, ?_⟩
      rw [pickStep_length]; omega

example : sliceStep (.arr .plain [.null, .bool true, .null]) (-(2 ^ 63)) (2 ^ 63 - 1) (2 ^ 62)
    = .ok (.arr .plain [.null]) := by rfl
example : sliceStep (.arr .plain [.null, .bool true, .null]) (2 ^ 63 - 1) (-(2 ^ 63)) (-(2 ^ 63))
    = .ok (.arr .plain [.null]) := by rfl

/-! ### strings -/

theorem dropRunes_length_le : ∀ (k : Nat) (s : Bytes), (dropRunes k s).length ≤ s.length := by
  intro k
  induction k with
  | zero => intro s; exact Nat.le_refl _
  | succ k ih =>
    intro s
    by_cases hne : s = []
    · subst hne; simp [dropRunes]
    · rw [Utf8.dropRunes_succ _ _ hne]
      have := ih (s.drop (decodeRune s).2)
      rw [List.length_drop] at this; omega

/-- `slice` on a string: the result is a piece of the subject, never longer (bytes, hence code points ≤ bytes) -/
theorem slice_string_size (s : Bytes) : ∀ (start stop : Int) (r : Val),
    slice (.str s) start stop = .ok r → ∃ b, r = .str b ∧ b.length ≤ s.length ∧ runeCount b ≤ s.length := by
  intro start stop r h
  simp only [slice] at h
  split at h
  · cases h; exact ⟨[], rfl, by simp, by simp [runeCount_nil]⟩
  · cases h
    refine ⟨_, rfl, ?_⟩
    have h1 := dropRunes_length_le
    rename_i a b _
    have h1 := dropRunes_length_le a.toNat s
    have h2 : (List.take (runesLen (b - a).toNat (dropRunes a.toNat s)) (dropRunes a.toNat s)).length ≤ s.length := by
      rw [List.length_take]; omega
    exact ⟨h2, Nat.le_trans (runeCount_le_length _ _ (Nat.le_refl _)) h2⟩

/-- … and on valid UTF-8 it is the code points `a … b-1`: at most as many code points as the subject -/
theorem slice_string_codepoints (cs : List Nat) (hcs : Utf8.Scalars cs) : ∀ (start stop : Int) (r : Val),
    slice (.str (encodeAll cs)) start stop = .ok r → ∃ b, r = .str b ∧ runeCount b ≤ cs.length := by
  intro start stop r h
  simp only [slice] at h
  split at h
  · cases h; exact ⟨[], rfl, by simp [runeCount_nil]⟩
  · cases h
    refine ⟨_, rfl, ?_⟩
    rw [Utf8.dropRunes_encodeAll _ cs hcs, Utf8.take_runesLen_encodeAll _ _ (hcs.drop _),
      Utf8.runeCount_encodeAll _ ((hcs.drop _).take _), List.length_take, List.length_drop]
    omega

/-- a decoded rune re-encodes like a scalar value (invalid input becomes U+FFFD) -/
def fixRune (r : Nat) : Nat := if isScalar r then r else RuneError

theorem fixRune_scalar (r : Nat) : isScalar (fixRune r) = true := by
  unfold fixRune; split
  · assumption
  · exact Utf8.isScalar_runeError

theorem encodeRune_fix (r : Nat) : encodeRune (fixRune r) = encodeRune r := by
  unfold fixRune
  by_cases h : isScalar r = true
  · simp [h]
  · have h' : ¬ (r < 0xD800 ∨ (0xDFFF < r ∧ r ≤ 0x10FFFF)) := fun c => h ((Utf8.isScalar_iff r).2 c)
    have e : encodeRune r = [0xEF, 0xBF, 0xBD] := by
      unfold encodeRune
      have a1 : ¬ r < 0x80 := by omega
      have a2 : ¬ r < 0x800 := by omega
      simp [a1, a2, h]
    rw [if_neg h, e]; decide

/-- the selecting loops write exactly `c` code points (`b.WriteRune` `c` times): `c ≤ n` code points, `≤ 4c` bytes -/
theorem walkFwd_runes (step : Nat) : ∀ (c : Nat) (s : Bytes),
    ∃ rs : List Nat, rs.length = c ∧ Utf8.Scalars rs ∧ walkFwd step c s = encodeAll rs := by
  intro c
  induction c with
  | zero => intro s; exact ⟨[], rfl, Utf8.Scalars.nil, rfl⟩
  | succ c ih =>
    intro s
    obtain ⟨rs, h1, h2, h3⟩ := ih (dropRunes (step - 1) (s.drop (decodeRune s).2))
    refine ⟨fixRune (decodeRune s).1 :: rs, by simp [h1], Utf8.Scalars.cons (fixRune_scalar _) h2, ?_⟩
    rw [Utf8.walkFwd_succ, h3, Utf8.encodeAll_cons, encodeRune_fix]

theorem walkBwd_runes (step : Nat) : ∀ (c : Nat) (s : Bytes),
    ∃ rs : List Nat, rs.length = c ∧ Utf8.Scalars rs ∧ walkBwd step c s = encodeAll rs := by
  intro c
  induction c with
  | zero => intro s; exact ⟨[], rfl, Utf8.Scalars.nil, rfl⟩
  | succ c ih =>
    intro s
    obtain ⟨rs, h1, h2, h3⟩ :=
      ih (dropLastRunes (step - 1) (s.take (s.length - (decodeLastRune s).2)))
    refine ⟨fixRune (decodeLastRune s).1 :: rs, by simp [h1], Utf8.Scalars.cons (fixRune_scalar _) h2, ?_⟩
    rw [Utf8.walkBwd_succ, h3, Utf8.encodeAll_cons, encodeRune_fix]

theorem encodeAll_length_le (rs : List Nat) : (encodeAll rs).length ≤ 4 * rs.length := by
  induction rs with
  | nil => simp [encodeAll]
  | cons r rs ih =>
    rw [Utf8.encodeAll_cons, List.length_append, List.length_cons]
    have := Utf8.encodeRune_length_le r; omega

/-- `sliceStep` on a string (any bytes) of `n` code points: the result has at most `n` code points and `4 n` bytes,
    ∀ start stop step : Int -/
theorem sliceStep_string_size (s : Bytes) : ∀ (start stop step : Int) (r : Val),
    sliceStep (.str s) start stop step = .ok r →
      ∃ b, r = .str b ∧ runeCount b ≤ runeCount s ∧ b.length ≤ 4 * runeCount s := by
  intro start stop step r h
  simp only [sliceStep] at h
  split at h
  · cases h; exact ⟨[], rfl, by simp [runeCount_nil], by simp⟩
  · rename_i a cnt hc
    have hb := clampStep_bounds _ start stop step a cnt hc
    split at h
    · cases h
      obtain ⟨rs, h1, h2, h3⟩ := walkFwd_runes step.toNat cnt.toNat (dropRunes a.toNat s)
      refine ⟨_, rfl, ?_⟩
      rw [h3, Utf8.runeCount_encodeAll rs h2]
      have := encodeAll_length_le rs
      omega
    · cases h
      obtain ⟨rs, h1, h2, h3⟩ := walkBwd_runes (-step).toNat cnt.toNat
        (dropLastRunes ((runeCount s : Int) - 1 - a).toNat s)
      refine ⟨_, rfl, ?_⟩
      rw [h3, Utf8.runeCount_encodeAll rs h2]
      have := encodeAll_length_le rs
      omega

example : sliceStep (.str [0x61, 0x62, 0x63]) 0 (2 ^ 63 - 1) (2 ^ 62) = .ok (.str [0x61]) := by rfl
example : sliceStep (.str [0x61, 0x62, 0x63]) (2 ^ 63 - 1) (-(2 ^ 63)) (-(2 ^ 63)) = .ok (.str [0x63]) := by rfl

/-! ### `split` / `splitCount`: the count is clamped by the separators present -/

theorem isPrefixOf_length_le {p s : Bytes} (h : p.isPrefixOf s = true) : p.length ≤ s.length :=
  (List.isPrefixOf_iff_prefix.1 h).length_le

/-- the result has one more cell than separators consumed -/
theorem splitAux_length : ∀ (fuel : Nat) (s p : Bytes) (n : Option Nat) (cur : Bytes),
    (splitAux fuel s p n cur).length = splitTicks fuel s p n + 1 := by
  intro fuel
  induction fuel with
  | zero => intro s p n cur; rfl
  | succ fuel ih =>
    intro s p n cur
    cases s with
    | nil => simp only [splitAux, splitTicks]; split <;> rfl
    | cons b t =>
      simp only [splitAux, splitTicks]
      split
      · rfl
      · split
        · rw [List.length_cons, ih]; omega
        · rw [ih]

/-- a count larger than the number of separators present changes nothing: `min count occurrences` -/
theorem splitTicks_clamp : ∀ (fuel : Nat) (s p : Bytes) (k : Nat),
    splitTicks fuel s p (some k) = min k (splitTicks fuel s p none) := by
  intro fuel
  induction fuel with
  | zero => intro s p k; simp [splitTicks]
  | succ fuel ih =>
    intro s p k
    simp only [splitTicks]
    by_cases hk : k = 0
    · subst hk; simp
    · have e : ¬ (some k = some 0) := by simp [hk]
      have e' : ¬ ((none : Option Nat) = some 0) := by simp
      simp only [e, e', if_false, Option.map_some, Option.map_none]
      split
      · simp
      · split
        · rw [ih]; omega
        · rw [ih]

theorem splitTicks_le (p : Bytes) (hp : p ≠ []) : ∀ (fuel : Nat) (s : Bytes) (n : Option Nat),
    splitTicks fuel s p n ≤ s.length := by
  intro fuel
  induction fuel with
  | zero => intro s n; simp [splitTicks]
  | succ fuel ih =>
    intro s n
    cases s with
    | nil => simp only [splitTicks]; split <;> simp
    | cons b t =>
      simp only [splitTicks]
      split
      · omega
      · split
        · rename_i hpre
          have h1 := isPrefixOf_length_le hpre
          have h2 := length_pos_of_ne_nil hp
          have := ih ((b :: t).drop p.length) (n.map (· - 1))
          rw [List.length_drop] at this
          omega
        · have := ih t n
          simp only [List.length_cons]; omega

theorem occurrences_le (s p : Bytes) (hp : p ≠ []) : occurrences s p ≤ s.length :=
  splitTicks_le p hp _ s none

/-- `splitOn s p (some count)` has `min count occurrences + 1` pieces, whatever `count` -/
theorem splitOn_length (s p : Bytes) (k : Nat) :
    (splitOn s p (some k)).length = min k (occurrences s p) + 1 := by
  unfold splitOn occurrences; rw [splitAux_length, splitTicks_clamp]

theorem splitOn_length_none (s p : Bytes) : (splitOn s p none).length = occurrences s p + 1 := by
  unfold splitOn occurrences; rw [splitAux_length]

theorem runePiecesAux_length : ∀ (fuel : Nat) (s : Bytes), s.length ≤ fuel →
    (runePiecesAux fuel s).length = runeCount s := by
  intro fuel
  induction fuel with
  | zero =>
    intro s h
    have : s = [] := List.eq_nil_of_length_eq_zero (by omega)
    subst this; rfl
  | succ fuel ih =>
    intro s h
    by_cases hne : s = []
    · subst hne; rfl
    · have hp := decodeRune_pos s hne
      have hl := length_pos_of_ne_nil hne
      rw [Utf8.runePiecesAux_succ _ _ hne, List.length_cons, ih _ (by rw [List.length_drop]; omega),
        runeCount_step s hne]
      omega

theorem runePieces_length (s : Bytes) : (runePieces s).length = runeCount s :=
  runePiecesAux_length _ s (Nat.le_refl _)

/-- the empty separator: `min (count + 1) (runeCount s)` pieces -/
theorem splitRunes_length (s : Bytes) (k : Nat) :
    (splitRunes s (some k)).length = min (k + 1) (runeCount s) := by
  unfold splitRunes
  simp only
  rw [← runePieces_length s]
  split
  · omega
  · simp [List.length_append, List.length_take]; omega

theorem splitRunes_length_none (s : Bytes) : (splitRunes s none).length = runeCount s := by
  unfold splitRunes; exact runePieces_length s

theorem ok_bind {α β} (a : α) (f : α → Res β) : (Res.ok a >>= f) = f a := rfl
theorem pure_ok {α} (a : α) : (pure a : Res α) = Res.ok a := rfl
theorem intArg_i64 (c : Int) : intArg (.num (.int .i64 c)) = .ok c := rfl

/-- `split(s, sep, count)`: ∀ count : Int the result has at most `|s| + 1` elements; with a non-empty separator
    exactly `splitCells (occurrences s sep) count = min count occurrences + 1` -/
theorem splitCount_size (s p : Bytes) : ∀ (count : Int) (r : Val),
    splitCount (.str s) (.str p) (.num (.int .i64 count)) = .ok r →
      ∃ ys, r = .arr .plain ys ∧ ys.length ≤ s.length + 1 ∧
        (s ≠ [] → p ≠ [] → 0 < count → ys.length = splitCells (occurrences s p) count) := by
  intro count r h
  have hr := runeCount_le_length _ s (Nat.le_refl _)
  simp only [splitCount, strArg, intArg_i64, ok_bind, pure_ok] at h
  split at h
  · cases h
  · split at h
    · cases h; exact ⟨_, rfl, by simp, by omega⟩
    · split at h
      · rename_i he
        cases h
        refine ⟨_, rfl, by simp, fun hs => ?_⟩
        exact absurd (List.isEmpty_iff.1 he) hs
      · split at h
        · rename_i he
          cases h
          refine ⟨_, rfl, ?_, fun _ hp => absurd (List.isEmpty_iff.1 he) hp⟩
          rw [List.length_map, splitRunes_length]; omega
        · rename_i he
          cases h
          have hp : p ≠ [] := fun c => he (by rw [c]; rfl)
          have ho := occurrences_le s p hp
          refine ⟨_, rfl, ?_, fun _ _ _ => ?_⟩
          · rw [List.length_map, splitOn_length]; omega
          · unfold splitCells; rw [List.length_map, splitOn_length]

theorem split_size (s p : Bytes) (r : Val) (h : split (.str s) (.str p) = .ok r) :
    ∃ ys, r = .arr .plain ys ∧ ys.length ≤ s.length + 1 := by
  have hr := runeCount_le_length _ s (Nat.le_refl _)
  simp only [split, strArg, ok_bind, pure_ok] at h
  split at h
  · cases h; exact ⟨_, rfl, by simp⟩
  · split at h
    · cases h; refine ⟨_, rfl, ?_⟩
      rw [List.length_map, splitRunes_length_none]; omega
    · rename_i he
      cases h
      have hp : p ≠ [] := fun c => he (by rw [c]; rfl)
      have ho := occurrences_le s p hp
      refine ⟨_, rfl, ?_⟩
      rw [List.length_map, splitOn_length_none]; omega

/-- split('a,b,c', ',', 2^62) and split('ab', '', 2^63-1) (the two witnesses of finding F03) -/
example : splitCount (.str [0x61, 0x2C, 0x62, 0x2C, 0x63]) (.str [0x2C]) (.num (.int .i64 (2 ^ 62)))
    = .ok (.arr .plain [.str [0x61], .str [0x62], .str [0x63]]) := by rfl
example : splitCount (.str [0x61, 0x62]) (.str []) (.num (.int .i64 (2 ^ 63 - 1)))
    = .ok (.arr .plain [.str [0x61], .str [0x62]]) := by rfl
example : splitCells 2 (2 ^ 62) = 3 := by decide
example : splitCost 2 (2 ^ 63 - 1) = 6 := by decide

theorem split_cost_bound (occ : Nat) : ∀ count : Int, splitCost occ count ≤ 2 * (occ + 1) := by
  intro count; unfold splitCost splitCells; omega

/-! ### `replace` / `replaceCount` -/

theorem replaceTicks_clamp : ∀ (fuel : Nat) (s old : Bytes) (k : Nat),
    replaceTicks fuel s old (some k) = min k (replaceTicks fuel s old none) := by
  intro fuel
  induction fuel with
  | zero => intro s p k; simp [replaceTicks]
  | succ fuel ih =>
    intro s p k
    simp only [replaceTicks]
    by_cases hk : k = 0
    · subst hk; simp
    · have e : ¬ (some k = some 0) := by simp [hk]
      have e' : ¬ ((none : Option Nat) = some 0) := by simp
      simp only [e, e', if_false, Option.map_some, Option.map_none]
      split
      · simp
      · split
        · rw [ih]; omega
        · rw [ih]

theorem replaceTicks_le (old : Bytes) (hp : old ≠ []) : ∀ (fuel : Nat) (s : Bytes) (n : Option Nat),
    replaceTicks fuel s old n ≤ s.length := by
  intro fuel
  induction fuel with
  | zero => intro s n; simp [replaceTicks]
  | succ fuel ih =>
    intro s n
    cases s with
    | nil => simp only [replaceTicks]; split <;> simp
    | cons b t =>
      simp only [replaceTicks]
      split
      · omega
      · split
        · rename_i hpre
          have h1 := isPrefixOf_length_le hpre
          have h2 := length_pos_of_ne_nil hp
          have := ih ((b :: t).drop old.length) (n.map (· - 1))
          rw [List.length_drop] at this
          omega
        · have := ih t n
          simp only [List.length_cons]; omega

/-- the exact size of the result of `strings.Replace` for a non-empty `old`:
    `|result| + k·|old| = |s| + k·|new|` with `k = replaceTicks` replacements -/
theorem replaceAux_length (old new : Bytes) : ∀ (fuel : Nat) (s : Bytes) (n : Option Nat),
    (replaceAux fuel s old new n).length + replaceTicks fuel s old n * old.length
      = s.length + replaceTicks fuel s old n * new.length := by
  intro fuel
  induction fuel with
  | zero => intro s n; simp [replaceAux, replaceTicks]
  | succ fuel ih =>
    intro s n
    cases s with
    | nil => simp only [replaceAux, replaceTicks]; split <;> simp
    | cons b t =>
      simp only [replaceAux, replaceTicks]
      split
      · simp
      · split
        · rename_i hpre
          have h1 := isPrefixOf_length_le hpre
          have := ih ((b :: t).drop old.length) (n.map (· - 1))
          rw [List.length_drop] at this
          simp only [List.length_append, Nat.add_mul, Nat.one_mul]
          omega
        · have := ih t n
          simp only [List.length_cons]; omega

def joinLen (ps : List Bytes) : Nat := (ps.foldr (· ++ ·) []).length

theorem replaceEmptyAux_length (new : Bytes) : ∀ (ps : List Bytes) (n : Option Nat),
    (replaceEmptyAux ps new n).length ≤ joinLen ps + (ps.length + 1) * new.length := by
  intro ps
  induction ps with
  | nil =>
    intro n; simp only [replaceEmptyAux, joinLen]
    split <;> simp
  | cons p ps ih =>
    intro n
    simp only [replaceEmptyAux, joinLen]
    split
    · simp only [List.foldr_cons]; omega
    · have := ih (n.map (· - 1))
      unfold joinLen at this
      simp only [List.foldr_cons, List.length_append, List.length_cons, Nat.add_mul, Nat.one_mul] at this ⊢
      omega

theorem runePiecesAux_join : ∀ (fuel : Nat) (s : Bytes), s.length ≤ fuel →
    (runePiecesAux fuel s).foldr (· ++ ·) [] = s := by
  intro fuel
  induction fuel with
  | zero =>
    intro s h
    have : s = [] := List.eq_nil_of_length_eq_zero (by omega)
    subst this; rfl
  | succ fuel ih =>
    intro s h
    by_cases hne : s = []
    · subst hne; rfl
    · have hp := decodeRune_pos s hne
      have hl := length_pos_of_ne_nil hne
      rw [Utf8.runePiecesAux_succ _ _ hne, List.foldr_cons, ih _ (by rw [List.length_drop]; omega)]
      exact List.take_append_drop _ _

theorem runePieces_joinLen (s : Bytes) : joinLen (runePieces s) = s.length := by
  unfold joinLen runePieces; rw [runePiecesAux_join _ s (Nat.le_refl _)]

/-- `strings.Replace(s, old, new, n)`: ∀ n (absent, or any count) the result has at most `|s| + (|s|+1)·|new|` bytes -/
theorem stringsReplace_length_le (s old new : Bytes) : ∀ n : Option Nat,
    (stringsReplace s old new n).length ≤ s.length + (s.length + 1) * new.length := by
  intro n
  unfold stringsReplace
  split
  · have h1 := replaceEmptyAux_length new (runePieces s) n
    rw [runePieces_joinLen, runePieces_length] at h1
    have h2 := runeCount_le_length _ s (Nat.le_refl _)
    have h3 : (runeCount s + 1) * new.length ≤ (s.length + 1) * new.length :=
      Nat.mul_le_mul_right _ (by omega)
    omega
  · rename_i he
    have hp : old ≠ [] := fun c => he (by rw [c]; rfl)
    have h1 := replaceAux_length old new (s.length + 1) s n
    have h2 := replaceTicks_le old hp (s.length + 1) s n
    have h3 : replaceTicks (s.length + 1) s old n * new.length ≤ (s.length + 1) * new.length :=
      Nat.mul_le_mul_right _ (by omega)
    omega

/-- the number of replacements is `min count occurrences` -/
theorem replace_count_clamp (s old : Bytes) (k : Nat) :
    replaceTicks (s.length + 1) s old (some k) = min k (replaceTicks (s.length + 1) s old none) :=
  replaceTicks_clamp _ s old k

theorem replaceCount_size (s old new : Bytes) : ∀ (count : Int) (r : Val),
    replaceCount (.str s) (.str old) (.str new) (.num (.int .i64 count)) = .ok r →
      ∃ b, r = .str b ∧ b.length ≤ s.length + (s.length + 1) * new.length := by
  intro count r h
  simp only [replaceCount, strArg, intArg_i64, ok_bind, pure_ok] at h
  split at h
  · cases h
  · cases h; exact ⟨_, rfl, stringsReplace_length_le s old new _⟩

example : replaceCount (.str [0x61, 0x62, 0x61]) (.str [0x61]) (.str [0x78, 0x79]) (.num (.int .i64 (2 ^ 63 - 1)))
    = .ok (.str [0x78, 0x79, 0x62, 0x78, 0x79]) := by rfl
example : replaceCost 2 (2 ^ 63 - 1) = 3 := by decide

theorem replace_cost_bound (occ : Nat) : ∀ count : Int, replaceCost occ count ≤ occ + 1 := by
  intro count; unfold replaceCost; omega

/-! ### padding: the one place where the magnitude IS the size of the result -/

theorem padString_length (p : Bytes) : ∀ k : Nat,
    ((List.replicate k p).foldr (· ++ ·) []).length = k * p.length := by
  intro k
  induction k with
  | zero => simp
  | succ k ih => rw [List.replicate_succ, List.foldr_cons, List.length_append, ih, Nat.succ_mul]; omega

theorem padString_encodeAll (c : Nat) : ∀ k : Nat,
    (List.replicate k (encodeRune c)).foldr (· ++ ·) [] = encodeAll (List.replicate k c) := by
  intro k
  induction k with
  | zero => rfl
  | succ k ih => rw [List.replicate_succ, List.foldr_cons, ih, List.replicate_succ, Utf8.encodeAll_cons]

/-- any bytes, ∀ w : Int: the result is the subject plus `max 0 (w - runeCount s)` copies of the pad string —
    `padCost` iterations, and that many more code points in the result: here the integer argument legitimately is
    the size of the result (the model refuses to materialise more than `padLimit` copies: `unmodelled`) -/
theorem padWith_size (left : Bool) (s p : Bytes) : ∀ (w : Int) (r : Val),
    padWith left s w p (.str s) = .ok r →
      ∃ b, r = .str b ∧ b.length = s.length + padCost (runeCount s) w * p.length := by
  intro w r h
  unfold padWith at h
  split at h
  · cases h
  · split at h
    · cases h
    · simp only at h
      split at h
      · rename_i hle
        cases h
        refine ⟨s, rfl, ?_⟩
        have : padCost (runeCount s) w = 0 := by unfold padCost; omega
        rw [this]; simp
      · split at h
        · cases h
        · cases h
          refine ⟨_, rfl, ?_⟩
          unfold padCost
          cases left <;> simp [padString_length] <;> omega

/-- valid UTF-8: the result has exactly `max w (number of code points of s)` code points -/
theorem padWith_codepoints (left : Bool) (cs : List Nat) (hcs : Utf8.Scalars cs) (c : Nat)
    (hc : isScalar c = true) : ∀ (w : Int) (r : Val),
    padWith left (encodeAll cs) w (encodeRune c) (.str (encodeAll cs)) = .ok r →
      ∃ b, r = .str b ∧ (runeCount b : Int) = max w cs.length := by
  intro w r h
  have hrc := Utf8.runeCount_encodeAll cs hcs
  unfold padWith at h
  split at h
  · cases h
  · split at h
    · cases h
    · simp only at h
      rw [hrc] at h
      split at h
      · cases h
        refine ⟨_, rfl, ?_⟩
        rw [hrc]; omega
      · split at h
        · cases h
        · cases h
          refine ⟨_, rfl, ?_⟩
          rw [padString_encodeAll]
          cases left
          · simp only [Bool.false_eq_true, if_false]
            rw [← Utf8.encodeAll_append, Utf8.runeCount_encodeAll _ (hcs.append (Utf8.Scalars.replicate hc _)),
              List.length_append, List.length_replicate]
            omega
          · simp only [if_true]
            rw [← Utf8.encodeAll_append, Utf8.runeCount_encodeAll _ ((Utf8.Scalars.replicate hc _).append hcs),
              List.length_append, List.length_replicate]
            omega

/-- on invalid UTF-8 the code point count of the result can be smaller (a truncated lead byte as the pad joins
    with continuation bytes of the subject), which is why `padWith_codepoints` asks for valid UTF-8; the byte
    count of `padWith_size` is exact regardless -/
example : runeCount [0xE0] = 1 ∧ runeCount [0xA0, 0x80] = 2 ∧
    padWith true [0xA0, 0x80] 3 [0xE0] (.str [0xA0, 0x80]) = .ok (.str [0xE0, 0xA0, 0x80]) ∧
    runeCount [0xE0, 0xA0, 0x80] = 1 := ⟨by decide, by decide, by rfl, by decide⟩

example : padWith true [0x61] 5 [0x2E] (.str [0x61]) = .ok (.str [0x2E, 0x2E, 0x2E, 0x2E, 0x61]) := by rfl
example : padCost 1 5 = 4 := by decide
example : padCost 1 (-(2 ^ 63)) = 0 := by decide
/-- a width of 2^62 really asks for 2^62 - 1 pad characters: the result size, not a hidden loop -/
example : padCost 1 (2 ^ 62) = 2 ^ 62 - 1 := by decide

/-- item 4, collected: ∀ integers, the size of every result is bounded by the size of the subject (and of `new`) -/
theorem result_size_bounds :
    (∀ (t : ATag) (xs : List Val) (start stop : Int) (r : Val), slice (.arr t xs) start stop = .ok r →
        ∃ ys, r = .arr .plain ys ∧ ys.length ≤ xs.length) ∧
    (∀ (t : ATag) (xs : List Val) (start stop step : Int) (r : Val), sliceStep (.arr t xs) start stop step = .ok r →
        ∃ ys, r = .arr .plain ys ∧ ys.length ≤ xs.length) ∧
    (∀ (s : Bytes) (start stop : Int) (r : Val), slice (.str s) start stop = .ok r →
        ∃ b, r = .str b ∧ b.length ≤ s.length ∧ runeCount b ≤ s.length) ∧
    (∀ (s : Bytes) (start stop step : Int) (r : Val), sliceStep (.str s) start stop step = .ok r →
        ∃ b, r = .str b ∧ runeCount b ≤ runeCount s ∧ b.length ≤ 4 * runeCount s) ∧
    (∀ (s p : Bytes) (r : Val), split (.str s) (.str p) = .ok r →
        ∃ ys, r = .arr .plain ys ∧ ys.length ≤ s.length + 1) ∧
    (∀ (s p : Bytes) (count : Int) (r : Val), splitCount (.str s) (.str p) (.num (.int .i64 count)) = .ok r →
        ∃ ys, r = .arr .plain ys ∧ ys.length ≤ s.length + 1 ∧
          (s ≠ [] → p ≠ [] → 0 < count → ys.length = splitCells (occurrences s p) count)) ∧
    (∀ (s old new : Bytes) (count : Int) (r : Val),
        replaceCount (.str s) (.str old) (.str new) (.num (.int .i64 count)) = .ok r →
        ∃ b, r = .str b ∧ b.length ≤ s.length + (s.length + 1) * new.length) ∧
    (∀ (left : Bool) (s p : Bytes) (w : Int) (r : Val), padWith left s w p (.str s) = .ok r →
        ∃ b, r = .str b ∧ b.length = s.length + padCost (runeCount s) w * p.length) :=
  ⟨slice_array_size, sliceStep_array_size, slice_string_size, sliceStep_string_size, split_size,
   splitCount_size, replaceCount_size, padWith_size⟩

/-! ## 5. `index` inspects one element -/

/-- ∀ i : Int: the result is `null`, or `nondet` (map-ordered array), or the element at `i` resp. `n + i`; the
    magnitude of `i` only enters two comparisons -/
theorem index_const (t : ATag) (xs : List Val) : ∀ i : Int,
    index (.arr t xs) i = .ok .null ∨ index (.arr t xs) i = .nondet ∨
    (0 ≤ i ∧ i < xs.length ∧ index (.arr t xs) i = .ok (xs.getD i.toNat .null)) ∨
    (i < 0 ∧ 0 ≤ i + xs.length ∧ index (.arr t xs) i = .ok (xs.getD (i + xs.length).toNat .null)) := by
  intro i
  by_cases h1 : i < 0
  · have e : index (.arr t xs) i =
        (if i + (xs.length : Int) < 0 ∨ i + (xs.length : Int) ≥ xs.length then .ok .null
         else if enum2 t xs then .nondet else .ok (xs.getD (i + (xs.length : Int)).toNat .null)) := by
      simp only [index, h1, if_true]
    rw [e]
    split
    · exact Or.inl rfl
    · split
      · exact Or.inr (Or.inl rfl)
      · exact Or.inr (Or.inr (Or.inr ⟨h1, by omega, rfl⟩))
  · have e : index (.arr t xs) i =
        (if i < 0 ∨ i ≥ xs.length then .ok .null
         else if enum2 t xs then .nondet else .ok (xs.getD i.toNat .null)) := by
      simp only [index, h1, if_false]
    rw [e]
    split
    · exact Or.inl rfl
    · split
      · exact Or.inr (Or.inl rfl)
      · exact Or.inr (Or.inr (Or.inl ⟨by omega, by omega, rfl⟩))

theorem index_far (t : ATag) (xs : List Val) (i : Int) (h : i ≥ xs.length ∨ i < -(xs.length : Int)) :
    index (.arr t xs) i = .ok .null := by
  simp only [index]
  split
  · rw [if_pos (by omega)]
  · rw [if_pos (by omega)]

theorem index_cost_const : ∀ n i : Int, indexCost n i = 1 := fun _ _ => rfl

example : index (.arr .plain [.null, .bool true]) (2 ^ 63 - 1) = .ok .null := index_far _ _ _ (by decide)
example : index (.arr .plain [.null, .bool true]) (-(2 ^ 63)) = .ok .null := index_far _ _ _ (by decide)
example : index (.arr .plain [.null, .bool true]) (-1) = .ok (.bool true) := by rfl

/-! ## 6. Integer literals: out of range is an error, never a big number -/

/-- the value a digit string denotes (Horner) -/
def digitsVal (d : Bytes) : Nat := d.foldl (fun (acc : Nat) (b : Nat) => acc * 10 + (b - 0x30)) 0

/-- whatever the bytes: a parsed literal is a 64-bit value -/
theorem parseInt64_in_range (s : Bytes) (v : Int) (h : parseInt64 s = some v) : MinInt ≤ v ∧ v ≤ MaxInt := by
  unfold parseInt64 at h
  unfold MinInt MaxInt
  split at h
  rename_i neg d _
  split at h
  · cases h
  · split at h
    · simp only at h
      split at h
      · split at h
        · cases h
        · cases h; omega
      · split at h
        · cases h
        · cases h; omega
    · cases h

/-- a non-empty digit string, optionally signed: `some` of its value inside `[-2^63, 2^63 - 1]`, `none` outside -/
theorem parseInt64_range (d : Bytes) (hne : d ≠ []) (hd : d.all Dec.isDigit = true) :
    parseInt64 d = (if (digitsVal d : Int) ≤ MaxInt then some (digitsVal d : Int) else none) ∧
    parseInt64 (0x2B :: d) = (if (digitsVal d : Int) ≤ MaxInt then some (digitsVal d : Int) else none) ∧
    parseInt64 (0x2D :: d) = (if MinInt ≤ -(digitsVal d : Int) then some (-(digitsVal d : Int)) else none) := by
  have he : d.isEmpty = false := by cases d with
    | nil => exact absurd rfl hne
    | cons b bs => rfl
  have key : ∀ (neg : Bool), (if d.isEmpty then none
      else if d.all Dec.isDigit then
        let v : Nat := d.foldl (fun (acc : Nat) (b : Nat) => acc * 10 + (b - 0x30)) 0
        if neg then (if v > 2 ^ 63 then none else some (-(v : Int)))
        else (if v > 2 ^ 63 - 1 then none else some (v : Int))
      else none) =
      (if neg then (if MinInt ≤ -(digitsVal d : Int) then some (-(digitsVal d : Int)) else none)
       else (if (digitsVal d : Int) ≤ MaxInt then some (digitsVal d : Int) else none)) := by
    intro neg
    simp only [he, hd, if_true, Bool.false_eq_true, if_false]
    unfold MinInt MaxInt digitsVal
    cases neg
    · simp only [Bool.false_eq_true, if_false]
      split <;> split <;> first | rfl | omega
    · simp only [if_true]
      split <;> split <;> first | rfl | omega
  refine ⟨?_, ?_, ?_⟩
  · cases d with
    | nil => exact absurd rfl hne
    | cons b bs =>
      have hb : Dec.isDigit b = true := by
        simp only [List.all_cons, Bool.and_eq_true] at hd; exact hd.1
      have hb' : 0x30 ≤ b ∧ b ≤ 0x39 := by
        unfold Dec.isDigit at hb; simpa using hb
      have h1 : b ≠ 0x2B := by omega
      have h2 : b ≠ 0x2D := by omega
      have := key false
      simp only [Bool.false_eq_true, if_false] at this
      rw [← this]
      unfold parseInt64
      split
      rename_i heq
      split at heq
      · rename_i e; injection e with e _; exact absurd e h1
      · rename_i e; injection e with e _; exact absurd e h2
      · cases heq
        simp only [Bool.false_eq_true, if_false]
  · have := key false
    simp only [Bool.false_eq_true, if_false] at this
    rw [← this]; rfl
  · have := key true
    simp only [if_true] at this
    rw [← this]; rfl

/-- 2^63 - 1 and -2^63 parse; 2^63 and -2^63 - 1 are errors (`invalidIndex` in `indexP`), as is any longer literal -/
example : parseInt64 [0x39, 0x32, 0x32, 0x33, 0x33, 0x37, 0x32, 0x30, 0x33, 0x36, 0x38, 0x35, 0x34, 0x37, 0x37, 0x35,
    0x38, 0x30, 0x37] = some (2 ^ 63 - 1) := by decide
example : parseInt64 [0x39, 0x32, 0x32, 0x33, 0x33, 0x37, 0x32, 0x30, 0x33, 0x36, 0x38, 0x35, 0x34, 0x37, 0x37, 0x35,
    0x38, 0x30, 0x38] = none := by decide
example : parseInt64 [0x2D, 0x39, 0x32, 0x32, 0x33, 0x33, 0x37, 0x32, 0x30, 0x33, 0x36, 0x38, 0x35, 0x34, 0x37, 0x37,
    0x35, 0x38, 0x30, 0x38] = some (-(2 ^ 63)) := by decide
example : parseInt64 [0x2D, 0x39, 0x32, 0x32, 0x33, 0x33, 0x37, 0x32, 0x30, 0x33, 0x36, 0x38, 0x35, 0x34, 0x37, 0x37,
    0x35, 0x38, 0x30, 0x39] = none := by decide

/-- `indexP` (`parser.index`) converts the literal under the cursor with `parseInt64`; an out-of-range literal is the
    syntax error `invalidIndex` before any slice node is built -/
theorem indexP_bad_literal (child : Option INode) (s : PState) (h1 : s.curr.type = .integerLiteral)
    (h2 : parseInt64 s.curr.value = none) : Parser.indexP child s = .error .invalidIndex := by
  unfold Parser.indexP
  simp only [Parser.currType, Parser.currValue, bind, StateT.bind, get, getThe, MonadStateOf.get, StateT.get, pure,
    StateT.pure, Except.pure, Except.bind, h1, h2, Parser.fail, beq_self_eq_true, if_true]

/-- `[9223372036854775808]` -/
example : Parser.indexP none ⟨⟨.integerLiteral, [0x39, 0x32, 0x32, 0x33, 0x33, 0x37, 0x32, 0x30, 0x33, 0x36, 0x38, 0x35,
    0x34, 0x37, 0x37, 0x35, 0x38, 0x30, 0x38]⟩, ⟨.closeSqBrace, [0x5D]⟩, [], none⟩ = .error .invalidIndex :=
  indexP_bad_literal _ _ rfl (by decide)

/-! ## 7. The parser's recursion budget is sufficient -/

/-- `Parser.fuelFor ntokens = 8 * ntokens + 32` always suffices: the model-only error `fuel` is unreachable, so
    parsing terminates within a number of recursive calls linear in the number of tokens
    (proof: `Jmes/Proofs/Fuel.lean`) -/
theorem fuel_sufficient : ∀ expr : Bytes, Parser.parse expr ≠ .error .fuel := Fuel.fuel_sufficient

example : Parser.parse [0x5B, 0x39, 0x39, 0x39, 0x39, 0x39, 0x39, 0x39, 0x39, 0x39, 0x39, 0x39, 0x39, 0x39, 0x39, 0x39,
    0x39, 0x39, 0x39, 0x39, 0x39, 0x5D] ≠ .error .fuel := fuel_sufficient _

end Jmes.C09
