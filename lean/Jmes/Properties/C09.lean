/-
  C09 — "Every call terminates, using time and memory bounded by a low-order polynomial in the length of the
  expression, the size of the document and the size of the result.  In particular the magnitude of integer literals
  and numeric arguments (slice bounds and steps, search offsets, replace and split counts) never by itself drives the
  running time or an allocation."

  Termination: every function of `Jmes/Model` is total (accepted by Lean's termination checker; loops became
  structural or fuel-bounded recursions).  What is proved here is the magnitude-freeness of the *amount of work* of the
  integer-parameterised operations, against the cost model of `Jmes/Spec/Cost.lean` (one tick function per Go loop
  nest, following the model's recursion; closed forms in the length and the integers):

  1. `clampStep_count_le`, `clampStep_bounds`, `clamp1_bounds`         — the clamps never produce more than `n`
  2. `slice_cost_bound`, `sliceStep_cost_bound`, `find_cost_bound`, …  — every closed form ≤ small linear bound,
                                                                          ∀ start stop step : Int
  3. `walk_skips_bounded` (`dropRunes_clamp`, `dropLastRunes_clamp`, `runeOffset_clamp`) and the tick equalities
     `dropRunesTicks_eq`, `walkFwdTicks_eq`, `runeOffsetTicks_eq`, …  — ticks = closed form on the actual data
  4. `result_size_bounds`                                              — memory
  5. `index_const`
  6. `parseInt64_range`                                                — integer literals out of range are errors
-/
import Jmes.Spec.Cost
import Jmes.Proofs.Utf8
import Jmes.Properties.C12
namespace Jmes.C09
open Jmes Jmes.Cost

/-! ## 0. UTF-8 decoding steps on arbitrary (possibly invalid) byte strings -/

theorem snd_ite_ge (c : Prop) [Decidable c] (x y k m lo : Nat) (h1 : lo ≤ k) (h2 : lo ≤ m) :
    lo ≤ (if c then (x, k) else (y, m)).2 := by split <;> assumption
theorem snd_ite_le (c : Prop) [Decidable c] (x y k m hi : Nat) (h1 : k ≤ hi) (h2 : m ≤ hi) :
    (if c then (x, k) else (y, m)).2 ≤ hi := by split <;> assumption

theorem decodeRune_size (s : Bytes) : (s ≠ [] → 1 ≤ (decodeRune s).2) ∧ (decodeRune s).2 ≤ s.length := by
  match s with
  | [] => simp [decodeRune]
  | b0 :: rest =>
    refine ⟨fun _ => ?_, ?_⟩
    all_goals
      simp only [decodeRune]
      split
      · simp
      · split
        · split
          · first | (apply snd_ite_ge <;> omega) | (apply snd_ite_le <;> simp)
          · simp
        · split
          · split
            · first | (apply snd_ite_ge <;> omega) | (apply snd_ite_le <;> simp)
            · simp
          · split
            · split
              · first | (apply snd_ite_ge <;> omega) | (apply snd_ite_le <;> simp)
              · simp
            · simp

theorem decodeLastRune_size (s : Bytes) :
    (s ≠ [] → 1 ≤ (decodeLastRune s).2) ∧ (decodeLastRune s).2 ≤ s.length := by
  unfold decodeLastRune
  by_cases h0 : s.length = 0
  · have : s = [] := List.eq_nil_of_length_eq_zero h0
    subst this; simp
  · simp only [h0, if_false]
    split
    · simp; omega
    · generalize hst : (if 2 ≤ s.length ∧ runeStart (s.getD (s.length - 2) 0) = true then s.length - 2
        else if 3 ≤ s.length ∧ runeStart (s.getD (s.length - 3) 0) = true then s.length - 3
        else if 4 ≤ s.length ∧ runeStart (s.getD (s.length - 4) 0) = true then s.length - 4
        else if 5 ≤ s.length then s.length - 5 else 0) = start
      have hs : start < s.length := by
        rw [← hst]; repeat' split
        all_goals omega
      have hd := decodeRune_size (s.drop start)
      have hdn : s.drop start ≠ [] := by
        intro h; have := congrArg List.length h; simp at this; omega
      have h1 := hd.1 hdn
      have h2 := hd.2
      rw [List.length_drop] at h2
      split
      · simp; omega
      · simp only; omega

theorem decodeRune_pos (s : Bytes) (h : s ≠ []) : 1 ≤ (decodeRune s).2 := (decodeRune_size s).1 h
theorem decodeRune_le (s : Bytes) : (decodeRune s).2 ≤ s.length := (decodeRune_size s).2
theorem decodeLastRune_pos (s : Bytes) (h : s ≠ []) : 1 ≤ (decodeLastRune s).2 := (decodeLastRune_size s).1 h
theorem decodeLastRune_le (s : Bytes) : (decodeLastRune s).2 ≤ s.length := (decodeLastRune_size s).2

theorem length_pos_of_ne_nil {s : Bytes} (h : s ≠ []) : 1 ≤ s.length := by
  cases s with
  | nil => exact absurd rfl h
  | cons b bs => simp

/-- `decodeAllAux` does not depend on the fuel once it covers the length -/
theorem decodeAllAux_fuel : ∀ (f1 f2 : Nat) (s : Bytes), s.length ≤ f1 → s.length ≤ f2 →
    decodeAllAux f1 s = decodeAllAux f2 s := by
  intro f1
  induction f1 with
  | zero =>
    intro f2 s h1 _
    have : s = [] := List.eq_nil_of_length_eq_zero (by omega)
    subst this; rw [Utf8.decodeAllAux_nil, Utf8.decodeAllAux_nil]
  | succ f1 ih =>
    intro f2 s h1 h2
    by_cases hne : s = []
    · subst hne; rw [Utf8.decodeAllAux_nil, Utf8.decodeAllAux_nil]
    · have hp := decodeRune_pos s hne
      have hl := length_pos_of_ne_nil hne
      match f2, h2 with
      | 0, h2 => omega
      | f2 + 1, h2 =>
        rw [Utf8.decodeAllAux_succ _ _ hne, Utf8.decodeAllAux_succ _ _ hne]
        congr 1
        apply ih <;> (rw [List.length_drop]; omega)

/-- one decoding step consumes exactly one code point of the count -/
theorem runeCount_step (s : Bytes) (h : s ≠ []) :
    runeCount s = 1 + runeCount (s.drop (decodeRune s).2) := by
  have hp := decodeRune_pos s h
  have hl := length_pos_of_ne_nil h
  unfold runeCount decodeAll
  obtain ⟨k, hk⟩ : ∃ k, s.length = k + 1 := ⟨s.length - 1, by omega⟩
  rw [hk, Utf8.decodeAllAux_succ _ _ h, List.length_cons,
    decodeAllAux_fuel k (s.drop (decodeRune s).2).length _ (by rw [List.length_drop]; omega) (Nat.le_refl _)]
  omega

theorem runeCount_nil : runeCount [] = 0 := rfl

theorem runeCount_pos (s : Bytes) (h : s ≠ []) : 1 ≤ runeCount s := by
  rw [runeCount_step s h]; omega

theorem runeCount_le_length : ∀ (k : Nat) (s : Bytes), s.length ≤ k → runeCount s ≤ s.length := by
  intro k
  induction k with
  | zero => intro s h; have : s = [] := List.eq_nil_of_length_eq_zero (by omega); subst this; simp [runeCount_nil]
  | succ k ih =>
    intro s h
    by_cases hne : s = []
    · subst hne; simp [runeCount_nil]
    · have hp := decodeRune_pos s hne
      have hl := decodeRune_le s
      rw [runeCount_step s hne]
      have := ih (s.drop (decodeRune s).2) (by rw [List.length_drop]; omega)
      rw [List.length_drop] at this
      omega

/-! ## 1. The clamps: results within the length for all integers -/

theorem ceilDiv_le (c s : Int) (hc : 0 < c) :
    (if Int.tmod c s > 0 then Int.tdiv c s + 1 else Int.tdiv c s) ≤ c := by
  by_cases hs : s > 0
  · have e : s * Int.tdiv c s + Int.tmod c s = c := Int.mul_tdiv_add_tmod c s
    have m0 : 0 ≤ Int.tmod c s := Int.tmod_nonneg s (by omega)
    have m1 : Int.tmod c s < s := Int.tmod_lt_of_pos c hs
    have q0 : 0 ≤ Int.tdiv c s := Int.tdiv_nonneg (by omega) (by omega)
    generalize Int.tdiv c s = q at *
    generalize Int.tmod c s = m at *
    split
    · have : 2 * q ≤ s * q := Int.mul_le_mul_of_nonneg_right (by omega) q0
      omega
    · have : 1 * q ≤ s * q := Int.mul_le_mul_of_nonneg_right (by omega) q0
      omega
  · by_cases hz : s = 0
    · subst hz; simp [Int.tdiv_zero, Int.tmod_zero]; omega
    · have e : s = -(-s) := by omega
      have q0 : 0 ≤ Int.tdiv c (-s) := Int.tdiv_nonneg (by omega) (by omega)
      rw [e, Int.tdiv_neg]
      split <;> omega

theorem clamp1_bounds (n start stop a b : Int) (hn : 0 ≤ n) (h : clamp1 n start stop = some (a, b)) :
    0 ≤ a ∧ a ≤ n ∧ 0 ≤ b ∧ b ≤ n := by
  unfold clamp1 at h
  by_cases h1 : start < 0 <;> by_cases h2 : start < -n <;> by_cases h3 : start ≥ n <;>
  by_cases h4 : stop < 0 <;> by_cases h5 : stop < -n <;> by_cases h6 : stop ≥ n <;>
  simp only [h1, h2, h3, h4, h5, h6, if_true, if_false] at h <;>
  first
  | (exfalso; omega)
  | (cases h; done)
  | (cases h; omega)

/-- for EVERY `step : Int` (zero and values outside 64 bits included): the first index is a valid index and the
    number of selected elements is at most the length -/
theorem clampStep_bounds (n start stop step a cnt : Int)
    (h : clampStep n start stop step = some (a, cnt)) : 0 ≤ a ∧ a < n ∧ cnt ≤ n := by
  unfold clampStep at h
  by_cases hpos : step > 0
  · simp only [hpos, if_true] at h
    split at h
    · cases h
    · rename_i a' ha'
      split at h
      · cases h
      · rename_i b' hb'
        split at h
        · cases h
        · rename_i hab
          injection h with h; injection h with h1 h2
          subst h1
          have fa : 0 ≤ a' := by
            split at ha'
            · split at ha' <;> (injection ha' with ha'; omega)
            · split at ha'
              · cases ha'
              · injection ha' with ha'; omega
          have fb : b' ≤ n := by
            split at hb'
            · split at hb'
              · cases hb'
              · injection hb' with hb'; omega
            · split at hb' <;> (injection hb' with hb'; omega)
          have := ceilDiv_le (b' - a') step (by omega)
          omega
  · simp only [hpos, if_false] at h
    generalize hw : wrap64 (step * -1) = s at h
    split at h
    · cases h
    · rename_i a' ha'
      split at h
      · cases h
      · rename_i b' hb'
        split at h
        · cases h
        · rename_i hab
          injection h with h; injection h with h1 h2
          subst h1
          have fa : a' < n := by
            split at ha'
            · split at ha'
              · cases ha'
              · injection ha' with ha'; omega
            · split at ha' <;> (injection ha' with ha'; omega)
          have fb : -1 ≤ b' := by
            split at hb'
            · split at hb' <;> (injection hb' with hb'; omega)
            · split at hb'
              · cases hb'
              · injection hb' with hb'; omega
          have := ceilDiv_le (a' - b') s (by omega)
          omega

/-- item 1 as requested -/
theorem clampStep_count_le (n start stop step a cnt : Int)
    (h : clampStep n start stop step = some (a, cnt)) (_hn : 0 ≤ n) (_h0 : step ≠ 0) (_hmin : MinInt ≤ step) :
    cnt ≤ n ∧ 0 ≤ a ∧ a < n :=
  have := clampStep_bounds n start stop step a cnt h
  ⟨this.2.2, this.1, this.2.1⟩

example : clampStep 5 (-(2^63)) (2^63 - 1) (2^62) = some (0, 1) := by decide
example : clampStep 5 (2^63 - 1) (-(2^63)) (-(2^63)) = some (4, 1) := by decide
example : clampStep 5 (2^63 - 1) (-(2^63)) (-1) = some (4, 5) := by decide
example : clamp1 5 (-(2^63)) (2^63 - 1) = some (0, 5) := by decide
