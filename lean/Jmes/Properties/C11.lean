/-
  C11 — every position, length and width the language exposes on strings is measured in Unicode code points,
  never bytes; given valid UTF-8 input every string in the result is valid UTF-8.

  Strings of the model are byte lists, exactly like Go strings.  The specification side is code points: a string is
  a list `cs` of Unicode scalar values (`Scalars cs`) and its bytes are `encodeAll cs`.  By `valid_iff_encodeAll`
  these are exactly the valid UTF-8 strings, so "for all valid UTF-8 strings s" and "for all scalar lists cs, with
  s = encodeAll cs" are the same quantifier.
-/
import Jmes.Proofs.Utf8
namespace Jmes.C11
open Jmes Jmes.Utf8

/-- "héllo" as code points; its UTF-8 bytes are `68 C3 A9 6C 6C 6F` (5 code points, 6 bytes) -/
def hello : List Nat := [0x68, 0xE9, 0x6C, 0x6C, 0x6F]
/-- "aé€😀": one code point of each encoded length (1, 2, 3, 4 bytes) -/
def mixed : List Nat := [0x61, 0xE9, 0x20AC, 0x1F600]

example : encodeAll hello = [0x68, 0xC3, 0xA9, 0x6C, 0x6C, 0x6F] := by decide
example : encodeAll mixed = [0x61, 0xC3, 0xA9, 0xE2, 0x82, 0xAC, 0xF0, 0x9F, 0x98, 0x80] := by decide
theorem hello_scalars : Scalars hello := by unfold Scalars; decide
theorem mixed_scalars : Scalars mixed := by unfold Scalars; decide

/-! ### 1. the codec -/

/-- decoding an encoded scalar value gives it back, with the number of bytes it was encoded in
    (whatever follows it) -/
theorem decodeRune_encodeRune (c : Nat) (h : isScalar c = true) (rest : Bytes) :
    decodeRune (encodeRune c ++ rest) = (c, (encodeRune c).length) :=
  Utf8.decodeRune_encodeRune c h rest

theorem encodeRune_length (c : Nat) : 1 ≤ (encodeRune c).length ∧ (encodeRune c).length ≤ 4 :=
  ⟨encodeRune_length_pos c, encodeRune_length_le c⟩

example : decodeRune (encodeRune 0xE9 ++ [0x6C]) = (0xE9, 2) := by decide
example : decodeRune (encodeRune 0x1F600) = (0x1F600, 4) := by decide
/-- U+FFFD is itself a scalar value: it decodes to `(0xFFFD, 3)`, an error is `(0xFFFD, 1)` -/
example : decodeRune (encodeRune 0xFFFD) = (0xFFFD, 3) ∧ decodeRune [0xFF] = (0xFFFD, 1) := by decide

/-- conversely a decoding step that does not fail yields a scalar value and consumed exactly its encoding -/
theorem encodeRune_decodeRune (s : Bytes) (hne : s ≠ [])
    (h : ¬ ((decodeRune s).1 = RuneError ∧ (decodeRune s).2 = 1)) :
    isScalar (decodeRune s).1 = true ∧ s.take (decodeRune s).2 = encodeRune (decodeRune s).1 := by
  obtain ⟨h1, h2, h3⟩ := decodeRune_valid s hne h
  refine ⟨h1, ?_⟩
  conv => lhs; arg 2; rw [h2]
  rw [h3]; exact List.take_left

/-! ### 2. whole strings -/

theorem decodeAll_encodeAll (cs : List Nat) (h : Scalars cs) : decodeAll (encodeAll cs) = cs :=
  Utf8.decodeAll_encodeAll cs h

theorem runeCount_encodeAll (cs : List Nat) (h : Scalars cs) : runeCount (encodeAll cs) = cs.length :=
  Utf8.runeCount_encodeAll cs h

theorem validUTF8_encodeAll (cs : List Nat) (h : Scalars cs) : validUTF8 (encodeAll cs) = true :=
  Utf8.validUTF8_encodeAll cs h

/-- every valid UTF-8 byte string is the encoding of a list of scalar values (its `decodeAll`) -/
theorem valid_is_encodeAll (bs : Bytes) (h : validUTF8 bs = true) :
    ∃ cs, Scalars cs ∧ bs = encodeAll cs :=
  ⟨decodeAll bs, validUTF8_decode bs h⟩

theorem valid_iff_encodeAll (bs : Bytes) : validUTF8 bs = true ↔ ∃ cs, Scalars cs ∧ bs = encodeAll cs :=
  validUTF8_iff bs

example : decodeAll (encodeAll hello) = hello := by decide
example : runeCount (encodeAll hello) = 5 ∧ (encodeAll hello).length = 6 := by decide
example : validUTF8 (encodeAll mixed) = true := by decide
example : validUTF8 [0x68, 0xC3] = false := by decide

/-! ### 3. the last rune -/

/-- `utf8.DecodeLastRuneInString`: the backwards scan finds the start of the last code point (whatever precedes it) -/
theorem decodeLastRune_encode (pre : Bytes) (c : Nat) (h : isScalar c = true) :
    decodeLastRune (pre ++ encodeRune c) = (c, (encodeRune c).length) :=
  decodeLastRune_append pre c h

example : decodeLastRune (encodeAll [0x68, 0x20AC]) = (0x20AC, 3) := by decide

/-! ### 4. `length` -/

theorem length_codepoints (cs : List Nat) (h : Scalars cs) :
    length (.str (encodeAll cs)) = .ok (.num (.int .i64 cs.length)) := by
  simp only [length, Utf8.runeCount_encodeAll cs h]

example : length (.str [0x68, 0xC3, 0xA9, 0x6C, 0x6C, 0x6F]) = .ok (.num (.int .i64 5)) :=
  length_codepoints hello hello_scalars

/-! ### 5. `reverse` -/

theorem reverse_codepoints (cs : List Nat) (h : Scalars cs) :
    reverse (.str (encodeAll cs)) = .ok (.str (encodeAll cs.reverse)) := by
  have := reverseRunes_encodeAll cs.reverse h.reverse (encodeAll cs).length
    (by rw [List.length_reverse]; exact length_le_encodeAll cs)
  rw [List.reverse_reverse] at this
  simp only [reverse, this]

/-- "héllo" reversed is "olléh": `é` stays `C3 A9`, the bytes are not reversed -/
example : reverse (.str [0x68, 0xC3, 0xA9, 0x6C, 0x6C, 0x6F]) = .ok (.str [0x6F, 0x6C, 0x6C, 0xC3, 0xA9, 0x68]) :=
  reverse_codepoints hello hello_scalars

/-! ### 6. slices with step 1 -/

/-- the code points a step-1 slice selects: positions `a ≤ i < b` for the clamped bounds -/
def subCodepoints (cs : List Nat) (start stop : Int) : List Nat :=
  match clamp1 cs.length start stop with
  | none => []
  | some (a, b) => (cs.drop a.toNat).take (b - a).toNat

theorem slice_string_codepoints (cs : List Nat) (h : Scalars cs) (start stop : Int) :
    slice (.str (encodeAll cs)) start stop = .ok (.str (encodeAll (subCodepoints cs start stop))) := by
  unfold slice subCodepoints
  simp only [Utf8.runeCount_encodeAll cs h]
  cases clamp1 (↑cs.length) start stop with
  | none => rfl
  | some ab =>
    obtain ⟨a, b⟩ := ab
    simp only [dropRunes_encodeAll _ cs h, take_runesLen_encodeAll _ _ (h.drop _)]

/-- "héllo"[1:3] = "él" -/
example : slice (.str [0x68, 0xC3, 0xA9, 0x6C, 0x6C, 0x6F]) 1 3 = .ok (.str [0xC3, 0xA9, 0x6C]) :=
  slice_string_codepoints hello hello_scalars 1 3
/-- "héllo"[-4:] (stop clamped) = "éllo" -/
example : slice (.str [0x68, 0xC3, 0xA9, 0x6C, 0x6C, 0x6F]) (-4) 100 = .ok (.str [0xC3, 0xA9, 0x6C, 0x6C, 0x6F]) :=
  slice_string_codepoints hello hello_scalars (-4) 100

/-! ### 7. slices with a step -/

/-- what the two rune walks of `sliceStep` literally produce: forwards from code point `a` every `step`-th one,
    or backwards from `a` (counted from the end of the reversed string) every `-step`-th one -/
def stepCodepointsRaw (cs : List Nat) (start stop step : Int) : List Nat :=
  match clampStep cs.length start stop step with
  | none => []
  | some (a, n) =>
    if step > 0 then (List.range n.toNat).map (fun i => cs.getD (a.toNat + i * step.toNat) RuneError)
    else (List.range n.toNat).map
      (fun i => cs.reverse.getD ((cs.length - 1 - a).toNat + i * (-step).toNat) RuneError)

theorem sliceStep_string_raw (cs : List Nat) (h : Scalars cs) (start stop step : Int) (hstep : step ≠ 0) :
    sliceStep (.str (encodeAll cs)) start stop step
      = .ok (.str (encodeAll (stepCodepointsRaw cs start stop step))) := by
  unfold sliceStep stepCodepointsRaw
  simp only [Utf8.runeCount_encodeAll cs h]
  cases clampStep (↑cs.length) start stop step with
  | none => rfl
  | some an =>
    obtain ⟨a, n⟩ := an
    by_cases hpos : step > 0
    · have h1 : 1 ≤ step.toNat := by omega
      simp only [hpos, if_true, dropRunes_encodeAll _ cs h, walkFwd_encodeAll _ h1 _ _ (h.drop _), getD_drop]
    · have h1 : 1 ≤ (-step).toNat := by omega
      have e : encodeAll cs = encodeAll cs.reverse.reverse := by rw [List.reverse_reverse]
      simp only [hpos, if_false]
      rw [e, dropLastRunes_encodeAll _ _ h.reverse, walkBwd_encodeAll _ h1 _ _ (h.reverse.drop _)]
      simp only [getD_drop]

theorem stepCodepointsRaw_positions (cs : List Nat) (start stop step : Int) (hs : step ≠ 0)
    (hmin : -2 ^ 63 ≤ step) (hlen : cs.length < 2 ^ 63) :
    stepCodepointsRaw cs start stop step =
      match clampStep cs.length start stop step with
      | none => []
      | some (a, n) => (List.range n.toNat).map (fun (i : Nat) => cs.getD (a + (i : Int) * step).toNat RuneError) := by
  unfold stepCodepointsRaw
  cases hc : clampStep (↑cs.length) start stop step with
  | none => rfl
  | some an =>
    obtain ⟨a, n⟩ := an
    obtain ⟨ha0, hal, hr⟩ := clampStep_inRange _ _ _ _ _ _ (by omega) hs (by omega) hc
    by_cases hpos : step > 0
    · simp only [hpos, if_true]
      apply List.map_congr_left
      intro i hi
      have e1 : ((i * step.toNat : Nat) : Int) = (i : Int) * step := by
        rw [Int.natCast_mul, Int.toNat_of_nonneg (by omega)]
      congr 1; omega
    · simp only [hpos, if_false]
      apply List.map_congr_left
      intro i hi
      have hi' : i < n.toNat := List.mem_range.1 hi
      obtain ⟨r0, r1⟩ := hr i (by omega) (by omega)
      have e1 : ((i * (-step).toNat : Nat) : Int) = -((i : Int) * step) := by
        rw [Int.natCast_mul, Int.toNat_of_nonneg (by omega), Int.mul_neg]
      rw [List.getD_eq_getElem?_getD, List.getD_eq_getElem?_getD, List.getElem?_reverse (by omega)]
      congr 2; omega

/-- the code points a stepped slice selects: positions `a, a + step, a + 2·step, …` (`n` of them), where
    `clampStep` yields the first position `a` and the count `n` -/
def stepCodepoints (cs : List Nat) (start stop step : Int) : List Nat :=
  match clampStep cs.length start stop step with
  | none => []
  | some (a, n) => (List.range n.toNat).map (fun (i : Nat) => cs.getD (a + (i : Int) * step).toNat RuneError)

/-- every position `stepCodepoints` reads is a position of the string (the `getD` default is never used) -/
theorem stepCodepoints_inRange (cs : List Nat) (start stop step a n : Int) (hs : step ≠ 0)
    (hmin : -2 ^ 63 ≤ step) (hlen : cs.length < 2 ^ 63)
    (h : clampStep cs.length start stop step = some (a, n)) (i : Nat) (hi : i < n.toNat) :
    0 ≤ a + (i : Int) * step ∧ (a + (i : Int) * step).toNat < cs.length := by
  obtain ⟨_, _, hr⟩ := clampStep_inRange _ _ _ _ _ _ (by omega) hs (by omega) h
  obtain ⟨r0, r1⟩ := hr i (by omega) (by omega)
  exact ⟨r0, by omega⟩

/-- `step` is a non-zero Go `int` (zero is rejected by the parser) and the string is shorter than 2^63 -/
theorem sliceStep_string_codepoints (cs : List Nat) (h : Scalars cs) (start stop step : Int) (hs : step ≠ 0)
    (hmin : -2 ^ 63 ≤ step) (hlen : cs.length < 2 ^ 63) :
    sliceStep (.str (encodeAll cs)) start stop step
      = .ok (.str (encodeAll (stepCodepoints cs start stop step))) := by
  rw [sliceStep_string_raw cs h start stop step hs, stepCodepointsRaw_positions cs start stop step hs hmin hlen]
  rfl

theorem stepCodepoints_scalars (cs : List Nat) (h : Scalars cs) (start stop step : Int) :
    Scalars (stepCodepoints cs start stop step) := by
  unfold stepCodepoints
  cases clampStep (↑cs.length) start stop step with
  | none => exact Scalars.nil
  | some an =>
    intro c hc
    obtain ⟨i, _, rfl⟩ := List.mem_map.1 hc
    rw [List.getD_eq_getElem?_getD]
    cases hg : cs[(an.1 + (i : Int) * step).toNat]? with
    | none => exact isScalar_runeError
    | some x => exact h x (List.mem_of_getElem? hg)

/-- "héllo"[::2] = "hlo" -/
example : sliceStep (.str [0x68, 0xC3, 0xA9, 0x6C, 0x6C, 0x6F]) 0 (2 ^ 63 - 1) 2 = .ok (.str [0x68, 0x6C, 0x6F]) :=
  sliceStep_string_codepoints hello hello_scalars 0 (2 ^ 63 - 1) 2 (by decide) (by decide) (by decide)
/-- "héllo"[1::3] = "éo" -/
example : sliceStep (.str [0x68, 0xC3, 0xA9, 0x6C, 0x6C, 0x6F]) 1 (2 ^ 63 - 1) 3 = .ok (.str [0xC3, 0xA9, 0x6F]) :=
  sliceStep_string_codepoints hello hello_scalars 1 (2 ^ 63 - 1) 3 (by decide) (by decide) (by decide)
/-- "héllo"[::-2] = "olh", "héllo"[3:0:-1] = "llé" -/
example : sliceStep (.str [0x68, 0xC3, 0xA9, 0x6C, 0x6C, 0x6F]) (2 ^ 63 - 1) (-2 ^ 63) (-2)
    = .ok (.str [0x6F, 0x6C, 0x68]) :=
  sliceStep_string_codepoints hello hello_scalars (2 ^ 63 - 1) (-2 ^ 63) (-2) (by decide) (by decide) (by decide)
example : sliceStep (.str [0x68, 0xC3, 0xA9, 0x6C, 0x6C, 0x6F]) 3 0 (-1) = .ok (.str [0x6C, 0x6C, 0xC3, 0xA9]) :=
  sliceStep_string_codepoints hello hello_scalars 3 0 (-1) (by decide) (by decide) (by decide)

/-! ### 8. `split` on the empty separator -/

theorem split_empty_sep_codepoints (cs : List Nat) (h : Scalars cs) (hne : cs ≠ []) :
    split (.str (encodeAll cs)) (.str []) = .ok (.arr .plain (cs.map (fun c => Val.str (encodeRune c)))) := by
  have he : (encodeAll cs).isEmpty = false := by
    cases hs : encodeAll cs with
    | nil => exact absurd ((encodeAll_eq_nil cs).1 hs) hne
    | cons b bs => rfl
  show (if (encodeAll cs).isEmpty then _ else _) = _
  rw [he]
  show Res.ok (strsToArr (splitRunes (encodeAll cs) none)) = _
  simp only [splitRunes, runePieces_encodeAll cs h, strsToArr, List.map_map]
  rfl

/-- the empty string splits into no pieces -/
theorem split_empty_string (sep : Bytes) : split (.str []) (.str sep) = .ok (.arr .plain []) := rfl

/-- "héllo" splits into h, é, l, l, o (5 strings, not 6) -/
example : split (.str [0x68, 0xC3, 0xA9, 0x6C, 0x6C, 0x6F]) (.str []) =
    .ok (.arr .plain [.str [0x68], .str [0xC3, 0xA9], .str [0x6C], .str [0x6C], .str [0x6F]]) :=
  split_empty_sep_codepoints hello hello_scalars (by decide)

theorem concat_pieces (l : List Nat) : (l.map encodeRune).foldr (· ++ ·) [] = encodeAll l := by
  induction l with
  | nil => rfl
  | cons c l ih => rw [List.map_cons, List.foldr_cons, ih, encodeAll_cons]

/-- `split(s, '', n)`: at most `n` cuts, each after one code point; the remainder is kept whole -/
theorem split_count_empty_sep_codepoints (cs : List Nat) (h : Scalars cs) (hne : cs ≠ []) (n : Int) (hn : 0 < n) :
    splitCount (.str (encodeAll cs)) (.str []) (.num (.int .i64 n)) =
      .ok (strsToArr (if n.toNat + 1 ≥ cs.length then cs.map encodeRune
                      else (cs.take n.toNat).map encodeRune ++ [encodeAll (cs.drop n.toNat)])) := by
  have he := isEmpty_encodeAll cs hne
  have a1 : ¬ n < 0 := by omega
  have a2 : ¬ n = 0 := by omega
  show (if n < 0 then _ else if n = 0 then _ else if (encodeAll cs).isEmpty then _ else _) = _
  rw [if_neg a1, if_neg a2, he]
  show Res.ok (strsToArr (splitRunes (encodeAll cs) (some n.toNat))) = _
  simp only [splitRunes, runePieces_encodeAll cs h, List.length_map, ← List.map_take, ← List.map_drop,
    concat_pieces]

/-- split("héllo", "", 2) = ["h", "é", "llo"] -/
example : splitCount (.str [0x68, 0xC3, 0xA9, 0x6C, 0x6C, 0x6F]) (.str []) (.num (.int .i64 2)) =
    .ok (.arr .plain [.str [0x68], .str [0xC3, 0xA9], .str [0x6C, 0x6C, 0x6F]]) :=
  split_count_empty_sep_codepoints hello hello_scalars (by decide) 2 (by decide)

/-! ### 9. padding -/

theorem pad_string (n : Nat) (p : Nat) :
    (List.replicate n (encodeRune p)).foldr (· ++ ·) [] = encodeAll (List.replicate n p) := by
  induction n with
  | zero => rfl
  | succ n ih => rw [List.replicate_succ, List.replicate_succ, List.foldr_cons, ih, encodeAll_cons]

/-- the padded code points: `w - |cs|` copies of `p` on the chosen side -/
def padded (left : Bool) (cs : List Nat) (w : Int) (p : Nat) : List Nat :=
  if left then List.replicate (w - cs.length).toNat p ++ cs else cs ++ List.replicate (w - cs.length).toNat p

/-- a string already at least `w` code points wide is returned unchanged; otherwise the result has the pad
    character `p` added until it is exactly `w` code points wide (`padded_length`) -/
theorem pad_codepoints (left : Bool) (cs : List Nat) (hcs : Scalars cs) (p : Nat) (hp : isScalar p = true)
    (w : Int) (hw : 0 ≤ w) (hlim : w - cs.length ≤ padLimit) (orig : Val) :
    padWith left (encodeAll cs) w (encodeRune p) orig =
      if w ≤ cs.length then .ok orig else .ok (.str (encodeAll (padded left cs w p))) := by
  have h1 : runeCount (encodeRune p) = 1 := by
    have := Utf8.runeCount_encodeAll [p] (Scalars.cons hp Scalars.nil)
    rwa [encodeAll_singleton] at this
  unfold padWith
  simp only [Utf8.runeCount_encodeAll cs hcs, h1]
  have a1 : ¬ w < 0 := by omega
  by_cases hle : w ≤ cs.length
  · have a2 : w - (cs.length : Int) ≤ 0 := by omega
    simp [a1, a2, hle]
  · have a2 : ¬ (w - (cs.length : Int) ≤ 0) := by omega
    have a3 : ¬ ((w - (cs.length : Int)).toNat > padLimit) := by omega
    simp only [a1, a2, a3, hle, if_false, ne_eq, not_true_eq_false, pad_string, padded]
    cases left <;> simp [encodeAll_append]

theorem padded_length (left : Bool) (cs : List Nat) (w : Int) (p : Nat) (h : cs.length ≤ w) :
    ((padded left cs w p).length : Int) = w := by
  unfold padded; cases left <;> simp <;> omega

theorem padded_scalars (left : Bool) (cs : List Nat) (w : Int) (p : Nat) (hcs : Scalars cs)
    (hp : isScalar p = true) : Scalars (padded left cs w p) := by
  unfold padded; cases left
  · exact hcs.append (Scalars.replicate hp _)
  · exact (Scalars.replicate hp _).append hcs

/-- a negative width is `invalid-value` -/
theorem pad_negative_width (left : Bool) (s : Bytes) (w : Int) (hw : w < 0) (p : Bytes) (orig : Val) :
    padWith left s w p orig = errValue := by
  unfold padWith; simp [hw]

/-- a pad string that is not exactly one code point (none, or two or more) is `invalid-value`, however many bytes
    it has -/
theorem pad_string_not_one_codepoint (left : Bool) (s : Bytes) (w : Int) (ps : List Nat) (hps : Scalars ps)
    (h : ps.length ≠ 1) (orig : Val) :
    padWith left s w (encodeAll ps) orig = errValue := by
  unfold padWith
  simp only [Utf8.runeCount_encodeAll ps hps]
  split <;> rfl

/-- the functions themselves, on an `int64` width -/
theorem padLeft_codepoints (cs : List Nat) (hcs : Scalars cs) (p : Nat) (hp : isScalar p = true)
    (w : Int) (hw : 0 ≤ w) (hlim : w - cs.length ≤ padLimit) :
    padLeft (.str (encodeAll cs)) (.num (.int .i64 w)) (.str (encodeRune p)) =
      if w ≤ cs.length then .ok (.str (encodeAll cs))
      else .ok (.str (encodeAll (List.replicate (w - cs.length).toNat p ++ cs))) :=
  pad_codepoints true cs hcs p hp w hw hlim _

theorem padRight_codepoints (cs : List Nat) (hcs : Scalars cs) (p : Nat) (hp : isScalar p = true)
    (w : Int) (hw : 0 ≤ w) (hlim : w - cs.length ≤ padLimit) :
    padRight (.str (encodeAll cs)) (.num (.int .i64 w)) (.str (encodeRune p)) =
      if w ≤ cs.length then .ok (.str (encodeAll cs))
      else .ok (.str (encodeAll (cs ++ List.replicate (w - cs.length).toNat p))) :=
  pad_codepoints false cs hcs p hp w hw hlim _

/-- pad_left("héllo", 7, "é") = "ééhéllo": 7 code points, 10 bytes -/
example : padLeft (.str [0x68, 0xC3, 0xA9, 0x6C, 0x6C, 0x6F]) (.num (.int .i64 7)) (.str [0xC3, 0xA9]) =
    .ok (.str [0xC3, 0xA9, 0xC3, 0xA9, 0x68, 0xC3, 0xA9, 0x6C, 0x6C, 0x6F]) :=
  padLeft_codepoints hello hello_scalars 0xE9 (by decide) 7 (by decide) (by decide)
/-- pad_right("héllo", 5, "*") is unchanged although the string has 6 bytes -/
example : padRight (.str [0x68, 0xC3, 0xA9, 0x6C, 0x6C, 0x6F]) (.num (.int .i64 5)) (.str [0x2A]) =
    .ok (.str [0x68, 0xC3, 0xA9, 0x6C, 0x6C, 0x6F]) :=
  padRight_codepoints hello hello_scalars 0x2A (by decide) 5 (by decide) (by decide)
/-- a two-code-point pad string "é*" is rejected, the one-code-point two-byte "é" is not -/
example : padWith true [0x68] 3 [0xC3, 0xA9, 0x2A] (.str [0x68]) = errValue :=
  pad_string_not_one_codepoint true [0x68] 3 [0xE9, 0x2A] (by unfold Scalars; decide) (by decide) _

/-! ### 10. valid UTF-8 in, valid UTF-8 out -/

theorem valid_out_reverse (s : Bytes) (hs : validUTF8 s = true) :
    ∃ out, reverse (.str s) = .ok (.str out) ∧ validUTF8 out = true := by
  obtain ⟨cs, h, rfl⟩ := valid_is_encodeAll s hs
  exact ⟨_, reverse_codepoints cs h, Utf8.validUTF8_encodeAll _ h.reverse⟩

theorem subCodepoints_scalars (cs : List Nat) (h : Scalars cs) (start stop : Int) :
    Scalars (subCodepoints cs start stop) := by
  unfold subCodepoints
  cases clamp1 (↑cs.length) start stop with
  | none => exact Scalars.nil
  | some ab => exact (h.drop _).take _

theorem valid_out_slice (s : Bytes) (hs : validUTF8 s = true) (start stop : Int) :
    ∃ out, slice (.str s) start stop = .ok (.str out) ∧ validUTF8 out = true := by
  obtain ⟨cs, h, rfl⟩ := valid_is_encodeAll s hs
  exact ⟨_, slice_string_codepoints cs h start stop,
    Utf8.validUTF8_encodeAll _ (subCodepoints_scalars cs h start stop)⟩

theorem scalars_map_getD (cs : List Nat) (h : Scalars cs) (l : List Nat) (f : Nat → Nat) :
    Scalars (l.map (fun i => cs.getD (f i) RuneError)) := by
  intro c hc
  obtain ⟨i, _, rfl⟩ := List.mem_map.1 hc
  rw [List.getD_eq_getElem?_getD]
  cases hg : cs[f i]? with
  | none => exact isScalar_runeError
  | some x => exact h x (List.mem_of_getElem? hg)

theorem stepCodepointsRaw_scalars (cs : List Nat) (h : Scalars cs) (start stop step : Int) :
    Scalars (stepCodepointsRaw cs start stop step) := by
  unfold stepCodepointsRaw
  cases clampStep (↑cs.length) start stop step with
  | none => exact Scalars.nil
  | some an =>
    show Scalars (if step > 0 then _ else _)
    split
    · exact scalars_map_getD cs h _ _
    · exact scalars_map_getD cs.reverse h.reverse _ _

/-- (for every non-zero step, including values that are not Go `int`s) -/
theorem valid_out_sliceStep (s : Bytes) (hs : validUTF8 s = true) (start stop step : Int) (hstep : step ≠ 0) :
    ∃ out, sliceStep (.str s) start stop step = .ok (.str out) ∧ validUTF8 out = true := by
  obtain ⟨cs, h, rfl⟩ := valid_is_encodeAll s hs
  exact ⟨_, sliceStep_string_raw cs h start stop step hstep,
    Utf8.validUTF8_encodeAll _ (stepCodepointsRaw_scalars cs h start stop step)⟩

theorem valid_out_split_empty_sep (s : Bytes) (hs : validUTF8 s = true) :
    ∃ outs : List Bytes, split (.str s) (.str []) = .ok (.arr .plain (outs.map Val.str))
      ∧ ∀ o ∈ outs, validUTF8 o = true := by
  obtain ⟨cs, h, rfl⟩ := valid_is_encodeAll s hs
  by_cases hne : cs = []
  · subst hne; exact ⟨[], rfl, by intro o ho; cases ho⟩
  · refine ⟨cs.map encodeRune, ?_, ?_⟩
    · rw [split_empty_sep_codepoints cs h hne, List.map_map]; rfl
    · intro o ho
      obtain ⟨c, hc, rfl⟩ := List.mem_map.1 ho
      rw [← encodeAll_singleton]
      exact Utf8.validUTF8_encodeAll _ (Scalars.cons (h c hc) Scalars.nil)

theorem pad_string_gen (n : Nat) (ps : List Nat) :
    (List.replicate n (encodeAll ps)).foldr (· ++ ·) [] = encodeAll (List.replicate n ps).flatten := by
  induction n with
  | zero => rfl
  | succ n ih =>
    rw [List.replicate_succ, List.replicate_succ, List.foldr_cons, ih, List.flatten_cons, encodeAll_append]

/-- whatever string `pad_left` / `pad_right` return for a valid subject and a valid pad string is valid -/
theorem valid_out_pad (left : Bool) (s : Bytes) (hs : validUTF8 s = true) (w : Int) (p : Bytes)
    (hp : validUTF8 p = true) (out : Bytes) (h : padWith left s w p (.str s) = .ok (.str out)) :
    validUTF8 out = true := by
  obtain ⟨cs, hcs, rfl⟩ := valid_is_encodeAll s hs
  obtain ⟨ps, hps, rfl⟩ := valid_is_encodeAll p hp
  have hrep : ∀ n, Scalars (List.replicate n ps).flatten := by
    intro n c hc
    obtain ⟨l, hl, hcl⟩ := List.mem_flatten.1 hc
    rw [(List.mem_replicate.1 hl).2] at hcl
    exact hps c hcl
  unfold padWith at h
  split at h
  · cases h
  · split at h
    · cases h
    · simp only [pad_string_gen] at h
      split at h
      · injection h with h; injection h with h; subst h
        exact Utf8.validUTF8_encodeAll cs hcs
      · split at h
        · cases h
        · injection h with h; injection h with h; subst h
          cases left
          · simp only [Bool.false_eq_true, if_false, ← encodeAll_append]
            exact Utf8.validUTF8_encodeAll _ (hcs.append (hrep _))
          · simp only [if_true, ← encodeAll_append]
            exact Utf8.validUTF8_encodeAll _ ((hrep _).append hcs)

example : ∃ out, reverse (.str [0x68, 0xC3, 0xA9]) = .ok (.str out) ∧ validUTF8 out = true :=
  valid_out_reverse _ (by decide)
/-- the hypothesis matters: reversing the invalid string `C3` (a lone lead byte) yields U+FFFD, not `C3` -/
example : reverse (.str [0xC3]) = .ok (.str [0xEF, 0xBF, 0xBD]) := by rfl

/-! ### 11. `find_first` / `find_last`: positions in, positions out are code point positions

  `indexOf` / `lastIndexOf` (the model of `strings.Index` / `strings.LastIndex`) are polymorphic in what a list
  element is, so the same functions applied to the code point lists are the specification: `indexOf cs ps` is the
  least code point position at which `ps` occurs in `cs` (`indexOf_spec`), `lastIndexOf cs ps` the greatest
  (`lastIndexOf_spec`). -/

theorem indexOf_spec (s p : List Nat) (k : Nat) (h : indexOf s p = some k) :
    k ≤ s.length ∧ p <+: s.drop k ∧ ∀ j, j < k → ¬ p <+: s.drop j := by
  obtain ⟨i, hk, hi, hp, hmin⟩ := indexOfAux_spec s p 0 k h
  have : k = i := by omega
  subst this
  exact ⟨hi, hp, hmin⟩

theorem indexOf_none (s p : List Nat) (h : indexOf s p = none) (j : Nat) : ¬ p <+: s.drop j :=
  indexOfAux_none s p 0 h j

theorem lastIndexOf_spec (s p : List Nat) (k : Nat) (h : lastIndexOf s p = some k) :
    k ≤ s.length ∧ p <+: s.drop k ∧ ∀ j, k < j → j ≤ s.length → ¬ p <+: s.drop j := by
  rcases lastIndexOfAux_spec s p 0 none k h with ⟨hb, _⟩ | ⟨i, hk, hi, hp, hmax⟩
  · cases hb
  · have : k = i := by omega
    subst this
    exact ⟨hi, hp, hmax⟩

/-- `find_first(s, p)`: the result is the code point position of the first occurrence -/
theorem find_first_codepoint_index (cs ps : List Nat) (hcs : Scalars cs) (hps : Scalars ps)
    (hc : cs ≠ []) (hp : ps ≠ []) :
    findFirst (.str (encodeAll cs)) (.str (encodeAll ps)) =
      match indexOf cs ps with
      | none => .ok .null
      | some k => .ok (.num (.int .i64 k)) := by
  show (if (encodeAll cs).isEmpty || (encodeAll ps).isEmpty then _ else _) = _
  rw [isEmpty_encodeAll cs hc, isEmpty_encodeAll ps hp, indexOf_encodeAll cs ps hcs hps hp]
  cases hk : indexOf cs ps with
  | none => rfl
  | some k =>
    show Res.ok (runeIndexVal _ _) = _
    unfold runeIndexVal
    rw [runeCount_take_boundary cs hcs k (indexOf_le _ _ _ hk)]

/-- `find_last(s, p)` likewise -/
theorem find_last_codepoint_index (cs ps : List Nat) (hcs : Scalars cs) (hps : Scalars ps)
    (hc : cs ≠ []) (hp : ps ≠ []) :
    findLast (.str (encodeAll cs)) (.str (encodeAll ps)) =
      match lastIndexOf cs ps with
      | none => .ok .null
      | some k => .ok (.num (.int .i64 k)) := by
  show (if (encodeAll cs).isEmpty || (encodeAll ps).isEmpty then _ else _) = _
  rw [isEmpty_encodeAll cs hc, isEmpty_encodeAll ps hp, lastIndexOf_encodeAll cs ps hcs hps hp]
  cases hk : lastIndexOf cs ps with
  | none => rfl
  | some k =>
    show Res.ok (runeIndexVal _ _) = _
    unfold runeIndexVal
    rw [runeCount_take_boundary cs hcs k (lastIndexOf_le _ _ _ hk)]

/-- find_first("héllo", "l") = 2 (byte offset 3), find_last = 3 (byte offset 4) -/
example : findFirst (.str [0x68, 0xC3, 0xA9, 0x6C, 0x6C, 0x6F]) (.str [0x6C]) = .ok (.num (.int .i64 2)) :=
  find_first_codepoint_index hello [0x6C] hello_scalars (by unfold Scalars; decide) (by decide) (by decide)
example : findLast (.str [0x68, 0xC3, 0xA9, 0x6C, 0x6C, 0x6F]) (.str [0x6C]) = .ok (.num (.int .i64 3)) :=
  find_last_codepoint_index hello [0x6C] hello_scalars (by unfold Scalars; decide) (by decide) (by decide)
/-- a continuation byte alone (`A9`, not a valid pattern) would match inside `é`; a valid pattern never does:
    "©" = `C2 A9` is not found in "é" = `C3 A9` -/
example : findFirst (.str [0xC3, 0xA9]) (.str [0xC2, 0xA9]) = .ok .null :=
  find_first_codepoint_index [0xE9] [0xA9] (by unfold Scalars; decide) (by unfold Scalars; decide)
    (by decide) (by decide)

/-- the `start` argument is a code point position (negative values mean 0, values past the end give null) -/
theorem start_offset_codepoints (cs : List Nat) (h : Scalars cs) (i : Int) :
    startOffset (encodeAll cs) i =
      if i < 0 then some 0
      else if i ≤ cs.length then some (encodeAll (cs.take i.toNat)).length
      else none :=
  startOffset_encodeAll cs h i

/-- code point level specification of `find_first(s, p, start)` / `find_last(s, p, start)` -/
def cpFindFrom (last : Bool) (cs ps : List Nat) (i : Int) : Option Nat :=
  if i > cs.length then none
  else ((if last then lastIndexOf (cs.drop i.toNat) ps else indexOf (cs.drop i.toNat) ps)).map (· + i.toNat)

theorem find_from_codepoints (last : Bool) (cs ps : List Nat) (hcs : Scalars cs) (hps : Scalars ps)
    (hp : ps ≠ []) (i : Int) :
    findFrom last (.str (encodeAll cs)) (.str (encodeAll ps)) (.num (.int .i64 i)) =
      match cpFindFrom last cs ps i with
      | none => .ok .null
      | some k => .ok (.num (.int .i64 k)) := by
  rw [findFrom_str, startOffset_encodeAll' cs hcs, cpFindFrom]
  by_cases h1 : i > (cs.length : Int)
  · simp [h1]
  · simp only [h1, if_false, drop_boundary]
    have hlen : i.toNat ≤ cs.length := by omega
    cases last
    · simp only [Bool.false_eq_true, if_false]
      rw [indexOf_encodeAll _ ps (hcs.drop _) hps hp]
      cases hk : indexOf (cs.drop i.toNat) ps with
      | none => rfl
      | some r =>
        have := indexOf_le _ _ _ hk
        rw [List.length_drop] at this
        simp only [Option.map_some]
        rw [runeIndexVal_boundary cs hcs _ _ (by omega)]
    · simp only [if_true]
      rw [lastIndexOf_encodeAll _ ps (hcs.drop _) hps hp]
      cases hk : lastIndexOf (cs.drop i.toNat) ps with
      | none => rfl
      | some r =>
        have := lastIndexOf_le _ _ _ hk
        rw [List.length_drop] at this
        simp only [Option.map_some]
        rw [runeIndexVal_boundary cs hcs _ _ (by omega)]

/-- find_first("héllo", "l", 3) = 3: start 3 is the second `l` (byte 4), not byte 3 -/
example : findFirstFrom (.str [0x68, 0xC3, 0xA9, 0x6C, 0x6C, 0x6F]) (.str [0x6C]) (.num (.int .i64 3))
    = .ok (.num (.int .i64 3)) :=
  find_from_codepoints false hello [0x6C] hello_scalars (by unfold Scalars; decide) (by decide) 3

/-- the `finish` argument is a code point position, clamped to the end of the string (`take` beyond the length is
    the whole list); a negative one gives null -/
theorem finish_offset_codepoints (cs : List Nat) (h : Scalars cs) (j : Int) (hj : 0 ≤ j) :
    finishOffset (encodeAll cs) j = some (encodeAll (cs.take j.toNat)).length := by
  rw [finishOffset_encodeAll cs h, if_neg (by omega)]

theorem finish_offset_negative (s : Bytes) (j : Int) (hj : j < 0) : finishOffset s j = none := by
  unfold finishOffset; rw [if_pos hj]

/-- code point level specification of `find_first(s, p, start, finish)` / `find_last(…)`: search the code points
    `start ≤ k < min(finish, length)` -/
def cpFindBetween (last : Bool) (cs ps : List Nat) (i j : Int) : Option Nat :=
  if i > cs.length then none
  else if j < 0 then none
  else if i.toNat > min j.toNat cs.length then none
  else
    let w := (cs.drop i.toNat).take (min j.toNat cs.length - i.toNat)
    ((if last then lastIndexOf w ps else indexOf w ps)).map (· + i.toNat)

theorem find_between_codepoints (last : Bool) (cs ps : List Nat) (hcs : Scalars cs) (hps : Scalars ps)
    (hp : ps ≠ []) (i j : Int) :
    findBetween last (.str (encodeAll cs)) (.str (encodeAll ps)) (.num (.int .i64 i)) (.num (.int .i64 j)) =
      match cpFindBetween last cs ps i j with
      | none => .ok .null
      | some k => .ok (.num (.int .i64 k)) := by
  rw [findBetween_str, startOffset_encodeAll' cs hcs, finishOffset_encodeAll' cs hcs j, cpFindBetween]
  by_cases h1 : i > (cs.length : Int)
  · simp [h1]
  · simp only [h1, if_false]
    by_cases h2 : j < 0
    · simp [h2]
    · simp only [h2, if_false]
      have hlen : i.toNat ≤ cs.length := by omega
      generalize hb : min j.toNat cs.length = b
      have hbl : b ≤ cs.length := by omega
      by_cases h3 : i.toNat > b
      · have := take_boundary_len_strict cs i.toNat b h3 hlen
        simp [h3, this]
      · have h3' : i.toNat ≤ b := by omega
        have hm := take_boundary_len_mono cs i.toNat b h3'
        have h4 : ¬ (encodeAll (cs.take i.toNat)).length > (encodeAll (cs.take b)).length := by omega
        simp only [h3, h4, if_false, window_boundary cs _ _ h3']
        have hw : Scalars ((cs.drop i.toNat).take (b - i.toNat)) := (hcs.drop _).take _
        have hwl : ((cs.drop i.toNat).take (b - i.toNat)).length = b - i.toNat := by
          rw [List.length_take, List.length_drop]; omega
        cases last
        · simp only [Bool.false_eq_true, if_false]
          rw [indexOf_encodeAll _ ps hw hps hp]
          cases hk : indexOf ((cs.drop i.toNat).take (b - i.toNat)) ps with
          | none => rfl
          | some r =>
            have := indexOf_le _ _ _ hk
            rw [hwl] at this
            simp only [Option.map_some]
            rw [List.take_take, Nat.min_eq_left this, runeIndexVal_boundary cs hcs _ _ (by omega)]
        · simp only [if_true]
          rw [lastIndexOf_encodeAll _ ps hw hps hp]
          cases hk : lastIndexOf ((cs.drop i.toNat).take (b - i.toNat)) ps with
          | none => rfl
          | some r =>
            have := lastIndexOf_le _ _ _ hk
            rw [hwl] at this
            simp only [Option.map_some]
            rw [List.take_take, Nat.min_eq_left this, runeIndexVal_boundary cs hcs _ _ (by omega)]

/-- find_first("héllo", "l", 3, 5) = 3, and with finish 3 (exclusive) the second `l` is not found -/
example : findFirstBetween (.str [0x68, 0xC3, 0xA9, 0x6C, 0x6C, 0x6F]) (.str [0x6C]) (.num (.int .i64 3))
    (.num (.int .i64 5)) = .ok (.num (.int .i64 3)) :=
  find_between_codepoints false hello [0x6C] hello_scalars (by unfold Scalars; decide) (by decide) 3 5
example : findFirstBetween (.str [0x68, 0xC3, 0xA9, 0x6C, 0x6C, 0x6F]) (.str [0x6C]) (.num (.int .i64 3))
    (.num (.int .i64 3)) = .ok .null :=
  find_between_codepoints false hello [0x6C] hello_scalars (by unfold Scalars; decide) (by decide) 3 3

/-- A `finish` beyond the last code point is clamped whether or not it is beyond the last *byte* (before the fix of
    the defect this property exposed, 6 — more than the 5 code points, not more than the 6 bytes — gave null):
    find_first("héllo", "o", 0, 5) = find_first("héllo", "o", 0, 6) = find_first("héllo", "o", 0, 7) = 4, exactly as
    for the all-ASCII five-letter word, find_first("hello", "o", 0, 6) = 4. -/
example : findFirstBetween (.str [0x68, 0xC3, 0xA9, 0x6C, 0x6C, 0x6F]) (.str [0x6F]) (.num (.int .i64 0))
    (.num (.int .i64 6)) = .ok (.num (.int .i64 4)) :=
  find_between_codepoints false hello [0x6F] hello_scalars (by unfold Scalars; decide) (by decide) 0 6
example : findFirstBetween (.str [0x68, 0xC3, 0xA9, 0x6C, 0x6C, 0x6F]) (.str [0x6F]) (.num (.int .i64 0))
    (.num (.int .i64 5)) = .ok (.num (.int .i64 4)) :=
  find_between_codepoints false hello [0x6F] hello_scalars (by unfold Scalars; decide) (by decide) 0 5
example : findFirstBetween (.str [0x68, 0xC3, 0xA9, 0x6C, 0x6C, 0x6F]) (.str [0x6F]) (.num (.int .i64 0))
    (.num (.int .i64 7)) = .ok (.num (.int .i64 4)) :=
  find_between_codepoints false hello [0x6F] hello_scalars (by unfold Scalars; decide) (by decide) 0 7
example : findLastBetween (.str [0x68, 0xC3, 0xA9, 0x6C, 0x6C, 0x6F]) (.str [0x6C]) (.num (.int .i64 0))
    (.num (.int .i64 6)) = .ok (.num (.int .i64 3)) :=
  find_between_codepoints true hello [0x6C] hello_scalars (by unfold Scalars; decide) (by decide) 0 6
example : findFirstBetween (.str [0x68, 0x65, 0x6C, 0x6C, 0x6F]) (.str [0x6F]) (.num (.int .i64 0))
    (.num (.int .i64 6)) = .ok (.num (.int .i64 4)) :=
  find_between_codepoints false [0x68, 0x65, 0x6C, 0x6C, 0x6F] [0x6F] (by unfold Scalars; decide)
    (by unfold Scalars; decide) (by decide) 0 6

/-! ### 12. string ordering is code point ordering -/

/-- Go's `<` on the UTF-8 bytes is the lexicographic order of the code point lists -/
theorem bytesLt_codepoint_order (as bs : List Nat) (ha : Scalars as) (hb : Scalars bs) :
    bytesLt (encodeAll as) (encodeAll bs) = decide (as < bs) := by
  rw [bytesLt_encodeAll as bs ha hb, Bool.eq_iff_iff, cpLt_iff_lt]; simp

/-- "z" < "é" < "€" < "😀" although the lead bytes are 7A, C3, E2, F0 and the lengths 1, 2, 3, 4 -/
example : bytesLt (encodeAll [0x7A]) (encodeAll [0xE9]) = true ∧ bytesLt (encodeAll [0xE9]) (encodeAll [0x20AC]) = true
    ∧ bytesLt (encodeAll [0x20AC]) (encodeAll [0x1F600]) = true ∧ bytesLt (encodeAll [0xE9, 0x61]) (encodeAll [0xE9]) = false := by
  decide
/-- (UTF-16 would order U+FF5E after U+1F600's surrogates `D83D DE00`; UTF-8 does not) -/
example : bytesLt (encodeAll [0xFF5E]) (encodeAll [0x1F600]) = true :=
  (bytesLt_codepoint_order [0xFF5E] [0x1F600] (by unfold Scalars; decide) (by unfold Scalars; decide)).trans
    (by decide)

end Jmes.C11
