/-
  C17 (second part) — the structural identities on expression TEXT, through `parse` / `search`.

  `Properties/C17.lean` states the identities between hand-picked nodes.  Here they are statements about what
  `Parser.parse` returns for a token list assembled from the printings of ARBITRARY well-formed sub-trees (`L`, `ρ`,
  `R`, `C` … of the declarative grammar `Spec/Grammar.lean`), and about what `search` then computes — by
  `C04G.parse_complete`.  `Lexes e ts` says that the text `e` lexes to the tokens `ts`.

  The five projection openers `[*]`, `.*`, `[]`, `[?c]`, `[a:b:c]` are treated uniformly (`Opener`, in
  `Proofs/C17BLemmas.lean`): `o.toks` are the opener's tokens, `o.node l r` the node built for `l ⟨o⟩ r`, and
  `o.sem root env f` the evaluator loop that node runs on the value of `l` (`f` = the right-hand side, per element).

    1. `proj_text`              `L⟨o⟩ρ`        ⟶ `o.node l ρ`;   search = value of `L`, then the loop over `ρ`
       `rhs_extends_text`       `L⟨o⟩ρ.R`      ⟶ `o.node l (pipe ρ R)`: the right-hand side extends over `.R`
       `two_selectors_text`     `L⟨o⟩.R1.R2`   ⟶ `o.node l (pipe R1 R2)`; `star_two_selectors_value`: map, drop nulls
       `paren_ends_text`        `(L⟨o⟩ρ).R`    ⟶ `pipe (o.node l ρ) R`
       `pipe_ends_text`         `L⟨o⟩ρ | C`    ⟶ `pipe (o.node l ρ) C`;  `paren_eq_pipe_text`: the two agree
       `op_ends_text`           `L⟨o⟩ρ op C`   ⟶ `binNode op (o.node l ρ) C` (`||`, `&&`, comparisons, arithmetic)
       `comma_ends_text`, `bracket_ends_text`, `bracket_ends_text1`   inside `[ … , … ]`
       `*_follower`             the token after the projection, as `C04G.rhs_extends_until` sees it
    2. `dot_eq_pipe_text`       `A.R` and `A | R` build the same node when nothing is open at the right edge of `A`
       (`lvlDot ≤ rlevel A`: in particular `A` is not a projection, `not_projection`); `dot_ne_pipe_projection`
    3. `projection_then_projection_text`   `L[*]ρ.R` against `L[*]ρ | [*].R` on text
    4. `Selector`               selector-shaped nodes map null to null (`selector_null`)
    5. `sem_comp`               value level: every opener's loop over `f1 then f2` against the loop over `f1` piped
                                into `[*]` over `f2` (`projectObject_comp`, `filter_comp`, `flatten_comp`, `slice_comp`)
    6. `multiselect_concat_eq`, `hash_select_list_eq`, `multiselect_text`, `hash_select_text`   all outcomes
    7. `multiselect_null_asymmetry`   `[a]` on null is `[null]`-like, `[a, b]` on null is null
    8. `unfused_text`, `sem_unfused`   `L[?c]ρ` = `L[?c] | [*]ρ`, `L[]ρ` = `L[] | [*]ρ`, slice, `.*`, `[*]`;
       `star_is_map_text`             `L[*].R` = `map(&R, L)[*]` on arrays
-/
import Jmes.Proofs.C17BLemmas
import Jmes.Properties.C17
import Jmes.Properties.C01
namespace Jmes.C17B
open Jmes Jmes.Parser Jmes.Pratt Jmes.Grammar Jmes.C17
set_option linter.unusedSimpArgs false

/-- the same text, the token list rewritten -/
theorem Lexes.congr {e : Bytes} {ts ts' : List Token} (h : Lexes e ts) (he : ts = ts') : Lexes e ts' := he ▸ h

/-- `evaluate` is `ieval` with the document as root and current node, and no bindings -/
theorem evaluate_eq (n : INode) (d : Val) : evaluate n d = ieval d n d [] := rfl

/-! ## 1. A projection's right-hand side on text -/

/-- **`L⟨o⟩ρ`** for any of the five openers `o`, any well-formed left operand `L` whose right edge is closed at the
    opener's level, and any right-hand side `ρ`: the text parses to the projection node `o.node l ρ`, and `search`
    evaluates `L` on the document and runs the opener's loop with `ρ` applied to each element. -/
theorem proj_text (o : Opener) {L ρ : PTree} (hL : WellPrec L) (hLr : o.lvl ≤ rlevel L) (ho : o.ok) (hρ : Rhs ρ)
    {e : Bytes} (hl : Lexes e (Grammar.flatten L ++ o.toks ++ Grammar.flat true ρ)) :
    Parser.parse e = .ok (o.node (erase L) (erase ρ)) ∧
    ∀ d, search e d = (evaluate (erase L) d >>= o.sem d [] (fun v => ieval d (erase ρ) v [])) := by
  have hi := not_icur (b := false) hL
  have hw : WellPrec (o.mk L ρ) := Opener.wp_mk (b := false) hL hLr ho hρ
  obtain ⟨hp, hs⟩ := text hw (hl.congr (Opener.flat_mk o false hi ρ).symm)
  rw [Opener.erase_mk o hi hρ.not_icur] at hp hs
  refine ⟨hp, fun d => ?_⟩
  rw [hs d, evaluate_eq, Opener.ieval_node o d (erase_not_slice L)]
  rfl

/-- … and without a right-hand side: **`L⟨o⟩`** -/
theorem proj_text0 (o : Opener) {L : PTree} (hL : WellPrec L) (hLr : o.lvl ≤ rlevel L) (ho : o.ok)
    {e : Bytes} (hl : Lexes e (Grammar.flatten L ++ o.toks)) :
    Parser.parse e = .ok (o.node0 (erase L)) ∧ ∀ d, search e d = (evaluate (erase L) d >>= o.sem0 d []) := by
  have hi := not_icur (b := false) hL
  have hw : WellPrec (o.mk L .icur) := Opener.wp_mk0 (b := false) hL hLr ho
  obtain ⟨hp, hs⟩ := text hw (hl.congr (by
    show Grammar.flat false L ++ o.toks = Grammar.flat false (o.mk L .icur)
    rw [Opener.flat_mk o false hi]; simp only [Grammar.flat, List.append_nil]))
  rw [Opener.erase_mk0 o hi] at hp hs
  refine ⟨hp, fun d => ?_⟩
  rw [hs d, evaluate_eq, Opener.ieval_node0 o d]
  rfl

/-- **the right-hand side extends over a following selector**: `L⟨o⟩ρ.R` parses to ONE projection whose right-hand
    side is `ρ` then `R` — not to `R` applied to the projected array -/
theorem rhs_extends_text (o : Opener) {L ρ R : PTree} (hL : WellPrec L) (hLr : o.lvl ≤ rlevel L) (ho : o.ok)
    (hρ : Rhs ρ) (hρr : lvlDot ≤ rlevel ρ) (hR : Sel R)
    {e : Bytes} (hl : Lexes e (Grammar.flatten L ++ o.toks ++ Grammar.flat true ρ ++ tDot :: Grammar.flatten R)) :
    Parser.parse e = .ok (o.node (erase L) (.pipe (erase ρ) (erase R))) ∧
    ∀ d, search e d =
      (evaluate (erase L) d >>= o.sem d [] (fun v => ieval d (erase ρ) v [] >>= fun y => ieval d (erase R) y [])) := by
  have h := proj_text o hL hLr ho (rhs_dot hρ hρr hR) (e := e)
    (hl.congr (by rw [flat_dot]; simp only [List.append_assoc]))
  rw [erase_dot hρ.not_icur] at h
  refine ⟨h.1, fun d => ?_⟩
  rw [h.2 d]
  have : (fun v => ieval d (.pipe (erase ρ) (erase R)) v []) =
      (fun v => ieval d (erase ρ) v [] >>= fun y => ieval d (erase R) y []) :=
    funext fun v => dot_is_pipe d _ _ v []
  rw [this]

/-- **`L⟨o⟩.R1.R2`**: both selectors are in the right-hand side -/
theorem two_selectors_text (o : Opener) {L R1 R2 : PTree} (hL : WellPrec L) (hLr : o.lvl ≤ rlevel L) (ho : o.ok)
    (h1 : Sel R1) (h1r : lvlDot ≤ rlevel R1) (h2 : Sel R2)
    {e : Bytes}
    (hl : Lexes e (Grammar.flatten L ++ o.toks ++ tDot :: Grammar.flatten R1 ++ tDot :: Grammar.flatten R2)) :
    Parser.parse e = .ok (o.node (erase L) (.pipe (erase R1) (erase R2))) ∧
    ∀ d, search e d =
      (evaluate (erase L) d >>= o.sem d [] (fun v => ieval d (erase R1) v [] >>= fun y => ieval d (erase R2) y [])) := by
  have hr : lvlDot ≤ rlevel (.dotId .icur R1) := by
    rw [rlevel_dot]; exact Nat.le_min.2 ⟨Nat.le_refl _, h1r⟩
  exact rhs_extends_text o hL hLr ho (rhs_dot1 h1) hr h2 (hl.congr (by rw [flat_dot1]))

/-- **`L[*].R1.R2` maps "R1 then R2" over the elements and drops the nulls**: when `L` evaluates to the JSON array
    `xs` and "R1 then R2" yields `g x` on each element `x` -/
theorem star_two_selectors_value {L R1 R2 : PTree} (hL : WellPrec L) (hLr : lvlBracket ≤ rlevel L)
    (h1 : Sel R1) (h1r : lvlDot ≤ rlevel R1) (h2 : Sel R2)
    {e : Bytes}
    (hl : Lexes e (Grammar.flatten L ++ [tArrayStar] ++ tDot :: Grammar.flatten R1 ++ tDot :: Grammar.flatten R2))
    (d : Val) (xs : List Val) (g : Val → Val) (hx : evaluate (erase L) d = .ok (.arr .plain xs))
    (hg : ∀ x ∈ xs, (ieval d (erase R1) x [] >>= fun y => ieval d (erase R2) y []) = .ok (g x)) :
    search e d = .ok (.arr .plain ((xs.map g).filter (fun y => !y.isNull))) := by
  rw [(two_selectors_text .star hL hLr trivial h1 h1r h2 hl).2 d, hx, Res.ok_bind]
  exact C01.projectArray_spec _ g xs hg


/-- the value of the projection `L⟨o⟩ρ` on the document `d`: what `proj_text` says `search` computes -/
def projVal (o : Opener) (L ρ : PTree) (d : Val) : Res Val :=
  evaluate (erase L) d >>= o.sem d [] (fun v => ieval d (erase ρ) v [])

/-- evaluating the projection node on the document is `projVal` -/
theorem evaluate_node (o : Opener) (L ρ : PTree) (d : Val) :
    evaluate (o.node (erase L) (erase ρ)) d = projVal o L ρ d := by
  rw [evaluate_eq, Opener.ieval_node o d (erase_not_slice L)]; rfl

/-- the same, stated on `ieval` -/
theorem ieval_node_doc (o : Opener) (L ρ : PTree) (d : Val) :
    ieval d (o.node (erase L) (erase ρ)) d [] = projVal o L ρ d := evaluate_node o L ρ d

/-- **parenthesising ends the projection**: in `(L⟨o⟩ρ).R` the selector `R` is applied to the projected array -/
theorem paren_ends_text (o : Opener) {L ρ R : PTree} (hL : WellPrec L) (hLr : o.lvl ≤ rlevel L) (ho : o.ok)
    (hρ : Rhs ρ) (hR : Sel R) {e : Bytes}
    (hl : Lexes e (tLParen :: (Grammar.flatten L ++ o.toks ++ Grammar.flat true ρ) ++ tRParen :: tDot :: Grammar.flatten R)) :
    Parser.parse e = .ok (.pipe (o.node (erase L) (erase ρ)) (erase R)) ∧
    ∀ d, search e d = (projVal o L ρ d >>= fun arr => ieval d (erase R) arr []) := by
  have hi := not_icur (b := false) hL
  have hw : WellPrec (o.mk L ρ) := Opener.wp_mk (b := false) hL hLr ho hρ
  have hw2 : WellPrec (.dotId (.paren (o.mk L ρ)) R) := wp_dot (C04G.wellPrec_paren hw) (by rw [rlevel_paren]; decide) hR
  obtain ⟨hp, hs⟩ := text hw2 (hl.congr (by
    rw [flatten_dot, flatten_paren]
    show _ = tLParen :: Grammar.flat false (o.mk L ρ) ++ _ ++ _
    rw [Opener.flat_mk o false hi]
    simp only [Grammar.flatten, List.append_assoc, List.cons_append, List.nil_append]))
  have he : erase (.dotId (.paren (o.mk L ρ)) R) = .pipe (o.node (erase L) (erase ρ)) (erase R) := by
    rw [erase_dot (by rfl), C04G.erase_paren, Opener.erase_mk o hi hρ.not_icur]
  rw [he] at hp hs
  refine ⟨hp, fun d => ?_⟩
  rw [hs d, evaluate_eq, dot_is_pipe, ieval_node_doc]

/-- **a lower-precedence operator ends the projection**: in `L⟨o⟩ρ op C`, for any binary operator `op` (`|`, `||`,
    `&&`, the comparisons, the arithmetic operators), the projection is the operator's left operand -/
theorem op_ends_text (o : Opener) {L ρ C : PTree} (hL : WellPrec L) (hLr : o.lvl ≤ rlevel L) (ho : o.ok) (hρ : Rhs ρ)
    {op : Token} {lvl : Nat} (hop : binLevel op.type = some lvl) (hC : WellPrec C) (hCl : lvl < llevel C) {e : Bytes}
    (hl : Lexes e (Grammar.flatten L ++ o.toks ++ Grammar.flat true ρ ++ op :: Grammar.flatten C)) :
    Parser.parse e = .ok (binNode op.type (o.node (erase L) (erase ρ)) (erase C)) ∧
    ∀ d, search e d = evaluate (binNode op.type (o.node (erase L) (erase ρ)) (erase C)) d := by
  have hi := not_icur (b := false) hL
  have hw : WellPrec (o.mk L ρ) := Opener.wp_mk (b := false) hL hLr ho hρ
  have hw2 : WellPrec (.bin op (o.mk L ρ) C) :=
    wp_bin hop hw (by rw [Opener.rlevel_mk]; have := (GrammarF0.binLevel_range hop).2; simp only [lvlProj]; omega) hC hCl
  obtain ⟨hp, hs⟩ := text hw2 (hl.congr (by
    rw [flatten_bin]
    show _ = Grammar.flat false (o.mk L ρ) ++ _
    rw [Opener.flat_mk o false hi]; rfl))
  rw [erase_bin, Opener.erase_mk o hi hρ.not_icur] at hp hs
  exact ⟨hp, hs⟩

/-- **piping ends the projection**: in `L⟨o⟩ρ | C` the right side sees the projected array -/
theorem pipe_ends_text (o : Opener) {L ρ C : PTree} (hL : WellPrec L) (hLr : o.lvl ≤ rlevel L) (ho : o.ok) (hρ : Rhs ρ)
    {op : Token} (hop : op.type = .pipe) (hC : WellPrec C) (hCl : lvlPipe < llevel C) {e : Bytes}
    (hl : Lexes e (Grammar.flatten L ++ o.toks ++ Grammar.flat true ρ ++ op :: Grammar.flatten C)) :
    Parser.parse e = .ok (.pipe (o.node (erase L) (erase ρ)) (erase C)) ∧
    ∀ d, search e d = (projVal o L ρ d >>= fun arr => ieval d (erase C) arr []) := by
  have h := op_ends_text o hL hLr ho hρ (op := op) (lvl := lvlPipe) (by rw [hop]; rfl) hC hCl hl
  rw [hop] at h
  refine ⟨h.1, fun d => ?_⟩
  rw [h.2 d]
  show evaluate (.pipe _ _) d = _
  rw [evaluate_eq, dot_is_pipe, ieval_node_doc]

/-- **`(L⟨o⟩ρ).R` and `L⟨o⟩ρ | R` are the same query**: the same node, hence the same result on every document -/
theorem paren_eq_pipe_text (o : Opener) {L ρ R : PTree} (hL : WellPrec L) (hLr : o.lvl ≤ rlevel L) (ho : o.ok)
    (hρ : Rhs ρ) (hR : Sel R) {op : Token} (hop : op.type = .pipe) {e1 e2 : Bytes}
    (h1 : Lexes e1 (tLParen :: (Grammar.flatten L ++ o.toks ++ Grammar.flat true ρ) ++ tRParen :: tDot :: Grammar.flatten R))
    (h2 : Lexes e2 (Grammar.flatten L ++ o.toks ++ Grammar.flat true ρ ++ op :: Grammar.flatten R)) :
    Parser.parse e1 = Parser.parse e2 ∧ ∀ d, search e1 d = search e2 d := by
  have a := paren_ends_text o hL hLr ho hρ hR h1
  have b := pipe_ends_text o hL hLr ho hρ hop hR.wp (hR.above (by decide)) h2
  exact ⟨a.1.trans b.1.symm, fun d => (a.2 d).trans (b.2 d).symm⟩

/-- **`||` ends the projection**: `L⟨o⟩ρ || C` is the projected array if it is truthy (non-empty), else `C` -/
theorem or_ends_text (o : Opener) {L ρ C : PTree} (hL : WellPrec L) (hLr : o.lvl ≤ rlevel L) (ho : o.ok) (hρ : Rhs ρ)
    {op : Token} (hop : op.type = .or) (hC : WellPrec C) (hCl : lvlOr < llevel C) {e : Bytes}
    (hl : Lexes e (Grammar.flatten L ++ o.toks ++ Grammar.flat true ρ ++ op :: Grammar.flatten C)) :
    Parser.parse e = .ok (.or (o.node (erase L) (erase ρ)) (erase C)) ∧
    ∀ d, search e d = (projVal o L ρ d >>= fun arr => if isTrue arr then .ok arr else evaluate (erase C) d) := by
  have h := op_ends_text o hL hLr ho hρ (op := op) (lvl := lvlOr) (by rw [hop]; rfl) hC hCl hl
  rw [hop] at h
  refine ⟨h.1, fun d => ?_⟩
  rw [h.2 d]
  show evaluate (.or _ _) d = _
  simp only [evaluate_eq, ieval, ieval_node_doc, Res.pure_eq]

/-- **a comma ends the projection**: `[L⟨o⟩ρ, C]` is a two-element multi-select whose first element is the projection -/
theorem comma_ends_text (o : Opener) {L ρ C : PTree} (hL : WellPrec L) (hLr : o.lvl ≤ rlevel L) (ho : o.ok) (hρ : Rhs ρ)
    (hC : WellPrec C) {e : Bytes}
    (hl : Lexes e (tLBracket :: (Grammar.flatten L ++ o.toks ++ Grammar.flat true ρ) ++ tComma :: Grammar.flatten C ++ [tRBracket])) :
    Parser.parse e = .ok (.selectArrayCurrent [o.node (erase L) (erase ρ), erase C]) ∧
    ∀ d, search e d = if d.isNull then .ok .null else
      (projVal o L ρ d >>= fun arr => evaluate (erase C) d >>= fun c => .ok (.arr .plain [arr, c])) := by
  have hi := not_icur (b := false) hL
  have hw : WellPrec (o.mk L ρ) := Opener.wp_mk (b := false) hL hLr ho hρ
  obtain ⟨hp, hs⟩ := text (wp_list2 hw hC) (hl.congr (by
    rw [flatten_list2]
    show _ = tLBracket :: Grammar.flat false (o.mk L ρ) ++ _ ++ _
    rw [Opener.flat_mk o false hi]; rfl))
  rw [erase_list2, Opener.erase_mk o hi hρ.not_icur] at hp hs
  refine ⟨hp, fun d => ?_⟩
  rw [hs d]
  simp only [evaluate_eq, ieval, ievalList, ieval_node_doc, Res.pure_eq, Res.bind_assoc, Res.ok_bind]

/-- **a closing bracket ends the projection**: in `[C, L⟨o⟩ρ]` the projection is the second element -/
theorem bracket_ends_text (o : Opener) {L ρ C : PTree} (hL : WellPrec L) (hLr : o.lvl ≤ rlevel L) (ho : o.ok) (hρ : Rhs ρ)
    (hC : WellPrec C) {e : Bytes}
    (hl : Lexes e (tLBracket :: Grammar.flatten C ++ tComma :: (Grammar.flatten L ++ o.toks ++ Grammar.flat true ρ) ++ [tRBracket])) :
    Parser.parse e = .ok (.selectArrayCurrent [erase C, o.node (erase L) (erase ρ)]) ∧
    ∀ d, search e d = if d.isNull then .ok .null else
      (evaluate (erase C) d >>= fun c => projVal o L ρ d >>= fun arr => .ok (.arr .plain [c, arr])) := by
  have hi := not_icur (b := false) hL
  have hw : WellPrec (o.mk L ρ) := Opener.wp_mk (b := false) hL hLr ho hρ
  obtain ⟨hp, hs⟩ := text (wp_list2 hC hw) (hl.congr (by
    rw [flatten_list2]
    show _ = tLBracket :: _ ++ tComma :: Grammar.flat false (o.mk L ρ) ++ _
    rw [Opener.flat_mk o false hi]; rfl))
  rw [erase_list2, Opener.erase_mk o hi hρ.not_icur] at hp hs
  refine ⟨hp, fun d => ?_⟩
  rw [hs d]
  simp only [evaluate_eq, ieval, ievalList, ieval_node_doc, Res.pure_eq, Res.bind_assoc, Res.ok_bind]

/-- … and `[L⟨o⟩ρ]` is the one-element list of the projected array -/
theorem bracket_ends_text1 (o : Opener) {L ρ : PTree} (hL : WellPrec L) (hLr : o.lvl ≤ rlevel L) (ho : o.ok) (hρ : Rhs ρ)
    {e : Bytes} (hl : Lexes e (tLBracket :: (Grammar.flatten L ++ o.toks ++ Grammar.flat true ρ) ++ [tRBracket])) :
    Parser.parse e = .ok (.selectArraySingleCurrent (o.node (erase L) (erase ρ))) ∧
    ∀ d, search e d = (projVal o L ρ d >>= fun arr => .ok (.arr .plain [arr])) := by
  have hi := not_icur (b := false) hL
  have hw : WellPrec (o.mk L ρ) := Opener.wp_mk (b := false) hL hLr ho hρ
  obtain ⟨hp, hs⟩ := text (wp_list1 hw) (hl.congr (by
    rw [flatten_list1]
    show _ = tLBracket :: Grammar.flat false (o.mk L ρ) ++ _
    rw [Opener.flat_mk o false hi]; rfl))
  rw [erase_list1, Opener.erase_mk o hi hρ.not_icur] at hp hs
  refine ⟨hp, fun d => ?_⟩
  rw [hs d]
  simp only [evaluate_eq, ieval, ieval_node_doc, Res.pure_eq]

/-! ### the token after the projection, as `C04G.rhs_extends_until` sees it -/

/-- the first follower `projFollowers` lists for a projection is the token after it -/
theorem followers_mk (o : Opener) (b : Bool) (L ρ : PTree) (nx : Token) :
    ∃ rest, projFollowers b (o.mk L ρ) nx = nx :: rest := by
  cases o <;> exact ⟨_, rfl⟩

/-- in `L⟨o⟩ρ op C` the projection is followed by `op`, and `op` is one of the tokens `rhs_extends_until` allows -/
theorem op_follower (o : Opener) (L ρ C : PTree) {op : Token} {lvl : Nat} (hop : binLevel op.type = some lvl) :
    op ∈ projFollowers false (.bin op (o.mk L ρ) C) endTok ∧ isRhsFollower op.type = true := by
  obtain ⟨rest, hr⟩ := followers_mk o false L ρ op
  refine ⟨?_, ?_⟩
  · simp only [projFollowers, hr, List.cons_append, List.mem_cons, true_or]
  · cases h : op.type <;> rw [h] at hop <;> first | rfl | cases hop

/-- in `[L⟨o⟩ρ, C]` by the comma, in `[C, L⟨o⟩ρ]` and `[L⟨o⟩ρ]` by `]`, in `(L⟨o⟩ρ).R` by `)` -/
theorem comma_follower (o : Opener) (L ρ C : PTree) :
    tComma ∈ projFollowers false (.multiList [o.mk L ρ, C]) endTok ∧ isRhsFollower tComma.type = true := by
  obtain ⟨rest, hr⟩ := followers_mk o false L ρ tComma
  exact ⟨by simp only [projFollowers, projFollowersSep, hr, List.cons_append, List.mem_cons, true_or], rfl⟩

/-- in `[C, L⟨o⟩ρ]` and `[L⟨o⟩ρ]` the projection is followed by `]` -/
theorem bracket_follower (o : Opener) (L ρ C : PTree) :
    tRBracket ∈ projFollowers false (.multiList [C, o.mk L ρ]) endTok ∧
    tRBracket ∈ projFollowers false (.multiList [o.mk L ρ]) endTok ∧ isRhsFollower tRBracket.type = true := by
  obtain ⟨rest, hr⟩ := followers_mk o false L ρ tRBracket
  exact ⟨by simp only [projFollowers, projFollowersSep, hr, List.mem_append, List.mem_cons, true_or, or_true],
    by simp only [projFollowers, projFollowersSep, hr, List.mem_cons, true_or], rfl⟩

/-- in `(L⟨o⟩ρ).R` the projection is followed by `)` -/
theorem paren_follower (o : Opener) (L ρ R : PTree) :
    tRParen ∈ projFollowers false (.dotId (.paren (o.mk L ρ)) R) endTok ∧ isRhsFollower tRParen.type = true := by
  obtain ⟨rest, hr⟩ := followers_mk o false L ρ tRParen
  exact ⟨by simp only [projFollowers, hr, List.cons_append, List.mem_cons, true_or], rfl⟩


/-! ### the same, on concrete texts -/

section Examples
open Grammar.Ex

private theorem selId (s : String) (h : Sel (idt s) := by exact ⟨by decide, by decide, by decide⟩) : Sel (idt s) := h
private def one : Val := .num (.int .int 1)
/-- `{"foo": [{"bar": {"baz": 1}}, {"bar": null}, 2], "c": true}` -/
private def doc : Val :=
  .obj [(bs "c", .bool true),
        (bs "foo", .arr .plain [.obj [(bs "bar", .obj [(bs "baz", one)])], .obj [(bs "bar", .null)], .num (.int .int 2)])]

-- (i) `foo[*].bar.baz`: one projection over "bar then baz" …
example : Parser.parse (bs "foo[*].bar.baz") =
    .ok (.projectArray (.field (bs "foo")) (.pipe (.field (bs "bar")) (.field (bs "baz")))) :=
  (two_selectors_text .star (L := idt "foo") (R1 := idt "bar") (R2 := idt "baz") (by decide) (by decide) trivial
    (selId "bar") (by decide) (selId "baz") (by decide)).1
-- … whose value is "map, drop nulls": `[1]`
example : search (bs "foo[*].bar.baz") doc = .ok (.arr .plain [one]) :=
  (star_two_selectors_value (L := idt "foo") (R1 := idt "bar") (R2 := idt "baz") (by decide) (by decide)
    (selId "bar") (by decide) (selId "baz") (by decide) doc _ (fun v => field (bs "baz") (field (bs "bar") v)) rfl
    (fun _ _ => rfl)).trans (by rfl)
-- (ii) `(foo[*].bar).baz` and `foo[*].bar | baz`: a pipe whose left side is the projection; on `doc` the field `baz`
-- of the projected ARRAY is null
example : Parser.parse (bs "(foo[*].bar).baz") =
    .ok (.pipe (.projectArray (.field (bs "foo")) (.field (bs "bar"))) (.field (bs "baz"))) :=
  (paren_ends_text .star (L := idt "foo") (ρ := .dotId .icur (idt "bar")) (R := idt "baz") (by decide) (by decide) trivial
    (rhs_dot1 (selId "bar")) (selId "baz") (by decide)).1
example : Parser.parse (bs "foo[*].bar | baz") =
    .ok (.pipe (.projectArray (.field (bs "foo")) (.field (bs "bar"))) (.field (bs "baz"))) :=
  (pipe_ends_text .star (L := idt "foo") (ρ := .dotId .icur (idt "bar")) (C := idt "baz") (op := op .pipe "|")
    (by decide) (by decide) trivial (rhs_dot1 (selId "bar")) rfl (by decide) (by decide) (by decide)).1
example : search (bs "(foo[*].bar).baz") doc = .ok .null ∧ search (bs "foo[*].bar | baz") doc = .ok .null :=
  ⟨((paren_ends_text .star (L := idt "foo") (ρ := .dotId .icur (idt "bar")) (R := idt "baz") (by decide) (by decide)
      trivial (rhs_dot1 (selId "bar")) (selId "baz") (by decide)).2 doc).trans (by rfl),
   ((pipe_ends_text .star (L := idt "foo") (ρ := .dotId .icur (idt "bar")) (C := idt "baz") (op := op .pipe "|")
      (by decide) (by decide) trivial (rhs_dot1 (selId "bar")) rfl (by decide) (by decide) (by decide)).2 doc).trans
      (by rfl)⟩
example : ∀ d, search (bs "(foo[*].bar).baz") d = search (bs "foo[*].bar | baz") d :=
  (paren_eq_pipe_text .star (L := idt "foo") (ρ := .dotId .icur (idt "bar")) (R := idt "baz") (op := op .pipe "|")
    (by decide) (by decide) trivial (rhs_dot1 (selId "bar")) (selId "baz") rfl (by decide) (by decide)).2
-- (iii) the other openers: `foo.*.bar.baz`, `foo[].bar.baz`, `foo[?c].bar.baz`, `foo[0:2].bar.baz`
example : Parser.parse (bs "foo.*.bar.baz") =
    .ok (.projectObject (.field (bs "foo")) (.pipe (.field (bs "bar")) (.field (bs "baz")))) :=
  (two_selectors_text .ostar (L := idt "foo") (R1 := idt "bar") (R2 := idt "baz") (by decide) (by decide) trivial
    (selId "bar") (by decide) (selId "baz") (by decide)).1
example : Parser.parse (bs "foo[].bar.baz") =
    .ok (.flattenAndProject (.field (bs "foo")) (.pipe (.field (bs "bar")) (.field (bs "baz")))) :=
  (two_selectors_text .flat (L := idt "foo") (R1 := idt "bar") (R2 := idt "baz") (by decide) (by decide) trivial
    (selId "bar") (by decide) (selId "baz") (by decide)).1
example : Parser.parse (bs "foo[?c].bar.baz") =
    .ok (.filterAndProject (.field (bs "foo")) (.field (bs "c")) (.pipe (.field (bs "bar")) (.field (bs "baz")))) :=
  (two_selectors_text (.filt (idt "c")) (L := idt "foo") (R1 := idt "bar") (R2 := idt "baz") (by decide) (by decide)
    (by show WellPrec _; decide) (selId "bar") (by decide) (selId "baz") (by decide)).1
example : Parser.parse (bs "foo[0:2].bar.baz") =
    .ok (.projectArray (.slice (.field (bs "foo")) 0 2) (.pipe (.field (bs "bar")) (.field (bs "baz")))) :=
  (two_selectors_text (.slice (some (int "0")) (some (int "2")) none) (L := idt "foo") (R1 := idt "bar") (R2 := idt "baz")
    (by decide) (by decide) (by show sliceOK _ _ _ = true; decide) (selId "bar") (by decide) (selId "baz") (by decide)).1
-- … each ended by parentheses or a pipe: `(foo[].bar).baz`, `foo.*.bar | baz`
example : Parser.parse (bs "(foo[].bar).baz") =
    .ok (.pipe (.flattenAndProject (.field (bs "foo")) (.field (bs "bar"))) (.field (bs "baz"))) :=
  (paren_ends_text .flat (L := idt "foo") (ρ := .dotId .icur (idt "bar")) (R := idt "baz") (by decide) (by decide) trivial
    (rhs_dot1 (selId "bar")) (selId "baz") (by decide)).1
example : Parser.parse (bs "foo.*.bar | baz") =
    .ok (.pipe (.projectObject (.field (bs "foo")) (.field (bs "bar"))) (.field (bs "baz"))) :=
  (pipe_ends_text .ostar (L := idt "foo") (ρ := .dotId .icur (idt "bar")) (C := idt "baz") (op := op .pipe "|")
    (by decide) (by decide) trivial (rhs_dot1 (selId "bar")) rfl (by decide) (by decide) (by decide)).1
-- (iv) `foo[*].bar || c`, `[foo[*].bar, c]`, `[c, foo[*].bar]`, `[foo[*].bar]`, `foo[*].bar == c`
example : Parser.parse (bs "foo[*].bar || c") =
    .ok (.or (.projectArray (.field (bs "foo")) (.field (bs "bar"))) (.field (bs "c"))) :=
  (or_ends_text .star (L := idt "foo") (ρ := .dotId .icur (idt "bar")) (C := idt "c") (op := op .or "||")
    (by decide) (by decide) trivial (rhs_dot1 (selId "bar")) rfl (by decide) (by decide) (by decide)).1
example : Parser.parse (bs "foo[*].bar == c") =
    .ok (.binop .eq (.projectArray (.field (bs "foo")) (.field (bs "bar"))) (.field (bs "c"))) :=
  (op_ends_text .star (L := idt "foo") (ρ := .dotId .icur (idt "bar")) (C := idt "c") (op := op .equal "==")
    (lvl := lvlCmp) (by decide) (by decide) trivial (rhs_dot1 (selId "bar")) rfl (by decide) (by decide) (by decide)).1
example : Parser.parse (bs "[foo[*].bar, c]") =
    .ok (.selectArrayCurrent [.projectArray (.field (bs "foo")) (.field (bs "bar")), .field (bs "c")]) :=
  (comma_ends_text .star (L := idt "foo") (ρ := .dotId .icur (idt "bar")) (C := idt "c")
    (by decide) (by decide) trivial (rhs_dot1 (selId "bar")) (by decide) (by decide)).1
example : Parser.parse (bs "[c, foo[*].bar]") =
    .ok (.selectArrayCurrent [.field (bs "c"), .projectArray (.field (bs "foo")) (.field (bs "bar"))]) :=
  (bracket_ends_text .star (L := idt "foo") (ρ := .dotId .icur (idt "bar")) (C := idt "c")
    (by decide) (by decide) trivial (rhs_dot1 (selId "bar")) (by decide) (by decide)).1
example : Parser.parse (bs "[foo[*].bar]") =
    .ok (.selectArraySingleCurrent (.projectArray (.field (bs "foo")) (.field (bs "bar")))) :=
  (bracket_ends_text1 .star (L := idt "foo") (ρ := .dotId .icur (idt "bar"))
    (by decide) (by decide) trivial (rhs_dot1 (selId "bar")) (by decide)).1
example : search (bs "[foo[*].bar, c]") doc = .ok (.arr .plain [.arr .plain [.obj [(bs "baz", one)]], .bool true]) :=
  ((comma_ends_text .star (L := idt "foo") (ρ := .dotId .icur (idt "bar")) (C := idt "c")
    (by decide) (by decide) trivial (rhs_dot1 (selId "bar")) (by decide) (by decide)).2 doc).trans (by rfl)
-- the followers
example : op .or "||" ∈ projFollowers false (.bin (op .or "||") (Opener.star.mk (idt "foo") (.dotId .icur (idt "bar"))) (idt "c")) endTok :=
  (op_follower .star _ _ _ (lvl := lvlOr) rfl).1
example : projFollowers false (.multiList [Opener.star.mk (idt "foo") (.dotId .icur (idt "bar")), idt "c"]) endTok = [tComma] := by
  decide
end Examples


/-! ## 2. `a.b` equals `a | b` when `a` is not a projection -/

/-- "`A` is not a projection", in the grammar: nothing is open at the right edge of `A` at the level of the dot.
    A projection is open there (`rlevel = lvlProj < lvlDot`), and so is a tree that ends in one. -/
theorem not_projection {A : PTree} (h : lvlDot ≤ rlevel A) : ∀ (o : Opener) (L ρ : PTree), A ≠ o.mk L ρ := by
  intro o L ρ he
  rw [he, Opener.rlevel_mk] at h
  exact absurd h (by decide)

/-- **`A.R` equals `A | R` when `A` is not a projection**: on text, for every well-formed `A` with nothing open at
    its right edge and everything `R` that may follow a dot, the two spellings compile to the SAME node
    `pipe a r`, hence `search` returns the same outcome on every document -/
theorem dot_eq_pipe_text {A R : PTree} (hA : WellPrec A) (hAr : lvlDot ≤ rlevel A) (hR : Sel R)
    {op : Token} (hop : op.type = .pipe) {e1 e2 : Bytes}
    (h1 : Lexes e1 (Grammar.flatten A ++ tDot :: Grammar.flatten R))
    (h2 : Lexes e2 (Grammar.flatten A ++ op :: Grammar.flatten R)) :
    Parser.parse e1 = .ok (.pipe (erase A) (erase R)) ∧ Parser.parse e2 = .ok (.pipe (erase A) (erase R)) ∧
    ∀ d, search e1 d = search e2 d ∧
      search e1 d = (evaluate (erase A) d >>= fun a => ieval d (erase R) a []) := by
  have hi := not_icur (b := false) hA
  obtain ⟨p1, s1⟩ := text (wp_dot hA hAr hR) (h1.congr (flatten_dot A R).symm)
  have hw2 : WellPrec (.bin op A R) :=
    wp_bin (lvl := lvlPipe) (by rw [hop]; rfl) hA (Nat.le_trans (by decide) hAr) hR.wp (hR.above (by decide))
  obtain ⟨p2, s2⟩ := text hw2 (h2.congr (flatten_bin op A R).symm)
  rw [erase_dot hi] at p1 s1
  rw [erase_bin, hop] at p2 s2
  refine ⟨p1, p2, fun d => ⟨(s1 d).trans (s2 d).symm, ?_⟩⟩
  rw [s1 d, evaluate_eq, dot_is_pipe]; rfl

/-- **… and not when `A` is a projection**: `L⟨o⟩ρ.R` continues the right-hand side, `L⟨o⟩ρ | R` ends it; the two
    nodes differ -/
theorem dot_ne_pipe_projection (o : Opener) {L ρ R : PTree} (hL : WellPrec L) (hLr : o.lvl ≤ rlevel L) (ho : o.ok)
    (hρ : Rhs ρ) (hρr : lvlDot ≤ rlevel ρ) (hR : Sel R) {op : Token} (hop : op.type = .pipe) {e1 e2 : Bytes}
    (h1 : Lexes e1 (Grammar.flatten L ++ o.toks ++ Grammar.flat true ρ ++ tDot :: Grammar.flatten R))
    (h2 : Lexes e2 (Grammar.flatten L ++ o.toks ++ Grammar.flat true ρ ++ op :: Grammar.flatten R)) :
    Parser.parse e1 = .ok (o.node (erase L) (.pipe (erase ρ) (erase R))) ∧
    Parser.parse e2 = .ok (.pipe (o.node (erase L) (erase ρ)) (erase R)) ∧
    Parser.parse e1 ≠ Parser.parse e2 := by
  have a := (rhs_extends_text o hL hLr ho hρ hρr hR h1).1
  have b := (pipe_ends_text o hL hLr ho hρ hop hR.wp (hR.above (by decide)) h2).1
  refine ⟨a, b, ?_⟩
  rw [a, b]
  intro h
  cases o <;> simp only [Opener.node, Except.ok.injEq] at h <;> cases h

section Examples
open Grammar.Ex
private theorem selId' (s : String) (h : Sel (idt s) := by exact ⟨by decide, by decide, by decide⟩) : Sel (idt s) := h

-- `a.b` / `a | b`, `a[0].b` / `a[0] | b`, `(a || c).b` / `(a || c) | b`
example : Parser.parse (bs "a.b") = .ok (.pipe (.field (bs "a")) (.field (bs "b"))) ∧
    Parser.parse (bs "a | b") = .ok (.pipe (.field (bs "a")) (.field (bs "b"))) ∧
    ∀ d, search (bs "a.b") d = search (bs "a | b") d :=
  have h := dot_eq_pipe_text (A := idt "a") (R := idt "b") (op := op .pipe "|") (e1 := bs "a.b") (e2 := bs "a | b")
    (by decide) (by decide) (selId' "b") rfl (by decide) (by decide)
  ⟨h.1, h.2.1, fun d => (h.2.2 d).1⟩
example : ∀ d, search (bs "a[0].b") d = search (bs "a[0] | b") d :=
  fun d => ((dot_eq_pipe_text (A := .index (idt "a") (int "0")) (R := idt "b") (op := op .pipe "|")
    (by decide) (by decide) (selId' "b") rfl (by decide) (by decide)).2.2 d).1
example : ∀ d, search (bs "(a || c).b") d = search (bs "(a || c) | b") d :=
  fun d => ((dot_eq_pipe_text (A := .paren (.bin (op .or "||") (idt "a") (idt "c"))) (R := idt "b") (op := op .pipe "|")
    (by decide) (by decide) (selId' "b") rfl (by decide) (by decide)).2.2 d).1
-- a projection is excluded by the side condition …
example : ¬ lvlDot ≤ rlevel (Opener.star.mk (idt "a") .icur) := by decide
-- … rightly: `a[*].b.c` and `a[*].b | c` are different nodes
example : Parser.parse (bs "a[*].b.c") ≠ Parser.parse (bs "a[*].b | c") :=
  (dot_ne_pipe_projection .star (L := idt "a") (ρ := .dotId .icur (idt "b")) (R := idt "c") (op := op .pipe "|")
    (by decide) (by decide) trivial (rhs_dot1 (selId' "b")) (by decide) (selId' "c") rfl (by decide) (by decide)).2.2
end Examples


/-! ## 4. Selector-shaped nodes map null to null

  The side condition `h0 : ieval root r2 .null env = .ok .null` of the composition theorems (`C17.projection_then_selector…`,
  `filter_then_project…`, `flatten_then_project…`, and `sem_comp` below) holds for every selector-shaped `r2`. -/

/-- selector-shaped nodes: field, index, slice, every projection / flatten / filter form, multi-selects with a null
    check, and their compositions by `.` / `|` (also `l && r` with a selector `l`, `l || r` with both) -/
inductive Selector : INode → Prop
  | current : Selector .current
  | litNull : Selector (.lit .null)
  | field (k : Bytes) : Selector (.field k)
  | index {c : INode} (i : Int) : Selector c → Selector (.index c i)
  | indexCurrent (i : Int) : Selector (.indexCurrent i)
  | smallIndexCurrent (i : Nat) : Selector (.smallIndexCurrent i)
  | slice {c : INode} (a b : Int) : Selector c → Selector (.slice c a b)
  | sliceCurrent (a b : Int) : Selector (.sliceCurrent a b)
  | sliceStep {c : INode} (a b s : Int) : Selector c → Selector (.sliceStep c a b s)
  | sliceStepCurrent (a b s : Int) : Selector (.sliceStepCurrent a b s)
  | pipe {l r : INode} : Selector l → Selector r → Selector (.pipe l r)
  | projectArray {l : INode} (r : INode) : Selector l → Selector (.projectArray l r)
  | projectArrayCurrent (r : INode) : Selector (.projectArrayCurrent r)
  | projectObject {l : INode} (r : INode) : Selector l → Selector (.projectObject l r)
  | projectObjectCurrent (r : INode) : Selector (.projectObjectCurrent r)
  | pruneArray {c : INode} : Selector c → Selector (.pruneArray c)
  | pruneArrayCurrent : Selector .pruneArrayCurrent
  | objectValues {c : INode} : Selector c → Selector (.objectValues c)
  | objectValuesCurrent : Selector .objectValuesCurrent
  | flatten {c : INode} : Selector c → Selector (.flatten c)
  | flattenCurrent : Selector .flattenCurrent
  | flattenAndProject {l : INode} (r : INode) : Selector l → Selector (.flattenAndProject l r)
  | flattenAndProjectCurrent (r : INode) : Selector (.flattenAndProjectCurrent r)
  | filter {c : INode} (f : INode) : Selector c → Selector (.filter c f)
  | filterCurrent (f : INode) : Selector (.filterCurrent f)
  | filterAndProject {l : INode} (f r : INode) : Selector l → Selector (.filterAndProject l f r)
  | filterAndProjectCurrent (f r : INode) : Selector (.filterAndProjectCurrent f r)
  | selectArray {c : INode} (fs : List INode) : Selector c → Selector (.selectArray c fs)
  | selectArrayCurrent (fs : List INode) : Selector (.selectArrayCurrent fs)
  | selectArraySingle {c : INode} (f : INode) : Selector c → Selector (.selectArraySingle c f)
  | selectObject {c : INode} (fs : List (Bytes × INode)) : Selector c → Selector (.selectObject c fs)
  | selectObjectCurrent (fs : List (Bytes × INode)) : Selector (.selectObjectCurrent fs)
  | selectObjectSingle {c : INode} (k : Bytes) (f : INode) : Selector c → Selector (.selectObjectSingle c k f)
  | and {l : INode} (r : INode) : Selector l → Selector (.and l r)
  | or {l r : INode} : Selector l → Selector r → Selector (.or l r)

/-- **a selector-shaped node yields null on null**, whatever the document and the bindings -/
theorem selector_null {r : INode} (h : Selector r) : ∀ root env, ieval root r .null env = .ok .null := by
  intro root env
  induction h with
  | current => rfl
  | litNull => rfl
  | field k => rfl
  | index i _ ih => simp only [ieval, ih, Res.ok_bind]; rfl
  | indexCurrent i => rfl
  | smallIndexCurrent i => rfl
  | slice a b _ ih => simp only [ieval, ih, Res.ok_bind]; rfl
  | sliceCurrent a b => rfl
  | sliceStep a b s _ ih => simp only [ieval, ih, Res.ok_bind]; rfl
  | sliceStepCurrent a b s => rfl
  | pipe _ _ ih1 ih2 => simp only [ieval, ih1, ih2, Res.ok_bind]
  | projectArray r _ ih => simp only [ieval, ih, Res.ok_bind]; rfl
  | projectArrayCurrent r => simp only [ieval]; rfl
  | projectObject r _ ih => simp only [ieval, ih, Res.ok_bind]; rfl
  | projectObjectCurrent r => simp only [ieval]; rfl
  | pruneArray _ ih => simp only [ieval, ih, Res.ok_bind]; rfl
  | pruneArrayCurrent => rfl
  | objectValues _ ih => simp only [ieval, ih, Res.ok_bind]; rfl
  | objectValuesCurrent => rfl
  | flatten _ ih => simp only [ieval, ih, Res.ok_bind]; rfl
  | flattenCurrent => rfl
  | flattenAndProject r _ ih => simp only [ieval, ih, Res.ok_bind]; rfl
  | flattenAndProjectCurrent r => simp only [ieval]; rfl
  | filter f _ ih => simp only [ieval, ih, Res.ok_bind]; rfl
  | filterCurrent f => simp only [ieval]; rfl
  | filterAndProject f r _ ih => simp only [ieval, ih, Res.ok_bind]; rfl
  | filterAndProjectCurrent f r => simp only [ieval]; rfl
  | selectArray fs _ ih => simp only [ieval, ih, Res.ok_bind]; rfl
  | selectArrayCurrent fs => simp only [ieval]; rfl
  | selectArraySingle f _ ih => simp only [ieval, ih, Res.ok_bind]; rfl
  | selectObject fs _ ih => simp only [ieval, ih, Res.ok_bind]; rfl
  | selectObjectCurrent fs => simp only [ieval]; rfl
  | selectObjectSingle k f _ ih => simp only [ieval, ih, Res.ok_bind]; rfl
  | and r _ ih => simp only [ieval, ih, Res.ok_bind]; rfl
  | or _ _ ih1 ih2 => simp only [ieval, ih1, ih2, Res.ok_bind]; rfl

example : ieval (.bool true) (.pipe (.field [97]) (.projectArray (.index .current 0) (.lit (.bool true)))) .null [] = .ok .null :=
  selector_null (.pipe (.field _) (.projectArray _ (.index _ .current))) _ _
/-- not selector-shaped, and indeed not null on null: a literal, `[a]` (the `…SingleCurrent` form), `!a` -/
example : ieval .null (.lit (.bool true)) .null [] = .ok (.bool true) ∧
    ieval .null (.selectArraySingleCurrent (.field [97])) .null [] = .ok (.arr .plain [.null]) ∧
    ieval .null (.not (.field [97])) .null [] = .ok (.bool true) := ⟨rfl, rfl, rfl⟩

/-- the same for the reference semantics -/
theorem selector_null_spec {r : INode} (h : Selector r) (root : Val) (env : Env) :
    seval root (desugar r) .null env = .ok .null := by
  rw [← ieval_desugar]; exact selector_null h root env

/-! ### selector-shaped TEXT: trees whose node is selector-shaped -/

/-- selector-shaped trees: identifiers, `[n]`, slices, the five projection forms, `.` chains, parentheses, and
    multi-selects that have a left operand or at least two members -/
inductive SelTree : PTree → Prop
  | ident (t : Token) : t.type = .unquotedIdentifier → SelTree (.atom t)
  | paren {t : PTree} : SelTree t → SelTree (.paren t)
  | index0 (n : Token) : SelTree (.index .icur n)
  | index {l : PTree} (n : Token) : SelTree l → SelTree (.index l n)
  | dot0 {r : PTree} : SelTree r → SelTree (.dotId .icur r)
  | dot {l r : PTree} : SelTree l → SelTree r → SelTree (.dotId l r)
  | star0 (ρ : PTree) : SelTree (.star .icur ρ)
  | star {l : PTree} (ρ : PTree) : SelTree l → SelTree (.star l ρ)
  | ostar0 (ρ : PTree) : SelTree (.ostar .icur ρ)
  | ostar {l : PTree} (ρ : PTree) : SelTree l → SelTree (.ostar l ρ)
  | flat0 (ρ : PTree) : SelTree (.flat .icur ρ)
  | flat {l : PTree} (ρ : PTree) : SelTree l → SelTree (.flat l ρ)
  | filt0 (c ρ : PTree) : SelTree (.filt .icur c ρ)
  | filt {l : PTree} (c ρ : PTree) : SelTree l → SelTree (.filt l c ρ)
  | slice0 (a b : Option Token) (c : Option (Option Token)) (ρ : PTree) : SelTree (.slice .icur a b c ρ)
  | slice {l : PTree} (a b : Option Token) (c : Option (Option Token)) (ρ : PTree) : SelTree l → SelTree (.slice l a b c ρ)
  | dotList {l : PTree} (es : List PTree) : SelTree l → SelTree (.dotList l es)
  | dotHash {l : PTree} (kvs : List (Token × PTree)) : SelTree l → SelTree (.dotHash l kvs)
  | multiList (e1 e2 : PTree) (es : List PTree) : SelTree (.multiList (e1 :: e2 :: es))
  | multiHash (kv1 kv2 : Token × PTree) (kvs : List (Token × PTree)) : SelTree (.multiHash (kv1 :: kv2 :: kvs))

/-- a selector-shaped tree is not the implicit current node -/
theorem SelTree.not_icur {t : PTree} (h : SelTree t) : t.isIcur = false := by cases h <;> rfl

/-- a slice of the current node is selector-shaped -/
theorem selector_sliceNode0 (a b c : Option Int) : Selector (sliceNode none a b c) := by
  simp only [sliceNode]; split
  · exact .sliceCurrent _ _
  · exact .sliceStepCurrent _ _ _
/-- a slice of a selector-shaped node is selector-shaped -/
theorem selector_sliceNode {l : INode} (h : Selector l) (a b c : Option Int) : Selector (sliceNode (some l) a b c) := by
  simp only [sliceNode]; split
  · exact .slice _ _ h
  · exact .sliceStep _ _ _ h

/-- a multi-select list after a selector-shaped left operand is selector-shaped -/
theorem selector_listNode {c : INode} (h : Selector c) (fs : List INode) : Selector (listNode (some c) fs) := by
  match fs with
  | [] => exact .selectArray _ h
  | [f] => exact .selectArraySingle f h
  | _ :: _ :: _ => exact .selectArray _ h
/-- a multi-select hash after a selector-shaped left operand is selector-shaped -/
theorem selector_hashNode {c : INode} (h : Selector c) (ps : List (Bytes × INode)) : Selector (hashNode (some c) ps) := by
  match ps with
  | [] => exact .selectObject _ h
  | [(k, f)] => exact .selectObjectSingle k f h
  | _ :: _ :: _ => exact .selectObject _ h

/-- **the node of a selector-shaped tree is selector-shaped**: so `search` of such a text on the null document, and
    the text as a right-hand side on a null element, give null -/
theorem erase_selector {t : PTree} (h : SelTree t) : Selector (erase t) := by
  induction h with
  | ident t ht => simp only [erase, atomNode, ht]; exact .field _
  | paren _ ih => exact ih
  | index0 n => simp only [erase, GrammarF0.optNode_icur, indexNode]; split <;> constructor
  | index n hl ih => simp only [erase, GrammarF0.optNode_of_ne hl.not_icur, indexNode]; exact .index _ ih
  | dot0 _ ih => exact ih
  | dot hl _ ih1 ih2 => rw [erase_dot hl.not_icur]; exact .pipe ih1 ih2
  | star0 ρ => simp only [erase, GrammarF0.optNode_icur]; cases optNode ρ (erase ρ) <;> constructor
  | star ρ hl ih =>
    simp only [erase, GrammarF0.optNode_of_ne hl.not_icur]
    cases optNode ρ (erase ρ)
    · exact .pruneArray ih
    · exact .projectArray _ ih
  | ostar0 ρ => simp only [erase, GrammarF0.optNode_icur]; cases optNode ρ (erase ρ) <;> constructor
  | ostar ρ hl ih =>
    simp only [erase, GrammarF0.optNode_of_ne hl.not_icur]
    cases optNode ρ (erase ρ)
    · exact .objectValues ih
    · exact .projectObject _ ih
  | flat0 ρ => simp only [erase, GrammarF0.optNode_icur]; cases optNode ρ (erase ρ) <;> constructor
  | flat ρ hl ih =>
    simp only [erase, GrammarF0.optNode_of_ne hl.not_icur]
    cases optNode ρ (erase ρ)
    · exact .flatten ih
    · exact .flattenAndProject _ ih
  | filt0 c ρ => simp only [erase, GrammarF0.optNode_icur]; cases optNode ρ (erase ρ) <;> constructor
  | filt c ρ hl ih =>
    simp only [erase, GrammarF0.optNode_of_ne hl.not_icur]
    cases optNode ρ (erase ρ)
    · exact .filter _ ih
    · exact .filterAndProject _ _ ih
  | slice0 a b c ρ => simp only [erase, GrammarF0.optNode_icur]; exact .projectArray _ (selector_sliceNode0 _ _ _)
  | slice a b c ρ hl ih =>
    simp only [erase, GrammarF0.optNode_of_ne hl.not_icur]; exact .projectArray _ (selector_sliceNode ih _ _ _)
  | dotList es hl ih =>
    simp only [erase, GrammarF0.optNode_of_ne hl.not_icur]
    exact selector_listNode ih _
  | dotHash kvs hl ih =>
    simp only [erase, GrammarF0.optNode_of_ne hl.not_icur]
    exact selector_hashNode ih _
  | multiList e1 e2 es => simp only [erase, eraseL, listNode]; exact .selectArrayCurrent _
  | multiHash kv1 kv2 kvs =>
    obtain ⟨k1, e1⟩ := kv1
    obtain ⟨k2, e2⟩ := kv2
    simp only [erase, eraseKVs, hashNode]; exact .selectObjectCurrent _

section Examples
open Grammar.Ex
/-- `bar[0].baz[*].x` is selector-shaped -/
example : Selector (erase (.dotId (.dotId (.index (idt "bar") (int "0")) (idt "baz")) (.star (idt "x") .icur))) :=
  erase_selector (.dot (.dot (.index _ (.ident _ rfl)) (.ident _ rfl)) (.star _ (.ident _ rfl)))
end Examples


/-! ## 5. Value level: a loop over "f1 then f2" against the loop over f1 piped into `[*]` over f2

  `C17.projectArray_comp` is the `[*]` case.  Here: the object projection, the filter, flatten and slice projections,
  and all five uniformly (`sem_comp`). -/

/-- the common shape: a loop `m12` over "f1 then f2" that agrees with the loop `m1` over f1 followed by the `[*]` loop
    over f2, both wrapped into an array tagged `tag` (a tag that `[*]` preserves) -/
theorem wrap_comp {f2 : Val → Res Val} {m12 m1 : Res (List Val)} (hA : Agree m12 (m1 >>= mapPrune f2))
    (tag : ATag) (htag : tag.derived = tag)
    (t t' : ATag) (xs xs' : List Val) (fs fs' : List (Val → Res Val)) (ex ex' : List Cat) :
    Agree (widen t xs fs ex (m12 >>= fun r => Res.ok (.arr tag r)))
      (widen t' xs' fs' ex' (m1 >>= fun r => Res.ok (.arr tag r)) >>= projectArray f2) := by
  rcases hA with ⟨r, hl, hr⟩ | ⟨hl, hr⟩
  · obtain ⟨r1, hr1, hr2⟩ := C17.bind_eq_ok hr
    refine Or.inl ⟨.arr tag r, ?_, ?_⟩
    · rw [hl]; rfl
    · rw [hr1]
      simp only [Res.ok_bind, C17.widen_ok, projectArray, hr2, Res.pure_eq, htag]
  · refine Or.inr ⟨?_, ?_⟩
    · rw [isOk_widen]; exact isOk_bind_left _ _ hl
    · cases hm : m1 with
      | ok r1 =>
        rw [hm] at hr
        simp only [Res.ok_bind, C17.widen_ok, projectArray, Res.pure_eq]
        rw [isOk_widen]
        exact isOk_bind_left _ _ hr
      | _ =>
        apply isOk_bind_left
        rw [isOk_widen]
        rfl

/-- **`projectObject_comp`**: `a.*.r1.r2` in one loop agrees with `a.*.r1 | [*].r2` -/
theorem projectObject_comp (f1 f2 : Val → Res Val) (h0 : f2 .null = Res.ok .null) (a : Val) :
    Agree (projectObject (fun v => f1 v >>= f2) a) (projectObject f1 a >>= projectArray f2) := by
  cases a with
  | obj kvs =>
    simp only [projectObject, Res.pure_eq]
    exact wrap_comp (mapPrune_comp f1 f2 h0 _) .enum rfl _ _ _ _ _ _ _ _
  | _ => exact Or.inl ⟨.null, rfl, rfl⟩

/-- the fused filter-and-project loop over "f1 then f2" against the same loop over f1, then the `[*]` loop over f2 -/
theorem filterMapPrune_comp2 (c f1 f2 : Val → Res Val) (h0 : f2 .null = Res.ok .null) (xs : List Val) :
    Agree (filterMapPrune c (fun v => f1 v >>= f2) xs) (filterMapPrune c f1 xs >>= mapPrune f2) := by
  induction xs with
  | nil => exact Or.inl ⟨[], rfl, rfl⟩
  | cons x rest ih =>
    simp only [filterMapPrune, Res.pure_eq]
    cases hc : c x with
    | ok b =>
      simp only [Res.ok_bind]
      cases hb : isTrue b
      · simp only [Bool.false_eq_true, if_false]; exact ih
      · simp only [if_true]
        cases h1 : f1 x with
        | ok y =>
          simp only [Res.ok_bind, Res.bind_assoc]
          cases hy : y.isNull
          · simp only [Bool.false_eq_true, if_false, mapPrune, Res.pure_eq]
            cases h2 : f2 y with
            | ok z =>
              simp only [Res.ok_bind]
              rw [← Res.bind_assoc]
              exact Agree.bind_same ih _
            | _ => exact Or.inr ⟨rfl, isOk_bind_right _ _ fun a => rfl⟩
          · have := isNull_eq hy
            subst this
            simp only [h0, Res.ok_bind, show Val.null.isNull = true from rfl, if_true, Res.bind_ok]
            exact ih
        | _ => exact Or.inr ⟨rfl, rfl⟩
    | _ => exact Or.inr ⟨rfl, rfl⟩

/-- **`filter_comp`**: `a[?c].r1.r2` in one loop agrees with `a[?c].r1 | [*].r2` -/
theorem filter_comp (c f1 f2 : Val → Res Val) (h0 : f2 .null = Res.ok .null) (a : Val) :
    Agree (filterAndProjectArray c (fun v => f1 v >>= f2) a) (filterAndProjectArray c f1 a >>= projectArray f2) := by
  cases a with
  | arr t xs =>
    simp only [filterAndProjectArray, Res.pure_eq]
    exact wrap_comp (filterMapPrune_comp2 c f1 f2 h0 _) t.derived (derived_derived t) _ _ _ _ _ _ _ _
  | _ => exact Or.inl ⟨.null, rfl, rfl⟩

/-- **`flatten_comp`**: `a[].r1.r2` in one loop agrees with `a[].r1 | [*].r2` -/
theorem flatten_comp (f1 f2 : Val → Res Val) (h0 : f2 .null = Res.ok .null) (a : Val) :
    Agree (flattenAndProjectArray (fun v => f1 v >>= f2) a) (flattenAndProjectArray f1 a >>= projectArray f2) := by
  cases a with
  | arr t xs =>
    simp only [flattenAndProjectArray, Res.pure_eq]
    exact wrap_comp (mapPrune_comp f1 f2 h0 _) _ (flattenTag_derived t xs) _ _ _ _ _ _ _ _
  | _ => exact Or.inl ⟨.null, rfl, rfl⟩

/-- the slice of `v` is not a string (a string slice is handed to the right-hand side whole, which `| [*]` does not
    imitate); no condition for the other openers -/
def Opener.noStr (o : Opener) (v : Val) : Prop :=
  match o with
  | .slice a b c => ∀ s, sliceVal a b c v ≠ .ok (.str s)
  | _ => True

/-- slicing something that is not a string never gives a string -/
theorem Opener.noStr_of_not_str (o : Opener) {v : Val} (h : ∀ s, v ≠ .str s) : o.noStr v := by
  cases o with
  | slice a b c =>
    intro s hs
    cases v with
    | str s' => exact h s' rfl
    | arr t xs =>
      simp only [sliceVal] at hs
      split at hs
      · simp only [Jmes.slice] at hs; split at hs
        · cases hs
        · split at hs
          · cases hs
          · split at hs <;> cases hs
      · simp only [Jmes.sliceStep] at hs; split at hs
        · cases hs
        · split at hs <;> cases hs
    | _ => simp only [sliceVal] at hs; split at hs <;> cases hs
  | _ => trivial

/-- **`slice_comp`**: `a[i:j:k].r1.r2` in one loop agrees with `a[i:j:k].r1 | [*].r2` unless the slice is a string -/
theorem slice_comp (a b : Option Token) (c : Option (Option Token)) (root : Val) (env : Env)
    (f1 f2 : Val → Res Val) (h0 : f2 .null = Res.ok .null) (v : Val) (hs : ∀ s, sliceVal a b c v ≠ .ok (.str s)) :
    Agree ((Opener.slice a b c).sem root env (fun x => f1 x >>= f2) v)
      ((Opener.slice a b c).sem root env f1 v >>= projectArray f2) := by
  simp only [Opener.sem, Res.bind_assoc]
  cases hv : sliceVal a b c v with
  | ok s =>
    simp only [Res.ok_bind]
    cases s with
    | str s' => exact absurd hv (hs s')
    | _ => exact projectArray_comp f1 f2 h0 _
  | _ => exact Or.inr ⟨rfl, rfl⟩

/-- **`sem_comp`**, all five openers: the loop over "f1 then f2" agrees with the loop over f1 piped into `[*]` over f2,
    when f2 maps null to null -/
theorem sem_comp (o : Opener) (root : Val) (env : Env) (f1 f2 : Val → Res Val) (h0 : f2 .null = Res.ok .null) (v : Val)
    (hs : o.noStr v) :
    Agree (o.sem root env (fun x => f1 x >>= f2) v) (o.sem root env f1 v >>= projectArray f2) := by
  cases o with
  | star => exact projectArray_comp f1 f2 h0 v
  | ostar => exact projectObject_comp f1 f2 h0 v
  | flat => exact flatten_comp f1 f2 h0 v
  | filt c => exact filter_comp _ f1 f2 h0 v
  | slice a b c => exact slice_comp a b c root env f1 f2 h0 v hs

/-- non-vacuity: `*.a.b` and `*.a | [*].b` on `{"x": {"a": {"b": true}}, "y": {"a": null}, "z": 1}` -/
example :
    projectObject (fun v => (Res.ok (field [97] v) : Res Val) >>= fun y => Res.ok (field [98] y))
      (.obj [([120], .obj [([97], .obj [([98], .bool true)])]), ([121], .obj [([97], .null)]), ([122], .num (.int .int 1))])
      = .ok (.arr .enum [.bool true]) ∧
    (projectObject (fun v => Res.ok (field [97] v))
      (.obj [([120], .obj [([97], .obj [([98], .bool true)])]), ([121], .obj [([97], .null)]), ([122], .num (.int .int 1))])
      >>= projectArray (fun y => Res.ok (field [98] y))) = .ok (.arr .enum [.bool true]) := ⟨rfl, rfl⟩
/-- `[?@].a.b` and `[?@].a | [*].b`; `[].a.b` and `[].a | [*].b` -/
example :
    filterAndProjectArray (fun v => .ok v) (fun v => (Res.ok (field [97] v) : Res Val) >>= fun y => Res.ok (field [98] y))
      (.arr .plain [.obj [([97], .obj [([98], .bool true)])], .null, .obj [([97], .null)]]) = .ok (.arr .plain [.bool true]) ∧
    (filterAndProjectArray (fun v => .ok v) (fun v => Res.ok (field [97] v))
      (.arr .plain [.obj [([97], .obj [([98], .bool true)])], .null, .obj [([97], .null)]])
      >>= projectArray (fun y => Res.ok (field [98] y))) = .ok (.arr .plain [.bool true]) := ⟨rfl, rfl⟩
example :
    flattenAndProjectArray (fun v => (Res.ok (field [97] v) : Res Val) >>= fun y => Res.ok (field [98] y))
      (.arr .plain [.arr .plain [.obj [([97], .obj [([98], .bool true)])]], .null]) = .ok (.arr .plain [.bool true]) ∧
    (flattenAndProjectArray (fun v => Res.ok (field [97] v))
      (.arr .plain [.arr .plain [.obj [([97], .obj [([98], .bool true)])]], .null])
      >>= projectArray (fun y => Res.ok (field [98] y))) = .ok (.arr .plain [.bool true]) := ⟨rfl, rfl⟩
/-- the string condition of `slice_comp` is needed: on `"ab"`, `[0:1].@.@` is `"a"` while `[0:1].@ | [*].@` is null -/
example :
    (Opener.slice (some (Grammar.Ex.int "0")) (some (Grammar.Ex.int "1")) none).sem .null []
      (fun x => (Res.ok x : Res Val) >>= fun y => Res.ok y) (.str [97, 98]) = .ok (.str [97]) ∧
    ((Opener.slice (some (Grammar.Ex.int "0")) (some (Grammar.Ex.int "1")) none).sem .null [] (fun x => Res.ok x) (.str [97, 98])
      >>= projectArray (fun y => Res.ok y)) = .ok .null := ⟨rfl, rfl⟩

/-! ## 3. "A projection followed by selectors equals piping the projected array into a new projection of those
       selectors", on text -/

/-- **`L⟨o⟩ρ.R` against `L⟨o⟩ρ | [*].R`** for all five openers: the second text parses to the pipe of the projection
    into `[*].R`; when `R` yields null on null (true of every selector-shaped `R`: `projection_then_projection_sel`)
    the two searches give the same value or both fail.  (For a slice opener: unless the slice is a string.) -/
theorem projection_then_projection_text (o : Opener) {L ρ R : PTree} (hL : WellPrec L) (hLr : o.lvl ≤ rlevel L)
    (ho : o.ok) (hρ : Rhs ρ) (hρr : lvlDot ≤ rlevel ρ) (hR : Sel R) {op : Token} (hop : op.type = .pipe)
    {e1 e2 : Bytes}
    (h1 : Lexes e1 (Grammar.flatten L ++ o.toks ++ Grammar.flat true ρ ++ tDot :: Grammar.flatten R))
    (h2 : Lexes e2 (Grammar.flatten L ++ o.toks ++ Grammar.flat true ρ ++ op :: tArrayStar :: tDot :: Grammar.flatten R)) :
    Parser.parse e1 = .ok (o.node (erase L) (.pipe (erase ρ) (erase R))) ∧
    Parser.parse e2 = .ok (.pipe (o.node (erase L) (erase ρ)) (.projectArrayCurrent (erase R))) ∧
    ∀ d, ieval d (erase R) .null [] = .ok .null → (∀ v, evaluate (erase L) d = .ok v → o.noStr v) →
      Agree (search e1 d) (search e2 d) := by
  have a := rhs_extends_text o hL hLr ho hρ hρr hR h1
  have hC : WellPrec (.star .icur (.dotId .icur R)) := by
    have h1 := (rhs_dot1 hR).wp
    have h2 := (rhs_dot1 hR).lvl
    show Grammar.wp false (.star .icur (.dotId .icur R)) = true
    rw [Grammar.wp]
    simp only [icur_isIcur, if_true, h1, Bool.true_and, Bool.or_eq_true, decide_eq_true_eq]
    exact Or.inr h2
  have b := pipe_ends_text o hL hLr ho hρ hop hC (by decide : lvlPipe < top) (e := e2) (h2.congr rfl)
  have he : erase (.star .icur (.dotId .icur R)) = .projectArrayCurrent (erase R) := by
    simp only [erase, GrammarF0.optNode_icur, GrammarF0.optNode_of_ne (show (PTree.dotId .icur R).isIcur = false from rfl),
      starNode, subNode]
  rw [he] at b
  refine ⟨a.1, b.1, fun d h0 hs => ?_⟩
  rw [a.2 d, b.2 d, projVal, Res.bind_assoc]
  cases hv : evaluate (erase L) d with
  | ok v =>
    simp only [Res.ok_bind]
    have : (fun arr => ieval d (.projectArrayCurrent (erase R)) arr []) =
        projectArray (fun y => ieval d (erase R) y []) := funext fun arr => by rw [ieval]
    rw [this]
    exact sem_comp o d [] _ _ h0 v (hs v hv)
  | _ => exact Or.inr ⟨rfl, rfl⟩

/-- … with the null condition discharged for selector-shaped `R` -/
theorem projection_then_projection_sel (o : Opener) {L ρ R : PTree} (hL : WellPrec L) (hLr : o.lvl ≤ rlevel L)
    (ho : o.ok) (hρ : Rhs ρ) (hρr : lvlDot ≤ rlevel ρ) (hR : Sel R) (hRs : SelTree R) {op : Token} (hop : op.type = .pipe)
    {e1 e2 : Bytes}
    (h1 : Lexes e1 (Grammar.flatten L ++ o.toks ++ Grammar.flat true ρ ++ tDot :: Grammar.flatten R))
    (h2 : Lexes e2 (Grammar.flatten L ++ o.toks ++ Grammar.flat true ρ ++ op :: tArrayStar :: tDot :: Grammar.flatten R))
    (d : Val) (hs : ∀ v, evaluate (erase L) d = .ok v → o.noStr v) :
    Agree (search e1 d) (search e2 d) :=
  (projection_then_projection_text o hL hLr ho hρ hρr hR hop h1 h2).2.2 d (selector_null (erase_selector hRs) _ _) hs

section Examples
open Grammar.Ex
private theorem selId2 (s : String) (h : Sel (idt s) := by exact ⟨by decide, by decide, by decide⟩) : Sel (idt s) := h
/-- `foo[*].bar.baz` and `foo[*].bar | [*].baz` agree on every document; likewise `foo.*.bar.baz` … -/
example : ∀ d, Agree (search (bs "foo[*].bar.baz") d) (search (bs "foo[*].bar | [*].baz") d) := fun d =>
  projection_then_projection_sel .star (L := idt "foo") (ρ := .dotId .icur (idt "bar")) (R := idt "baz")
    (op := op .pipe "|") (by decide) (by decide) trivial (rhs_dot1 (selId2 "bar")) (by decide) (selId2 "baz")
    (.ident _ rfl) rfl (by decide) (by decide) d (fun _ _ => trivial)
example : ∀ d, Agree (search (bs "foo.*.bar.baz") d) (search (bs "foo.*.bar | [*].baz") d) := fun d =>
  projection_then_projection_sel .ostar (L := idt "foo") (ρ := .dotId .icur (idt "bar")) (R := idt "baz")
    (op := op .pipe "|") (by decide) (by decide) trivial (rhs_dot1 (selId2 "bar")) (by decide) (selId2 "baz")
    (.ident _ rfl) rfl (by decide) (by decide) d (fun _ _ => trivial)
example : ∀ d, Agree (search (bs "foo[].bar.baz") d) (search (bs "foo[].bar | [*].baz") d) := fun d =>
  projection_then_projection_sel .flat (L := idt "foo") (ρ := .dotId .icur (idt "bar")) (R := idt "baz")
    (op := op .pipe "|") (by decide) (by decide) trivial (rhs_dot1 (selId2 "bar")) (by decide) (selId2 "baz")
    (.ident _ rfl) rfl (by decide) (by decide) d (fun _ _ => trivial)
example : ∀ d, Agree (search (bs "foo[?c].bar.baz") d) (search (bs "foo[?c].bar | [*].baz") d) := fun d =>
  projection_then_projection_sel (.filt (idt "c")) (L := idt "foo") (ρ := .dotId .icur (idt "bar")) (R := idt "baz")
    (op := op .pipe "|") (by decide) (by decide) (by show WellPrec _; decide) (rhs_dot1 (selId2 "bar")) (by decide)
    (selId2 "baz") (.ident _ rfl) rfl (by decide) (by decide) d (fun _ _ => trivial)
end Examples


/-! ## 6. Multi-selects: every outcome, and on text -/

/-- the concatenation of two arrays, as values -/
def arrConcat : Val → Val → Val
  | .arr _ xs, .arr _ ys => .arr .plain (xs ++ ys)
  | _, _ => .null

/-- **`multiselect_concat_eq`**: on a non-null current node `[es1…, es2…]` is the concatenation of `[es1…]` and `[es2…]`
    for EVERY outcome: when a member fails, both sides fail with the same report (that of the first failing member,
    left to right) -/
theorem multiselect_concat_eq (root : Val) (es1 es2 : List INode) (cur : Val) (env : Env) (h : cur.isNull = false) :
    ieval root (.selectArrayCurrent (es1 ++ es2)) cur env =
      (ieval root (.selectArrayCurrent es1) cur env >>= fun a =>
        ieval root (.selectArrayCurrent es2) cur env >>= fun b => Res.ok (arrConcat a b)) := by
  simp only [selectArrayCurrent_list _ _ _ _ h, ievalList_append, Res.bind_assoc, Res.ok_bind, arrConcat]

/-- `[e1, e2]` from the single selections `[e1]` and `[e2]` (in the form the parser builds for them), every outcome -/
theorem multiselect_concat_single (root : Val) (e1 e2 : INode) (cur : Val) (env : Env) (h : cur.isNull = false) :
    ieval root (.selectArrayCurrent [e1, e2]) cur env =
      (ieval root (.selectArraySingleCurrent e1) cur env >>= fun a =>
        ieval root (.selectArraySingleCurrent e2) cur env >>= fun b => Res.ok (arrConcat a b)) := by
  rw [single_select_current root e1 cur env h, single_select_current root e2 cur env h]
  exact multiselect_concat_eq root [e1] [e2] cur env h

/-- the `Agree` form asked for: if some member fails, both sides fail -/
theorem multiselect_concat_agree (root : Val) (es1 es2 : List INode) (cur : Val) (env : Env) (h : cur.isNull = false) :
    Agree (ieval root (.selectArrayCurrent (es1 ++ es2)) cur env)
      (ieval root (.selectArrayCurrent es1) cur env >>= fun a =>
        ieval root (.selectArrayCurrent es2) cur env >>= fun b => Res.ok (arrConcat a b)) := by
  rw [multiselect_concat_eq root es1 es2 cur env h]; exact Agree.refl _

/-- `[a, $x]` with `$x` unbound: both sides report the undefined variable -/
example :
    ieval .null (.selectArrayCurrent [.field [97], .variable [36, 120]]) (.obj []) [] = .err [Cat.undefinedVariable] ∧
    (ieval .null (.selectArraySingleCurrent (.field [97])) (.obj []) [] >>= fun a =>
      ieval .null (.selectArraySingleCurrent (.variable [36, 120])) (.obj []) [] >>= fun b => Res.ok (arrConcat a b))
      = .err [Cat.undefinedVariable] := ⟨rfl, rfl⟩
example : arrConcat (.arr .plain [.bool true]) (.arr .plain [.null]) = .arr .plain [.bool true, .null] := rfl

/-- **`hash_select_list_eq`**: `{k: e}.k` in the list form of the hash, on a non-null current node, has exactly the
    outcome of `e` (value or failure) -/
theorem hash_select_list_eq (root : Val) (k : Bytes) (e : INode) (cur : Val) (env : Env) (hc : cur.isNull = false) :
    ieval root (.pipe (.selectObjectCurrent [(k, e)]) (.field k)) cur env = ieval root e cur env := by
  simp only [ieval, ievalFields, combineUnordered_nil, hc, Bool.false_eq_true, if_false, Res.pure_eq, Res.bind_assoc,
    Res.ok_bind, field, objLookup_single, Option.getD_some, Res.bind_ok]

example : ieval .null (.pipe (.selectObjectCurrent [([107], .variable [36, 120])]) (.field [107])) (.obj []) []
    = .err [Cat.undefinedVariable] ∧ ieval .null (.variable [36, 120]) (.obj []) [] = .err [Cat.undefinedVariable] :=
  ⟨rfl, rfl⟩

/-- **`[E1, E2]` on text** -/
theorem multiselect_text {E1 E2 : PTree} (h1 : WellPrec E1) (h2 : WellPrec E2) {e : Bytes}
    (hl : Lexes e (tLBracket :: Grammar.flatten E1 ++ tComma :: Grammar.flatten E2 ++ [tRBracket])) :
    Parser.parse e = .ok (.selectArrayCurrent [erase E1, erase E2]) ∧
    ∀ d, search e d = if d.isNull then .ok .null else
      (evaluate (erase E1) d >>= fun v1 => evaluate (erase E2) d >>= fun v2 => .ok (.arr .plain [v1, v2])) := by
  obtain ⟨hp, hs⟩ := text (wp_list2 h1 h2) (hl.congr (flatten_list2 E1 E2).symm)
  rw [erase_list2] at hp hs
  refine ⟨hp, fun d => ?_⟩
  rw [hs d]
  simp only [evaluate_eq, ieval, ievalList, Res.pure_eq, Res.bind_assoc, Res.ok_bind]

/-- **`[E]` on text**: the one-member form has no null check -/
theorem singleton_text {E : PTree} (h : WellPrec E) {e : Bytes}
    (hl : Lexes e (tLBracket :: Grammar.flatten E ++ [tRBracket])) :
    Parser.parse e = .ok (.selectArraySingleCurrent (erase E)) ∧
    ∀ d, search e d = (evaluate (erase E) d >>= fun v => .ok (.arr .plain [v])) := by
  obtain ⟨hp, hs⟩ := text (wp_list1 h) (hl.congr (flatten_list1 E).symm)
  rw [erase_list1] at hp hs
  refine ⟨hp, fun d => ?_⟩
  rw [hs d]
  simp only [evaluate_eq, ieval, Res.pure_eq]

/-- **"on a non-null current node `[e1, e2]` equals the concatenation of the single selections `[e1]`, `[e2]`"**, on
    text and for every outcome -/
theorem multiselect_concat_text {E1 E2 : PTree} (h1 : WellPrec E1) (h2 : WellPrec E2) {e e1 e2 : Bytes}
    (hl : Lexes e (tLBracket :: Grammar.flatten E1 ++ tComma :: Grammar.flatten E2 ++ [tRBracket]))
    (hl1 : Lexes e1 (tLBracket :: Grammar.flatten E1 ++ [tRBracket]))
    (hl2 : Lexes e2 (tLBracket :: Grammar.flatten E2 ++ [tRBracket])) (d : Val) (hd : d.isNull = false) :
    search e d = (search e1 d >>= fun a => search e2 d >>= fun b => .ok (arrConcat a b)) := by
  rw [(multiselect_text h1 h2 hl).2 d, (singleton_text h1 hl1).2 d, (singleton_text h2 hl2).2 d, hd]
  simp only [Bool.false_eq_true, if_false, Res.bind_assoc, Res.ok_bind, arrConcat, List.cons_append, List.nil_append]

/-- **`{k: E}.k` equals `E`, on text**, on every document (null included: the one-member hash has no null check) and
    for every outcome -/
theorem hash_select_text {E : PTree} (hE : WellPrec E) {k : Token} (hk : k.type = .unquotedIdentifier) {e e' : Bytes}
    (hl : Lexes e (tLBrace :: k :: tColon :: Grammar.flatten E ++ [tRBrace, tDot, k]))
    (hl' : Lexes e' (Grammar.flatten E)) :
    Parser.parse e = .ok (.pipe (.selectObjectSingleCurrent k.value (erase E)) (.field k.value)) ∧
    ∀ d, search e d = search e' d := by
  have hE' : Grammar.wp false E = true := hE
  have hkey : keyOK k = true := by simp only [keyOK, hk, beq_self_eq_true, Bool.true_or]
  have hA : WellPrec (.multiHash [(k, E)]) := by
    show Grammar.wp false (.multiHash [(k, E)]) = true
    simp only [Grammar.wp, wpKVs, hkey, hE', List.isEmpty_cons, Bool.not_false, Bool.and_self]
  have hat : atomNode k = some (.field k.value) := by simp only [atomNode, hk]
  have hR : Sel (.atom k) := by
    refine ⟨?_, (by decide : lvlDot < top), ?_⟩
    · show Grammar.wp false (.atom k) = true
      simp only [Grammar.wp, hat, Option.isSome_some, Bool.not_false, Bool.and_self]
    · simp only [startsWithIdent, Grammar.flat, List.head?_cons, hk, beq_self_eq_true, Bool.true_or]
  obtain ⟨hp, hs⟩ := text (wp_dot hA (by decide : lvlDot ≤ top) hR) (hl.congr (by
    rw [flatten_dot]
    simp only [Grammar.flatten, Grammar.flat, flatKVs, List.cons_append, List.append_assoc, List.nil_append]))
  have he : erase (.dotId (.multiHash [(k, E)]) (.atom k)) =
      .pipe (.selectObjectSingleCurrent k.value (erase E)) (.field k.value) := by
    rw [erase_dot (by rfl)]
    simp only [erase, eraseKVs, hashNode, hat, Option.getD_some, keyOf, hk]
  rw [he] at hp hs
  refine ⟨hp, fun d => ?_⟩
  rw [hs d, (text hE hl').2 d, evaluate_eq, hash_select_eq]; rfl

section Examples
open Grammar.Ex
example : Parser.parse (bs "[a, b]") = .ok (.selectArrayCurrent [.field (bs "a"), .field (bs "b")]) :=
  (multiselect_text (E1 := idt "a") (E2 := idt "b") (by decide) (by decide) (by decide)).1
example : Parser.parse (bs "[a]") = .ok (.selectArraySingleCurrent (.field (bs "a"))) :=
  (singleton_text (E := idt "a") (by decide) (by decide)).1
example (d : Val) (hd : d.isNull = false) :
    search (bs "[a, b]") d = (search (bs "[a]") d >>= fun x => search (bs "[b]") d >>= fun y => .ok (arrConcat x y)) :=
  multiselect_concat_text (E1 := idt "a") (E2 := idt "b") (by decide) (by decide) (by decide) (by decide) (by decide) d hd
example : ∀ d, search (bs "{k: a.b}.k") d = search (bs "a.b") d :=
  (hash_select_text (E := .dotId (idt "a") (idt "b")) (k := ⟨.unquotedIdentifier, bs "k"⟩) (by decide) rfl
    (by decide) (by decide)).2
end Examples

/-! ## 7. The multi-select null asymmetry

  Go's parser builds a dedicated node for a one-member multi-select WITHOUT a left operand (`[e]`, `{k: e}`:
  `SelectArraySingleCurrentNode`, `SelectObjectSingleCurrentNode`), and the evaluator of these two nodes does not test
  the current node for null, while every other multi-select node does.  Hence on a null current node `[a]` is
  `[null]` but `[a, b]` is null. -/

/-- **`multiselect_null_asymmetry`**, nodes: on a null current node the one-member forms without a left operand
    evaluate their member and wrap it; the forms with two or more members, and every form with a left operand whose
    value is null, yield null -/
theorem multiselect_null_asymmetry (root : Val) (e e1 e2 : INode) (es : List INode) (k k1 k2 : Bytes)
    (kvs : List (Bytes × INode)) (l : INode) (cur : Val) (env : Env) (hl : ieval root l cur env = .ok .null) :
    ieval root (.selectArraySingleCurrent e) .null env = (ieval root e .null env >>= fun v => .ok (.arr .plain [v])) ∧
    ieval root (.selectObjectSingleCurrent k e) .null env = (ieval root e .null env >>= fun v => .ok (.obj [(k, v)])) ∧
    ieval root (.selectArrayCurrent (e1 :: e2 :: es)) .null env = .ok .null ∧
    ieval root (.selectObjectCurrent ((k1, e1) :: (k2, e2) :: kvs)) .null env = .ok .null ∧
    ieval root (.selectArraySingle l e) cur env = .ok .null ∧
    ieval root (.selectObjectSingle l k e) cur env = .ok .null := by
  refine ⟨by simp only [ieval, Res.pure_eq], by simp only [ieval, Res.pure_eq], by simp only [ieval]; rfl,
    by simp only [ieval]; rfl, ?_, ?_⟩ <;> simp only [ieval, hl, Res.ok_bind] <;> rfl

/-- for a selector-shaped member: `[a]` on null is `[null]`, `{k: a}` on null is `{"k": null}` -/
theorem single_select_null {e : INode} (h : Selector e) (root : Val) (k : Bytes) (env : Env) :
    ieval root (.selectArraySingleCurrent e) .null env = .ok (.arr .plain [.null]) ∧
    ieval root (.selectObjectSingleCurrent k e) .null env = .ok (.obj [(k, .null)]) := by
  simp only [ieval, selector_null h, Res.ok_bind, Res.pure_eq, and_self]

/-- **the asymmetry on text**: for selector-shaped `E`, `E1`, `E2`, searching the null document with `[E]` gives
    `[null]`, with `[E1, E2]` gives null -/
theorem multiselect_null_asymmetry_text {E E1 E2 : PTree} (h : WellPrec E) (hs : SelTree E) (h1 : WellPrec E1)
    (h2 : WellPrec E2) {e e' : Bytes}
    (hl : Lexes e (tLBracket :: Grammar.flatten E ++ [tRBracket]))
    (hl' : Lexes e' (tLBracket :: Grammar.flatten E1 ++ tComma :: Grammar.flatten E2 ++ [tRBracket])) :
    search e .null = .ok (.arr .plain [.null]) ∧ search e' .null = .ok .null := by
  refine ⟨?_, ?_⟩
  · rw [(singleton_text h hl).2, evaluate_eq, selector_null (erase_selector hs)]; rfl
  · rw [(multiselect_text h1 h2 hl').2]; rfl

section Examples
open Grammar.Ex
/-- `[a]` on null is `[null]`; `[a, b]` on null is null; `{k: a}` on null is `{"k": null}` -/
example : search (bs "[a]") .null = .ok (.arr .plain [.null]) ∧ search (bs "[a, b]") .null = .ok .null :=
  multiselect_null_asymmetry_text (E := idt "a") (E1 := idt "a") (E2 := idt "b") (by decide) (.ident _ rfl) (by decide)
    (by decide) (by decide) (by decide)
example : ieval .null (.selectObjectSingleCurrent [107] (.field [97])) .null [] = .ok (.obj [([107], .null)]) ∧
    ieval .null (.selectObjectCurrent [([107], .field [97]), ([108], .field [98])]) .null [] = .ok .null := ⟨rfl, rfl⟩
/-- with a left operand there is no asymmetry: `foo.[a]` on `{}` is null -/
example : ieval .null (.selectArraySingle (.field [102]) (.field [97])) (.obj []) [] = .ok .null := rfl
end Examples


/-! ## 8. "Filter, flatten and slice projections equal their unprojected result piped into `[*]`", and
       "`x[*].e` equals `map(&e, x)` with nulls removed" — on text -/

/-- projecting an array and projecting the same array without its nulls agree when the right-hand side maps null to
    null -/
theorem project_pruned (f : Val → Res Val) (h0 : f .null = Res.ok .null) (t t' : ATag) (ht : t.derived = t'.derived)
    (xs : List Val) :
    Agree (projectArray f (.arr t xs)) (projectArray f (.arr t' (xs.filter (fun x => !x.isNull)))) := by
  simp only [projectArray, Res.pure_eq, mapPrune_filter_nonnull f h0, ht]
  cases hm : mapPrune f xs with
  | ok r => exact Or.inl ⟨_, rfl, rfl⟩
  | _ => refine Or.inr ⟨?_, ?_⟩ <;> rw [isOk_widen] <;> rfl

/-- **`sem_unfused`**, all five openers: the fused loop `⟨o⟩ f` agrees with the unprojected `⟨o⟩` piped into `[*] f`
    when `f` maps null to null (and, for a slice, the slice is not a string) -/
theorem sem_unfused (o : Opener) (root : Val) (env : Env) (f : Val → Res Val) (h0 : f .null = Res.ok .null) (v : Val)
    (hs : o.noStr v) :
    Agree (o.sem root env f v) (o.sem0 root env v >>= projectArray f) := by
  cases o with
  | star =>
    cases v with
    | arr t xs =>
      simp only [Opener.sem, Opener.sem0, Res.ok_bind, pruneArray]
      split
      · exact project_pruned f h0 t t.derived (derived_derived t).symm xs
      · exact Agree.refl _
    | _ => exact Or.inl ⟨.null, rfl, rfl⟩
  | ostar =>
    cases v with
    | obj kvs =>
      simp only [Opener.sem, Opener.sem0, Res.ok_bind, objectValues, projectObject]
      exact project_pruned f h0 .enum .enum rfl _
    | _ => exact Or.inl ⟨.null, rfl, rfl⟩
  | flat => exact flatten_then_project f h0 v
  | filt c => exact filter_then_project _ f h0 v
  | slice a b c =>
    simp only [Opener.sem, Opener.sem0, Res.bind_assoc]
    cases hv : sliceVal a b c v with
    | ok s =>
      simp only [Res.ok_bind]
      cases s with
      | str s' => exact absurd hv (hs s')
      | arr t xs =>
        simp only [projectArray, mapPrune_ok, Res.ok_bind, Res.pure_eq, C17.widen_ok]
        exact project_pruned f h0 t t.derived (derived_derived t).symm xs
      | _ => exact Or.inl ⟨.null, rfl, rfl⟩
    | _ => exact Or.inr ⟨rfl, rfl⟩

/-- `[?@].a` and `[?@] | [*].a`; a string slice shows the condition is needed -/
example :
    (Opener.filt (Grammar.Ex.idt "a")).sem .null [] (fun v => .ok (field [98] v))
      (.arr .plain [.obj [([97], .bool true), ([98], .bool false)], .null]) = .ok (.arr .plain [.bool false]) ∧
    ((Opener.filt (Grammar.Ex.idt "a")).sem0 .null [] (.arr .plain [.obj [([97], .bool true), ([98], .bool false)], .null])
      >>= projectArray (fun v => .ok (field [98] v))) = .ok (.arr .plain [.bool false]) := ⟨rfl, rfl⟩

/-- **`L⟨o⟩ρ` against `L⟨o⟩ | [*]ρ`** on text, for all five openers: the second text parses to the pipe of the
    UNPROJECTED form (`pruneArray`, `objectValues`, `flatten`, `filter`, the bare slice) into `[*]ρ`; when `ρ` yields
    null on null the two searches give the same value or both fail (for a slice: unless it is a string) -/
theorem unfused_text (o : Opener) {L ρ : PTree} (hL : WellPrec L) (hLr : o.lvl ≤ rlevel L) (ho : o.ok) (hρ : Rhs ρ)
    {op : Token} (hop : op.type = .pipe) {e1 e2 : Bytes}
    (h1 : Lexes e1 (Grammar.flatten L ++ o.toks ++ Grammar.flat true ρ))
    (h2 : Lexes e2 (Grammar.flatten L ++ o.toks ++ op :: tArrayStar :: Grammar.flat true ρ)) :
    Parser.parse e1 = .ok (o.node (erase L) (erase ρ)) ∧
    Parser.parse e2 = .ok (.pipe (o.node0 (erase L)) (.projectArrayCurrent (erase ρ))) ∧
    ∀ d, ieval d (erase ρ) .null [] = .ok .null → (∀ v, evaluate (erase L) d = .ok v → o.noStr v) →
      Agree (search e1 d) (search e2 d) := by
  have hi := not_icur (b := false) hL
  have a := proj_text o hL hLr ho hρ h1
  have hw0 : WellPrec (o.mk L .icur) := Opener.wp_mk0 (b := false) hL hLr ho
  have hC : WellPrec (.star .icur ρ) := by
    show Grammar.wp false (.star .icur ρ) = true
    rw [Grammar.wp]
    simp only [icur_isIcur, if_true, hρ.wp, Bool.true_and, Bool.or_eq_true, decide_eq_true_eq]
    exact Or.inr hρ.lvl
  have hw2 : WellPrec (.bin op (o.mk L .icur) (.star .icur ρ)) :=
    wp_bin (lvl := lvlPipe) (by rw [hop]; rfl) hw0 (by rw [Opener.rlevel_mk]; decide) hC (by decide : lvlPipe < top)
  obtain ⟨hp, hs⟩ := text hw2 (h2.congr (by
    rw [flatten_bin]
    show _ = Grammar.flat false (o.mk L .icur) ++ _
    rw [Opener.flat_mk o false hi]
    simp only [Grammar.flatten, Grammar.flat, List.append_nil, List.append_assoc, List.cons_append, List.nil_append]))
  have he : erase (.bin op (o.mk L .icur) (.star .icur ρ)) = .pipe (o.node0 (erase L)) (.projectArrayCurrent (erase ρ)) := by
    rw [erase_bin, hop, Opener.erase_mk0 o hi]
    simp only [erase, GrammarF0.optNode_icur, GrammarF0.optNode_of_ne hρ.not_icur, starNode, binNode]
  rw [he] at hp hs
  refine ⟨a.1, hp, fun d h0 hstr => ?_⟩
  rw [a.2 d, hs d, evaluate_eq, evaluate_eq, dot_is_pipe, Opener.ieval_node0, Res.bind_assoc]
  cases hv : ieval d (erase L) d [] with
  | ok v =>
    simp only [Res.ok_bind]
    have : (fun arr => ieval d (.projectArrayCurrent (erase ρ)) arr []) =
        projectArray (fun y => ieval d (erase ρ) y []) := funext fun arr => by rw [ieval]
    rw [this]
    exact sem_unfused o d [] _ h0 v (hstr v hv)
  | _ => exact Or.inr ⟨rfl, rfl⟩

/-- an argument that is an expression (not `&…`) -/
theorem wpArgs_cons {A : PTree} (hA : Grammar.wp false A = true) (es : List PTree) :
    wpArgs (A :: es) = wpArgs es := by
  cases A <;> simp only [wpArgs, hA, Bool.true_and] <;> simp only [Grammar.wp] at hA <;> cases hA

/-- a well-formed expression is not an `&` argument -/
theorem isRef_false {A : PTree} (hA : Grammar.wp false A = true) : A.isRef = false := by
  cases A <;> first | rfl | (simp only [Grammar.wp] at hA; cases hA)

/-- **`L[*].R` equals `map(&R, L)[*]` when `L` is an array**, on text: the second text parses to the pruned `map`
    node, and on every document where `L` evaluates to an array the two searches have the same outcome -/
theorem star_is_map_text {L R : PTree} (hL : WellPrec L) (hLr : lvlBracket ≤ rlevel L) (hR : Sel R)
    {mapTok : Token} (hm : mapTok = ⟨.unquotedIdentifier, [0x6D, 0x61, 0x70]⟩) {e1 e2 : Bytes}
    (h1 : Lexes e1 (Grammar.flatten L ++ [tArrayStar] ++ tDot :: Grammar.flatten R))
    (h2 : Lexes e2 (mapTok :: tLParen :: tAmp :: Grammar.flatten R ++ tComma :: Grammar.flatten L ++ [tRParen, tArrayStar])) :
    Parser.parse e1 = .ok (.projectArray (erase L) (erase R)) ∧
    Parser.parse e2 = .ok (.pruneArray (.map (erase R) (erase L))) ∧
    ∀ d t xs, evaluate (erase L) d = .ok (.arr t xs) → search e1 d = search e2 d := by
  subst hm
  have hL' : Grammar.wp false L = true := hL
  have hR' : Grammar.wp false R = true := hR.wp
  have a := proj_text .star hL hLr trivial (rhs_dot1 hR) (e := e1) (h1.congr (by rw [flat_dot1]; rfl))
  rw [erase_dot1] at a
  have hlk : Parser.lookupBuiltin [0x6D, 0x61, 0x70] = some (.mapArg .map) := by rfl
  have hcall : WellPrec (.call ⟨.unquotedIdentifier, [0x6D, 0x61, 0x70]⟩ [.ref R, L]) := by
    show Grammar.wp false (.call ⟨.unquotedIdentifier, [0x6D, 0x61, 0x70]⟩ [.ref R, L]) = true
    simp only [Grammar.wp, hlk, argsOK, show (PTree.ref R).isRef = true from rfl, isRef_false hL', wpArgs, hR', wpArgs_cons hL', Bool.not_false,
      beq_self_eq_true, Bool.and_self]
  have hw : WellPrec (Opener.star.mk (.call ⟨.unquotedIdentifier, [0x6D, 0x61, 0x70]⟩ [.ref R, L]) .icur) :=
    Opener.wp_mk0 (b := false) hcall (by decide : lvlBracket ≤ top) trivial
  obtain ⟨hp, hs⟩ := text hw (h2.congr (by
    simp only [Grammar.flatten, Opener.mk, Grammar.flat, flatSep, List.cons_append, List.append_assoc, List.nil_append,
      List.append_nil]))
  have he : erase (Opener.star.mk (.call ⟨.unquotedIdentifier, [0x6D, 0x61, 0x70]⟩ [.ref R, L]) .icur) =
      .pruneArray (.map (erase R) (erase L)) := by
    simp only [Opener.mk, erase, hlk, eraseL, callNode, GrammarF0.optNode_icur, starNode,
      GrammarF0.optNode_of_ne (show (PTree.call ⟨.unquotedIdentifier, [0x6D, 0x61, 0x70]⟩ [.ref R, L]).isIcur = false from rfl)]
  rw [he] at hp hs
  refine ⟨a.1, hp, fun d t xs hx => ?_⟩
  rw [search_of_parse a.1, hs d, evaluate_eq, evaluate_eq]
  exact star_is_map_node d (erase L) (erase R) d [] t xs hx

section Examples
open Grammar.Ex
private theorem selId3 (s : String) (h : Sel (idt s) := by exact ⟨by decide, by decide, by decide⟩) : Sel (idt s) := h
/-- `foo[?c].bar` / `foo[?c] | [*].bar`, `foo[].bar` / `foo[] | [*].bar`, `foo.*.bar` / `foo.* | [*].bar` -/
example : ∀ d, Agree (search (bs "foo[?c].bar") d) (search (bs "foo[?c] | [*].bar") d) := fun d =>
  (unfused_text (.filt (idt "c")) (L := idt "foo") (ρ := .dotId .icur (idt "bar")) (op := op .pipe "|") (by decide)
    (by decide) (by show WellPrec _; decide) (rhs_dot1 (selId3 "bar")) rfl (by decide) (by decide)).2.2 d rfl
    (fun _ _ => trivial)
example : ∀ d, Agree (search (bs "foo[].bar") d) (search (bs "foo[] | [*].bar") d) := fun d =>
  (unfused_text .flat (L := idt "foo") (ρ := .dotId .icur (idt "bar")) (op := op .pipe "|") (by decide)
    (by decide) trivial (rhs_dot1 (selId3 "bar")) rfl (by decide) (by decide)).2.2 d rfl (fun _ _ => trivial)
example : ∀ d, Agree (search (bs "foo.*.bar") d) (search (bs "foo.* | [*].bar") d) := fun d =>
  (unfused_text .ostar (L := idt "foo") (ρ := .dotId .icur (idt "bar")) (op := op .pipe "|") (by decide)
    (by decide) trivial (rhs_dot1 (selId3 "bar")) rfl (by decide) (by decide)).2.2 d rfl (fun _ _ => trivial)
example : Parser.parse (bs "foo[0:2] | [*].bar") =
    .ok (.pipe (.projectArray (.slice (.field (bs "foo")) 0 2) .current) (.projectArrayCurrent (.field (bs "bar")))) :=
  (unfused_text (.slice (some (int "0")) (some (int "2")) none) (L := idt "foo") (ρ := .dotId .icur (idt "bar"))
    (op := op .pipe "|") (by decide) (by decide) (by show sliceOK _ _ _ = true; decide) (rhs_dot1 (selId3 "bar")) rfl
    (e1 := bs "foo[0:2].bar") (by decide) (by decide)).2.1
/-- `foo[*].bar` and `map(&bar, foo)[*]` -/
example : Parser.parse (bs "map(&bar, foo)[*]") = .ok (.pruneArray (.map (.field (bs "bar")) (.field (bs "foo")))) :=
  (star_is_map_text (L := idt "foo") (R := idt "bar") (by decide) (by decide) (selId3 "bar") rfl
    (e1 := bs "foo[*].bar") (by decide) (by decide +kernel)).2.1
end Examples

end Jmes.C17B
