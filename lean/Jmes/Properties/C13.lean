/-
  C13 — sort, sort_by, min/max and min_by/max_by order by value, stably.

  `sort.Stable` of Go is specified in the model as `List.mergeSort`; `stable_sort_unique` below shows that this
  says nothing beyond "the result is the stable sort".
-/
import Jmes.Proofs.Order
namespace Jmes.C13
open Res

/-! ### plumbing: the `Res` monad and `widen` -/

theorem bind_eq_ok {α β} {r : Res α} {g : α → Res β} {b : β} (h : (r >>= g) = .ok b) :
    ∃ a, r = .ok a ∧ g a = .ok b := by
  cases r with
  | ok a => exact ⟨a, rfl, h⟩
  | err c => cases h
  | panic w => cases h
  | nondet => cases h
  | unmodelled w => cases h

@[simp] theorem ok_bind {α β} (a : α) (g : α → Res β) : ((.ok a : Res α) >>= g) = g a := rfl
@[simp] theorem err_bind {α β} (c : List Cat) (g : α → Res β) : ((.err c : Res α) >>= g) = .err c := rfl
@[simp] theorem pure_eq_ok {α} (a : α) : (pure a : Res α) = .ok a := rfl

theorem widen_eq_ok {α} {t xs fs extra} {r : Res α} {a : α} (h : widen t xs fs extra r = .ok a) : r = .ok a := by
  cases r with
  | ok a' => exact h
  | err c => simp only [widen] at h; split at h <;> (try split at h) <;> cases h
  | panic w => cases h
  | nondet => cases h
  | unmodelled w => cases h

theorem widen_of_not_enum2 {α} {t xs fs extra} (r : Res α) (h : enum2 t xs = false) :
    widen t xs fs extra r = r := by
  cases r <;> simp [widen, h]

/-! ### the key list computed by `keysOf` -/

theorem keysFrom_ok {f : Val → Res Val} {isStr : Bool} : ∀ {xs : List Val} {ks : List Key},
    keysFrom f isStr xs = .ok ks → ks.length = xs.length ∧ ∀ k ∈ ks, k.isStr = isStr
  | [], ks, h => by
    simp only [keysFrom] at h
    cases h; simp
  | x :: xs, ks, h => by
    simp only [keysFrom] at h
    obtain ⟨rv, _, h⟩ := bind_eq_ok h
    obtain ⟨k, hk, h⟩ := bind_eq_ok h
    obtain ⟨rest, hrest, h⟩ := bind_eq_ok h
    cases h
    have ih := keysFrom_ok hrest
    refine ⟨by simp [ih.1], ?_⟩
    intro k' hk'
    rcases List.mem_cons.mp hk' with e | e
    · subst e
      cases isStr
      · simp only [Bool.false_eq_true, if_false] at hk
        split at hk
        · cases hk; rfl
        · cases hk
      · simp only [if_true] at hk
        split at hk
        · cases hk; rfl
        · cases hk
    · exact ih.2 k' e

/-- a successful `keysOf` yields one key per element, all strings or all numbers -/
theorem keysOf_ok {f : Val → Res Val} {xs : List Val} {ks : List Key} (h : keysOf f xs = .ok ks) :
    ks.length = xs.length ∧ Key.Homog ks := by
  cases xs with
  | nil => simp only [keysOf] at h; cases h; exact ⟨rfl, .inl (by simp)⟩
  | cons x xs =>
    simp only [keysOf] at h
    obtain ⟨first, _, h⟩ := bind_eq_ok h
    split at h
    · obtain ⟨rest, hrest, h⟩ := bind_eq_ok h
      cases h
      have := keysFrom_ok hrest
      refine ⟨by simp [this.1], .inl ?_⟩
      intro k hk
      rcases List.mem_cons.mp hk with e | e
      · subst e; rfl
      · exact this.2 k e
    · split at h
      · cases h
      · obtain ⟨rest, hrest, h⟩ := bind_eq_ok h
        cases h
        have := keysFrom_ok hrest
        refine ⟨by simp [this.1], .inr ?_⟩
        intro k hk
        rcases List.mem_cons.mp hk with e | e
        · subst e; rfl
        · exact this.2 k e

/-! ### `sort_by` -/

/-- the comparator of `sortByKeys` on (element, key) pairs -/
abbrev le (a b : Val × Key) : Bool := !Key.lt b.2 a.2

/-- the total preorder it coincides with on homogeneous key lists -/
def leT (a b : Val × Key) : Bool := Key.leT a.2 b.2

theorem leT_trans (a b c : Val × Key) : leT a b = true → leT b c = true → leT a c = true := Key.leT_trans
theorem leT_total (a b : Val × Key) : (leT a b || leT b a) = true := Key.leT_total _ _

theorem le_agree {xs : List Val} {ks : List Key} (hh : Key.Homog ks) :
    ∀ a ∈ xs.zip ks, ∀ b ∈ xs.zip ks, le a b = leT a b := by
  intro a ha b hb
  have ha' := (List.of_mem_zip (a := a.1) (b := a.2) ha).2
  have hb' := (List.of_mem_zip (a := b.1) (b := b.2) hb).2
  exact (Key.leT_eq_le (hh.isStr_eq ha' hb')).symm

/-- `sort_by` returns a permutation of its input. -/
theorem sortByKeys_perm (xs : List Val) (ks : List Key) (h : xs.length = ks.length) :
    (sortByKeys xs ks).Perm xs := by
  unfold sortByKeys
  have := (List.mergeSort_perm (xs.zip ks) (fun a b => !Key.lt b.2 a.2)).map Prod.fst
  rwa [List.map_fst_zip (by omega)] at this

/-- …whose keys are non-decreasing (`sortByKeys xs ks` is the first projection of this list). -/
theorem sortByKeys_sorted (xs : List Val) (ks : List Key) (hh : Key.Homog ks) :
    ((xs.zip ks).mergeSort le).Pairwise (fun a b => le a b = true) :=
  pairwise_mergeSort_of_agree (le_agree hh) leT_trans leT_total

/-- Stability, for arrays of any length: two elements at positions `i < j` whose keys are in order
    (in particular: equal keys) are found in the same relative order in the result. -/
theorem sortByKeys_stable (xs : List Val) (ks : List Key) (hlen : xs.length = ks.length) (hh : Key.Homog ks)
    (i j : Nat) (hij : i < j) (hj : j < ks.length) (hle : Key.lt ks[j] ks[i] = false) :
    [(xs[i], ks[i]), (xs[j], ks[j])].Sublist ((xs.zip ks).mergeSort le) := by
  have hz : j < (xs.zip ks).length := by simp [List.length_zip]; omega
  have := getElem_pair_sublist (xs.zip ks) i j hij hz
  simp only [List.getElem_zip] at this
  refine sublist_mergeSort_of_agree (le_agree hh) leT_trans leT_total ?_ this
  simp [hle]

/-- the same on the output array -/
theorem sortByKeys_stable' (xs : List Val) (ks : List Key) (hlen : xs.length = ks.length) (hh : Key.Homog ks)
    (i j : Nat) (hij : i < j) (hj : j < ks.length) (hle : Key.lt ks[j] ks[i] = false) :
    [xs[i], xs[j]].Sublist (sortByKeys xs ks) :=
  (sortByKeys_stable xs ks hlen hh i j hij hj hle).map Prod.fst

/-- every key-sorted subsequence of the input survives as a subsequence (the strong form of stability) -/
theorem sortByKeys_stable_sublist (xs : List Val) (ks : List Key) (hh : Key.Homog ks)
    (c : List (Val × Key)) (hc : c.Pairwise (fun a b => le a b = true)) (hs : c.Sublist (xs.zip ks)) :
    c.Sublist ((xs.zip ks).mergeSort le) :=
  sublist_mergeSort_of_agree (le_agree hh) leT_trans leT_total hc hs

/-- What a successful `sort_by` returns: the empty array itself, or a fresh plain array holding the stable sort of
    the input by a homogeneous key list. The input value is not changed (the model is functional). -/
theorem sortArrayBy_ok_char {f : Val → Res Val} {t : ATag} {xs : List Val} {r : Val}
    (h : sortArrayBy f (.arr t xs) = .ok r) :
    (xs = [] ∧ r = .arr t xs) ∨
    (xs ≠ [] ∧ ∃ ks, keysOf f xs = .ok ks ∧ ks.length = xs.length ∧ Key.Homog ks ∧
      r = .arr .plain (sortByKeys xs ks)) := by
  unfold sortArrayBy at h
  cases xs with
  | nil => left; simp at h; exact ⟨rfl, h.symm⟩
  | cons x xs =>
    right
    simp only [List.isEmpty_cons, Bool.false_eq_true, if_false] at h
    have h := widen_eq_ok h
    obtain ⟨ks, hks, h⟩ := bind_eq_ok h
    split at h
    · cases h
    · cases h
      have := keysOf_ok hks
      exact ⟨by simp, ks, hks, this.1, this.2, rfl⟩

theorem sortArrayBy_ok_spec {f : Val → Res Val} {xs : List Val} {r : Val} (hne : xs ≠ [])
    (h : sortArrayBy f (.arr .plain xs) = .ok r) :
    ∃ ys, r = .arr .plain ys ∧ ys.Perm xs := by
  rcases sortArrayBy_ok_char h with ⟨h1, _⟩ | ⟨_, ks, _, hl, _, hr⟩
  · exact absurd h1 hne
  · exact ⟨_, hr, sortByKeys_perm xs ks hl.symm⟩

theorem sortArrayBy_empty (f : Val → Res Val) (t : ATag) : sortArrayBy f (.arr t []) = .ok (.arr t []) := rfl


/-! ### invalid-type errors of `sort_by` / `max_by` / `min_by` -/

def IsStr (v : Val) : Prop := ∃ s, v = .str s

theorem keysFrom_err {f : Val → Res Val} {isStr : Bool} : ∀ {xs : List Val},
    (∀ x ∈ xs, ∃ v, f x = .ok v) →
    (∃ x ∈ xs, ∃ v, f x = .ok v ∧ (if isStr then ¬ IsStr v else toDecimal v = none)) →
    keysFrom f isStr xs = .err [Cat.invalidType]
  | [], _, ⟨_, hx, _⟩ => by cases hx
  | x :: xs, hall, ⟨y, hy, vy, hfy, hbad⟩ => by
    obtain ⟨v, hv⟩ := hall x (by simp)
    simp only [keysFrom, hv, ok_bind]
    by_cases hgood : (if isStr then ¬ IsStr v else toDecimal v = none)
    · -- this very element is rejected
      cases isStr
      · simp only [Bool.false_eq_true, if_false] at hgood ⊢
        rw [hgood]; rfl
      · simp only [if_true] at hgood ⊢
        split
        · exact absurd ⟨_, rfl⟩ hgood
        · rfl
    · have hyx : y ∈ xs := by
        rcases List.mem_cons.mp hy with e | e
        · subst e; rw [hv] at hfy; cases hfy; exact absurd hbad hgood
        · exact e
      have ih := keysFrom_err (isStr := isStr) (fun x hx => hall x (List.mem_cons_of_mem _ hx))
        ⟨y, hyx, vy, hfy, hbad⟩
      rw [ih]
      cases isStr
      · simp only [Bool.false_eq_true, if_false] at hgood ⊢
        cases hd : toDecimal v with
        | none => exact absurd hd hgood
        | some d => rfl
      · simp only [if_true] at hgood ⊢
        have : IsStr v := Classical.not_not.mp hgood
        obtain ⟨s, rfl⟩ := this
        rfl

/-- string first key, a later key that is not a string -/
theorem keysOf_str_mixed {f : Val → Res Val} {x0 : Val} {rest : List Val} {s : Bytes}
    (h0 : f x0 = .ok (.str s)) (hall : ∀ x ∈ rest, ∃ v, f x = .ok v)
    (hbad : ∃ x ∈ rest, ∃ v, f x = .ok v ∧ ¬ IsStr v) :
    keysOf f (x0 :: rest) = .err [Cat.invalidType] := by
  simp only [keysOf, h0, ok_bind]
  rw [keysFrom_err (isStr := true) hall (by simpa using hbad)]
  rfl

/-- number first key, a later key that is not a number -/
theorem keysOf_num_mixed {f : Val → Res Val} {x0 v0 : Val} {rest : List Val} {d : Dec}
    (h0 : f x0 = .ok v0) (hd : toDecimal v0 = some d) (hall : ∀ x ∈ rest, ∃ v, f x = .ok v)
    (hbad : ∃ x ∈ rest, ∃ v, f x = .ok v ∧ toDecimal v = none) :
    keysOf f (x0 :: rest) = .err [Cat.invalidType] := by
  simp only [keysOf, h0, ok_bind]
  split
  · simp [toDecimal] at hd
  · rw [hd]
    simp only
    rw [keysFrom_err (isStr := false) hall (by simpa using hbad)]
    rfl

/-- first key neither string nor number: any length, including 1 -/
theorem keysOf_bad_first {f : Val → Res Val} {x0 v0 : Val} {rest : List Val}
    (h0 : f x0 = .ok v0) (hs : ¬ IsStr v0) (hd : toDecimal v0 = none) :
    keysOf f (x0 :: rest) = .err [Cat.invalidType] := by
  simp only [keysOf, h0, ok_bind]
  split
  · exact absurd ⟨_, rfl⟩ hs
  · rw [hd]; rfl

theorem sortArrayBy_keys_err {f : Val → Res Val} {t : ATag} {xs : List Val} {c : List Cat} (hne : xs ≠ [])
    (ht : enum2 t xs = false) (hk : keysOf f xs = .err c) : sortArrayBy f (.arr t xs) = .err c := by
  unfold sortArrayBy
  cases xs with
  | nil => exact absurd rfl hne
  | cons x xs =>
    simp only [List.isEmpty_cons, Bool.false_eq_true, if_false]
    rw [widen_of_not_enum2 _ ht, hk]; rfl

theorem arrayPickBy_keys_err {better} {f : Val → Res Val} {t : ATag} {xs : List Val} {c : List Cat} (hne : xs ≠ [])
    (ht : enum2 t xs = false) (hk : keysOf f xs = .err c) : arrayPickBy better f (.arr t xs) = .err c := by
  unfold arrayPickBy
  cases xs with
  | nil => exact absurd rfl hne
  | cons x xs =>
    simp only
    rw [widen_of_not_enum2 _ ht, hk]; rfl

theorem enum2_plain (xs : List Val) : enum2 .plain xs = false := by simp [enum2]

/-- `sort_by` on a plain array whose keys mix strings and non-strings, numbers and non-numbers, or start with a key
    of another type, is an invalid-type error — for every length ≥ 1. -/
theorem sortArrayBy_mixed_error {f : Val → Res Val} {x0 v0 : Val} {rest : List Val}
    (h0 : f x0 = .ok v0) (hall : ∀ x ∈ rest, ∃ v, f x = .ok v)
    (hmix : (IsStr v0 ∧ ∃ x ∈ rest, ∃ v, f x = .ok v ∧ ¬ IsStr v) ∨
            ((∃ d, toDecimal v0 = some d) ∧ ∃ x ∈ rest, ∃ v, f x = .ok v ∧ toDecimal v = none) ∨
            (¬ IsStr v0 ∧ toDecimal v0 = none)) :
    sortArrayBy f (.arr .plain (x0 :: rest)) = .err [Cat.invalidType] := by
  apply sortArrayBy_keys_err (by simp) (enum2_plain _)
  rcases hmix with ⟨⟨s, rfl⟩, hb⟩ | ⟨⟨d, hd⟩, hb⟩ | ⟨hs, hd⟩
  · exact keysOf_str_mixed h0 hall hb
  · exact keysOf_num_mixed h0 hd hall hb
  · exact keysOf_bad_first h0 hs hd

/-- the same for `max_by` and `min_by` -/
theorem arrayPickBy_mixed_error {better} {f : Val → Res Val} {x0 v0 : Val} {rest : List Val}
    (h0 : f x0 = .ok v0) (hall : ∀ x ∈ rest, ∃ v, f x = .ok v)
    (hmix : (IsStr v0 ∧ ∃ x ∈ rest, ∃ v, f x = .ok v ∧ ¬ IsStr v) ∨
            ((∃ d, toDecimal v0 = some d) ∧ ∃ x ∈ rest, ∃ v, f x = .ok v ∧ toDecimal v = none) ∨
            (¬ IsStr v0 ∧ toDecimal v0 = none)) :
    arrayPickBy better f (.arr .plain (x0 :: rest)) = .err [Cat.invalidType] := by
  apply arrayPickBy_keys_err (by simp) (enum2_plain _)
  rcases hmix with ⟨⟨s, rfl⟩, hb⟩ | ⟨⟨d, hd⟩, hb⟩ | ⟨hs, hd⟩
  · exact keysOf_str_mixed h0 hall hb
  · exact keysOf_num_mixed h0 hd hall hb
  · exact keysOf_bad_first h0 hs hd


/-! ### `max_by` / `min_by` -/

theorem pickBy_eq_scan (better : Key → Key → Bool) : ∀ (rest : List (Val × Key)) (v : Val) (k : Key),
    pickBy better v k rest = (scan (fun p q : Val × Key => better p.2 q.2) (v, k) rest).1
  | [], _, _ => rfl
  | (v', k') :: rest, v, k => by
    simp only [pickBy, scan]
    split
    · exact pickBy_eq_scan better rest v' k'
    · exact pickBy_eq_scan better rest v k

/-- The scan of `max_by`/`min_by` returns a member that no member beats; if "not better" is transitive on the
    keys present (a strict weak order) it is the first such member. -/
theorem pickBy_extremal (better : Key → Key → Bool)
    (irrefl : ∀ a, better a a = false)
    (trans : ∀ a b c, better a b = true → better b c = true → better a c = true)
    (v0 : Val) (k0 : Key) (rest : List (Val × Key)) :
    ∃ pre post k, (v0, k0) :: rest = pre ++ (pickBy better v0 k0 rest, k) :: post ∧
      (∀ p ∈ (v0, k0) :: rest, better p.2 k = false) ∧
      (∀ S : Key → Prop, (∀ p ∈ (v0, k0) :: rest, S p.2) →
        (∀ a b c, S a → S b → S c → better a b = false → better b c = false → better a c = false) →
        ∀ p ∈ pre, better k p.2 = true) := by
  obtain ⟨pre, post, h1, h2, h3⟩ := scan_spec (fun p q : Val × Key => better p.2 q.2)
    (fun a => irrefl a.2) (fun a b c => trans a.2 b.2 c.2) (v0, k0) rest
  refine ⟨pre, post, (scan (fun p q : Val × Key => better p.2 q.2) (v0, k0) rest).2, ?_, h2, ?_⟩
  · rw [pickBy_eq_scan]; exact h1
  · intro S hS hnt
    exact h3 (fun p => S p.2) hS (fun a b c => hnt a.2 b.2 c.2)

theorem arrayPickBy_ok_char {better} {f : Val → Res Val} {t : ATag} {x0 : Val} {rest : List Val} {v : Val}
    (h : arrayPickBy better f (.arr t (x0 :: rest)) = .ok v) :
    ∃ k0 krest, keysOf f (x0 :: rest) = .ok (k0 :: krest) ∧ krest.length = rest.length ∧
      Key.Homog (k0 :: krest) ∧ v = pickBy better x0 k0 (rest.zip krest) := by
  unfold arrayPickBy at h
  simp only at h
  have h := widen_eq_ok h
  obtain ⟨ks, hks, h⟩ := bind_eq_ok h
  have hk := keysOf_ok hks
  cases ks with
  | nil => simp at hk
  | cons k0 krest =>
    simp only at h
    split at h
    · cases h
    · cases h
      exact ⟨k0, krest, hks, by simpa using hk.1, hk.2, rfl⟩

/-- `max_by`: when it answers, the answer is an element of the array, paired with a key that no other key exceeds;
    and (no NaN key) it is the first element with that property: every earlier key is strictly smaller. -/
theorem arrayMaxBy_spec {f : Val → Res Val} {t : ATag} {xs : List Val} {v : Val} (hne : xs ≠ [])
    (h : arrayMaxBy f (.arr t xs) = .ok v) :
    ∃ ks, keysOf f xs = .ok ks ∧ ks.length = xs.length ∧
      ∃ pre post k, xs.zip ks = pre ++ (v, k) :: post ∧ v ∈ xs ∧
        (∀ p ∈ xs.zip ks, Key.gtMax p.2 k = false) ∧
        ((∀ k' ∈ ks, k'.notNaN) → ∀ p ∈ pre, Key.gtMax k p.2 = true) := by
  cases xs with
  | nil => exact absurd rfl hne
  | cons x0 rest =>
    obtain ⟨k0, krest, hks, hlen, hh, hv⟩ := arrayPickBy_ok_char h
    obtain ⟨pre, post, k, e, hmax, hfirst⟩ := pickBy_extremal Key.gtMax Key.gtMax_irrefl
      (fun a b c => Key.gtMax_trans) x0 k0 (rest.zip krest)
    rw [← hv] at e
    refine ⟨k0 :: krest, hks, by simp [hlen], pre, post, k, by simpa using e, ?_, by simpa using hmax, ?_⟩
    · have : (v, k) ∈ (x0 :: rest).zip (k0 :: krest) := by
        rw [List.zip_cons_cons, e]; simp
      exact (List.of_mem_zip this).1
    · intro hnan
      apply hfirst (fun key => key.notNaN ∧ key.isStr = k0.isStr)
      · intro p hp
        have : p.2 ∈ k0 :: krest := by
          rw [← List.zip_cons_cons] at hp
          exact (List.of_mem_zip (a := p.1) (b := p.2) hp).2
        exact ⟨hnan _ this, hh.isStr_eq this (by simp)⟩
      · intro a b c ha hb hc
        exact Key.gtMax_negtrans (ha.2.trans hb.2.symm) (hb.2.trans hc.2.symm) ha.1 hb.1 hc.1

/-- `min_by`, dually. -/
theorem arrayMinBy_spec {f : Val → Res Val} {t : ATag} {xs : List Val} {v : Val} (hne : xs ≠ [])
    (h : arrayMinBy f (.arr t xs) = .ok v) :
    ∃ ks, keysOf f xs = .ok ks ∧ ks.length = xs.length ∧
      ∃ pre post k, xs.zip ks = pre ++ (v, k) :: post ∧ v ∈ xs ∧
        (∀ p ∈ xs.zip ks, Key.ltMin p.2 k = false) ∧
        ((∀ k' ∈ ks, k'.notNaN) → ∀ p ∈ pre, Key.ltMin k p.2 = true) := by
  cases xs with
  | nil => exact absurd rfl hne
  | cons x0 rest =>
    obtain ⟨k0, krest, hks, hlen, hh, hv⟩ := arrayPickBy_ok_char h
    obtain ⟨pre, post, k, e, hmax, hfirst⟩ := pickBy_extremal Key.ltMin Key.ltMin_irrefl
      (fun a b c => Key.ltMin_trans) x0 k0 (rest.zip krest)
    rw [← hv] at e
    refine ⟨k0 :: krest, hks, by simp [hlen], pre, post, k, by simpa using e, ?_, by simpa using hmax, ?_⟩
    · have : (v, k) ∈ (x0 :: rest).zip (k0 :: krest) := by
        rw [List.zip_cons_cons, e]; simp
      exact (List.of_mem_zip this).1
    · intro hnan
      apply hfirst (fun key => key.notNaN ∧ key.isStr = k0.isStr)
      · intro p hp
        have : p.2 ∈ k0 :: krest := by
          rw [← List.zip_cons_cons] at hp
          exact (List.of_mem_zip (a := p.1) (b := p.2) hp).2
        exact ⟨hnan _ this, hh.isStr_eq this (by simp)⟩
      · intro a b c ha hb hc
        exact Key.ltMin_negtrans (ha.2.trans hb.2.symm) (hb.2.trans hc.2.symm) ha.1 hb.1 hc.1

theorem arrayPickBy_empty (better) (f : Val → Res Val) (t : ATag) : arrayPickBy better f (.arr t []) = .ok .null := rfl


/-! ### `max` / `min` -/

theorem allStrings_some : ∀ {xs : List Val} {ss : List Bytes}, allStrings xs = some ss → xs = ss.map Val.str
  | [], ss, h => by simp only [allStrings] at h; cases h; rfl
  | .str s :: rest, ss, h => by
    simp only [allStrings] at h
    cases hr : allStrings rest with
    | none => rw [hr] at h; cases h
    | some ss' => rw [hr] at h; cases h; simp [allStrings_some hr]
  | .null :: _, _, h | .bool _ :: _, _, h | .num _ :: _, _, h | .arr .. :: _, _, h | .obj _ :: _, _, h
  | .foreign _ :: _, _, h => by simp [allStrings] at h

theorem allStrings_map (ss : List Bytes) : allStrings (ss.map Val.str) = some ss := by
  induction ss with
  | nil => rfl
  | cons s ss ih => simp [allStrings, ih]

theorem allStrings_none : ∀ {xs : List Val}, (∃ v ∈ xs, ¬ IsStr v) → allStrings xs = none
  | [], ⟨_, h, _⟩ => by cases h
  | x :: rest, ⟨v, hv, hbad⟩ => by
    cases x with
    | str s =>
      have : v ∈ rest := by
        rcases List.mem_cons.mp hv with e | e
        · subst e; exact absurd ⟨_, rfl⟩ hbad
        · exact e
      simp [allStrings, allStrings_none ⟨v, this, hbad⟩]
    | _ => simp [allStrings]

theorem allDecimals_some : ∀ {xs : List Val} {ds : List Dec}, allDecimals xs = some ds →
    ds.length = xs.length ∧ ∀ p ∈ xs.zip ds, toDecimal p.1 = some p.2
  | [], ds, h => by simp only [allDecimals] at h; cases h; simp
  | x :: rest, ds, h => by
    simp only [allDecimals] at h
    cases hx : toDecimal x with
    | none => rw [hx] at h; cases h
    | some d =>
      rw [hx] at h
      cases hr : allDecimals rest with
      | none => rw [hr] at h; cases h
      | some ds' =>
        rw [hr] at h; cases h
        have ih := allDecimals_some hr
        refine ⟨by simp [ih.1], ?_⟩
        intro p hp
        rw [List.zip_cons_cons] at hp
        rcases List.mem_cons.mp hp with e | e
        · subst e; exact hx
        · exact ih.2 p e

theorem allDecimals_none : ∀ {xs : List Val}, (∃ v ∈ xs, toDecimal v = none) → allDecimals xs = none
  | [], ⟨_, h, _⟩ => by cases h
  | x :: rest, ⟨v, hv, hbad⟩ => by
    simp only [allDecimals]
    cases hx : toDecimal x with
    | none => rfl
    | some d =>
      have : v ∈ rest := by
        rcases List.mem_cons.mp hv with e | e
        · subst e; rw [hx] at hbad; cases hbad
        · exact e
      simp [allDecimals_none ⟨v, this, hbad⟩]

theorem maxStr_eq_scan : ∀ (ss : List Bytes) (m : Bytes), maxStr m ss = scan (fun s m => bytesLt m s) m ss
  | [], _ => rfl
  | s :: ss, m => by simp only [maxStr, scan]; split <;> exact maxStr_eq_scan ss _
theorem minStr_eq_scan : ∀ (ss : List Bytes) (m : Bytes), minStr m ss = scan (fun s m => bytesLt s m) m ss
  | [], _ => rfl
  | s :: ss, m => by simp only [minStr, scan]; split <;> exact minStr_eq_scan ss _
theorem maxDec_eq_scan : ∀ (ds : List Dec) (m : Dec), maxDec m ds = scan Dec.greater m ds
  | [], _ => rfl
  | d :: ds, m => by simp only [maxDec, scan]; split <;> exact maxDec_eq_scan ds _
theorem minDec_eq_scan : ∀ (ds : List Dec) (m : Dec), minDec m ds = scan Dec.less m ds
  | [], _ => rfl
  | d :: ds, m => by simp only [minDec, scan]; split <;> exact minDec_eq_scan ds _

/-- `maxStr` returns the first member that no member exceeds under `bytesLt` -/
theorem maxStr_spec (m : Bytes) (ss : List Bytes) :
    ∃ pre post, m :: ss = pre ++ maxStr m ss :: post ∧
      (∀ s ∈ m :: ss, bytesLt (maxStr m ss) s = false) ∧ (∀ p ∈ pre, bytesLt p (maxStr m ss) = true) := by
  obtain ⟨pre, post, h1, h2, h3⟩ := scan_spec (fun s m : Bytes => bytesLt m s) bytesLt_irrefl
    (fun a b c h1 h2 => bytesLt_trans h2 h1) m ss
  rw [← maxStr_eq_scan] at h1 h2 h3
  refine ⟨pre, post, h1, h2, h3 (fun _ => True) (fun _ _ => trivial) ?_⟩
  intro a b c _ _ _ hab hbc
  have := bytesLe_trans (a := a) (b := b) (c := c) (by simpa [bytesLe] using hab) (by simpa [bytesLe] using hbc)
  simpa [bytesLe] using this

theorem minStr_spec (m : Bytes) (ss : List Bytes) :
    ∃ pre post, m :: ss = pre ++ minStr m ss :: post ∧
      (∀ s ∈ m :: ss, bytesLt s (minStr m ss) = false) ∧ (∀ p ∈ pre, bytesLt (minStr m ss) p = true) := by
  obtain ⟨pre, post, h1, h2, h3⟩ := scan_spec (fun s m : Bytes => bytesLt s m) bytesLt_irrefl
    (fun a b c h1 h2 => bytesLt_trans h1 h2) m ss
  rw [← minStr_eq_scan] at h1 h2 h3
  refine ⟨pre, post, h1, h2, h3 (fun _ => True) (fun _ _ => trivial) ?_⟩
  intro a b c _ _ _ hab hbc
  have := bytesLe_trans (a := c) (b := b) (c := a) (by simpa [bytesLe] using hbc) (by simpa [bytesLe] using hab)
  simpa [bytesLe] using this

/-- `maxDec` returns a member that no member is `Greater` than; without NaN it is the first such -/
theorem maxDec_spec (m : Dec) (ds : List Dec) :
    ∃ pre post, m :: ds = pre ++ maxDec m ds :: post ∧
      (∀ d ∈ m :: ds, Dec.greater d (maxDec m ds) = false) ∧
      ((∀ d ∈ m :: ds, d.isNaN = false) → ∀ p ∈ pre, Dec.greater (maxDec m ds) p = true) := by
  obtain ⟨pre, post, h1, h2, h3⟩ := scan_spec Dec.greater Dec.greater_irrefl
    (fun a b c h1 h2 => Dec.greater_trans h1 h2) m ds
  rw [← maxDec_eq_scan] at h1 h2 h3
  refine ⟨pre, post, h1, h2, fun hn => h3 (fun d => d.isNaN = false) hn ?_⟩
  intro a b c ha hb hc hab hbc
  rw [Dec.greater_eq_false_iff ha hb] at hab
  rw [Dec.greater_eq_false_iff hb hc] at hbc
  rw [Dec.greater_eq_false_iff ha hc]
  exact Dec.compare_trans hab hbc

theorem minDec_spec (m : Dec) (ds : List Dec) :
    ∃ pre post, m :: ds = pre ++ minDec m ds :: post ∧
      (∀ d ∈ m :: ds, Dec.less d (minDec m ds) = false) ∧
      ((∀ d ∈ m :: ds, d.isNaN = false) → ∀ p ∈ pre, Dec.less (minDec m ds) p = true) := by
  obtain ⟨pre, post, h1, h2, h3⟩ := scan_spec Dec.less Dec.less_irrefl
    (fun a b c h1 h2 => Dec.less_trans h1 h2) m ds
  rw [← minDec_eq_scan] at h1 h2 h3
  refine ⟨pre, post, h1, h2, fun hn => h3 (fun d => d.isNaN = false) hn ?_⟩
  intro a b c ha hb hc hab hbc
  rw [Dec.less_eq_false_iff ha hb] at hab
  rw [Dec.less_eq_false_iff hb hc] at hbc
  rw [Dec.less_eq_false_iff ha hc]
  exact Dec.compare_trans hbc hab

/-- `max` of an array of strings (any tag): the first member that no member exceeds. -/
theorem arrayMax_strings_spec {t : ATag} {ss : List Bytes} (hne : ss ≠ []) :
    ∃ pre post m, ss = pre ++ m :: post ∧ arrayMax (.arr t (ss.map Val.str)) = .ok (.str m) ∧
      (∀ s ∈ ss, bytesLt m s = false) ∧ (∀ p ∈ pre, bytesLt p m = true) := by
  cases ss with
  | nil => exact absurd rfl hne
  | cons s ss =>
    obtain ⟨pre, post, h1, h2, h3⟩ := maxStr_spec s ss
    refine ⟨pre, post, maxStr s ss, h1, ?_, h2, h3⟩
    simp [arrayMax, allStrings_map]

theorem arrayMin_strings_spec {t : ATag} {ss : List Bytes} (hne : ss ≠ []) :
    ∃ pre post m, ss = pre ++ m :: post ∧ arrayMin (.arr t (ss.map Val.str)) = .ok (.str m) ∧
      (∀ s ∈ ss, bytesLt s m = false) ∧ (∀ p ∈ pre, bytesLt m p = true) := by
  cases ss with
  | nil => exact absurd rfl hne
  | cons s ss =>
    obtain ⟨pre, post, h1, h2, h3⟩ := minStr_spec s ss
    refine ⟨pre, post, minStr s ss, h1, ?_, h2, h3⟩
    simp [arrayMin, allStrings_map]

/-- reduction of the number branch of `max` -/
theorem arrayMax_numbers_eq {t : ATag} {x : Val} {rest : List Val} (hx : ¬ IsStr x) :
    arrayMax (.arr t (x :: rest)) = (match allDecimals (x :: rest) with
      | some (d :: ds) =>
        if enum2 t (x :: rest) && !decsOrderFree (d :: ds) then .nondet else .ok (.num (.dec (maxDec d ds)))
      | _ => errType) := by
  cases x with
  | str s => exact absurd ⟨_, rfl⟩ hx
  | _ => rfl

theorem arrayMin_numbers_eq {t : ATag} {x : Val} {rest : List Val} (hx : ¬ IsStr x) :
    arrayMin (.arr t (x :: rest)) = (match allDecimals (x :: rest) with
      | some (d :: ds) =>
        if enum2 t (x :: rest) && !decsOrderFree (d :: ds) then .nondet else .ok (.num (.dec (minDec d ds)))
      | _ => errType) := by
  cases x with
  | str s => exact absurd ⟨_, rfl⟩ hx
  | _ => rfl

/-- `max` of an array that does not start with a string: when it answers, all elements are numbers, the answer is
    the decimal value `m` of one of them, and no element's value is `Greater` than `m`. -/
theorem arrayMax_numbers_spec {t : ATag} {x : Val} {rest : List Val} {r : Val} (hx : ¬ IsStr x)
    (h : arrayMax (.arr t (x :: rest)) = .ok r) :
    ∃ ds, allDecimals (x :: rest) = some ds ∧ ∃ pre post m, ds = pre ++ m :: post ∧ r = .num (.dec m) ∧
      (∀ d ∈ ds, Dec.greater d m = false) ∧
      ((∀ d ∈ ds, d.isNaN = false) → ∀ p ∈ pre, Dec.greater m p = true) := by
  rw [arrayMax_numbers_eq hx] at h
  split at h
  · rename_i d ds hd
    obtain ⟨pre, post, h1, h2, h3⟩ := maxDec_spec d ds
    split at h
    · cases h
    · cases h; exact ⟨_, hd, pre, post, _, h1, rfl, h2, h3⟩
  · cases h

theorem arrayMin_numbers_spec {t : ATag} {x : Val} {rest : List Val} {r : Val} (hx : ¬ IsStr x)
    (h : arrayMin (.arr t (x :: rest)) = .ok r) :
    ∃ ds, allDecimals (x :: rest) = some ds ∧ ∃ pre post m, ds = pre ++ m :: post ∧ r = .num (.dec m) ∧
      (∀ d ∈ ds, Dec.less d m = false) ∧
      ((∀ d ∈ ds, d.isNaN = false) → ∀ p ∈ pre, Dec.less m p = true) := by
  rw [arrayMin_numbers_eq hx] at h
  split at h
  · rename_i d ds hd
    obtain ⟨pre, post, h1, h2, h3⟩ := minDec_spec d ds
    split at h
    · cases h
    · cases h; exact ⟨_, hd, pre, post, _, h1, rfl, h2, h3⟩
  · cases h

/-- `max`, both cases: a successful `max` of a non-empty array (any tag) is either over strings — the first member
    that no member exceeds under `bytesLt` — or over numbers — the decimal value of a member such that no member's
    value is `Greater`. -/
theorem arrayMax_spec {t : ATag} {xs : List Val} {r : Val} (hne : xs ≠ []) (h : arrayMax (.arr t xs) = .ok r) :
    (∃ ss pre post m, xs = ss.map Val.str ∧ ss = pre ++ m :: post ∧ r = .str m ∧
      (∀ s ∈ ss, bytesLt m s = false) ∧ (∀ p ∈ pre, bytesLt p m = true)) ∨
    (∃ ds pre post m, allDecimals xs = some ds ∧ ds = pre ++ m :: post ∧ r = .num (.dec m) ∧
      (∀ d ∈ ds, Dec.greater d m = false) ∧
      ((∀ d ∈ ds, d.isNaN = false) → ∀ p ∈ pre, Dec.greater m p = true)) := by
  cases xs with
  | nil => exact absurd rfl hne
  | cons x rest =>
    by_cases hx : IsStr x
    · left
      obtain ⟨s, rfl⟩ := hx
      cases hs : allStrings rest with
      | none => simp [arrayMax, hs, errType] at h
      | some ss =>
        have e : Val.str s :: rest = (s :: ss).map Val.str := by rw [allStrings_some hs]; rfl
        obtain ⟨pre, post, m, h1, h2, h3, h4⟩ := arrayMax_strings_spec (t := t) (ss := s :: ss) (by simp)
        rw [← e, h] at h2
        cases h2
        exact ⟨s :: ss, pre, post, m, e, h1, rfl, h3, h4⟩
    · right
      obtain ⟨ds, hd, pre, post, m, h1, h2, h3, h4⟩ := arrayMax_numbers_spec hx h
      exact ⟨ds, pre, post, m, hd, h1, h2, h3, h4⟩

theorem arrayMin_spec {t : ATag} {xs : List Val} {r : Val} (hne : xs ≠ []) (h : arrayMin (.arr t xs) = .ok r) :
    (∃ ss pre post m, xs = ss.map Val.str ∧ ss = pre ++ m :: post ∧ r = .str m ∧
      (∀ s ∈ ss, bytesLt s m = false) ∧ (∀ p ∈ pre, bytesLt m p = true)) ∨
    (∃ ds pre post m, allDecimals xs = some ds ∧ ds = pre ++ m :: post ∧ r = .num (.dec m) ∧
      (∀ d ∈ ds, Dec.less d m = false) ∧
      ((∀ d ∈ ds, d.isNaN = false) → ∀ p ∈ pre, Dec.less m p = true)) := by
  cases xs with
  | nil => exact absurd rfl hne
  | cons x rest =>
    by_cases hx : IsStr x
    · left
      obtain ⟨s, rfl⟩ := hx
      cases hs : allStrings rest with
      | none => simp [arrayMin, hs, errType] at h
      | some ss =>
        have e : Val.str s :: rest = (s :: ss).map Val.str := by rw [allStrings_some hs]; rfl
        obtain ⟨pre, post, m, h1, h2, h3, h4⟩ := arrayMin_strings_spec (t := t) (ss := s :: ss) (by simp)
        rw [← e, h] at h2
        cases h2
        exact ⟨s :: ss, pre, post, m, e, h1, rfl, h3, h4⟩
    · right
      obtain ⟨ds, hd, pre, post, m, h1, h2, h3, h4⟩ := arrayMin_numbers_spec hx h
      exact ⟨ds, pre, post, m, hd, h1, h2, h3, h4⟩

theorem arrayMax_empty (t : ATag) : arrayMax (.arr t []) = .ok .null := rfl
theorem arrayMin_empty (t : ATag) : arrayMin (.arr t []) = .ok .null := rfl

/-- mixed arrays: a string first and a non-string somewhere, or a non-string first and a non-number somewhere
    (any length ≥ 1, any tag) -/
theorem arrayMax_mixed_error {t : ATag} {x : Val} {rest : List Val}
    (h : (IsStr x ∧ ∃ v ∈ rest, ¬ IsStr v) ∨ (¬ IsStr x ∧ ∃ v ∈ x :: rest, toDecimal v = none)) :
    arrayMax (.arr t (x :: rest)) = .err [Cat.invalidType] := by
  rcases h with ⟨⟨s, rfl⟩, hb⟩ | ⟨hx, hb⟩
  · simp [arrayMax, allStrings_none hb, errType]
  · rw [arrayMax_numbers_eq hx, allDecimals_none hb]; rfl

theorem arrayMin_mixed_error {t : ATag} {x : Val} {rest : List Val}
    (h : (IsStr x ∧ ∃ v ∈ rest, ¬ IsStr v) ∨ (¬ IsStr x ∧ ∃ v ∈ x :: rest, toDecimal v = none)) :
    arrayMin (.arr t (x :: rest)) = .err [Cat.invalidType] := by
  rcases h with ⟨⟨s, rfl⟩, hb⟩ | ⟨hx, hb⟩
  · simp [arrayMin, allStrings_none hb, errType]
  · rw [arrayMin_numbers_eq hx, allDecimals_none hb]; rfl


/-! ### `sort` -/

/-- the comparator of `sort` on strings -/
abbrev sle (a b : Bytes) : Bool := !bytesLt b a
/-- the comparator of `sort` on (element, decimal value) pairs -/
abbrev nle (a b : Val × Dec) : Bool := decide (Dec.compare a.2 b.2 ≤ 0)

theorem sle_trans (a b c : Bytes) : sle a b = true → sle b c = true → sle a c = true := bytesLe_trans
theorem sle_total (a b : Bytes) : (sle a b || sle b a) = true := bytesLe_total a b
theorem nle_trans (a b c : Val × Dec) : nle a b = true → nle b c = true → nle a c = true := Dec.le_trans
theorem nle_total (a b : Val × Dec) : (nle a b || nle b a) = true := Dec.le_total _ _

theorem sortArray_empty (t : ATag) : sortArray (.arr t []) = .ok (.arr t []) := rfl

/-- `sort` of an array of strings (any tag): a fresh plain array holding a permutation of the input that is
    non-decreasing under `bytesLt`; equal strings are indistinguishable, so stability is moot. -/
theorem sortArray_strings_spec {t : ATag} {ss : List Bytes} (hne : ss ≠ []) :
    sortArray (.arr t (ss.map Val.str)) = .ok (.arr .plain ((ss.mergeSort sle).map Val.str)) ∧
    ((ss.mergeSort sle).map Val.str).Perm (ss.map Val.str) ∧
    (ss.mergeSort sle).Pairwise (fun a b => bytesLt b a = false) := by
  refine ⟨?_, (List.mergeSort_perm ss sle).map _, ?_⟩
  · cases ss with
    | nil => exact absurd rfl hne
    | cons s ss =>
      have := allStrings_map (s :: ss)
      simp only [List.map_cons] at this
      simp only [sortArray, List.map_cons, this]
  · have := List.pairwise_mergeSort (le := sle) sle_trans sle_total ss
    refine this.imp ?_
    intro a b h
    simpa [sle] using h

/-- `sort` of an array that does not start with a string: when it answers, every element is a number, and the
    result is a fresh plain array holding a permutation of the input in non-decreasing `Dec.compare` order of
    the elements' decimal values. -/
theorem sortArray_numbers_spec {t : ATag} {x : Val} {rest : List Val} {r : Val} (hx : ¬ IsStr x)
    (h : sortArray (.arr t (x :: rest)) = .ok r) :
    ∃ ds, allDecimals (x :: rest) = some ds ∧
      r = .arr .plain ((((x :: rest).zip ds).mergeSort nle).map Prod.fst) ∧
      ((((x :: rest).zip ds).mergeSort nle).map Prod.fst).Perm (x :: rest) ∧
      (((x :: rest).zip ds).mergeSort nle).Pairwise (fun a b => Dec.compare a.2 b.2 ≤ 0) ∧
      (∀ p ∈ ((x :: rest).zip ds).mergeSort nle, toDecimal p.1 = some p.2) := by
  have hred : sortArray (.arr t (x :: rest)) = (match allDecimals (x :: rest) with
      | some ds =>
        let sorted := ((x :: rest).zip ds).mergeSort (fun a b => Dec.compare a.2 b.2 ≤ 0)
        if hasAmbiguousTie sorted then .nondet else .ok (.arr .plain (sorted.map Prod.fst))
      | none => errType) := by
    cases x with
    | str s => exact absurd ⟨_, rfl⟩ hx
    | _ => rfl
  rw [hred] at h
  split at h
  · rename_i ds hd
    simp only at h
    split at h
    · cases h
    · cases h
      have hds := allDecimals_some hd
      refine ⟨ds, hd, rfl, ?_, ?_, ?_⟩
      · have := (List.mergeSort_perm ((x :: rest).zip ds) nle).map Prod.fst
        rwa [List.map_fst_zip (by omega)] at this
      · have := List.pairwise_mergeSort (le := nle) nle_trans nle_total ((x :: rest).zip ds)
        refine this.imp ?_
        intro a b h
        simpa [nle] using h
      · intro p hp
        exact hds.2 p (List.mem_mergeSort.mp hp)
  · cases h

/-- Mixed arrays are an invalid-type error, for any tag and every length ≥ 1. -/
theorem sortArray_mixed_error {t : ATag} {x : Val} {rest : List Val}
    (h : (IsStr x ∧ ∃ v ∈ rest, ¬ IsStr v) ∨ (¬ IsStr x ∧ ∃ v ∈ x :: rest, toDecimal v = none)) :
    sortArray (.arr t (x :: rest)) = .err [Cat.invalidType] := by
  rcases h with ⟨⟨s, rfl⟩, v, hv, hb⟩ | ⟨hx, hb⟩
  · have : allStrings (.str s :: rest) = none := allStrings_none ⟨v, List.mem_cons_of_mem _ hv, hb⟩
    simp only [sortArray, this]; rfl
  · have hred : sortArray (.arr t (x :: rest)) = (match allDecimals (x :: rest) with
        | some ds =>
          let sorted := ((x :: rest).zip ds).mergeSort (fun a b => Dec.compare a.2 b.2 ≤ 0)
          if hasAmbiguousTie sorted then .nondet else .ok (.arr .plain (sorted.map Prod.fst))
        | none => errType) := by
      cases x with
      | str s => exact absurd ⟨_, rfl⟩ hx
      | _ => rfl
    rw [hred, allDecimals_none hb]; rfl


/-! ### the stable sort is unique: `mergeSort` in the model only says "stable" -/

/-- Re-export of `Jmes.stable_sort_unique` (proved in `Jmes.Proofs.Order`): for a total preorder, two sorted
    permutations of `l` that keep every sorted subsequence of `l` are equal. -/
theorem stable_sort_unique {α : Type _} {le : α → α → Bool}
    (trans : ∀ a b c, le a b = true → le b c = true → le a c = true)
    (total : ∀ a b, (le a b || le b a) = true)
    {l l1 l2 : List α} (p1 : l1.Perm l) (p2 : l2.Perm l)
    (s1 : l1.Pairwise (fun a b => le a b = true)) (s2 : l2.Pairwise (fun a b => le a b = true))
    (st1 : StableWrt le l l1) (st2 : StableWrt le l l2) : l1 = l2 :=
  Jmes.stable_sort_unique trans total p1 p2 s1 s2 st1 st2

/-- Any key-sorted, stable arrangement of the (element, key) pairs is the one the model computes: whatever
    `sort.Stable` does in Go, if it is a stable sort its result is `sortByKeys`. -/
theorem sortByKeys_unique (xs : List Val) (ks : List Key) (hh : Key.Homog ks) (l1 : List (Val × Key))
    (p1 : l1.Perm (xs.zip ks)) (s1 : l1.Pairwise (fun a b => le a b = true))
    (st1 : StableWrt le (xs.zip ks) l1) : l1 = (xs.zip ks).mergeSort le := by
  have ag := le_agree (xs := xs) hh
  have hm := mergeSort_is_stable_sort leT_trans leT_total (xs.zip ks)
  rw [← mergeSort_congr ag] at hm
  refine Jmes.stable_sort_unique leT_trans leT_total p1 hm.1 ?_ hm.2.1 ?_ hm.2.2
  · refine s1.imp_of_mem ?_
    intro a b ha hb h
    rw [← ag a (p1.mem_iff.mp ha) b (p1.mem_iff.mp hb)]; exact h
  · intro c hc hp
    apply st1 c hc
    refine hp.imp_of_mem ?_
    intro a b ha hb h
    rw [ag a (hc.subset ha) b (hc.subset hb)]; exact h

/-- With distinct elements the pair-wise form of stability suffices … -/
theorem stable_sort_unique_of_nodup {α : Type _} {le : α → α → Bool}
    {l l1 l2 : List α} (hn : l.Nodup) (p1 : l1.Perm l) (p2 : l2.Perm l)
    (s1 : l1.Pairwise (fun a b => le a b = true)) (s2 : l2.Pairwise (fun a b => le a b = true))
    (st1 : PairStableWrt le l l1) (st2 : PairStableWrt le l l2) : l1 = l2 :=
  Jmes.stable_sort_unique_of_nodup hn p1 p2 s1 s2 st1 st2

/-- … but not when an element occurs twice: under the trivial preorder both `[0,1,0,1]` and `[1,0,1,0]` are sorted
    permutations of `[0,1,0,1]` that keep every in-order *pair*. (Hence `stable_sort_unique` is stated with
    sorted *subsequences*, which is what `List.sublist_mergeSort` provides.) -/
theorem pair_stability_not_enough :
    ∃ (le : Nat → Nat → Bool) (l l1 l2 : List Nat),
      (∀ a b c, le a b = true → le b c = true → le a c = true) ∧ (∀ a b, (le a b || le b a) = true) ∧
      l1.Perm l ∧ l2.Perm l ∧ l1.Pairwise (fun a b => le a b = true) ∧ l2.Pairwise (fun a b => le a b = true) ∧
      PairStableWrt le l l1 ∧ PairStableWrt le l l2 ∧ l1 ≠ l2 := by
  refine ⟨fun _ _ => true, [0, 1, 0, 1], [0, 1, 0, 1], [1, 0, 1, 0], by simp, by simp, List.Perm.refl _, ?_,
    by simp, by simp, fun a b h _ => h, ?_, by decide⟩
  · decide
  · intro a b h _
    have ha : a ∈ [0, 1, 0, 1] := h.subset (by simp)
    have hb : b ∈ [0, 1, 0, 1] := h.subset (by simp)
    simp only [List.mem_cons, List.not_mem_nil, or_false] at ha hb
    rcases ha with rfl | rfl | rfl | rfl <;> rcases hb with rfl | rfl | rfl | rfl <;> decide

/-! ### examples (non-vacuity) -/

section Examples

def iv (i : Int) : Val := Val.num (.int .int i)
def kn (c : Nat) : Key := Key.n (.fin false c 0)
def sv (b : Nat) : Val := .str [b]

/-- 16 elements (beyond the 12-element insertion-sort threshold of Go's `sort`), two distinct keys -/
def xs16 : List Val :=
  [iv 0, iv 1, iv 2, iv 3, iv 4, iv 5, iv 6, iv 7, iv 8, iv 9, iv 10, iv 11, iv 12, iv 13, iv 14, iv 15]
def ks16 : List Key :=
  [kn 1, kn 0, kn 1, kn 0, kn 1, kn 0, kn 1, kn 0, kn 1, kn 0, kn 1, kn 0, kn 1, kn 0, kn 1, kn 0]

theorem kn_lt (a b : Nat) : Key.lt (kn a) (kn b) = decide (a < b) := by
  simp only [Key.lt, kn, Dec.compare, Dec.cmp, Dec.cmpFin, Dec.pow10, Option.getD_some]
  by_cases h : a < b
  · have : (a : Int) < b := by omega
    simp [h, this]
  · by_cases h' : a = b
    · simp [h']
    · have : ¬ (a : Int) < b := by omega
      have h2 : ¬ (a : Int) = b := by omega
      simp [h, this, h2]

theorem ks16_homog : Key.Homog ks16 := .inr (by simp [ks16, kn, Key.isStr])

/-- the elements with key 0 come first, the elements with key 1 after them, each group in input order -/
example : sortByKeys xs16 ks16 =
    [iv 1, iv 3, iv 5, iv 7, iv 9, iv 11, iv 13, iv 15, iv 0, iv 2, iv 4, iv 6, iv 8, iv 10, iv 12, iv 14] := by
  simp [sortByKeys, xs16, ks16, List.mergeSort, List.MergeSort.Internal.splitInTwo, kn_lt]

example : (sortByKeys xs16 ks16).Perm xs16 := sortByKeys_perm xs16 ks16 rfl
example : ((xs16.zip ks16).mergeSort le).Pairwise (fun a b => le a b = true) :=
  sortByKeys_sorted xs16 ks16 ks16_homog
/-- elements 0 and 14 both have key 1 -/
example : [iv 0, iv 14].Sublist (sortByKeys xs16 ks16) :=
  sortByKeys_stable' xs16 ks16 rfl ks16_homog 0 14 (by decide) (by decide) (by simp [ks16, kn_lt])

/-- `sort_by(@, &@)` -/
def idKey : Val → Res Val := fun v => .ok v
/-- `sort_by(@, &@[0])` -/
def headKey : Val → Res Val
  | .arr _ (k :: _) => .ok k
  | _ => .ok .null
def pr (k : Val) (i : Int) : Val := .arr .plain [k, iv i]

example : sortArrayBy headKey (.arr .plain [pr (sv 0x62) 0, pr (sv 0x61) 1, pr (sv 0x62) 2, pr (sv 0x61) 3]) =
    .ok (.arr .plain [pr (sv 0x61) 1, pr (sv 0x61) 3, pr (sv 0x62) 0, pr (sv 0x62) 2]) := by
  simp [sortArrayBy, widen, enum2, keysOf, keysFrom, headKey, pr, sv, sortByKeys, List.mergeSort,
    List.MergeSort.Internal.splitInTwo, Key.lt, bytesLt]
example : ∃ ys, sortArrayBy headKey (.arr .plain [pr (sv 0x62) 0, pr (sv 0x61) 1]) = .ok (.arr .plain ys) ∧
    ys.Perm [pr (sv 0x62) 0, pr (sv 0x61) 1] := by
  have h : sortArrayBy headKey (.arr .plain [pr (sv 0x62) 0, pr (sv 0x61) 1]) =
      .ok (.arr .plain [pr (sv 0x61) 1, pr (sv 0x62) 0]) := by
    simp [sortArrayBy, widen, enum2, keysOf, keysFrom, headKey, pr, sv, sortByKeys, List.mergeSort,
      List.MergeSort.Internal.splitInTwo, Key.lt, bytesLt]
  obtain ⟨ys, e, hp⟩ := sortArrayBy_ok_spec (by simp) h
  exact ⟨ys, by rw [h, e], hp⟩

-- invalid-type errors, including length 1
example : sortArrayBy idKey (.arr .plain [.bool true]) = .err [Cat.invalidType] := rfl
example : sortArrayBy idKey (.arr .plain [.bool true]) = .err [Cat.invalidType] :=
  sortArrayBy_mixed_error (v0 := .bool true) rfl (by simp)
    (.inr (.inr ⟨(by rintro ⟨s, h⟩; cases h), rfl⟩))
example : sortArrayBy idKey (.arr .plain [sv 0x61, iv 1]) = .err [Cat.invalidType] := rfl
example : sortArrayBy idKey (.arr .plain [sv 0x61, sv 0x62, iv 1]) = .err [Cat.invalidType] :=
  sortArrayBy_mixed_error (v0 := sv 0x61) rfl (by intro x _; exact ⟨x, rfl⟩)
    (.inl ⟨⟨_, rfl⟩, iv 1, by simp, iv 1, rfl, by rintro ⟨s, h⟩; cases h⟩)
example : sortArrayBy idKey (.arr .plain [iv 1, sv 0x61]) = .err [Cat.invalidType] := rfl
example : sortArrayBy idKey (.arr .plain [iv 1, iv 2, .null]) = .err [Cat.invalidType] :=
  sortArrayBy_mixed_error (v0 := iv 1) rfl (by intro x _; exact ⟨x, rfl⟩)
    (.inr (.inl ⟨⟨_, rfl⟩, .null, by simp, .null, rfl, rfl⟩))
example : arrayMaxBy idKey (.arr .plain [iv 1, sv 0x61]) = .err [Cat.invalidType] := rfl
example : arrayMinBy idKey (.arr .plain [.null]) = .err [Cat.invalidType] := rfl

-- max_by / min_by return the FIRST extremal element
example : arrayMaxBy headKey (.arr .plain [pr (sv 0x61) 0, pr (sv 0x62) 1, pr (sv 0x62) 2]) = .ok (pr (sv 0x62) 1) := rfl
example : arrayMinBy headKey (.arr .plain [pr (sv 0x62) 0, pr (sv 0x61) 1, pr (sv 0x61) 2]) = .ok (pr (sv 0x61) 1) := rfl
example : ∃ ks, keysOf headKey [pr (sv 0x61) 0, pr (sv 0x62) 1] = .ok ks ∧ ks.length = 2 :=
  let ⟨ks, h1, h2, _⟩ := arrayMaxBy_spec (f := headKey) (t := .plain) (xs := [pr (sv 0x61) 0, pr (sv 0x62) 1])
    (v := pr (sv 0x62) 1) (by simp) rfl
  ⟨ks, h1, h2⟩

-- max / min / sort
example : arrayMax (.arr .plain [sv 0x61, sv 0x63, sv 0x62]) = .ok (sv 0x63) := rfl
example : arrayMin (.arr .plain [sv 0x62, sv 0x61, sv 0x63]) = .ok (sv 0x61) := rfl
example : ∃ pre post m, [[0x61], [0x63], [0x62]] = pre ++ m :: post ∧
    arrayMax (.arr .plain ([[0x61], [0x63], [0x62]].map Val.str)) = .ok (.str m) ∧
    (∀ s ∈ [[0x61], [0x63], [0x62]], bytesLt m s = false) ∧ (∀ p ∈ pre, bytesLt p m = true) :=
  arrayMax_strings_spec (by simp)
example : arrayMax (.arr .plain [.num (.dec (.fin false 1 0)), .num (.dec (.fin false 25 (-1))), .num (.dec (.fin false 2 0))])
    = .ok (.num (.dec (.fin false 25 (-1)))) := rfl
example : arrayMax (.arr .plain [.bool true]) = .err [Cat.invalidType] := rfl
example : arrayMax (.arr .plain [.bool true]) = .err [Cat.invalidType] :=
  arrayMax_mixed_error (.inr ⟨(by rintro ⟨s, h⟩; cases h), .bool true, by simp, rfl⟩)
example : arrayMin (.arr .plain [sv 0x61, .null]) = .err [Cat.invalidType] := rfl
example : sortArray (.arr .plain [.bool true]) = .err [Cat.invalidType] := rfl
example : sortArray (.arr .plain [.bool true]) = .err [Cat.invalidType] :=
  sortArray_mixed_error (.inr ⟨(by rintro ⟨s, h⟩; cases h), .bool true, by simp, rfl⟩)
example : sortArray (.arr .plain [sv 0x61, iv 1]) = .err [Cat.invalidType] := rfl
example : sortArray (.arr .plain [iv 1, sv 0x61]) = .err [Cat.invalidType] := rfl
example : sortArray (.arr .enum [sv 0x62, sv 0x61, sv 0x63]) = .ok (.arr .plain [sv 0x61, sv 0x62, sv 0x63]) := by
  simp [sortArray, allStrings, sv, List.mergeSort, List.MergeSort.Internal.splitInTwo, bytesLt]
example : sortArray (.arr .plain ([[0x62], [0x61]].map Val.str)) =
    .ok (.arr .plain (([[0x62], [0x61]].mergeSort sle).map Val.str)) :=
  (sortArray_strings_spec (by simp)).1

example : sortArray (.arr .plain [.num (.dec (.fin false 25 (-1))), .num (.dec (.fin false 1 0)), .num (.dec (.fin false 2 0))])
    = .ok (.arr .plain [.num (.dec (.fin false 1 0)), .num (.dec (.fin false 2 0)), .num (.dec (.fin false 25 (-1)))]) := by
  have c1 : Dec.compare (.fin false 25 (-1)) (.fin false 1 0) = 1 := by decide
  have c2 : Dec.compare (.fin false 1 0) (.fin false 2 0) = -1 := by decide
  have c3 : Dec.compare (.fin false 25 (-1)) (.fin false 2 0) = 1 := by decide
  have c4 : Dec.compare (.fin false 2 0) (.fin false 25 (-1)) = -1 := by decide
  simp [sortArray, allDecimals, toDecimal, List.mergeSort, List.MergeSort.Internal.splitInTwo,
    hasAmbiguousTie, c1, c2, c3, c4]

/-! #### NaN: the scans of `max`/`min`/`max_by`/`min_by` never replace, and never pick, a NaN

  `Dec.greater`/`Dec.less` are false whenever a side is NaN, whereas the order used by `sort` (`Dec.compare`) puts
  NaN *below* every number. The theorems above therefore state "no element is `Greater` than the result", which is
  true with NaN too, and give "first such element" only for NaN-free input. With a NaN (reachable: the
  `json.Number` "nan", a `float64` NaN, a `decimal128` NaN) the result of `max` is *not* the greatest element under
  the order `sort` uses, and it depends on the position of the NaN: -/

def dnan : Val := .num (.dec .nan)
def d (c : Nat) : Val := .num (.dec (.fin false c 0))

example : arrayMax (.arr .plain [dnan, d 5]) = .ok dnan := rfl
example : arrayMax (.arr .plain [d 5, dnan]) = .ok (d 5) := rfl
example : arrayMin (.arr .plain [dnan, d 5]) = .ok dnan := rfl
example : arrayMin (.arr .plain [d 5, dnan]) = .ok (d 5) := rfl
example : arrayMaxBy idKey (.arr .plain [dnan, d 5]) = .ok dnan := rfl
/-- …while `sort` puts the NaN first (lowest) -/
example : sortArray (.arr .plain [d 5, dnan]) = .ok (.arr .plain [dnan, d 5]) := by
  have c1 : Dec.compare (.fin false 5 0) .nan = 1 := by decide
  have c2 : Dec.compare .nan (.fin false 5 0) = -1 := by decide
  simp [sortArray, allDecimals, toDecimal, List.mergeSort, List.MergeSort.Internal.splitInTwo,
    hasAmbiguousTie, d, dnan, c1, c2]
/-- the NaN at position 1 is "maximal" in the sense that no key is `Greater`, yet position 2 is returned: the
    "first such element" clause needs NaN-free keys -/
example : arrayMaxBy idKey (.arr .plain [d 1, dnan, d 3]) = .ok (d 3) := rfl

end Examples

/-! ### bytewise order = code point order -/

/-- For valid UTF-8 — the encoding of a list of scalar values — Go's `<` on strings (`bytesLt` on the bytes) is
    the lexicographic order of the code point sequences (`bytesLt` on a `List Nat` *is* the lexicographic order). -/
theorem bytesLt_codepoint_order (ra rb : List Nat)
    (ha : ∀ r ∈ ra, isScalar r = true) (hb : ∀ r ∈ rb, isScalar r = true) :
    bytesLt (encodeAll ra) (encodeAll rb) = bytesLt ra rb :=
  Jmes.bytesLt_codepoint_order ra rb ha hb

/-- U+00E9 (C3 A9) < U+4E2D (E4 B8 AD) < U+1F600 (F0 9F 98 80), and U+FFFF < U+10000 although UTF-16 would disagree -/
example : bytesLt (encodeAll [0xE9]) (encodeAll [0x4E2D]) = true ∧
    bytesLt (encodeAll [0x4E2D]) (encodeAll [0x1F600]) = true ∧
    bytesLt (encodeAll [0xFFFF]) (encodeAll [0x10000]) = true := by decide

end Jmes.C13
