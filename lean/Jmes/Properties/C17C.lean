/-
  C17 (third part) — closing the reviewer's gaps on "Equivalent ways of writing a query give the same answer".

    1. FOLLOWERS.  `C17B.rhs_extends_text` / `projection_then_projection_text` split a selector `.R` off a projection's
       right-hand side.  Here the same for EVERY form the grammar allows to continue a right-hand side (`Follower`,
       `Proofs/C17CLemmas.lean`): `[n]`, a nested projection `[*]σ`, `.*σ`, `[?c]σ`, `[a:b:c]σ`, `.[e,…]`, `.{k: e,…}`,
       `.[*]`, and `.R` again: `rhs_extends_follower_text`, `projection_then_follower_text` (`L⟨o⟩ρF` against
       `L⟨o⟩ρ | [*]F`), with the null condition discharged for every follower but `.R`
       (`projection_then_follower_strict`; `…_sel` for a selector-shaped `R`).  The follower attaches where the grammar
       puts it (`F.app ρ`, `F.Fits ρ`): `.bar[0]` is `.(bar[0])`, `.bar.*` is `(.bar).*`.  `[]` is not a follower: it
       closes the projection (`flatten_ends_text`).
    4. `AgreeS` (`Proofs/C17CLemmas.lean`): agreement that excludes panics and empty error reports; all identities of
       this file are stated with it, `unfused_text_strong` and the `…_node_strong` theorems restate the older ones.
       Two examples show that "both err or both nondet" and "never unmodelled" are NOT true of the model (Go reports
       an error for both spellings in both examples).
    5. The null condition is NECESSARY: `null_witness`, `null_strict_iff` (value level), `null_strict_iff_node`,
       `null_strict_iff_text` (for every document `d`: the instance `[[@]][*].a.R` / `[[@]][*].a | [*].R` of the
       identity holds on `d` iff `R` yields null on null there).
    2. `multiselect_text_n`, `multiselect_concat_text_n` (any number of members), `Spells` / `hash_select_text_q`
       (`{K: E}.K'` for bare, quoted and escaped spellings of the key, through `C16B.QEsc`), `hash_select_member`
       (any number of members, nodes).
    3. CONTEXT CLOSURE (`Proofs/C17CCongr.lean`: evaluation is compositional; `Proofs/C17CCtx.lean`: one-hole
       contexts, `fill`, `context_closure_text`): `follower_node`, `unfused_node` (any current value, any bindings) and
       the instances `closure_projection_follower`, `closure_projection_follower0` (leading projections),
       `closure_unfused`, `closure_dot_pipe`, `closure_paren_pipe`, `closure_hash_select`, `closure_flatten_pipe`.
-/
import Jmes.Proofs.C17CLemmas
import Jmes.Proofs.C17CCtx
import Jmes.Properties.C16B
import Jmes.Properties.C19
namespace Jmes.C17C
open Jmes Jmes.Parser Jmes.Pratt Jmes.Grammar Jmes.C17 Jmes.C17B
set_option linter.unusedSimpArgs false

/-! ## 1. Every follower of a right-hand side -/

/-- **the right-hand side extends over every follower**: `L⟨o⟩ρF`, for any of the five openers `o` and any follower
    `F` that fits after `ρ`, parses to ONE projection whose right-hand side is `ρ` followed by `F`; `search` evaluates
    `L` and runs the opener's loop with "`ρ`, then `F`" on each element. -/
theorem rhs_extends_follower_text (o : Opener) (F : Follower) {L ρ : PTree} (hL : WellPrec L) (hLr : o.lvl ≤ rlevel L)
    (ho : o.ok) (hρ : Rhs ρ) (hfit : F.Fits ρ) (hF : F.ok) {e : Bytes}
    (hl : Lexes e (Grammar.flatten L ++ o.toks ++ Grammar.flat true ρ ++ F.toks)) :
    Parser.parse e = .ok (o.node (erase L) (erase (F.app ρ))) ∧
    ∀ d, search e d =
      (evaluate (erase L) d >>= o.sem d [] (fun v => ieval d (erase ρ) v [] >>= F.fn d [])) := by
  have h := proj_text o hL hLr ho (F.rhs_app hρ hfit hF) (e := e)
    (hl.congr (by rw [F.flat_app hρ hfit]; simp only [List.append_assoc]))
  refine ⟨h.1, fun d => ?_⟩
  rw [h.2 d]
  have : (fun v => ieval d (erase (F.app ρ)) v []) = (fun v => ieval d (erase ρ) v [] >>= F.fn d []) :=
    funext fun v => F.ieval_app hρ hfit d v []
  rw [this]

/-- `[*]F` is an expression -/
theorem wp_star_follower (F : Follower) (hF : F.ok) : WellPrec (.star .icur (F.ext .icur)) := by
  have h := F.rhs_ext0 hF
  show Grammar.wp false (.star .icur (F.ext .icur)) = true
  rw [Grammar.wp]
  simp only [icur_isIcur, if_true, h.wp, Bool.true_and, Bool.or_eq_true, decide_eq_true_eq]
  exact Or.inr h.lvl

theorem erase_star_follower (F : Follower) : erase (.star .icur (F.ext .icur)) = .projectArrayCurrent (erase (F.ext .icur)) := by
  simp only [erase, GrammarF0.optNode_icur, GrammarF0.optNode_of_ne (F.ext_not_icur .icur), starNode]

/-- **`L⟨o⟩ρF` against `L⟨o⟩ρ | [*]F`** for all five openers and every follower: the second text parses to the pipe of
    the projection into `[*]F`; when `F` yields null on null (`F.NullOK`: true of every follower but `.R`, see
    `projection_then_follower_strict`) the two searches agree strongly: the same value, or both fail without panic.
    (For a slice opener: unless the slice is a string.) -/
theorem projection_then_follower_text (o : Opener) (F : Follower) {L ρ : PTree} (hL : WellPrec L) (hLr : o.lvl ≤ rlevel L)
    (ho : o.ok) (hρ : Rhs ρ) (hfit : F.Fits ρ) (hF : F.ok) {op : Token} (hop : op.type = .pipe) {e1 e2 : Bytes}
    (h1 : Lexes e1 (Grammar.flatten L ++ o.toks ++ Grammar.flat true ρ ++ F.toks))
    (h2 : Lexes e2 (Grammar.flatten L ++ o.toks ++ Grammar.flat true ρ ++ op :: tArrayStar :: F.toks)) :
    Parser.parse e1 = .ok (o.node (erase L) (erase (F.app ρ))) ∧
    Parser.parse e2 = .ok (.pipe (o.node (erase L) (erase ρ)) (.projectArrayCurrent (erase (F.ext .icur)))) ∧
    ∀ d, F.NullOK d [] → (∀ v, evaluate (erase L) d = .ok v → o.noStr v) → AgreeS (search e1 d) (search e2 d) := by
  have a := rhs_extends_follower_text o F hL hLr ho hρ hfit hF h1
  have b := pipe_ends_text o hL hLr ho hρ hop (wp_star_follower F hF) (by decide : lvlPipe < top) (e := e2) (h2.congr rfl)
  rw [erase_star_follower] at b
  refine ⟨a.1, b.1, fun d h0 hs => agreeS_search a.1 b.1 ?_⟩
  rw [a.2 d, b.2 d, projVal, Res.bind_assoc]
  cases hv : evaluate (erase L) d with
  | ok v =>
    simp only [Res.ok_bind]
    have : (fun arr => ieval d (.projectArrayCurrent (erase (F.ext .icur))) arr []) =
        projectArray (fun y => ieval d (erase (F.ext .icur)) y []) := funext fun arr => by rw [ieval]
    rw [this]
    exact sem_comp' o d [] _ (F.fn d []) _ h0 (fun y hy => F.ieval_ext0 d [] hy) v (hs v hv)
  | _ => exact Or.inr ⟨rfl, rfl⟩

/-- … with the null condition discharged: **for `[n]`, `[*]σ`, `.*σ`, `[?c]σ`, `[a:b:c]σ`, `.[e,…]`, `.{k: e,…}`,
    `.[*]` the identity holds on every document** (for a slice opener `o`: where the slice is not a string) -/
theorem projection_then_follower_strict (o : Opener) (F : Follower) (hsel : ∀ R, F ≠ .sel R) {L ρ : PTree}
    (hL : WellPrec L) (hLr : o.lvl ≤ rlevel L)
    (ho : o.ok) (hρ : Rhs ρ) (hfit : F.Fits ρ) (hF : F.ok) {op : Token} (hop : op.type = .pipe) {e1 e2 : Bytes}
    (h1 : Lexes e1 (Grammar.flatten L ++ o.toks ++ Grammar.flat true ρ ++ F.toks))
    (h2 : Lexes e2 (Grammar.flatten L ++ o.toks ++ Grammar.flat true ρ ++ op :: tArrayStar :: F.toks))
    (d : Val) (hs : ∀ v, evaluate (erase L) d = .ok v → o.noStr v) : AgreeS (search e1 d) (search e2 d) :=
  (projection_then_follower_text o F hL hLr ho hρ hfit hF hop h1 h2).2.2 d (F.nullOK_of_not_sel hsel d []) hs

/-- … and for `.R` with a selector-shaped `R` (the case of `C17B.projection_then_projection_sel`, now strong) -/
theorem projection_then_follower_sel (o : Opener) {L ρ R : PTree} (hL : WellPrec L) (hLr : o.lvl ≤ rlevel L)
    (ho : o.ok) (hρ : Rhs ρ) (hρr : lvlDot ≤ rlevel ρ) (hR : Sel R) (hRs : SelTree R) {op : Token} (hop : op.type = .pipe)
    {e1 e2 : Bytes}
    (h1 : Lexes e1 (Grammar.flatten L ++ o.toks ++ Grammar.flat true ρ ++ tDot :: Grammar.flatten R))
    (h2 : Lexes e2 (Grammar.flatten L ++ o.toks ++ Grammar.flat true ρ ++ op :: tArrayStar :: tDot :: Grammar.flatten R))
    (d : Val) (hs : ∀ v, evaluate (erase L) d = .ok v → o.noStr v) : AgreeS (search e1 d) (search e2 d) :=
  (projection_then_follower_text o (.sel R) hL hLr ho hρ (Or.inl hρr) hR hop (h1.congr rfl) (h2.congr rfl)).2.2 d
    ((Follower.nullOK_sel R d []).2 (selector_null (erase_selector hRs) _ _)) hs

section Examples
open Grammar.Ex
private theorem selI (s : String) (h : Sel (idt s) := by exact ⟨by decide, by decide, by decide⟩) : Sel (idt s) := h
private def rbar : PTree := .dotId .icur (idt "bar")
private theorem rbar_rhs : Rhs rbar := rhs_dot1 (selI "bar")
private theorem notSel {F : Follower} (h : ∀ R, F ≠ .sel R := by intro _ h; cases h) : ∀ R, F ≠ .sel R := h

/-- `foo[*].bar[0]`: ONE projection over "bar, then [0]" (the index attaches to `bar`) … -/
example : Parser.parse (bs "foo[*].bar[0]") = .ok (.projectArray (.field (bs "foo")) (.index (.field (bs "bar")) 0)) :=
  (rhs_extends_follower_text .star (.index (int "0")) (L := idt "foo") (ρ := rbar) (by decide) (by decide) trivial
    rbar_rhs (Or.inr ⟨_, _, rfl, by decide, by decide⟩) (by show isIntTok _ = true; decide) (by decide)).1
/-- … which agrees with `foo[*].bar | [*][0]` on every document -/
example : ∀ d, AgreeS (search (bs "foo[*].bar[0]") d) (search (bs "foo[*].bar | [*][0]") d) := fun d =>
  projection_then_follower_strict .star (.index (int "0")) notSel (L := idt "foo") (ρ := rbar) (op := op .pipe "|")
    (by decide) (by decide) trivial rbar_rhs (Or.inr ⟨_, _, rfl, by decide, by decide⟩)
    (by show isIntTok _ = true; decide) rfl (by decide) (by decide) d (fun _ _ => trivial)
/-- `foo[*][0][1]` / `foo[*][0] | [*][1]`: the second index applies to the whole right-hand side `[0]` -/
example : ∀ d, AgreeS (search (bs "foo[*][0][1]") d) (search (bs "foo[*][0] | [*][1]") d) := fun d =>
  projection_then_follower_strict .star (.index (int "1")) notSel (L := idt "foo") (ρ := .index .icur (int "0"))
    (op := op .pipe "|") (by decide) (by decide) trivial ⟨by decide, by decide⟩ (Or.inl (by decide))
    (by show isIntTok _ = true; decide) rfl (by decide) (by decide) d (fun _ _ => trivial)
/-- a nested projection: `foo[*].bar[*].c` / `foo[*].bar | [*][*].c` -/
example : ∀ d, AgreeS (search (bs "foo[*].bar[*].c") d) (search (bs "foo[*].bar | [*][*].c") d) := fun d =>
  projection_then_follower_strict .star (.proj .star (.dotId .icur (idt "c"))) notSel (L := idt "foo") (ρ := rbar)
    (op := op .pipe "|") (by decide) (by decide) trivial rbar_rhs (Or.inr ⟨_, _, rfl, by decide, by decide⟩)
    ⟨by decide, trivial, Or.inr (rhs_dot1 (selI "c"))⟩ rfl (by decide) (by decide) d (fun _ _ => trivial)
/-- the object wildcard: `foo[*].bar.*` / `foo[*].bar | [*].*` -/
example : ∀ d, AgreeS (search (bs "foo[*].bar.*") d) (search (bs "foo[*].bar | [*].*") d) := fun d =>
  projection_then_follower_strict .star (.proj .ostar .icur) notSel (L := idt "foo") (ρ := rbar)
    (op := op .pipe "|") (by decide) (by decide) trivial rbar_rhs (Or.inl (by decide))
    ⟨by decide, trivial, Or.inl rfl⟩ rfl (by decide) (by decide) d (fun _ _ => trivial)
/-- a filter: `foo[*].bar[?c]` / `foo[*].bar | [*][?c]` -/
example : ∀ d, AgreeS (search (bs "foo[*].bar[?c]") d) (search (bs "foo[*].bar | [*][?c]") d) := fun d =>
  projection_then_follower_strict .star (.proj (.filt (idt "c")) .icur) notSel (L := idt "foo") (ρ := rbar)
    (op := op .pipe "|") (by decide) (by decide) trivial rbar_rhs (Or.inl (by decide))
    ⟨by decide, (by show WellPrec _; decide), Or.inl rfl⟩ rfl (by decide) (by decide) d (fun _ _ => trivial)
/-- a slice: `foo[*].bar[0:2]` / `foo[*].bar | [*][0:2]` -/
example : ∀ d, AgreeS (search (bs "foo[*].bar[0:2]") d) (search (bs "foo[*].bar | [*][0:2]") d) := fun d =>
  projection_then_follower_strict .star (.proj (.slice (some (int "0")) (some (int "2")) none) .icur) notSel
    (L := idt "foo") (ρ := rbar) (op := op .pipe "|") (by decide) (by decide) trivial rbar_rhs
    (Or.inr ⟨_, _, rfl, by decide, by decide⟩)
    ⟨by decide, (by show sliceOK _ _ _ = true; decide), Or.inl rfl⟩ rfl (by decide) (by decide) d (fun _ _ => trivial)
/-- multi-selects: `foo[*].bar.[a, b]`, the one-member `foo[*].bar.[a]` (not null-strict without its left operand —
    the piped `[*]` never shows it a null), `foo[*].bar.{k: a}`, `foo[*].bar.[*]` -/
example : ∀ d, AgreeS (search (bs "foo[*].bar.[a, b]") d) (search (bs "foo[*].bar | [*].[a, b]") d) := fun d =>
  projection_then_follower_strict .star (.dotList [idt "a", idt "b"]) notSel (L := idt "foo") (ρ := rbar)
    (op := op .pipe "|") (by decide) (by decide) trivial rbar_rhs (Or.inl (by decide))
    ⟨by simp, by decide⟩ rfl (by decide) (by decide) d (fun _ _ => trivial)
example : ∀ d, AgreeS (search (bs "foo[*].bar.[a]") d) (search (bs "foo[*].bar | [*].[a]") d) := fun d =>
  projection_then_follower_strict .star (.dotList [idt "a"]) notSel (L := idt "foo") (ρ := rbar)
    (op := op .pipe "|") (by decide) (by decide) trivial rbar_rhs (Or.inl (by decide))
    ⟨by simp, by decide⟩ rfl (by decide) (by decide) d (fun _ _ => trivial)
example : ∀ d, AgreeS (search (bs "foo[*].bar.{k: a}") d) (search (bs "foo[*].bar | [*].{k: a}") d) := fun d =>
  projection_then_follower_strict .star (.dotHash [(⟨.unquotedIdentifier, bs "k"⟩, idt "a")]) notSel (L := idt "foo")
    (ρ := rbar) (op := op .pipe "|") (by decide) (by decide) trivial rbar_rhs (Or.inl (by decide))
    ⟨by simp, by decide⟩ rfl (by decide) (by decide) d (fun _ _ => trivial)
example : ∀ d, AgreeS (search (bs "foo[*].bar.[*]") d) (search (bs "foo[*].bar | [*].[*]") d) := fun d =>
  projection_then_follower_strict .star .dotStarList notSel (L := idt "foo") (ρ := rbar)
    (op := op .pipe "|") (by decide) (by decide) trivial rbar_rhs (Or.inl (by decide))
    trivial rfl (by decide) (by decide) d (fun _ _ => trivial)
/-- the other openers: `foo.*.bar[0]`, `foo[].bar[0]`, `foo[?c].bar[0]` -/
example : ∀ d, AgreeS (search (bs "foo.*.bar[0]") d) (search (bs "foo.*.bar | [*][0]") d) := fun d =>
  projection_then_follower_strict .ostar (.index (int "0")) notSel (L := idt "foo") (ρ := rbar) (op := op .pipe "|")
    (by decide) (by decide) trivial rbar_rhs (Or.inr ⟨_, _, rfl, by decide, by decide⟩)
    (by show isIntTok _ = true; decide) rfl (by decide) (by decide) d (fun _ _ => trivial)
example : ∀ d, AgreeS (search (bs "foo[].bar[0]") d) (search (bs "foo[].bar | [*][0]") d) := fun d =>
  projection_then_follower_strict .flat (.index (int "0")) notSel (L := idt "foo") (ρ := rbar) (op := op .pipe "|")
    (by decide) (by decide) trivial rbar_rhs (Or.inr ⟨_, _, rfl, by decide, by decide⟩)
    (by show isIntTok _ = true; decide) rfl (by decide) (by decide) d (fun _ _ => trivial)
example : ∀ d, AgreeS (search (bs "foo[?c].bar[0]") d) (search (bs "foo[?c].bar | [*][0]") d) := fun d =>
  projection_then_follower_strict (.filt (idt "c")) (.index (int "0")) notSel (L := idt "foo") (ρ := rbar)
    (op := op .pipe "|") (by decide) (by decide) (by show WellPrec _; decide) rbar_rhs
    (Or.inr ⟨_, _, rfl, by decide, by decide⟩)
    (by show isIntTok _ = true; decide) rfl (by decide) (by decide) d (fun _ _ => trivial)
/-- a value: on `{"foo": [{"bar": [1, 2]}, {"bar": null}, {"bar": [3]}]}` both spellings give `[1, 3]` -/
private def one : Val := .num (.jnum (bs "1"))
private def two : Val := .num (.jnum (bs "2"))
private def three : Val := .num (.jnum (bs "3"))
private def doc : Val :=
  .obj [(bs "foo", .arr .plain [.obj [(bs "bar", .arr .plain [one, two])], .obj [(bs "bar", .null)],
    .obj [(bs "bar", .arr .plain [three])]])]
example : search (bs "foo[*].bar[0]") doc = .ok (.arr .plain [one, three]) ∧
    search (bs "foo[*].bar | [*][0]") doc = .ok (.arr .plain [one, three]) := by
  have h := rhs_extends_follower_text .star (.index (int "0")) (L := idt "foo") (ρ := rbar) (e := bs "foo[*].bar[0]")
    (by decide) (by decide) trivial rbar_rhs (Or.inr ⟨_, _, rfl, by decide, by decide⟩)
    (by show isIntTok _ = true; decide) (by decide)
  have h2 := projection_then_follower_text .star (.index (int "0")) (L := idt "foo") (ρ := rbar) (op := op .pipe "|")
    (e1 := bs "foo[*].bar[0]") (e2 := bs "foo[*].bar | [*][0]")
    (by decide) (by decide) trivial rbar_rhs (Or.inr ⟨_, _, rfl, by decide, by decide⟩)
    (by show isIntTok _ = true; decide) rfl (by decide) (by decide)
  refine ⟨?_, ?_⟩
  · rw [C17B.search_of_parse h.1]; rfl
  · rw [C17B.search_of_parse h2.2.1]; rfl
end Examples

/-! ### `[]` is not a follower: it closes the projection -/

/-- **`L⟨o⟩ρ[]`**: the flatten operator (`lvlFlatten < lvlProj`) is not absorbed by the right-hand side; it is applied
    to the projected array — exactly as in `L⟨o⟩ρ | []` -/
theorem flatten_ends_text (o : Opener) {L ρ : PTree} (hL : WellPrec L) (hLr : o.lvl ≤ rlevel L) (ho : o.ok) (hρ : Rhs ρ)
    {op : Token} (hop : op.type = .pipe) {e1 e2 : Bytes}
    (h1 : Lexes e1 (Grammar.flatten L ++ o.toks ++ Grammar.flat true ρ ++ [tFlatten]))
    (h2 : Lexes e2 (Grammar.flatten L ++ o.toks ++ Grammar.flat true ρ ++ [op, tFlatten])) :
    Parser.parse e1 = .ok (.flatten (o.node (erase L) (erase ρ))) ∧
    Parser.parse e2 = .ok (.pipe (o.node (erase L) (erase ρ)) .flattenCurrent) ∧
    ∀ d, search e1 d = (projVal o L ρ d >>= fun arr => .ok (Jmes.flatten arr)) ∧ search e1 d = search e2 d := by
  have hi := C17B.not_icur (b := false) hL
  have hw : WellPrec (o.mk L ρ) := Opener.wp_mk (b := false) hL hLr ho hρ
  have a := proj_text0 .flat hw (by rw [Opener.rlevel_mk]; decide) trivial (e := e1) (h1.congr (by
    show _ = Grammar.flat false (o.mk L ρ) ++ _
    rw [Opener.flat_mk o false hi]; rfl))
  rw [Opener.erase_mk o hi hρ.not_icur] at a
  have hC : WellPrec (.flat .icur .icur) := by decide
  have b := pipe_ends_text o hL hLr ho hρ hop hC (by decide : lvlPipe < top) (e := e2) (h2.congr rfl)
  have he : erase (.flat .icur .icur) = .flattenCurrent := rfl
  rw [he] at b
  refine ⟨a.1, b.1, fun d => ?_⟩
  have h1' : search e1 d = (projVal o L ρ d >>= fun arr => .ok (Jmes.flatten arr)) := by
    rw [a.2 d, ← evaluate_node]; rfl
  refine ⟨h1', ?_⟩
  rw [h1', b.2 d]
  exact Res.bind_congr fun arr => by rw [ieval]

section Examples
open Grammar.Ex
/-- `foo[*].bar[]` is `(foo[*].bar)[]`, the same query as `foo[*].bar | []` -/
example : Parser.parse (bs "foo[*].bar[]") = .ok (.flatten (.projectArray (.field (bs "foo")) (.field (bs "bar")))) ∧
    ∀ d, search (bs "foo[*].bar[]") d = search (bs "foo[*].bar | []") d :=
  have h := flatten_ends_text .star (L := idt "foo") (ρ := rbar) (op := op .pipe "|") (e1 := bs "foo[*].bar[]")
    (e2 := bs "foo[*].bar | []") (by decide) (by decide) trivial rbar_rhs rfl (by decide) (by decide)
  ⟨h.1, fun d => (h.2.2 d).2⟩
end Examples


/-! ## 4. Strong agreement for the other projection identities, and what cannot be strengthened -/

/-- **`L⟨o⟩ρ` against `L⟨o⟩ | [*]ρ`** (`C17B.unfused_text`), strongly: the same value, or both fail without panic -/
theorem unfused_text_strong (o : Opener) {L ρ : PTree} (hL : WellPrec L) (hLr : o.lvl ≤ rlevel L) (ho : o.ok) (hρ : Rhs ρ)
    {op : Token} (hop : op.type = .pipe) {e1 e2 : Bytes}
    (h1 : Lexes e1 (Grammar.flatten L ++ o.toks ++ Grammar.flat true ρ))
    (h2 : Lexes e2 (Grammar.flatten L ++ o.toks ++ op :: tArrayStar :: Grammar.flat true ρ))
    (d : Val) (h0 : ieval d (erase ρ) .null [] = .ok .null) (hs : ∀ v, evaluate (erase L) d = .ok v → o.noStr v) :
    AgreeS (search e1 d) (search e2 d) :=
  have h := unfused_text o hL hLr ho hρ hop h1 h2
  agreeS_search h.1 h.2.1 (h.2.2 d h0 hs)

/-- the node-level identities of `C17`, strongly -/
theorem projection_then_selector_node_strong (root : Val) (l r1 r2 : INode) (cur : Val) (env : Env)
    (h0 : ieval root r2 .null env = Res.ok .null) (hs : l.isSlice = false) :
    AgreeS (ieval root (.projectArray l (.pipe r1 r2)) cur env)
      (ieval root (.pipe (.projectArray l r1) (.projectArrayCurrent r2)) cur env) :=
  agreeS_ieval (projection_then_selector_node root l r1 r2 cur env h0 hs)

theorem filter_then_project_node_strong (root : Val) (l c r : INode) (cur : Val) (env : Env)
    (h0 : ieval root r .null env = Res.ok .null) :
    AgreeS (ieval root (.filterAndProject l c r) cur env)
      (ieval root (.pipe (.filter l c) (.projectArrayCurrent r)) cur env) :=
  agreeS_ieval (filter_then_project_node root l c r cur env h0)

theorem flatten_then_project_node_strong (root : Val) (l r : INode) (cur : Val) (env : Env)
    (h0 : ieval root r .null env = Res.ok .null) :
    AgreeS (ieval root (.flattenAndProject l r) cur env)
      (ieval root (.pipe (.flatten l) (.projectArrayCurrent r)) cur env) :=
  agreeS_ieval (flatten_then_project_node root l r cur env h0)

section Examples
open Grammar.Ex
example : ∀ d, AgreeS (search (bs "foo[?c].bar") d) (search (bs "foo[?c] | [*].bar") d) := fun d =>
  unfused_text_strong (.filt (idt "c")) (L := idt "foo") (ρ := rbar) (op := op .pipe "|") (by decide)
    (by decide) (by show WellPrec _; decide) rbar_rhs rfl (by decide) (by decide) d rfl (fun _ _ => trivial)

/-! "Both err, or both nondet" is NOT true of the model.  `nondet` is the model's answer whenever an outcome may depend
    on Go's map order; it is an over-approximation, and the two spellings meet it differently. -/

private def docND : Val :=
  .obj [(bs "foo", .obj [(bs "p", .obj [(bs "u", one), (bs "v", two)]), (bs "q", one)])]

/-- `foo.*.values(@)[0]` against `foo.*.values(@) | [*][0]` on `{"foo": {"p": {"u": 1, "v": 2}, "q": 1}}`: fused, the
    member `p` yields `values(p)[0]` — order dependent, `nondet` — before `q` is looked at; piped, the first loop fails on
    `q` (`values(1)`: invalid type) and every member's outcome is settled, so the model reports the error.  (Go reports
    invalid-type for both spellings under every order.)  The identity holds strongly — and not more. -/
example : search (bs "foo.*.values(@)[0]") docND = .nondet ∧
    search (bs "foo.*.values(@) | [*][0]") docND = .err [Cat.invalidType] ∧
    AgreeS (search (bs "foo.*.values(@)[0]") docND) (search (bs "foo.*.values(@) | [*][0]") docND) := by
  have hcall : Sel (.call ⟨.unquotedIdentifier, bs "values"⟩ [.atom ⟨.current, bs "@"⟩]) :=
    ⟨by decide +kernel, by decide, by decide⟩
  have h := projection_then_follower_text .ostar (.index (int "0")) (L := idt "foo")
    (ρ := .dotId .icur (.call ⟨.unquotedIdentifier, bs "values"⟩ [.atom ⟨.current, bs "@"⟩])) (op := op .pipe "|")
    (e1 := bs "foo.*.values(@)[0]") (e2 := bs "foo.*.values(@) | [*][0]")
    (by decide) (by decide) trivial (rhs_dot1 hcall) (Or.inr ⟨_, _, rfl, by decide, by decide⟩)
    (by show isIntTok _ = true; decide) rfl (by decide +kernel) (by decide +kernel)
  refine ⟨?_, ?_, h.2.2 docND (Follower.nullOK_of_not_sel _ notSel _ _) (fun _ _ => trivial)⟩
  · rw [C17B.search_of_parse h.1]; rfl
  · rw [C17B.search_of_parse h.2.1]; rfl

private def docUM : Val := .obj [(bs "foo", .arr .plain [.arr .plain [.str [0xC4, 0x80]], .bool true])]

/-- likewise "never unmodelled on either side" fails: `foo[*].reverse(@)[*].upper(@)` against
    `foo[*].reverse(@) | [*][*].upper(@)` on `{"foo": [["Ā"], true]}`: fused, `upper("Ā")` is outside the alphabets
    the model covers (`unmodelled`) and comes before `reverse(true)`; piped, the first loop fails on `reverse(true)`. -/
example : search (bs "foo[*].reverse(@)[*].upper(@)") docUM = .unmodelled "case mapping outside the modelled alphabets" ∧
    search (bs "foo[*].reverse(@) | [*][*].upper(@)") docUM = .err [Cat.invalidType] := by
  have hrev : Sel (.call ⟨.unquotedIdentifier, bs "reverse"⟩ [.atom ⟨.current, bs "@"⟩]) :=
    ⟨by decide +kernel, by decide, by decide⟩
  have hup : Sel (.call ⟨.unquotedIdentifier, bs "upper"⟩ [.atom ⟨.current, bs "@"⟩]) :=
    ⟨by decide +kernel, by decide, by decide⟩
  have h := projection_then_follower_text .star
    (.proj .star (.dotId .icur (.call ⟨.unquotedIdentifier, bs "upper"⟩ [.atom ⟨.current, bs "@"⟩]))) (L := idt "foo")
    (ρ := .dotId .icur (.call ⟨.unquotedIdentifier, bs "reverse"⟩ [.atom ⟨.current, bs "@"⟩])) (op := op .pipe "|")
    (e1 := bs "foo[*].reverse(@)[*].upper(@)") (e2 := bs "foo[*].reverse(@) | [*][*].upper(@)")
    (by decide) (by decide) trivial (rhs_dot1 hrev) (Or.inr ⟨_, _, rfl, by decide, by decide⟩)
    ⟨by decide, trivial, Or.inr (rhs_dot1 hup)⟩ rfl (by decide +kernel) (by decide +kernel)
  refine ⟨?_, ?_⟩
  · rw [C17B.search_of_parse h.1]; rfl
  · rw [C17B.search_of_parse h.2.1]; rfl
end Examples

/-! ## 5. The null condition is necessary -/

/-- the witness: one element `x` that `f1` maps to null tells the two spellings apart unless `f2` maps null to null -/
theorem null_witness (f1 f2 : Val → Res Val) (x : Val) (hx : f1 x = .ok .null)
    (h : Agree (projectArray (fun v => f1 v >>= f2) (.arr .plain [x])) (projectArray f1 (.arr .plain [x]) >>= projectArray f2)) :
    f2 .null = .ok .null := by
  simp only [projectArray, mapPrune, hx, Res.ok_bind, Res.pure_eq, show Val.null.isNull = true from rfl, if_true,
    C17.widen_ok] at h
  cases hf : f2 .null with
  | ok p =>
    rw [hf] at h
    simp only [Res.ok_bind, C17.widen_ok] at h
    cases hp : p.isNull
    · rw [hp] at h
      rcases h with ⟨b, hb1, hb2⟩ | ⟨hb, _⟩
      · simp only [Bool.false_eq_true, if_false, Res.ok.injEq] at hb1 hb2
        rw [← hb2] at hb1
        simp only [ATag.derived, Val.arr.injEq, true_and] at hb1
        cases hb1
      · cases hb
    · rw [isNull_eq hp]
  | err cs => rw [hf] at h; rcases h with ⟨b, hb1, _⟩ | ⟨_, hb⟩
              · cases hb1
              · cases hb
  | panic w => rw [hf] at h; rcases h with ⟨b, hb1, _⟩ | ⟨_, hb⟩
               · cases hb1
               · cases hb
  | nondet => rw [hf] at h; rcases h with ⟨b, hb1, _⟩ | ⟨_, hb⟩
              · cases hb1
              · cases hb
  | unmodelled w => rw [hf] at h; rcases h with ⟨b, hb1, _⟩ | ⟨_, hb⟩
                    · cases hb1
                    · cases hb

/-- **value level, iff**: "`[*]` over `f1 then f2` agrees with `[*]` over `f1` piped into `[*]` over `f2`, for every
    `f1` and every input" holds exactly when `f2` maps null to null.  (If it does not, the input `[null]` with the
    identity `f1` tells the two apart: piped, the null is dropped before `f2` sees it.) -/
theorem null_strict_iff (f2 : Val → Res Val) :
    (∀ (f1 : Val → Res Val) (a : Val),
        Agree (projectArray (fun v => f1 v >>= f2) a) (projectArray f1 a >>= projectArray f2))
      ↔ f2 .null = .ok .null :=
  ⟨fun h => null_witness (fun v => .ok v) f2 .null rfl (h _ _), fun h0 f1 a => projectArray_comp f1 f2 h0 a⟩

/-- a selector that is not null-strict, and the input that shows it: `[*].@.to_array(@)`-like — the literal `true` -/
example : ¬ ∀ (f1 : Val → Res Val) (a : Val),
    Agree (projectArray (fun v => f1 v >>= fun _ => Res.ok (.bool true)) a)
      (projectArray f1 a >>= projectArray (fun _ => Res.ok (.bool true))) :=
  fun h => by have := (null_strict_iff _).1 h; cases this

/-- **node level, iff**: for a node `r2`, "`l[*].r1.r2` agrees with `l[*].r1 | [*].r2` for all `l`, `r1` and current
    values" holds exactly when `r2` yields null on null -/
theorem null_strict_iff_node (root : Val) (env : Env) (r2 : INode) :
    (∀ (l r1 : INode) (cur : Val), l.isSlice = false →
        Agree (ieval root (.projectArray l (.pipe r1 r2)) cur env)
          (ieval root (.pipe (.projectArray l r1) (.projectArrayCurrent r2)) cur env))
      ↔ ieval root r2 .null env = .ok .null := by
  constructor
  · intro h
    have h1 := h (.lit (.arr .plain [.null])) .current .null rfl
    apply null_witness (fun v => .ok v) (fun y => ieval root r2 y env) .null rfl
    have e1 : ieval root (.projectArray (.lit (.arr .plain [.null])) (.pipe .current r2)) .null env =
        projectArray (fun v => (Res.ok v : Res Val) >>= fun y => ieval root r2 y env) (.arr .plain [.null]) := by
      simp only [ieval, Res.ok_bind]
    have e2 : ieval root (.pipe (.projectArray (.lit (.arr .plain [.null])) .current) (.projectArrayCurrent r2)) .null env =
        (projectArray (fun v => Res.ok v) (.arr .plain [.null]) >>= projectArray (fun y => ieval root r2 y env)) := by
      simp only [ieval, Res.ok_bind]
    rw [e1, e2] at h1
    exact h1
  · intro h0 l r1 cur hs
    exact projection_then_selector_node root l r1 r2 cur env h0 hs

/-- `[[@]]`: on every document `d` the array `[[d]]`, whose one element is an array — so `.a` of it is null -/
def probeL : PTree := .multiList [.multiList [atCur]]
/-- the identifier `a` -/
def probeA : Token := ⟨.unquotedIdentifier, [0x61]⟩

theorem evaluate_probeL (d : Val) : evaluate (erase probeL) d = .ok (.arr .plain [.arr .plain [d]]) := rfl

/-- **on text, per document, iff**: the instance `[[@]][*].a.R` / `[[@]][*].a | [*].R` of the identity — whose
    projected element `[d]` has no member `a` — holds on the document `d` exactly when `R` yields null on null
    there.  Hence: the identity "projection`.R` = projection ` | [*].R`" holds for all sub-expressions and documents
    iff `R` is null-strict; if `R(null) ≠ null` on some document, this instance differs on that very document. -/
theorem null_strict_iff_text {R : PTree} (hR : Sel R) {op : Token} (hop : op.type = .pipe) {e1 e2 : Bytes}
    (h1 : Lexes e1 (Grammar.flatten probeL ++ [tArrayStar] ++ tDot :: probeA :: tDot :: Grammar.flatten R))
    (h2 : Lexes e2 (Grammar.flatten probeL ++ [tArrayStar] ++ tDot :: probeA :: op :: tArrayStar :: tDot :: Grammar.flatten R))
    (d : Val) :
    Agree (search e1 d) (search e2 d) ↔ ieval d (erase R) .null [] = .ok .null := by
  have hA : Sel (.atom probeA) := ⟨by decide, by decide, by decide⟩
  have hρ : Rhs (.dotId .icur (.atom probeA)) := rhs_dot1 hA
  have h := projection_then_projection_text .star (L := probeL) (ρ := .dotId .icur (.atom probeA)) (R := R)
    (by decide) (by decide) trivial hρ (by decide) hR hop (e1 := e1) (e2 := e2) (h1.congr rfl) (h2.congr rfl)
  constructor
  · intro hag
    have a := rhs_extends_text .star (L := probeL) (ρ := .dotId .icur (.atom probeA)) (R := R)
      (by decide) (by decide) trivial hρ (by decide) hR (e := e1) (h1.congr rfl)
    have b := pipe_ends_text .star (L := probeL) (ρ := .dotId .icur (.atom probeA))
      (C := .star .icur (.dotId .icur R)) (by decide) (by decide) trivial hρ hop
      (wp_star_follower (.sel R) hR) (by decide : lvlPipe < top) (e := e2) (h2.congr rfl)
    rw [a.2 d, b.2 d, projVal, evaluate_probeL] at hag
    simp only [Res.ok_bind] at hag
    apply null_witness (fun v => ieval d (erase (.dotId .icur (.atom probeA))) v []) (fun y => ieval d (erase R) y [])
      (.arr .plain [d]) rfl
    have : (fun arr => ieval d (erase (.star .icur (.dotId .icur R))) arr []) =
        projectArray (fun y => ieval d (erase R) y []) := funext fun arr => by
      rw [show erase (.star .icur (.dotId .icur R)) = .projectArrayCurrent (erase R) from erase_star_follower (.sel R), ieval]
    rw [this] at hag
    exact hag
  · intro h0
    exact h.2.2 d h0 (fun _ _ => trivial)

section Examples
open Grammar.Ex
/-- `R = b` is null-strict: the probe instance holds on every document … -/
example : ∀ d, Agree (search (bs "[[@]][*].a.b") d) (search (bs "[[@]][*].a | [*].b") d) := fun d =>
  (null_strict_iff_text (R := idt "b") (selI "b") (op := op .pipe "|") rfl (by decide) (by decide) d).2 rfl
/-- … `R = to_array(@)` is not (`to_array(null)` is `[null]`): the probe instance fails on EVERY document -/
example : ∀ d, ¬ Agree (search (bs "[[@]][*].a.to_array(@)") d) (search (bs "[[@]][*].a | [*].to_array(@)") d) := fun d h => by
  have := (null_strict_iff_text (R := .call ⟨.unquotedIdentifier, bs "to_array"⟩ [.atom ⟨.current, bs "@"⟩])
    ⟨by decide +kernel, by decide, by decide⟩ (op := op .pipe "|") rfl (by decide +kernel) (by decide +kernel) d).1 h
  cases this
end Examples

/-! ## 2. Multi-selects with any number of members; keys in any spelling -/

/-- concatenate the outcomes of the single selections, left to right (the first failure wins) -/
def concatAll : List (Res Val) → Res Val
  | [] => .ok (.arr .plain [])
  | r :: rs => r >>= fun a => concatAll rs >>= fun b => .ok (arrConcat a b)

example : concatAll [.ok (.arr .plain [.bool true]), .ok (.arr .plain [.null])] = .ok (.arr .plain [.bool true, .null]) := rfl
example : concatAll [.ok (.arr .plain [.bool true]), .err [Cat.invalidType], .nondet] = .err [Cat.invalidType] := rfl

theorem wpL_of_mem : ∀ {es : List PTree}, (∀ E ∈ es, WellPrec E) → wpL es = true
  | [], _ => rfl
  | E :: es, h => by
    have h1 : Grammar.wp false E = true := h E List.mem_cons_self
    simp only [wpL, h1, wpL_of_mem (es := es) (fun E' hE' => h E' (List.mem_cons_of_mem _ hE')), Bool.and_self]

/-- **`[E1, …, En]` on text**, any `n ≥ 1`: null on the null document (for `n ≥ 2`), else the list of the members'
    values, left to right, the first failure winning -/
theorem multiselect_text_n {es : List PTree} (hne : es ≠ []) (hes : ∀ E ∈ es, WellPrec E) {e : Bytes}
    (hl : Lexes e (tLBracket :: flatSep es ++ [tRBracket])) :
    Parser.parse e = .ok (listNode none (eraseL es)) ∧
    ∀ d, d.isNull = false → search e d = (ievalList d (eraseL es) d [] >>= fun vs => .ok (.arr .plain vs)) := by
  have hw : WellPrec (.multiList es) := by
    show Grammar.wp false (.multiList es) = true
    cases es with
    | nil => exact absurd rfl hne
    | cons E es' =>
      simp only [Grammar.wp, List.isEmpty_cons, Bool.not_false, Bool.true_and, wpL_of_mem hes]
  obtain ⟨hp, hs⟩ := text hw (hl.congr rfl)
  refine ⟨hp, fun d hd => ?_⟩
  rw [hs d, evaluate_eq]
  show ieval d (listNode none (eraseL es)) d [] = _
  rw [ieval_listNode_none d _ hd, selectArrayCurrent_list _ _ _ _ hd]

/-- **"on a non-null current node `[e1, …, en]` equals the concatenation of the single selections `[ei]`"**, on text,
    for ANY number of members and for every outcome.  `ps` lists the members with the text of their single selection. -/
theorem multiselect_concat_text_n {ps : List (PTree × Bytes)} (hne : ps ≠ [])
    (hps : ∀ p ∈ ps, WellPrec p.1 ∧ Lexes p.2 (tLBracket :: Grammar.flatten p.1 ++ [tRBracket])) {e : Bytes}
    (hl : Lexes e (tLBracket :: flatSep (ps.map Prod.fst) ++ [tRBracket])) (d : Val) (hd : d.isNull = false) :
    search e d = concatAll (ps.map fun p => search p.2 d) := by
  have hne' : ps.map Prod.fst ≠ [] := by
    cases ps with
    | nil => exact absurd rfl hne
    | cons _ _ => simp
  have hes : ∀ E ∈ ps.map Prod.fst, WellPrec E := by
    intro E hE
    obtain ⟨p, hp, rfl⟩ := List.mem_map.mp hE
    exact (hps p hp).1
  rw [(multiselect_text_n hne' hes hl).2 d hd]
  clear hl hne hne' hes
  induction ps with
  | nil => rfl
  | cons p ps ih =>
    have hp := hps p List.mem_cons_self
    have ih' := ih (fun q hq => hps q (List.mem_cons_of_mem _ hq))
    simp only [List.map_cons, eraseL, ievalList, concatAll, Res.bind_assoc, Res.pure_eq, Res.ok_bind]
    rw [← ih', (singleton_text hp.1 hp.2).2 d, evaluate_eq]
    simp only [Res.bind_assoc, Res.ok_bind, arrConcat, List.cons_append, List.nil_append]

section Examples
open Grammar.Ex
/-- three members: `[a, b.c, d]` from `[a]`, `[b.c]`, `[d]` -/
example (d : Val) (hd : d.isNull = false) :
    search (bs "[a, b.c, d]") d = concatAll [search (bs "[a]") d, search (bs "[b.c]") d, search (bs "[d]") d] :=
  multiselect_concat_text_n (ps := [(idt "a", bs "[a]"), (.dotId (idt "b") (idt "c"), bs "[b.c]"), (idt "d", bs "[d]")])
    (by simp) (by decide) (by decide) d hd
end Examples

/-- **the token `k` is a way of writing the key (or field name) `s`**: the bare identifier, or a quoted identifier
    with any of the escape forms of `C16B.QEsc` -/
inductive Spells (s : Bytes) : Token → Prop
  | bare : Spells s ⟨.unquotedIdentifier, s⟩
  | quoted {w : Bytes} : C16B.QEsc s w → Spells s ⟨.quotedIdentifier, [0x22] ++ w ++ [0x22]⟩

theorem Spells.keyOK {s : Bytes} {k : Token} (h : Spells s k) : keyOK k = true := by
  cases h with
  | bare => rfl
  | quoted hq =>
    simp only [Grammar.keyOK, C16B.parseQuotedIdentifier_qesc hq, Option.isSome_some, Bool.and_true]
    rfl

theorem Spells.keyOf {s : Bytes} {k : Token} (h : Spells s k) : keyOf k = s := by
  cases h with
  | bare => rfl
  | quoted hq => simp only [Grammar.keyOf, C16B.parseQuotedIdentifier_qesc hq, Option.getD_some]

theorem Spells.atomNode {s : Bytes} {k : Token} (h : Spells s k) : atomNode k = some (.field s) := by
  cases h with
  | bare => rfl
  | quoted hq => simp only [Grammar.atomNode, C16B.parseQuotedIdentifier_qesc hq, Option.map_some]

theorem Spells.sel {s : Bytes} {k : Token} (h : Spells s k) : Sel (.atom k) := by
  refine ⟨?_, (by decide : lvlDot < top), ?_⟩
  · show Grammar.wp false (.atom k) = true
    simp only [Grammar.wp, h.atomNode, Option.isSome_some, Bool.not_false, Bool.and_self]
  · cases h <;> rfl

/-- **`{K: E}.K'` equals `E`, on text, whatever the spelling of the key** — bare, quoted, escaped (`{"a": E}.a`,
    `{a: E}."\u0061"`, …): on every document (null included: the one-member hash has no null check) and for every
    outcome -/
theorem hash_select_text_q {E : PTree} (hE : WellPrec E) {s : Bytes} {k k' : Token} (hk : Spells s k) (hk' : Spells s k')
    {e e' : Bytes}
    (hl : Lexes e (tLBrace :: k :: tColon :: Grammar.flatten E ++ [tRBrace, tDot, k']))
    (hl' : Lexes e' (Grammar.flatten E)) :
    Parser.parse e = .ok (.pipe (.selectObjectSingleCurrent s (erase E)) (.field s)) ∧
    ∀ d, search e d = search e' d := by
  have hE' : Grammar.wp false E = true := hE
  have hA : WellPrec (.multiHash [(k, E)]) := by
    show Grammar.wp false (.multiHash [(k, E)]) = true
    simp only [Grammar.wp, wpKVs, hk.keyOK, hE', List.isEmpty_cons, Bool.not_false, Bool.and_self]
  obtain ⟨hp, hs⟩ := text (wp_dot hA (by decide : lvlDot ≤ top) hk'.sel) (hl.congr (by
    rw [flatten_dot]
    simp only [Grammar.flatten, Grammar.flat, flatKVs, List.cons_append, List.append_assoc, List.nil_append]))
  have he : erase (.dotId (.multiHash [(k, E)]) (.atom k')) =
      .pipe (.selectObjectSingleCurrent s (erase E)) (.field s) := by
    rw [erase_dot (by rfl)]
    simp only [erase, eraseKVs, hashNode, hk'.atomNode, Option.getD_some, hk.keyOf]
  rw [he] at hp hs
  refine ⟨hp, fun d => ?_⟩
  rw [hs d, (text hE hl').2 d, evaluate_eq, hash_select_eq]; rfl

section Examples
open Grammar.Ex
/-- `{"k": a.b}.k`, `{k: a.b}."k"`, `{"\u006b": a.b}."k"` all equal `a.b` -/
example : ∀ d, search (bs "{\"k\": a.b}.k") d = search (bs "a.b") d :=
  (hash_select_text_q (E := .dotId (idt "a") (idt "b")) (s := bs "k") (by decide)
    (.quoted (w := bs "k") (C16B.QEsc.raw 0x6B (s := []) (w := []) (by decide) (by decide) (by decide) (by decide) .nil))
    .bare (by decide) (by decide)).2
example : ∀ d, search (bs "{k: a.b}.\"k\"") d = search (bs "a.b") d :=
  (hash_select_text_q (E := .dotId (idt "a") (idt "b")) (s := bs "k") (by decide) .bare
    (.quoted (w := bs "k") (C16B.QEsc.raw 0x6B (s := []) (w := []) (by decide) (by decide) (by decide) (by decide) .nil))
    (by decide) (by decide)).2
example : ∀ d, search (bs "{\"\\u006b\": a.b}.\"k\"") d = search (bs "a.b") d :=
  (hash_select_text_q (E := .dotId (idt "a") (idt "b")) (s := bs "k") (by decide)
    (.quoted (w := bs "\\u006b") (C16B.QEsc.uni 0x30 0x30 0x36 0x62 0x6B (s := []) (w := []) (by decide) (by decide) .nil))
    (.quoted (w := bs "k") (C16B.QEsc.raw 0x6B (s := []) (w := []) (by decide) (by decide) (by decide) (by decide) .nil))
    (by decide) (by decide)).2
end Examples

/-- **`{k1: e1, …, kn: en}.ki` equals `ei`**, nodes, any number of members with distinct keys, on a non-null current
    node — provided every member evaluates (a failing member makes the whole hash fail, whatever `ei` does) -/
theorem hash_select_member (root : Val) (fs : List (Bytes × INode)) (cur : Val) (env : Env) (hc : cur.isNull = false)
    (hnd : (fs.map Prod.fst).Nodup) {kvs : List (Bytes × Val)} (hall : EvalAll root cur env fs kvs)
    {k : Bytes} {e : INode} (hm : (k, e) ∈ fs) :
    ieval root (.pipe (.selectObjectCurrent fs) (.field k)) cur env = ieval root e cur env := by
  obtain ⟨v, hv, he⟩ := C19.evalAll_mem' hall hm
  have hf : ievalFields root fs cur env = .ok (insertAll kvs) := (C19.ievalFields_ok root fs cur env _).mpr ⟨kvs, hall, rfl⟩
  have hnd' : (kvs.map Prod.fst).Nodup := by rw [hall.names]; exact hnd
  simp only [ieval, hc, Bool.false_eq_true, if_false, hf, Res.ok_bind, Res.pure_eq, field, objLookup_insertAll,
    objLookup_of_mem_nodup hnd' hv, Option.getD_some, he]

/-- `{p: a, q: b}.q` on `{"a": 1, "b": 2}` is `b` -/
example : ieval .null (.pipe (.selectObjectCurrent [([112], .field [97]), ([113], .field [98])]) (.field [113]))
    (.obj [([97], one), ([98], two)]) [] = .ok two := by
  rw [hash_select_member .null _ _ [] rfl (by decide) (kvs := [([112], one), ([113], two)])
    (.cons rfl (.cons rfl .nil)) (k := [113]) (e := .field [98]) (by simp)]
  rfl
/-- a failing member makes the hash fail though the selected member is fine -/
example : ieval .null (.pipe (.selectObjectCurrent [([112], .variable [36, 120]), ([113], .field [98])]) (.field [113]))
    (.obj [([98], two)]) [] = .err [Cat.undefinedVariable] ∧
    ieval .null (.field [98]) (.obj [([98], two)]) [] = .ok two := ⟨rfl, rfl⟩

/-! ## 3. Context closure: every identity holds inside every expression

  `Proofs/C17CCongr.lean` proves that evaluation is compositional — `ieval` of a node depends on its sub-nodes only
  through their `ieval` (one congruence lemma per `INode` constructor, for equal evaluation `NEq` and for agreeing
  evaluation `NAgree`; the one exception, recorded there, is the syntactic test `l.isSlice` of `.projectArray l r`,
  which no tree of the grammar can trip: `C17B.erase_not_slice`).  `Proofs/C17CCtx.lean` defines one-hole contexts
  over parse trees (`Ctx`, `Ctx.fill`) and lifts this to texts (`context_closure_text`, `…_eq`, `…_parse`).

  Here the closure theorem is instantiated for each identity schema of C17: the two spellings may occur ANYWHERE in
  an expression `C[□]` — an operand, a multi-select member, a function argument (also behind `&`), a `let` binding or
  body, a filter condition, a right-hand side — and the two whole expressions still agree on every document.  The
  only hypotheses are that both filled trees are expressions (`WellPrec`, decidable; it fails exactly when the
  context would need parentheses around the spelling, e.g. a pipe as left operand of `||`) and that the texts lex
  to their printings. -/

open Jmes.C17C.Congr Jmes.C17C.Ctx

/-- no special case for strings: every opener but the slice -/
def Opener.noSlice : Opener → Prop
  | .slice .. => False
  | _ => True

theorem Opener.noStr_of_noSlice {o : Opener} (h : Opener.noSlice o) (v : Val) : o.noStr v := by
  cases o <;> first | trivial | exact h.elim

/-- the follower maps null to null on every document and under every binding: every follower but `.R`, and `.R` for
    a selector-shaped `R` -/
def Follower.Strict : Follower → Prop
  | .sel R => SelTree R
  | _ => True

theorem Follower.Strict.nullOK {F : Follower} (h : F.Strict) (root : Val) (env : Env) : F.NullOK root env := by
  cases F with
  | sel R => exact (Follower.nullOK_sel R root env).2 (selector_null (erase_selector h) root env)
  | index n => exact Follower.nullOK_of_not_sel _ (fun _ h => by cases h) _ _
  | proj o σ => exact Follower.nullOK_of_not_sel _ (fun _ h => by cases h) _ _
  | dotList es => exact Follower.nullOK_of_not_sel _ (fun _ h => by cases h) _ _
  | dotHash kvs => exact Follower.nullOK_of_not_sel _ (fun _ h => by cases h) _ _
  | dotStarList => exact Follower.nullOK_of_not_sel _ (fun _ h => by cases h) _ _

/-- **node level, any current value and any bindings**: `L⟨o⟩ρF` against `L⟨o⟩ρ | [*]F` -/
theorem follower_node (o : Opener) (F : Follower) {L ρ : PTree} (hρ : Rhs ρ) (hfit : F.Fits ρ) (root cur : Val) (env : Env)
    (h0 : F.NullOK root env) (hs : ∀ v, ieval root (erase L) cur env = .ok v → o.noStr v) :
    Agree (ieval root (o.node (erase L) (erase (F.app ρ))) cur env)
      (ieval root (.pipe (o.node (erase L) (erase ρ)) (.projectArrayCurrent (erase (F.ext .icur)))) cur env) := by
  rw [Opener.ieval_node o root (erase_not_slice L), dot_is_pipe, Opener.ieval_node o root (erase_not_slice L), Res.bind_assoc]
  have e1 : (fun v => ieval root (erase (F.app ρ)) v env) = (fun v => ieval root (erase ρ) v env >>= F.fn root env) :=
    funext fun v => F.ieval_app hρ hfit root v env
  have e2 : (fun arr => ieval root (.projectArrayCurrent (erase (F.ext .icur))) arr env) =
      projectArray (fun y => ieval root (erase (F.ext .icur)) y env) := funext fun arr => by rw [ieval]
  rw [e1, e2]
  cases hv : ieval root (erase L) cur env with
  | ok v =>
    simp only [Res.ok_bind]
    exact sem_comp' o root env _ (F.fn root env) _ h0 (fun y hy => F.ieval_ext0 root env hy) v (hs v hv)
  | _ => exact Or.inr ⟨rfl, rfl⟩

/-- **node level**: `L⟨o⟩ρ` against `L⟨o⟩ | [*]ρ` -/
theorem unfused_node (o : Opener) (l r : INode) (hl : l.isSlice = false) (root cur : Val) (env : Env)
    (h0 : ieval root r .null env = .ok .null) (hs : ∀ v, ieval root l cur env = .ok v → o.noStr v) :
    Agree (ieval root (o.node l r) cur env) (ieval root (.pipe (o.node0 l) (.projectArrayCurrent r)) cur env) := by
  rw [Opener.ieval_node o root hl, dot_is_pipe, Opener.ieval_node0, Res.bind_assoc]
  have e2 : (fun arr => ieval root (.projectArrayCurrent r) arr env) = projectArray (fun y => ieval root r y env) :=
    funext fun arr => by rw [ieval]
  rw [e2]
  cases hv : ieval root l cur env with
  | ok v => simp only [Res.ok_bind]; exact sem_unfused o root env _ h0 v (hs v hv)
  | _ => exact Or.inr ⟨rfl, rfl⟩

/-- agreement of two texts whose parses are known is strong -/
theorem agreeS_fill (C : Ctx) {s1 s2 : PTree} (h1 : WellPrec (C.fill s1)) (h2 : WellPrec (C.fill s2)) {e1 e2 : Bytes}
    (hl1 : Lexes e1 (Grammar.flatten (C.fill s1))) (hl2 : Lexes e2 (Grammar.flatten (C.fill s2))) {d : Val}
    (h : Agree (search e1 d) (search e2 d)) : AgreeS (search e1 d) (search e2 d) :=
  agreeS_search (parse_fill C h1 hl1) (parse_fill C h2 hl2) h

/-- **"a projection followed by selectors equals piping the projected array into a new projection of those
    selectors" — inside any context**: `C[L⟨o⟩ρF]` against `C[L⟨o⟩ρ | [*]F]`, for the openers `[*]`, `.*`, `[]`, `[?c]`,
    every follower `F` (for `.R`: a selector-shaped `R`), every context `C` -/
theorem closure_projection_follower (C : Ctx) (o : Opener) (F : Follower) (ho : Opener.noSlice o) (hF : F.Strict)
    {L ρ : PTree} (hLi : L.isIcur = false) (hρ : Rhs ρ) (hfit : F.Fits ρ) {op : Token} (hop : op.type = .pipe)
    (h1 : WellPrec (C.fill (o.mk L (F.app ρ))))
    (h2 : WellPrec (C.fill (.bin op (o.mk L ρ) (.star .icur (F.ext .icur))))) {e1 e2 : Bytes}
    (hl1 : Lexes e1 (Grammar.flatten (C.fill (o.mk L (F.app ρ)))))
    (hl2 : Lexes e2 (Grammar.flatten (C.fill (.bin op (o.mk L ρ) (.star .icur (F.ext .icur)))))) (d : Val) :
    AgreeS (search e1 d) (search e2 d) := by
  refine agreeS_fill C h1 h2 hl1 hl2 (context_closure_text C h1 h2 (Opener.mk_not_icur o _ _) rfl hl1 hl2 d ?_)
  intro cur env
  rw [Opener.erase_mk o hLi (F.app_not_icur ρ), erase_bin, hop, Opener.erase_mk o hLi hρ.not_icur, erase_star_follower]
  exact follower_node o F hρ hfit d cur env (hF.nullOK d env) (fun v _ => Opener.noStr_of_noSlice ho v)

/-- **"filter, flatten and slice projections equal their unprojected result piped into `[*]`" — inside any context**:
    `C[L⟨o⟩ρ]` against `C[L⟨o⟩ | [*]ρ]` for a selector-shaped right-hand side `ρ` (openers `[*]`, `.*`, `[]`, `[?c]`) -/
theorem closure_unfused (C : Ctx) (o : Opener) (ho : Opener.noSlice o) {L ρ : PTree} (hLi : L.isIcur = false)
    (hρi : ρ.isIcur = false) (hρs : SelTree ρ) {op : Token} (hop : op.type = .pipe)
    (h1 : WellPrec (C.fill (o.mk L ρ))) (h2 : WellPrec (C.fill (.bin op (o.mk L .icur) (.star .icur ρ)))) {e1 e2 : Bytes}
    (hl1 : Lexes e1 (Grammar.flatten (C.fill (o.mk L ρ))))
    (hl2 : Lexes e2 (Grammar.flatten (C.fill (.bin op (o.mk L .icur) (.star .icur ρ))))) (d : Val) :
    AgreeS (search e1 d) (search e2 d) := by
  refine agreeS_fill C h1 h2 hl1 hl2 (context_closure_text C h1 h2 (Opener.mk_not_icur o _ _) rfl hl1 hl2 d ?_)
  intro cur env
  have he : erase (.star .icur ρ) = .projectArrayCurrent (erase ρ) := by
    simp only [erase, GrammarF0.optNode_icur, GrammarF0.optNode_of_ne hρi, starNode]
  rw [Opener.erase_mk o hLi hρi, erase_bin, hop, Opener.erase_mk0 o hLi, he]
  exact unfused_node o _ _ (erase_not_slice L) d cur env (selector_null (erase_selector hρs) d env)
    (fun v _ => Opener.noStr_of_noSlice ho v)

/-- the same for a LEADING projection — `[*]ρF`, `*ρF`, `[]ρF`, `[?c]ρF` with the implicit current node as left
    operand — against `[*]ρ | [*]F`, inside any context -/
theorem closure_projection_follower0 (C : Ctx) (o : Opener) (F : Follower) (ho : Opener.noSlice o) (hF : F.Strict)
    {ρ : PTree} (hρ : Rhs ρ) (hfit : F.Fits ρ) {op : Token} (hop : op.type = .pipe)
    (h1 : WellPrec (C.fill (o.mk .icur (F.app ρ))))
    (h2 : WellPrec (C.fill (.bin op (o.mk .icur ρ) (.star .icur (F.ext .icur))))) {e1 e2 : Bytes}
    (hl1 : Lexes e1 (Grammar.flatten (C.fill (o.mk .icur (F.app ρ)))))
    (hl2 : Lexes e2 (Grammar.flatten (C.fill (.bin op (o.mk .icur ρ) (.star .icur (F.ext .icur)))))) (d : Val) :
    AgreeS (search e1 d) (search e2 d) := by
  refine agreeS_fill C h1 h2 hl1 hl2 (context_closure_text C h1 h2 (Opener.mk_not_icur o _ _) rfl hl1 hl2 d ?_)
  intro cur env
  rw [erase_bin, hop, erase_star_follower]
  show Agree _ (ieval d (.pipe _ _) cur env)
  rw [dot_is_pipe, Opener.ieval_mk_icur, Opener.ieval_mk_icur, ← dot_is_pipe,
    Opener.erase_mk o atCur_not_icur (F.app_not_icur ρ), Opener.erase_mk o atCur_not_icur hρ.not_icur]
  exact follower_node o F (L := atCur) hρ hfit d cur env (hF.nullOK d env) (fun v _ => Opener.noStr_of_noSlice ho v)

/-- **"`a.b` equals `a | b`" — inside any context**: the two expressions compile to the same node -/
theorem closure_dot_pipe (C : Ctx) {A R : PTree} (hAi : A.isIcur = false) {op : Token} (hop : op.type = .pipe)
    (h1 : WellPrec (C.fill (.dotId A R))) (h2 : WellPrec (C.fill (.bin op A R))) {e1 e2 : Bytes}
    (hl1 : Lexes e1 (Grammar.flatten (C.fill (.dotId A R)))) (hl2 : Lexes e2 (Grammar.flatten (C.fill (.bin op A R)))) :
    Parser.parse e1 = Parser.parse e2 ∧ ∀ d, search e1 d = search e2 d := by
  have he : erase (.dotId A R) = erase (.bin op A R) := by rw [erase_dot hAi, erase_bin, hop]; rfl
  have hp := context_closure_parse C h1 h2 rfl rfl hl1 hl2 he
  exact ⟨hp, fun d => by unfold search; rw [hp]⟩

/-- **"parenthesising or piping ends a projection" — inside any context**: `C[(X).R]` and `C[X | R]` compile to the
    same node, whatever `X` is (in particular a projection `L⟨o⟩ρ`) -/
theorem closure_paren_pipe (C : Ctx) {X R : PTree} {op : Token} (hop : op.type = .pipe)
    (h1 : WellPrec (C.fill (.dotId (.paren X) R))) (h2 : WellPrec (C.fill (.bin op X R))) {e1 e2 : Bytes}
    (hl1 : Lexes e1 (Grammar.flatten (C.fill (.dotId (.paren X) R))))
    (hl2 : Lexes e2 (Grammar.flatten (C.fill (.bin op X R)))) :
    Parser.parse e1 = Parser.parse e2 ∧ ∀ d, search e1 d = search e2 d := by
  have he : erase (.dotId (.paren X) R) = erase (.bin op X R) := by
    rw [erase_dot (by rfl), erase_bin, hop]; rfl
  have hp := context_closure_parse C h1 h2 rfl rfl hl1 hl2 he
  exact ⟨hp, fun d => by unfold search; rw [hp]⟩

/-- **"`{k: e}.k` equals `e`" — inside any context**, whatever the spelling of the key -/
theorem closure_hash_select (C : Ctx) {E : PTree} (hEi : E.isIcur = false) {s : Bytes} {k k' : Token} (hk : Spells s k)
    (hk' : Spells s k') (h1 : WellPrec (C.fill (.dotId (.multiHash [(k, E)]) (.atom k')))) (h2 : WellPrec (C.fill E))
    {e1 e2 : Bytes} (hl1 : Lexes e1 (Grammar.flatten (C.fill (.dotId (.multiHash [(k, E)]) (.atom k')))))
    (hl2 : Lexes e2 (Grammar.flatten (C.fill E))) (d : Val) : search e1 d = search e2 d := by
  refine context_closure_text_eq C h1 h2 rfl hEi hl1 hl2 d ?_
  intro cur env
  have he : erase (.dotId (.multiHash [(k, E)]) (.atom k')) =
      .pipe (.selectObjectSingleCurrent s (erase E)) (.field s) := by
    rw [erase_dot (by rfl)]
    simp only [erase, eraseKVs, hashNode, hk'.atomNode, Option.getD_some, hk.keyOf]
  rw [he]
  exact hash_select_eq d s (erase E) cur env

/-- **`X[]` equals `X | []` — inside any context** (in particular for a projection `X = L⟨o⟩ρ`: `[]` ends it) -/
theorem closure_flatten_pipe (C : Ctx) {X : PTree} (hXi : X.isIcur = false) {op : Token} (hop : op.type = .pipe)
    (h1 : WellPrec (C.fill (.flat X .icur))) (h2 : WellPrec (C.fill (.bin op X (.flat .icur .icur)))) {e1 e2 : Bytes}
    (hl1 : Lexes e1 (Grammar.flatten (C.fill (.flat X .icur))))
    (hl2 : Lexes e2 (Grammar.flatten (C.fill (.bin op X (.flat .icur .icur))))) (d : Val) : search e1 d = search e2 d := by
  refine context_closure_text_eq C h1 h2 rfl rfl hl1 hl2 d ?_
  intro cur env
  have he1 : erase (.flat X .icur) = .flatten (erase X) := by
    simp only [erase, GrammarF0.optNode_of_ne hXi, GrammarF0.optNode_icur, flatNode]
  have he2 : erase (.bin op X (.flat .icur .icur)) = .pipe (erase X) .flattenCurrent := by rw [erase_bin, hop]; rfl
  rw [he1, he2]
  simp only [ieval, Res.pure_eq]

section Examples
open Grammar.Ex
private def cLen : Ctx := .callA ⟨.unquotedIdentifier, bs "length"⟩ [] .hole []
private def cSort : Ctx := .callA ⟨.unquotedIdentifier, bs "sort_by"⟩ [idt "x"] (.ref .hole) []
private def cFilt : Ctx := .filtC (idt "x") .hole .icur

/-- `length(foo[*].bar[0])` / `length(foo[*].bar | [*][0])`; behind `&`; in a filter condition -/
example : ∀ d, AgreeS (search (bs "length(foo[*].bar[0])") d) (search (bs "length(foo[*].bar | [*][0])") d) := fun d =>
  closure_projection_follower cLen .star (.index (int "0")) trivial trivial (L := idt "foo") (ρ := rbar)
    (op := op .pipe "|") rfl rbar_rhs (Or.inr ⟨_, _, rfl, by decide, by decide⟩) rfl
    (by decide +kernel) (by decide +kernel) (by decide +kernel) (by decide +kernel) d
example : ∀ d, AgreeS (search (bs "sort_by(x, &foo[*].bar.*)") d) (search (bs "sort_by(x, &foo[*].bar | [*].*)") d) := fun d =>
  closure_projection_follower cSort .star (.proj .ostar .icur) trivial trivial (L := idt "foo") (ρ := rbar)
    (op := op .pipe "|") rfl rbar_rhs (Or.inl (by decide)) rfl
    (by decide +kernel) (by decide +kernel) (by decide +kernel) (by decide +kernel) d
example : ∀ d, AgreeS (search (bs "x[?foo[].bar.[a]]") d) (search (bs "x[?foo[].bar | [*].[a]]") d) := fun d =>
  closure_projection_follower cFilt .flat (.dotList [idt "a"]) trivial trivial (L := idt "foo") (ρ := rbar)
    (op := op .pipe "|") rfl rbar_rhs (Or.inl (by decide)) rfl
    (by decide +kernel) (by decide +kernel) (by decide +kernel) (by decide +kernel) d
/-- leading projections: `[c, *.bar[0]]` / `[c, *.bar | [*][0]]`, `length([*].bar.baz)` / `length([*].bar | [*].baz)` -/
example : ∀ d, AgreeS (search (bs "[c, *.bar[0]]") d) (search (bs "[c, *.bar | [*][0]]") d) := fun d =>
  closure_projection_follower0 (.multiListE [idt "c"] .hole []) .ostar (.index (int "0")) trivial trivial (ρ := rbar)
    (op := op .pipe "|") rbar_rhs (Or.inr ⟨_, _, rfl, by decide, by decide⟩) rfl
    (by decide +kernel) (by decide +kernel) (by decide +kernel) (by decide +kernel) d
example : ∀ d, AgreeS (search (bs "length([*].bar.baz)") d) (search (bs "length([*].bar | [*].baz)") d) := fun d =>
  closure_projection_follower0 cLen .star (.sel (idt "baz")) trivial (.ident _ rfl) (ρ := rbar)
    (op := op .pipe "|") rbar_rhs (Or.inl (by decide)) rfl
    (by decide +kernel) (by decide +kernel) (by decide +kernel) (by decide +kernel) d
/-- `length(foo[?c].bar)` / `length(foo[?c] | [*].bar)` -/
example : ∀ d, AgreeS (search (bs "length(foo[?c].bar)") d) (search (bs "length(foo[?c] | [*].bar)") d) := fun d =>
  closure_unfused cLen (.filt (idt "c")) trivial (L := idt "foo") (ρ := rbar) (op := op .pipe "|") rfl rfl
    (.dot0 (.ident _ rfl)) rfl (by decide +kernel) (by decide +kernel) (by decide +kernel) (by decide +kernel) d
/-- `[c, a.b]` / `[c, a | b]`; `length((foo[*].bar).baz)` / `length(foo[*].bar | baz)`;
    `[c, {"k": a.b}.k]` / `[c, a.b]`; `length(foo[*].bar[])` / `length(foo[*].bar | [])` -/
example : ∀ d, search (bs "[c, a.b]") d = search (bs "[c, a | b]") d :=
  (closure_dot_pipe (.multiListE [idt "c"] .hole []) (A := idt "a") (R := idt "b") (op := op .pipe "|") rfl rfl
    (by decide) (by decide) (by decide) (by decide)).2
example : ∀ d, search (bs "length((foo[*].bar).baz)") d = search (bs "length(foo[*].bar | baz)") d :=
  (closure_paren_pipe cLen (X := .star (idt "foo") rbar) (R := idt "baz") (op := op .pipe "|") rfl
    (by decide +kernel) (by decide +kernel) (by decide +kernel) (by decide +kernel)).2
example : ∀ d, search (bs "[c, {\"k\": a.b}.k]") d = search (bs "[c, a.b]") d := fun d =>
  closure_hash_select (.multiListE [idt "c"] .hole []) (E := .dotId (idt "a") (idt "b")) rfl (s := bs "k")
    (.quoted (w := bs "k") (C16B.QEsc.raw 0x6B (s := []) (w := []) (by decide) (by decide) (by decide) (by decide) .nil))
    .bare (by decide) (by decide) (by decide) (by decide) d
example : ∀ d, search (bs "length(foo[*].bar[])") d = search (bs "length(foo[*].bar | [])") d := fun d =>
  closure_flatten_pipe cLen (X := .star (idt "foo") rbar) rfl (op := op .pipe "|") rfl
    (by decide +kernel) (by decide +kernel) (by decide +kernel) (by decide +kernel) d
end Examples

/-! Not closed under contexts, and why: `x[*].e` = `map(&e, x)[*]` holds only where `x` is an array (`map` of a
    non-array is a type error, the projection of it is null: `C17.star_is_map_node`), a condition on the current
    value that a context changes; the slice opener's identities hold only where the slice is not a string
    (`C17B.slice_comp`); "`[e1, …, en]` is the concatenation of the `[ei]`" is not an identity between two
    expressions.  On a fixed document these hold as stated in sections 1–2 and in `C17B`. -/

end Jmes.C17C
