/-
  C16, third part — "Every JSON value written between backticks (with backticks escaped) evaluates to that value with
  numbers kept at full precision", for EVERY JSON text, not only the canonical renderings of `C16B.render`.

  What a JSON text denotes is defined as a RELATION between byte strings and values that does not mention Go's
  decoder (`Jmes/Proofs/C16CDefs.lean`):

    `StrDen s w`     the string body `w` denotes the string `s` (raw runes, two-character escapes, `\uXXXX` in either
                     case, surrogate pairs — any mix; a surrogate escape that does not start a pair is U+FFFD);
    `Den n t v`      the value text `t` denotes `v`, nesting at most `n` containers: literals; numbers with their
                     spelling; arrays element by element; objects denote the LAST-WINS map of their members
                     (`LastWins`: sorted by key, of several members with the same key the last one counts); any JSON
                     white space (space, tab, LF, CR), independently in every gap;
    `Denotes n t v`  the same with white space around the value.

  1. SOUNDNESS of the decoder (`decoder_sound`):  `Denotes n t v → n ≤ 10000 → Json.decode t = some v`.
  2. TOTALITY (`json_text_denotes`):  `JsonText t → validUTF8 t → ∃ v, Denotes (textDepth t) t v`, where `JsonText` is
     the RFC 8259 grammar of `Spec/Lexical.lean` and `textDepth` the nesting depth found by a three-state scan of the
     bytes (brackets outside strings).
  3. Hence (`json_text_roundtrip`, `json_literal_denotes`): every JSON text that is valid UTF-8 and nests at most 10000
     deep, written between backticks with the backticks escaped, evaluates to THE value it denotes (unique:
     `denotes_unique`).  The depth bound is exact, for every text (`decoder_depth_limit`, `json_text_too_deep`), so
     that `decode_iff` / `json_literal_iff` characterise the decoder and the JSON literal completely.
  4. The canonical renderings of `C16B` are a special case (`render_denotes`).
-/
import Jmes.Proofs.C16CRender
import Jmes.Proofs.C16CDeep
namespace Jmes.C16C
open Jmes Jmes.Utf8 Jmes.Literals Jmes.C16 Jmes.C16BL Jmes.Lexical Jmes.JsonGrammar

/-! ## 1. soundness -/

/-- **C16 (the decoder is sound for the denotation relation)**: if the JSON text `t` denotes the value `v` — strings
    written with any mix of escape forms, numbers with their spelling, duplicate keys resolved last-wins, any white
    space in any gap — and nests at most 10000 containers (the limit of Go's `encoding/json`), then the decoder with
    `UseNumber` reads `t` as exactly `v`. -/
theorem decoder_sound {n : Nat} {t : Bytes} {v : Val} (h : Denotes n t v) (hn : n ≤ 10000) :
    Json.decode t = some v := decode_denotes h hn

/-- a text denotes at most one value -/
theorem denotes_unique {n m : Nat} {t : Bytes} {v v' : Val} (h : Denotes n t v) (h' : Denotes m t v')
    (hn : n ≤ 10000) (hm : m ≤ 10000) : v = v' := by
  have := (decoder_sound h hn).symm.trans (decoder_sound h' hm)
  exact Option.some.inj this

/-- every text in the relation is a JSON text of the RFC 8259 grammar -/
theorem Denotes.jsonText {n : Nat} {t : Bytes} {v : Val} (h : Denotes n t v) (hn : n ≤ 10000) : JsonText t :=
  decode_sound (decoder_sound h hn)

/-! ### a worked example: `{"b":[1e400 ,"\ud800"], "a":true,"b":null}` -/

/-- `"\ud800"` is the string U+FFFD -/
theorem exLone : StrDen [0xEF, 0xBF, 0xBD] [0x5C, 0x75, 0x64, 0x38, 0x30, 0x30] :=
  StrDen.lone 0x64 0x38 0x30 0x30 0xD800 (by decide) (by decide)
    (fun _ => by intro a b c d lo rest h; cases h) StrDen.nil

/-- `[1e400 ,"\ud800"]` -/
theorem exArr : Den 1 [0x5B, 0x31, 0x65, 0x34, 0x30, 0x30, 0x20, 0x2C, 0x22, 0x5C, 0x75, 0x64, 0x38, 0x30, 0x30, 0x22, 0x5D]
    (.arr .plain [.num (.jnum [0x31, 0x65, 0x34, 0x30, 0x30]), .str [0xEF, 0xBF, 0xBD]]) :=
  Den.arr 0 _ _ (DenElems.cons 0 [] [0x31, 0x65, 0x34, 0x30, 0x30] [0x20] _ _ _ Ws.nil
    (Den.num 0 _ ((isValidNumber_iff _).1 (by decide))) (by unfold Ws; decide)
    (DenElems.last 0 [] _ [] _ Ws.nil (Den.str 0 _ _ exLone) Ws.nil))

/-- the key `b` -/
theorem exKeyB : StrDen [0x62] [0x62] :=
  StrDen.raw 0x62 (by decide) (by decide) (by decide) (by decide) StrDen.nil
/-- the key `a` -/
theorem exKeyA : StrDen [0x61] [0x61] :=
  StrDen.raw 0x61 (by decide) (by decide) (by decide) (by decide) StrDen.nil

/-- `{"b":[1e400 ,"\ud800"], "a":true,"b":null}` denotes `{"a": true, "b": null}`: the first `b` is overwritten, the
    members are sorted -/
theorem exObj : Den 2
    [0x7B, 0x22, 0x62, 0x22, 0x3A, 0x5B, 0x31, 0x65, 0x34, 0x30, 0x30, 0x20, 0x2C, 0x22, 0x5C, 0x75, 0x64, 0x38, 0x30, 0x30,
     0x22, 0x5D, 0x2C, 0x20, 0x22, 0x61, 0x22, 0x3A, 0x74, 0x72, 0x75, 0x65, 0x2C, 0x22, 0x62, 0x22, 0x3A, 0x6E, 0x75, 0x6C,
     0x6C, 0x7D]
    (.obj [([0x61], .bool true), ([0x62], .null)]) :=
  Den.obj 1 _ _ _
    (DenMembers.cons 1 [] [0x62] [] [] _ [] _ [0x62] _ _ Ws.nil exKeyB Ws.nil Ws.nil exArr Ws.nil
      (DenMembers.cons 1 [0x20] [0x61] [] [] _ [] _ [0x61] _ _ (by unfold Ws; decide) exKeyA Ws.nil Ws.nil (Den.tru 1) Ws.nil
        (DenMembers.last 1 [] [0x62] [] [] _ [] [0x62] _ Ws.nil exKeyB Ws.nil Ws.nil (Den.null 1) Ws.nil)))
    (LastWins.of_fold _)

example : Json.decode
    [0x7B, 0x22, 0x62, 0x22, 0x3A, 0x5B, 0x31, 0x65, 0x34, 0x30, 0x30, 0x20, 0x2C, 0x22, 0x5C, 0x75, 0x64, 0x38, 0x30, 0x30,
     0x22, 0x5D, 0x2C, 0x20, 0x22, 0x61, 0x22, 0x3A, 0x74, 0x72, 0x75, 0x65, 0x2C, 0x22, 0x62, 0x22, 0x3A, 0x6E, 0x75, 0x6C,
     0x6C, 0x7D] = some (.obj [([0x61], .bool true), ([0x62], .null)]) :=
  decode_den exObj (by decide)

/-- `[1e400 ,"\ud800"]` with a line feed before and a tab after -/
example : Json.decode ([0x0A] ++ [0x5B, 0x31, 0x65, 0x34, 0x30, 0x30, 0x20, 0x2C, 0x22, 0x5C, 0x75, 0x64, 0x38, 0x30, 0x30,
    0x22, 0x5D] ++ [0x09]) = some (.arr .plain [.num (.jnum [0x31, 0x65, 0x34, 0x30, 0x30]), .str [0xEF, 0xBF, 0xBD]]) :=
  decoder_sound ⟨[0x0A], _, [0x09], rfl, by unfold Ws; decide, exArr, by unfold Ws; decide⟩ (by decide)

/-! ## 2. totality -/

/-- **C16 (every JSON text denotes a value)**: every text of the RFC 8259 grammar that is valid UTF-8 denotes a value,
    and the derivation nests exactly `textDepth t` containers — the largest number of `[` / `{` outside strings that
    are open at the same time. -/
theorem json_text_denotes {t : Bytes} (h : JsonText t) (hu : validUTF8 t = true) :
    ∃ v, Denotes (textDepth t) t v := denotes_total h hu

example : ∃ v, Denotes 2 [0x5B, 0x7B, 0x22, 0x5B, 0x22, 0x3A, 0x31, 0x7D, 0x5D] v :=   -- `[{"[":1}]`
  json_text_denotes (t := [0x5B, 0x7B, 0x22, 0x5B, 0x22, 0x3A, 0x31, 0x7D, 0x5D])
    (decode_sound (v := .arr .plain [.obj [([0x5B], .num (.jnum [0x31]))]]) (by rfl)) (by decide)

/-! ## 3. JSON literals -/

/-- **C16 (every JSON text between backticks evaluates to the value it denotes)**: let `t` be a JSON text (RFC 8259)
    that is valid UTF-8 and nests at most 10000 containers.  Then `t` denotes a value `v` (the only one:
    `denotes_unique`), Go's decoder reads `t` as `v`, and the expression `` `t` `` — `t` between backticks, every
    backtick of `t` preceded by a backslash — evaluates to `v` on every document. -/
theorem json_text_roundtrip {t : Bytes} (h : JsonText t) (hu : validUTF8 t = true) (hd : textDepth t ≤ 10000) :
    ∃ v, Denotes (textDepth t) t v ∧ Json.decode t = some v ∧ ∀ d, search (jsonLit t) d = .ok v := by
  obtain ⟨v, hv⟩ := json_text_denotes h hu
  have hdec := decoder_sound hv hd
  exact ⟨v, hv, hdec, fun d => json_literal_roundtrip t v d (jbody_jsonText h hu) hdec⟩

/-- the same, starting from the relation: a text that denotes `v` (within the depth limit) and is valid UTF-8,
    written between backticks, evaluates to `v` -/
theorem json_literal_denotes {n : Nat} {t : Bytes} {v : Val} (h : Denotes n t v) (hn : n ≤ 10000)
    (hu : validUTF8 t = true) (d : Val) : search (jsonLit t) d = .ok v :=
  json_literal_roundtrip t v d (jbody_jsonText (h.jsonText hn) hu) (decoder_sound h hn)

/-- `` `{"b":[1e400 ,"\ud800"], "a":true,"b":null}` `` evaluates to `{"a": true, "b": null}` -/
example (d : Val) : search (jsonLit
    [0x7B, 0x22, 0x62, 0x22, 0x3A, 0x5B, 0x31, 0x65, 0x34, 0x30, 0x30, 0x20, 0x2C, 0x22, 0x5C, 0x75, 0x64, 0x38, 0x30, 0x30,
     0x22, 0x5D, 0x2C, 0x20, 0x22, 0x61, 0x22, 0x3A, 0x74, 0x72, 0x75, 0x65, 0x2C, 0x22, 0x62, 0x22, 0x3A, 0x6E, 0x75, 0x6C,
     0x6C, 0x7D]) d = .ok (.obj [([0x61], .bool true), ([0x62], .null)]) :=
  json_literal_denotes ⟨[], _, [], rfl, Ws.nil, exObj, Ws.nil⟩ (by decide) (by decide) d

/-! ### the depth bound is exact -/

/-- scanning `n` opening brackets -/
theorem scan_opens : ∀ (n c mx : Nat), c ≤ mx →
    scan ⟨.out, c, mx⟩ (List.replicate n 0x5B) = ⟨.out, c + n, max mx (c + n)⟩
  | 0, c, mx, h => by simp [scan_nil]; omega
  | n + 1, c, mx, h => by
    rw [List.replicate_succ, scan_cons]
    have : step ⟨.out, c, mx⟩ 0x5B = ⟨.out, c + 1, max mx (c + 1)⟩ := rfl
    rw [this, scan_opens n (c + 1) _ (by omega)]
    congr 1 <;> omega

/-- scanning closing brackets does not change the maximum -/
theorem scan_closes : ∀ (n c mx : Nat), (scan ⟨.out, c, mx⟩ (List.replicate n 0x5D)).mx = mx
  | 0, c, mx => rfl
  | n + 1, c, mx => by
    rw [List.replicate_succ, scan_cons]
    have : step ⟨.out, c, mx⟩ 0x5D = ⟨.out, c - 1, mx⟩ := rfl
    rw [this, scan_closes n]

/-- the text `[[…[]…]]` with `n` brackets on each side has depth `n`: with `C16B.json_depth_limit` (its literal is a
    syntax error for `n > 10000`) and `C16B.json_depth_ok`, the bound `textDepth t ≤ 10000` of `json_text_roundtrip` is
    exact -/
theorem textDepth_deepText (n : Nat) : textDepth (C16B.deepText n) = n := by
  unfold textDepth C16B.deepText
  rw [scan_append, scan_opens n 0 0 (Nat.le_refl _), scan_closes]
  simp

example : textDepth (C16B.deepText 10001) = 10001 := textDepth_deepText _
example (d : Val) : search (jsonLit (C16B.deepText 10001)) d = .err [.syntax] := C16B.json_depth_limit 10001 (by decide) d

/-- **the depth limit, for every JSON text**: a JSON text (valid UTF-8) whose brackets nest more than 10000 deep is
    rejected by Go's decoder, whatever it contains (the nesting of the TEXT counts, not that of the value:
    `{"a":[[…]],"a":1}` with 10000 brackets is rejected although it would denote `{"a": 1}`; Go does the same) -/
theorem decoder_depth_limit {t : Bytes} (h : JsonText t) (hu : validUTF8 t = true) (hd : 10000 < textDepth t) :
    Json.decode t = none := decode_too_deep h hu hd

/-- … and its literal is a syntax error -/
theorem json_text_too_deep {t : Bytes} (h : JsonText t) (hu : validUTF8 t = true) (hd : 10000 < textDepth t) (d : Val) :
    search (jsonLit t) d = .err [.syntax] := by
  rw [C16B.json_literal_search t (jbody_jsonText h hu) d, decoder_depth_limit h hu hd]

/-- **C16 (Go's decoder, characterised)**: on valid UTF-8 input the decoder with `UseNumber` returns `v` exactly when
    the text denotes `v` and nests at most 10000 containers -/
theorem decode_iff {t : Bytes} (hu : validUTF8 t = true) (v : Val) :
    Json.decode t = some v ↔ Denotes (textDepth t) t v ∧ textDepth t ≤ 10000 := by
  constructor
  · intro h
    have hj := decode_sound h
    obtain ⟨v', hv'⟩ := json_text_denotes hj hu
    by_cases hd : textDepth t ≤ 10000
    · have := (decoder_sound hv' hd).symm.trans h
      cases this
      exact ⟨hv', hd⟩
    · rw [decoder_depth_limit hj hu (by omega)] at h; cases h
  · intro ⟨h, hd⟩
    exact decoder_sound h hd

/-- **C16 (JSON literals, characterised)**: for a text `t` that is valid UTF-8 and of the shape the lexer accepts
    between backticks (`JBody`; every JSON text is), `` `t` `` evaluates to `v` exactly when `t` denotes `v` and nests
    at most 10000 containers; in every other case it is a syntax error -/
theorem json_literal_iff {t : Bytes} (hu : validUTF8 t = true) (hb : JBody t) (v d : Val) :
    search (jsonLit t) d = .ok v ↔ Denotes (textDepth t) t v ∧ textDepth t ≤ 10000 := by
  rw [C16B.json_literal_search t hb d, ← decode_iff hu v]
  cases Json.decode t with
  | none => simp
  | some v' => simp

example : Json.decode [0x5B, 0x31, 0x2C, 0x5D] = none ∧ ¬ ∃ n v, Denotes n [0x5B, 0x31, 0x2C, 0x5D] v ∧ n ≤ 10000 :=
  ⟨by rfl, fun ⟨n, v, h, hn⟩ => by   -- `[1,]`
    have h1 := decoder_sound h hn
    have h2 : Json.decode [0x5B, 0x31, 0x2C, 0x5D] = none := by rfl
    rw [h2] at h1; cases h1⟩

/-! ## 4. the canonical renderings are a special case -/

/-- **the texts of `C16B.json_value_roundtrip` are in the relation**: the rendering of a value (`C16B.render`: one
    escape policy, the same white space `w` in every gap, keys sorted and distinct), with white space around it,
    denotes that value, with the value's own nesting depth -/
theorem render_denotes (w w1 w2 : Bytes) (hw : Ws w) (hw1 : Ws w1) (hw2 : Ws w2) (v : Val) (hp : C16B.Plain v) :
    Denotes (C16B.dp v) (w1 ++ C16B.render w v ++ w2) v := denotes_render w w1 w2 hw hw1 hw2 v hp

example : Denotes (C16B.dp C16B.exVal) ([0x0A] ++ C16B.render [0x20] C16B.exVal ++ [0x09]) C16B.exVal :=
  render_denotes [0x20] [0x0A] [0x09] (by unfold Ws; decide) (by unfold Ws; decide) (by unfold Ws; decide) _
    C16B.exVal_plain

end Jmes.C16C
