/-
  C19, third part — "A reference with no enclosing binding is an undefined-variable error", as an iff.

  `Reaches` (C19B) only follows the strict evaluation path.  `Reaches'` (`Proofs/C19CLemmas.lean`) adds: later arguments of
  a call and later members of a multi-select list / `merge` / `not_null` / `zip` (the earlier ones evaluate), *any* member
  of a multi-select hash and *any* binding of an n-binding `let` (Go ranges over a map of sub-expressions), the member of
  the one-member forms, the `…Current` node forms, and a per-element constructor for every loop — projection right-hand
  sides, filter predicates, `&e` bodies of `map` / `sort_by` / `max_by` / `min_by` / `group_by` — on every element the
  loop `Visits`: an element all of whose predecessors are processed without failure, or, when the array was produced by
  ranging over a Go map (tag `enum`, ≥ 2 elements) and the loop fails, any element.

  1. `reaches_imp_reaches'`, `reaches'_strictly_more`.
  2. forward: `reached'_und`, `reached'_cases`, `reaches'_settled`, `reached'_not_ok`, `reached'_no_panic`,
     `reached'_toplevel`, `reached'_free` (a reached reference is a free variable of the node).
  3. exactness: `reaches_exact` (the strict path gives exactly `[undefined-variable]`), `reaches'_not_exact` (with n bindings
     the list can be larger).
  4. backward and the iff: `undefined_reaches'`, `undefined_iff_reaches'`, `evaluate_undefined_iff`,
     `search_undefined_iff`, `no_reaches'_no_undefined`.
  5. examples: `a[?$x]`, `map(&$x, a)` (non-empty / empty `a`), `[a, $x]`, `contains(a, $x)`,
     `let $a = a, $b = $x in $a`, `{p: a, q: $x}`, `*.[$x]`, an outcome `nondet`.
  6. FINDINGS (model over-approximation, proved as examples): on a map-ordered input the model's `widen` lists
     undefined-variable for a reference that no Go evaluation order reaches — (a) flatten-and-project: the two `null`s the
     model appends to the flattened list, (b) filter-and-project: the right-hand side on elements whose predicate is falsy.
-/
import Jmes.Proofs.C19CLemmas
import Jmes.Properties.C19B
namespace Jmes.C19C
open Jmes Jmes.Grammar Jmes.Pratt Jmes.C04G Jmes.Lexical

/-! ## 0. vocabulary of the examples -/

/-- the key `a` -/
def ka : Bytes := [0x61]
/-- the reference `$x` -/
def vX : INode := .variable C19.dx
/-- the document `{"a": v}` -/
def docA (v : Val) : Val := .obj [(ka, v)]
/-- `[1]` -/
def arr1 : Val := .arr .plain [C19.n1]
/-- `[]` -/
def arr0 : Val := .arr .plain []

/-! ## 1. `Reaches'` extends `Reaches` -/

/-- every reference on the strict evaluation path (`Reaches`, C19B) is reached in the extended sense -/
theorem reaches_imp_reaches' {root : Val} {x : Bytes} {n : INode} {cur : Val} {env : Env}
    (h : Reaches root x n cur env) : Reaches' root x n cur env :=
  Reaches.toReaches' h

example (root cur : Val) (env : Env) (x : Bytes) (f r : INode) :
    Reaches' root x (.filterAndProject (.flatten (.projectArray (.variable x) .current)) f r) cur env :=
  reaches_imp_reaches' (.filterAndProject (.flatten (.projectArray .var)))

/-- … and strictly so: the second member of `[a, $x]` is reached (on a non-null value), but `Reaches` has no
    constructor for it -/
theorem reaches'_strictly_more (root cur : Val) (env : Env) (x : Bytes) (hcur : cur.isNull = false) :
    Reaches' root x (.selectArrayCurrent [.field ka, .variable x]) cur env ∧
    ¬ Reaches root x (.selectArrayCurrent [.field ka, .variable x]) cur env := by
  constructor
  · exact .selectArrayCurrentMem (pre := [.field ka]) (post := []) (vs := [field ka cur]) hcur
      (by simp only [ievalList, ieval, Res.ok_bind, Res.pure_eq]) .var
  · intro h; cases h

/-! ## 2. forward: a reached reference without a binding -/

/-- **A reached reference without a binding**: the outcome is `Und` — an error that lists undefined-variable, or an
    outcome the model does not settle (`nondet`: it depends on Go's map iteration order; `unmodelled`). -/
theorem reached'_und {root : Val} {x : Bytes} {n : INode} {cur : Val} {env : Env}
    (h : Reaches' root x n cur env) (hx : env.get x = none) : Und (ieval root n cur env) :=
  h.und hx

/-- the same, spelled out -/
theorem reached'_cases {root : Val} {x : Bytes} {n : INode} {cur : Val} {env : Env}
    (h : Reaches' root x n cur env) (hx : env.get x = none) :
    (∃ cs, ieval root n cur env = .err cs ∧ Cat.undefinedVariable ∈ cs) ∨ ieval root n cur env = .nondet ∨
      ∃ w, ieval root n cur env = .unmodelled w := by
  have hu := h.und hx
  cases hr : ieval root n cur env with
  | ok v => rw [hr] at hu; exact hu.elim
  | err cs => rw [hr] at hu; exact Or.inl ⟨cs, rfl, hu⟩
  | panic w => rw [hr] at hu; exact hu.elim
  | nondet => exact Or.inr (Or.inl rfl)
  | unmodelled w => exact Or.inr (Or.inr ⟨w, rfl⟩)

/-- `$x + 1`-style, unbound: the first alternative -/
example (root cur : Val) : (∃ cs, ieval root (.binop .add (.variable C19.dx) .current) cur [] = .err cs ∧
      Cat.undefinedVariable ∈ cs) ∨ ieval root (.binop .add (.variable C19.dx) .current) cur [] = .nondet ∨
      ∃ w, ieval root (.binop .add (.variable C19.dx) .current) cur [] = .unmodelled w :=
  reached'_cases (.binopL .var) rfl

/-- **… is an undefined-variable error whenever the outcome is settled** (a value or an error) -/
theorem reaches'_settled {root : Val} {x : Bytes} {n : INode} {cur : Val} {env : Env}
    (h : Reaches' root x n cur env) (hx : env.get x = none)
    (hs : (∃ v, ieval root n cur env = .ok v) ∨ ∃ cs, ieval root n cur env = .err cs) :
    ∃ cs, ieval root n cur env = .err cs ∧ Cat.undefinedVariable ∈ cs :=
  (h.und hx).settled hs

/-- it is never a value … -/
theorem reached'_not_ok {root : Val} {x : Bytes} {n : INode} {cur : Val} {env : Env}
    (h : Reaches' root x n cur env) (hx : env.get x = none) (v : Val) : ieval root n cur env ≠ .ok v :=
  (h.und hx).not_ok v

/-- … and never a panic -/
theorem reached'_no_panic {root : Val} {x : Bytes} {n : INode} {cur : Val} {env : Env}
    (h : Reaches' root x n cur env) (hx : env.get x = none) (w : String) : ieval root n cur env ≠ .panic w := by
  intro e
  have hu := h.und hx
  rw [e] at hu
  exact hu

example (root cur : Val) (w : String) : ieval root (.not (.variable C19.dx)) cur [] ≠ .panic w :=
  reached'_no_panic (.not .var) rfl w

/-- at top level (`Evaluate` starts without bindings) every reached reference is unbound -/
theorem reached'_toplevel {x : Bytes} {n : INode} {d : Val} (h : Reaches' d x n d []) : Und (evaluate n d) :=
  h.und rfl

example (d : Val) : Und (evaluate (.pipe .current (.variable C19.dx)) d) :=
  reached'_toplevel (.pipeR (a := d) rfl .var)

/-- `[a, $x]` on any non-null document: not a value -/
example (d : Val) (hd : d.isNull = false) (v : Val) :
    evaluate (.selectArrayCurrent [.field ka, vX]) d ≠ .ok v :=
  reached'_not_ok (reaches'_strictly_more d d [] C19.dx hd).1 rfl v

theorem mem_fvList_append {x : Bytes} {a : INode} (hx : x ∈ a.fv) (post : List INode) :
    ∀ pre : List INode, x ∈ fvList (pre ++ a :: post)
  | [] => by simp only [List.nil_append, fvList, List.mem_append, hx, true_or]
  | n :: pre => by
    simp only [List.cons_append, fvList, List.mem_append]
    exact Or.inr (mem_fvList_append hx post pre)

theorem mem_fvFields {x k : Bytes} {e : INode} (hx : x ∈ e.fv) :
    ∀ fs : List (Bytes × INode), (k, e) ∈ fs → x ∈ fvFields fs
  | [], h => by cases h
  | (k', n) :: rest, h => by
    simp only [fvFields, List.mem_append]
    rcases List.mem_cons.mp h with h | h
    · cases h; exact Or.inl hx
    · exact Or.inr (mem_fvFields hx rest h)

/-- **a reached reference is a free variable of the node**: `Reaches'` only ever points at a reference `$x` that no `let`
    of `n` itself binds -/
theorem reached'_free {root : Val} {x : Bytes} {n : INode} {cur : Val} {env : Env}
    (h : Reaches' root x n cur env) : x ∈ n.fv := by
  induction h with
  | var => simp only [INode.fv, List.mem_singleton]
  | letBody hb hnm _ ih =>
    have hbn : ∀ vars : List (Bytes × INode), x ∉ vars.map Prod.fst → bindsName x vars = false := fun vars h => by
      rw [← Bool.not_eq_true, bindsName_iff]; exact h
    simp only [INode.fv, List.mem_append, List.mem_filter, ih, hbn _ hnm, Bool.not_false, and_self, or_true]
  | letBind hm _ ih => simp only [INode.fv, List.mem_append]; exact Or.inl (mem_fvFields ih _ hm)
  | callArg _ _ ih | mergeArg _ _ ih | notNullArg _ _ ih | zipArg _ _ ih =>
    simp only [INode.fv]; exact mem_fvList_append ih _ _
  | selectArrayMem _ _ _ _ ih =>
    simp only [INode.fv, List.mem_append]; exact Or.inr (mem_fvList_append ih _ _)
  | selectArrayCurrentMem _ _ _ ih => simp only [INode.fv]; exact mem_fvList_append ih _ _
  | selectObjectMem _ _ hm _ ih => simp only [INode.fv, List.mem_append]; exact Or.inr (mem_fvFields ih _ hm)
  | selectObjectCurrentMem _ hm _ ih => simp only [INode.fv]; exact mem_fvFields ih _ hm
  | _ => simp only [INode.fv, List.mem_append, true_or, or_true, *]

example (root cur : Val) (env : Env) (hcur : cur.isNull = false) :
    C19.dx ∈ (INode.selectArrayCurrent [.field ka, .variable C19.dx]).fv :=
  reached'_free (reaches'_strictly_more root cur env C19.dx hcur).1

/-! ## 3. how exact is the category list? -/

/-- on the strict evaluation path (`Reaches`) the error is *exactly* `[undefined-variable]` (C19B, restated) -/
theorem reaches_exact {root : Val} {x : Bytes} {n : INode} {cur : Val} {env : Env}
    (h : Reaches root x n cur env) (hx : env.get x = none) : ieval root n cur env = .err [Cat.undefinedVariable] :=
  h.undefined hx

example (root cur : Val) (x : Bytes) : ieval root (.pipe (.variable x) (.field ka)) cur [] = .err [Cat.undefinedVariable] :=
  reaches_exact (.pipeL .var) rfl

/-- the bindings `$a = abs('x')`, `$b = $x` -/
def twoBad : List (Bytes × INode) :=
  [([0x24, 0x61], .call .abs [.lit (.str [0x78])]), ([0x24, 0x62], vX)]

/-- … whereas with `Reaches'` the list can be larger: in ``let $a = abs('x'), $b = $x in `1` `` both bindings fail, Go
    ranges over the map of bindings and reports whichever it meets first — the model lists both categories.  (The Go
    library answered `invalid type` for this input when tried.) -/
theorem reaches'_not_exact (d : Val) :
    Reaches' d C19.dx (.defineVariables twoBad (.lit C19.n1)) d [] ∧
    evaluate (.defineVariables twoBad (.lit C19.n1)) d = .err [Cat.undefinedVariable, Cat.invalidType] := by
  constructor
  · exact .letBind (k := [0x24, 0x62]) (e := vX) (by simp [twoBad]) .var
  · rfl

example : ∃ cs, evaluate (.defineVariables twoBad (.lit C19.n1)) .null = .err cs ∧ Cat.undefinedVariable ∈ cs :=
  reaches'_settled (reaches'_not_exact .null).1 rfl (Or.inr ⟨_, (reaches'_not_exact .null).2⟩)

/-! ## 4. backward, and the iff -/

/-- **Backward (completeness).**  If evaluating `n` fails and undefined-variable is among the categories the model lists,
    then the evaluation gets to a reference `$x` without a binding. -/
theorem undefined_reaches' {root : Val} {n : INode} {cur : Val} {env : Env} {cs : List Cat}
    (h : ieval root n cur env = .err cs) (hu : Cat.undefinedVariable ∈ cs) :
    ∃ x, Reaches' root x n cur env ∧ env.get x = none :=
  reaches'_of_undefined root n cur env cs h hu

/-- `a[?$x]` on `{"a": [1]}` fails with undefined-variable: so some reference is reached -/
example : ∃ x, Reaches' (docA arr1) x (.filter (.field ka) vX) (docA arr1) [] ∧ Env.get [] x = none :=
  undefined_reaches' (cs := [Cat.undefinedVariable]) rfl (by simp)

/-- **The last sentence of the property as an iff.**  The evaluation of `n` fails with undefined-variable among the
    listed categories iff it fails at all (the outcome is settled) and gets to a reference that has no binding. -/
theorem undefined_iff_reaches' (root : Val) (n : INode) (cur : Val) (env : Env) :
    (∃ cs, ieval root n cur env = .err cs ∧ Cat.undefinedVariable ∈ cs) ↔
      ((∃ cs, ieval root n cur env = .err cs) ∧ ∃ x, Reaches' root x n cur env ∧ env.get x = none) := by
  constructor
  · rintro ⟨cs, h, hu⟩
    exact ⟨⟨cs, h⟩, undefined_reaches' h hu⟩
  · rintro ⟨hs, x, hr, hx⟩
    exact reaches'_settled hr hx (Or.inr hs)

/-- under `$x = 1` the filter predicate `$x` is reached but bound: no error; the iff, read right to left, needs the
    reference to be unbound -/
example : ieval .null (.filterCurrent vX) arr1 [(C19.dx, C19.n1)] = .ok arr1 := rfl
example : (∃ cs, ieval .null (.filterCurrent vX) arr1 [] = .err cs ∧ Cat.undefinedVariable ∈ cs) :=
  (undefined_iff_reaches' .null (.filterCurrent vX) arr1 []).mpr
    ⟨⟨_, rfl⟩, C19.dx, .filterCurrentPred (t := .plain) (xs := [C19.n1]) (y := C19.n1) (VFilter.head []) .var, rfl⟩

/-- at top level: `Evaluate` starts without bindings, so every reference of the expression is unbound -/
theorem evaluate_undefined_iff (n : INode) (d : Val) :
    (∃ cs, evaluate n d = .err cs ∧ Cat.undefinedVariable ∈ cs) ↔
      ((∃ cs, evaluate n d = .err cs) ∧ ∃ x, Reaches' d x n d []) := by
  rw [show evaluate n d = ieval d n d [] from rfl, undefined_iff_reaches']
  constructor
  · rintro ⟨hs, x, hr, _⟩; exact ⟨hs, x, hr⟩
  · rintro ⟨hs, x, hr⟩; exact ⟨hs, x, hr, rfl⟩

/-- `map(&$x, @)` on `[1]` -/
example : ∃ cs, evaluate (.map vX .current) arr1 = .err cs ∧ Cat.undefinedVariable ∈ cs :=
  (evaluate_undefined_iff _ _).mpr
    ⟨⟨_, rfl⟩, C19.dx, .mapElem (a := .current) (t := .plain) (xs := [C19.n1]) (y := C19.n1) rfl (VMap.head []) .var⟩

/-- through `Search`, for an expression that compiles -/
theorem search_undefined_iff {e : Bytes} {n : INode} (hc : compile e = .ok n) (d : Val) :
    (∃ cs, search e d = .err cs ∧ Cat.undefinedVariable ∈ cs) ↔
      ((∃ cs, search e d = .err cs) ∧ ∃ x, Reaches' d x n d []) := by
  simp only [compile] at hc
  simp only [search, hc]
  exact evaluate_undefined_iff n d

/-- no reached unbound reference, no undefined-variable error -/
theorem no_reaches'_no_undefined {root : Val} {n : INode} {cur : Val} {env : Env}
    (h : ∀ x, env.get x = none → ¬ Reaches' root x n cur env) :
    ∀ cs, ieval root n cur env = .err cs → Cat.undefinedVariable ∉ cs := by
  intro cs hr hu
  obtain ⟨x, hx, hn⟩ := undefined_reaches' hr hu
  exact h x hn hx

/-- `map(&$x, @)` on `[]`: whatever the outcome is, it is not an undefined-variable error -/
example : ∀ cs, ieval .null (.map vX .current) arr0 [] = .err cs → Cat.undefinedVariable ∉ cs :=
  no_reaches'_no_undefined fun _ _ h => reached'_not_ok h rfl arr0 rfl

/-- a compile error is never undefined-variable (so `search_undefined_iff` covers every way `Search` can answer it) -/
theorem compile_error_not_undefined {e : Bytes} {err : PErr} (hc : compile e = .error err) (d : Val) :
    ∀ cs, search e d = .err cs → Cat.undefinedVariable ∉ cs := by
  intro cs hs
  simp only [compile] at hc
  simp only [search, hc] at hs
  cases err <;> simp only [parseCat] at hs <;> cases hs <;> decide

/-- `$1` does not compile: a syntax error -/
example (d : Val) : ∀ cs, search (Ex.bs "$1") d = .err cs → Cat.undefinedVariable ∉ cs :=
  compile_error_not_undefined C19B.dollar_digit_rejected d

/-! ## 5. examples -/

/-! ### `a[?$x]` -/

def tFilter : PTree := .filt (Ex.idt "a") (.atom ⟨.variable, Ex.bs "$x"⟩) .icur

theorem filter_parse : compile (Ex.bs "a[?$x]") = .ok (.filter (.field ka) vX) :=
  parse_complete (t := tFilter) (by decide) (by decide)

/-- on `{"a": [1]}` the predicate is evaluated on the element `1`: the reference is reached … -/
theorem filter_reaches : Reaches' (docA arr1) C19.dx (.filter (.field ka) vX) (docA arr1) [] :=
  .filterPred (t := .plain) (xs := [C19.n1]) (y := C19.n1) rfl (VFilter.head []) .var

/-- … and the outcome is the undefined-variable error (Go: `undefined variable "$x"`) -/
theorem filter_nonempty : search (Ex.bs "a[?$x]") (docA arr1) = .err [Cat.undefinedVariable] := by
  have h := filter_parse
  simp only [compile] at h
  simp only [search, h]
  rfl

example : ∃ cs, search (Ex.bs "a[?$x]") (docA arr1) = .err cs ∧ Cat.undefinedVariable ∈ cs :=
  (search_undefined_iff filter_parse _).mpr ⟨⟨_, filter_nonempty⟩, _, filter_reaches⟩

/-- on `{"a": []}` the predicate is never evaluated: the result is `[]` (Go: `[]`) … -/
theorem filter_empty : search (Ex.bs "a[?$x]") (docA arr0) = .ok arr0 := by
  have h := filter_parse
  simp only [compile] at h
  simp only [search, h]
  rfl

/-- … and no reference is reached -/
theorem filter_empty_not_reached (x : Bytes) : ¬ Reaches' (docA arr0) x (.filter (.field ka) vX) (docA arr0) [] := by
  intro h
  exact reached'_not_ok h rfl arr0 rfl

/-! ### `map(&$x, a)` -/

def tMap : PTree :=
  .call ⟨.unquotedIdentifier, Ex.bs "map"⟩ [.ref (.atom ⟨.variable, Ex.bs "$x"⟩), Ex.idt "a"]

theorem map_parse : compile (Ex.bs "map(&$x, a)") = .ok (.map vX (.field ka)) :=
  parse_complete (t := tMap) (by decide) (by decide)

/-- non-empty `a`: the body `&$x` is evaluated on the first element -/
theorem map_reaches : Reaches' (docA arr1) C19.dx (.map vX (.field ka)) (docA arr1) [] :=
  .mapElem (t := .plain) (xs := [C19.n1]) (y := C19.n1) rfl (VMap.head []) .var

theorem map_nonempty : search (Ex.bs "map(&$x, a)") (docA arr1) = .err [Cat.undefinedVariable] := by
  have h := map_parse
  simp only [compile] at h
  simp only [search, h]
  rfl

/-- the forward theorem predicts it: a settled outcome of a reached unbound reference is the error -/
example : ∃ cs, evaluate (.map vX (.field ka)) (docA arr1) = .err cs ∧ Cat.undefinedVariable ∈ cs :=
  reaches'_settled map_reaches rfl (Or.inr ⟨_, rfl⟩)

/-- empty `a`: the result is `[]` (Go: `[]`), and **no `Reaches'` derivation exists** -/
theorem map_empty : search (Ex.bs "map(&$x, a)") (docA arr0) = .ok arr0 := by
  have h := map_parse
  simp only [compile] at h
  simp only [search, h]
  rfl

theorem map_empty_not_reached (x : Bytes) : ¬ Reaches' (docA arr0) x (.map vX (.field ka)) (docA arr0) [] := by
  intro h
  exact reached'_not_ok h rfl arr0 rfl

/-- the same for `sort_by(a, &$x)`, `max_by`, `min_by`, `group_by` on an empty array: nothing is reached -/
example (x : Bytes) : ¬ Reaches' (docA arr0) x (.sortBy (.field ka) vX) (docA arr0) [] :=
  fun h => reached'_not_ok h rfl arr0 rfl
example (x : Bytes) : ¬ Reaches' (docA arr0) x (.groupBy (.field ka) vX) (docA arr0) [] :=
  fun h => reached'_not_ok h rfl .null rfl
example : Reaches' (docA arr1) C19.dx (.sortBy (.field ka) vX) (docA arr1) [] :=
  .sortByElem (t := .plain) (xs := [C19.n1]) (y := C19.n1) rfl (VKeys.head []) .var
example : Reaches' (docA arr1) C19.dx (.maxBy (.field ka) vX) (docA arr1) [] :=
  .maxByElem (t := .plain) (xs := [C19.n1]) (y := C19.n1) rfl (VKeys.head []) .var
example : Reaches' (docA arr1) C19.dx (.groupBy (.field ka) vX) (docA arr1) [] :=
  .groupByElem (t := .plain) (xs := [C19.n1]) (y := C19.n1) rfl (VGroup.head []) .var

/-- a later element: in `map(&(@ && $x), a)` on `{"a": [false, 1]}` the first element is processed without failure
    (`false && …` is `false`), the reference is reached on the second -/
example : Reaches' .null C19.dx (.map (.and .current vX) .current) (.arr .plain [.bool false, C19.n1]) [] :=
  .mapElem (a := .current) (t := .plain) (xs := [.bool false, C19.n1]) (y := C19.n1) rfl
    (Or.inl ⟨[.bool false], [], rfl, AllOk.cons (v := .bool false) rfl (AllOk.nil _)⟩)
    (.andR (l := .current) (a := C19.n1) rfl rfl .var)
example : evaluate (.map (.and .current vX) .current) (.arr .plain [.bool false, C19.n1]) =
    .err [Cat.undefinedVariable] := rfl

/-! ### `[a, $x]`: the second member -/

def tList : PTree := .multiList [Ex.idt "a", .atom ⟨.variable, Ex.bs "$x"⟩]

theorem list_parse : compile (Ex.bs "[a, $x]") = .ok (.selectArrayCurrent [.field ka, vX]) :=
  parse_complete (t := tList) (by decide) (by decide)

theorem list_second (d : Val) (hd : d.isNull = false) :
    search (Ex.bs "[a, $x]") d = .err [Cat.undefinedVariable] := by
  have h := list_parse
  simp only [compile] at h
  simp only [search, h, evaluate, vX, ieval, hd, ievalList, Env.get, objLookup, Bool.false_eq_true, if_false, Res.ok_bind,
    Res.err_bind]

example (d : Val) (hd : d.isNull = false) :
    ∃ x, Reaches' d x (.selectArrayCurrent [.field ka, vX]) d [] :=
  ((search_undefined_iff list_parse d).mp ⟨_, list_second d hd, by simp⟩).2

/-- on `null` a multi-select is `null`: the members are not evaluated, nothing is reached -/
example (x : Bytes) : ¬ Reaches' .null x (.selectArrayCurrent [.field ka, vX]) .null [] :=
  fun h => reached'_not_ok h rfl .null rfl

/-! ### `contains(a, $x)`: the second argument -/

def tContains : PTree :=
  .call ⟨.unquotedIdentifier, Ex.bs "contains"⟩ [Ex.idt "a", .atom ⟨.variable, Ex.bs "$x"⟩]

theorem contains_parse : compile (Ex.bs "contains(a, $x)") = .ok (.call .contains [.field ka, vX]) :=
  parse_complete (t := tContains) (by decide) (by decide)

theorem contains_reaches (d : Val) : Reaches' d C19.dx (.call .contains [.field ka, vX]) d [] :=
  .callArg (pre := [.field ka]) (post := []) (vs := [field ka d])
    (by simp only [ievalList, ieval, Res.ok_bind, Res.pure_eq]) .var

theorem contains_second (d : Val) : search (Ex.bs "contains(a, $x)") d = .err [Cat.undefinedVariable] := by
  have h := contains_parse
  simp only [compile] at h
  simp only [search, h, evaluate, vX, ieval, ievalList, Env.get, objLookup, Res.ok_bind, Res.err_bind]

/-! ### `let $a = a, $b = $x in $a`: the second binding -/

def tLet2 : PTree :=
  .letIn [(⟨.variable, Ex.bs "$a"⟩, Ex.idt "a"), (⟨.variable, Ex.bs "$b"⟩, .atom ⟨.variable, Ex.bs "$x"⟩)]
    (.atom ⟨.variable, Ex.bs "$a"⟩)

theorem let2_parse : compile (Ex.bs "let $a = a, $b = $x in $a") =
    .ok (.defineVariables [(Ex.bs "$a", .field ka), (Ex.bs "$b", vX)] (.variable (Ex.bs "$a"))) :=
  parse_complete (t := tLet2) (by decide) (by decide +kernel)

theorem let2_reaches (d : Val) :
    Reaches' d C19.dx (.defineVariables [(Ex.bs "$a", .field ka), (Ex.bs "$b", vX)] (.variable (Ex.bs "$a"))) d [] :=
  .letBind (k := Ex.bs "$b") (e := vX) (by simp) .var

theorem let2_second (d : Val) : search (Ex.bs "let $a = a, $b = $x in $a") d = .err [Cat.undefinedVariable] := by
  have h := let2_parse
  simp only [compile] at h
  simp only [search, h, evaluate, vX, ieval, ievalFields, combineUnordered, Env.get, objLookup, Res.err_bind]

/-! ### `{p: a, q: $x}`: a member of a multi-select hash -/

def tHash : PTree :=
  .multiHash [(⟨.unquotedIdentifier, Ex.bs "p"⟩, Ex.idt "a"),
    (⟨.unquotedIdentifier, Ex.bs "q"⟩, .atom ⟨.variable, Ex.bs "$x"⟩)]

theorem hash_parse : compile (Ex.bs "{p: a, q: $x}") =
    .ok (.selectObjectCurrent [(Ex.bs "p", .field ka), (Ex.bs "q", vX)]) :=
  parse_complete (t := tHash) (by decide) (by decide +kernel)

theorem hash_reaches (d : Val) (hd : d.isNull = false) :
    Reaches' d C19.dx (.selectObjectCurrent [(Ex.bs "p", .field ka), (Ex.bs "q", vX)]) d [] :=
  .selectObjectCurrentMem (k := Ex.bs "q") (e := vX) hd (by simp) .var

theorem hash_member (d : Val) (hd : d.isNull = false) :
    search (Ex.bs "{p: a, q: $x}") d = .err [Cat.undefinedVariable] := by
  have h := hash_parse
  simp only [compile] at h
  simp only [search, h, evaluate, vX, ieval, hd, ievalFields, combineUnordered, Env.get, objLookup, Bool.false_eq_true,
    if_false, Res.err_bind]

/-! ### `*.[$x]`: a projection over the values of an object (a map-ordered list) -/

def tStar : PTree := .ostar .icur (.dotList .icur [.atom ⟨.variable, Ex.bs "$x"⟩])

theorem star_parse : compile (Ex.bs "*.[$x]") = .ok (.projectObjectCurrent (.selectArraySingleCurrent vX)) :=
  parse_complete (t := tStar) (by decide) (by decide)

/-- `{"a": 1, "b": 2}` -/
def docAB : Val := .obj [([0x61], C19.n1), ([0x62], C19.n2)]

/-- any member value may come first: both elements are visited (map-ordered clause of `Visits`, through `VProj.any`) -/
theorem star_reaches (y : Val) (hy : y ∈ [C19.n1, C19.n2]) :
    Reaches' docAB C19.dx (.projectObjectCurrent (.selectArraySingleCurrent vX)) docAB [] :=
  .projectObjectCurrentElem (kvs := [([0x61], C19.n1), ([0x62], C19.n2)]) (y := y)
    (VProj.any rfl hy ((Reaches'.selectArraySingleCurrent .var).und rfl))
    (.selectArraySingleCurrent .var)

theorem star_two : search (Ex.bs "*.[$x]") docAB = .err [Cat.undefinedVariable] := by
  have h := star_parse
  simp only [compile] at h
  simp only [search, h]
  rfl

/-- on the empty object the right-hand side is never evaluated -/
example : search (Ex.bs "*.[$x]") (.obj []) = .ok (.arr .enum []) := by
  have h := star_parse
  simp only [compile] at h
  simp only [search, h]
  rfl

/-! ### an outcome the model does not settle -/

/-- `not_null((*)[0] | $x)`: the member values of the element, the first of them, then `$x` -/
def rNd : INode := .notNull [.pipe (.index .objectValuesCurrent 0) vX]
/-- `{"a": {"p": 1, "q": 2}, "b": 1}` -/
def docNd : Val := .obj [([0x61], .obj [([0x70], C19.n1), ([0x71], C19.n2)]), ([0x62], C19.n1)]

def tNd : PTree :=
  .ostar .icur (.dotId .icur (.call ⟨.unquotedIdentifier, Ex.bs "not_null"⟩
    [.bin (Ex.op .pipe "|") (.index (.paren (.ostar .icur .icur)) (Ex.int "0")) (.atom ⟨.variable, Ex.bs "$x"⟩)]))

theorem nondet_parse : compile (Ex.bs "*.not_null((*)[0] | $x)") = .ok (.projectObjectCurrent rNd) :=
  parse_complete (t := tNd) (by decide +kernel) (by decide +kernel)

/-- **`nondet` really arises.**  `*.not_null((*)[0] | $x)` on `{"a": {"p": 1, "q": 2}, "b": 1}`: on the member `b` the
    reference is reached (`*` of `1` is `null`, `null[0]` is `null`, then `$x`); on the member `a` the model does not
    settle the right-hand side (which value of a two-entry map is "the first" depends on Go's iteration order), so it
    does not settle the projection either: the outcome is `nondet`, not an error — this is why the forward theorem
    speaks of `Und`.  (In Go both elements fail with undefined variable whatever the order — 20 runs out of 20 —; the
    model is merely cautious.) -/
theorem nondet_arises :
    Reaches' docNd C19.dx (.projectObjectCurrent rNd) docNd [] ∧
    search (Ex.bs "*.not_null((*)[0] | $x)") docNd = .nondet := by
  constructor
  · have hr : Reaches' docNd C19.dx rNd C19.n1 [] := .notNullArg (pre := []) rfl (.pipeR (a := .null) rfl .var)
    exact .projectObjectCurrentElem
      (kvs := [([0x61], .obj [([0x70], C19.n1), ([0x71], C19.n2)]), ([0x62], C19.n1)]) (y := C19.n1)
      (VProj.any rfl (by simp) (hr.und rfl)) hr
  · have h := nondet_parse
    simp only [compile] at h
    simp only [search, h]
    rfl

/-- with the one member `b` only, the outcome is settled: the error -/
example : search (Ex.bs "*.not_null((*)[0] | $x)") (.obj [([0x62], C19.n1)]) = .err [Cat.undefinedVariable] := by
  have h := nondet_parse
  simp only [compile] at h
  simp only [search, h]
  rfl

/-! ## 6. FINDINGS: the model's widening reaches references that Go never evaluates

  `widen` adds, on a map-ordered input whose loop fails, the error categories of *every* listed function on *every*
  listed element.  Two loops list more than Go evaluates; `Reaches'` mirrors the model (it has to, for the iff), so in these
  two situations a `Reaches'` derivation can point at a reference no Go evaluation order reaches.  The model outcome is
  a superset of what Go can report (an over-approximation, not a disagreement). -/

/-- `not_null((@ && abs('a')) || $x)` -/
def rPh : INode := .notNull [.or (.and .current (.call .abs [.lit (.str ka)])) vX]
/-- `{"a": [], "b": [1]}` -/
def docPh : Val := .obj [([0x61], arr0), ([0x62], arr1)]

def tPh1 : PTree :=
  .flat (.call ⟨.unquotedIdentifier, Ex.bs "values"⟩ [.atom ⟨.current, Ex.bs "@"⟩])
    (.dotId .icur (.call ⟨.unquotedIdentifier, Ex.bs "not_null"⟩
      [.bin (Ex.op .or "||")
        (.paren (.bin (Ex.op .and "&&") (.atom ⟨.current, Ex.bs "@"⟩)
          (.call ⟨.unquotedIdentifier, Ex.bs "abs"⟩ [.atom ⟨.stringLiteral, Ex.bs "'a'"⟩])))
        (.atom ⟨.variable, Ex.bs "$x"⟩)]))

theorem phantom_flatten_parse : compile (Ex.bs "values(@)[].not_null((@ && abs('a')) || $x)") =
    .ok (.flattenAndProject (.call .values [.current]) rPh) :=
  parse_complete (t := tPh1) (by decide +kernel) (by decide +kernel)

/-- **(a) flatten-and-project.**  `values(@)[].not_null((@ && abs('a')) || $x)` on `{"a": [], "b": [1]}`: the flattened
    list is `[1]`, its only element fails with invalid-type (`abs('a')`), and the reference `$x` would only be reached
    on a `null` element.  The model widens over `[1, null, null]` and lists undefined-variable too; Go answers
    `invalid type` (in every order: there is one element). -/
theorem phantom_flatten :
    search (Ex.bs "values(@)[].not_null((@ && abs('a')) || $x)") docPh = .err [Cat.invalidType, Cat.undefinedVariable] ∧
    flattenForProject [arr0, arr1] = [C19.n1] ∧ ieval docPh rPh C19.n1 [] = .err [Cat.invalidType] := by
  refine ⟨?_, rfl, rfl⟩
  have h := phantom_flatten_parse
  simp only [compile] at h
  simp only [search, h]
  rfl

/-- the `Reaches'` derivation for it goes through the phantom element `null` -/
example : Reaches' docPh C19.dx (.flattenAndProject (.call .values [.current]) rPh) docPh [] :=
  .flattenAndProjectElem (t := .enum) (xs := [arr0, arr1]) (y := .null) rfl
    (Or.inr ⟨rfl, by simp [flattenForProject, arr0, arr1], by intro b e; cases e⟩)
    (.notNullArg (pre := []) rfl (.orR (a := .null) rfl rfl .var))

/-- ``abs(@) == `1` `` -/
def cPh : INode := .binop .eq (.call .abs [.current]) (.lit C19.n1)
/-- `{"a": "s", "b": 2}` -/
def docPh2 : Val := .obj [([0x61], .str [0x73]), ([0x62], C19.n2)]

def tPh2 : PTree :=
  .filt (.call ⟨.unquotedIdentifier, Ex.bs "values"⟩ [.atom ⟨.current, Ex.bs "@"⟩])
    (.bin (Ex.op .equal "==") (.call ⟨.unquotedIdentifier, Ex.bs "abs"⟩ [.atom ⟨.current, Ex.bs "@"⟩])
      (.atom ⟨.jsonLiteral, Ex.bs "`1`"⟩))
    (.dotId .icur (.call ⟨.unquotedIdentifier, Ex.bs "not_null"⟩ [.atom ⟨.variable, Ex.bs "$x"⟩]))

theorem phantom_filter_parse : compile (Ex.bs "values(@)[?abs(@) == `1`].not_null($x)") =
    .ok (.filterAndProject (.call .values [.current]) cPh (.notNull [vX])) :=
  parse_complete (t := tPh2) (by decide +kernel) (by decide +kernel)

/-- **(b) filter-and-project.**  ``values(@)[?abs(@) == `1`].not_null($x)`` on `{"a": "s", "b": 2}`: the predicate fails
    on `"s"` (invalid-type) and is false on `2`, so Go never evaluates the right-hand side, in either order, and answers
    `invalid type`.  The model widens over the right-hand side on *all* elements and lists undefined-variable too. -/
theorem phantom_filter :
    search (Ex.bs "values(@)[?abs(@) == `1`].not_null($x)") docPh2 = .err [Cat.invalidType, Cat.undefinedVariable] ∧
    ieval docPh2 cPh (.str [0x73]) [] = .err [Cat.invalidType] ∧ ieval docPh2 cPh C19.n2 [] = .ok (.bool false) := by
  refine ⟨?_, rfl, rfl⟩
  have h := phantom_filter_parse
  simp only [compile] at h
  simp only [search, h]
  rfl

/-- the `Reaches'` derivation for it: the right-hand side on an element whose predicate is falsy (map-ordered clause) -/
example : Reaches' docPh2 C19.dx (.filterAndProject (.call .values [.current]) cPh (.notNull [vX])) docPh2 [] :=
  .filterAndProjectRhs (t := .enum) (xs := [.str [0x73], C19.n2]) (y := C19.n2) rfl
    (Or.inr ⟨rfl, by simp, by intro b e; cases e⟩)
    (.notNullArg (pre := []) rfl .var)

end Jmes.C19C
