/-
  Property C18 — "For JSON input every result consists only of nil, booleans, strings, numbers and []any /
  map[string]any of such values, serialises with encoding/json, and is itself acceptable as input. Searching e2
  over the result of searching e1 equals searching `e1 | e2` over the original document, for every e2 that does
  not mention the root node or outer variables."

  A. `ieval_plain` (+ `ievalList_plain`, `ievalFields_plain`), `evaluate_plain`, `search_plain`:
     plain inputs (no nil slice, no foreign Go value; literals plain) give plain results.
     `Json.decode_plain` (in Jmes/Proofs/ParserLits.lean): what `encoding/json` decodes — documents and the JSON
     literals of expressions — is plain; `compile_plainLits`: hence every literal of a compiled expression is plain,
     and `search_plain` holds for every expression.
  B. `marshal_total`: a plain value whose numbers are valid `json.Number`s or Go integers is serialised by
     `Json.encode` (never `fail`, never `unmodelled`).
  C. `ieval_root_free`, `pipe_feed_back`, `evaluate_pipe`: a root-free right-hand side of a pipe can be evaluated
     on the left-hand side's result taken as a new document; `pipe_feed_back_closed` the same inside an arbitrary
     environment for a right-hand side without variables. Counterexamples for `$` and for an outer variable.
-/
import Jmes.Proofs.Invariants
import Jmes.Proofs.ParserLits
namespace Jmes.C18
open Invar

/-! ## A: plain in, plain out -/

/-- in non-strict mode the per-node requirement is just: literals are plain -/
theorem nodeOk_false : nodeOk false = INode.litOk Val.Plain := by
  funext m
  show (INode.litOk Val.Plain m && (!false || INode.noEnumHead m)) = _
  simp

theorem all_nodeOk_false {n : INode} (hl : n.PlainLits = true) : n.all (nodeOk false) = true := by
  rw [nodeOk_false]
  exact hl

theorem ieval_plain {root : Val} (hroot : root.Plain = true) (n : INode) (cur : Val) (env : Env)
    (hn : n.PlainLits = true) (hcur : cur.Plain = true) (henv : Env.Plain env = true) :
    ∀ r, ieval root n cur env = .ok r → r.Plain = true :=
  Sat.nonstrict_iff.mp (ieval_sat (s := false) hroot n cur env (all_nodeOk_false hn) hcur henv)

theorem ievalList_plain {root : Val} (hroot : root.Plain = true) (ns : List INode) (cur : Val) (env : Env)
    (hn : INode.allL (INode.litOk Val.Plain) ns = true) (hcur : cur.Plain = true) (henv : Env.Plain env = true) :
    ∀ rs, ievalList root ns cur env = .ok rs → ∀ r ∈ rs, r.Plain = true := fun rs h =>
  goodL_iff.mp (Sat.nonstrict_iff.mp
    (ievalList_sat (s := false) hroot ns cur env (by rw [nodeOk_false]; exact hn) hcur henv) rs h)

theorem ievalFields_plain {root : Val} (hroot : root.Plain = true) (fs : List (Bytes × INode)) (cur : Val) (env : Env)
    (hn : INode.allF (INode.litOk Val.Plain) fs = true) (hcur : cur.Plain = true) (henv : Env.Plain env = true) :
    ∀ kvs, ievalFields root fs cur env = .ok kvs → Env.Plain kvs = true :=
  Sat.nonstrict_iff.mp
    (ievalFields_sat (s := false) hroot fs cur env (by rw [nodeOk_false]; exact hn) hcur henv
      (fun h => Bool.noConfusion h))

theorem evaluate_plain {d : Val} {n : INode} (hd : d.Plain = true) (hn : n.PlainLits = true) :
    ∀ r, evaluate n d = .ok r → r.Plain = true :=
  ieval_plain hd n d [] hn hd rfl

/-- the same through `search`, given that the compiled expression carries plain literals only -/
theorem search_plain_of_lits {expr : Bytes} {d r : Val} (hlit : ∀ n, compile expr = .ok n → n.PlainLits = true)
    (hd : d.Plain = true) (h : search expr d = .ok r) : r.Plain = true := by
  unfold search at h
  unfold compile at hlit
  split at h
  · cases h
  · cases h
  · next n hp => exact evaluate_plain hd (hlit n hp) r h

/-- the parser builds literal nodes from `Json.decode` (plain by `Json.decode_plain`) and from raw strings only -/
theorem compile_plainLits {expr : Bytes} {n : INode} (h : compile expr = .ok n) : n.PlainLits = true :=
  ParserLits.parse_plainLits h

/-- **C18, first sentence**: searching a plain document yields a plain result, for every expression. -/
theorem search_plain {expr : Bytes} {d r : Val} (hd : d.Plain = true) (h : search expr d = .ok r) : r.Plain = true :=
  search_plain_of_lits (fun _ hn => compile_plainLits hn) hd h

/-! ## B: plain values with JSON numbers serialise -/

mutual
theorem encode_total : ∀ v : Val, Val.Marshalable v = true → ∃ b, Json.encode v = .ok b
  | .null, _ => ⟨_, rfl⟩
  | .bool true, _ => ⟨_, rfl⟩
  | .bool false, _ => ⟨_, rfl⟩
  | .str s, _ => ⟨_, rfl⟩
  | .num (.jnum t), h => by
    simp only [Val.Marshalable] at h
    simp only [Json.encode, h, if_true]
    split <;> exact ⟨_, rfl⟩
  | .num (.int k v), _ => ⟨_, rfl⟩
  | .num (.dec d), h => by simp [Val.Marshalable] at h
  | .num (.f64 f), h => by simp [Val.Marshalable] at h
  | .num (.f32 f), h => by simp [Val.Marshalable] at h
  | .arr t xs, h => by
    simp only [Val.Marshalable] at h
    obtain ⟨parts, hp⟩ := encodeL_total xs h
    cases t <;> simp only [Json.encode, hp] <;> exact ⟨_, rfl⟩
  | .obj kvs, h => by
    simp only [Val.Marshalable] at h
    obtain ⟨parts, hp⟩ := encodeF_total kvs h
    simp only [Json.encode, hp]
    exact ⟨_, rfl⟩
  | .foreign t, h => by simp [Val.Marshalable] at h
theorem encodeL_total : ∀ xs : List Val, Val.MarshalableL xs = true → ∃ b, Json.encodeL xs = .ok b
  | [], _ => ⟨_, rfl⟩
  | [x], h => by
    simp only [Val.MarshalableL, Bool.and_eq_true] at h
    simp only [Json.encodeL]
    exact encode_total x h.1
  | x :: y :: rest, h => by
    simp only [Val.MarshalableL, Bool.and_eq_true] at h
    obtain ⟨b, hb⟩ := encode_total x h.1
    obtain ⟨r, hr⟩ := encodeL_total (y :: rest) (by simp only [Val.MarshalableL, Bool.and_eq_true]; exact h.2)
    simp only [Json.encodeL, hb, hr]
    exact ⟨_, rfl⟩
theorem encodeF_total : ∀ kvs : List (Bytes × Val), Val.MarshalableF kvs = true → ∃ b, Json.encodeF kvs = .ok b
  | [], _ => ⟨_, rfl⟩
  | [(k, x)], h => by
    simp only [Val.MarshalableF, Bool.and_eq_true] at h
    obtain ⟨b, hb⟩ := encode_total x h.1
    simp only [Json.encodeF, hb]
    exact ⟨_, rfl⟩
  | (k, x) :: (k', y) :: rest, h => by
    simp only [Val.MarshalableF, Bool.and_eq_true] at h
    obtain ⟨b, hb⟩ := encode_total x h.1
    obtain ⟨r, hr⟩ := encodeF_total ((k', y) :: rest) (by simp only [Val.MarshalableF, Bool.and_eq_true]; exact h.2)
    simp only [Json.encodeF, hb, hr]
    exact ⟨_, rfl⟩
end

/-- **C18, "serialises with encoding/json"**: `json.Marshal` succeeds on a plain value whose numbers are valid
    JSON numbers or integers. (`Marshalable` alone suffices; plainness is what `ieval_plain` provides.) -/
theorem marshal_total {v : Val} (_hp : v.Plain = true) (hm : Val.Marshalable v = true) : ∃ b, Json.encode v = .ok b :=
  encode_total v hm

/-- consequently `to_string` of such a value is a string (never an error, never unmodelled) -/
theorem toString_total {v : Val} (hp : v.Plain = true) (hm : Val.Marshalable v = true) (hne : v.hasEnum2 = false) :
    ∃ b, toStringV v = .ok (.str b) := by
  obtain ⟨b, hb⟩ := marshal_total hp hm
  cases v with
  | str s => exact ⟨s, rfl⟩
  | _ => simp only [toStringV, hne, hb] <;> exact ⟨_, rfl⟩

/-! ## C: feeding a result back -/

/-- a root-free node does not look at the root document -/
theorem ieval_root_free {n : INode} (h : n.RootFree = true) (root root' cur : Val) (env : Env) :
    ieval root n cur env = ieval root' n cur env :=
  ieval_root_irrel root root' n cur env h

/-- a variable-free node does not look at the environment -/
theorem ieval_var_free {n : INode} (h : n.VarFree = true) (root cur : Val) (env env' : Env) :
    ieval root n cur env = ieval root n cur env' :=
  ieval_env_irrel root n cur env env' h

/-- **C18, second sentence, on the evaluator**: `e1 | e2` on `d` = `e2` on the result of `e1` as a new document -/
theorem pipe_feed_back {n1 n2 : INode} (h : n2.RootFree = true) (d : Val) :
    ieval d (.pipe n1 n2) d [] = (ieval d n1 d [] >>= fun r => ieval r n2 r []) := by
  simp only [ieval]
  congr
  funext r
  exact ieval_root_free h d r r []

theorem evaluate_pipe {n1 n2 : INode} (h : n2.RootFree = true) (d : Val) :
    evaluate (.pipe n1 n2) d = (evaluate n1 d >>= fun r => evaluate n2 r) :=
  pipe_feed_back h d

/-- in terms of results: whatever `e1` yields, searching `e2` over it is what `e1 | e2` yields -/
theorem evaluate_pipe_ok {n1 n2 : INode} (h : n2.RootFree = true) {d r : Val} (h1 : evaluate n1 d = .ok r) :
    evaluate (.pipe n1 n2) d = evaluate n2 r := by
  rw [evaluate_pipe h, h1]
  rfl

/-- the same anywhere inside an expression (arbitrary root, current value and environment), for a right-hand side
    that mentions neither the root nor any variable -/
theorem pipe_feed_back_closed {n1 n2 : INode} (hr : n2.RootFree = true) (hv : n2.VarFree = true)
    (root cur : Val) (env : Env) :
    ieval root (.pipe n1 n2) cur env = (ieval root n1 cur env >>= fun r => evaluate n2 r) := by
  simp only [ieval, evaluate]
  congr
  funext r
  rw [ieval_root_free hr root r r env, ieval_var_free hv r r env []]

/-! ### non-vacuity and counterexamples -/

def one : Val := .num (.jnum [0x31])
/-- `{"a": {"b": [1, null]}}` -/
def doc : Val := .obj [([0x61], .obj [([0x62], .arr .plain [one, .null])])]
/-- `a` and `b[*]` -/
def e1 : INode := .field [0x61]
def e2 : INode := .projectArray (.field [0x62]) .current

example : doc.Plain = true := by decide
example : (Val.arr .nil []).Plain = false := by decide
example : (Val.arr .plain [.foreign 0]).Plain = false := by decide
example : e2.PlainLits = true := by decide
example : (INode.lit (.arr .nil [])).PlainLits = false := by decide
example : e2.RootFree = true := by decide
example : (INode.pipe e1 .root).RootFree = false := by decide
example : evaluate (.pipe e1 e2) doc = .ok (.arr .plain [one]) := rfl
example : ∀ r, evaluate (.pipe e1 e2) doc = .ok r → r.Plain = true := evaluate_plain (by decide) (by decide)
example : evaluate (.pipe e1 e2) doc = evaluate e2 (.obj [([0x62], .arr .plain [one, .null])]) :=
  evaluate_pipe_ok (by decide) rfl
/-- a nil slice in the input does surface in a result (so `root.Plain` is needed) -/
example : evaluate (.field [0x61]) (.obj [([0x61], .arr .nil [])]) = .ok (.arr .nil []) := rfl
/-- an enumerating expression yields a plain (if map-ordered) result -/
example : evaluate .objectValuesCurrent doc = .ok (.arr .enum [.obj [([0x62], .arr .plain [one, .null])]]) := rfl

example : Json.decode [0x5B, 0x31, 0x2C, 0x6E, 0x75, 0x6C, 0x6C, 0x5D] = some (.arr .plain [one, .null]) := rfl
example : (Val.arr .plain [one, .null]).Plain = true :=
  Json.decode_plain (s := [0x5B, 0x31, 0x2C, 0x6E, 0x75, 0x6C, 0x6C, 0x5D]) rfl

/-- `search` through the real parser: the expression `a`, and the literal expression `` `[1]` `` -/
example : (match search [0x61] doc with | .ok (.obj [_]) => true | _ => false) = true := by decide +kernel
example : ∀ r, search [0x61] doc = .ok r → r.Plain = true := fun _ h => search_plain (by decide) h
example : (match compile [0x60, 0x5B, 0x31, 0x5D, 0x60] with
    | .ok (.lit (.arr .plain [.num (.jnum [0x31])])) => true
    | _ => false) = true := by decide +kernel
example : ∀ n, compile [0x60, 0x5B, 0x31, 0x5D, 0x60] = .ok n → n.PlainLits = true := fun _ h => compile_plainLits h

example : Val.Marshalable doc = true := by decide
example : Val.Marshalable (.num (.jnum [0x2D])) = false := by decide
example : ∃ b, Json.encode doc = .ok b := marshal_total (by decide) (by decide)
/-- `Marshalable` is needed: a `json.Number` that is not a number makes `json.Marshal` fail -/
example : (Val.num (.jnum [0x2D])).Plain = true ∧ (match Json.encode (.num (.jnum [0x2D])) with | .fail => true | _ => false) = true :=
  ⟨by decide, by decide⟩

/-- COUNTEREXAMPLE without root-freeness: `a | $` on `{"a": 1}` is the document, but `$` on `1` is `1` -/
theorem feed_back_needs_root_free :
    evaluate (.pipe (.field [0x61]) .root) (.obj [([0x61], one)]) = .ok (.obj [([0x61], one)]) ∧
    (evaluate (.field [0x61]) (.obj [([0x61], one)]) >>= fun r => evaluate .root r) = .ok one :=
  ⟨rfl, rfl⟩

/-- COUNTEREXAMPLE with an outer variable: in `let $x = a in (a | $x)` the right-hand side `$x` evaluated on its own
    fails with undefined-variable -/
theorem feed_back_needs_closed :
    ieval (.obj [([0x61], one)]) (.pipe (.field [0x61]) (.variable [0x78])) (.obj [([0x61], one)]) [([0x78], one)]
      = .ok one ∧
    (ieval (.obj [([0x61], one)]) (.field [0x61]) (.obj [([0x61], one)]) [([0x78], one)]
      >>= fun r => evaluate (.variable [0x78]) r) = .err [Cat.undefinedVariable] :=
  ⟨rfl, rfl⟩

end Jmes.C18
