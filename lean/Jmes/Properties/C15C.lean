/-
  Property C15, third round — "Evaluating the same expression on equal documents always yields equal outcomes … The
  only permitted variation is the order of elements in arrays obtained by enumerating an object's members and which
  fault is reported when several sub-expressions fail at once."

  `Jmes/Properties/C15B.lean` introduced the oracle semantics `ievalO π` (one concrete run; `π` = Go's map iteration
  orders) and proved: the strict part for the whole evaluator, and the VALUE half for expressions that enumerate
  objects (`oracle_enum`), both under a parser invariant that was assumed (`keysNodup`). This file closes the gaps:

  1. **Parser invariants discharged** (`compile_keysNodup`, `compile_litsNoEnum`): whatever `compile` returns has
     pairwise distinct member keys in every multi-select hash and `let`, anywhere in the node, and no map-ordered
     array in a literal. Hence `search_oracle_strict'` and `search_oracle_enum'` need only the purely syntactic
     conditions "no object enumeration / no `sort`" resp. "no `sum`, `avg`, `max`, `min`" on the compiled node.
  2. **The ERROR half through the whole evaluator** (`oracle_enum_err`, `evaluate_oracle_enum_err`,
     `search_oracle_enum_err`): for every covered expression (EVERY node kind — object wildcards, `keys`/`values`/
     `items`, projections, filters, flattening, `map`, `group_by`, `sort_by`, `max_by`, `min_by`, hashes, `let`,
     `merge`, `zip`, `not_null`, every builtin except `sum`, `avg`, `max`, `min`), if the model answers the error set
     `cs`, then EVERY run reports exactly one category, and it is in `cs`. `search_oracle_enum_full` states the value
     half and the error half together.
  3. **A bound on what the runs do where the model declines** (`.nondet`): no run ever panics
     (`evaluateO_noPanic`, unconditional); index / slice of an enumerated array return members of that array
     (`index_member`, `slice_member`, `sliceStep_member`; `values_index0` for `values(@)[0]`).
  4. **`sum` / `avg`** join the covered class (`FullOK`, `oracle_full`, `search_oracle_full`): under the model's side
     condition `sumOrderFree` every partial sum in every order is exact, and an exact `Dec.add` returns the canonical
     representative of the exact sum, so every order yields the same decimal. **`max` / `min`** at the head of an
     expression (`max_oracle`, `min_oracle`): every run returns a value EQUAL IN VALUE (`ValEq`: the same string /
     a decimal that compares equal) to the model's, and an error of the model is the error of every run.
-/
import Jmes.Properties.C15
import Jmes.Properties.C15B
import Jmes.Proofs.C15CLemmas
import Jmes.Proofs.C15CErrMain
import Jmes.Proofs.C15CTotal
import Jmes.Proofs.C15CMemberLemmas
import Jmes.Proofs.C15CMaxLemmas
import Jmes.Proofs.C15CRunGood
import Jmes.Proofs.C15CFull
set_option linter.unusedVariables false
namespace Jmes.C15C
open Jmes Invar Jmes.C15B Jmes.Grammar

/-! ## 1. the parser invariants, at the level of `compile` -/

/-- **Every multi-select hash and every `let` in a compiled expression has pairwise distinct member keys** — at
    every `selectObject`, `selectObjectCurrent` and `defineVariables` node, anywhere in the tree (the single-member
    forms have one key). The parser collects the members with `assocInsert`, which replaces a repeated key. This is
    the hypothesis `keysNodup` of the oracle theorems of `C15B`. -/
theorem compile_keysNodup {e : Bytes} {n : INode} (h : compile e = .ok n) : n.all INode.keysNodup = true :=
  (compile_parserOK h).1

/-- **No literal of a compiled expression contains a map-ordered array** (a literal is decoded JSON or a raw string). -/
theorem compile_litsNoEnum {e : Bytes} {n : INode} (h : compile e = .ok n) : n.NoEnumLits = true :=
  (compile_parserOK h).2

/-- the strict class of `C15B`, for a compiled expression: only "no object enumeration, no `sort`" is left -/
theorem strictOK_of_compile {e : Bytes} {n : INode} (h : compile e = .ok n) (ho : OrderFree n = true) :
    StrictOK n = true := by
  have hk := compile_keysNodup h
  have hd := all_nodeOkD (compile_litsNoEnum h) ho
  have : nodeOkS = fun m => nodeOkD m && INode.keysNodup m := rfl
  rw [StrictOK, this, INode.all_and, hd, hk]
  rfl

/-- the covered class of `C15B`, for a compiled expression: only "no `sum`, `avg`, `max`, `min`" is left -/
theorem enumOK_of_compile {e : Bytes} {n : INode} (h : compile e = .ok n) (hc : n.all INode.coveredE = true) :
    EnumOK n = true := by
  have hk := compile_keysNodup h
  have hl : n.all (INode.litOk (Val.Good true)) = true := compile_litsNoEnum h
  have : nodeOkE = fun m => (fun m' => INode.litOk (Val.Good true) m' && INode.keysNodup m') m && INode.coveredE m := rfl
  rw [EnumOK, this, INode.all_and, INode.all_and, hl, hk, hc]
  rfl

/-- **C15 for `Search`, strict part, parser hypotheses discharged**: an expression whose compiled form contains no
    object enumeration and no `sort` has, on a JSON document, the same outcome in every run — equal values, and a
    reported fault among those the model lists. -/
theorem search_oracle_strict' {expr : Bytes} {d : Val} (hd : d.NoEnum = true)
    (hn : ∀ n, compile expr = .ok n → OrderFree n = true) :
    search expr d ≠ .nondet ∧
    (∀ r, search expr d = .ok r → ∀ π : Oracle, searchO π expr d = .ok r) ∧
    (∀ cs, search expr d = .err cs → ∀ π : Oracle, ∃ c ∈ cs, searchO π expr d = .err [c]) :=
  search_oracle_strict hd fun n h => strictOK_of_compile h (hn n h)

/-- **C15 for `Search`, enumerating part (values), parser hypotheses discharged**: equality up to the order of the
    enumerated arrays, for every expression without `sum`, `avg`, `max`, `min`. -/
theorem search_oracle_enum' {expr : Bytes} {d : Val} (hd : d.NoEnum = true)
    (hn : ∀ n, compile expr = .ok n → n.all INode.coveredE = true) {r : Val} (h : search expr d = .ok r) :
    ∀ π : Oracle, ∃ r', searchO π expr d = .ok r' ∧ PermEnum r r' :=
  search_oracle_enum hd (fun n h => enumOK_of_compile h (hn n h)) h

/-! example: `{a: b, a: @}` — a multi-select hash with a repeated key; the parser keeps the last member -/

/-- the parse tree of `{a: b, a: @}` -/
def tHashDup : PTree :=
  .multiHash [(⟨.unquotedIdentifier, Ex.bs "a"⟩, Ex.idt "b"), (⟨.unquotedIdentifier, Ex.bs "a"⟩, .atom ⟨.current, Ex.bs "@"⟩)]

theorem hashDup_parse : compile (Ex.bs "{a: b, a: @}") = .ok (.selectObjectCurrent [(Ex.bs "a", .current)]) :=
  Jmes.C04G.parse_complete (t := tHashDup) (by decide) (by decide +kernel)

example : (INode.selectObjectCurrent [(Ex.bs "a", .current)]).all INode.keysNodup = true :=
  compile_keysNodup hashDup_parse
/-- the invariant is not vacuous: a hash with a repeated key does not satisfy it -/
example : (INode.selectObjectCurrent [(Ex.bs "a", .field (Ex.bs "b")), (Ex.bs "a", .current)]).all INode.keysNodup
    = false := by decide
example : StrictOK (INode.selectObjectCurrent [(Ex.bs "a", .current)]) = true :=
  strictOK_of_compile hashDup_parse (by decide)
/-- every run of `{a: b, a: @}` on `true` returns `{"a": true}` -/
example (π : Oracle) : searchO π (Ex.bs "{a: b, a: @}") (.bool true) = .ok (.obj [(Ex.bs "a", .bool true)]) := by
  refine (search_oracle_strict' (expr := Ex.bs "{a: b, a: @}") (d := .bool true) (by decide) ?_).2.1 _ ?_ π
  · intro n h
    rw [hashDup_parse] at h
    cases h
    decide
  · show (match Parser.parse (Ex.bs "{a: b, a: @}") with
      | .error .fuel => Res.unmodelled "parser fuel"
      | .error e => .err [parseCat e]
      | .ok n => evaluate n (.bool true)) = _
    rw [show Parser.parse (Ex.bs "{a: b, a: @}") = _ from hashDup_parse]
    rfl

/-! ## 2. the error half, through the whole evaluator -/

/-- **Oracle theorem, enumerating part, ERROR half.** For every covered expression (`EnumOK`: every node kind, every
    builtin except `sum`, `avg`, `max`, `min`) on inputs without map-ordered arrays: if the model's outcome is the
    error set `cs`, then EVERY run — every choice of the map iteration orders, independently at every enumeration
    and at every multi-select hash / `let` — reports exactly one category, and it is a member of `cs`.
    In particular this validates `widen` (projections over map-ordered arrays; `sort_by`/`max_by`/`min_by`/`group_by`
    with their extra invalid-type category), `combineUnordered` (hashes and `let`) and the widened error of
    `from_items`. -/
theorem oracle_enum_err {root cur : Val} {env : Env} {n : INode}
    (hroot : root.NoEnum = true) (hcur : cur.NoEnum = true) (henv : Env.NoEnum env = true) (hn : EnumOK n = true)
    {cs : List Cat} (h : ieval root n cur env = .err cs) :
    ∀ π : Oracle, ∃ c ∈ cs, ievalO π root n cur env = .err [c] :=
  fun π => ieval_errH (conc_refl root hroot) n cur cur env env hn (conc_refl cur hcur) (concF_refl env henv) π cs h

/-- the same for inputs that already contain map-ordered arrays, against any concretisation of them -/
theorem oracle_enum_err_general {root root' cur cur' : Val} {env env' : Env} {n : INode}
    (hroot : PermEnum root root') (hcur : PermEnum cur cur') (henv : ConcF env env') (hn : EnumOK n = true)
    {cs : List Cat} (h : ieval root n cur env = .err cs) :
    ∀ π : Oracle, ∃ c ∈ cs, ievalO π root' n cur' env' = .err [c] :=
  fun π => ieval_errH hroot n cur cur' env env' hn hcur henv π cs h

theorem evaluate_oracle_enum_err {d : Val} {n : INode} (hd : d.NoEnum = true) (hn : EnumOK n = true)
    {cs : List Cat} (h : evaluate n d = .err cs) : ∀ π : Oracle, ∃ c ∈ cs, evaluateO π n d = .err [c] :=
  oracle_enum_err hd hd rfl hn h

/-- **C15 for `Search`, enumerating part, error half** (parser hypotheses discharged). Failures of `Compile` do not
    depend on the document or on `π`. -/
theorem search_oracle_enum_err {expr : Bytes} {d : Val} (hd : d.NoEnum = true)
    (hn : ∀ n, compile expr = .ok n → n.all INode.coveredE = true) {cs : List Cat} (h : search expr d = .err cs) :
    ∀ π : Oracle, ∃ c ∈ cs, searchO π expr d = .err [c] := by
  unfold search at h
  unfold searchO
  cases hp : Parser.parse expr with
  | ok n =>
    rw [hp] at h
    exact evaluate_oracle_enum_err hd (enumOK_of_compile hp (hn n hp)) h
  | error e =>
    rw [hp] at h
    intro π
    cases e <;> cases h <;> exact ⟨_, by simp, rfl⟩

/-- **C15 for `Search`, both halves**: for an expression without `sum`, `avg`, `max`, `min`, on a JSON document,
    a value of the model is the value of every run up to the order of the enumerated arrays, and an error set of the
    model contains the one category every run reports. (When the model answers `nondet` it makes no claim; see
    section 3 for what the runs do then.) -/
theorem search_oracle_enum_full {expr : Bytes} {d : Val} (hd : d.NoEnum = true)
    (hn : ∀ n, compile expr = .ok n → n.all INode.coveredE = true) :
    (∀ r, search expr d = .ok r → ∀ π : Oracle, ∃ r', searchO π expr d = .ok r' ∧ PermEnum r r') ∧
    (∀ cs, search expr d = .err cs → ∀ π : Oracle, ∃ c ∈ cs, searchO π expr d = .err [c]) :=
  ⟨fun r h => search_oracle_enum' hd hn h, fun cs h => search_oracle_enum_err hd hn h⟩

/-! examples: `values(@)[*].abs(@)` and `sort_by(values(@), &@)` on `{"a": "x", "b": true}` -/
/-- `{"a": "x", "b": true}` -/
def docXT : Val := .obj [([0x61], .str [0x78]), ([0x62], .bool true)]
/-- `values(@)[*].abs(@)` -/
def pValsAbs : INode := .projectArray (.call .values [.current]) (.call .abs [.current])
example : EnumOK pValsAbs = true := by decide
example : evaluate pValsAbs docXT = .err [Cat.invalidType] := rfl
example (π : Oracle) : ∃ c ∈ [Cat.invalidType], evaluateO π pValsAbs docXT = .err [c] :=
  evaluate_oracle_enum_err (d := docXT) (n := pValsAbs) (by decide) (by decide) rfl π
/-- `sort_by(values(@), &@)`: a string key and a boolean key; in either order the scan reports invalid-type -/
def pSortByVals : INode := .sortBy (.call .values [.current]) .current
example : evaluate pSortByVals docXT = .err [Cat.invalidType] := rfl
example (π : Oracle) : ∃ c ∈ [Cat.invalidType], evaluateO π pSortByVals docXT = .err [c] :=
  evaluate_oracle_enum_err (d := docXT) (n := pSortByVals) (by decide) (by decide) rfl π
/-- `{p: values(@)[*].abs(@), q: $x}`: two members fail, with different categories; the model lists both, and every
    run reports one of them -/
def pTwoFaults : INode := .selectObjectCurrent [([0x70], pValsAbs), ([0x71], .variable [0x78])]
example : evaluate pTwoFaults docXT = .err [Cat.undefinedVariable, Cat.invalidType] := rfl
example : evaluateO Oracle.keyOrder pTwoFaults docXT = .err [Cat.invalidType] := rfl
example : evaluateO reverseOracle pTwoFaults docXT = .err [Cat.undefinedVariable] := rfl
example (π : Oracle) : ∃ c ∈ [Cat.undefinedVariable, Cat.invalidType], evaluateO π pTwoFaults docXT = .err [c] :=
  evaluate_oracle_enum_err (d := docXT) (n := pTwoFaults) (by decide) (by decide) rfl π

/-! ## 2b. the full class: `sum` and `avg` too -/

/-- the full class: literals without map-ordered arrays, distinct member keys (both guaranteed by the parser), and no
    call of `max` or `min` (they are treated at the head of an expression, section 4). EVERY other construct is
    covered, `sum` and `avg` included. -/
def FullOK (n : INode) : Bool := n.all nodeOkF

/-- **Oracle theorem for the full class, both halves.** On inputs without map-ordered arrays: a value of the model is
    the value of every run up to the order of the enumerated arrays, and an error set of the model contains the one
    category every run reports. For `sum` / `avg` over a map-ordered array this validates the model's side condition
    `sumOrderFree`: when it holds, every partial sum in every order is exact, `Dec.add` returns the canonical
    representative of the exact sum (`add_canon`), and so every order yields the same decimal (`foldl_add_perm`). -/
theorem oracle_full {root cur : Val} {env : Env} {n : INode}
    (hroot : root.NoEnum = true) (hcur : cur.NoEnum = true) (henv : Env.NoEnum env = true) (hn : FullOK n = true) :
    (∀ r, ieval root n cur env = .ok r → ∀ π : Oracle, ∃ r', ievalO π root n cur env = .ok r' ∧ PermEnum r r') ∧
    (∀ cs, ieval root n cur env = .err cs → ∀ π : Oracle, ∃ c ∈ cs, ievalO π root n cur env = .err [c]) :=
  ⟨fun r h π => ieval_simF (conc_refl root hroot) n cur cur env env hn (conc_refl cur hcur) (concF_refl env henv) π r h,
   fun cs h π => ieval_errF (conc_refl root hroot) n cur cur env env hn (conc_refl cur hcur) (concF_refl env henv) π cs h⟩

theorem evaluate_full_ok {d : Val} {n : INode} (hd : d.NoEnum = true) (hn : FullOK n = true) {r : Val}
    (h : evaluate n d = .ok r) : ∀ π : Oracle, ∃ r', evaluateO π n d = .ok r' ∧ PermEnum r r' :=
  (oracle_full hd hd rfl hn).1 r h

theorem evaluate_full_err {d : Val} {n : INode} (hd : d.NoEnum = true) (hn : FullOK n = true) {cs : List Cat}
    (h : evaluate n d = .err cs) : ∀ π : Oracle, ∃ c ∈ cs, evaluateO π n d = .err [c] :=
  (oracle_full hd hd rfl hn).2 cs h

theorem all_mono' {p q : INode → Bool} (h : ∀ m, p m = true → q m = true) (n : INode) (hn : n.all p = true) :
    n.all q = true := by
  have e : p = fun m => p m && q m := by
    funext m
    cases hp : p m
    · rfl
    · rw [h m hp]; rfl
  rw [e, INode.all_and, Bool.and_eq_true] at hn
  exact hn.2

/-- the class of `C15B` is contained in the full class -/
theorem fullOK_of_enumOK {n : INode} (h : EnumOK n = true) : FullOK n = true := by
  have e1 : nodeOkE = fun m => (fun m' => INode.litOk (Val.Good true) m' && INode.keysNodup m') m && INode.coveredE m := rfl
  have e2 : nodeOkF = fun m => (fun m' => INode.litOk (Val.Good true) m' && INode.keysNodup m') m && coveredFN m := rfl
  rw [EnumOK, e1, INode.all_and, Bool.and_eq_true] at h
  rw [FullOK, e2, INode.all_and, h.1, Bool.true_and]
  exact all_mono' (fun m hm => by
    cases m <;> first | rfl | (rename_i f _; cases f <;> first | rfl | exact hm)) n h.2

/-- for a compiled expression only "no `max`, no `min`" is left -/
theorem fullOK_of_compile {e : Bytes} {n : INode} (h : compile e = .ok n) (hc : n.all coveredFN = true) :
    FullOK n = true := by
  have hk := compile_keysNodup h
  have hl : n.all (INode.litOk (Val.Good true)) = true := compile_litsNoEnum h
  have : nodeOkF = fun m => (fun m' => INode.litOk (Val.Good true) m' && INode.keysNodup m') m && coveredFN m := rfl
  rw [FullOK, this, INode.all_and, INode.all_and, hl, hk, hc]
  rfl

/-- **C15 for `Search`, both halves, full class**: for every expression whose compiled form contains no `max` / `min`
    call, on a JSON document: a value of the model is the value of every run up to the order of the enumerated arrays,
    and an error set of the model contains the one category every run reports. -/
theorem search_oracle_full {expr : Bytes} {d : Val} (hd : d.NoEnum = true)
    (hn : ∀ n, compile expr = .ok n → n.all coveredFN = true) :
    (∀ r, search expr d = .ok r → ∀ π : Oracle, ∃ r', searchO π expr d = .ok r' ∧ PermEnum r r') ∧
    (∀ cs, search expr d = .err cs → ∀ π : Oracle, ∃ c ∈ cs, searchO π expr d = .err [c]) := by
  unfold search searchO
  cases hp : Parser.parse expr with
  | ok n =>
    have hf := fullOK_of_compile hp (hn n hp)
    exact ⟨fun r h => evaluate_full_ok hd hf h, fun cs h => evaluate_full_err hd hf h⟩
  | error e =>
    cases e <;> refine ⟨by simp, ?_⟩ <;> intro cs h π <;> cases h <;> exact ⟨_, by simp, rfl⟩

/-- `sum(values(@))`, `avg(values(@))` on `{"a": 1, "b": 2}` are `3` and `1.5` in every run -/
def pSumValues : INode := .call .sum [.call .values [.current]]
def pAvgValues : INode := .call .avg [.call .values [.current]]
example : FullOK pSumValues = true := by decide
example : EnumOK pSumValues = false := by decide
example (π : Oracle) : ∃ r', evaluateO π pSumValues ab = .ok r' ∧ PermEnum (.num (.dec (.fin false 3 0))) r' :=
  evaluate_full_ok (d := ab) (n := pSumValues) (by decide) (by decide) rfl π
example (π : Oracle) : evaluateO π pSumValues ab = .ok (.num (.dec (.fin false 3 0))) := by
  obtain ⟨r', h1, h2⟩ := evaluate_full_ok (d := ab) (n := pSumValues) (by decide) (by decide)
    (r := .num (.dec (.fin false 3 0))) rfl π
  rw [h1, permEnum_eq h2 (by decide)]
example (π : Oracle) : evaluateO π pAvgValues ab = .ok (.num (.dec (.fin false 15 (-1)))) := by
  obtain ⟨r', h1, h2⟩ := evaluate_full_ok (d := ab) (n := pAvgValues) (by decide) (by decide)
    (r := .num (.dec (.fin false 15 (-1)))) rfl π
  rw [h1, permEnum_eq h2 (by decide)]
/-- `sum(values(@))` on `{"a": "x", "b": true}` fails with invalid-type in every run -/
example (π : Oracle) : ∃ c ∈ [Cat.invalidType], evaluateO π pSumValues docXT = .err [c] :=
  evaluate_full_err (d := docXT) (n := pSumValues) (by decide) (by decide) rfl π

/-! ## 3. where the model declines: what the runs can do -/

/-- **Run totality.** No run panics — for EVERY expression, document and choice of iteration orders, in particular
    when the model answers `.nondet`. (A run's outcome is a value, an error, or one of the two other outcomes the run
    semantics shares with the model: `.unmodelled` — float formatting, case mapping outside the modelled alphabets, very
    wide padding — and `.nondet` for an unstable `sort` with ambiguous ties.) -/
theorem evaluateO_noPanic (π : Oracle) (n : INode) (d : Val) : NoPanic (evaluateO π n d) :=
  ievalO_noPanic π d n d []

theorem searchO_noPanic (π : Oracle) (expr : Bytes) (d : Val) : NoPanic (searchO π expr d) := by
  unfold searchO
  split
  · exact NoPanic.unmodelled _
  · exact NoPanic.err _
  · exact evaluateO_noPanic π _ d

/-- **What a run returns.** On a document without map-ordered arrays, for an expression whose literals contain none
    and which does not call the unstable `sort` (`noSort`; every other construct — all object enumerations included —
    is allowed), EVERY run ends in one of three ways: a value that contains no map-ordered array, exactly one error
    category, or `.unmodelled` (the model's declared gaps). It is never `.nondet` and never a panic: a run never
    consults an iteration order it has not been given. So wherever the model answers `.nondet` for such an expression
    (index / slice / `to_string` / `==` / `join` / `zip` / `max_by` ties … on an enumerated array), each run still
    returns a definite value or a single fault. -/
theorem run_definite {n : INode} {d : Val} (hd : d.NoEnum = true) (hl : n.NoEnumLits = true)
    (hs : n.all noSort = true) (π : Oracle) :
    (∃ r, evaluateO π n d = .ok r ∧ r.NoEnum = true) ∨ (∃ c, evaluateO π n d = .err [c]) ∨
    (∃ w, evaluateO π n d = .unmodelled w) := by
  have hn : n.all nodeOkR = true := by
    have : nodeOkR = fun m => INode.litOk (Val.Good true) m && noSort m := rfl
    rw [this, INode.all_and]
    simp only [INode.NoEnumLits, INode.LitsAll] at hl
    rw [show n.all (INode.litOk (Val.Good true)) = true from hl, hs]
    rfl
  have hg : GoodR true (evaluateO π n d) := ievalO_good hd n π d [] hn hd rfl
  have hp := evaluateO_noPanic π n d
  cases hr : evaluateO π n d with
  | ok r => rw [hr] at hg; exact .inl ⟨r, rfl, hg⟩
  | err cs =>
    rw [hr] at hg
    have hlen : cs.length = 1 := hg rfl
    match cs, hlen with
    | [c], _ => exact .inr (.inl ⟨c, rfl⟩)
  | nondet => rw [hr] at hg; exact Bool.noConfusion (hg : true = false)
  | panic w => exact absurd hr (hp w)
  | unmodelled w => exact .inr (.inr ⟨w, rfl⟩)

/-- the same for `Search`: for an expression whose compiled form does not call `sort` (the condition on literals is
    a parser invariant, `compile_litsNoEnum`) -/
theorem searchO_definite {expr : Bytes} {d : Val} (hd : d.NoEnum = true)
    (hn : ∀ n, compile expr = .ok n → n.all noSort = true) (π : Oracle) :
    (∃ r, searchO π expr d = .ok r ∧ r.NoEnum = true) ∨ (∃ c, searchO π expr d = .err [c]) ∨
    (∃ w, searchO π expr d = .unmodelled w) := by
  unfold searchO
  cases hp : Parser.parse expr with
  | ok n => exact run_definite hd (compile_litsNoEnum hp) (hn n hp) π
  | error e => cases e <;> first | exact .inr (.inr ⟨_, rfl⟩) | exact .inr (.inl ⟨_, rfl⟩)

/-- `values(@)[0]`, `to_string(values(@))`, `join(',', keys(@))`: the model declines, every run is definite -/
example (π : Oracle) (d : Val) (hd : d.NoEnum = true) :
    (∃ r, evaluateO π (.call .toString [.call .values [.current]]) d = .ok r ∧ r.NoEnum = true) ∨
    (∃ c, evaluateO π (.call .toString [.call .values [.current]]) d = .err [c]) ∨
    (∃ w, evaluateO π (.call .toString [.call .values [.current]]) d = .unmodelled w) :=
  run_definite hd (by decide) (by decide) π
example : evaluate (.call .toString [.call .values [.current]]) ab = .nondet := rfl
example : evaluateO reverseOracle (.call .toString [.call .values [.current]]) ab = .ok (.str [0x5B, 0x32, 0x2C, 0x31, 0x5D]) := by
  rfl
/-- the condition on `sort` is needed: `sort(@)` on `[1, 1.0]` is `.nondet` in every run (an unstable sort with a tie
    between different values; `C15.sort_nondet`) -/
example (π : Oracle) : evaluateO π (.call .sort [.current]) (.arr .plain [Jmes.C15.one, Jmes.C15.onePt]) = .nondet := by
  show sortArray (.arr .plain [Jmes.C15.one, Jmes.C15.onePt]) = .nondet
  exact Jmes.C15.sortArray_tie

/-- **Membership for an index into an enumerated array.** If the model evaluates `c` to the array `xs` (possibly
    map-ordered, in which case the model answers `.nondet` for `c[i]` as soon as `xs` has two elements and `i` is in
    range), then every run of `c[i]` returns `null` or (a concretisation of) a member of `xs`; a member when `i` is in
    range. -/
theorem index_member {c : INode} {d : Val} (hd : d.NoEnum = true) (hc : FullOK c = true) {t : ATag} {xs : List Val}
    (h : evaluate c d = .ok (.arr t xs)) (i : Int) :
    ∀ π : Oracle, ∃ r', evaluateO π (.index c i) d = .ok r' ∧ (r' = .null ∨ ∃ x ∈ xs, PermEnum x r') ∧
      ((let j := if i < 0 then i + (xs.length : Int) else i; 0 ≤ j ∧ j < xs.length) → ∃ x ∈ xs, PermEnum x r') := by
  intro π
  obtain ⟨a', ha', hconc⟩ := evaluate_full_ok hd hc h (π.sub 0)
  obtain ⟨t', xs', rfl, hne, hp, _, _⟩ := conc_arr hconc
  obtain ⟨r, hr, hmem, hin⟩ := index_plain (xs := xs') hne i
  have e : evaluateO π (.index c i) d = index (.arr t' xs') i := by
    simp only [evaluateO, ievalO] at ha' ⊢
    rw [ha']; rfl
  refine ⟨r, by rw [e, hr], ?_, ?_⟩
  · rcases hmem with h0 | hm
    · exact .inl h0
    · obtain ⟨x, hx, cx⟩ := concP_mem_right hp r hm
      exact .inr ⟨x, hx, cx⟩
  · intro hj
    rw [hp.length] at hj
    obtain ⟨x, hx, cx⟩ := concP_mem_right hp r (hin hj)
    exact ⟨x, hx, cx⟩

/-- **… for a slice `c[a:b]`**: every run returns an array whose elements are (concretisations of) members of `xs`,
    and no longer than `xs`. -/
theorem slice_member {c : INode} {d : Val} (hd : d.NoEnum = true) (hc : FullOK c = true) {t : ATag} {xs : List Val}
    (h : evaluate c d = .ok (.arr t xs)) (a b : Int) :
    ∀ π : Oracle, ∃ ys, evaluateO π (.slice c a b) d = .ok (.arr .plain ys) ∧ ys.length ≤ xs.length ∧
      ∀ y ∈ ys, ∃ x ∈ xs, PermEnum x y := by
  intro π
  obtain ⟨a', ha', hconc⟩ := evaluate_full_ok hd hc h (π.sub 0)
  obtain ⟨t', xs', rfl, hne, hp, _, _⟩ := conc_arr hconc
  obtain ⟨ys, hys, hsub⟩ := slice_plain (xs := xs') hne a b
  have e : evaluateO π (.slice c a b) d = slice (.arr t' xs') a b := by
    simp only [evaluateO, ievalO] at ha' ⊢
    rw [ha']; rfl
  refine ⟨ys, by rw [e, hys], by rw [hp.length]; exact hsub.length_le, fun y hy => ?_⟩
  obtain ⟨x, hx, cx⟩ := concP_mem_right hp y (hsub.subset hy)
  exact ⟨x, hx, cx⟩

/-- **… for a slice with a step `c[a:b:s]`**: every element of every run's result is `null` or (a concretisation of)
    a member of `xs`. -/
theorem sliceStep_member {c : INode} {d : Val} (hd : d.NoEnum = true) (hc : FullOK c = true) {t : ATag}
    {xs : List Val} (h : evaluate c d = .ok (.arr t xs)) (a b s : Int) :
    ∀ π : Oracle, ∃ ys, evaluateO π (.sliceStep c a b s) d = .ok (.arr .plain ys) ∧
      ∀ y ∈ ys, y = .null ∨ ∃ x ∈ xs, PermEnum x y := by
  intro π
  obtain ⟨a', ha', hconc⟩ := evaluate_full_ok hd hc h (π.sub 0)
  obtain ⟨t', xs', rfl, hne, hp, _, _⟩ := conc_arr hconc
  obtain ⟨ys, hys, hmem⟩ := sliceStep_plain (xs := xs') hne a b s
  have e : evaluateO π (.sliceStep c a b s) d = sliceStep (.arr t' xs') a b s := by
    simp only [evaluateO, ievalO] at ha' ⊢
    rw [ha']; rfl
  refine ⟨ys, by rw [e, hys], fun y hy => ?_⟩
  rcases hmem y hy with h0 | hm
  · exact .inl h0
  · obtain ⟨x, hx, cx⟩ := concP_mem_right hp y hm
    exact .inr ⟨x, hx, cx⟩

/-- `values(@)[0]` -/
def pValues0 : INode := .index (.call .values [.current]) 0

/-- **`values(@)[0]` on `{"a": 1, "b": 2}`**: the model declines (`.nondet`); every run returns `1` or `2`; and both
    occur. -/
theorem values_index0 :
    evaluate pValues0 ab = .nondet ∧
    (∀ π : Oracle, evaluateO π pValues0 ab = .ok (.num (.jnum [0x31])) ∨
      evaluateO π pValues0 ab = .ok (.num (.jnum [0x32]))) ∧
    evaluateO Oracle.keyOrder pValues0 ab = .ok (.num (.jnum [0x31])) ∧
    evaluateO reverseOracle pValues0 ab = .ok (.num (.jnum [0x32])) := by
  refine ⟨rfl, fun π => ?_, rfl, rfl⟩
  obtain ⟨r', hr', -, hin⟩ := index_member (c := pValues) (d := ab) (by decide) (by decide)
    (t := .enum) (xs := [.num (.jnum [0x31]), .num (.jnum [0x32])]) rfl 0 π
  obtain ⟨x, hx, cx⟩ := hin (by decide)
  simp only [List.mem_cons, List.not_mem_nil, or_false] at hx
  rcases hx with rfl | rfl
  · left
    have : r' = .num (.jnum [0x31]) := by simpa [PermEnum, Conc] using cx
    rw [← this]; exact hr'
  · right
    have : r' = .num (.jnum [0x32]) := by simpa [PermEnum, Conc] using cx
    rw [← this]; exact hr'

example (π : Oracle) : NoPanic (evaluateO π pValues0 ab) := evaluateO_noPanic π _ _
/-- `values(@)[0:1]`: a run returns an array of at most two elements, each of them `1` or `2` -/
example (π : Oracle) : ∃ ys, evaluateO π (.slice pValues 0 1) ab = .ok (.arr .plain ys) ∧ ys.length ≤ 2 ∧
    ∀ y ∈ ys, ∃ x ∈ [Val.num (.jnum [0x31]), .num (.jnum [0x32])], PermEnum x y :=
  slice_member (c := pValues) (d := ab) (by decide) (by decide) (t := .enum) rfl 0 1 π

/-! ## 4. `max` / `min` -/

theorem evaluate_call1 (f : Fn) (c : INode) (d : Val) :
    evaluate (.call f [c]) d = (evaluate c d >>= fun v => applyFn f [v]) := by
  simp only [evaluate, ieval, ievalList]
  cases ieval d c d [] <;> rfl

theorem evaluateO_call1 (π : Oracle) (f : Fn) (c : INode) (d : Val) :
    evaluateO π (.call f [c]) d = (evaluateO ((π.sub 0).sub 0) c d >>= fun v => applyFnO (π.sub 1) f [v]) := by
  simp only [evaluateO, ievalO, ievalListO]
  cases ievalO ((π.sub 0).sub 0) d c d [] <;> rfl

/-- **`max(c)`: every run agrees with the model up to VALUE equality.** For a covered argument expression `c`, if the
    model's `max(c)` is the value `r`, every run returns a value `r'` with `ValEq r r'`: the same string, or a decimal
    that compares equal to the model's (on a map-ordered array the first of several equal-valued greatest numbers may
    have another representation, `C15B.max_not_covered`); and if the model's `max(c)` is an error set, every run
    reports one category of it. -/
theorem max_oracle {c : INode} {d : Val} (hd : d.NoEnum = true) (hc : FullOK c = true) :
    (∀ r, evaluate (.call .max [c]) d = .ok r → ∀ π : Oracle, ∃ r', evaluateO π (.call .max [c]) d = .ok r' ∧ ValEq r r') ∧
    (∀ cs, evaluate (.call .max [c]) d = .err cs → ∀ π : Oracle, ∃ k ∈ cs, evaluateO π (.call .max [c]) d = .err [k]) := by
  constructor
  · intro r h π
    rw [evaluate_call1] at h
    obtain ⟨v, hv, hr⟩ := bind_eq_ok' h
    obtain ⟨v', hv', cv⟩ := evaluate_full_ok hd hc hv ((π.sub 0).sub 0)
    obtain ⟨r', hr', he⟩ := arrayMax_valEq cv (r := r) hr
    exact ⟨r', by rw [evaluateO_call1, hv']; exact hr', he⟩
  · intro cs h π
    rw [evaluate_call1] at h
    rw [evaluateO_call1]
    exact ErrH.bind (C := Conc) (fun v hv => evaluate_full_ok hd hc hv _)
      (fun cs hcs => evaluate_full_err hd hc hcs _) (fun v v' cv => arrayMax_errH cv) cs h

/-- **`min(c)`**: likewise. -/
theorem min_oracle {c : INode} {d : Val} (hd : d.NoEnum = true) (hc : FullOK c = true) :
    (∀ r, evaluate (.call .min [c]) d = .ok r → ∀ π : Oracle, ∃ r', evaluateO π (.call .min [c]) d = .ok r' ∧ ValEq r r') ∧
    (∀ cs, evaluate (.call .min [c]) d = .err cs → ∀ π : Oracle, ∃ k ∈ cs, evaluateO π (.call .min [c]) d = .err [k]) := by
  constructor
  · intro r h π
    rw [evaluate_call1] at h
    obtain ⟨v, hv, hr⟩ := bind_eq_ok' h
    obtain ⟨v', hv', cv⟩ := evaluate_full_ok hd hc hv ((π.sub 0).sub 0)
    obtain ⟨r', hr', he⟩ := arrayMin_valEq cv (r := r) hr
    exact ⟨r', by rw [evaluateO_call1, hv']; exact hr', he⟩
  · intro cs h π
    rw [evaluate_call1] at h
    rw [evaluateO_call1]
    exact ErrH.bind (C := Conc) (fun v hv => evaluate_full_ok hd hc hv _)
      (fun cs hcs => evaluate_full_err hd hc hcs _) (fun v v' cv => arrayMin_errH cv) cs h

/-- value equality is equality on everything but decimals -/
theorem valEq_str {s : Bytes} {r' : Val} (h : ValEq (.str s) r') : r' = .str s := by
  rcases h with h | ⟨d, d', e, _, _⟩
  · simpa [Conc] using h
  · cases e

/-- `max(values(@))` on the document of `C15B.max_not_covered` (`1.0` and `1` as decimals of different
    representation): the two runs return different `Val`s, but every run's value compares equal to the model's -/
example (π : Oracle) : ∃ r', evaluateO π pMaxValues decDoc = .ok r' ∧ ValEq (.num (.dec (.fin false 10 (-1)))) r' :=
  (max_oracle (c := .call .values [.current]) (d := decDoc) (by decide) (by decide)).1 _ rfl π
/-- `max(keys(@))` on `{"a": 1, "b": 2}` is `"b"` in every run -/
example (π : Oracle) : evaluateO π (.call .max [.call .keys [.current]]) ab = .ok (.str [0x62]) := by
  obtain ⟨r', h1, h2⟩ := (max_oracle (c := .call .keys [.current]) (d := ab) (by decide) (by decide)).1
    (.str [0x62]) rfl π
  rw [h1, valEq_str h2]
/-- `min(values(@))` on `{"a": "x", "b": true}` fails with invalid-type in every run -/
example (π : Oracle) : ∃ k ∈ [Cat.invalidType], evaluateO π (.call .min [.call .values [.current]]) docXT = .err [k] :=
  (min_oracle (c := .call .values [.current]) (d := docXT) (by decide) (by decide)).2 _ rfl π

end Jmes.C15C
