/-
  C04 / C01 / C10 — the parser model accepts exactly the declarative grammar of `Spec/Grammar.lean` and builds exactly
  the tree the grammar assigns.

  * `complete_operand`, `expr_complete`, `parse_complete` — **completeness**: for every `PTree` `t` with `WellPrec t`,
    the parser reads `flatten t` and returns `erase t` (the Go-shaped node; hence also `desugar n = eraseT t`).  The whole
    grammar is covered: atoms, literals, parentheses, prefix and binary operators, `.name`, `[n]`, multi-select lists
    and hashes, function calls (with `&` arguments), `let`, and the five projection openers `[*]`, `.*`/`*`, `[]`,
    `[?…]`, `[a:b:c]` with their right-hand sides.
  * `unambiguous` — two well-formed trees with the same tokens denote the same node.
  * `paren_neutral_general` — C10: well-formed trees with the same node (e.g. differing in redundant parentheses only)
    parse to the same result.

  Proofs: `Proofs/GrammarF0.lean` (infrastructure, fragment without projections), `Proofs/GrammarF2.lean` (projections,
  the induction).
-/
import Jmes.Proofs.GrammarF2
import Jmes.Proofs.Fuel
namespace Jmes.C04G
open Jmes Jmes.Parser Jmes.Pratt Jmes.Grammar

/-! ## Completeness -/

/-- **Completeness, general form** (power `p`, any follow token at which the loop stops): a well-formed tree is read
    at every power below its left level, whatever follows, provided the next token is not absorbed
    (`Follow (min p (rlevel t))`). -/
theorem complete_operand {t : PTree} (h : WellPrec t) {p : Nat} (hp : p < llevel t) {rest : List Token}
    (hr : Follow (min p (rlevel t)) rest) :
    ∃ fuel, (expression fuel p).run (stOf (Grammar.flatten t ++ rest)) = .ok (erase t, stOf rest) :=
  GrammarF2.complete_operand h hp hr

/-- the same for a right-hand side: `projection` reads a well-formed chain that starts at the implicit current node -/
theorem complete_rhs {t : PTree} (h : wp true t = true) (hp : lvlProj < llevel t) {rest : List Token}
    (hr : Follow lvlProj rest) :
    ∃ fuel, (projection fuel projectionPrecedence).run (stOf (flat true t ++ rest)) = .ok (some (erase t), stOf rest) := by
  have h9 := GrammarF2.rlevel_rhs h hp
  exact (GrammarF2.complete t true h).rhs (p := projectionPrecedence) hp (by decide)
    ⟨by have := hr.1; simp only [projectionPrecedence, lvlProj] at *; omega, hr.2⟩

/-- **Completeness** at the top level: power 1, end of input -/
theorem expr_complete {t : PTree} (h : WellPrec t) :
    ∃ fuel, (expression fuel 1).run (stOf (Grammar.flatten t ++ [endTok])) = .ok (erase t, stOf [endTok]) ∧
      desugar (erase t) = eraseT t :=
  let ⟨f, hf⟩ := complete_operand h (p := 1) (by have := GrammarF0.llevel_ge _ _ h; omega) (follow_end _)
  ⟨f, hf, rfl⟩

/-- **`parse_complete`**: an expression whose tokens are those of a well-formed tree compiles to that tree's node -/
theorem parse_complete {t : PTree} (h : WellPrec t) {e : Bytes} (hl : lexAll e = (Grammar.flatten t ++ [endTok], none)) :
    Parser.parse e = .ok (erase t) := by
  obtain ⟨f, hf, _⟩ := expr_complete h
  have hnf := Fuel.fuel_sufficient e
  rw [parse_of_lex hl] at hnf ⊢
  have hne : expression (fuelFor (Grammar.flatten t ++ [endTok]).length) 1 (stOf (Grammar.flatten t ++ [endTok])) ≠ .error .fuel := by
    intro h'
    apply hnf
    unfold runTop
    rw [bind_err h']
  apply runTop_of_expr
  have h1 := expression_mono_res (Nat.le_max_left _ f) hne
  have h2 := expression_mono (Nat.le_max_right (fuelFor (Grammar.flatten t ++ [endTok]).length) f) hf
  rw [← h1, h2]

/-! ## Corollaries -/

/-- **`unambiguous`**: two well-formed trees with the same tokens denote the same node -/
theorem unambiguous {p q : PTree} (hp : WellPrec p) (hq : WellPrec q) (h : Grammar.flatten p = Grammar.flatten q) :
    erase p = erase q := by
  obtain ⟨f, hf, _⟩ := expr_complete hp
  obtain ⟨g, hg, _⟩ := expr_complete hq
  have h1 := expression_mono (Nat.le_max_left f g) hf
  have h2 := expression_mono (Nat.le_max_right f g) hg
  rw [h] at h1
  rw [h1] at h2
  injection h2 with h2
  injection h2

/-- **`paren_neutral_general`** (C10): well-formed trees that denote the same node — for instance a tree and the same
    tree with its implied parentheses written out — compile to the same result, and evaluate alike -/
theorem paren_neutral_general {p q : PTree} (hp : WellPrec p) (hq : WellPrec q) (h : erase p = erase q)
    {e1 e2 : Bytes} (h1 : lexAll e1 = (Grammar.flatten p ++ [endTok], none)) (h2 : lexAll e2 = (Grammar.flatten q ++ [endTok], none)) :
    Parser.parse e1 = Parser.parse e2 ∧ ∀ d, search e1 d = search e2 d := by
  have e := (parse_complete hp h1).trans ((congrArg Except.ok h).trans (parse_complete hq h2).symm)
  exact ⟨e, fun d => by unfold search; rw [e]⟩

/-- parentheses never change the node … -/
theorem erase_paren (t : PTree) : erase (.paren t) = erase t := rfl
/-- … and are always allowed -/
theorem wellPrec_paren {t : PTree} (h : WellPrec t) : WellPrec (.paren t) := by
  have h' : wp false t = true := h
  show wp false (.paren t) = true
  simp only [wp, Bool.not_false, Bool.true_and, h']


/-! ## The sanity expressions of `Spec/Grammar.lean`: `Parser.parse` returns `erase` of the exhibited tree -/

section Examples
open Grammar.Ex
example : Parser.parse (bs "foo[*].bar.baz") = .ok (erase e01) := parse_complete (by decide) (by decide)
example : Parser.parse (bs "foo[*].bar | [0]") = .ok (erase e02) := parse_complete (by decide) (by decide)
example : Parser.parse (bs "a.b[0].c") = .ok (erase e03) := parse_complete (by decide) (by decide)
example : Parser.parse (bs "foo[?a == `1`].b") = .ok (erase e04) := parse_complete (by decide +kernel) (by decide +kernel)
example : Parser.parse (bs "foo[].bar[]") = .ok (erase e05) := parse_complete (by decide) (by decide)
example : Parser.parse (bs "*.a.*") = .ok (erase e06) := parse_complete (by decide) (by decide)
example : Parser.parse (bs "foo[*][*]") = .ok (erase e07) := parse_complete (by decide) (by decide)
example : Parser.parse (bs "a || b && c") = .ok (erase e08) := parse_complete (by decide) (by decide)
example : Parser.parse (bs "!a.b") = .ok (erase e09) := parse_complete (by decide) (by decide)
example : Parser.parse (bs "-a * b") = .ok (erase e10) := parse_complete (by decide) (by decide)
example : Parser.parse (bs "{a: b, c: d}.a") = .ok (erase e11) := parse_complete (by decide) (by decide)
example : Parser.parse (bs "sort_by(a, &b)[0]") = .ok (erase e12) := parse_complete (by decide +kernel) (by decide +kernel)
example : Parser.parse (bs "let $x = a in $x.b") = .ok (erase e13) := parse_complete (by decide) (by decide)
example : Parser.parse (bs "foo[1:3].a[0]") = .ok (erase e14) := parse_complete (by decide) (by decide)

-- spelled out
example : Parser.parse (bs "foo[*].bar.baz") =
    .ok (.projectArray (.field (bs "foo")) (.pipe (.field (bs "bar")) (.field (bs "baz")))) :=
  parse_complete (t := e01) (by decide) (by decide)
example : Parser.parse (bs "foo[*][*]") = .ok (.projectArray (.field (bs "foo")) .pruneArrayCurrent) :=
  parse_complete (t := e07) (by decide) (by decide)
example : Parser.parse (bs "!a.b") = .ok (.pipe (.not (.field (bs "a"))) (.field (bs "b"))) :=
  parse_complete (t := e09) (by decide) (by decide)
-- `unambiguous`, concretely: no other well-formed tree prints as `foo[*].bar.baz`
example (q : PTree) (hq : WellPrec q) (h : Grammar.flatten q = Grammar.flatten e01) : erase q = erase e01 :=
  unambiguous hq (by decide) h
-- `paren_neutral_general`, concretely: `a || (b && c)` and `a || b && c`
example : Parser.parse (bs "a || (b && c)") = Parser.parse (bs "a || b && c") :=
  (paren_neutral_general (p := .bin (op .or "||") (idt "a") (.paren (.bin (op .and "&&") (idt "b") (idt "c"))))
    (q := e08) (by decide) (by decide) rfl (by decide) (by decide)).1
-- … and `foo[*].(bar.baz)`? no: `(foo[*].bar.baz)` and `foo[*].bar.baz`
example : Parser.parse (bs "(foo[*].bar.baz)") = Parser.parse (bs "foo[*].bar.baz") :=
  (paren_neutral_general (p := .paren e01) (q := e01) (by decide) (by decide) rfl (by decide) (by decide)).1
end Examples

end Jmes.C04G
