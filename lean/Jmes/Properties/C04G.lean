/-
  C04 / C01 / C10 — the parser model accepts exactly the declarative grammar of `Spec/Grammar.lean` and builds exactly
  the tree the grammar assigns.

  The whole grammar is covered in both directions: atoms, literals, parentheses, prefix and binary operators, `.name`,
  `[n]`, multi-select lists and hashes (primary and dotted), `.[*]`, function calls (with `&` arguments), `let`, and the
  five projection openers `[*]`, `.*` / leading `*`, `[]`, `[?…]`, `[a:b:c]` with their right-hand sides.

  * `complete_operand`, `complete_rhs`, `expr_complete`, `parse_complete` — **completeness**: for every `PTree` `t` with
    `WellPrec t`, the parser reads `flatten t` and returns `erase t` (the Go-shaped node; `desugar n = eraseT t`).
  * `expr_sound`, `rhs_sound`, `parse_sound` — **soundness**: whatever the parser accepts is the printing of a well-formed
    tree, and the node returned is `erase` of it.  `parse_iff` states both directions at the level of `Parser.parse`;
    `parse_rejects`: what is not in the grammar is rejected.
  * `unambiguous` — two well-formed trees with the same tokens denote the same node.
  * `paren_neutral_general` — C10: well-formed trees with the same node (e.g. differing in redundant parentheses only)
    parse to the same result and evaluate alike.
  * `rhs_extends_until` — C01: a projection (and so its right-hand side) is followed only by the end of the input, a
    closing token, `,`, `in`, a binary operator or `[]`.

  Proofs: `Proofs/GrammarF0.lean` (infrastructure, evaluation lemmas, sequences), `Proofs/GrammarF2.lean` (completeness:
  every form, the induction over `PTree`), `Proofs/GrammarS.lean` (soundness: `indexP`, the statement `Sound`, sequences,
  calls, `let`), `Proofs/GrammarS2.lean` (soundness: primary forms, the operator loop, right-hand sides, the induction on
  fuel), `Proofs/GrammarR.lean` (followers).  Fuel: `Proofs/Fuel.lean` (`fuel_sufficient`) removes the fuel side
  condition from the statements about `Parser.parse`.
-/
import Jmes.Proofs.GrammarF2
import Jmes.Proofs.GrammarS2
import Jmes.Proofs.GrammarR
import Jmes.Proofs.Fuel
import Jmes.Proofs.ParserInv
namespace Jmes.C04G
open Jmes Jmes.Parser Jmes.Pratt Jmes.Grammar

/-! ## Completeness -/

/-- **Completeness, general form** (power `p`, any follow token at which the loop stops): a well-formed tree is read
    at every power below its left level, whatever follows, provided the next token is not absorbed
    (`Follow (min p (rlevel t))`). -/
theorem complete_operand {t : PTree} (h : WellPrec t) {p : Nat} (hp : p < llevel t) {rest : List Token}
    (hr : Follow (min p (rlevel t)) rest) :
    ∃ fuel, (expression fuel p).run (stOf (Grammar.flatten t ++ rest)) = .ok (erase t, stOf rest) :=
  GrammarF2.complete_operand h hp hr

/-- the same for a right-hand side: `projection` reads a well-formed chain that starts at the implicit current node -/
theorem complete_rhs {t : PTree} (h : wp true t = true) (hp : lvlProj < llevel t) {rest : List Token}
    (hr : Follow lvlProj rest) :
    ∃ fuel, (projection fuel projectionPrecedence).run (stOf (flat true t ++ rest)) = .ok (some (erase t), stOf rest) := by
  have h9 := GrammarF2.rlevel_rhs h hp
  exact (GrammarF2.complete t true h).rhs (p := projectionPrecedence) hp (by decide)
    ⟨by have := hr.1; simp only [projectionPrecedence, lvlProj] at *; omega, hr.2⟩

/-- **Completeness** at the top level: power 1, end of input -/
theorem expr_complete {t : PTree} (h : WellPrec t) :
    ∃ fuel, (expression fuel 1).run (stOf (Grammar.flatten t ++ [endTok])) = .ok (erase t, stOf [endTok]) ∧
      desugar (erase t) = eraseT t :=
  let ⟨f, hf⟩ := complete_operand h (p := 1) (by have := GrammarF0.llevel_ge _ _ h; omega) (follow_end _)
  ⟨f, hf, rfl⟩

/-- **`parse_complete`**: an expression whose tokens are those of a well-formed tree compiles to that tree's node -/
theorem parse_complete {t : PTree} (h : WellPrec t) {e : Bytes} (hl : lexAll e = (Grammar.flatten t ++ [endTok], none)) :
    Parser.parse e = .ok (erase t) := by
  obtain ⟨f, hf, _⟩ := expr_complete h
  have hnf := Fuel.fuel_sufficient e
  rw [parse_of_lex hl] at hnf ⊢
  have hne : expression (fuelFor (Grammar.flatten t ++ [endTok]).length) 1 (stOf (Grammar.flatten t ++ [endTok])) ≠ .error .fuel := by
    intro h'
    apply hnf
    unfold runTop
    rw [bind_err h']
  apply runTop_of_expr
  have h1 := expression_mono_res (Nat.le_max_left _ f) hne
  have h2 := expression_mono (Nat.le_max_right (fuelFor (Grammar.flatten t ++ [endTok]).length) f) hf
  rw [← h1, h2]

/-! ## Corollaries -/

/-- **`unambiguous`**: two well-formed trees with the same tokens denote the same node -/
theorem unambiguous {p q : PTree} (hp : WellPrec p) (hq : WellPrec q) (h : Grammar.flatten p = Grammar.flatten q) :
    erase p = erase q := by
  obtain ⟨f, hf, _⟩ := expr_complete hp
  obtain ⟨g, hg, _⟩ := expr_complete hq
  have h1 := expression_mono (Nat.le_max_left f g) hf
  have h2 := expression_mono (Nat.le_max_right f g) hg
  rw [h] at h1
  rw [h1] at h2
  injection h2 with h2
  injection h2

/-- **`paren_neutral_general`** (C10): well-formed trees that denote the same node — for instance a tree and the same
    tree with its implied parentheses written out — compile to the same result, and evaluate alike -/
theorem paren_neutral_general {p q : PTree} (hp : WellPrec p) (hq : WellPrec q) (h : erase p = erase q)
    {e1 e2 : Bytes} (h1 : lexAll e1 = (Grammar.flatten p ++ [endTok], none)) (h2 : lexAll e2 = (Grammar.flatten q ++ [endTok], none)) :
    Parser.parse e1 = Parser.parse e2 ∧ ∀ d, search e1 d = search e2 d := by
  have e := (parse_complete hp h1).trans ((congrArg Except.ok h).trans (parse_complete hq h2).symm)
  exact ⟨e, fun d => by unfold search; rw [e]⟩

/-- parentheses never change the node … -/
theorem erase_paren (t : PTree) : erase (.paren t) = erase t := rfl
/-- … and are always allowed -/
theorem wellPrec_paren {t : PTree} (h : WellPrec t) : WellPrec (.paren t) := by
  have h' : wp false t = true := h
  show wp false (.paren t) = true
  simp only [wp, Bool.not_false, Bool.true_and, h']


/-! ## Soundness -/

open GrammarS in
/-- **Soundness, general form**: whenever `expression fuel p` succeeds on a token list (whose punctuation tokens carry
    their standard spelling: true of every token the lexer produces), it has consumed exactly the tokens of a
    well-formed tree `t`, the node it returns is `erase t`, `t` can be read at power `p`, and the loop stops at the
    token that follows. -/
theorem expr_sound {fuel p : Nat} {ts : List Token} {n : INode} {s' : PState} (hC : ∀ t ∈ ts, Canon t) (hp : p < top)
    (h : (expression fuel p).run (stOf ts) = .ok (n, s')) :
    ∃ (t : PTree) (rest : List Token), ts = Grammar.flatten t ++ rest ∧ s' = stOf rest ∧ WellPrec t ∧ erase t = n ∧
      desugar n = eraseT t ∧ p < llevel t :=
  let ⟨t, rest, h1, h2, h3, h4, h5, _⟩ := (sound fuel).expr p ts n s' hC hp h
  ⟨t, rest, h2, h1, h3, h4, by rw [← h4]; rfl, h5⟩

open GrammarS in
/-- the same for a right-hand side -/
theorem rhs_sound {fuel : Nat} {ts : List Token} {o : Option INode} {s' : PState} (hC : ∀ t ∈ ts, Canon t)
    (h : (projection fuel projectionPrecedence).run (stOf ts) = .ok (o, s')) :
    ∃ (rhs : PTree) (rest : List Token), ts = flat true rhs ++ rest ∧ s' = stOf rest ∧
      (rhs = .icur ∧ o = none ∨ wp true rhs = true ∧ lvlProj < llevel rhs ∧ o = some (erase rhs)) := by
  obtain ⟨rhs, rest, h1, h2, h3, h4, _⟩ := (sound fuel).proj ts o s' hC h
  refine ⟨rhs, rest, h2, h1, ?_⟩
  cases hi : rhs.isIcur
  · simp only [RhsOK, hi, Bool.false_or, Bool.and_eq_true, decide_eq_true_eq] at h3
    exact Or.inr ⟨h3.1, h3.2, by rw [h4, GrammarF0.optNode_of_ne hi]⟩
  · have := GrammarF0.isIcur_eq hi
    subst this
    exact Or.inl ⟨rfl, h4⟩

theorem canon_of_tokShape {t : Token} (h : Lexical.TokShape t.type t.value) : Canon t := by
  intro v hv
  obtain ⟨ty, val⟩ := t
  simp only at h hv ⊢
  cases ty <;> simp only [canonValue, reduceCtorEq, Option.some.injEq] at hv <;> subst hv <;>
    simpa only [Lexical.TokShape, Lexical.kwLet, Lexical.kwIn] using h

open GrammarS in
/-- **`parse_sound`**: whatever `Parser.parse` accepts is the printing of a well-formed tree, and the node returned
    is the one the grammar assigns to it: the parser never accepts anything outside the grammar and never
    reinterprets -/
theorem parse_sound {e : Bytes} {n : INode} (h : Parser.parse e = .ok n) :
    ∃ t : PTree, WellPrec t ∧ lexAll e = (Grammar.flatten t ++ [endTok], none) ∧ erase t = n ∧ desugar n = eraseT t := by
  cases hl : lexAll e with
  | mk ts err =>
    cases err with
    | some er =>
      obtain ⟨e', he'⟩ := ParserInv.parse_lex_error hl
      rw [he'] at h; cases h
    | none =>
      obtain ⟨pre, rfl, hpre⟩ := Lex.Lexes.ends (Lex.lexAll_sound hl)
      rw [parse_of_lex hl] at h
      unfold runTop at h
      split at h
      · rename_i n1 s1 hrun
        cases h
        rw [bind_run] at hrun
        split at hrun
        · rename_i n2 s2 hexp
          have hC : AllCanon (pre ++ [⟨.end, []⟩]) := by
            intro t ht
            rcases List.mem_append.1 ht with ht | ht
            · exact canon_of_tokShape (hpre t ht)
            · simp only [List.mem_singleton] at ht; subst ht; intro v hv; cases hv
          obtain ⟨t, rest, rfl, hts, hw, rfl, _, _⟩ := (sound _).expr 1 _ n2 s2 hC (by decide) hexp
          rw [bind_ok (currType_run _)] at hrun
          by_cases hend : (stOf rest).curr.type = .end
          · simp only [hend, bne_self_eq_false, Bool.false_eq_true, if_false] at hrun
            cases hrun
            have hne := flat_noEnd hw
            have hpe : ∀ x ∈ pre, x.type ≠ .end := fun x hx h0 => by
              have := hpre x hx; rw [h0] at this; exact this
            have hrest : rest = [⟨.end, []⟩] ∧ Grammar.flat false t = pre := by
              rcases List.append_eq_append_iff.1 hts with ⟨a', h1, h2⟩ | ⟨c', h1, h2⟩
              · -- flat t = pre ++ a', [end] = a' ++ rest
                cases a' with
                | nil => exact ⟨by simpa using h2.symm, by simpa using h1⟩
                | cons a as =>
                  exfalso
                  simp only [List.cons_append, List.cons.injEq] at h2
                  have : a ∈ Grammar.flat false t := by rw [h1]; simp
                  exact hne a this (by rw [← h2.1])
              · -- pre = flat t ++ c', rest = c' ++ [end]
                cases c' with
                | nil => exact ⟨by simpa using h2, by simpa using h1.symm⟩
                | cons c cs =>
                  exfalso
                  rw [h2] at hend
                  exact hpe c (by rw [h1]; simp) hend
            refine ⟨t, hw, ?_, rfl, rfl⟩
            rw [hts, hrest.1]; rfl
          · have : ((stOf rest).curr.type != TokenType.end) = true := by simpa using hend
            simp only [this, if_true] at hrun
            rw [bind_err (e := .unexpectedToken) rfl] at hrun
            cases hrun
        · cases hrun
      · cases h

/-- **C04, both directions**: `Parser.parse` accepts exactly the grammar, and builds exactly the tree the grammar
    assigns -/
theorem parse_iff (e : Bytes) (n : INode) :
    Parser.parse e = .ok n ↔
      ∃ t : PTree, WellPrec t ∧ lexAll e = (Grammar.flatten t ++ [endTok], none) ∧ erase t = n :=
  ⟨fun h => let ⟨t, h1, h2, h3, _⟩ := parse_sound h; ⟨t, h1, h2, h3⟩,
   fun ⟨_, h1, h2, h3⟩ => h3 ▸ parse_complete h1 h2⟩

/-- what does not print a well-formed tree is rejected -/
theorem parse_rejects {e : Bytes} (h : ¬ ∃ t : PTree, WellPrec t ∧ lexAll e = (Grammar.flatten t ++ [endTok], none)) :
    ∃ err, Parser.parse e = .error err := by
  cases hp : Parser.parse e with
  | error err => exact ⟨err, rfl⟩
  | ok n => obtain ⟨t, h1, h2, _⟩ := parse_sound hp; exact absurd ⟨t, h1, h2⟩ h

/-! ## What follows a projection (C01) -/

/-- **`rhs_extends_until`**: in a well-formed tree every projection form (`l[*] r`, `l.* r`, `l[] r`, `l[?c] r`,
    `l[a:b:c] r`), and hence its right-hand side `r`, is followed only by the end of the input, `)`, `]`, `}`, `,`,
    `in`, a binary operator (`|`, `||`, `&&`, a comparison or an arithmetic operator) or `[]`: the right-hand side
    extends over every selector that follows. -/
theorem rhs_extends_until {t : PTree} (h : WellPrec t) :
    ∀ x ∈ projFollowers false t endTok, isRhsFollower x.type = true :=
  GrammarR.rhs_followers h

/-- the followers, listed -/
theorem isRhsFollower_iff (ty : TokenType) :
    isRhsFollower ty = true ↔
      ty ∈ [.end, .closeParen, .closeSqBrace, .closeBrace, .comma, .in, .flatten, .pipe, .or, .and, .equal, .notEqual,
        .less, .lessOrEqual, .greater, .greaterOrEqual, .add, .subtract, .asterisk, .multiply, .divide, .integerDivide,
        .modulo] := by
  cases ty <;> simp [isRhsFollower, binLevel]

/-- in particular no selector token and nothing that starts an expression follows a projection -/
example : isRhsFollower .dot = false ∧ isRhsFollower .openSqBrace = false ∧ isRhsFollower .arrayWildcard = false ∧
    isRhsFollower .filter = false ∧ isRhsFollower .objectWildcard = false ∧
    isRhsFollower .unquotedIdentifier = false ∧ isRhsFollower .openParen = false := by decide

/-! ## Rejection, concretely -/

/-- when `expression` stops before the end of the input, `Parser.parse` reports a syntax error -/
theorem parse_of_prefix {e : Bytes} {ts rest : List Token} {n : INode} {f : Nat} (hl : lexAll e = (ts, none))
    (hx : expression f 1 (stOf ts) = .ok (n, stOf rest)) (hr : (stOf rest).curr.type ≠ .end) :
    Parser.parse e = .error .unexpectedToken := by
  have hnf := Fuel.fuel_sufficient e
  rw [parse_of_lex hl] at hnf ⊢
  have hne : expression (fuelFor ts.length) 1 (stOf ts) ≠ .error .fuel := by
    intro h'
    apply hnf
    unfold runTop
    rw [bind_err h']
  have h1 := expression_mono_res (Nat.le_max_left _ f) hne
  have h2 := expression_mono (Nat.le_max_right (fuelFor ts.length) f) hx
  unfold runTop
  rw [bind_ok (h1.symm.trans h2), bind_ok (currType_run _)]
  have : ((stOf rest).curr.type != TokenType.end) = true := by simpa using hr
  simp only [this, if_true]
  rfl

/-! ## The sanity expressions of `Spec/Grammar.lean`: `Parser.parse` returns `erase` of the exhibited tree -/

section Examples
open Grammar.Ex
example : Parser.parse (bs "foo[*].bar.baz") = .ok (erase e01) := parse_complete (by decide) (by decide)
example : Parser.parse (bs "foo[*].bar | [0]") = .ok (erase e02) := parse_complete (by decide) (by decide)
example : Parser.parse (bs "a.b[0].c") = .ok (erase e03) := parse_complete (by decide) (by decide)
example : Parser.parse (bs "foo[?a == `1`].b") = .ok (erase e04) := parse_complete (by decide +kernel) (by decide +kernel)
example : Parser.parse (bs "foo[].bar[]") = .ok (erase e05) := parse_complete (by decide) (by decide)
example : Parser.parse (bs "*.a.*") = .ok (erase e06) := parse_complete (by decide) (by decide)
example : Parser.parse (bs "foo[*][*]") = .ok (erase e07) := parse_complete (by decide) (by decide)
example : Parser.parse (bs "a || b && c") = .ok (erase e08) := parse_complete (by decide) (by decide)
example : Parser.parse (bs "!a.b") = .ok (erase e09) := parse_complete (by decide) (by decide)
example : Parser.parse (bs "-a * b") = .ok (erase e10) := parse_complete (by decide) (by decide)
example : Parser.parse (bs "{a: b, c: d}.a") = .ok (erase e11) := parse_complete (by decide) (by decide)
example : Parser.parse (bs "sort_by(a, &b)[0]") = .ok (erase e12) := parse_complete (by decide +kernel) (by decide +kernel)
example : Parser.parse (bs "let $x = a in $x.b") = .ok (erase e13) := parse_complete (by decide) (by decide)
example : Parser.parse (bs "foo[1:3].a[0]") = .ok (erase e14) := parse_complete (by decide) (by decide)

-- spelled out
example : Parser.parse (bs "foo[*].bar.baz") =
    .ok (.projectArray (.field (bs "foo")) (.pipe (.field (bs "bar")) (.field (bs "baz")))) :=
  parse_complete (t := e01) (by decide) (by decide)
example : Parser.parse (bs "foo[*][*]") = .ok (.projectArray (.field (bs "foo")) .pruneArrayCurrent) :=
  parse_complete (t := e07) (by decide) (by decide)
example : Parser.parse (bs "!a.b") = .ok (.pipe (.not (.field (bs "a"))) (.field (bs "b"))) :=
  parse_complete (t := e09) (by decide) (by decide)
-- `unambiguous`, concretely: no other well-formed tree prints as `foo[*].bar.baz`
example (q : PTree) (hq : WellPrec q) (h : Grammar.flatten q = Grammar.flatten e01) : erase q = erase e01 :=
  unambiguous hq (by decide) h
-- `paren_neutral_general`, concretely: `a || (b && c)` and `a || b && c`
example : Parser.parse (bs "a || (b && c)") = Parser.parse (bs "a || b && c") :=
  (paren_neutral_general (p := .bin (op .or "||") (idt "a") (.paren (.bin (op .and "&&") (idt "b") (idt "c"))))
    (q := e08) (by decide) (by decide) rfl (by decide) (by decide)).1
-- … and `foo[*].(bar.baz)`? no: `(foo[*].bar.baz)` and `foo[*].bar.baz`
example : Parser.parse (bs "(foo[*].bar.baz)") = Parser.parse (bs "foo[*].bar.baz") :=
  (paren_neutral_general (p := .paren e01) (q := e01) (by decide) (by decide) rfl (by decide) (by decide)).1
-- `parse_sound`, concretely: the result for `a.b[0].c` comes from a well-formed tree with these very tokens
example : ∃ t, WellPrec t ∧ lexAll (bs "a.b[0].c") = (Grammar.flatten t ++ [endTok], none) ∧ erase t = erase e03 :=
  let ⟨t, h1, h2, h3, _⟩ := parse_sound (parse_complete (t := e03) (by decide) (by decide)); ⟨t, h1, h2, h3⟩
-- `expr_sound` / `complete_operand` on a prefix: in `a b` the parser reads `a` and stops
example : ∃ f, (expression f 1).run (stOf (Grammar.flatten (idt "a") ++ [⟨.unquotedIdentifier, bs "b"⟩, endTok])) =
    .ok (erase (idt "a"), stOf [⟨.unquotedIdentifier, bs "b"⟩, endTok]) :=
  complete_operand (t := idt "a") (by decide) (by decide) ⟨by decide, by decide⟩
-- … so `a b` is rejected (`parse_of_prefix`), and therefore (`parse_iff`) no well-formed tree prints as `a b`:
-- the grammar has no juxtaposition, and the parser does not invent one
theorem ab_rejected : Parser.parse (bs "a b") = .error .unexpectedToken := by
  obtain ⟨f, hf⟩ := complete_operand (t := idt "a") (p := 1) (by decide) (by decide)
    (rest := [⟨.unquotedIdentifier, bs "b"⟩, endTok]) ⟨by decide, by decide⟩
  exact parse_of_prefix (ts := Grammar.flatten (idt "a") ++ [⟨.unquotedIdentifier, bs "b"⟩, endTok]) (by decide) hf
    (by decide)
theorem ab_not_in_grammar :
    ¬ ∃ t : PTree, WellPrec t ∧ lexAll (bs "a b") = (Grammar.flatten t ++ [endTok], none) := by
  rintro ⟨t, h1, h2⟩
  have h3 := parse_complete h1 h2
  rw [ab_rejected] at h3; cases h3
-- `parse_iff` / `parse_rejects`
example : ∃ err, Parser.parse (bs "a b") = .error err := parse_rejects ab_not_in_grammar
example : (Parser.parse (bs "foo[*][*]") = .ok (erase e07)) ↔
    ∃ t : PTree, WellPrec t ∧ lexAll (bs "foo[*][*]") = (Grammar.flatten t ++ [endTok], none) ∧ erase t = erase e07 :=
  parse_iff _ _
-- `complete_rhs` / `rhs_sound`: `.bar.baz` as a right-hand side
example : ∃ f, (projection f projectionPrecedence).run
    (stOf (flat true (.dotId (.dotId .icur (idt "bar")) (idt "baz")) ++ [endTok])) =
      .ok (some (.pipe (.field (bs "bar")) (.field (bs "baz"))), stOf [endTok]) :=
  complete_rhs (t := .dotId (.dotId .icur (idt "bar")) (idt "baz")) (by decide) (by decide) ⟨by decide, by decide⟩
-- `rhs_extends_until`: in `foo[*].bar | [0]` the projection is followed by `|`
example : ∀ x ∈ projFollowers false e02 endTok, isRhsFollower x.type = true := rhs_extends_until (by decide)
example : projFollowers false e02 endTok = [op .pipe "|"] := by decide
-- `wellPrec_paren` / `erase_paren`
example : WellPrec (.paren e01) ∧ erase (.paren e01) = erase e01 := ⟨wellPrec_paren (by decide), rfl⟩
-- Observations (not part of the grammar's discipline, but visible in `erase`): a repeated key of a multi-select hash,
-- or a repeated variable of `let`, keeps its last expression only — the earlier one is dropped from the tree
-- (`{a: b, a: c}` builds the node of the two-member form with the single member `a: c`)
example : erase (.multiHash [(⟨.unquotedIdentifier, bs "a"⟩, idt "b"), (⟨.unquotedIdentifier, bs "a"⟩, idt "c")]) =
    .selectObjectCurrent [(bs "a", .field (bs "c"))] := rfl
example : Parser.parse (bs "{a: b, a: c}") = .ok (.selectObjectCurrent [(bs "a", .field (bs "c"))]) :=
  parse_complete
    (t := .multiHash [(⟨.unquotedIdentifier, bs "a"⟩, idt "b"), (⟨.unquotedIdentifier, bs "a"⟩, idt "c")])
    (by decide) (by decide)
end Examples

end Jmes.C04G
