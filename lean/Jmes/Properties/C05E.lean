/-
  C05, fourth round — the gaps the third review found after Jmes/Properties/C05C.lean.

  §1  WHOLE EXPRESSIONS.  `search e d = arithSem d d [] (ofPTree t)` for EVERY expression `e` (the printing of a well-formed
      tree `t` of the grammar): the operators `+ - * / // %`, unary `-` and `+` and parentheses are followed; every other
      sub-expression is a leaf evaluated by the evaluator.  At each operator node `arithSem` applies `binSpec` = `opNum`: the
      EXACT rational result of the node (for `//` the truncated integer quotient, for `%` the remainder) rounded ONCE by the
      rounding function of the format (`C05C.roundedRes`: half-even to the longest coefficient `≤ MAXSIG`, or to a multiple
      of `10^EMIN`), `not-a-number` for a zero divisor or an exact result `≥ (MAXSIG+½)·10^EMAX`, `invalid-type` for an
      operand that is not a number; an exact zero sum is `+0` unless both operands are `-0`.
      * `search_arith`: the general form; hypothesis: the values of the leaves are `Good` (no binary float; a number is a
        finite number of the format).  Results are `Good` again, so the hypothesis is only about leaves.
      * `search_arith_json`: NO hypothesis — every tree over literals, raw strings, fields, `@`, `$` (`ArithTree`) on every
        document decoded from JSON text, numbers of any length and exponent (`good_jnum`: every result of the library's
        rounding routine, sticky flag and gradual underflow included, is a number of the format).
      * `search_arith_literals_fields`: the same for documents holding Go integers / `decimal128.Decimal`s (`FieldsGood`).
      * `search_arith_exact` (core `Rat`): if the exact rational value of every operator node is a number of the format
        (`AllRep`), the result denotes the EXACT rational value `ratVal` of the expression.
  §2  A NUMBER TEXT IS ROUNDED FIRST (KF15 made explicit): `toDecimal` of a regular text is `roundN` — the same rounding
      function — of the exact rational value of the text; then the operator works on the rounded operands.  So
      `100000000000000000000000000000000001 - 100000000000000000000000000000000002 = 0` (Go agrees).
  §3  `%` never overflows: the `.mod` arm of `C05C.ResultOverflows` is never true for operands of the format.
  §4  `sum` = the left fold of the correctly rounded `+` (`sumSpec`), EXACT whenever every partial sum is a number of the
      format; `avg` = that, divided — rounded once more — by the count.
  §5  the boundary facts of the hand-written `Dec` that were confirmed against decimal128 v1.4.0 through /repo, in one place.

  Helpers: Jmes/Proofs/C05ELemmas (sign of zero, `opNum`, `Good`, `binSpec`, `AExp`, `arithSem`, `ofPTree`), C05ERat (the
  rational reading), C05ELeaf (number texts), C05EParse (`reduce` always lands in the format), C05ESum (`sum` / `avg`).
  Every instance quoted with "Go" was run against /repo (jmespath.Search on json.Number documents) and agrees with the model.
-/
import Jmes.Proofs.C05ESum
import Jmes.Proofs.C05EParse
import Jmes.Properties.C04G
import Jmes.Proofs.Literals
namespace Jmes.C05E
open Jmes.Dec Jmes.Grammar Jmes.Pratt
open Jmes.C05B (NumIs numIs_dec numIs_int numIs_of_toDecimal)
open Jmes.C05CLemmas
open Jmes.C05C (roundedRes roundedResD)
open Jmes.C05ELemmas Jmes.C05ERat Jmes.C05ELeaf Jmes.C05ESum Jmes.C05EParse
open Jmes.C20B (rhe ndrop Regular Tiny Huge numParts ratRaw)

/-! ## 1. whole expressions -/

/-- **one operator, by value**: for operands that are numbers of the format given by value in any representation (not both
    binary floats), the evaluator's `x op y` is `opNum op` — the exact result rounded once (see `opNum`, `addNum`); the
    sign of an exact zero is determined: `x + y = 0` is `+0` unless both operands are `-0`. -/
theorem operator_is_rounded_op {x y : Val} (hnf : x.NoFloat ∨ y.NoFloat) {n1 n2 : Bool} {C1 C2 : Nat} {E1 E2 : Int}
    (hx : NumIs x n1 C1 E1) (hy : NumIs y n2 C2 E2) (hr1 : Representable C1 E1) (hr2 : Representable C2 E2) (op : AOp) :
    applyBinOp op.bin x y = opNum op n1 C1 E1 n2 C2 E2 :=
  applyBinOp_eq_opNum hnf hx hy hr1 hr2 op

-- 0.1 + 0.2 = 0.3 exactly; 1 - 1 = +0; (-0) + (-0) = -0 (Go: `(z * `-1`) + (z * `-1`)` prints -0, `(z * `-1`) + z` prints 0)
example : applyBinOp .add (.num (.dec (.fin false 1 (-1)))) (.num (.dec (.fin false 2 (-1)))) = .ok (.num (.dec (.fin false 3 (-1)))) := by
  rw [show BinOp.add = AOp.add.bin from rfl, operator_is_rounded_op (Or.inl (Val.noFloat_dec _)) (numIs_dec _ _ _) (numIs_dec _ _ _)
    (C05B.fits_34_digits (by decide) (by decide) (by decide)) (C05B.fits_34_digits (by decide) (by decide) (by decide))]
  unfold opNum addNum
  rw [if_neg (by decide)]
  exact C05C.roundedRes_of_fin (by decide +kernel)
example : opNum .sub false 1 0 false 1 0 = .ok (zeroV false) ∧ opNum .add true 0 0 true 0 0 = .ok (zeroV true) ∧
    opNum .add true 0 0 false 0 0 = .ok (zeroV false) ∧ opNum .sub true 0 0 false 0 0 = .ok (zeroV true) := ⟨rfl, rfl, rfl, rfl⟩

/-- **on `Good` values** the evaluator's operator is `binSpec` (`opNum` on the stored numbers, `invalid-type` if an operand is
    not a number), and the result is `Good` again -/
theorem operator_on_good {x y : Val} (hx : Good x) (hy : Good y) (op : AOp) :
    applyBinOp op.bin x y = binSpec op x y ∧ ∀ v, binSpec op x y = .ok v → Good v :=
  ⟨applyBinOp_eq_binSpec hx hy op, fun _ h => good_of_binSpec hx hy op h⟩

example : applyBinOp .add (.str [0x78]) (.num (.int .i64 2)) = .err [Cat.invalidType] :=
  (operator_on_good (good_of_notnum (by simp) rfl) (good_int .i64 2 (by decide)) .add).1

/-- **an operator returns the exact result whenever it is a number of the format** (core `Rat`: `valQ` the rational a value
    denotes, `opQ` the exact operation, `RepQ` "is a number of the format") -/
theorem operator_exact {x y : Val} {qx qy q : Rat} (op : AOp) (hx : valQ x = some qx) (hy : valQ y = some qy)
    (hq : opQ op qx qy = some q) (hr : RepQ q) : ∃ v, binSpec op x y = .ok v ∧ valQ v = some q :=
  binSpec_exact op hx hy hq hr

/-- **the evaluator on an arithmetic expression** (any current node, any bindings): it computes `arithSem`, and the value is
    `Good` — provided the leaves evaluate to `Good` values (or fail) -/
theorem evaluate_arith (root cur : Val) (env : Env) (a : AExp)
    (hl : ∀ n ∈ a.leaves, ∀ v, ieval root n cur env = .ok v → Good v) :
    ieval root a.node cur env = arithSem root cur env a ∧ ∀ v, arithSem root cur env a = .ok v → Good v :=
  ieval_eq_arithSem root cur env a hl

/-- **`search` on expression text.**  For every well-formed tree `t` of the grammar and every expression `e` whose tokens
    are the printing of `t`, on every document `d`: `search e d` is `arithSem` of the arithmetic reading of `t` — every
    operator node is the exact result rounded once — provided the leaves (the maximal sub-expressions that are not `+ - * /
    // %`, a unary sign or a parenthesis) evaluate to `Good` values. -/
theorem search_arith {t : PTree} (h : WellPrec t) {e : Bytes} (hl : lexAll e = (Grammar.flatten t ++ [endTok], none)) (d : Val)
    (hg : ∀ n ∈ (ofPTree t).leaves, ∀ v, ieval d n d [] = .ok v → Good v) :
    search e d = arithSem d d [] (ofPTree t) := by
  unfold search
  rw [C04G.parse_complete h hl]
  show ieval d (erase t) d [] = _
  rw [← ofPTree_node t]
  exact (ieval_eq_arithSem d d [] (ofPTree t) hg).1

/-- **exactness of whole expressions**: if moreover the exact rational value of every operator node is a number of the
    format (`AllRep`: at most 34 digits — precisely a coefficient `≤ MAXSIG` — at an exponent in range), the result of
    `search` denotes the EXACT rational value `ratVal` of the expression: nothing was rounded. -/
theorem search_arith_exact {t : PTree} (h : WellPrec t) {e : Bytes} (hl : lexAll e = (Grammar.flatten t ++ [endTok], none)) (d : Val)
    (hg : ∀ n ∈ (ofPTree t).leaves, ∀ v, ieval d n d [] = .ok v → Good v)
    (hr : AllRep d d [] (ofPTree t)) {q : Rat} (hq : ratVal d d [] (ofPTree t) = some q) :
    ∃ v, search e d = .ok v ∧ valQ v = some q := by
  rw [search_arith h hl d hg]
  exact arithSem_exact d d [] (ofPTree t) q hr hq

/-! ### leaves that are literals of the expression or fields of the document -/

/-- every value a field selector can pick from the document is `Good` -/
def FieldsGood (d : Val) : Prop := ∀ k, Good (field k d)

theorem objLookup_mem {k : Bytes} {v : Val} : ∀ {kvs : List (Bytes × Val)}, objLookup k kvs = some v → (k, v) ∈ kvs
  | [], h => by simp [objLookup] at h
  | (k', v') :: rest, h => by
    simp only [objLookup] at h
    split at h
    · next hk => cases h; subst hk; exact List.mem_cons_self ..
    · exact List.mem_cons_of_mem _ (objLookup_mem h)

/-- an object whose member values are `Good` (anything that is not an object has no fields: null) -/
theorem fieldsGood_obj {kvs : List (Bytes × Val)} (h : ∀ k v, (k, v) ∈ kvs → Good v) : FieldsGood (.obj kvs) := by
  intro k
  simp only [field]
  cases hl : objLookup k kvs with
  | none => exact good_null
  | some v => exact h k v (objLookup_mem hl)

/-- a leaf that is a literal with a `Good` value, a field of the current node, or `@` -/
inductive NumLeaf : INode → Prop
  | lit (v : Val) (h : Good v) : NumLeaf (.lit v)
  | field (k : Bytes) : NumLeaf (.field k)

theorem numLeaf_good {d : Val} (hd : FieldsGood d) {n : INode} (h : NumLeaf n) {v : Val} (hv : ieval d n d [] = .ok v) : Good v := by
  cases h with
  | lit w hw => simp only [ieval, Res.ok.injEq] at hv; subst hv; exact hw
  | field k => simp only [ieval, Res.ok.injEq] at hv; subst hv; exact hd k

/-- a number literal of the expression is the `json.Number` with that very spelling (`C16.json_number_verbatim`) -/
theorem erase_number_literal (t : Bytes) (h : Json.isValidNumber t = true) :
    erase (.atom ⟨.jsonLiteral, [0x60] ++ t ++ [0x60]⟩) = .lit (.num (.jnum t)) := by
  simp only [erase, atomNode, Jmes.Literals.parseJSONLiteral_number t h, Option.map_some, Option.getD_some]

/-- **the closed form of §1**: trees over number literals and fields of the document.  If every field of the document is
    `Good` (e.g. a JSON object whose numbers are in range) and every leaf of the arithmetic reading is a `Good` literal or a
    field, `search` is `arithSem` — every operator node the exact result rounded once — and the result is `Good`. -/
theorem search_arith_literals_fields {t : PTree} (h : WellPrec t) {e : Bytes}
    (hl : lexAll e = (Grammar.flatten t ++ [endTok], none)) {d : Val} (hd : FieldsGood d)
    (hleaf : ∀ n ∈ (ofPTree t).leaves, NumLeaf n) :
    search e d = arithSem d d [] (ofPTree t) ∧ ∀ v, search e d = .ok v → Good v := by
  have hg : ∀ n ∈ (ofPTree t).leaves, ∀ v, ieval d n d [] = .ok v → Good v := fun n hn v hv => numLeaf_good hd (hleaf n hn) hv
  have hs := search_arith h hl d hg
  exact ⟨hs, fun v hv => (ieval_eq_arithSem d d [] (ofPTree t) hg).2 v (by rw [← hs]; exact hv)⟩

/-! ### no hypothesis at all: documents and literals that come from JSON text -/

/-- a leaf of the arithmetic fragment over JSON data: a literal whose value is `Good`, a field, `@` or `$` -/
inductive JLeaf : INode → Prop
  | lit (v : Val) (h : Good v) : JLeaf (.lit v)
  | field (k : Bytes) : JLeaf (.field k)
  | current : JLeaf .current
  | root : JLeaf .root

/-- the atoms of the fragment: identifiers (quoted or not), JSON literals, raw string literals, `@`, `$` -/
def leafAtom (tok : Token) : Bool :=
  match tok.type with
  | .unquotedIdentifier | .quotedIdentifier | .jsonLiteral | .stringLiteral | .current | .root => true
  | _ => false

/-- **the fragment of the review**: trees built from those atoms with `+ - * / // %`, unary `-` / `+` and parentheses -/
def ArithTree : PTree → Bool
  | .atom tok => leafAtom tok
  | .paren t => ArithTree t
  | .neg _ t => ArithTree t
  | .pos t => ArithTree t
  | .bin op l r => (aopOf op.type).isSome && ArithTree l && ArithTree r
  | _ => false

theorem atom_jleaf (tok : Token) (h : leafAtom tok = true) : JLeaf (erase (.atom tok)) := by
  obtain ⟨ty, v⟩ := tok
  simp only [erase, atomNode]
  cases ty <;> simp only [leafAtom] at h <;> try (exact absurd h (by decide))
  case unquotedIdentifier => exact .field _
  case quotedIdentifier =>
    show JLeaf ((Option.map INode.field (parseQuotedIdentifier v)).getD .current)
    cases parseQuotedIdentifier v with
    | none => exact .current
    | some k => exact .field k
  case stringLiteral => exact .lit _ (good_of_notnum (by simp) rfl)
  case jsonLiteral =>
    show JLeaf ((Option.map INode.lit (parseJSONLiteral v)).getD .current)
    cases hq : parseJSONLiteral v with
    | none => exact .current
    | some w => exact .lit w (good_of_decoded (C20B.parseJSONLiteral_decoded hq))
  case current => exact .current
  case root => exact .root

theorem arithTree_leaves : ∀ t : PTree, ArithTree t = true → ∀ n ∈ (ofPTree t).leaves, JLeaf n
  | .atom tok, h, n, hn => by
    simp only [ofPTree, AExp.leaves, List.mem_cons, List.not_mem_nil, or_false] at hn
    subst hn
    exact atom_jleaf tok (by simpa [ArithTree] using h)
  | .paren t, h, n, hn => by
    rw [ofPTree] at hn
    exact arithTree_leaves t (by simpa [ArithTree] using h) n hn
  | .neg _ t, h, n, hn => by
    rw [ofPTree, AExp.leaves] at hn
    exact arithTree_leaves t (by simpa [ArithTree] using h) n hn
  | .pos t, h, n, hn => by
    rw [ofPTree, AExp.leaves] at hn
    exact arithTree_leaves t (by simpa [ArithTree] using h) n hn
  | .bin op l r, h, n, hn => by
    simp only [ArithTree, Bool.and_eq_true] at h
    obtain ⟨⟨ho, hl⟩, hr⟩ := h
    rw [ofPTree] at hn
    cases ha : aopOf op.type with
    | none => rw [ha] at ho; cases ho
    | some o =>
      rw [ha] at hn
      simp only [AExp.leaves, List.mem_append] at hn
      rcases hn with hn | hn
      · exact arithTree_leaves l hl n hn
      · exact arithTree_leaves r hr n hn
  | .icur, h, _, _ => by simp [ArithTree] at h
  | .not _, h, _, _ => by simp [ArithTree] at h
  | .dotId .., h, _, _ => by simp [ArithTree] at h
  | .dotList .., h, _, _ => by simp [ArithTree] at h
  | .dotHash .., h, _, _ => by simp [ArithTree] at h
  | .dotStarList .., h, _, _ => by simp [ArithTree] at h
  | .index .., h, _, _ => by simp [ArithTree] at h
  | .call .., h, _, _ => by simp [ArithTree] at h
  | .ref .., h, _, _ => by simp [ArithTree] at h
  | .letIn .., h, _, _ => by simp [ArithTree] at h
  | .multiList .., h, _, _ => by simp [ArithTree] at h
  | .multiHash .., h, _, _ => by simp [ArithTree] at h
  | .star .., h, _, _ => by simp [ArithTree] at h
  | .ostar .., h, _, _ => by simp [ArithTree] at h
  | .flat .., h, _, _ => by simp [ArithTree] at h
  | .filt .., h, _, _ => by simp [ArithTree] at h
  | .slice .., h, _, _ => by simp [ArithTree] at h

theorem jleaf_good {d : Val} (hd : C20B.Decoded d) {n : INode} (h : JLeaf n) {v : Val} (hv : ieval d n d [] = .ok v) : Good v := by
  cases h with
  | lit w hw => simp only [ieval, Res.ok.injEq] at hv; subst hv; exact hw
  | field k => simp only [ieval, Res.ok.injEq] at hv; subst hv; exact good_of_decoded (decoded_field hd k)
  | current => simp only [ieval, Res.ok.injEq] at hv; subst hv; exact good_of_decoded hd
  | root => simp only [ieval, Res.ok.injEq] at hv; subst hv; exact good_of_decoded hd

/-- **the whole-expression theorem without side conditions.**  For EVERY expression of the fragment (number or other JSON
    literals, raw strings, fields, `@`, `$`, combined by `+ - * / // %`, unary signs and parentheses) and EVERY document
    decoded from JSON text — numbers of any length and any exponent — `search` is `arithSem`: at each operator node the exact
    result of the (already rounded) operands rounded once, `not-a-number` on a zero divisor or overflow, `invalid-type` when
    an operand is not a number (a string, null, or a number text beyond the range of the format).  The result is `Good`. -/
theorem search_arith_json {t : PTree} (h : WellPrec t) (ha : ArithTree t = true) {e : Bytes}
    (hl : lexAll e = (Grammar.flatten t ++ [endTok], none)) {s : Bytes} {d : Val} (hs : Json.decode s = some d) :
    search e d = arithSem d d [] (ofPTree t) ∧ ∀ v, search e d = .ok v → Good v := by
  have hd := C20B.decode_decoded hs
  have hg : ∀ n ∈ (ofPTree t).leaves, ∀ v, ieval d n d [] = .ok v → Good v :=
    fun n hn v hv => jleaf_good hd (arithTree_leaves t ha n hn) hv
  have hsr := search_arith h hl d hg
  exact ⟨hsr, fun v hv => (ieval_eq_arithSem d d [] (ofPTree t) hg).2 v (by rw [← hsr]; exact hv)⟩

namespace Ex
open Jmes.Grammar.Ex

/-- ``a * `1.5` - b`` -/
def t1 : PTree := .bin (op .subtract "-") (.bin (op .asterisk "*") (idt "a") (.atom ⟨.jsonLiteral, bs "`1.5`"⟩)) (idt "b")
/-- `{"a": 2, "b": 0.25}` as decoded with `UseNumber` -/
def d1 : Val := .obj [(bs "a", .num (.jnum (bs "2"))), (bs "b", .num (.jnum (bs "0.25")))]
/-- the arithmetic reading of `t1` -/
def a1 : AExp := .bin .sub (.bin .mul (.leaf (.field (bs "a"))) (.leaf (.lit (.num (.jnum (bs "1.5")))))) (.leaf (.field (bs "b")))

theorem t1_ok : lexes "a * `1.5` - b" t1 ∧ WellPrec t1 := by decide +kernel

theorem t1_reading : ofPTree t1 = a1 := by
  have h := erase_number_literal (bs "1.5") (by decide)
  simp only [t1, ofPTree, aopOf, op, a1, idt]
  rw [show (⟨.jsonLiteral, bs "`1.5`"⟩ : Token) = ⟨.jsonLiteral, [0x60] ++ bs "1.5" ++ [0x60]⟩ from rfl, h]
  rfl

theorem d1_good : FieldsGood d1 := fieldsGood_obj (by
  intro k v hm
  simp only [List.mem_cons, Prod.mk.injEq, List.not_mem_nil, or_false] at hm
  rcases hm with ⟨_, rfl⟩ | ⟨_, rfl⟩
  · exact good_jnum_regular (by decide)
  · exact good_jnum_regular (by decide))

theorem a1_leaves : ∀ n ∈ a1.leaves, NumLeaf n := by
  intro n hn
  simp only [a1, AExp.leaves, List.mem_cons, List.mem_append, List.not_mem_nil, or_false] at hn
  rcases hn with (rfl | rfl) | rfl
  · exact .field _
  · exact .lit _ (good_jnum_regular (by decide))
  · exact .field _

/-- ``search("a * `1.5` - b", {"a": 2, "b": 0.25}) = 2.75`` (Go: `2.75`), through `search_arith_literals_fields` -/
example : search (bs "a * `1.5` - b") d1 = .ok (.num (.dec (.fin false 275 (-2)))) := by
  rw [(search_arith_literals_fields t1_ok.2 t1_ok.1 d1_good (by rw [t1_reading]; exact a1_leaves)).1, t1_reading]
  exact of_isOkDec (by decide +kernel)

/-- … and through the exactness corollary: the result denotes the exact rational `2·(3/2) − 1/4 = 11/4` -/
example : ∃ v, search (bs "a * `1.5` - b") d1 = .ok v ∧ valQ v = some (11 / 4 : Rat) := by
  refine search_arith_exact t1_ok.2 t1_ok.1 d1
    (fun n hn v hv => numLeaf_good d1_good (by rw [t1_reading] at hn; exact a1_leaves n hn) hv) ?_ ?_
  · rw [t1_reading]
    refine ⟨⟨trivial, trivial, fun q hq => ?_⟩, trivial, fun q hq => ?_⟩
    · rw [show ratVal d1 d1 [] (.bin .mul (.leaf (.field (bs "a"))) (.leaf (.lit (.num (.jnum (bs "1.5")))))) = some (3 : Rat) by
        decide +kernel] at hq
      cases hq
      exact ⟨false, 3, 0, C05B.fits_34_digits (by decide) (by decide) (by decide), by decide +kernel⟩
    · have h2 : ratVal d1 d1 [] a1 = some (11 / 4 : Rat) := by decide +kernel
      rw [show ratVal d1 d1 [] (.bin .sub (.bin .mul (.leaf (.field (bs "a"))) (.leaf (.lit (.num (.jnum (bs "1.5"))))))
        (.leaf (.field (bs "b")))) = ratVal d1 d1 [] a1 from rfl, h2] at hq
      cases hq
      exact ⟨false, 275, -2, C05B.fits_34_digits (by decide) (by decide) (by decide), by decide +kernel⟩
  · rw [t1_reading]; decide +kernel

/-- the same through `search_arith_json`: the document given as JSON text, no hypothesis on its numbers -/
theorem d1_decoded : Json.decode (bs "{\"a\": 2, \"b\": 0.25}") = some d1 := of_decodesTo (by decide +kernel)
example : search (bs "a * `1.5` - b") d1 = arithSem d1 d1 [] a1 ∧ ∀ v, search (bs "a * `1.5` - b") d1 = .ok v → Good v := by
  have h := search_arith_json t1_ok.2 (by decide) t1_ok.1 d1_decoded
  rw [t1_reading] at h
  exact h
/-- `{"a": 1e7000, "b": 1}`: a field that is a number text beyond the range -/
def d2 : Val := .obj [(bs "a", .num (.jnum (bs "1e7000"))), (bs "b", .num (.jnum (bs "1")))]
theorem d2_decoded : Json.decode (bs "{\"a\": 1e7000, \"b\": 1}") = some d2 := of_decodesTo (by decide +kernel)
-- ``a * `1.5` - b`` on it is invalid-type, by the same theorem (Go: "invalid type json.Number when expecting number")
example : search (bs "a * `1.5` - b") d2 = .err [Cat.invalidType] := by
  rw [(search_arith_json t1_ok.2 (by decide) t1_ok.1 d2_decoded).1, t1_reading]
  exact of_isErr (by decide +kernel)
-- one operator, exactly: 0.1 + 0.2 denotes 3/10
example : ∃ v, binSpec .add (.num (.jnum (bs "0.1"))) (.num (.jnum (bs "0.2"))) = .ok v ∧ valQ v = some (3 / 10 : Rat) :=
  operator_exact .add (qx := 1 / 10) (qy := 2 / 10) (by decide +kernel) (by decide +kernel) (by decide +kernel)
    ⟨false, 3, -1, C05B.fits_34_digits (by decide) (by decide) (by decide), by decide +kernel⟩
-- `1 / 3 * 3` is NOT exact: the quotient is rounded to 0.333…3 (34 digits) first; Go: 0.9999999999999999999999999999999999
example : arithSem .null .null [] (.bin .mul (.bin .div (.leaf (.lit (.num (.jnum (bs "1"))))) (.leaf (.lit (.num (.jnum (bs "3"))))))
    (.leaf (.lit (.num (.jnum (bs "3")))))) = .ok (.num (.dec (.fin false 9999999999999999999999999999999999 (-34)))) :=
  of_isOkDec (by decide +kernel)
-- a leaf that is not a number: `-s + a` with `s` a string is `null + 2`: invalid-type (Go: "invalid type nil when expecting number")
example : arithSem (.str [0x78]) (.str [0x78]) [] (.bin .add (.neg (.leaf .current)) (.leaf (.lit (.num (.jnum (bs "2")))))) =
    .err [Cat.invalidType] := of_isErr (by decide +kernel)
-- division by zero inside an expression: `2 * (1 // 0)` is not-a-number
example : arithSem .null .null [] (.bin .mul (.leaf (.lit (.num (.jnum (bs "2")))))
    (.bin .idiv (.leaf (.lit (.num (.jnum (bs "1"))))) (.leaf (.lit (.num (.jnum (bs "0"))))))) = .err [Cat.notANumber] :=
  of_isErr (by decide +kernel)
-- the evaluator on the same node: `evaluate_arith`
example : ieval d1 a1.node d1 [] = arithSem d1 d1 [] a1 :=
  (evaluate_arith d1 d1 [] a1 (fun n hn _ hv => numLeaf_good d1_good (a1_leaves n hn) hv)).1
end Ex

/-! ## 2. a number text is rounded first, then used -/

/-- **stage one: reading.**  The decimal that `toDecimal` (hence every operator and comparison) makes of a regular
    `json.Number` text is the ROUNDING FUNCTION of the format — `roundN`, the function every operator ends with
    (`C05C.reduce_is_round`: half-even, ties to even, to the longest coefficient `≤ MAXSIG`) — applied to the exact rational
    value `(-1)^neg · mant · 10^E` of the text (`mant`: the digit string, `E`: the exponent of its last digit; read by
    `C20B.numParts` / `ratRaw` independently of the decimal model); that value does not overflow.  For a text of at most 34
    significant digits this is the identity; a longer text is rounded BEFORE it takes part in anything. -/
theorem number_text_rounded_first {t : Bytes} (h : Regular t) :
    toDecimal (.num (.jnum t)) = some (roundN (numParts t).neg (numParts t).mant (ratRaw t).2) ∧
    ¬ OverflowsD (numParts t).mant 1 (ratRaw t).2 ∧
    NumIs (.num (.jnum t)) (numParts t).neg (rhe (numParts t).mant (ndrop (numParts t).mant))
      ((ratRaw t).2 + ((ndrop (numParts t).mant : Nat) : Int)) ∧
    Representable (rhe (numParts t).mant (ndrop (numParts t).mant)) ((ratRaw t).2 + ((ndrop (numParts t).mant : Nat) : Int)) :=
  ⟨toDecimal_regular_roundN h, regular_not_overflows h, numIs_regular h, rep_regular h⟩

/-- the same in rationals: the value that takes part in arithmetic is `rhe mant k · 10^(E+k)` (`k = ndrop mant` digits
    rounded away), not the value `mant · 10^E` of the text -/
theorem number_text_value {t : Bytes} (h : Regular t) :
    valQ (.num (.jnum t)) = some (qOf (numParts t).neg (rhe (numParts t).mant (ndrop (numParts t).mant))
      ((ratRaw t).2 + ((ndrop (numParts t).mant : Nat) : Int))) :=
  valQ_of_denotes (toDecimal_regular_explicit h) (denotes_normalize _ _ _)

/-- **stage two: the operator works on the ROUNDED operands.**  For two regular number texts of any length, `t1 op t2` is
    `opNum op` (the exact result rounded once) of the two ROUNDED values: two roundings of the operands and one of the
    result — not one rounding of the exact result on the texts. -/
theorem text_operands_two_stage {t1 t2 : Bytes} (h1 : Regular t1) (h2 : Regular t2) (op : AOp) :
    applyBinOp op.bin (.num (.jnum t1)) (.num (.jnum t2)) =
      opNum op (numParts t1).neg (rhe (numParts t1).mant (ndrop (numParts t1).mant))
          ((ratRaw t1).2 + ((ndrop (numParts t1).mant : Nat) : Int))
        (numParts t2).neg (rhe (numParts t2).mant (ndrop (numParts t2).mant))
          ((ratRaw t2).2 + ((ndrop (numParts t2).mant : Nat) : Int)) :=
  applyBinOp_eq_opNum (Or.inl (Val.noFloat_jnum _)) (numIs_regular h1) (numIs_regular h2) (rep_regular h1) (rep_regular h2) op

/-- **the 36-digit example**: `100000000000000000000000000000000001 - 100000000000000000000000000000000002` is `0` (the exact
    difference is `-1`): both texts are read as `1e35`.  Their sum is `2e35`, their quotient `1`; they compare equal
    (`C05C.long_numbers_compare_equal`).  Go: `big - big2` prints `0`, `big + z` prints `1e+35`, `big == big2` is `true`. -/
theorem long_texts_are_rounded_first :
    applyBinOp .sub (.num (.jnum C05C.long1)) (.num (.jnum C05C.long2)) = .ok (.num (.dec (.fin false 0 0))) ∧
    applyBinOp .add (.num (.jnum C05C.long1)) (.num (.jnum C05C.long2)) = .ok (.num (.dec (.fin false 2 35))) ∧
    applyBinOp .div (.num (.jnum C05C.long1)) (.num (.jnum C05C.long2)) = .ok (.num (.dec (.fin false 1 0))) ∧
    (ratRaw C05C.long1).1 - (ratRaw C05C.long2).1 = -1 ∧ (ratRaw C05C.long1).2 = 0 ∧ (ratRaw C05C.long2).2 = 0 ∧
    toDecimal (.num (.jnum C05C.long1)) = some (.fin false 1 35) ∧ toDecimal (.num (.jnum C05C.long2)) = some (.fin false 1 35) :=
  ⟨of_isOkDec (by decide +kernel), of_isOkDec (by decide +kernel), of_isOkDec (by decide +kernel), by decide +kernel,
    by decide +kernel, by decide +kernel, by decide +kernel, by decide +kernel⟩

example : toDecimal (.num (.jnum C05C.long1)) =
    some (roundN (numParts C05C.long1).neg (numParts C05C.long1).mant (ratRaw C05C.long1).2) :=
  (number_text_rounded_first (t := C05C.long1) (by decide)).1
example : (numParts C05C.long1).mant = 100000000000000000000000000000000001 ∧ ndrop (numParts C05C.long1).mant = 1 ∧
    rhe (numParts C05C.long1).mant 1 = 10 ^ 34 := by decide +kernel
example : applyBinOp AOp.sub.bin (.num (.jnum C05C.long1)) (.num (.jnum C05C.long2)) =
    opNum .sub false (rhe (numParts C05C.long1).mant (ndrop (numParts C05C.long1).mant))
      ((ratRaw C05C.long1).2 + ((ndrop (numParts C05C.long1).mant : Nat) : Int))
      false (rhe (numParts C05C.long2).mant (ndrop (numParts C05C.long2).mant))
      ((ratRaw C05C.long2).2 + ((ndrop (numParts C05C.long2).mant : Nat) : Int)) :=
  text_operands_two_stage (t1 := C05C.long1) (t2 := C05C.long2) (by decide) (by decide) .sub
example : valQ (.num (.jnum C05C.long1)) = some (qOf false (rhe (numParts C05C.long1).mant (ndrop (numParts C05C.long1).mant))
    ((ratRaw C05C.long1).2 + ((ndrop (numParts C05C.long1).mant : Nat) : Int))) := number_text_value (by decide)

/-- the other number texts: one too small to be told from zero IS zero, one too large for the format is NOT A NUMBER for
    the operators (`invalid-type`, KF02); both are `Good` leaves of §1 -/
theorem number_text_out_of_range {t : Bytes} :
    (Tiny t → toDecimal (.num (.jnum t)) = some (.fin (numParts t).neg 0 0)) ∧
    (Huge t → ∀ (op : AOp) (y : Val), Good y → applyBinOp op.bin (.num (.jnum t)) y = .err [Cat.invalidType] ∧
      applyBinOp op.bin y (.num (.jnum t)) = .err [Cat.invalidType]) := by
  refine ⟨C20B.toDecimal_tiny, fun h op y hy => ?_⟩
  have hg := good_jnum_huge h
  have hn : numOf (.num (.jnum t)) = none := numOf_none (C20B.toDecimal_huge h)
  constructor
  · rw [applyBinOp_eq_binSpec hg hy op]; simp only [binSpec, hn]
  · rw [applyBinOp_eq_binSpec hy hg op]; simp only [binSpec, hn]
    cases numOf y <;> rfl

-- `1e7000 + 0` (Go: "invalid type json.Number when expecting number")
example : applyBinOp .add (.num (.jnum [0x31, 0x65, 0x37, 0x30, 0x30, 0x30])) (.num (.jnum [0x30])) = .err [Cat.invalidType] :=
  ((number_text_out_of_range (t := [0x31, 0x65, 0x37, 0x30, 0x30, 0x30])).2
    ⟨(JsonGrammar.isValidNumber_iff _).mp (by decide), by decide, by decide⟩ .add _ (good_jnum_regular (by decide))).1

/-! ## 3. `%` never overflows -/

/-- **the `.mod` arm of `C05C.ResultOverflows` is vacuous**: for operands that are numbers of the format the remainder is
    smaller than the divisor and a multiple of the finer unit, hence representable — `x % y` reports an error iff `y = 0`
    (`C05C.mod_error_iff`), is exact otherwise (`C05C.mod_always_exact`), and never overflows. -/
theorem mod_never_overflows {C1 C2 : Nat} {E1 E2 : Int} (h1 : Representable C1 E1) (h2 : Representable C2 E2) (n1 n2 : Bool) :
    ¬ C05C.ResultOverflows .mod n1 n2 C1 C2 E1 E2 := by
  rintro ⟨hC2, ho⟩
  exact not_overflows_of_fits (mod_representable h1 h2 hC2) ho

/-- the error clause of `C05C.arith_error_iff` with the vacuous arm removed: an arithmetic operator on numbers of the
    format reports an error iff it is a division (`/`, `//`, `%`) by zero, or it is not `%` and the exact result overflows;
    the error is then `not-a-number` -/
theorem arith_error_iff' {x y : Val} (hnf : x.NoFloat ∨ y.NoFloat) {n1 n2 : Bool} {C1 C2 : Nat} {E1 E2 : Int}
    (hx : NumIs x n1 C1 E1) (hy : NumIs y n2 C2 E2) (hr1 : Representable C1 E1) (hr2 : Representable C2 E2)
    (op : AOp) (cs : List Cat) :
    applyBinOp op.bin x y = .err cs ↔
      cs = [Cat.notANumber] ∧ ((C05C.IsDivision op.bin ∧ C2 = 0) ∨ (op ≠ .mod ∧ C05C.ResultOverflows op.bin n1 n2 C1 C2 E1 E2)) := by
  rw [C05C.arith_error_iff hnf hx hy hr1 hr2 op.bin (by cases op <;> rfl) cs]
  by_cases hm : op = .mod
  · subst hm
    have := mod_never_overflows hr1 hr2 n1 n2 (C1 := C1) (C2 := C2) (E1 := E1) (E2 := E2)
    simp only [AOp.bin, ne_eq, not_true_eq_false, false_and, or_false, this]
  · simp only [ne_eq, hm, not_false_eq_true, true_and]

-- `7 % 2` is no error; `7 % 0` is `not-a-number`
example : ∀ cs, applyBinOp AOp.mod.bin (.num (.int .i64 7)) (.num (.int .i64 0)) = .err cs ↔
    cs = [Cat.notANumber] ∧ ((C05C.IsDivision AOp.mod.bin ∧ (0 : Int).natAbs = 0) ∨
      (AOp.mod ≠ .mod ∧ C05C.ResultOverflows AOp.mod.bin false false 7 (0 : Int).natAbs 0 0)) := fun cs =>
  arith_error_iff' (Or.inl (Val.noFloat_int _ _)) (numIs_int .i64 7) (numIs_int .i64 0)
    (C05B.fits_34_digits (by decide) (by decide) (by decide)) (C05B.fits_34_digits (by decide) (by decide) (by decide)) .mod cs
example : ¬ C05C.ResultOverflows .mod false false MAXSIG 7 EMAX EMIN :=
  mod_never_overflows (fits_of_le (by decide) (by decide) (by decide)) (fits_of_le (by decide) (by decide) (by decide)) _ _

/-! ## 4. `sum` and `avg`, declaratively -/

/-- **`sum(xs)` is the left fold of the correctly rounded `+`** from `+0`: `sumSpec xs acc` applies `binSpec .add` — the exact
    sum of the accumulator and the next element, rounded once — element by element; an overflow of a PARTIAL sum ends it with
    `not-a-number` (`C05C.sum_intermediate_overflow`).  (`C05C.sumFold` folds the evaluator's own `+`; this is the closed form.) -/
theorem sum_is_rounded_fold (t : ATag) (xs : List Val) (hx : ∀ x ∈ xs, Good x ∧ ∃ d, toDecimal x = some d)
    (hok : enumSumOk t xs = true) : applyFn .sum [.arr t xs] = sumSpec xs (zeroV false) :=
  sum_eq_sumSpec t xs hx hok

/-- **`sum` is exact whenever every partial sum is a number of the format**: `qs` the rational values of the elements,
    `PrefixRep qs 0`: each `q₁ + … + qₖ` is `RepQ`; then the result denotes `q₁ + … + qₙ` exactly.  (The condition is on the
    partial sums in array order — not on the total: C05B / C05C have the counterexamples.) -/
theorem sum_exact (t : ATag) (xs : List Val) (qs : List Rat) (hx : ∀ x ∈ xs, Good x ∧ ∃ d, toDecimal x = some d)
    (hok : enumSumOk t xs = true) (hq : xs.map valQ = qs.map some) (hp : PrefixRep qs 0) :
    ∃ v, applyFn .sum [.arr t xs] = .ok v ∧ valQ v = some (qs.foldl (· + ·) 0) := by
  rw [sum_eq_sumSpec t xs hx hok]
  exact sumSpec_exact xs qs (zeroV false) 0 (valQ_zeroV false) hq hp

/-- **`avg(xs)` is that fold, then ONE more correctly rounded operation: `/` by the number of elements** -/
theorem avg_is_rounded_fold_then_div (t : ATag) (xs : List Val) (hx : ∀ x ∈ xs, Good x ∧ ∃ d, toDecimal x = some d)
    (hok : enumSumOk t xs = true) (hne : xs ≠ []) (hlen : xs.length ≤ MAXSIG) :
    applyFn .avg [.arr t xs] =
      Res.bind (sumSpec xs (zeroV false)) (fun s => binSpec .div s (.num (.int .int xs.length))) :=
  avg_eq_sumSpec t xs hx hok hne hlen

/-- **`avg` is exact** when the partial sums and the quotient are numbers of the format -/
theorem avg_exact (t : ATag) (xs : List Val) (qs : List Rat) (hx : ∀ x ∈ xs, Good x ∧ ∃ d, toDecimal x = some d)
    (hok : enumSumOk t xs = true) (hne : xs ≠ []) (hlen : xs.length ≤ MAXSIG) (hq : xs.map valQ = qs.map some)
    (hp : PrefixRep qs 0) (hr : RepQ (qs.foldl (· + ·) 0 / ((xs.length : Int) : Rat))) :
    ∃ v, applyFn .avg [.arr t xs] = .ok v ∧ valQ v = some (qs.foldl (· + ·) 0 / ((xs.length : Int) : Rat)) := by
  rw [avg_eq_sumSpec t xs hx hok hne hlen]
  obtain ⟨s, hs, hsq⟩ := sumSpec_exact xs qs (zeroV false) 0 (valQ_zeroV false) hq hp
  rw [hs]
  have hl0 : ((xs.length : Int) : Rat) ≠ 0 := by
    rw [Ne, Rat.intCast_eq_zero_iff]
    cases xs with
    | nil => exact absurd rfl hne
    | cons _ _ => simp only [List.length_cons]; omega
  exact binSpec_exact .div hsq (valQ_int .int xs.length) (by simp only [opQ, hl0, if_false]) hr

namespace Ex
open Jmes.Grammar.Ex

/-- `[0.1, 0.2]` -/
def xs1 : List Val := [.num (.jnum (bs "0.1")), .num (.jnum (bs "0.2"))]
theorem xs1_good : ∀ x ∈ xs1, Good x ∧ ∃ d, toDecimal x = some d := by
  intro x hx
  simp only [xs1, List.mem_cons, List.not_mem_nil, or_false] at hx
  rcases hx with rfl | rfl
  · exact ⟨good_jnum_regular (by decide), _, show toDecimal _ = some (.fin false 1 (-1)) by decide⟩
  · exact ⟨good_jnum_regular (by decide), _, show toDecimal _ = some (.fin false 2 (-1)) by decide⟩

-- sum([0.1, 0.2]) denotes exactly 3/10 (Go: 0.3) …
example : ∃ v, applyFn .sum [.arr .plain xs1] = .ok v ∧ valQ v = some (3 / 10 : Rat) := by
  obtain ⟨v, h1, h2⟩ := sum_exact .plain xs1 [1 / 10, 2 / 10] xs1_good rfl (by decide +kernel)
    ⟨⟨false, 1, -1, C05B.fits_34_digits (by decide) (by decide) (by decide), by decide +kernel⟩,
     ⟨false, 3, -1, C05B.fits_34_digits (by decide) (by decide) (by decide), by decide +kernel⟩, trivial⟩
  exact ⟨v, h1, by rw [h2]; decide +kernel⟩
-- … it is the fold 0 + 0.1 + 0.2 of the rounded `+` …
example : applyFn .sum [.arr .plain xs1] = sumSpec xs1 (zeroV false) := sum_is_rounded_fold .plain xs1 xs1_good rfl
example : sumSpec xs1 (zeroV false) = .ok (.num (.dec (.fin false 3 (-1)))) := of_isOkDec (by decide +kernel)
-- … avg([0.1, 0.2]) = 0.15 exactly, and avg([1, 2, 2]) = 5/3 rounded once: 1.666666666666666666666666666666667 (Go agrees)
example : ∃ v, applyFn .avg [.arr .plain xs1] = .ok v ∧ valQ v = some ((1 / 10 + 2 / 10 : Rat) / 2) := by
  have h := avg_exact .plain xs1 [1 / 10, 2 / 10] xs1_good rfl (by simp [xs1]) (by decide) (by decide +kernel)
    ⟨⟨false, 1, -1, C05B.fits_34_digits (by decide) (by decide) (by decide), by decide +kernel⟩,
     ⟨false, 3, -1, C05B.fits_34_digits (by decide) (by decide) (by decide), by decide +kernel⟩, trivial⟩
    ⟨false, 15, -2, C05B.fits_34_digits (by decide) (by decide) (by decide), by decide +kernel⟩
  obtain ⟨v, h1, h2⟩ := h
  exact ⟨v, h1, by rw [h2]; decide +kernel⟩
example : applyFn .avg [.arr .plain xs1] = Res.bind (sumSpec xs1 (zeroV false)) (fun s => binSpec .div s (.num (.int .int xs1.length))) :=
  avg_is_rounded_fold_then_div .plain xs1 xs1_good rfl (by simp [xs1]) (by decide)
example : Res.bind (sumSpec [.num (.jnum (bs "1")), .num (.jnum (bs "2")), .num (.jnum (bs "2"))] (zeroV false))
    (fun s => binSpec .div s (.num (.int .int 3))) = .ok (.num (.dec (.fin false 1666666666666666666666666666666667 (-33)))) :=
  of_isOkDec (by decide +kernel)
end Ex

/-! ## 5. the boundary facts of the decimal model that were confirmed against Go

  Everything in C05…C05E is about the hand-written `Dec` (Jmes/Basic/Dec.lean), which is tied to
  `github.com/woodsbury/decimal128` v1.4.0 by differential testing, not by proof.  The facts below are the ones at the edges
  of the format; each was run through `/repo` (`jmespath.Search`, documents decoded with `UseNumber`) and agrees:

  * the largest finite number is `MAXSIG·10^EMAX = 1.2980742146337069071326240823050239e6145` (NOT `9.99…e6144`):
    ``  `1e6144` * `12`  `` is `1.2e+6145`, ``  `1e6144` * `13`  `` is "result of operation is an infinity" (`not-a-number`);
  * ties go to even at the 35th digit: ``  `20000000000000000000000000000000005` + `0`  `` is `2e+34`,
    `…015 + 0` is `2.000000000000000000000000000000002e+34`;
  * a number text beyond the range is not a number: ``  `1e7000` + `0`  `` is "invalid type json.Number when expecting number";
    `to_number('1e7000')` is `null`; below the range it is zero: `to_number('1e-7000')` is `0`;
  * two `float64` operands use BINARY arithmetic: `0.1 + 0.2` on Go floats is `0.30000000000000004`; ONE float operand is
    converted exactly and rounded to the format: `0.1 (float64) + 0.2 (json.Number)` is `0.3000000000000000055511151231257827`;
  * the sign of zero: `0 * -1` is `-0`, `(-0) + (-0)` is `-0`, `(-0) + 0` is `0`, `-(0)` is `0`, `-(-0)` is `-0`, `1 - 1` is `0`. -/

/-- the boundary facts, as one theorem about the model (see the list above; Go agrees on every line) -/
theorem boundary_facts :
    -- largest finite number
    roundN false MAXSIG EMAX = .fin false MAXSIG EMAX ∧ MAXSIG = 12980742146337069071326240823050239 ∧ EMAX = 6111 ∧
    applyBinOp .mul (.num (.jnum [0x31, 0x65, 0x36, 0x31, 0x34, 0x34])) (.num (.jnum [0x31, 0x32])) =
      .ok (.num (.dec (.fin false 12 6144))) ∧
    applyBinOp .mul (.num (.jnum [0x31, 0x65, 0x36, 0x31, 0x34, 0x34])) (.num (.jnum [0x31, 0x33])) = .err [Cat.notANumber] ∧
    -- ties to even at 2e34 + 5, up at 2e34 + 15
    applyBinOp .add (.num (.jnum (C20B.digits 20000000000000000000000000000000005))) (.num (.jnum [0x30])) =
      .ok (.num (.dec (.fin false 2 34))) ∧
    applyBinOp .add (.num (.jnum (C20B.digits 20000000000000000000000000000000015))) (.num (.jnum [0x30])) =
      .ok (.num (.dec (.fin false 2000000000000000000000000000000002 1))) ∧
    -- out of range: not a number / null / zero
    applyBinOp .add (.num (.jnum [0x31, 0x65, 0x37, 0x30, 0x30, 0x30])) (.num (.jnum [0x30])) = .err [Cat.invalidType] ∧
    applyFn .toNumber [.str [0x31, 0x65, 0x37, 0x30, 0x30, 0x30]] = .ok .null ∧
    applyFn .toNumber [.str [0x31, 0x65, 0x2D, 0x37, 0x30, 0x30, 0x30]] = .ok (.num (.dec (.fin false 0 0))) ∧
    -- two float64 operands: binary arithmetic; one float64 operand: decimal arithmetic on its exact value
    applyBinOp .add (.num (.f64 (.fin false 3602879701896397 (-55)))) (.num (.f64 (.fin false 3602879701896397 (-54)))) =
      .ok (.num (.f64 (.fin false 1351079888211149 (-52)))) ∧
    applyBinOp .add (.num (.f64 (.fin false 3602879701896397 (-55)))) (.num (.jnum [0x30, 0x2E, 0x32])) =
      .ok (.num (.dec (.fin false 3000000000000000055511151231257827 (-34)))) ∧
    -- the sign of zero
    applyBinOp .mul (.num (.jnum [0x30])) (.num (.jnum [0x2D, 0x31])) = .ok (.num (.dec (.fin true 0 0))) ∧
    negateVal (.num (.jnum [0x30])) = .num (.dec (.fin false 0 0)) ∧
    negateVal (.num (.dec (.fin true 0 0))) = .num (.dec (.fin true 0 0)) := by
  refine ⟨by decide +kernel, rfl, rfl, of_isOkDec (by decide +kernel), of_isErr (by decide +kernel),
    of_isOkDec (by decide +kernel), of_isOkDec (by decide +kernel), of_isErr (by decide +kernel), ?_, ?_, ?_,
    of_isOkDec (by decide +kernel), of_isOkDec (by decide +kernel), ?_, ?_⟩
  · simp only [applyFn, toNumber]
    rw [if_pos (by decide), show Dec.unmarshalJSON [0x31, 0x65, 0x37, 0x30, 0x30, 0x30] = none by decide]
  · simp only [applyFn, toNumber]
    rw [if_pos (by decide), show Dec.unmarshalJSON [0x31, 0x65, 0x2D, 0x37, 0x30, 0x30, 0x30] = some (.fin false 0 0) by decide]
  · simp only [applyBinOp, Jmes.add, arith, toFloatPair, toFloat, checkF]
    rw [show F64.add (.fin false 3602879701896397 (-55)) (.fin false 3602879701896397 (-54)) =
      .fin false 1351079888211149 (-52) by decide +kernel]
    rfl
  · rw [negateVal_eq_negSpec (good_jnum_regular (by decide))]
    simp only [negSpec, numOf_some (show toDecimal (.num (.jnum [0x30])) = some (.fin false 0 0) by decide), if_true]
  · rw [negateVal_eq_negSpec (good_dec _ _ _ (fits_zero 0))]
    simp only [negSpec, numOf_some (show toDecimal (.num (.dec (.fin true 0 0))) = some (.fin true 0 0) from rfl), if_true]

end Jmes.C05E
