/-
  C08 (second part) — what a *compiled* expression can report at `Search` time.

  * `evaluate_error_categories`: an evaluation failure carries at least one category, and every category is one of the
    five run-time ones (invalid-type, invalid-value, not-a-number, undefined-variable, evaluation-failed).
    `compiled_never_static`: a compiled `Expression` never reports syntax / arity / unknown-function;
    `static_iff_compile_error`: one-shot `search` reports one of those three exactly when `compile` fails with it.
  * `parse_arityOK` (from `Proofs/C08BArity.lean`), `applyFn_wrong_arity`, `applyFn_eq_strict`, `call_never_default`:
    the arm `| _, _ => .err [evaluationFailed]` of `applyFn` (an argument list of the wrong length) is exactly the case
    `args.length ≠ fnArity f`; every call node of a parsed expression has `args.length = fnArity f`, evaluation of the
    arguments preserves the length, hence evaluation never takes that arm (`applyFnStrict` answers `panic` there, and
    the evaluator agrees with it on parsed nodes).  `evaluationFailed_only_toString`: the semantic consequence — a
    compiled expression that does not call `to_string` never reports evaluation-failed.
  * multi-fault soundness: `combineUnordered_sound`, `ievalFields_sound`, `widen_sound` — every category of a failure
    set is a category of one of the failing members (or, for the `…_by` builtins, the invalid-type of a key of the wrong
    kind); `selectObject_sound`, `defineVariables_sound` at node level.  `widen_keeps_first`, `ievalFields_nonempty`.
  * `parsed_single_category`: a parsed expression without an enumerated multi-member construct (`EnumFree`), on a
    document without map-ordered arrays, fails with exactly one category.
-/
import Jmes.Proofs.C08BLemmas
import Jmes.Proofs.C08BArity
import Jmes.Proofs.C08BStrict
import Jmes.Properties.C15
namespace Jmes.C08B
open Jmes Jmes.RtErr

/-! ## 1. the categories of an evaluation failure -/

/-- the five categories an evaluation can report -/
def runtimeCats : List Cat :=
  [.invalidType, .invalidValue, .notANumber, .undefinedVariable, .evaluationFailed]

/-- a failure set: non-empty, run-time categories only -/
def Good (cs : List Cat) : Prop := cs ≠ [] ∧ ∀ c ∈ cs, c ∈ runtimeCats

instance : HasT Good := ⟨by simp [Good, runtimeCats]⟩
instance : HasV Good := ⟨by simp [Good, runtimeCats]⟩
instance : HasN Good := ⟨by simp [Good, runtimeCats]⟩
instance : HasU Good := ⟨by simp [Good, runtimeCats]⟩
instance : HasF Good := ⟨by simp [Good, runtimeCats]⟩
instance : PeMore Good where
  mem := fun cs h c hc => ⟨by simp, fun c' hc' => by
    rw [List.mem_singleton.mp hc']; exact h.2 c hc⟩
  more := fun cs ex h hex => by
    refine ⟨fun hd => ?_, fun c hc => ?_⟩
    · have := Cat.dedup_eq_nil _ hd
      simp only [List.append_eq_nil_iff] at this
      exact h.1 this.1
    · rw [Cat.mem_dedup, List.mem_append] at hc
      rcases hc with hc | hc
      · exact h.2 c hc
      · exact (hex c hc).2 c (List.mem_singleton.mpr rfl)

/-- **An evaluation failure names at least one category, and only run-time categories**: invalid-type, invalid-value,
    not-a-number, undefined-variable or evaluation-failed — never syntax, arity or unknown-function. (For every node,
    parsed or not, every document, every environment.) -/
theorem ieval_error_categories (root : Val) (n : INode) (cur : Val) (env : Env) {cs : List Cat}
    (h : ieval root n cur env = .err cs) :
    cs ≠ [] ∧ ∀ c ∈ cs, c ∈ [Cat.invalidType, .invalidValue, .notANumber, .undefinedVariable, .evaluationFailed] :=
  (ieval_rt (pe := Good) root n cur env).err_pe h

theorem evaluate_error_categories (n : INode) (d : Val) {cs : List Cat} (h : evaluate n d = .err cs) :
    cs ≠ [] ∧ ∀ c ∈ cs, c ∈ [Cat.invalidType, .invalidValue, .notANumber, .undefinedVariable, .evaluationFailed] :=
  ieval_error_categories d n d [] h

/-- **a compiled `Expression` never reports a static fault at `Search` time** -/
theorem compiled_never_static {expr : Bytes} {n : INode} (_ : compile expr = .ok n) (d : Val) {cs : List Cat}
    (h : evaluate n d = .err cs) : Cat.syntax ∉ cs ∧ Cat.arity ∉ cs ∧ Cat.unknownFunction ∉ cs := by
  have := (evaluate_error_categories n d h).2
  refine ⟨fun hc => ?_, fun hc => ?_, fun hc => ?_⟩ <;> exact absurd (this _ hc) (by decide)

/-- … and it never panics (C03, restated for completeness of the contract: nil result *and* an error) -/
theorem evaluate_no_panic (n : INode) (d : Val) (w : String) : evaluate n d ≠ .panic w :=
  (evaluate_rt (pe := Good) n d).noPanic w

/-- **one-shot `search` reports syntax / arity / unknown-function exactly when `compile` fails with that category**
    (so these faults are decided by the expression text alone) -/
theorem static_iff_compile_error (expr : Bytes) (d : Val) (c : Cat)
    (hc : c = .syntax ∨ c = .arity ∨ c = .unknownFunction) :
    (∃ cs, search expr d = .err cs ∧ c ∈ cs) ↔ ∃ e, compile expr = .error e ∧ e ≠ .fuel ∧ parseCat e = c := by
  unfold search compile
  constructor
  · rintro ⟨cs, h, hm⟩
    cases hp : Parser.parse expr with
    | error e =>
      rw [hp] at h
      refine ⟨e, rfl, ?_, ?_⟩ <;> cases e <;> simp_all [parseCat] <;>
        (subst h; exact (List.mem_singleton.mp hm).symm)
    | ok n =>
      rw [hp] at h
      have := (evaluate_error_categories n d h).2 c hm
      rcases hc with rfl | rfl | rfl <;> exact absurd this (by decide)
  · rintro ⟨e, he, hne, rfl⟩
    rw [he]
    cases e <;> first | exact absurd rfl hne | exact ⟨_, rfl, List.mem_singleton.mpr rfl⟩

/-- non-vacuity: an undefined variable at run time; the set `Good` rejects static categories -/
example : evaluate (.variable [0x78]) .null = .err [.undefinedVariable] := rfl
example : ¬ Good [Cat.syntax] := fun h => absurd (h.2 _ (List.mem_singleton.mpr rfl)) (by decide)
example : ¬ Good [] := fun h => h.1 rfl
example : Good [Cat.invalidType, Cat.undefinedVariable] := by simp [Good, runtimeCats]

/-! ## 2. the wrong-arity arm of `applyFn` is unreachable from parsed expressions -/

/-- `applyFn` with the catch-all arm replaced by a panic -/
def applyFnStrict (f : Fn) (args : List Val) : Res Val :=
  if args.length = fnArity f then applyFn f args else .panic "builtin called with a wrong argument count"

/-- **the catch-all arm of `applyFn` is exactly the wrong-length case**: with an argument list whose length is not the
    arity of the tag, the outcome is that arm's `evaluation-failed` … -/
theorem applyFn_wrong_arity (f : Fn) (args : List Val) (h : args.length ≠ fnArity f) :
    applyFn f args = .err [Cat.evaluationFailed] := by
  cases f <;>
    (rcases args with _ | ⟨a, _ | ⟨b, _ | ⟨c, _ | ⟨d, _ | ⟨e, r⟩⟩⟩⟩⟩ <;>
      first | rfl | exact absurd rfl h)

/-- … and with the right length `applyFn` is one of the 44 proper arms (it agrees with `applyFnStrict`, whose
    catch-all is a panic) -/
theorem applyFn_eq_strict (f : Fn) (args : List Val) (h : args.length = fnArity f) :
    applyFn f args = applyFnStrict f args := by
  simp only [applyFnStrict, h, if_true]

/-- with the right length, a report of evaluation-failed can only come from `to_string` -/
theorem applyFn_failed_only_toString (f : Fn) (args : List Val) (h : args.length = fnArity f) {cs : List Cat}
    (he : applyFn f args = .err cs) (hc : Cat.evaluationFailed ∈ cs) : f = .toString := by
  cases f <;>
    (rcases args with _ | ⟨a, _ | ⟨b, _ | ⟨c, _ | ⟨d, _ | ⟨e, r⟩⟩⟩⟩⟩ <;>
      first
        | rfl
        | (simp only [fnArity, List.length_cons, List.length_nil] at h; omega)
        | (exfalso
           let pe : List Cat → Prop := fun cs => Cat.evaluationFailed ∉ cs
           haveI : HasT pe := ⟨by simp [pe]⟩
           haveI : HasV pe := ⟨by simp [pe]⟩
           haveI : HasN pe := ⟨by simp [pe]⟩
           haveI : PeMore pe := ⟨fun cs h c hc => by
               simp only [pe, List.mem_singleton]; intro h'; subst h'; exact h hc,
             fun cs ex h hex => by
               simp only [pe, Cat.mem_dedup, List.mem_append, not_or]
               exact ⟨h, fun hc => by have := hex _ hc; simp [pe] at this⟩⟩
           refine (Sat.err_pe (pe := pe) ?_ he) hc
           first
             | exact Sat.ok _
             | apply numAbs_rt | apply numAvg_rt | apply numCeil_rt | apply contains_rt | apply endsWith_rt
             | apply findFirst_rt | apply findBetween_rt | apply findFrom_rt | apply findLast_rt
             | apply numFloor_rt | apply fromItems_rt | apply items_rt | apply join_rt | apply keys_rt
             | apply length_rt | apply lower_rt | apply arrayMax_rt | apply arrayMin_rt
             | apply padLeft_rt | apply padRight_rt | apply padSpaceLeft_rt | apply padSpaceRight_rt
             | apply replace_rt | apply replaceCount_rt | apply reverse_rt | apply sortArray_rt
             | apply split_rt | apply splitCount_rt | apply startsWith_rt | apply numSum_rt
             | apply trim_rt | apply trimLeft_rt | apply trimRight_rt
             | apply trimSpace_rt | apply trimSpaceLeft_rt | apply trimSpaceRight_rt
             | apply typeName_rt | apply upper_rt | apply values_rt))

/-- evaluating an argument list yields as many values as there are arguments -/
theorem ievalList_length (root : Val) (ns : List INode) (cur : Val) (env : Env) (vs : List Val)
    (h : ievalList root ns cur env = .ok vs) : vs.length = ns.length :=
  ievalList_len root ns cur env vs h
example : ∀ vs, ievalList .null [.current, .root] .null [] = .ok vs → vs.length = 2 :=
  fun vs h => ievalList_length .null _ .null [] vs h

/-- **a call node with the right number of arguments never takes the catch-all arm**: its evaluation is that of the
    strict dispatch -/
theorem call_never_default (root : Val) (f : Fn) (args : List INode) (cur : Val) (env : Env)
    (h : (INode.call f args).ArityOK = true) :
    ieval root (.call f args) cur env = (ievalList root args cur env).bind (applyFnStrict f) := by
  have hl : args.length = fnArity f := by
    simp only [INode.ArityOK, INode.all, INode.arityHead, Bool.and_eq_true, beq_iff_eq] at h
    exact h.1
  simp only [ieval]
  show (ievalList root args cur env).bind (applyFn f) = _
  cases hv : ievalList root args cur env with
  | ok vs =>
    show applyFn f vs = applyFnStrict f vs
    exact applyFn_eq_strict f vs (by rw [ievalList_length root args cur env vs hv, hl])
  | err c => rfl
  | panic w => rfl
  | nondet => rfl
  | unmodelled w => rfl

/-- **every call node of a compiled expression has the argument count of its builtin** (and `ArityOK` is hereditary by
    definition: it is `INode.all`), so `call_never_default` applies to each of them -/
theorem compile_arityOK {expr : Bytes} {n : INode} (h : compile expr = .ok n) : n.ArityOK = true :=
  parse_arityOK h


/-- failure sets without evaluation-failed -/
def NoFailed (cs : List Cat) : Prop := Cat.evaluationFailed ∉ cs
instance : HasT NoFailed := ⟨by simp [NoFailed]⟩
instance : HasV NoFailed := ⟨by simp [NoFailed]⟩
instance : HasN NoFailed := ⟨by simp [NoFailed]⟩
instance : HasU NoFailed := ⟨by simp [NoFailed]⟩
instance : PeMore NoFailed where
  mem := fun cs h c hc => by
    simp only [NoFailed, List.mem_singleton]; intro h'; subst h'; exact h hc
  more := fun cs ex h hex => by
    simp only [NoFailed, Cat.mem_dedup, List.mem_append, not_or]
    exact ⟨h, fun hc => by have := hex _ hc; simp [NoFailed] at this⟩

/-- **Semantic form of "the evaluator never takes the catch-all arm".**  The only sources of evaluation-failed are that
    arm and `to_string` (a value `encoding/json` cannot encode).  On a node whose calls have the right argument count
    and which does not call `to_string`, no evaluation reports evaluation-failed — for every document. -/
theorem evaluationFailed_only_toString {n : INode} (ha : n.ArityOK = true)
    (hs : n.all INode.notToString = true) (d : Val) {cs : List Cat} (h : evaluate n d = .err cs) :
    Cat.evaluationFailed ∉ cs := by
  have hq : n.all qNode = true := by
    unfold qNode
    rw [INode.all_and, Bool.and_eq_true]
    exact ⟨ha, hs⟩
  exact (ieval_rt' (pe := NoFailed) d n hq d []).err_pe h

/-- … in particular for every compiled expression that does not mention `to_string` -/
theorem compiled_evaluationFailed_only_toString {expr : Bytes} {n : INode} (hc : compile expr = .ok n)
    (hs : n.all INode.notToString = true) (d : Val) {cs : List Cat} (h : evaluate n d = .err cs) :
    Cat.evaluationFailed ∉ cs :=
  evaluationFailed_only_toString (parse_arityOK hc) hs d h

/-- the hypothesis on the argument count is needed (an ill-formed node does report it), and so is the one on
    `to_string` -/
example : evaluate (.call .abs []) .null = .err [.evaluationFailed] ∧ (INode.call .abs []).all INode.notToString = true :=
  ⟨rfl, rfl⟩
example : evaluate (.call .toString [.lit (.num (.jnum [0x78]))]) .null = .err [.evaluationFailed] ∧
    (INode.call .toString [.lit (.num (.jnum [0x78]))]).ArityOK = true := ⟨rfl, rfl⟩

/-- non-vacuity: the arm exists for ill-formed nodes, `ArityOK` rejects them, and the strict dispatch panics there -/
example : evaluate (.call .abs []) .null = .err [.evaluationFailed] := rfl
example : (INode.call .abs []).ArityOK = false := rfl
example : applyFnStrict .abs [] = .panic "builtin called with a wrong argument count" := rfl
example : (INode.call .abs [.current]).ArityOK = true := rfl
example : (INode.pipe (.call .findFirstFrom [.current, .current, .current]) (.merge [.current])).ArityOK = true := rfl
example : fnArity .findFirstBetween = 4 ∧ fnArity .trimSpace = 1 := ⟨rfl, rfl⟩

/-! ## 3. multi-fault soundness -/

/-- the categories of a combined failure come from the failing parts -/
theorem combineUnordered_sound {acc : Res (List (Bytes × Val))} {k : Bytes} {r : Res Val} {cs : List Cat}
    (h : combineUnordered acc k r = .err cs) :
    ∀ c ∈ cs, (∃ a, acc = .err a ∧ c ∈ a) ∨ (∃ b, r = .err b ∧ c ∈ b) := by
  intro c hc
  cases acc <;> cases r <;> simp only [combineUnordered] at h <;> try (cases h; done)
  · cases h; exact Or.inr ⟨_, rfl, hc⟩
  · cases h; exact Or.inl ⟨_, rfl, hc⟩
  · cases h
    rw [Cat.mem_dedup, List.mem_append] at hc
    rcases hc with hc | hc
    · exact Or.inl ⟨_, rfl, hc⟩
    · exact Or.inr ⟨_, rfl, hc⟩

/-- … and every failing part contributes all its categories -/
theorem combineUnordered_complete {acc : Res (List (Bytes × Val))} {k : Bytes} {r : Res Val} {cs : List Cat}
    (h : combineUnordered acc k r = .err cs) :
    (∀ a, acc = .err a → ∀ c ∈ a, c ∈ cs) ∧ (∀ b, r = .err b → ∀ c ∈ b, c ∈ cs) := by
  cases acc <;> cases r <;> simp only [combineUnordered] at h <;> try (cases h; done)
  · cases h; exact ⟨fun _ h' => (by cases h'), fun _ h' => (by cases h'; exact fun _ hc => hc)⟩
  · cases h; exact ⟨fun _ h' => (by cases h'; exact fun _ hc => hc), fun _ h' => (by cases h')⟩
  · cases h
    refine ⟨fun _ h' => ?_, fun _ h' => ?_⟩ <;> cases h' <;> intro c hc <;>
      rw [Cat.mem_dedup, List.mem_append]
    · exact Or.inl hc
    · exact Or.inr hc

/-- **multi-fault soundness for the members of a multi-select hash / the bindings of a `let`**: every category
    reported is a category of one of the failing members -/
theorem ievalFields_sound (root : Val) : ∀ (fs : List (Bytes × INode)) (cur : Val) (env : Env) (cs : List Cat),
    ievalFields root fs cur env = .err cs →
    ∀ c ∈ cs, ∃ kn ∈ fs, ∃ cs', ieval root kn.2 cur env = .err cs' ∧ c ∈ cs'
  | [], _, _, cs, h => by simp only [ievalFields] at h; cases h
  | (k, n) :: rest, cur, env, cs, h => by
    simp only [ievalFields] at h
    intro c hc
    rcases combineUnordered_sound h c hc with ⟨a, ha, hca⟩ | ⟨b, hb, hcb⟩
    · obtain ⟨kn, hkn, cs', h1, h2⟩ := ievalFields_sound root rest cur env a ha c hca
      exact ⟨kn, List.mem_cons_of_mem _ hkn, cs', h1, h2⟩
    · exact ⟨(k, n), List.mem_cons_self, b, hb, hcb⟩

/-- conversely every category of every failing member is reported: the set is exactly the union -/
theorem ievalFields_complete (root : Val) : ∀ (fs : List (Bytes × INode)) (cur : Val) (env : Env) (cs : List Cat),
    ievalFields root fs cur env = .err cs →
    ∀ kn ∈ fs, ∀ cs', ieval root kn.2 cur env = .err cs' → ∀ c ∈ cs', c ∈ cs
  | [], _, _, cs, h => by simp only [ievalFields] at h; cases h
  | (k, n) :: rest, cur, env, cs, h => by
    simp only [ievalFields] at h
    intro kn hkn cs' he c hc
    have hcomp := combineUnordered_complete h
    rcases List.mem_cons.mp hkn with rfl | hkn
    · exact hcomp.2 cs' he c hc
    · cases ha : ievalFields root rest cur env with
      | err a => exact hcomp.1 a ha c (ievalFields_complete root rest cur env a ha kn hkn cs' he c hc)
      | ok kvs =>
        -- the rest succeeded although a member of it fails: impossible
        exfalso
        have : ∀ (fs : List (Bytes × INode)) kvs, ievalFields root fs cur env = .ok kvs →
            ∀ kn ∈ fs, ∀ cs', ieval root kn.2 cur env ≠ .err cs' := by
          intro fs
          induction fs with
          | nil => intro _ _ kn hkn; cases hkn
          | cons p fs ih =>
            obtain ⟨k', n'⟩ := p
            intro kvs hok kn hkn cs' he
            simp only [ievalFields] at hok
            cases h1 : ievalFields root fs cur env <;> cases h2 : ieval root n' cur env <;>
              rw [h1, h2] at hok <;> simp only [combineUnordered] at hok <;> try (cases hok; done)
            rcases List.mem_cons.mp hkn with rfl | hkn
            · rw [h2] at he; cases he
            · exact ih _ h1 kn hkn cs' he
        exact this rest kvs ha kn hkn cs' he
      | panic w => rw [ha] at h; cases hr : ieval root n cur env <;> rw [hr] at h <;> simp [combineUnordered] at h
      | nondet => rw [ha] at h; cases hr : ieval root n cur env <;> rw [hr] at h <;> simp [combineUnordered] at h
      | unmodelled w => rw [ha] at h; cases hr : ieval root n cur env <;> rw [hr] at h <;> simp [combineUnordered] at h

/-- **multi-fault soundness for an iteration over a map-ordered array** (`widen`): every category reported is one of
    the sequential outcome, or one of the `extra` categories of the construct (`[invalidType]` for the key-kind check of
    `sort_by` / `max_by` / `min_by` / `group_by`, none otherwise), or a category with which the sub-expression fails on
    some element -/
theorem widen_sound {α} {t : ATag} {xs : List Val} {fs : List (Val → Res Val)} {extra : List Cat} {r : Res α}
    {cs : List Cat} (h : widen t xs fs extra r = .err cs) :
    ∀ c ∈ cs, (∃ cs0, r = .err cs0 ∧ c ∈ cs0) ∨ c ∈ extra ∨
      ∃ x ∈ xs, ∃ f ∈ fs, ∃ cs', f x = .err cs' ∧ c ∈ cs' := by
  intro c hc
  cases r with
  | err cs0 =>
    simp only [widen] at h
    split at h
    · split at h
      · cases h
      cases h
      rw [Cat.mem_dedup, List.mem_append, List.mem_append] at hc
      rcases hc with (hc | hc) | hc
      · exact Or.inl ⟨_, rfl, hc⟩
      · exact Or.inr (Or.inl hc)
      · simp only [List.mem_flatMap] at hc
        obtain ⟨x, hx, f, hf, hc⟩ := hc
        refine Or.inr (Or.inr ⟨x, hx, f, hf, ?_⟩)
        cases hfx : f x with
        | err c' => rw [hfx] at hc; exact ⟨c', rfl, hc⟩
        | ok a => rw [hfx] at hc; cases hc
        | panic w => rw [hfx] at hc; cases hc
        | nondet => rw [hfx] at hc; cases hc
        | unmodelled w => rw [hfx] at hc; cases hc
    · cases h; exact Or.inl ⟨_, rfl, hc⟩
  | ok a => simp only [widen] at h; cases h
  | panic w => simp only [widen] at h; cases h
  | nondet => simp only [widen] at h; cases h
  | unmodelled w => simp only [widen] at h; cases h

/-- the widening is only ever an enlargement, and only for a map-ordered array of two or more elements; for such an
    array the model answers `nondet` instead when the outcome of some element is neither a value nor an error (that
    element may be the first to fail under another enumeration order, with a category the model cannot name) -/
theorem widen_keeps_first {α} {t : ATag} {xs : List Val} {fs : List (Val → Res Val)} {extra : List Cat}
    {cs0 : List Cat} :
    (widen (α := α) t xs fs extra (.err cs0) = .nondet ∧ enum2 t xs = true ∧
      ∃ x ∈ xs, ∃ f ∈ fs, (∀ v, f x ≠ .ok v) ∧ (∀ c, f x ≠ .err c)) ∨
    ∃ cs, widen (α := α) t xs fs extra (.err cs0) = .err cs ∧ (∀ c ∈ cs0, c ∈ cs) ∧ (enum2 t xs = false → cs = cs0) := by
  simp only [widen]
  split
  · next he =>
    split
    · next hu =>
      refine Or.inl ⟨rfl, he, ?_⟩
      simp only [List.any_eq_true] at hu
      obtain ⟨x, hx, f, hf, hu⟩ := hu
      refine ⟨x, hx, f, hf, fun v hv => ?_, fun c hc' => ?_⟩
      · rw [hv] at hu; cases hu
      · rw [hc'] at hu; cases hu
    · refine Or.inr ⟨_, rfl, fun c hc => ?_, fun h => ?_⟩
      · rw [Cat.mem_dedup, List.mem_append, List.mem_append]; exact Or.inl (Or.inl hc)
      · rw [he] at h; cases h
  · exact Or.inr ⟨_, rfl, fun _ hc => hc, fun _ => rfl⟩

/-- with every element outcome a value or an error the widening is an enlargement, as before -/
theorem widen_keeps_first_settled {α} {t : ATag} {xs : List Val} {fs : List (Val → Res Val)} {extra : List Cat}
    {cs0 : List Cat} (hs : ∀ x ∈ xs, ∀ f ∈ fs, (∃ v, f x = .ok v) ∨ (∃ c, f x = .err c)) :
    ∃ cs, widen (α := α) t xs fs extra (.err cs0) = .err cs ∧ (∀ c ∈ cs0, c ∈ cs) ∧ (enum2 t xs = false → cs = cs0) := by
  rcases widen_keeps_first (α := α) (t := t) (xs := xs) (fs := fs) (extra := extra) (cs0 := cs0) with
    ⟨_, _, x, hx, f, hf, h1, h2⟩ | h
  · rcases hs x hx f hf with ⟨v, hv⟩ | ⟨c, hc⟩
    · exact absurd hv (h1 v)
    · exact absurd hc (h2 c)
  · exact h

/-- example: the second member's outcome is `nondet`, the first fails — the model declines to name the categories -/
example : widen (α := Val) .enum [.null, .bool true] [fun x => if x.isNull then errType else .nondet] [] errType
    = .nondet := rfl
example : widen (α := Val) .plain [.null, .bool true] [fun x => if x.isNull then errType else .nondet] [] errType
    = errType := rfl

/-- node level: a failing multi-select hash reports categories of its failing members, or of its left-hand side -/
theorem selectObjectCurrent_sound (root : Val) (fs : List (Bytes × INode)) (cur : Val) (env : Env) {cs : List Cat}
    (h : ieval root (.selectObjectCurrent fs) cur env = .err cs) :
    ∀ c ∈ cs, ∃ kn ∈ fs, ∃ cs', ieval root kn.2 cur env = .err cs' ∧ c ∈ cs' := by
  simp only [ieval] at h
  split at h
  · cases h
  · cases hf : ievalFields root fs cur env with
    | err a =>
      rw [hf] at h
      cases h
      exact ievalFields_sound root fs cur env _ hf
    | ok kvs => rw [hf] at h; cases h
    | panic w => rw [hf] at h; cases h
    | nondet => rw [hf] at h; cases h
    | unmodelled w => rw [hf] at h; cases h

theorem selectObject_sound (root : Val) (l : INode) (fs : List (Bytes × INode)) (cur : Val) (env : Env) {cs : List Cat}
    (h : ieval root (.selectObject l fs) cur env = .err cs) :
    ieval root l cur env = .err cs ∨
    ∃ a, ieval root l cur env = .ok a ∧
      ∀ c ∈ cs, ∃ kn ∈ fs, ∃ cs', ieval root kn.2 a env = .err cs' ∧ c ∈ cs' := by
  simp only [ieval] at h
  cases hl : ieval root l cur env with
  | err a => rw [hl] at h; exact Or.inl h
  | ok a =>
    rw [hl] at h
    refine Or.inr ⟨a, rfl, ?_⟩
    change (if a.isNull = true then pure Val.null else _) = _ at h
    split at h
    · cases h
    · cases hf : ievalFields root fs a env with
      | err e =>
        rw [hf] at h
        cases h
        exact ievalFields_sound root fs a env _ hf
      | ok kvs => rw [hf] at h; cases h
      | panic w => rw [hf] at h; cases h
      | nondet => rw [hf] at h; cases h
      | unmodelled w => rw [hf] at h; cases h
  | panic w => rw [hl] at h; cases h
  | nondet => rw [hl] at h; cases h
  | unmodelled w => rw [hl] at h; cases h

/-- node level: a failing `let` reports categories of its failing bindings, or the failure of its body -/
theorem defineVariables_sound (root : Val) (vars : List (Bytes × INode)) (body : INode) (cur : Val) (env : Env)
    {cs : List Cat} (h : ieval root (.defineVariables vars body) cur env = .err cs) :
    (∀ c ∈ cs, ∃ kn ∈ vars, ∃ cs', ieval root kn.2 cur env = .err cs' ∧ c ∈ cs') ∨
    ∃ bs, ievalFields root vars cur env = .ok bs ∧ ieval root body cur (bs ++ env) = .err cs := by
  simp only [ieval] at h
  cases hf : ievalFields root vars cur env with
  | err e =>
    rw [hf] at h
    cases h
    exact Or.inl (ievalFields_sound root vars cur env _ hf)
  | ok bs => rw [hf] at h; exact Or.inr ⟨bs, rfl, h⟩
  | panic w => rw [hf] at h; cases h
  | nondet => rw [hf] at h; cases h
  | unmodelled w => rw [hf] at h; cases h

/-- example: `{a: $x, b: abs('s')}` fails in both members; both categories are reported, each from its member -/
def twoFaults : INode :=
  .selectObjectCurrent [([0x61], .variable [0x78]), ([0x62], .call .abs [.lit (.str [0x73])])]
example : evaluate twoFaults (.obj []) = .err [.invalidType, .undefinedVariable] := rfl
example : ∀ c ∈ [Cat.invalidType, Cat.undefinedVariable],
    ∃ kn ∈ [(([0x61] : Bytes), INode.variable [0x78]), ([0x62], .call .abs [.lit (.str [0x73])])],
      ∃ cs', ieval (.obj []) kn.2 (.obj []) [] = .err cs' ∧ c ∈ cs' :=
  selectObjectCurrent_sound (.obj []) _ (.obj []) [] (cs := [.invalidType, .undefinedVariable]) rfl

/-! ## 4. single-fault expressions determine the category uniquely -/

/-- **A parsed expression without an enumerated multi-member construct, on a document without map-ordered arrays, fails
    with exactly one category.**  `EnumFree`: no multi-select hash and no `let` with two or more members, no object
    wildcard / `keys` / `values` / `items` (and no `sort`, whose model is not stable, see `C15.sort_nondet`). -/
theorem parsed_single_category {expr : Bytes} {n : INode} (hp : Parser.parse expr = .ok n) {d : Val}
    (hd : d.NoEnum = true) (he : n.EnumFree = true) {cs : List Cat} (h : evaluate n d = .err cs) :
    ∃ c, cs = [c] ∧ c ∈ [Cat.invalidType, .invalidValue, .notANumber, .undefinedVariable, .evaluationFailed] := by
  have h1 := (C15.evaluate_noenum hd (parse_noEnumLits hp) he).2.2 cs h
  have h2 := (evaluate_error_categories n d h).2
  match cs, h1 with
  | [c], _ => exact ⟨c, rfl, h2 c (List.mem_singleton.mpr rfl)⟩

/-- the same through `search` -/
theorem search_single_category {expr : Bytes} {d : Val} (hd : d.NoEnum = true)
    (he : ∀ n, compile expr = .ok n → n.EnumFree = true) {cs : List Cat} (h : search expr d = .err cs) :
    ∃ c, cs = [c] := by
  unfold search at h
  split at h
  · cases h
  · cases h; exact ⟨_, rfl⟩
  · next n hn =>
    obtain ⟨c, hc, _⟩ := parsed_single_category hn hd (he n hn) h
    exact ⟨c, hc⟩

/-- the side condition is needed: `twoFaults` is not `EnumFree` and reports two categories -/
example : twoFaults.EnumFree = false := by decide
/-- non-vacuity: `$x` parses, is `EnumFree`, and fails with the single category undefined-variable -/
example : ∀ n, Parser.parse [0x24, 0x78] = .ok n → ∀ cs, evaluate n .null = .err cs → ∃ c, cs = [c] := by
  intro n hn cs h
  have hv : n.EnumFree = true := by
    have : (match Parser.parse [0x24, 0x78] with | .ok m => m.EnumFree | _ => false) = true := by decide +kernel
    rw [hn] at this; exact this
  obtain ⟨c, hc, _⟩ := parsed_single_category hn (d := .null) rfl hv h
  exact ⟨c, hc⟩
/-- … and it does fail: the hypothesis of the statement above is satisfiable -/
example : (match Parser.parse [0x24, 0x78] with
    | .ok n => (match evaluate n .null with | .err [.undefinedVariable] => true | _ => false)
    | _ => false) = true := by decide +kernel

end Jmes.C08B
