/-
  C10 (fourth part) — the grouping the parser chooses is OBSERVABLE, for every pair of operators; unary operators;
  parentheses inserted in the text.

  Vocabulary (`Proofs/C10ELemmas.lean`): `binOps` — the eighteen spellings of the binary operators (`|`, `||`, `&&`,
  `== != < <= > >=`, `+ - −`, `* × / ÷ // %`), `lvl o` — the level of an operator (2 … 7); `txt a o1 b o2 c`,
  `txtL a o1 b o2 c`, `txtR a o1 b o2 c` — the expression texts `a o1 b o2 c`, `( a o1 b ) o2 c`, `a o1 ( b o2 c )`
  (one-letter field names, single blanks; a spelling is the byte string of the operator, so `×` is `C3 97`);
  `wdoc` — one fixed JSON document; `witness`, `sameWitness`, `notWitness`, `negWitness`, `posWitness` — the tables of
  operands.  `sp ts` — the token values of `ts` separated by single blanks (it lexes back to `ts`).

  1. `precedence_observable` (+ `_at`): for EVERY ordered pair of spellings at different levels (306 pairs) there are
     operands and a document on which `a o1 b o2 c` evaluates like the grouping the level order dictates and unlike
     the other grouping written with parentheses.  Table-driven: one row of operands per ordered pair of levels, the
     306 evaluations are done by the kernel (`witness_table`, `decide +kernel`, no `native_decide`); the three parses
     come from the general theorems of `C10B` (for arbitrary operands), not from running the parser.
  2. `assoc_observable` (+ `_at`): the same for every ordered pair at ONE level, except `| |`, `|| ||`, `&& &&` and two
     ordering comparisons: the left grouping is the one chosen and the right grouping differs on `wdoc`.
     `assoc_unobservable`: for the excepted pairs the two groupings evaluate alike on every document, whatever the
     operand expressions — so no test could tell (and none is needed).  `assoc_observable_iff`: both, as an iff.
  3. `not_observable`, `neg_observable`, `pos_observable`, `pos_arith_unobservable`: `! a o b`, `- a o b` (both
     spellings of the sign), `+ a o b` group as `(u a) o b` for every binary operator, observably so — except unary
     `+` next to an arithmetic operator, where `(+A) o B` and `+(A o B)` evaluate alike for all operands.
     `not_index_observable`, `neg_index_observable`, `not_flatten_observable`, `not_filter_observable`,
     `pos_dot_observable`: `!a[0]`, `-a[0]`, `!a[]`, `!a[?b]`, `+a.b`.
     `ref_extent` (+ examples): `&` takes the whole argument, pipes included.
     `dot_chain`, `dot_index`, `dot_index_chain`: `A.B.C`, `A.b[n]`, `a.b[0].c`; `dot_chain_regroup`,
     `dot_index_regroup`: the other groupings of selector chains evaluate alike (selectors are associative).
  4. Parentheses in the TEXT (helpers in `Proofs/C10EParen.lean`).  `fullParen_text`: for every expression text `e` that
     compiles, the text obtained by printing its tokens with every implied pair of parentheses written out
     (`sp (flatten (fullParen t))`, a concrete byte string that is lexed and parsed again from scratch) compiles to the
     same node and evaluates alike on every document.  `paren_insert_text`: putting ONE pair of parentheses around the
     token span of any sub-tree (`Ins`: every position where an expression may start) gives a text that compiles to
     the same node; the theorem exhibits the span (`pre ++ mid ++ post` becomes `pre ++ ( ++ mid ++ ) ++ post`).
     `paren_cut_across`: a pair around a span that is NOT a sub-tree (`( a o1 b ) o2 c` with `o2` tighter) compiles
     too, but to a different result, for every pair of operators at different levels (by 1).  `paren_positions_excluded`:
     the positions `Ins` leaves out are rejected by `Compile` (`a.(b)`, `a[*](.b)`, `f((&a))`).
-/
import Jmes.Proofs.C10ELemmas
import Jmes.Proofs.C10EParen
namespace Jmes.C10E
open Jmes Jmes.Parser Jmes.Grammar
open Jmes.C10B (Lexes Tight)

/-! ## 1. Different levels: precedence is observable for every pair of operators -/

/-- **`precedence_observable_at`**: for every ordered pair of binary-operator spellings `o1`, `o2` at different levels,
    with `(a, b, c) = witness (lvl o1) (lvl o2)` (a table with one row per ordered pair of levels) and the fixed document
    `wdoc`: the texts `( a o1 b ) o2 c` and `a o1 ( b o2 c )` evaluate differently, and `a o1 b o2 c` evaluates like the
    one in which the tighter operator is grouped first. -/
theorem precedence_observable_at {o1 o2 : Token} (h1 : o1 ∈ binOps) (h2 : o2 ∈ binOps) (hne : lvl o1 ≠ lvl o2) :
    let w := witness (lvl o1) (lvl o2)
    search (txtL w.1 o1 w.2.1 o2 w.2.2) wdoc ≠ search (txtR w.1 o1 w.2.1 o2 w.2.2) wdoc ∧
    (lvl o1 < lvl o2 → search (txt w.1 o1 w.2.1 o2 w.2.2) wdoc = search (txtR w.1 o1 w.2.1 o2 w.2.2) wdoc) ∧
    (lvl o2 < lvl o1 → search (txt w.1 o1 w.2.1 o2 w.2.2) wdoc = search (txtL w.1 o1 w.2.1 o2 w.2.2) wdoc) := by
  intro w
  have hw := witness_letters _ (lvl_mem _ h1) _ (lvl_mem _ h2)
  simp only [isLetter, Bool.and_eq_true] at hw
  obtain ⟨⟨ha, hb⟩, hc⟩ := hw
  have pL := parse_txtL ha hb hc h1 h2
  have pR := parse_txtR ha hb hc h1 h2
  have pE := parse_txt ha hb hc h1 h2
  refine ⟨?_, fun hlt => ?_, fun hlt => ?_⟩
  · rw [Pratt.search_of_parse pL, Pratt.search_of_parse pR]
    exact ne_of_codeR (witness_table o1 h1 o2 h2 hne)
  · rw [if_pos hlt] at pE
    rw [Pratt.search_of_parse pE, Pratt.search_of_parse pR]
  · rw [if_neg (by omega)] at pE
    rw [Pratt.search_of_parse pE, Pratt.search_of_parse pL]

/-- the grouping that the level order does NOT dictate, written with parentheses -/
def wrongGrouping (a : Nat) (o1 : Token) (b : Nat) (o2 : Token) (c : Nat) : Bytes :=
  if lvl o1 < lvl o2 then txtL a o1 b o2 c else txtR a o1 b o2 c

/-- **`precedence_observable`** (C10, "documents that distinguish the two groupings", for ALL pairs): for every ordered
    pair of binary-operator spellings at different levels there are operands `a`, `b`, `c` and a document `d` on which
    `a o1 b o2 c` and the wrong grouping (written with parentheses) evaluate differently.  A parser with any two levels
    exchanged or merged is caught by one of these 306 inputs. -/
theorem precedence_observable {o1 o2 : Token} (h1 : o1 ∈ binOps) (h2 : o2 ∈ binOps) (hne : lvl o1 ≠ lvl o2) :
    ∃ (a b c : Nat) (d : Val), search (txt a o1 b o2 c) d ≠ search (wrongGrouping a o1 b o2 c) d := by
  obtain ⟨hd, hR, hL⟩ := precedence_observable_at h1 h2 hne
  refine ⟨(witness (lvl o1) (lvl o2)).1, (witness (lvl o1) (lvl o2)).2.1, (witness (lvl o1) (lvl o2)).2.2, wdoc, ?_⟩
  unfold wrongGrouping
  by_cases hlt : lvl o1 < lvl o2
  · rw [if_pos hlt, hR hlt]; exact fun h => hd h.symm
  · rw [if_neg hlt, hL (by omega)]; exact hd

section Examples1
open Grammar.Ex
-- what the texts look like
example : txt 0x61 ⟨.add, [0x2B]⟩ 0x62 ⟨.asterisk, [0x2A]⟩ 0x63 = bs "a + b * c" := by decide
example : txtL 0x61 ⟨.add, [0x2B]⟩ 0x62 ⟨.asterisk, [0x2A]⟩ 0x63 = bs "( a + b ) * c" := by decide
example : txtR 0x61 ⟨.add, [0x2B]⟩ 0x62 ⟨.asterisk, [0x2A]⟩ 0x63 = bs "a + ( b * c )" := by decide
-- `a ÷ a + c` (`÷` is U+00F7, two bytes) against `a ÷ ( a + c )`: the row (7, 6) of the table
example : witness 7 6 = (0x61, 0x61, 0x63) := rfl
example : txt 0x61 ⟨.divide, [0xC3, 0xB7]⟩ 0x61 ⟨.add, [0x2B]⟩ 0x63 = [0x61, 0x20, 0xC3, 0xB7, 0x20, 0x61, 0x20, 0x2B, 0x20, 0x63] :=
  by decide
example : search (txt 0x61 ⟨.divide, [0xC3, 0xB7]⟩ 0x61 ⟨.add, [0x2B]⟩ 0x63) wdoc =
    search (txtL 0x61 ⟨.divide, [0xC3, 0xB7]⟩ 0x61 ⟨.add, [0x2B]⟩ 0x63) wdoc :=
  (precedence_observable_at (o1 := ⟨.divide, [0xC3, 0xB7]⟩) (o2 := ⟨.add, [0x2B]⟩) (by decide) (by decide)
    (by decide)).2.2 (by decide)
example : search (txtL 0x61 ⟨.divide, [0xC3, 0xB7]⟩ 0x61 ⟨.add, [0x2B]⟩ 0x63) wdoc ≠
    search (txtR 0x61 ⟨.divide, [0xC3, 0xB7]⟩ 0x61 ⟨.add, [0x2B]⟩ 0x63) wdoc :=
  (precedence_observable_at (o1 := ⟨.divide, [0xC3, 0xB7]⟩) (o2 := ⟨.add, [0x2B]⟩) (by decide) (by decide)
    (by decide)).1
-- `o | a == n`: pipe against comparison, a pair no corpus test combines
example : ∃ (a b c : Nat) (d : Val),
    search (txt a ⟨.pipe, [0x7C]⟩ b ⟨.equal, [0x3D, 0x3D]⟩ c) d ≠
    search (wrongGrouping a ⟨.pipe, [0x7C]⟩ b ⟨.equal, [0x3D, 0x3D]⟩ c) d :=
  precedence_observable (by decide) (by decide) (by decide)
-- the values behind one row: `o | a == n` is `o | (a == n)`: `5 == 5`; `(o | a) == n` is `5 == null`
example : evaluate (nodeR 0x6F ⟨.pipe, [0x7C]⟩ 0x61 ⟨.equal, [0x3D, 0x3D]⟩ 0x6E) wdoc = .ok (.bool true) := by rfl
example : evaluate (nodeL 0x6F ⟨.pipe, [0x7C]⟩ 0x61 ⟨.equal, [0x3D, 0x3D]⟩ 0x6E) wdoc = .ok (.bool false) := by rfl
end Examples1

/-! ## 2. Equal levels: left association is observable wherever it can be -/

/-- **`assoc_observable_at`**: for every ordered pair of spellings at ONE level other than the four unobservable kinds,
    with `(a, b, c) = sameWitness o1 o2`: `a o1 b o2 c` evaluates like `( a o1 b ) o2 c` and unlike `a o1 ( b o2 c )`. -/
theorem assoc_observable_at {o1 o2 : Token} (h1 : o1 ∈ binOps) (h2 : o2 ∈ binOps) (heq : lvl o1 = lvl o2)
    (hna : assocPair o1 o2 = false) :
    let w := sameWitness o1 o2
    search (txt w.1 o1 w.2.1 o2 w.2.2) wdoc = search (txtL w.1 o1 w.2.1 o2 w.2.2) wdoc ∧
    search (txt w.1 o1 w.2.1 o2 w.2.2) wdoc ≠ search (txtR w.1 o1 w.2.1 o2 w.2.2) wdoc := by
  intro w
  have hw := sameWitness_letters _ h1 _ h2
  simp only [isLetter, Bool.and_eq_true] at hw
  obtain ⟨⟨ha, hb⟩, hc⟩ := hw
  have pL := parse_txtL ha hb hc h1 h2
  have pR := parse_txtR ha hb hc h1 h2
  have pE := parse_txt ha hb hc h1 h2
  rw [if_neg (by omega)] at pE
  refine ⟨?_, ?_⟩
  · rw [Pratt.search_of_parse pE, Pratt.search_of_parse pL]
  · rw [Pratt.search_of_parse pE, Pratt.search_of_parse pR]
    exact ne_of_codeR (sameWitness_table o1 h1 o2 h2 heq hna)

/-- **`assoc_observable`**: operators of equal level associate to the left, observably: for every ordered pair of
    spellings at one level — `a - b - c`, `a / b / c`, `a - b + c`, `a // b % c`, `a + b + c` (by rounding),
    `a == b == c`, `a < b == c`, … — except `| |`, `|| ||`, `&& &&` and two ordering comparisons, there are operands and
    a document on which `a o1 b o2 c` differs from `a o1 ( b o2 c )`. -/
theorem assoc_observable {o1 o2 : Token} (h1 : o1 ∈ binOps) (h2 : o2 ∈ binOps) (heq : lvl o1 = lvl o2)
    (hna : assocPair o1 o2 = false) :
    ∃ (a b c : Nat) (d : Val), search (txt a o1 b o2 c) d ≠ search (txtR a o1 b o2 c) d :=
  ⟨_, _, _, wdoc, (assoc_observable_at h1 h2 heq hna).2⟩

theorem assocPair_level {o1 o2 : Token} (h : assocPair o1 o2 = true) :
    ∃ l, binLevel o1.type = some l ∧ binLevel o2.type = some l := by
  obtain ⟨t1, v1⟩ := o1
  obtain ⟨t2, v2⟩ := o2
  cases t1 <;> simp [assocPair, isOrd] at h <;> cases t2 <;> simp at h <;> exact ⟨_, rfl, rfl⟩

/-- **`assoc_unobservable`**: for `| |`, `|| ||`, `&& &&` and for two ordering comparisons (`a < b <= c`, …) the grouping
    cannot be observed: for ARBITRARY operand expressions `A`, `B`, `C` (of sufficient level), the text `A o1 B o2 C`
    and the text `A o1 ( B o2 C )` compile to different nodes that evaluate alike on every document.  (`|`, `||`, `&&`
    are associative; an ordering comparison never yields a number, so a chain of two yields `null` either way.) -/
theorem assoc_unobservable {o1 o2 : Token} (h : assocPair o1 o2 = true) {A B C : PTree}
    (hA : Tight A) (hB : Tight B) (hC : Tight C) {e eR : Bytes}
    (hl : Lexes e (Grammar.flatten A ++ o1 :: (Grammar.flatten B ++ o2 :: Grammar.flatten C)))
    (hR : Lexes eR (Grammar.flatten A ++ o1 :: tLParen :: ((Grammar.flatten B ++ o2 :: Grammar.flatten C) ++ [tRParen]))) :
    Parser.parse e = .ok (binNode o2.type (binNode o1.type (erase A) (erase B)) (erase C)) ∧
    Parser.parse eR = .ok (binNode o1.type (erase A) (binNode o2.type (erase B) (erase C))) ∧
    ∀ d, search e d = search eR d := by
  obtain ⟨l, hl1, hl2⟩ := assocPair_level h
  have hle := C10B.level_le hl1
  have pE := C10B.assoc_left hl1 hl2 hA.1 hB.1 hC.1 (by have := hA.2.2; omega) (by have := hB.2.1; omega)
    (by have := hB.2.2; omega) (by have := hC.2.1; omega) hl
  have pR := C10B.paren_override_right hl1 hl2 hA.1 hB.1 hC.1 (by have := hA.2.2; omega) (by have := hB.2.2; omega)
    (by have := hC.2.1; omega) hR
  refine ⟨pE, pR, fun d => ?_⟩
  rw [Pratt.search_of_parse pE, Pratt.search_of_parse pR]
  exact assocPair_ieval h d _ _ _ d []

/-- **`assoc_observable_iff`**: at one level, the grouping of `a o1 b o2 c` (one-letter field names) can be told apart from
    `a o1 ( b o2 c )` by some operands and some document exactly when the pair is not one of `| |`, `|| ||`, `&& &&`,
    two ordering comparisons -/
theorem assoc_observable_iff {o1 o2 : Token} (h1 : o1 ∈ binOps) (h2 : o2 ∈ binOps) (heq : lvl o1 = lvl o2) :
    (∃ (a b c : Nat) (d : Val), Lexical.isIdStartB a = true ∧ Lexical.isIdStartB b = true ∧
      Lexical.isIdStartB c = true ∧ search (txt a o1 b o2 c) d ≠ search (txtR a o1 b o2 c) d) ↔
    assocPair o1 o2 = false := by
  constructor
  · rintro ⟨a, b, c, d, ha, hb, hc, hne⟩
    cases hap : assocPair o1 o2
    · rfl
    · exfalso
      apply hne
      have pE := parse_txt ha hb hc h1 h2
      rw [if_neg (by omega)] at pE
      rw [Pratt.search_of_parse pE, Pratt.search_of_parse (parse_txtR ha hb hc h1 h2)]
      exact assocPair_ieval hap d _ _ _ d []
  · intro hna
    have hw := sameWitness_letters _ h1 _ h2
    simp only [isLetter, Bool.and_eq_true] at hw
    exact ⟨_, _, _, wdoc, hw.1.1, hw.1.2, hw.2, (assoc_observable_at h1 h2 heq hna).2⟩

section Examples2
open Grammar.Ex
-- `b + h + x`: `3 + 0.5 + 1e34` — addition is not associative in decimal arithmetic, so even `+ +` is observable
example : sameWitness ⟨.add, [0x2B]⟩ ⟨.add, [0x2B]⟩ = (0x62, 0x68, 0x78) := rfl
example : txt 0x62 ⟨.add, [0x2B]⟩ 0x68 ⟨.add, [0x2B]⟩ 0x78 = bs "b + h + x" := by decide
example : search (bs "b + h + x") wdoc ≠ search (bs "b + ( h + x )") wdoc :=
  (assoc_observable_at (o1 := ⟨.add, [0x2B]⟩) (o2 := ⟨.add, [0x2B]⟩) (by decide) (by decide) rfl rfl).2
example : evaluate (nodeL 0x62 ⟨.add, [0x2B]⟩ 0x68 ⟨.add, [0x2B]⟩ 0x78) wdoc =
    .ok (.num (.dec (.fin false 10000000000000000000000000000000004 0))) := by rfl
example : codeR (evaluate (nodeR 0x62 ⟨.add, [0x2B]⟩ 0x68 ⟨.add, [0x2B]⟩ 0x78) wdoc) =
    codeR (.ok (.num (.dec (.fin false 10000000000000000000000000000000003 0)))) := by decide +kernel
-- `c // b % a` with `//` and `%`; `f == a == t`; `f < a == t`
example : search (bs "c // b % a") wdoc ≠ search (bs "c // ( b % a )") wdoc :=
  (assoc_observable_at (o1 := ⟨.integerDivide, [0x2F, 0x2F]⟩) (o2 := ⟨.modulo, [0x25]⟩) (by decide) (by decide) rfl
    rfl).2
example : search (bs "f < a == t") wdoc ≠ search (bs "f < ( a == t )") wdoc :=
  (assoc_observable_at (o1 := ⟨.less, [0x3C]⟩) (o2 := ⟨.equal, [0x3D, 0x3D]⟩) (by decide) (by decide) rfl rfl).2
-- `a < b <= c` and `a < ( b <= c )`: different nodes, same value on every document
example (d : Val) : search (bs "a < b <= c") d = search (bs "a < ( b <= c )") d :=
  (assoc_unobservable (o1 := ⟨.less, [0x3C]⟩) (o2 := ⟨.lessOrEqual, [0x3C, 0x3D]⟩) rfl (A := idt "a") (B := idt "b")
    (C := idt "c") (by decide) (by decide) (by decide) (by decide) (by decide)).2.2 d
example : Parser.parse (bs "a < b <= c") = .ok (.binop .le (.binop .lt (.field (bs "a")) (.field (bs "b"))) (.field (bs "c"))) :=
  (assoc_unobservable (o1 := ⟨.less, [0x3C]⟩) (o2 := ⟨.lessOrEqual, [0x3C, 0x3D]⟩) rfl (A := idt "a") (B := idt "b")
    (C := idt "c") (eR := bs "a < ( b <= c )") (by decide) (by decide) (by decide) (by decide) (by decide)).1
-- with operands that are not identifiers: `a[0] || !b || c.d`
example (d : Val) : search (bs "a[0] || !b || c.d") d = search (bs "a[0] || (!b || c.d)") d :=
  (assoc_unobservable (o1 := ⟨.or, [0x7C, 0x7C]⟩) (o2 := ⟨.or, [0x7C, 0x7C]⟩) rfl (A := .index (idt "a") (int "0"))
    (B := .not (idt "b")) (C := .dotId (idt "c") (idt "d")) (by decide) (by decide) (by decide) (by decide)
    (by decide)).2.2 d
end Examples2


/-! ## 3. Unary operators, `&`, selector chains

  The grouping theorems for ARBITRARY operands are `C10B.not_tight`, `C10B.neg_tight`, `C10B.pos_tight` (`u A o B` is
  `(u A) o B` for every binary operator `o`), `C10B.unary_right`, `C10B.not_dot` (`!A.B` is `(!A).B`), `C10B.neg_dot`
  (`-A.B` is `-(A.B)`), `C10B.not_index` (`!A[n]` is `!(A[n])`).  Here: each of these groupings is observable (or is
  proved unobservable), for every binary operator. -/

theorem not_texts {a b : Nat} {o : Token} (ha : Lexical.isIdStartB a = true) (hb : Lexical.isIdStartB b = true)
    (ho : o ∈ binOps) :
    Parser.parse (sp [tNot, idTok a, o, idTok b]) = .ok (binNode o.type (.not (.field [a])) (.field [b])) ∧
    Parser.parse (sp [tLParen, tNot, idTok a, tRParen, o, idTok b]) =
      .ok (binNode o.type (.not (.field [a])) (.field [b])) ∧
    Parser.parse (sp [tNot, tLParen, idTok a, o, idTok b, tRParen]) =
      .ok (.not (binNode o.type (.field [a]) (.field [b]))) :=
  unary_texts (U := .not) (N := .not) (u := tNot) rfl C10B.flatten_not C10B.erase_not
    (fun X h hl => C10B.wp_not_intro h (by rw [hl]; decide)) (fun X h => by rw [C10B.rlevel_not, h]; decide) ha hb ho

theorem neg_texts {u : Token} (hu : u ∈ minusToks) {a b : Nat} {o : Token} (ha : Lexical.isIdStartB a = true)
    (hb : Lexical.isIdStartB b = true) (ho : o ∈ binOps) :
    Parser.parse (sp [u, idTok a, o, idTok b]) = .ok (binNode o.type (.negate (.field [a])) (.field [b])) ∧
    Parser.parse (sp [tLParen, u, idTok a, tRParen, o, idTok b]) =
      .ok (binNode o.type (.negate (.field [a])) (.field [b])) ∧
    Parser.parse (sp [u, tLParen, idTok a, o, idTok b, tRParen]) =
      .ok (.negate (binNode o.type (.field [a]) (.field [b]))) := by
  have hty : u.type = .subtract := by
    simp only [minusToks, List.mem_cons, List.mem_nil_iff, or_false] at hu
    rcases hu with rfl | rfl <;> rfl
  have hsh : Lexical.TokShape u.type u.value := by
    simp only [minusToks, List.mem_cons, List.mem_nil_iff, or_false] at hu
    rcases hu with rfl | rfl
    · exact Or.inl rfl
    · exact Or.inr rfl
  exact unary_texts (U := .neg u) (N := .negate) (u := u) hsh (C10B.flatten_neg u) (C10B.erase_neg u)
    (fun X h hl => C10B.wp_neg_intro hty h (by rw [hl]; decide))
    (fun X h => by rw [C10B.rlevel_neg, h]; decide) ha hb ho

theorem pos_texts {a b : Nat} {o : Token} (ha : Lexical.isIdStartB a = true) (hb : Lexical.isIdStartB b = true)
    (ho : o ∈ binOps) :
    Parser.parse (sp [tPlus, idTok a, o, idTok b]) = .ok (binNode o.type (.assertNumber (.field [a])) (.field [b])) ∧
    Parser.parse (sp [tLParen, tPlus, idTok a, tRParen, o, idTok b]) =
      .ok (binNode o.type (.assertNumber (.field [a])) (.field [b])) ∧
    Parser.parse (sp [tPlus, tLParen, idTok a, o, idTok b, tRParen]) =
      .ok (.assertNumber (binNode o.type (.field [a]) (.field [b]))) :=
  unary_texts (U := .pos) (N := .assertNumber) (u := tPlus) rfl C10B.flatten_pos C10B.erase_pos
    (fun X h hl => C10B.wp_pos_intro h (by rw [hl]; decide)) (fun X h => by rw [C10B.rlevel_pos, h]; decide) ha hb ho

/-- **`not_observable`**: `!` binds tighter than EVERY binary operator, observably: with `(a, b) = notWitness o`, the
    text `! a o b` compiles to `(!a) o b`, evaluates on `wdoc` like `( ! a ) o b` and unlike `! ( a o b )`. -/
theorem not_observable {o : Token} (ho : o ∈ binOps) :
    let w := notWitness o
    Parser.parse (sp [tNot, idTok w.1, o, idTok w.2]) = .ok (binNode o.type (.not (.field [w.1])) (.field [w.2])) ∧
    search (sp [tNot, idTok w.1, o, idTok w.2]) wdoc = search (sp [tLParen, tNot, idTok w.1, tRParen, o, idTok w.2]) wdoc ∧
    search (sp [tNot, idTok w.1, o, idTok w.2]) wdoc ≠ search (sp [tNot, tLParen, idTok w.1, o, idTok w.2, tRParen]) wdoc := by
  intro w
  have hw := unary_letters o ho
  simp only [Bool.and_eq_true] at hw
  obtain ⟨p1, p2, p3⟩ := not_texts hw.1.1.1.1.1 hw.1.1.1.1.2 ho
  refine ⟨p1, ?_, ?_⟩
  · rw [Pratt.search_of_parse p1, Pratt.search_of_parse p2]
  · rw [Pratt.search_of_parse p1, Pratt.search_of_parse p3]
    exact ne_of_codeR (not_table o ho)

/-- **`neg_observable`**: the sign (spelt `-` or `−`) binds tighter than EVERY binary operator, observably: with
    `(a, b) = negWitness o`, `- a o b` compiles to `(-a) o b`, evaluates on `wdoc` like `( - a ) o b` and unlike
    `- ( a o b )`.  (For `*`, `×`, `/`, `÷` the two differ only in the sign of an underflowed zero: `-z * z` is `-0`,
    `-(z * z)` is `0`; the Go implementation prints them as `-0` and `0`.) -/
theorem neg_observable {u : Token} (hu : u ∈ minusToks) {o : Token} (ho : o ∈ binOps) :
    let w := negWitness o
    Parser.parse (sp [u, idTok w.1, o, idTok w.2]) = .ok (binNode o.type (.negate (.field [w.1])) (.field [w.2])) ∧
    search (sp [u, idTok w.1, o, idTok w.2]) wdoc = search (sp [tLParen, u, idTok w.1, tRParen, o, idTok w.2]) wdoc ∧
    search (sp [u, idTok w.1, o, idTok w.2]) wdoc ≠ search (sp [u, tLParen, idTok w.1, o, idTok w.2, tRParen]) wdoc := by
  intro w
  have hw := unary_letters o ho
  simp only [Bool.and_eq_true] at hw
  obtain ⟨p1, p2, p3⟩ := neg_texts hu hw.1.1.1.2 hw.1.1.2 ho
  refine ⟨p1, ?_, ?_⟩
  · rw [Pratt.search_of_parse p1, Pratt.search_of_parse p2]
  · rw [Pratt.search_of_parse p1, Pratt.search_of_parse p3]
    exact ne_of_codeR (neg_table o ho)

/-- **`pos_observable`**: unary `+` binds tighter than every binary operator; next to `|`, `||`, `&&` and the
    comparisons observably so -/
theorem pos_observable {o : Token} (ho : o ∈ binOps) (hl : lvl o ≤ 5) :
    let w := posWitness o
    Parser.parse (sp [tPlus, idTok w.1, o, idTok w.2]) =
      .ok (binNode o.type (.assertNumber (.field [w.1])) (.field [w.2])) ∧
    search (sp [tPlus, idTok w.1, o, idTok w.2]) wdoc =
      search (sp [tLParen, tPlus, idTok w.1, tRParen, o, idTok w.2]) wdoc ∧
    search (sp [tPlus, idTok w.1, o, idTok w.2]) wdoc ≠
      search (sp [tPlus, tLParen, idTok w.1, o, idTok w.2, tRParen]) wdoc := by
  intro w
  have hw := unary_letters o ho
  simp only [Bool.and_eq_true] at hw
  obtain ⟨p1, p2, p3⟩ := pos_texts hw.1.2 hw.2 ho
  refine ⟨p1, ?_, ?_⟩
  · rw [Pratt.search_of_parse p1, Pratt.search_of_parse p2]
  · rw [Pratt.search_of_parse p1, Pratt.search_of_parse p3]
    exact ne_of_codeR (pos_table o ho hl)

theorem arith_binNode {t : TokenType} {l : Nat} (h : binLevel t = some l) (hl : lvlAdd ≤ l) :
    ∃ op, arithOp op = true ∧ binNode t = .binop op := by
  cases t <;> simp [binLevel, lvlAdd, lvlPipe, lvlOr, lvlAnd, lvlCmp] at h hl <;>
    first
    | exact ⟨_, rfl, rfl⟩
    | (subst h; simp at hl)

/-- **`pos_arith_unobservable`**: next to an arithmetic operator the grouping of unary `+` cannot be observed: for
    ARBITRARY operands, `+ A o B` compiles to `(+A) o B`, `+ ( A o B )` to `+(A o B)`, and the two evaluate alike on
    every document (`+X` is `X` if `X` is a number and `null` otherwise; arithmetic on a non-number fails the same way
    as arithmetic on `null`, and the result of arithmetic is a number). -/
theorem pos_arith_unobservable {o : Token} {l : Nat} (ho : binLevel o.type = some l) (hl : lvlAdd ≤ l) {A B : PTree}
    (hA : Tight A) (hB : Tight B) {e eW : Bytes}
    (h1 : Lexes e (tPlus :: Grammar.flatten A ++ o :: Grammar.flatten B))
    (h2 : Lexes eW (tPlus :: tLParen :: ((Grammar.flatten A ++ o :: Grammar.flatten B) ++ [tRParen]))) :
    Parser.parse e = .ok (binNode o.type (.assertNumber (erase A)) (erase B)) ∧
    Parser.parse eW = .ok (.assertNumber (binNode o.type (erase A) (erase B))) ∧
    ∀ d, search e d = search eW d := by
  have hle := C10B.level_le ho
  have p1 := C10B.pos_tight ho hA.1 hB.1 hA.2.1 (by have := hA.2.2; omega) (by have := hB.2.1; omega) h1
  have w2 : WellPrec (.pos (.paren (.bin o A B))) :=
    C10B.wp_pos_intro (C04G.wellPrec_paren (C10B.binary_wf ho hA.1 hB.1 (by have := hA.2.2; omega)
      (by have := hB.2.1; omega))) (by rw [C10B.llevel_paren]; decide)
  have p2 := (C10B.parse_tree w2 (e := eW)
    (by rw [C10B.flatten_pos, C10B.flatten_paren, C10B.flatten_bin]; exact h2)).1
  rw [C10B.erase_pos, C04G.erase_paren, C10B.erase_bin] at p2
  refine ⟨p1, p2, fun d => ?_⟩
  obtain ⟨op, hop, hb⟩ := arith_binNode ho hl
  rw [Pratt.search_of_parse p1, Pratt.search_of_parse p2, hb]
  exact pos_arith_ieval d op hop _ _ d []

section Examples3
open Grammar.Ex
-- `! a == b` on `wdoc` (`a` is 2, `b` is 3): `(!a) == b` is `false == 3`, `false`; `!(a == b)` is `true`
example : sp [tNot, idTok 0x61, ⟨.equal, [0x3D, 0x3D]⟩, idTok 0x62] = bs "! a == b" := by decide
example : search (bs "! a == b") wdoc ≠ search (bs "! ( a == b )") wdoc :=
  (not_observable (o := ⟨.equal, [0x3D, 0x3D]⟩) (by decide)).2.2
example : Parser.parse (bs "! a == b") = .ok (.binop .eq (.not (.field (bs "a"))) (.field (bs "b"))) :=
  (not_observable (o := ⟨.equal, [0x3D, 0x3D]⟩) (by decide)).1
-- `- z * z` (`z` is `1e-4000`): `-0` against `0`
example : sp [⟨.subtract, [0x2D]⟩, idTok 0x7A, ⟨.asterisk, [0x2A]⟩, idTok 0x7A] = bs "- z * z" := by decide
example : search (bs "- z * z") wdoc ≠ search (bs "- ( z * z )") wdoc :=
  (neg_observable (u := ⟨.subtract, [0x2D]⟩) (by decide) (o := ⟨.asterisk, [0x2A]⟩) (by decide)).2.2
example : evaluate (.binop .mul (.negate (.field (bs "z"))) (.field (bs "z"))) wdoc = .ok (.num (.dec (.fin true 0 0))) := by
  rfl
example : evaluate (.negate (.binop .mul (.field (bs "z")) (.field (bs "z")))) wdoc = .ok (.num (.dec (.fin false 0 0))) := by
  rfl
-- `− a + a` with U+2212
example : search (sp [⟨.subtract, [0xE2, 0x88, 0x92]⟩, idTok 0x61, ⟨.add, [0x2B]⟩, idTok 0x61]) wdoc ≠
    search (sp [⟨.subtract, [0xE2, 0x88, 0x92]⟩, tLParen, idTok 0x61, ⟨.add, [0x2B]⟩, idTok 0x61, tRParen]) wdoc :=
  (neg_observable (u := ⟨.subtract, [0xE2, 0x88, 0x92]⟩) (by decide) (o := ⟨.add, [0x2B]⟩) (by decide)).2.2
-- `+ a < a`: `(+a) < a` is `false`; `+(a < a)` is `null`
example : search (bs "+ a < a") wdoc ≠ search (bs "+ ( a < a )") wdoc :=
  (pos_observable (o := ⟨.less, [0x3C]⟩) (by decide) (by decide)).2.2
-- `+a * b.c` and `+(a * b.c)`: alike on every document
example (d : Val) : search (bs "+a * b.c") d = search (bs "+(a * b.c)") d :=
  (pos_arith_unobservable (o := op .asterisk "*") (l := 7) rfl (by decide) (A := idt "a")
    (B := .dotId (idt "b") (idt "c")) (by decide) (by decide) (by decide) (by decide)).2.2 d
end Examples3

/-! ### `!` and the signs next to brackets and selectors -/

section Postfix
open Grammar.Ex
open Jmes.C10B (distinguish)

/-- `{"a": [false]}` -/
def docNI : Val := .obj [(bs "a", .arr .plain [.bool false])]
/-- `{"a": [1]}` -/
def docGI : Val := .obj [(bs "a", .arr .plain [jn "1"])]
/-- `{"a": [[1]]}` -/
def docNF : Val := .obj [(bs "a", .arr .plain [.arr .plain [jn "1"]])]
/-- `{"a": [{"b": false}]}` -/
def docNQ : Val := .obj [(bs "a", .arr .plain [.obj [(bs "b", .bool false)]])]
/-- `{"a": {"b": 1}}` -/
def docPD : Val := .obj [(bs "a", .obj [(bs "b", jn "1")])]

/-- brackets bind tighter than `!`: `!a[0]` is `!(a[0])`, `true` on `{"a": [false]}`; `(!a)[0]` is `null` -/
theorem not_index_observable :
    search (bs "!a[0]") docNI = .ok (.bool true) ∧ search (bs "(!a)[0]") docNI = .ok .null ∧
    search (bs "!a[0]") docNI ≠ search (bs "(!a)[0]") docNI :=
  distinguish (t1 := .not (.index (idt "a") (int "0"))) (t2 := .index (.paren (.not (idt "a"))) (int "0"))
    (by decide) (by decide) (by decide) (by decide) (by rfl) (by rfl) (by intro h; cases h)

/-- brackets bind tighter than the sign: `-a[0]` is `-(a[0])`, `-1` on `{"a": [1]}`; `(-a)[0]` is `null` -/
theorem neg_index_observable :
    search (bs "-a[0]") docGI = .ok (.num (.dec (.fin true 1 0))) ∧ search (bs "(-a)[0]") docGI = .ok .null ∧
    search (bs "-a[0]") docGI ≠ search (bs "(-a)[0]") docGI :=
  distinguish (t1 := .neg (op .subtract "-") (.index (idt "a") (int "0")))
    (t2 := .index (.paren (.neg (op .subtract "-") (idt "a"))) (int "0"))
    (by decide) (by decide) (by decide) (by decide) (by rfl) (by rfl) (by intro h; cases h)

/-- `[]` binds looser than `!`: `!a[]` is `(!a)[]`, `null` on `{"a": [[1]]}`; `!(a[])` is `false` -/
theorem not_flatten_observable :
    search (bs "!a[]") docNF = .ok .null ∧ search (bs "!(a[])") docNF = .ok (.bool false) ∧
    search (bs "!a[]") docNF ≠ search (bs "!(a[])") docNF :=
  distinguish (t1 := .flat (.not (idt "a")) .icur) (t2 := .not (.paren (.flat (idt "a") .icur)))
    (by decide) (by decide) (by decide) (by decide) (by rfl) (by rfl) (by intro h; cases h)

/-- `[?` binds looser than `!`: `!a[?b]` is `(!a)[?b]`, `null` on `{"a": [{"b": false}]}`; `!(a[?b])` is `true` -/
theorem not_filter_observable :
    search (bs "!a[?b]") docNQ = .ok .null ∧ search (bs "!(a[?b])") docNQ = .ok (.bool true) ∧
    search (bs "!a[?b]") docNQ ≠ search (bs "!(a[?b])") docNQ :=
  distinguish (t1 := .filt (.not (idt "a")) (idt "b") .icur) (t2 := .not (.paren (.filt (idt "a") (idt "b") .icur)))
    (by decide) (by decide) (by decide) (by decide) (by rfl) (by rfl) (by intro h; cases h)

/-- unary `+` binds looser than `.`: `+a.b` is `+(a.b)`, `1` on `{"a": {"b": 1}}`; `(+a).b` is `null` -/
theorem pos_dot_observable :
    search (bs "+a.b") docPD = .ok (jn "1") ∧ search (bs "(+a).b") docPD = .ok .null ∧
    search (bs "+a.b") docPD ≠ search (bs "(+a).b") docPD :=
  distinguish (t1 := .pos (.dotId (idt "a") (idt "b"))) (t2 := .dotId (.paren (.pos (idt "a"))) (idt "b"))
    (by decide) (by decide) (by decide) (by decide) (by rfl) (by rfl) (by intro h; cases h)
end Postfix


/-! ### `&`: the extent of an expression reference -/


theorem wp_not_ref {b : Bool} {A : PTree} (h : wp b A = true) : A.isRef = false := by
  cases A <;> first | rfl | (simp [wp] at h)

theorem wpArgs_cons {A : PTree} (h : A.isRef = false) (es : List PTree) :
    wpArgs (A :: es) = (wp false A && wpArgs es) := by
  cases A <;> first | rfl | (simp [PTree.isRef] at h)

/-- **`ref_extent`**: `&` takes the whole argument: for the builtins that take an expression reference as their second
    argument (`sort_by`, `max_by`, `min_by`, `group_by`) and ARBITRARY expressions `A`, `T` — `T` may be a pipe, the
    loosest operator —, `name ( A , & T )` compiles to the builtin's node over the nodes of `A` and `T`.  (`&` is not an
    operator with a level: `( & T )` is not an expression, so there is no other grouping to compare with; what can be
    observed is that the operators after `&` belong to the key expression, see the examples.) -/
theorem ref_extent {name : Token} {mk : INode → INode → INode} (hn : name.type = .unquotedIdentifier)
    (hb : Parser.lookupBuiltin name.value = some (.expArg mk)) {A T : PTree} (hA : WellPrec A) (hT : WellPrec T)
    {e : Bytes}
    (hl : Lexes e (name :: tLParen :: (Grammar.flatten A ++ tComma :: tAmp :: Grammar.flatten T) ++ [tRParen])) :
    Parser.parse e = .ok (mk (erase A) (erase T)) ∧ ∀ d, search e d = evaluate (mk (erase A) (erase T)) d := by
  have hr := wp_not_ref hA
  have hw : WellPrec (.call name [A, .ref T]) := by
    show wp false _ = true
    have hA' : wp false A = true := hA
    have hT' : wp false T = true := hT
    have hrr : (PTree.ref T).isRef = true := rfl
    simp only [wp, hn, hb, argsOK, hr, hrr, wpArgs_cons hr, wpArgs, hA', hT', beq_self_eq_true,
      Bool.not_false, Bool.and_self]
  have h := C10B.parse_tree hw (e := e) (by
    simp only [Grammar.flatten, Grammar.flat, flatSep, List.cons_append, List.append_assoc] at hl ⊢
    exact hl)
  have he : erase (.call name [A, .ref T]) = mk (erase A) (erase T) := by
    simp only [erase, hb, eraseL, callNode]
  rw [he] at h
  exact h

section Examples4
open Grammar.Ex
/-- `{"a": [{"b": {"c": 2}, "c": 1}, {"b": {"c": 1}, "c": 2}]}` -/
def docRef : Val :=
  .obj [(bs "a", .arr .plain [.obj [(bs "b", .obj [(bs "c", jn "2")]), (bs "c", jn "1")],
    .obj [(bs "b", .obj [(bs "c", jn "1")]), (bs "c", jn "2")]])]
-- `sort_by(a, &b | c)`, `max_by(a, &b | c)`: the pipe is part of the key expression (`b | c`, i.e. `b.c`): the maximum
-- is the first element …
example : Parser.parse (bs "sort_by(a, &b | c)") =
    .ok (.sortBy (.field (bs "a")) (.pipe (.field (bs "b")) (.field (bs "c")))) :=
  (ref_extent (name := ⟨.unquotedIdentifier, bs "sort_by"⟩) (mk := .sortBy) rfl (by rfl) (A := idt "a")
    (T := .bin (op .pipe "|") (idt "b") (idt "c")) (by decide) (by decide) (by decide)).1
example : search (bs "max_by(a, &b | c)") docRef = .ok (.obj [(bs "b", .obj [(bs "c", jn "2")]), (bs "c", jn "1")]) :=
  ((ref_extent (name := ⟨.unquotedIdentifier, bs "max_by"⟩) (mk := .maxBy) rfl (by rfl) (A := idt "a")
    (T := .bin (op .pipe "|") (idt "b") (idt "c")) (by decide) (by decide) (by decide)).2 docRef).trans (by rfl)
-- … whereas the maximum by `c` is the second: `&` did not stop at the first operand
example : search (bs "max_by(a, &c)") docRef = .ok (.obj [(bs "b", .obj [(bs "c", jn "1")]), (bs "c", jn "2")]) :=
  ((ref_extent (name := ⟨.unquotedIdentifier, bs "max_by"⟩) (mk := .maxBy) rfl (by rfl) (A := idt "a")
    (T := idt "c") (by decide) (by decide) (by decide)).2 docRef).trans (by rfl)
-- `max_by(a, &b.c + c || d)`: arithmetic and `||` under `&`
example : Parser.parse (bs "max_by(a, &b.c + c || d)") =
    .ok (.maxBy (.field (bs "a")) (.or (.binop .add (.pipe (.field (bs "b")) (.field (bs "c"))) (.field (bs "c")))
      (.field (bs "d")))) :=
  (ref_extent (name := ⟨.unquotedIdentifier, bs "max_by"⟩) (mk := .maxBy) rfl (by rfl) (A := idt "a")
    (T := .bin (op .or "||") (.bin (op .add "+") (.dotId (idt "b") (idt "c")) (idt "c")) (idt "d"))
    (by decide) (by decide) (by decide)).1
end Examples4

/-! ### Selector chains -/


/-- **`dot_chain`**: `A.B.C` is `(A.B).C`, for arbitrary operands (`B`, `C` starting with an identifier, as the grammar
    requires after a dot) -/
theorem dot_chain {A B C : PTree} (hA : WellPrec A) (hB : WellPrec B) (hC : WellPrec C)
    (hAr : lvlDot ≤ rlevel A) (hBl : lvlDot < llevel B) (hBs : startsWithIdent B = true) (hBr : lvlDot ≤ rlevel B)
    (hCl : lvlDot < llevel C) (hCs : startsWithIdent C = true) {e : Bytes}
    (hl : Lexes e (Grammar.flatten A ++ tDot :: (Grammar.flatten B ++ tDot :: Grammar.flatten C))) :
    Parser.parse e = .ok (.pipe (.pipe (erase A) (erase B)) (erase C)) := by
  have w1 : WellPrec (.dotId A B) := C10B.wp_dotId_intro hA hAr hB hBl hBs
  have w2 : WellPrec (.dotId (.dotId A B) C) :=
    C10B.wp_dotId_intro w1 (by rw [C10B.rlevel_dotId]; omega) hC hCl hCs
  have h := (C10B.parse_tree w2 (e := e)
    (by rw [C10B.flatten_dotId, C10B.flatten_dotId, List.append_assoc, List.cons_append]; exact hl)).1
  rwa [C10B.erase_dotId rfl, C10B.erase_dotId (C10B.wp_ne_icur hA)] at h

/-- **`dot_index`**: in `A.B[n]` the index belongs to `B`: the node is `A | (B[n])`, not `(A | B)[n]` -/
theorem dot_index {A B : PTree} {n : Token} (hA : WellPrec A) (hB : WellPrec B)
    (hAr : lvlDot ≤ rlevel A) (hBl : lvlDot < llevel B) (hBs : startsWithIdent B = true) (hBr : lvlBracket ≤ rlevel B)
    (hn : isIntTok n = true) {e : Bytes}
    (hl : Lexes e (Grammar.flatten A ++ tDot :: (Grammar.flatten B ++ [tLBracket, n, tRBracket]))) :
    Parser.parse e = .ok (.pipe (erase A) (.index (erase B) ((intOf n).getD 0))) := by
  have hBi := C10B.wp_ne_icur hB
  have w1 : WellPrec (.index B n) := C10B.wp_index_intro hB hBr hn
  have hs : startsWithIdent (.index B n) = true := by
    unfold startsWithIdent at hBs ⊢
    have : Grammar.flat false (.index B n) = Grammar.flat false B ++ [tLBracket, n, tRBracket] := by
      simp only [Grammar.flat]
    rw [this, C10C.head?_append_ne _ (C10C.flat_ne_nil hBi)]
    exact hBs
  have w2 : WellPrec (.dotId A (.index B n)) :=
    C10B.wp_dotId_intro hA hAr w1 (by rw [C10B.llevel_index hBi]; simp only [lvlBracket, lvlDot] at *; omega) hs
  have h := (C10B.parse_tree w2 (e := e) (by rw [C10B.flatten_dotId, C10B.flatten_index]; exact hl)).1
  rwa [C10B.erase_dotId (C10B.wp_ne_icur hA), C10B.erase_index hBi] at h

/-- … and the other grouping, `(A.B)[n]`, evaluates alike (selectors compose), whatever the operands -/
theorem dot_index_regroup (root : Val) (A B : INode) (i : Int) (cur : Val) (env : Env) :
    ieval root (.pipe A (.index B i)) cur env = ieval root (.index (.pipe A B) i) cur env := by
  simp only [ieval]
  cases ieval root A cur env <;> rfl

/-- `A.(B.C)` (not expressible in the syntax) would evaluate like `(A.B).C` -/
theorem dot_chain_regroup (root : Val) (A B C : INode) (cur : Val) (env : Env) :
    ieval root (.pipe (.pipe A B) C) cur env = ieval root (.pipe A (.pipe B C)) cur env :=
  pipe_assoc_ieval root A B C cur env

section Examples5
open Grammar.Ex
/-- `{"a": {"b": [{"c": 7}]}}` -/
def docCh : Val := .obj [(bs "a", .obj [(bs "b", .arr .plain [.obj [(bs "c", jn "7")]])])]
/-- **`dot_index_chain`**: `a.b[0].c` is `(a.(b[0])).c` -/
theorem dot_index_chain :
    Parser.parse (bs "a.b[0].c") =
      .ok (.pipe (.pipe (.field (bs "a")) (.index (.field (bs "b")) 0)) (.field (bs "c"))) ∧
    search (bs "a.b[0].c") docCh = .ok (jn "7") := by
  have h := C10B.parse_tree (t := e03) (by decide) (e := bs "a.b[0].c") (by decide)
  exact ⟨h.1, (h.2 docCh).trans (by rfl)⟩
example : Parser.parse (bs "a.b.c") = .ok (.pipe (.pipe (.field (bs "a")) (.field (bs "b"))) (.field (bs "c"))) :=
  dot_chain (A := idt "a") (B := idt "b") (C := idt "c") (by decide) (by decide) (by decide) (by decide) (by decide)
    (by decide) (by decide) (by decide) (by decide) (by decide)
example : Parser.parse (bs "a[*].b.c[1]") =
    .ok (.projectArray (.field (bs "a")) (.pipe (.field (bs "b")) (.index (.field (bs "c")) 1))) :=
  (C10B.parse_tree (t := .star (idt "a") (.dotId (.dotId .icur (idt "b")) (.index (idt "c") (int "1"))))
    (by decide) (by decide)).1
example : Parser.parse (bs "(a.b)[0]") = .ok (.index (.pipe (.field (bs "a")) (.field (bs "b"))) 0) :=
  (C10B.parse_tree (t := .index (.paren (.dotId (idt "a") (idt "b"))) (int "0")) (by decide) (by decide)).1
example (d : Val) : search (bs "a.b[0]") d = search (bs "(a.b)[0]") d := by
  have h1 := dot_index (A := idt "a") (B := idt "b") (n := int "0") (e := bs "a.b[0]") (by decide) (by decide)
    (by decide) (by decide) (by decide) (by decide) (by decide) (by decide)
  have h2 := (C10B.parse_tree (t := .index (.paren (.dotId (idt "a") (idt "b"))) (int "0")) (e := bs "(a.b)[0]")
    (by decide) (by decide)).1
  rw [Pratt.search_of_parse h1, Pratt.search_of_parse h2]
  exact dot_index_regroup d _ _ _ d []
end Examples5


/-! ## 4. Parentheses in the text -/

/-- the tokens of a text that lexes have the shape of their types -/
theorem shapes_of_lexes {e : Bytes} {ts : List Token} (h : Lexes e ts) : ∀ t ∈ ts, Lexical.TokShape t.type t.value := by
  obtain ⟨pre, hp, hs⟩ := C04.lexAll_ends h
  have : ts = pre := List.append_cancel_right hp
  rw [this]; exact hs

/-- **`fullParen_text`** (C10, "writing the implied parentheses explicitly never changes the outcome", on TEXT): let `e`
    be any expression text that compiles, to the node `n`, and `t` its parse tree (the tree of the grammar whose tokens
    `e` lexes to; one exists by `C04G.parse_sound`).  Print the tokens of `fullParen t` — the tokens of `e` with a pair of
    parentheses written around every operand of every binary operator, of `!` and of the signs, at every depth —
    with single blanks.  That byte string, run through the lexer and the parser from scratch, compiles to the same
    node `n` and evaluates like `e` on every document. -/
theorem fullParen_text {e : Bytes} {n : INode} (h : Parser.parse e = .ok n) {t : PTree} (hw : WellPrec t)
    (hl : Lexes e (Grammar.flatten t)) :
    Parser.parse (sp (Grammar.flatten (C10C.fullParen t))) = .ok n ∧
    ∀ d, search (sp (Grammar.flatten (C10C.fullParen t))) d = search e d := by
  have hn : n = erase t := by
    have := C04G.parse_complete hw hl
    rw [h] at this; injection this
  have hp := C10C.fullParen_parse hw (e' := sp (Grammar.flatten (C10C.fullParen t)))
    (lexes_sp (fullParen_shapes (shapes_of_lexes hl)))
  rw [← hn] at hp
  exact ⟨hp, fun d => by rw [Pratt.search_of_parse hp, Pratt.search_of_parse h]⟩

/-- … starting from the text alone -/
theorem fullParen_text_exists {e : Bytes} {n : INode} (h : Parser.parse e = .ok n) :
    ∃ t : PTree, WellPrec t ∧ Lexes e (Grammar.flatten t) ∧
      Parser.parse (sp (Grammar.flatten (C10C.fullParen t))) = .ok n ∧
      ∀ d, search (sp (Grammar.flatten (C10C.fullParen t))) d = search e d := by
  obtain ⟨t, hw, hl, _, _⟩ := C04G.parse_sound h
  exact ⟨t, hw, hl, fullParen_text h hw hl⟩

/-- **`paren_insert_text`**: let `e` compile to `n`, with parse tree `t`, and let `t'` be `t` with one sub-tree put in
    parentheses (`Ins true t t'`: any sub-tree at a position where an expression may start — an operand of a binary or
    unary operator, the left operand of `.`, of a bracket or of a projection, an element of a multi-select, a function
    argument (under `&` too), a `let` binding or body, a filter condition, the content of a parenthesis, the whole
    expression, at any depth, also inside right-hand sides of projections).  Then the tokens of `t'` are the tokens of
    `e` with `(` inserted before and `)` after a contiguous non-empty span, and that token list, printed with single
    blanks and lexed and parsed from scratch, compiles to the same node `n` and evaluates like `e` on every document. -/
theorem paren_insert_text {e : Bytes} {n : INode} (h : Parser.parse e = .ok n) {t t' : PTree} (hw : WellPrec t)
    (hl : Lexes e (Grammar.flatten t)) (hI : Ins true t t') :
    WellPrec t' ∧
    ∃ pre mid post : List Token, Grammar.flatten t = pre ++ mid ++ post ∧ mid ≠ [] ∧
      Grammar.flatten t' = pre ++ tLParen :: (mid ++ tRParen :: post) ∧
      Parser.parse (sp (pre ++ tLParen :: (mid ++ tRParen :: post))) = .ok n ∧
      ∀ d, search (sp (pre ++ tLParen :: (mid ++ tRParen :: post))) d = search e d := by
  obtain ⟨q1, _, _, _, q5⟩ := hI.sound false hw (fun _ => rfl)
  obtain ⟨pre, mid, post, h1, h2, h3⟩ := hI.span false (fun _ => rfl)
  refine ⟨q1, pre, mid, post, h1, h3, h2, ?_⟩
  have hs := shapes_of_lexes hl
  have hs' : ∀ tok ∈ Grammar.flatten t', Lexical.TokShape tok.type tok.value := by
    intro tok ht
    have h1' : Grammar.flatten t = pre ++ mid ++ post := h1
    have h2' : Grammar.flatten t' = pre ++ tLParen :: (mid ++ tRParen :: post) := h2
    rw [h2'] at ht
    rw [h1'] at hs
    simp only [List.mem_append, List.mem_cons] at ht hs
    rcases ht with ht | rfl | ht | rfl | ht
    · exact hs tok (Or.inl (Or.inl ht))
    · exact paren_shape.1
    · exact hs tok (Or.inl (Or.inr ht))
    · exact paren_shape.2
    · exact hs tok (Or.inr ht)
  have hn : n = erase t := by
    have := C04G.parse_complete hw hl
    rw [h] at this; injection this
  have hp := (text_of_tree (t := t') q1 hs').1
  rw [q5, ← hn] at hp
  have h2' : Grammar.flatten t' = pre ++ tLParen :: (mid ++ tRParen :: post) := h2
  rw [h2'] at hp
  exact ⟨hp, fun d => by rw [Pratt.search_of_parse hp, Pratt.search_of_parse h]⟩

/-- **`paren_cut_across`**: parentheses around a token span that is NOT the span of a sub-tree may change the result:
    in `a o1 b o2 c` with `o2` tighter than `o1` the sub-trees are `a`, `b`, `c`, `b o2 c` and the whole; the span
    `a o1 b` is none of them, the text `( a o1 b ) o2 c` compiles all the same, and — for EVERY such pair of operators —
    evaluates differently from `a o1 b o2 c` on `wdoc` (operands from the table `witness`). -/
theorem paren_cut_across {o1 o2 : Token} (h1 : o1 ∈ binOps) (h2 : o2 ∈ binOps) (hlt : lvl o1 < lvl o2) :
    let w := witness (lvl o1) (lvl o2)
    txt w.1 o1 w.2.1 o2 w.2.2 = sp ([idTok w.1, o1, idTok w.2.1] ++ [o2, idTok w.2.2]) ∧
    txtL w.1 o1 w.2.1 o2 w.2.2 = sp (tLParen :: ([idTok w.1, o1, idTok w.2.1] ++ tRParen :: [o2, idTok w.2.2])) ∧
    search (txtL w.1 o1 w.2.1 o2 w.2.2) wdoc ≠ search (txt w.1 o1 w.2.1 o2 w.2.2) wdoc := by
  intro w
  obtain ⟨hd, hR, _⟩ := precedence_observable_at h1 h2 (by omega)
  exact ⟨rfl, rfl, by rw [hR hlt]; exact hd⟩

section Examples6
open Grammar.Ex
-- `!a || -b * c < d && foo[*].bar.baz | [0]` (the tree `C10C.c2`), fully parenthesised, as TEXT
example : sp (Grammar.flatten (C10C.fullParen C10C.c2)) =
    bs "( ( ! ( a ) ) || ( ( ( ( - ( b ) ) * ( c ) ) < ( d ) ) && ( foo [*] . bar . baz ) ) ) | ( [ 0 ] )" := by
  decide +kernel
example : Parser.parse (bs "( ( ! ( a ) ) || ( ( ( ( - ( b ) ) * ( c ) ) < ( d ) ) && ( foo [*] . bar . baz ) ) ) | ( [ 0 ] )") =
    Parser.parse (bs "!a || -b * c < d && foo[*].bar.baz | [0]") := by
  have h := C04G.parse_complete (t := C10C.c2) (e := bs "!a || -b * c < d && foo[*].bar.baz | [0]") (by decide)
    (by decide)
  have := (fullParen_text h (t := C10C.c2) (by decide) (by decide)).1
  rw [h, ← this]
  exact congrArg Parser.parse (by decide +kernel)
-- one pair around `b * c` inside `a + b * c - d` (the tree `C10C.c1`)
example : Ins true C10C.c1
    (.bin (op .subtract "-") (.bin (op .add "+") (idt "a") (.paren (.bin (op .asterisk "*") (idt "b") (idt "c"))))
      (idt "d")) :=
  .binL (.binR (.here _ rfl rfl))
example : ∃ pre mid post : List Token, Grammar.flatten C10C.c1 = pre ++ mid ++ post ∧ mid ≠ [] ∧
    Parser.parse (sp (pre ++ tLParen :: (mid ++ tRParen :: post))) = Parser.parse (bs "a + b * c - d") := by
  have h := C04G.parse_complete (t := C10C.c1) (e := bs "a + b * c - d") (by decide) (by decide)
  obtain ⟨_, pre, mid, post, h1, h2, _, h4, _⟩ :=
    paren_insert_text h (t := C10C.c1) (by decide) (by decide) (.binL (.binR (.here _ rfl rfl)))
  exact ⟨pre, mid, post, h1, h2, by rw [h4, h]⟩
-- inside the right-hand side of a projection: `foo[*].bar[?x > y]` to `foo[*].bar[?( x ) > y]`
example : Ins true (.star (idt "foo") (.filt (.dotId .icur (idt "bar")) (.bin (op .greater ">") (idt "x") (idt "y")) .icur))
    (.star (idt "foo") (.filt (.dotId .icur (idt "bar")) (.bin (op .greater ">") (.paren (idt "x")) (idt "y")) .icur)) :=
  .starR (.filtC (.binL (.here _ rfl rfl)))
-- under `&`: `sort_by(a, &b.c)` to `sort_by(a, &( b.c ))`
example : Ins true (.call ⟨.unquotedIdentifier, bs "sort_by"⟩ [idt "a", .ref (.dotId (idt "b") (idt "c"))])
    (.call ⟨.unquotedIdentifier, bs "sort_by"⟩ [idt "a", .ref (.paren (.dotId (idt "b") (idt "c")))]) :=
  .callR [idt "a"] [] (.here _ rfl rfl)
-- `( a + b ) * c` against `a + b * c`: the span `a + b` is not a sub-tree
example : search (bs "( a + a ) * a") wdoc ≠ search (bs "a + a * a") wdoc :=
  (paren_cut_across (o1 := ⟨.add, [0x2B]⟩) (o2 := ⟨.asterisk, [0x2A]⟩) (by decide) (by decide) (by decide)).2.2

/-- **`paren_positions_excluded`**: the positions at which `Ins` does not insert are those where the grammar has no
    expression: directly after a `.`, at the start of the right-hand side of a projection, around `&e` — there a pair of
    parentheses is rejected by `Compile` (a syntax error; for `sort_by` the missing `&` is reported first, as an invalid
    function argument), it is not a change of meaning -/
theorem paren_positions_excluded :
    Parser.parse (bs "a.(b)") = .error .unexpectedToken ∧ Parser.parse (bs "a[*](.b)") = .error .unexpectedToken ∧
    Parser.parse (bs "sort_by(a, (&b))") = .error .invalidFunctionArgument ∧
    Parser.parse (bs "abs((&b))") = .error .unexpectedToken :=
  ⟨C04.errorOf_eq (by decide +kernel), C04.errorOf_eq (by decide +kernel), C04.errorOf_eq (by decide +kernel),
   C04.errorOf_eq (by decide +kernel)⟩
end Examples6

end Jmes.C10E
