/-
  C10 — operator precedence and associativity of the parser.

  "For all operand expressions, a chain of binary operators groups as the specification's precedence order dictates
  (pipe, then or, and, comparison, additive, multiplicative, loosest to tightest; selectors and projections tighter
  still), operators of equal precedence associate left to right, `!` and unary sign bind tighter than every binary
  operator, and parentheses override all of it.  Writing the implied parentheses explicitly never changes the
  outcome."

  Everything is stated on the parser model (`Model/Parser.lean`, a Pratt parser) at the level of token lists:
  `stOf ts` is the parser state whose two-token window slides over `ts` followed by `end` tokens.  The operands
  `A`, `B`, `C` are *arbitrary* token lists, constrained only by `Operand q ts n`: "`expression · q` parses `ts` to
  `n` and stops, whatever admissible token follows".  The proofs are in `Proofs/Pratt.lean`; they rest on
  the fuel monotonicity of the whole mutual block (`Pratt.mono_le`) and on the Pratt loop lemma (`Pratt.loop_split`).
-/
import Jmes.Proofs.Pratt
namespace Jmes.C10
open Jmes Jmes.Parser Jmes.Pratt

/-! ## Vocabulary -/

/-- `ts` is an operand at binding power `q`, with node `n`: given enough fuel, `expression · q` consumes exactly `ts`
    and returns `n`, whatever follows — provided the following token stops the loop at power `q` and is not `(`
    (`Pratt.Follow`; an identifier followed by `(` is a function name). -/
def Operand (q : Nat) (ts : List Token) (n : INode) : Prop := ∃ f0, OperandF f0 q ts n

theorem operand_iff (q : Nat) (ts : List Token) (n : INode) :
    Operand q ts n ↔ ∃ f0, ∀ fuel, f0 ≤ fuel → ∀ rest, Follow q rest →
      (expression fuel q).run (stOf (ts ++ rest)) = .ok (n, stOf rest) := by
  constructor
  · rintro ⟨f0, h⟩
    exact ⟨f0, fun fuel hf rest hr => expression_mono hf (h rest hr)⟩
  · rintro ⟨f0, h⟩
    exact ⟨f0, fun rest hr => h f0 (Nat.le_refl _) rest hr⟩

/-- thanks to fuel monotonicity, one successful run per continuation is enough -/
theorem operand_of_runs {q : Nat} {ts : List Token} {n : INode} {f0 : Nat}
    (h : ∀ rest, Follow q rest → ∃ fuel, fuel ≤ f0 ∧ (expression fuel q).run (stOf (ts ++ rest)) = .ok (n, stOf rest)) :
    Operand q ts n :=
  ⟨f0, fun rest hr => let ⟨_, hf, hx⟩ := h rest hr; expression_mono hf hx⟩

/-- The binary operator tokens and their node constructors (`Pratt.mkBin`): the eighteen spellings of the twelve
    arithmetic and comparison operators collapse to thirteen token types (`*` and `×` differ), plus `&&`, `||`, `|`. -/
theorem mkBin_table :
    mkBin .add = some (.binop .add) ∧ mkBin .subtract = some (.binop .sub) ∧
    mkBin .asterisk = some (.binop .mul) ∧ mkBin .multiply = some (.binop .mul) ∧
    mkBin .divide = some (.binop .div) ∧ mkBin .integerDivide = some (.binop .idiv) ∧
    mkBin .modulo = some (.binop .mod) ∧
    mkBin .equal = some (.binop .eq) ∧ mkBin .notEqual = some (.binop .ne) ∧
    mkBin .less = some (.binop .lt) ∧ mkBin .lessOrEqual = some (.binop .le) ∧
    mkBin .greater = some (.binop .gt) ∧ mkBin .greaterOrEqual = some (.binop .ge) ∧
    mkBin .and = some .and ∧ mkBin .or = some .or ∧ mkBin .pipe = some .pipe :=
  ⟨rfl, rfl, rfl, rfl, rfl, rfl, rfl, rfl, rfl, rfl, rfl, rfl, rfl, rfl, rfl, rfl⟩

/-- … and nothing else is a binary operator -/
theorem mkBin_complete (t : TokenType) (mk) (h : mkBin t = some mk) :
    t ∈ [.add, .subtract, .asterisk, .multiply, .divide, .integerDivide, .modulo, .equal, .notEqual, .less,
      .lessOrEqual, .greater, .greaterOrEqual, .and, .or, .pipe] := by
  cases t <;> simp [mkBin, binOpOf] at h <;> simp

/-! ## 1. The order of the levels -/

theorem level_order :
    precedence .pipe < precedence .or ∧ precedence .or < precedence .and ∧ precedence .and < precedence .equal ∧
    precedence .equal < precedence .add ∧ precedence .add < precedence .multiply ∧
    precedence .multiply < precedence .flatten ∧ precedence .flatten < precedence .filter ∧
    precedence .filter < precedence .dot ∧ precedence .dot < precedence .not ∧
    precedence .not < precedence .openSqBrace := by decide

theorem level_classes :
    (precedence .notEqual = precedence .equal ∧ precedence .less = precedence .equal ∧
     precedence .lessOrEqual = precedence .equal ∧ precedence .greater = precedence .equal ∧
     precedence .greaterOrEqual = precedence .equal) ∧
    precedence .subtract = precedence .add ∧
    (precedence .asterisk = precedence .multiply ∧ precedence .divide = precedence .multiply ∧
     precedence .integerDivide = precedence .multiply ∧ precedence .modulo = precedence .multiply) ∧
    -- the right-hand side of every projection is parsed between the multiplicative level and the selectors
    (precedence .flatten < projectionPrecedence ∧ projectionPrecedence < precedence .filter) ∧
    -- closing brackets, commas, `end`, … stop every loop
    (precedence .end = 0 ∧ precedence .closeParen = 0 ∧ precedence .closeSqBrace = 0 ∧ precedence .comma = 0) := by
  decide

/-- every binary operator is looser than every selector / projection token and than `!` -/
theorem binary_below_selectors {t : TokenType} {mk} (h : mkBin t = some mk) :
    1 < precedence t ∧ precedence t ≤ precedence .multiply ∧ precedence .multiply < precedence .flatten :=
  ⟨(mkBin_prec h).1, (mkBin_prec h).2.1, by decide⟩

/-! ## Basic operands -/

theorem operand_ident {t : Token} (ht : t.type = .unquotedIdentifier) (q : Nat) : Operand q [t] (.field t.value) :=
  ⟨_, Pratt.operand_ident ht q⟩
theorem operand_quoted {t : Token} {k} (ht : t.type = .quotedIdentifier) (hk : parseQuotedIdentifier t.value = some k)
    (q : Nat) : Operand q [t] (.field k) :=
  ⟨_, Pratt.operand_quoted ht hk q⟩
theorem operand_current {t : Token} (ht : t.type = .current) (q : Nat) : Operand q [t] .current :=
  ⟨_, Pratt.operand_current ht q⟩
theorem operand_root {t : Token} (ht : t.type = .root) (q : Nat) : Operand q [t] .root :=
  ⟨_, Pratt.operand_root ht q⟩
theorem operand_variable {t : Token} (ht : t.type = .variable) (q : Nat) : Operand q [t] (.variable t.value) :=
  ⟨_, Pratt.operand_variable ht q⟩
theorem operand_string {t : Token} (ht : t.type = .stringLiteral) (q : Nat) :
    Operand q [t] (.lit (.str (parseStringLiteral t.value))) :=
  ⟨_, Pratt.operand_string ht q⟩
theorem operand_json {t : Token} {v} (ht : t.type = .jsonLiteral) (hv : parseJSONLiteral t.value = some v) (q : Nat) :
    Operand q [t] (.lit v) :=
  ⟨_, Pratt.operand_json ht hv q⟩

/-- `( E )` is an operand at every power when `E` parses at power 1 (the power used inside parentheses) -/
theorem operand_paren {l r : Token} (hl : l.type = .openParen) (hr : r.type = .closeParen)
    {E : List Token} {n : INode} (hE : Operand 1 E n) (q : Nat) : Operand q (l :: (E ++ [r])) n :=
  let ⟨_, h⟩ := hE; ⟨_, Pratt.operand_paren hl hr h q⟩

/-- an operand at a power is an operand at every lower power *as far as the tokens that may follow at the lower
    power are concerned* (`Follow p` is stronger than `Follow q`): used to weaken hypotheses -/
theorem Operand.follow_le {q : Nat} {ts n} (h : Operand q ts n) : ∀ rest, Follow q rest →
    ∃ fuel, (expression fuel q).run (stOf (ts ++ rest)) = .ok (n, stOf rest) :=
  let ⟨f, hf⟩ := h; fun rest hr => ⟨f, hf rest hr⟩

/-! ## 2. One step of the loop -/

/-- **binary_step.** The loop at power `p`, holding the left operand `l`, meets a binary operator `o` of higher level
    followed by an operand `B` (at the level of `o`): it builds `mk l b` and carries on after `B`. -/
theorem binary_step {o : Token} {mk} {B : List Token} {b l : INode} {p : Nat} {rest : List Token}
    (hmk : mkBin o.type = some mk) (hp : p < precedence o.type)
    (hB : Operand (precedence o.type) B b) (hr : Follow (precedence o.type) rest) :
    ∃ f0, ∀ fuel, f0 ≤ fuel →
      (exprLoop (fuel + 1) l p).run (stOf (o :: (B ++ rest))) = (exprLoop fuel (mk l b) p).run (stOf rest) :=
  let ⟨fB, h⟩ := hB
  ⟨fB, fun _ hf => Pratt.binary_step hmk hp h hr hf⟩

/-- `A o B` parses to `mk a b` at every power below the level of `o` -/
theorem binary {o : Token} {mk} {A B : List Token} {a b : INode} {p : Nat}
    (hmk : mkBin o.type = some mk) (hp : p < precedence o.type)
    (hA : Operand (precedence o.type) A a) (hB : Operand (precedence o.type) B b) :
    Operand p (A ++ o :: B) (mk a b) :=
  let ⟨_, h1⟩ := hA; let ⟨_, h2⟩ := hB
  ⟨_, operand_binop hmk rfl hp h1 h2⟩

/-! ## 3. Equal levels associate to the left -/

theorem assoc_left {o1 o2 : Token} {mk1 mk2} {A B C : List Token} {a b c : INode} {p q : Nat}
    (hmk1 : mkBin o1.type = some mk1) (hmk2 : mkBin o2.type = some mk2)
    (hq1 : precedence o1.type = q) (hq2 : precedence o2.type = q) (hp : p < q)
    (hA : Operand q A a) (hB : Operand q B b) (hC : Operand q C c) :
    Operand p (A ++ o1 :: (B ++ o2 :: C)) (mk2 (mk1 a b) c) :=
  let ⟨_, h1⟩ := hA; let ⟨_, h2⟩ := hB; let ⟨_, h3⟩ := hC
  ⟨_, left_group hmk1 hmk2 hq1 hq2 (Nat.le_refl _) hp h1 h2 h3⟩

/-- … and so does a chain of any length: `A o1 B1 o2 B2 … on Bn`, all `oi` at level `q` (`Pratt.Chain q ts k`, with
    `k` the left fold `fun l => mkn (… (mk2 (mk1 l b1) b2) …) bn`), parses to `k a`. -/
theorem chain_left {q p : Nat} {A : List Token} {a : INode} {ts k} (hA : Operand q A a) (h : Chain q ts k)
    (hp : p < q) : Operand p (A ++ ts) (k a) :=
  let ⟨_, h1⟩ := hA; Pratt.chain_left h1 h hp

theorem Chain.cons' {q : Nat} {o : Token} {mk} {B : List Token} {b : INode} {ts : List Token} {k : INode → INode}
    (hmk : mkBin o.type = some mk) (hq : precedence o.type = q) (hB : Operand q B b) (h : Chain q ts k) :
    Chain q (o :: (B ++ ts)) (fun l => k (mk l b)) := .cons hmk hq hB h

/-! ## 4. Different levels: the tighter operator groups first -/

theorem prec_right_tighter {o1 o2 : Token} {mk1 mk2} {A B C : List Token} {a b c : INode} {p : Nat}
    (hmk1 : mkBin o1.type = some mk1) (hmk2 : mkBin o2.type = some mk2)
    (h12 : precedence o1.type < precedence o2.type) (hp : p < precedence o1.type)
    (hA : Operand (precedence o1.type) A a) (hB : Operand (precedence o2.type) B b)
    (hC : Operand (precedence o2.type) C c) :
    Operand p (A ++ o1 :: (B ++ o2 :: C)) (mk1 a (mk2 b c)) :=
  let ⟨_, h1⟩ := hA; let ⟨_, h2⟩ := hB; let ⟨_, h3⟩ := hC
  ⟨_, right_group hmk1 hmk2 rfl rfl h12 hp h1 h2 h3⟩

theorem prec_left_tighter {o1 o2 : Token} {mk1 mk2} {A B C : List Token} {a b c : INode} {p : Nat}
    (hmk1 : mkBin o1.type = some mk1) (hmk2 : mkBin o2.type = some mk2)
    (h21 : precedence o2.type < precedence o1.type) (hp : p < precedence o2.type)
    (hA : Operand (precedence o1.type) A a) (hB : Operand (precedence o1.type) B b)
    (hC : Operand (precedence o2.type) C c) :
    Operand p (A ++ o1 :: (B ++ o2 :: C)) (mk2 (mk1 a b) c) :=
  let ⟨_, h1⟩ := hA; let ⟨_, h2⟩ := hB; let ⟨_, h3⟩ := hC
  ⟨_, left_group hmk1 hmk2 rfl rfl (Nat.le_of_lt h21) hp h1 h2 h3⟩

/-! ## 5. Unary operators bind tighter than every binary operator -/

/-- `! A o B = (! A) o B` for every binary operator `o` -/
theorem unary_tight_not {t o : Token} {mk} {A B : List Token} {a b : INode} {p : Nat}
    (ht : t.type = .not) (hmk : mkBin o.type = some mk) (hp : p < precedence o.type)
    (hA : Operand (precedence .not) A a) (hB : Operand (precedence o.type) B b) :
    Operand p ((t :: A) ++ o :: B) (mk (.not a) b) :=
  let ⟨_, h1⟩ := hA
  binary hmk hp ⟨_, operand_not ht h1 (Nat.le_trans (mkBin_prec hmk).2.1 (by decide))⟩ hB

/-- `- A o B = (- A) o B` for every binary operator `o` -/
theorem unary_tight_negate {t o : Token} {mk} {A B : List Token} {a b : INode} {p : Nat}
    (ht : t.type = .subtract) (hmk : mkBin o.type = some mk) (hp : p < precedence o.type)
    (hA : Operand (precedence .multiply) A a) (hB : Operand (precedence o.type) B b) :
    Operand p ((t :: A) ++ o :: B) (mk (.negate a) b) :=
  let ⟨_, h1⟩ := hA
  binary hmk hp ⟨_, operand_negate ht h1 (mkBin_prec hmk).2.1⟩ hB

/-- `+ A o B = (+ A) o B` for every binary operator `o` -/
theorem unary_tight_plus {t o : Token} {mk} {A B : List Token} {a b : INode} {p : Nat}
    (ht : t.type = .add) (hmk : mkBin o.type = some mk) (hp : p < precedence o.type)
    (hA : Operand (precedence .multiply) A a) (hB : Operand (precedence o.type) B b) :
    Operand p ((t :: A) ++ o :: B) (mk (.assertNumber a) b) :=
  let ⟨_, h1⟩ := hA
  binary hmk hp ⟨_, operand_plus ht h1 (mkBin_prec hmk).2.1⟩ hB

/-- a unary operator on the right of a binary operator: `A o ! B`, `A o - B`, `A o + B` -/
theorem unary_right {t o : Token} {mk} {A B : List Token} {a b : INode} {p : Nat}
    (hmk : mkBin o.type = some mk) (hp : p < precedence o.type) (hA : Operand (precedence o.type) A a) :
    (t.type = .not → Operand (precedence .not) B b → Operand p (A ++ o :: t :: B) (mk a (.not b))) ∧
    (t.type = .subtract → Operand (precedence .multiply) B b → Operand p (A ++ o :: t :: B) (mk a (.negate b))) ∧
    (t.type = .add → Operand (precedence .multiply) B b → Operand p (A ++ o :: t :: B) (mk a (.assertNumber b))) :=
  ⟨fun ht ⟨_, h⟩ => binary hmk hp hA ⟨_, operand_not ht h (Nat.le_trans (mkBin_prec hmk).2.1 (by decide))⟩,
   fun ht ⟨_, h⟩ => binary hmk hp hA ⟨_, operand_negate ht h (mkBin_prec hmk).2.1⟩,
   fun ht ⟨_, h⟩ => binary hmk hp hA ⟨_, operand_plus ht h (mkBin_prec hmk).2.1⟩⟩

/-! Selectors against unary operators: the sign is parsed at the multiplicative power, below the selectors, so
    `-a.b = -(a.b)`; `!` is parsed at its own power, above `.`, so `!a.b = (!a).b` — an asymmetry of the
    implementation (and of the grammar's precedence table), recorded here.  (`a.b` is a `pipe` node in this AST.) -/

def idt (c : Nat) : Token := ⟨.unquotedIdentifier, [c]⟩
def tk (t : TokenType) (v : Bytes) : Token := ⟨t, v⟩

/-- `- a . b` is `-(a.b)` -/
theorem negate_dot (p : Nat) (hp : p ≤ precedence .multiply) :
    Operand p [tk .subtract [0x2D], idt 0x61, tk .dot [0x2E], idt 0x62]
      (.negate (.pipe (.field [0x61]) (.field [0x62]))) :=
  ⟨_, operand_negate (t := tk .subtract [0x2D]) rfl
    (operand_dot (d := tk .dot [0x2E]) (t := idt 0x62) (A := [idt 0x61]) (B := []) rfl (Or.inl rfl) (by decide)
      (Pratt.operand_ident (t := idt 0x61) rfl _) (Pratt.operand_ident (t := idt 0x62) rfl _)) hp⟩

/-- `! a . b` is `(!a).b` -/
theorem not_dot (p : Nat) (hp : p < precedence .dot) :
    Operand p [tk .not [0x21], idt 0x61, tk .dot [0x2E], idt 0x62]
      (.pipe (.not (.field [0x61])) (.field [0x62])) :=
  ⟨_, operand_dot (d := tk .dot [0x2E]) (t := idt 0x62) (A := [tk .not [0x21], idt 0x61]) (B := []) rfl (Or.inl rfl) hp
      (operand_not (t := tk .not [0x21]) rfl (Pratt.operand_ident (t := idt 0x61) rfl _) (by decide))
      (Pratt.operand_ident (t := idt 0x62) rfl _)⟩

/-- `A . B`, `B` starting with an identifier, is an operand at every power below the selectors: in particular at
    the level of every binary operator — "selectors tighter still" -/
theorem operand_dot {d t : Token} (hd : d.type = .dot)
    (ht : t.type = .unquotedIdentifier ∨ t.type = .quotedIdentifier)
    {A B : List Token} {a b : INode} {p : Nat} (hp : p < precedence .dot)
    (hA : Operand (precedence .dot) A a) (hB : Operand (precedence .dot) (t :: B) b) :
    Operand p (A ++ d :: t :: B) (.pipe a b) :=
  let ⟨_, h1⟩ := hA; let ⟨_, h2⟩ := hB; ⟨_, Pratt.operand_dot hd ht hp h1 h2⟩

/-- `A []` (the flatten projection, nothing selector-like following) is an operand at every power below that of `[]`,
    so at the level of every binary operator: `A o B []` = `A o (B [])` and `A [] o B` = `(A []) o B` -/
theorem operand_flatten {t : Token} (ht : t.type = .flatten) {p : Nat} {A : List Token} {a : INode}
    (hp : p < precedence .flatten) (hA : Operand (precedence .flatten) A a) : Operand p (A ++ [t]) (.flatten a) :=
  let ⟨_, h⟩ := hA; ⟨_, Pratt.operand_flatten ht hp h⟩

/-! ## 6. Parentheses -/

/-- `( A o1 B ) o2 C` groups to the left whatever the levels -/
theorem paren_override_left {lp rp o1 o2 : Token} {mk1 mk2} {A B C : List Token} {a b c : INode} {p : Nat}
    (hl : lp.type = .openParen) (hr : rp.type = .closeParen)
    (hmk1 : mkBin o1.type = some mk1) (hmk2 : mkBin o2.type = some mk2) (hp : p < precedence o2.type)
    (hA : Operand (precedence o1.type) A a) (hB : Operand (precedence o1.type) B b)
    (hC : Operand (precedence o2.type) C c) :
    Operand p ((lp :: ((A ++ o1 :: B) ++ [rp])) ++ o2 :: C) (mk2 (mk1 a b) c) :=
  binary hmk2 hp (operand_paren hl hr (binary hmk1 (mkBin_prec hmk1).1 hA hB) _) hC

/-- `A o1 ( B o2 C )` groups to the right whatever the levels -/
theorem paren_override_right {lp rp o1 o2 : Token} {mk1 mk2} {A B C : List Token} {a b c : INode} {p : Nat}
    (hl : lp.type = .openParen) (hr : rp.type = .closeParen)
    (hmk1 : mkBin o1.type = some mk1) (hmk2 : mkBin o2.type = some mk2) (hp : p < precedence o1.type)
    (hA : Operand (precedence o1.type) A a) (hB : Operand (precedence o2.type) B b)
    (hC : Operand (precedence o2.type) C c) :
    Operand p (A ++ o1 :: (lp :: ((B ++ o2 :: C) ++ [rp]))) (mk1 a (mk2 b c)) :=
  binary hmk1 hp hA (operand_paren hl hr (binary hmk2 (mkBin_prec hmk2).1 hB hC) _)

/-- **paren_neutral (left).** When `o2` is not tighter than `o1`, `A o1 B o2 C` and `( A o1 B ) o2 C` parse to the
    same node. -/
theorem paren_neutral_left {lp rp o1 o2 : Token} {mk1 mk2} {A B C : List Token} {a b c : INode} {p : Nat}
    (hl : lp.type = .openParen) (hr : rp.type = .closeParen)
    (hmk1 : mkBin o1.type = some mk1) (hmk2 : mkBin o2.type = some mk2)
    (h21 : precedence o2.type ≤ precedence o1.type) (hp : p < precedence o2.type)
    (hA : Operand (precedence o1.type) A a) (hB : Operand (precedence o1.type) B b)
    (hC : Operand (precedence o2.type) C c) :
    Operand p (A ++ o1 :: (B ++ o2 :: C)) (mk2 (mk1 a b) c) ∧
    Operand p ((lp :: ((A ++ o1 :: B) ++ [rp])) ++ o2 :: C) (mk2 (mk1 a b) c) :=
  ⟨(let ⟨_, h1⟩ := hA; let ⟨_, h2⟩ := hB; let ⟨_, h3⟩ := hC
    ⟨_, left_group hmk1 hmk2 rfl rfl h21 hp h1 h2 h3⟩),
   paren_override_left hl hr hmk1 hmk2 hp hA hB hC⟩

/-- **paren_neutral (right).** When `o2` is tighter than `o1`, `A o1 B o2 C` and `A o1 ( B o2 C )` parse to the same
    node. -/
theorem paren_neutral_right {lp rp o1 o2 : Token} {mk1 mk2} {A B C : List Token} {a b c : INode} {p : Nat}
    (hl : lp.type = .openParen) (hr : rp.type = .closeParen)
    (hmk1 : mkBin o1.type = some mk1) (hmk2 : mkBin o2.type = some mk2)
    (h12 : precedence o1.type < precedence o2.type) (hp : p < precedence o1.type)
    (hA : Operand (precedence o1.type) A a) (hB : Operand (precedence o2.type) B b)
    (hC : Operand (precedence o2.type) C c) :
    Operand p (A ++ o1 :: (B ++ o2 :: C)) (mk1 a (mk2 b c)) ∧
    Operand p (A ++ o1 :: (lp :: ((B ++ o2 :: C) ++ [rp]))) (mk1 a (mk2 b c)) :=
  ⟨prec_right_tighter hmk1 hmk2 h12 hp hA hB hC, paren_override_right hl hr hmk1 hmk2 hp hA hB hC⟩

/-! ### … down to `Parser.parse` and `search` -/

/-- a whole expression (an operand at power 1, the power `Parser.parse` starts with) is what `Parser.parse` returns
    on any byte string that lexes to it — unless the parser reports that its fuel budget is exhausted -/
theorem parse_of_operand {e : Bytes} {ts : List Token} {n : INode}
    (hl : lexAll e = (ts ++ [endTok], none)) (hO : Operand 1 ts n) (hnf : Parser.parse e ≠ .error .fuel) :
    Parser.parse e = .ok n :=
  let ⟨_, h⟩ := hO; Pratt.parse_of_operand hl h hnf

/-- two byte strings whose token lists are operands (at power 1) with the same node have the same outcome on every
    document -/
theorem search_eq_of_operands {e1 e2 : Bytes} {ts1 ts2 : List Token} {n : INode}
    (hl1 : lexAll e1 = (ts1 ++ [endTok], none)) (hl2 : lexAll e2 = (ts2 ++ [endTok], none))
    (h1 : Operand 1 ts1 n) (h2 : Operand 1 ts2 n)
    (hf1 : Parser.parse e1 ≠ .error .fuel) (hf2 : Parser.parse e2 ≠ .error .fuel) (d : Val) :
    search e1 d = search e2 d := by
  rw [search_of_parse (parse_of_operand hl1 h1 hf1), search_of_parse (parse_of_operand hl2 h2 hf2)]

/-- equal nodes ⇒ equal outcome (the trivial half, for the record) -/
theorem search_eq_of_parse_eq {e1 e2 : Bytes} (h : Parser.parse e1 = Parser.parse e2) (d : Val) :
    search e1 d = search e2 d := by
  unfold search; rw [h]

/-- **Writing the implied parentheses never changes the outcome** (left grouping): if `e1` lexes to `A o1 B o2 C`
    and `e2` to `( A o1 B ) o2 C`, `o2` not tighter than `o1`, then `search e1 d = search e2 d` for every `d`. -/
theorem paren_neutral_left_search {e1 e2 : Bytes} {lp rp o1 o2 : Token} {mk1 mk2} {A B C : List Token}
    {a b c : INode}
    (hl1 : lexAll e1 = ((A ++ o1 :: (B ++ o2 :: C)) ++ [endTok], none))
    (hl2 : lexAll e2 = (((lp :: ((A ++ o1 :: B) ++ [rp])) ++ o2 :: C) ++ [endTok], none))
    (hl : lp.type = .openParen) (hr : rp.type = .closeParen)
    (hmk1 : mkBin o1.type = some mk1) (hmk2 : mkBin o2.type = some mk2)
    (h21 : precedence o2.type ≤ precedence o1.type)
    (hA : Operand (precedence o1.type) A a) (hB : Operand (precedence o1.type) B b)
    (hC : Operand (precedence o2.type) C c)
    (hf1 : Parser.parse e1 ≠ .error .fuel) (hf2 : Parser.parse e2 ≠ .error .fuel) (d : Val) :
    search e1 d = search e2 d ∧ search e1 d = evaluate (mk2 (mk1 a b) c) d := by
  have h := paren_neutral_left (p := 1) hl hr hmk1 hmk2 h21 (mkBin_prec hmk2).1 hA hB hC
  exact ⟨search_eq_of_operands hl1 hl2 h.1 h.2 hf1 hf2 d, search_of_parse (parse_of_operand hl1 h.1 hf1) d⟩

/-- … (right grouping): `A o1 B o2 C` and `A o1 ( B o2 C )`, `o2` tighter than `o1` -/
theorem paren_neutral_right_search {e1 e2 : Bytes} {lp rp o1 o2 : Token} {mk1 mk2} {A B C : List Token}
    {a b c : INode}
    (hl1 : lexAll e1 = ((A ++ o1 :: (B ++ o2 :: C)) ++ [endTok], none))
    (hl2 : lexAll e2 = ((A ++ o1 :: (lp :: ((B ++ o2 :: C) ++ [rp]))) ++ [endTok], none))
    (hl : lp.type = .openParen) (hr : rp.type = .closeParen)
    (hmk1 : mkBin o1.type = some mk1) (hmk2 : mkBin o2.type = some mk2)
    (h12 : precedence o1.type < precedence o2.type)
    (hA : Operand (precedence o1.type) A a) (hB : Operand (precedence o2.type) B b)
    (hC : Operand (precedence o2.type) C c)
    (hf1 : Parser.parse e1 ≠ .error .fuel) (hf2 : Parser.parse e2 ≠ .error .fuel) (d : Val) :
    search e1 d = search e2 d ∧ search e1 d = evaluate (mk1 a (mk2 b c)) d := by
  have h := paren_neutral_right (p := 1) hl hr hmk1 hmk2 h12 (mkBin_prec hmk1).1 hA hB hC
  exact ⟨search_eq_of_operands hl1 hl2 h.1 h.2 hf1 hf2 d, search_of_parse (parse_of_operand hl1 h.1 hf1) d⟩

/-! ## 7. Alternative spellings -/

/-- `×`/`*`, `÷`/`/`, `−`/`-` build the same node (the last two pairs even share their token type) -/
theorem spellings :
    binOpOf .multiply = binOpOf .asterisk ∧ mkBin .multiply = mkBin .asterisk ∧
    precedence .multiply = precedence .asterisk ∧
    -- U+00D7 ×, U+00F7 ÷, U+2212 −
    lexToken [0xC3, 0x97] = .ok (⟨.multiply, [0xC3, 0x97]⟩, 2) ∧
    lexToken [0xC3, 0xB7] = .ok (⟨.divide, [0xC3, 0xB7]⟩, 2) ∧
    lexToken [0xE2, 0x88, 0x92] = .ok (⟨.subtract, [0xE2, 0x88, 0x92]⟩, 3) ∧
    -- ASCII `*`, `/`, `-` (not followed by a digit)
    lexToken [0x2A] = .ok (⟨.asterisk, [0x2A]⟩, 1) ∧
    lexToken [0x2F] = .ok (⟨.divide, [0x2F]⟩, 1) ∧
    lexToken [0x2D] = .ok (⟨.subtract, [0x2D]⟩, 1) :=
  ⟨rfl, rfl, rfl, rfl, rfl, rfl, rfl, rfl, rfl⟩


/-! ## Concrete instances (non-vacuity), down to `Parser.parse` on byte strings

  `a = 0x61`, `b = 0x62`, `c = 0x63`.  Each example instantiates the general theorem with identifier operands, the
  explicit-fuel version (`Pratt.…`) giving a fuel bound that `Parser.fuelFor` covers. -/

section Examples
abbrev tA : Token := idt 0x61
abbrev tB : Token := idt 0x62
abbrev tC : Token := idt 0x63
abbrev fa : INode := .field [0x61]
abbrev fb : INode := .field [0x62]
abbrev fc : INode := .field [0x63]
theorem opA (q : Nat) : OperandF 3 q [tA] fa := Pratt.operand_ident (t := tA) rfl q
theorem opB (q : Nat) : OperandF 3 q [tB] fb := Pratt.operand_ident (t := tB) rfl q
theorem opC (q : Nat) : OperandF 3 q [tC] fc := Pratt.operand_ident (t := tC) rfl q

-- basic operands exist at every power
example (q : Nat) : Operand q [tA] fa := operand_ident (t := tA) rfl q
example (q : Nat) : Operand q [tk .current [0x40]] .current := operand_current (t := tk .current [0x40]) rfl q
example (q : Nat) : Operand q [tk .openParen [0x28], tA, tk .closeParen [0x29]] fa :=
  operand_paren (l := tk .openParen [0x28]) (r := tk .closeParen [0x29]) (E := [tA]) rfl rfl
    (operand_ident (t := tA) rfl 1) q

-- `a+b*c`  =  a + (b * c)
theorem ex_add_mul : Parser.parse [0x61, 0x2B, 0x62, 0x2A, 0x63] = .ok (.binop .add fa (.binop .mul fb fc)) :=
  parse_of_operandF (ts := [tA, tk .add [0x2B], tB, tk .asterisk [0x2A], tC]) (by decide)
    (right_group (o1 := tk .add [0x2B]) (o2 := tk .asterisk [0x2A]) (A := [tA]) (B := [tB]) (C := [tC])
      rfl rfl rfl rfl (by decide) (by decide) (opA _) (opB _) (opC _)) (by decide)

-- `a*b+c`  =  (a * b) + c
theorem ex_mul_add : Parser.parse [0x61, 0x2A, 0x62, 0x2B, 0x63] = .ok (.binop .add (.binop .mul fa fb) fc) :=
  parse_of_operandF (ts := [tA, tk .asterisk [0x2A], tB, tk .add [0x2B], tC]) (by decide)
    (left_group (o1 := tk .asterisk [0x2A]) (o2 := tk .add [0x2B]) (A := [tA]) (B := [tB]) (C := [tC])
      rfl rfl rfl rfl (by decide) (by decide) (opA _) (opB _) (opC _)) (by decide)

-- `a-b-c`  =  (a - b) - c
theorem ex_sub_sub : Parser.parse [0x61, 0x2D, 0x62, 0x2D, 0x63] = .ok (.binop .sub (.binop .sub fa fb) fc) :=
  parse_of_operandF (ts := [tA, tk .subtract [0x2D], tB, tk .subtract [0x2D], tC]) (by decide)
    (left_group (o1 := tk .subtract [0x2D]) (o2 := tk .subtract [0x2D]) (A := [tA]) (B := [tB]) (C := [tC])
      rfl rfl rfl rfl (by decide) (by decide) (opA _) (opB _) (opC _)) (by decide)

-- the same through the `Operand`-level theorem
example : Operand 1 [tA, tk .subtract [0x2D], tB, tk .subtract [0x2D], tC] (.binop .sub (.binop .sub fa fb) fc) :=
  assoc_left (o1 := tk .subtract [0x2D]) (o2 := tk .subtract [0x2D]) (A := [tA]) (B := [tB]) (C := [tC])
    (q := 6) rfl rfl rfl rfl (by decide) (operand_ident (t := tA) rfl _) (operand_ident (t := tB) rfl _)
    (operand_ident (t := tC) rfl _)

-- a longer chain with mixed levels and a selector: `a.b + b * c - a`  =  ((a.b) + (b * c)) - a.
-- The tighter sub-chains are operands at the looser level, so the theorems compose.
example : Operand 1 [tA, tk .dot [0x2E], tB, tk .add [0x2B], tB, tk .asterisk [0x2A], tC, tk .subtract [0x2D], tA]
    (.binop .sub (.binop .add (.pipe fa fb) (.binop .mul fb fc)) fa) := by
  have hab : Operand 6 [tA, tk .dot [0x2E], tB] (.pipe fa fb) :=
    operand_dot (d := tk .dot [0x2E]) (t := tB) (A := [tA]) (B := []) rfl (Or.inl rfl) (by decide)
      (operand_ident (t := tA) rfl _) (operand_ident (t := tB) rfl _)
  have hbc : Operand 6 [tB, tk .asterisk [0x2A], tC] (.binop .mul fb fc) :=
    binary (o := tk .asterisk [0x2A]) (A := [tB]) (B := [tC]) rfl (by decide)
      (operand_ident (t := tB) rfl _) (operand_ident (t := tC) rfl _)
  have c : Chain 6 [tk .add [0x2B], tB, tk .asterisk [0x2A], tC, tk .subtract [0x2D], tA]
      (fun l => .binop .sub (.binop .add l (.binop .mul fb fc)) fa) :=
    Chain.cons' (o := tk .add [0x2B]) (B := [tB, tk .asterisk [0x2A], tC]) rfl rfl hbc
      (Chain.cons' (o := tk .subtract [0x2D]) (B := [tA]) rfl rfl (operand_ident (t := tA) rfl _) .nil)
  have h := chain_left (p := 1) hab c (by decide)
  exact h

-- `a||b&&c`  =  a || (b && c)
theorem ex_or_and : Parser.parse [0x61, 0x7C, 0x7C, 0x62, 0x26, 0x26, 0x63] = .ok (.or fa (.and fb fc)) :=
  parse_of_operandF (ts := [tA, tk .or [0x7C, 0x7C], tB, tk .and [0x26, 0x26], tC]) (by decide)
    (right_group (o1 := tk .or [0x7C, 0x7C]) (o2 := tk .and [0x26, 0x26]) (A := [tA]) (B := [tB]) (C := [tC])
      rfl rfl rfl rfl (by decide) (by decide) (opA _) (opB _) (opC _)) (by decide)

-- `a|b||c`  =  a | (b || c)
theorem ex_pipe_or : Parser.parse [0x61, 0x7C, 0x62, 0x7C, 0x7C, 0x63] = .ok (.pipe fa (.or fb fc)) :=
  parse_of_operandF (ts := [tA, tk .pipe [0x7C], tB, tk .or [0x7C, 0x7C], tC]) (by decide)
    (right_group (o1 := tk .pipe [0x7C]) (o2 := tk .or [0x7C, 0x7C]) (A := [tA]) (B := [tB]) (C := [tC])
      rfl rfl rfl rfl (by decide) (by decide) (opA _) (opB _) (opC _)) (by decide)

-- `a<b==c`  =  (a < b) == c   (equal levels, different operators)
theorem ex_lt_eq : Parser.parse [0x61, 0x3C, 0x62, 0x3D, 0x3D, 0x63] = .ok (.binop .eq (.binop .lt fa fb) fc) :=
  parse_of_operandF (ts := [tA, tk .less [0x3C], tB, tk .equal [0x3D, 0x3D], tC]) (by decide)
    (left_group (o1 := tk .less [0x3C]) (o2 := tk .equal [0x3D, 0x3D]) (A := [tA]) (B := [tB]) (C := [tC])
      rfl rfl rfl rfl (by decide) (by decide) (opA _) (opB _) (opC _)) (by decide)

-- `!a==b`  =  (!a) == b
theorem ex_not_eq : Parser.parse [0x21, 0x61, 0x3D, 0x3D, 0x62] = .ok (.binop .eq (.not fa) fb) :=
  parse_of_operandF (ts := [tk .not [0x21], tA, tk .equal [0x3D, 0x3D], tB]) (by decide)
    (operand_binop (o := tk .equal [0x3D, 0x3D]) (A := [tk .not [0x21], tA]) (B := [tB]) rfl rfl (by decide)
      (operand_not (t := tk .not [0x21]) rfl (opA _) (by decide)) (opB _)) (by decide)

example : Operand 1 [tk .not [0x21], tA, tk .equal [0x3D, 0x3D], tB] (.binop .eq (.not fa) fb) :=
  unary_tight_not (t := tk .not [0x21]) (o := tk .equal [0x3D, 0x3D]) (A := [tA]) (B := [tB]) rfl rfl (by decide)
    (operand_ident (t := tA) rfl _) (operand_ident (t := tB) rfl _)

-- `-a*b`  =  (-a) * b
theorem ex_neg_mul : Parser.parse [0x2D, 0x61, 0x2A, 0x62] = .ok (.binop .mul (.negate fa) fb) :=
  parse_of_operandF (ts := [tk .subtract [0x2D], tA, tk .asterisk [0x2A], tB]) (by decide)
    (operand_binop (o := tk .asterisk [0x2A]) (A := [tk .subtract [0x2D], tA]) (B := [tB]) rfl rfl (by decide)
      (operand_negate (t := tk .subtract [0x2D]) rfl (opA _) (by decide)) (opB _)) (by decide)

example : Operand 1 [tk .subtract [0x2D], tA, tk .asterisk [0x2A], tB] (.binop .mul (.negate fa) fb) :=
  unary_tight_negate (t := tk .subtract [0x2D]) (o := tk .asterisk [0x2A]) (A := [tA]) (B := [tB]) rfl rfl (by decide)
    (operand_ident (t := tA) rfl _) (operand_ident (t := tB) rfl _)

example : Operand 1 [tk .add [0x2B], tA, tk .asterisk [0x2A], tB] (.binop .mul (.assertNumber fa) fb) :=
  unary_tight_plus (t := tk .add [0x2B]) (o := tk .asterisk [0x2A]) (A := [tA]) (B := [tB]) rfl rfl (by decide)
    (operand_ident (t := tA) rfl _) (operand_ident (t := tB) rfl _)

-- `a*-b`  =  a * (-b)
example : Operand 1 [tA, tk .asterisk [0x2A], tk .subtract [0x2D], tB] (.binop .mul fa (.negate fb)) :=
  (unary_right (t := tk .subtract [0x2D]) (o := tk .asterisk [0x2A]) (A := [tA]) (B := [tB]) rfl (by decide)
    (operand_ident (t := tA) rfl _)).2.1 rfl (operand_ident (t := tB) rfl _)

-- `-a.b` = -(a.b)   but   `!a.b` = (!a).b
theorem ex_neg_dot : Parser.parse [0x2D, 0x61, 0x2E, 0x62] = .ok (.negate (.pipe fa fb)) :=
  parse_of_operandF (ts := [tk .subtract [0x2D], tA, tk .dot [0x2E], tB]) (by decide)
    (operand_negate (t := tk .subtract [0x2D]) rfl
      (Pratt.operand_dot (d := tk .dot [0x2E]) (t := tB) (A := [tA]) (B := []) rfl (Or.inl rfl) (by decide)
        (opA _) (opB _)) (q := 1) (by decide)) (by decide)

theorem ex_not_dot : Parser.parse [0x21, 0x61, 0x2E, 0x62] = .ok (.pipe (.not fa) fb) :=
  parse_of_operandF (ts := [tk .not [0x21], tA, tk .dot [0x2E], tB]) (by decide)
    (Pratt.operand_dot (d := tk .dot [0x2E]) (t := tB) (A := [tk .not [0x21], tA]) (B := []) rfl (Or.inl rfl)
      (p := 1) (by decide) (operand_not (t := tk .not [0x21]) rfl (opA _) (by decide)) (opB _)) (by decide)

-- `a+b[]` = a + (b[])  and  `a[]*b` = (a[]) * b : projections are tighter than every binary operator
theorem ex_add_flatten : Parser.parse [0x61, 0x2B, 0x62, 0x5B, 0x5D] = .ok (.binop .add fa (.flatten fb)) :=
  parse_of_operandF (ts := [tA, tk .add [0x2B], tB, tk .flatten [0x5B, 0x5D]]) (by decide)
    (operand_binop (o := tk .add [0x2B]) (A := [tA]) (B := [tB, tk .flatten [0x5B, 0x5D]]) rfl rfl (by decide) (opA _)
      (Pratt.operand_flatten (t := tk .flatten [0x5B, 0x5D]) (A := [tB]) rfl (by decide) (opB _))) (by decide)

theorem ex_flatten_mul : Parser.parse [0x61, 0x5B, 0x5D, 0x2A, 0x62] = .ok (.binop .mul (.flatten fa) fb) :=
  parse_of_operandF (ts := [tA, tk .flatten [0x5B, 0x5D], tk .asterisk [0x2A], tB]) (by decide)
    (operand_binop (o := tk .asterisk [0x2A]) (A := [tA, tk .flatten [0x5B, 0x5D]]) (B := [tB]) rfl rfl (by decide)
      (Pratt.operand_flatten (t := tk .flatten [0x5B, 0x5D]) (A := [tA]) rfl (by decide) (opA _)) (opB _)) (by decide)

example : Operand 1 [tA, tk .flatten [0x5B, 0x5D], tk .asterisk [0x2A], tB] (.binop .mul (.flatten fa) fb) :=
  binary (o := tk .asterisk [0x2A]) (A := [tA, tk .flatten [0x5B, 0x5D]]) (B := [tB]) rfl (by decide)
    (operand_flatten (t := tk .flatten [0x5B, 0x5D]) (A := [tA]) rfl (by decide) (operand_ident (t := tA) rfl _))
    (operand_ident (t := tB) rfl _)

-- `(a+b)*c`  =  (a + b) * c ;  `a*(b+c)`  =  a * (b + c)
theorem ex_paren_left :
    Parser.parse [0x28, 0x61, 0x2B, 0x62, 0x29, 0x2A, 0x63] = .ok (.binop .mul (.binop .add fa fb) fc) :=
  parse_of_operandF
    (ts := [tk .openParen [0x28], tA, tk .add [0x2B], tB, tk .closeParen [0x29], tk .asterisk [0x2A], tC]) (by decide)
    (operand_binop (o := tk .asterisk [0x2A])
      (A := [tk .openParen [0x28], tA, tk .add [0x2B], tB, tk .closeParen [0x29]]) (B := [tC]) rfl rfl (by decide)
      (Pratt.operand_paren (l := tk .openParen [0x28]) (r := tk .closeParen [0x29]) (E := [tA, tk .add [0x2B], tB])
        rfl rfl
        (operand_binop (o := tk .add [0x2B]) (A := [tA]) (B := [tB]) rfl rfl (by decide) (opA _) (opB _)) _)
      (opC _)) (by decide)

example : Operand 1 [tk .openParen [0x28], tA, tk .add [0x2B], tB, tk .closeParen [0x29], tk .asterisk [0x2A], tC]
    (.binop .mul (.binop .add fa fb) fc) :=
  paren_override_left (lp := tk .openParen [0x28]) (rp := tk .closeParen [0x29]) (o1 := tk .add [0x2B])
    (o2 := tk .asterisk [0x2A]) (A := [tA]) (B := [tB]) (C := [tC]) rfl rfl rfl rfl (by decide)
    (operand_ident (t := tA) rfl _) (operand_ident (t := tB) rfl _) (operand_ident (t := tC) rfl _)

example : Operand 1 [tA, tk .asterisk [0x2A], tk .openParen [0x28], tB, tk .add [0x2B], tC, tk .closeParen [0x29]]
    (.binop .mul fa (.binop .add fb fc)) :=
  paren_override_right (lp := tk .openParen [0x28]) (rp := tk .closeParen [0x29]) (o1 := tk .asterisk [0x2A])
    (o2 := tk .add [0x2B]) (A := [tA]) (B := [tB]) (C := [tC]) rfl rfl rfl rfl (by decide)
    (operand_ident (t := tA) rfl _) (operand_ident (t := tB) rfl _) (operand_ident (t := tC) rfl _)

-- the implied parentheses: `a+(b*c)` parses to the node of `a+b*c`, `(a-b)-c` to the node of `a-b-c`
theorem ex_paren_right_neutral :
    Parser.parse [0x61, 0x2B, 0x28, 0x62, 0x2A, 0x63, 0x29] = .ok (.binop .add fa (.binop .mul fb fc)) :=
  parse_of_operandF
    (ts := [tA, tk .add [0x2B], tk .openParen [0x28], tB, tk .asterisk [0x2A], tC, tk .closeParen [0x29]]) (by decide)
    (operand_binop (o := tk .add [0x2B]) (A := [tA])
      (B := [tk .openParen [0x28], tB, tk .asterisk [0x2A], tC, tk .closeParen [0x29]]) rfl rfl (by decide) (opA _)
      (Pratt.operand_paren (l := tk .openParen [0x28]) (r := tk .closeParen [0x29])
        (E := [tB, tk .asterisk [0x2A], tC]) rfl rfl
        (operand_binop (o := tk .asterisk [0x2A]) (A := [tB]) (B := [tC]) rfl rfl (by decide) (opB _) (opC _)) _))
    (by decide)

example : Parser.parse [0x61, 0x2B, 0x28, 0x62, 0x2A, 0x63, 0x29] = Parser.parse [0x61, 0x2B, 0x62, 0x2A, 0x63] := by
  rw [ex_paren_right_neutral, ex_add_mul]

-- … and `search` agrees on every document, through the general theorem
example (d : Val) :
    search [0x61, 0x2B, 0x62, 0x2A, 0x63] d = search [0x61, 0x2B, 0x28, 0x62, 0x2A, 0x63, 0x29] d :=
  (paren_neutral_right_search (lp := tk .openParen [0x28]) (rp := tk .closeParen [0x29]) (o1 := tk .add [0x2B])
    (o2 := tk .asterisk [0x2A]) (A := [tA]) (B := [tB]) (C := [tC]) (by decide) (by decide) rfl rfl rfl rfl (by decide)
    (operand_ident (t := tA) rfl _) (operand_ident (t := tB) rfl _) (operand_ident (t := tC) rfl _)
    (by rw [ex_add_mul]; intro h; cases h) (by rw [ex_paren_right_neutral]; intro h; cases h) d).1

-- the spellings: `a×b` and `a*b` parse to the same node, as do `a÷b` / `a/b` and `a−b` / `a-b`
theorem ex_times : Parser.parse [0x61, 0xC3, 0x97, 0x62] = .ok (.binop .mul fa fb) :=
  parse_of_operandF (ts := [tA, tk .multiply [0xC3, 0x97], tB]) (by decide)
    (operand_binop (o := tk .multiply [0xC3, 0x97]) (A := [tA]) (B := [tB]) rfl rfl (by decide) (opA _) (opB _))
    (by decide)
theorem ex_star : Parser.parse [0x61, 0x2A, 0x62] = .ok (.binop .mul fa fb) :=
  parse_of_operandF (ts := [tA, tk .asterisk [0x2A], tB]) (by decide)
    (operand_binop (o := tk .asterisk [0x2A]) (A := [tA]) (B := [tB]) rfl rfl (by decide) (opA _) (opB _))
    (by decide)
theorem ex_div_u : Parser.parse [0x61, 0xC3, 0xB7, 0x62] = .ok (.binop .div fa fb) :=
  parse_of_operandF (ts := [tA, tk .divide [0xC3, 0xB7], tB]) (by decide)
    (operand_binop (o := tk .divide [0xC3, 0xB7]) (A := [tA]) (B := [tB]) rfl rfl (by decide) (opA _) (opB _))
    (by decide)
theorem ex_div_a : Parser.parse [0x61, 0x2F, 0x62] = .ok (.binop .div fa fb) :=
  parse_of_operandF (ts := [tA, tk .divide [0x2F], tB]) (by decide)
    (operand_binop (o := tk .divide [0x2F]) (A := [tA]) (B := [tB]) rfl rfl (by decide) (opA _) (opB _))
    (by decide)
theorem ex_minus_u : Parser.parse [0x61, 0xE2, 0x88, 0x92, 0x62] = .ok (.binop .sub fa fb) :=
  parse_of_operandF (ts := [tA, tk .subtract [0xE2, 0x88, 0x92], tB]) (by decide)
    (operand_binop (o := tk .subtract [0xE2, 0x88, 0x92]) (A := [tA]) (B := [tB]) rfl rfl (by decide) (opA _) (opB _))
    (by decide)
theorem ex_minus_a : Parser.parse [0x61, 0x2D, 0x62] = .ok (.binop .sub fa fb) :=
  parse_of_operandF (ts := [tA, tk .subtract [0x2D], tB]) (by decide)
    (operand_binop (o := tk .subtract [0x2D]) (A := [tA]) (B := [tB]) rfl rfl (by decide) (opA _) (opB _))
    (by decide)

end Examples

end Jmes.C10
