/-
  C03 (no panic), third wave, series D — THE GUARDS IN THE CODE SUFFICE.

  Reviewer's objection: the model renders Go's partial operations `s[i:j]`, `s[n:]`, `a[i]`, `r[i] = x`,
  `make([]any, n)`, `x.(T)`, `c / step` with TOTAL Lean functions (`List.take`, `List.drop`, `List.getD`, `Int.tdiv`, …),
  so it cannot exhibit an index-out-of-range / slice-bounds / makeslice / divide-by-zero panic and
  `C03.search_no_panic` says nothing about them: deleting the guard `if i > j` of `findFirstBetween` would falsify no
  theorem.

  What is done here.
  * `Jmes/Proofs/C03DChecked.lean`: CHECKED primitives `idx?`, `set?`, `slice?`, `sliceFrom?`, `sliceTo?`, `make?`,
    `assertArr?`, `assertStr?`, `div?`, `mod?` answering `Res.panic …` exactly where the Go runtime panics.
  * `Jmes/Proofs/C03D{String,Slice,Array,Object,Literal,Lexer}.lean`: CHECKED MIRRORS — the Go functions that index,
    slice, allocate by a computed length, divide or assert, transliterated statement by statement over these
    primitives, every Go guard kept as in the source; the doc comment of every mirror lists the Go sites
    (file:line, expression) it stands for.
  * For every mirror `fC` the theorem `fC_eq : fC x = f x` (model function `f`, lifted with `.ok` when `f` is pure):
    the checks never fire — for ALL values, ALL integers, ALL byte strings (valid UTF-8 or not).  This file restates
    those theorems (sections 1–6), so that together with `C03.search_no_panic` the absence of a `panic` outcome in
    the model now covers the runtime's bounds checks at these sites.
  * GUARD DELETIONS (section 7): mirrors take Boolean flags that drop one Go guard; for each such guard a concrete
    input is proved to make the guard-less mirror PANIC.  So the `…_eq` theorems are not provable for the mutated
    code: removing one of these guards in Go (and in its mirror) breaks a theorem.
  * `Jmes/Proofs/C03DSites.lean`: the mechanically extracted inventory of all 379 index / slice / make / assert /
    integer-division / Grow sites of the module's non-test files (line numbers of the current /repo text) with the
    mirror covering each:
    220 go through a checked mirror (ALL sites of lexer.go, of the literal decoders of parser.go, of slice.go,
    string.go, array.go, functions.go, object.go, compare.go, and the multi-select and zip cases of evaluator.go),
    64 are `node.Arguments[k]` (arity — section 6), 20 are `sort.Stable` callbacks (`Less`/`Swap`), 11 cannot panic
    by inspection (5 `make(map, len(x))` size hints, 6 `make([]any, 0, len(x))` with length 0 and the capacity of
    something that exists; the four `Grow` calls all have mirrors), 64 are `Walk` methods unreachable from the entry
    points.

  Hypotheses that remain, all established by a caller or by the Go runtime, each shown necessary by an example:
  * `2 ≤ len(token)` for the literal decoders — PROVED of every token of the model's lexer (`literal_decoders_checked`);
  * `step ≠ 0`, `-2^63 ≤ step` for `sliceStep` — PROVED of every slice node the model's parser builds
    (`SliceGo.stepPhase_step`);
  * `zip` has ≥ 1 argument — PROVED of every parsed expression (`ArrGo.parse_zip_nonempty`);
  * call nodes carry the argument count of their builtin — PROVED of every parsed expression (`C08B.compile_arityOK`);
  * `step ≠ 0`, all of `start`, `stop`, `step` Go `int`s — for EVERY slice node of EVERY compiled expression:
    `C03E.compile_sliceOK` (Jmes/Properties/C03E.lean);
  * `Fits v`: a string / array / object handed to `make`-ing code has at most 2^44 bytes / elements / members
    (`makeLimit = maxAlloc / 16 = 2^44`: `make?` refuses more EXACTLY as `runtime.makeslice` refuses
    `len > maxAlloc/elemsize` for the 16-byte element type `any`; `makeOf?` carries the element size, 24 bytes for the
    `[][]any` of `zip`).  True of every array / object that exists in a Go process's memory (it was allocated under the
    same limit); for strings it excludes texts of ≥ 16 TiB.  Not derivable in the model, whose lists are unbounded.

  Third review (series E): the model's `.nondet` marker for map-ordered arrays is now consulted AFTER the checked
  operation in every mirror (`SliceGo.indexG`, `sliceArrTail`, `sliceStepArrTail`, `ArrGo.indexC`, `zipC`,
  `maxBy*TailC`, `minBy*TailC`, `fromItemsLoop*`), so the bound checks are evaluated on map-ordered inputs too;
  `strings.Builder.Grow` has mirrors at all four sites; `zipNodeC` evaluates the arguments inside the loop as Go does;
  `selectArrayC` has the `child == nil` return.
-/
import Jmes.Proofs.C03DString
import Jmes.Proofs.C03DSlice
import Jmes.Proofs.C03DArray
import Jmes.Proofs.C03DObject
import Jmes.Proofs.C03DLiteral
import Jmes.Proofs.C03DLexer
import Jmes.Proofs.C03DSites
import Jmes.Properties.C03
import Jmes.Properties.C08B
namespace Jmes.C03D
open Jmes

/-- the size hypothesis: a string shorter than 2^44 bytes, an array / object of at most 2^44 elements / members
    (`makeLimit = 2^44 = maxAlloc / 16`, the Go runtime's own limit for `make([]any, n)`) -/
def Fits : Val → Prop
  | .str s => (s.length : Int) < makeLimit
  | .arr _ a => (a.length : Int) ≤ makeLimit
  | .obj kvs => (kvs.length : Int) ≤ makeLimit
  | _ => True

/-- a fitting value meets the string bound of the `split` mirrors -/
theorem Fits.str {v : Val} (h : Fits v) : StrGo.StrFits v := by
  intro s hs; subst hs; exact h
/-- a fitting value meets the member-count bound of `keys` / `values` / `items` -/
theorem Fits.obj {v : Val} (h : Fits v) : ObjGo.ObjFits v := by
  intro kvs hs; subst hs; exact h
/-- a fitting value meets the element-count bound of the array mirrors that allocate -/
theorem Fits.arr {v : Val} (h : Fits v) : ∀ t a, v = .arr t a → (a.length : Int) ≤ makeLimit := by
  intro t a hs; subst hs; exact h
/-- a fitting value meets the bounds of the `sliceStep` mirror -/
theorem Fits.sizeOK {v : Val} (h : Fits v) : SliceGo.SizeOK v := by
  cases v with
  | str s => simp only [Fits] at h; unfold makeLimit at h; simp only [SliceGo.SizeOK]; omega
  | arr t a => exact h
  | _ => exact True.intro

example : Fits (.str [0x61, 0x62]) := by simp [Fits, makeLimit]
example : Fits (.arr .plain [.null]) := by simp [Fits, makeLimit]
example : Fits .null := trivial
example : StrGo.StrFits (.str [0x61]) := Fits.str (v := .str [0x61]) (by simp [Fits, makeLimit])
example : SliceGo.SizeOK (.arr .plain [.null]) := Fits.sizeOK (v := .arr .plain [.null]) (by simp [Fits, makeLimit])

/-! ## 1. string.go -/

/-- **`find_first(s, p)`** (string.go:30): `s[:r]` never panics — the checked mirror is the model function -/
theorem findFirst_checked (value sub : Val) : StrGo.findC false value sub = findFirst value sub :=
  StrGo.findFirstC_eq value sub
/-- **`find_last(s, p)`** (string.go:243) -/
theorem findLast_checked (value sub : Val) : StrGo.findC true value sub = findLast value sub :=
  StrGo.findLastC_eq value sub
/-- **`find_first(s, p, start)`, `find_last(s, p, start)`** (string.go:177, :390): the rune-offset loop's `s[n:]`,
    then `s[i:]` and `s[:r+i]`, never panic — for every integer `start` and every byte string -/
theorem findFrom_checked (last : Bool) (value sub start : Val) :
    StrGo.findFromC last value sub start = findFrom last value sub start :=
  StrGo.findFromC_eq last value sub start
/-- **`find_first(s, p, start, end)`, `find_last(s, p, start, end)`** (string.go:60, :273): `s[n:]` in both offset
    loops, `s[i:j]`, `s[:r+i]` never panic — for all integers `start`, `end` (also `start > end`) and all bytes.
    Rests on the guard `if i > j` (string.go:164/:377), see `guard_findBetween`. -/
theorem findBetween_checked (last : Bool) (value sub start finish : Val) :
    StrGo.findBetweenC last value sub start finish = findBetween last value sub start finish :=
  StrGo.findBetweenC_eq last value sub start finish
/-- **`split(s, sep)`** (string.go:828): `make([]any, n+1)`, `r[i] = s[:l]`, `s = s[l:]`, `r[i] = s[:j]`,
    `s = s[j+len(p):]`, `r[i] = s`, `r[:i+1]` never panic -/
theorem split_checked (value sep : Val) (hfit : Fits value) : StrGo.splitC value sep = split value sep :=
  StrGo.splitC_eq value sep hfit.str
/-- **`split(s, sep, n)`** (string.go:884): the same for EVERY integer `n` (negative, 0, 2^63-1);
    rests on the clamps `if c := …; n > c { n = c }` (string.go:938/:956), see `guard_splitCount_clamp` -/
theorem splitCount_checked (value sep count : Val) (hfit : Fits value) :
    StrGo.splitCountC value sep count = splitCount value sep count :=
  StrGo.splitCountC_eq value sep count hfit.str
/-- **`join(sep, a)`** (string.go:456): `a[0]`, `a[1:]` -/
theorem join_checked (sep value : Val) : ArrGo.joinC sep value = join sep value := ArrGo.joinC_eq sep value

example : StrGo.findBetweenC false (.str [0x61, 0x62, 0x61]) (.str [0x61]) (.num (.int .i64 2)) (.num (.int .i64 1))
    = .ok .null := rfl
example : StrGo.splitCountC (.str [0x61, 0x2C, 0x62]) (.str [0x2C]) (.num (.int .i64 (2 ^ 63 - 1)))
    = .ok (.arr .plain [.str [0x61], .str [0x62]]) := rfl

/-! ## 2. slice.go, `index` -/

/-- **`a[i]`** (array.go:564 `index`) for every integer -/
theorem index_checked (v : Val) (i : Int) : SliceGo.indexC v i = index v i := SliceGo.indexC_eq v i
/-- **`x[start:stop]`** (slice.go:22): `a[start:stop]`; `s = s[sz:]`, `s[idx:]`, `s[:idx]` on strings — all integers,
    all bytes -/
theorem slice_checked (v : Val) (start stop : Int) : SliceGo.sliceC v start stop = slice v start stop :=
  SliceGo.sliceC_eq v start stop
/-- **`x[start:stop:step]`** (slice.go:93): `c / step`, `c % step`, `make([]any, n)`, `r[i] = a[j]`, `b.Grow(n)`, the
    four rune loops (`s = s[sz:]`, `s = s[:len(s)-sz]`) — all `start`, `stop`, every non-zero 64-bit `step` -/
theorem sliceStep_checked (v : Val) (start stop step : Int) (hs : step ≠ 0) (hmin : -2 ^ 63 ≤ step) (hfit : Fits v) :
    SliceGo.sliceStepC v start stop step = sliceStep v start stop step :=
  SliceGo.sliceStepC_eq v start stop step hs hmin hfit.sizeOK

example : SliceGo.sliceC (.str [0x61, 0xC3, 0xA9, 0xFF, 0x62]) 1 3 = .ok (.str [0xC3, 0xA9, 0xFF]) := rfl
example : SliceGo.indexC (.arr .plain [.bool true]) (-(2 ^ 63)) = .ok .null := rfl

/-! ## 3. array.go, functions.go, object.go, compare.go, evaluator.go (zip, multi-select) -/

/-- **`max(a)`**, **`min(a)`**, **`sort(a)`** (array.go:421, :477, :615): `a[0]`, `a[1:]` -/
theorem arrayMax_checked (v : Val) : ArrGo.arrayMaxC v = arrayMax v := ArrGo.arrayMaxC_eq v
/-- `min(a)` (array.go:477): `a[0]`, `a[1:]` behind `len(a) == 0` -/
theorem arrayMin_checked (v : Val) : ArrGo.arrayMinC v = arrayMin v := ArrGo.arrayMinC_eq v
/-- `sort(a)` (array.go:615): `a[0]`, `a[1:]` behind `len(a) == 0` -/
theorem sortArray_checked (v : Val) : ArrGo.sortArrayC v = sortArray v := ArrGo.sortArrayC_eq v
/-- **`pruneArray`** (array.go:582, `a[:i]`) and **`flatten`** (array.go:533) -/
theorem pruneArray_checked (v : Val) : ArrGo.pruneArrayC v = .ok (pruneArray v) := ArrGo.pruneArrayC_eq v
/-- `flatten` (array.go:533): only `make([]any, 0, len(a))` -/
theorem flatten_checked (v : Val) (hfit : Fits v) : ArrGo.flattenC v = .ok (flatten v) :=
  ArrGo.flattenC_eq v hfit.arr
/-- **`map(&f, a)`**, **`max_by`**, **`min_by`**, **`sort_by`**, **`group_by`** (array.go:255, :13, :88, :336,
    object.go:9) for every sub-expression `f`: `make`, `r[i] = p`, `a[0]`, `a[1:]`, `a[index]`, `by[i+1] = …`, and the
    UNCHECKED type assertion `r[s].([]any)` of `groupBy` never panic -/
theorem mapArray_checked (f : Val → Res Val) (v : Val) (hfit : Fits v) : ArrGo.mapArrayC f v = mapArray f v :=
  ArrGo.mapArrayC_eq f v hfit.arr
/-- `max_by(a, &f)` (array.go:13): `a[0]`, `a[1:]`, `a[index]` with `index = i + 1` from the range over `a[1:]` -/
theorem arrayMaxBy_checked (f : Val → Res Val) (v : Val) : ArrGo.arrayMaxByC f v = arrayMaxBy f v :=
  ArrGo.arrayMaxByC_eq f v
/-- `min_by(a, &f)` (array.go:88) -/
theorem arrayMinBy_checked (f : Val → Res Val) (v : Val) : ArrGo.arrayMinByC f v = arrayMinBy f v :=
  ArrGo.arrayMinByC_eq f v
/-- `sort_by(a, &f)` (array.go:336): `a[0]`, `make(…, len(a))`, `by[0] = …`, `a[1:]`, `by[i+1] = …` -/
theorem sortArrayBy_checked (f : Val → Res Val) (v : Val) (hfit : Fits v) :
    ArrGo.sortArrayByC f v = sortArrayBy f v :=
  ArrGo.sortArrayByC_eq f v hfit.arr
/-- `group_by(a, &f)` (object.go:9): the unchecked `r[s].([]any)` never fails — the map only holds `[]any` -/
theorem groupBy_checked (f : Val → Res Val) (v : Val) : ArrGo.groupByC f v = groupBy f v := ArrGo.groupByC_eq f v
/-- **`reverse(x)`** (functions.go:91): `b.Grow(len(s))`, `s = s[:len(s)-sz]`; `make([]any, l)`, `r[j] = a[i]` -/
theorem reverse_checked (v : Val) (hfit : Fits v) : ArrGo.reverseC v = reverse v := ArrGo.reverseC_eq v hfit.arr
/-- **`to_number(s)`** (functions.go:13 `isJSONNumber`): every `s[i]` is behind its `i < len(s)` test -/
theorem isJSONNumber_checked (s : Bytes) : ArrGo.isJSONNumberC s = .ok (Json.isValidNumber s) :=
  ArrGo.isJSONNumberC_eq s
/-- `to_number(v)` (functions.go:129) through the checked `isJSONNumber` -/
theorem toNumber_checked (v : Val) : ArrGo.toNumberC v = .ok (toNumber v) := ArrGo.toNumberC_eq v
/-- **`from_items(a)`** (object.go:79): `ia[0]`, `ia[1]` behind `len(ia) != 2` -/
theorem fromItems_checked (v : Val) : ObjGo.fromItemsC v = fromItems v := ObjGo.fromItemsC_eq v
/-- **`keys`**, **`values`**, **`items`** (object.go:136, :173, :117): `make([]any, len(m))`, `r[i] = …` -/
theorem keys_checked (v : Val) (hfit : Fits v) : ObjGo.keysC v = keys v := ObjGo.keysC_eq v hfit.obj
/-- `values(obj)` (object.go:173) -/
theorem values_checked (v : Val) (hfit : Fits v) : ObjGo.valuesC v = values v := ObjGo.valuesC_eq v hfit.obj
/-- `items(obj)` (object.go:117) -/
theorem items_checked (v : Val) (hfit : Fits v) : ObjGo.itemsC v = items v := ObjGo.itemsC_eq v hfit.obj
/-- **`==` on arrays** (compare.go:65): `y[i]` behind `len(x) != len(y)` -/
theorem equalArr_checked (xs ys : List Val) : ObjGo.equalArrG true equal xs ys = .ok (equalL xs ys) :=
  ObjGo.equalArrC_eq xs ys
/-- **multi-select list** (evaluator.go:728-754): `make([]any, len(node.Fields))`, `results[i] = result` -/
theorem selectList_checked (root : Val) (ns : List INode) (cur : Val) (env : Env)
    (hfit : (ns.length : Int) ≤ makeLimit) :
    ObjGo.fillC (fun n => ieval root n cur env) ns = ievalList root ns cur env :=
  ObjGo.selectListC_eq root ns cur env hfit
/-- **`zip(a, b, …)`** (evaluator.go:1046-1080) as a node: `make([][]any, …)`, `values[i] = a`, `make([]any, count)` with
    `count` starting at `math.MaxInt`, `result[j] = value[i]`, `results[i] = result` never panic, provided the node has
    an argument — which `ArrGo.parse_zip_nonempty` proves of every parsed expression -/
theorem zip_checked (root : Val) (args : List INode) (cur : Val) (env : Env) (vs : List Val)
    (hne : ArrGo.zipHead (.zip args) = true) (hvs : ievalZip root args cur env = .ok vs)
    (hargs : (args.length : Int) ≤ makeLimitOf 24) (hfit : ∀ v ∈ vs, Fits v) :
    ieval root (.zip args) cur env = ArrGo.zipC vs :=
  ArrGo.zip_node_checked root args cur env vs hne hvs hargs (fun _ _ h => hfit _ h)
/-- **`zip(a, b, …)` as Go runs it** (evaluator.go:1046-1080): `make([][]any, len(node.Arguments))` FIRST, then the
    arguments are evaluated inside the loop between the writes `values[i] = a`.  In every case — all arguments
    evaluate, argument `k` fails after `k` writes, argument `k` is not an array — the checked mirror is the model's
    evaluation of the node: nothing panics. -/
theorem zipNode_checked (root : Val) (args : List INode) (cur : Val) (env : Env)
    (hne : ArrGo.zipHead (.zip args) = true) (hargs : (args.length : Int) ≤ makeLimitOf 24)
    (hfit : ∀ vs, ievalZip root args cur env = .ok vs → ∀ v ∈ vs, Fits v) :
    ArrGo.zipNodeC (fun n => ieval root n cur env) args = ieval root (.zip args) cur env :=
  ArrGo.zipNodeC_eq root args cur env hne hargs (fun vs h _ _ hm => hfit vs h _ hm)
/-- **multi-select list nodes as Go runs them** (evaluator.go:718-754): the `child == nil` / `current == nil` return
    comes before `make([]any, len(node.Fields))` -/
theorem selectArray_checked (root : Val) (c : INode) (fs : List INode) (cur : Val) (env : Env)
    (hfit : (fs.length : Int) ≤ makeLimit) :
    ObjGo.selectArrayC (fun n v => ieval root n v env) c fs cur = ieval root (.selectArray c fs) cur env :=
  ObjGo.selectArrayC_eq root c fs cur env hfit
/-- the child-less form -/
theorem selectArrayCurrent_checked (root : Val) (fs : List INode) (cur : Val) (env : Env)
    (hfit : (fs.length : Int) ≤ makeLimit) :
    ObjGo.selectArrayCurrentC (fun n v => ieval root n v env) fs cur = ieval root (.selectArrayCurrent fs) cur env :=
  ObjGo.selectArrayCurrentC_eq root fs cur env hfit
/-- every `zip` node of a compiled expression has at least one argument (parser.go:1349 rejects `zip()`) -/
theorem compile_zip_nonempty {expr : Bytes} {n : INode} (h : compile expr = .ok n) : n.all ArrGo.zipHead = true :=
  ArrGo.parse_zip_nonempty h

example : ArrGo.reverseC (.str [0x61, 0xFF, 0xC3, 0xA9]) = .ok (.str [0xC3, 0xA9, 0xEF, 0xBF, 0xBD, 0x61]) := rfl
example : ArrGo.arrayMaxC (.arr .plain []) = .ok .null := rfl
example : ArrGo.arrayMinC (.arr .plain [.str [0x62], .str [0x61]]) = .ok (.str [0x61]) := rfl
example : ArrGo.toNumberC (.str [0x2D]) = .ok .null := rfl
example : ObjGo.valuesC (.obj [([0x61], .bool true)]) = .ok (.arr .enum [.bool true]) := rfl
example : ObjGo.equalArrG true equal [.null] [.null, .null] = .ok false := rfl
example : ObjGo.fromItemsC (.arr .plain [.arr .plain [.str [0x61]]]) = errValue := rfl
/-- `zip()` cannot be written; if it could, `make([]any, math.MaxInt)` would panic -/
example : ArrGo.zipC [] = .panic makeMsg := rfl
/-- `zip(@, 'x')`: the second argument is not an array — an error after one write, not a panic -/
example : ArrGo.zipNodeC (fun n => ieval .null n (.arr .plain [.null]) []) [.current, .lit (.str [0x78])]
    = .err [Cat.invalidType] := rfl
example : ObjGo.selectArrayCurrentC (fun n v => ieval .null n v []) [.current] .null = .ok .null := rfl

/-! ## 4. the lexer (lexer.go), position based -/

/-- **`Lexer.decodeRune(pos)`** (lexer.go:396): `l.expression[pos:]` is in range for `0 ≤ pos ≤ len` -/
theorem decodeRune_checked (e : Bytes) (pos : Int) (h0 : 0 ≤ pos) (h1 : pos ≤ e.length) :
    LexGo.decodeRuneC e pos = .ok (lexDecode (e.drop pos.toNat)) :=
  LexGo.decodeRuneC_eq e pos h0 h1
/-- **`Lexer.Next`** (lexer.go:16): every `l.expression[pos:]` and `l.expression[start:next]` is in range; the token and
    the new position are the model's (`skipWsLex` then `lexToken` on the rest of the input) -/
theorem next_checked (e : Bytes) (pos : Int) (h0 : 0 ≤ pos) (h1 : pos ≤ e.length) :
    LexGo.NextC e pos = .ok (LexGo.liftE pos (LexGo.lexStep (e.drop pos.toNat))) :=
  LexGo.nextC_eq e pos h0 h1
/-- … and `Next` keeps the position within the expression, so the hypothesis holds at every call -/
theorem next_position (e : Bytes) (pos : Int) (h0 : 0 ≤ pos) (h1 : pos ≤ e.length) {t : Token} {pos' : Int}
    (h : LexGo.NextC e pos = .ok (.ok (t, pos'))) : pos ≤ pos' ∧ pos' ≤ e.length :=
  LexGo.nextC_position e pos h0 h1 h
/-- **the whole token stream**, for ANY byte string: pulling tokens with the checked `Next` from position 0 until the end
    token or an error never panics and yields the model's `lexAll` -/
theorem lexAll_checked (e : Bytes) : LexGo.lexAllC e (e.length + 1) 0 = .ok (lexAll e) := LexGo.lexAllC_eq e

example : LexGo.lexAllC [0x5B, 0x2A, 0x80] 4 0
    = .ok ([⟨.openSqBrace, [0x5B]⟩, ⟨.asterisk, [0x2A]⟩], some .invalidRune) := by rfl
example : LexGo.decodeRuneC [0x61, 0xC3] 3 = .panic sliceMsg := by rfl

/-! ## 5. the literal decoders of the parser (parser.go:2111-2336) -/

/-- **`parseStringLiteral`**, **`parseQuotedIdentifier`**, **`parseJSONLiteral`** on a token of at least two bytes:
    `s[1:len(s)-1]`, `v[0]`, `v[1:]`, `v[:i]`, `v[i+1:]`, `v[j]`, `v[1:5]`, `v[5:]`, `v[1]`, `v[2:6]`, `v[6:]` never panic -/
theorem parseStringLiteral_checked (s : Bytes) (h : 2 ≤ s.length) :
    LitGo.parseStringLiteralC s = .ok (parseStringLiteral s) := LitGo.parseStringLiteralC_eq s h
/-- `parseQuotedIdentifier` (parser.go:2187) on a token of at least two bytes -/
theorem parseQuotedIdentifier_checked (s : Bytes) (h : 2 ≤ s.length) :
    LitGo.parseQuotedIdentifierC s = .ok (parseQuotedIdentifier s) := LitGo.parseQuotedIdentifierC_eq s h
/-- `parseJSONLiteral` (parser.go:2111) on a token of at least two bytes: `s[1:len(s)-1]`, `v[0]` behind `len(v) == 0` -/
theorem parseJSONLiteral_checked (s : Bytes) (h : 2 ≤ s.length) :
    LitGo.parseJSONLiteralC s = .ok (parseJSONLiteral s) := LitGo.parseJSONLiteralC_eq s h
/-- **on lexer output the hypothesis holds**: for every token of every expression (arbitrary bytes) the three decoders
    succeed with the model's result on the token types they are called on -/
theorem literal_decoders_checked (e : Bytes) (t : Token) (h : t ∈ (lexAll e).1) :
    (t.type = .stringLiteral → LitGo.parseStringLiteralC t.value = .ok (parseStringLiteral t.value)) ∧
    (t.type = .quotedIdentifier → LitGo.parseQuotedIdentifierC t.value = .ok (parseQuotedIdentifier t.value)) ∧
    (t.type = .jsonLiteral → LitGo.parseJSONLiteralC t.value = .ok (parseJSONLiteral t.value)) :=
  LitGo.literal_decoders_no_panic e t h

/-- a lone quote is not a token of the lexer; on it `s[1:len(s)-1]` panics -/
example : LitGo.parseStringLiteralC [0x27] = .panic sliceMsg := rfl
example : LitGo.parseStringLiteralC [0x27, 0x61, 0x27] = .ok [0x61] := rfl
example : LitGo.parseQuotedIdentifierC [0x22, 0x61, 0x22] = .ok (some [0x61]) := rfl

/-! ## 6. the builtin dispatch: `node.Arguments[k]` and the checked builtins together -/

/-- `applyFn` with (a) every builtin that has an indexing / slicing / allocation site replaced by its checked mirror and
    (b) the wrong-arity arm answering the PANIC that `node.Arguments[k]` (evaluator.go, 64 sites) would raise -/
def applyFnC (f : Fn) (args : List Val) : Res Val :=
  match f, args with
  | .findFirst, [a, b] => StrGo.findC false a b
  | .findLast, [a, b] => StrGo.findC true a b
  | .findFirstFrom, [a, b, c] => StrGo.findFromC false a b c
  | .findLastFrom, [a, b, c] => StrGo.findFromC true a b c
  | .findFirstBetween, [a, b, c, d] => StrGo.findBetweenC false a b c d
  | .findLastBetween, [a, b, c, d] => StrGo.findBetweenC true a b c d
  | .split, [a, b] => StrGo.splitC a b
  | .splitCount, [a, b, c] => StrGo.splitCountC a b c
  | .join, [a, b] => ArrGo.joinC a b
  | .max, [a] => ArrGo.arrayMaxC a
  | .min, [a] => ArrGo.arrayMinC a
  | .sort, [a] => ArrGo.sortArrayC a
  | .reverse, [a] => ArrGo.reverseC a
  | .toNumber, [a] => ArrGo.toNumberC a
  | .fromItems, [a] => ObjGo.fromItemsC a
  | .keys, [a] => ObjGo.keysC a
  | .values, [a] => ObjGo.valuesC a
  | .items, [a] => ObjGo.itemsC a
  | f, args => if args.length = fnArity f then applyFn f args else .panic idxMsg

/-- **the checked dispatch is the model's dispatch** on an argument list of the builtin's arity whose members fit -/
theorem applyFnC_eq (f : Fn) (args : List Val) (h : args.length = fnArity f) (hfit : ∀ a ∈ args, Fits a) :
    applyFnC f args = applyFn f args := by
  cases f <;>
    (rcases args with _ | ⟨a, _ | ⟨b, _ | ⟨c, _ | ⟨d, _ | ⟨e, r⟩⟩⟩⟩⟩ <;>
      first
      | (simp only [fnArity, List.length_cons, List.length_nil] at h; omega)
      | exact StrGo.findFirstC_eq _ _
      | exact StrGo.findLastC_eq _ _
      | exact StrGo.findFromC_eq _ _ _ _
      | exact StrGo.findBetweenC_eq _ _ _ _ _
      | exact StrGo.splitC_eq _ _ (hfit _ (by simp)).str
      | exact StrGo.splitCountC_eq _ _ _ (hfit _ (by simp)).str
      | exact ArrGo.joinC_eq _ _
      | exact ArrGo.arrayMaxC_eq _
      | exact ArrGo.arrayMinC_eq _
      | exact ArrGo.sortArrayC_eq _
      | exact ArrGo.reverseC_eq _ (hfit _ (by simp)).arr
      | exact ArrGo.toNumberC_eq _
      | exact ObjGo.fromItemsC_eq _
      | exact ObjGo.keysC_eq _ (hfit _ (by simp)).obj
      | exact ObjGo.valuesC_eq _ (hfit _ (by simp)).obj
      | exact ObjGo.itemsC_eq _ (hfit _ (by simp)).obj
      | rfl)

/-- **a call node of a compiled expression never reaches `node.Arguments[k]` out of range and none of its builtin's
    checks fires**: its evaluation is the checked dispatch on the evaluated arguments (`ArityOK` holds of every compiled
    expression: `C08B.compile_arityOK`) -/
theorem call_checked (root : Val) (f : Fn) (args : List INode) (cur : Val) (env : Env)
    (h : (INode.call f args).ArityOK = true) (vs : List Val) (hvs : ievalList root args cur env = .ok vs)
    (hfit : ∀ a ∈ vs, Fits a) :
    ieval root (.call f args) cur env = applyFnC f vs := by
  have hl : args.length = fnArity f := by
    simp only [INode.ArityOK, INode.all, INode.arityHead, Bool.and_eq_true, beq_iff_eq] at h
    exact h.1
  have hvl : vs.length = fnArity f := by rw [C08B.ievalList_length root args cur env vs hvs, hl]
  rw [C08B.call_never_default root f args cur env h, hvs]
  show C08B.applyFnStrict f vs = _
  rw [← C08B.applyFn_eq_strict f vs hvl, applyFnC_eq f vs hvl hfit]

/-- the checked dispatch never panics on fitting arguments of the right count (from `C03.applyFn_no_panic`) -/
theorem applyFnC_no_panic (f : Fn) (args : List Val) (h : args.length = fnArity f) (hfit : ∀ a ∈ args, Fits a) :
    NoPanic (applyFnC f args) := by
  rw [applyFnC_eq f args h hfit]; exact C03.applyFn_no_panic f args

example : applyFnC .findFirst [.str [0x61, 0x62], .str [0x62]] = .ok (.num (.int .i64 1)) := rfl
/-- a call with too few arguments (which the parser never builds) is a panic of the checked dispatch, as in Go -/
example : applyFnC .findFirst [.str [0x61]] = .panic idxMsg := rfl
example : applyFnC .abs [] = .panic idxMsg := rfl

/-! ## 7. guard deletions: each of these Go guards is load-bearing for the theorems above -/

/-- string.go:164 / :377 `if i > j { return nil, nil }` — without it `find_first('aba', 'a', `2`, `1`)` panics at
    `s[2:1]` (a past defect of the library) -/
theorem guard_findBetween :
    StrGo.findBetweenG false false (.str [0x61, 0x62, 0x61]) (.str [0x61]) (.num (.int .i64 2)) (.num (.int .i64 1))
      = .panic sliceMsg ∧
    StrGo.findBetweenG false true (.str [0x61, 0x62, 0x61]) (.str [0x61]) (.num (.int .i64 3)) (.num (.int .i64 0))
      = .panic sliceMsg := ⟨rfl, rfl⟩
/-- string.go:845 / :933 `if len(s) == 0` — without it `split('', '')` panics at `r[0] = s` on an empty slice -/
theorem guard_split_empty :
    StrGo.splitG false (.str []) (.str []) = .panic idxMsg ∧
    StrGo.splitCountG false true (.str []) (.str []) (.num (.int .i64 1)) = .panic idxMsg := ⟨rfl, rfl⟩
/-- string.go:938 / :956 `if c := …; n > c { n = c }` — without it `split('a,b', ',', `9223372036854775807`)` panics in
    `make([]any, n+1)` ("split with a huge count") -/
theorem guard_splitCount_clamp :
    StrGo.splitCountG true false (.str [0x61, 0x2C, 0x62]) (.str [0x2C]) (.num (.int .i64 (2 ^ 63 - 1))) = .panic makeMsg ∧
    StrGo.splitCountG true false (.str [0x61, 0x2C, 0x62]) (.str [0x2C]) (.num (.int .i64 (10 ^ 15))) = .panic makeMsg :=
  ⟨rfl, rfl⟩
/-- slice.go:46 `if start >= stop` — without it `[2:1]` on a 3-element array panics at `a[2:1]` -/
theorem guard_slice_cmp :
    SliceGo.sliceArrG false .plain SliceGo.abc 2 1 = .panic sliceMsg := rfl
/-- the same guards are load-bearing on MAP-ORDERED arrays (`values(@)[3]`, `values(@)[2:1]`, `values(@)[5::-1]` on an
    object of three members): the mirrors check the bound before they consult the model's nondeterminism marker -/
theorem guard_map_ordered :
    SliceGo.indexG true false (.arr .enum SliceGo.abc) 3 = .panic idxMsg ∧
    SliceGo.indexG false true (.arr .enum SliceGo.abc) (-4) = .panic idxMsg ∧
    SliceGo.sliceArrG false .enum SliceGo.abc 2 1 = .panic sliceMsg ∧
    SliceGo.sliceStepArrG false true .enum SliceGo.abc 2 0 2 = .panic makeMsg ∧
    SliceGo.sliceStepArrG true false .enum SliceGo.abc 5 (-(2 ^ 63)) (-1) = .panic idxMsg ∧
    ArrGo.indexC (.arr .enum SliceGo.abc) 3 (hiGuard := false) = .panic idxMsg :=
  ⟨rfl, rfl, rfl, rfl, rfl, rfl⟩
/-- object.go:98 `if len(ia) != 2` — without it `from_items([[]])` panics at `ia[0]` -/
theorem guard_fromItems_len : ObjGo.fromItemsG false (.arr .plain [.arr .plain []]) = .panic idxMsg := rfl
/-- compare.go:67 `if len(x) != len(y)` — without it `` `[true, null]` == `[true]` `` panics at `y[1]` -/
theorem guard_equal_len : ObjGo.equalArrG false equal [.bool true, .null] [.bool true] = .panic idxMsg := rfl
/-- array.go:430 `if len(a) == 0` — without it `max([])` panics at `a[0]` -/
theorem guard_max_empty : ArrGo.arrayMaxC (.arr .plain []) (lenGuard := false) = .panic idxMsg := rfl
/-- functions.go:19 (end test after the sign) — without it `to_number('-')` panics at `s[1]` -/
theorem guard_isJSONNumber_end : ArrGo.isJSONNumberC [0x2D] (endGuard := false) = .panic idxMsg := rfl

end Jmes.C03D
