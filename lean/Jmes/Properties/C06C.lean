/-
  C06, strengthened — a call is a pure function of the data it is given and modifies nothing that existed before it,
  with calls that are STRATEGIES (deterministic programs `Prog V R`, see `Jmes/Proofs/C07BLemmas.lean`), not operation
  lists fixed in advance.  Abstract heap machine, core Lean only, no Jmes model import.

  A call is a program together with a step bound (`Call`); `runCalls g cs` runs the calls one after the other, each to
  its bound, each on the heap the previous one left (`runCalls` mentions no discipline and no "fresh" run: it is the
  plain sequential semantics).

  Modelling choice (as in C07B): an allocation names the cell it obtains, so one Go call made twice is two programs
  that differ only in the cells they allocate (`calls3` below: the first and the third call).

  The only hypothesis about a call is about its run ALONE on the ORIGINAL heap `h`:
  `Disciplined h p` — run first, on `h`, the program writes only cells it allocated itself and reads only cells of
  `Dom h` (the caller's documents INCLUDING the spare capacity behind its slices — just more cells of `Dom h` — and the
  compiled expression) or cells it allocated itself.  Nothing is assumed about how it behaves on the heaps it actually
  meets later in the sequence: that is the conclusion.

  `disciplined_transfer`        disciplined from `h` ⇒ disciplined from every heap that agrees with `h` on `Dom h`
  `call_pure`                   the log and the result of a call depend only on the cells of its read-only footprint
  `calls_history_independent`   in every sequence of disciplined calls (any programs, any order, arbitrary other
                                disciplined calls in between) the k-th call has exactly the log of its run first on `h`
  `calls_results_eq`            … hence returns exactly what it returns when run first
  `calls_frame`                 after every call of the sequence the caller's data (`Dom h`) is unchanged
  `calls_never_write_shared`    … and no operation of any call stores into it
  `calls_results_kept`          the cells allocated by an earlier call are never accessed by a later call and keep their
                                content (needs: the allocator never hands a cell out twice, `Separate`)
  `call_frame`                  one call, relative to the heap it starts on: everything that existed is unchanged
  Non-vacuity: `ex_three_calls` (3 calls, the same program twice), and counterexamples with a hypothesis dropped:
  `cache_breaks` (a call that memoises in a global cell: the second call returns the first call's answer, and the
  caller's cell is changed), `append_breaks` (a call that appends into the caller's spare capacity).
-/
import Jmes.Proofs.C07BLemmas
namespace Jmes.C06C
open Jmes.C07 (Loc Heap Op upd Dom step Writes Accesses)
open Jmes.C07B

variable {V R : Type}

/-- a call: a program and the number of steps it is given (enough to finish, if it finishes) -/
structure Call (V R : Type) where
  prog : Prog V R
  steps : Nat

/-- run the calls one after the other; the list of states (heap, log) after each call -/
def runCalls (g : Heap V) : List (Call V R) → List (TS V)
  | [] => []
  | c :: cs => solo c.prog g c.steps :: runCalls (solo c.prog g c.steps).heap cs

/-! ## one call -/

/-- A program that is disciplined when run first on `h` is disciplined on every heap that agrees with `h` on the
    read-only footprint `P`: "disciplined from any heap that agrees with `h`" need not be assumed. -/
theorem disciplined_transfer {P : Loc → Prop} {h g : Heap V} {p : Prog V R} (hd : DisciplinedOn P h p)
    (hag : ∀ l, P l → g l = h l) : DisciplinedOn P g p := by
  intro n o hp
  have hl := (solo_congr hd hag n).1
  rw [hl] at hp ⊢
  exact hd n o hp

/-- **C06 (purity).**  The log of a call — the operations it issues and the values it reads — and its result are a
    function of the cells of its read-only footprint `P` alone: on any two heaps that agree on `P` (whatever else they
    contain: results of earlier calls, other documents, garbage) the call does exactly the same. -/
theorem call_pure {P : Loc → Prop} {h g : Heap V} {p : Prog V R} (hd : DisciplinedOn P h p)
    (hag : ∀ l, P l → g l = h l) (n : Nat) :
    (solo p g n).log = (solo p h n).log ∧ resultOf p (solo p g n).log = resultOf p (solo p h n).log := by
  have := (solo_congr hd hag n).1
  exact ⟨this, by rw [this]⟩

/-- **C06 (frame, one call).**  Relative to the heap the call starts on: every cell that existed before the call holds
    the same value after it (caller's data, spare capacity, compiled expression, earlier results alike). -/
theorem call_frame {g : Heap V} {p : Prog V R} (hd : Disciplined g p) (n : Nat) :
    ∀ l, Dom g l → (solo p g n).heap l = g l :=
  fun l hl => solo_frame hd n l hl

/-! ## sequences of calls -/

/-- **C06 (history independence).**  For every sequence of calls, each disciplined when run first on `h`: the k-th
    call, executed on whatever heap the k−1 calls before it left, has exactly the log of its run first on `h`. -/
theorem calls_history_independent {h : Heap V} : ∀ (cs : List (Call V R)) (g : Heap V),
    (∀ c ∈ cs, Disciplined h c.prog) → (∀ l, Dom h l → g l = h l) →
    (runCalls g cs).map TS.log = cs.map (fun c => (solo c.prog h c.steps).log)
  | [], _, _, _ => rfl
  | c :: cs, g, hd, hag => by
    have hc := hd c List.mem_cons_self
    obtain ⟨h1, _, h3⟩ := solo_congr hc hag c.steps
    simp only [runCalls, List.map_cons, h1]
    congr 1
    apply calls_history_independent cs _ (fun c' hc' => hd c' (List.mem_cons_of_mem _ hc'))
    intro l hl
    rw [h3 l (fun hm => solo_owned_notP hc _ l hm hl)]; exact hag l hl

/-- … in particular started on `h` itself -/
theorem calls_history_independent' {h : Heap V} (cs : List (Call V R)) (hd : ∀ c ∈ cs, Disciplined h c.prog) :
    (runCalls h cs).map TS.log = cs.map (fun c => (solo c.prog h c.steps).log) :=
  calls_history_independent cs h hd (fun _ _ => rfl)

/-- **C06 (same outcome as a fresh one-shot call).**  The k-th call returns what it returns when run first on `h`,
    regardless of what was called before. -/
theorem calls_results_eq {h : Heap V} (cs : List (Call V R)) (hd : ∀ c ∈ cs, Disciplined h c.prog) (k : Nat)
    (hk : k < cs.length) :
    ∃ s, (runCalls h cs)[k]? = some s ∧ s.log = (solo cs[k].prog h cs[k].steps).log ∧
      resultOf cs[k].prog s.log = resultOf cs[k].prog (solo cs[k].prog h cs[k].steps).log := by
  have hm := calls_history_independent' cs hd
  have hlen : (runCalls h cs).length = cs.length := by
    have := congrArg List.length hm; simpa using this
  have hk' : k < (runCalls h cs).length := by rw [hlen]; exact hk
  refine ⟨(runCalls h cs)[k], List.getElem?_eq_getElem hk', ?_⟩
  have : ((runCalls h cs).map TS.log)[k]? = (cs.map (fun c => (solo c.prog h c.steps).log))[k]? := by rw [hm]
  simp only [List.getElem?_map, List.getElem?_eq_getElem hk', List.getElem?_eq_getElem hk, Option.map_some,
    Option.some.injEq] at this
  exact ⟨this, by rw [this]⟩

/-- **C06 (frame, sequences).**  After EVERY call of the sequence the caller's data — every cell of `Dom h`, spare
    capacity included — holds what it held at the start. -/
theorem calls_frame {h : Heap V} : ∀ (cs : List (Call V R)) (g : Heap V),
    (∀ c ∈ cs, Disciplined h c.prog) → (∀ l, Dom h l → g l = h l) →
    ∀ s ∈ runCalls g cs, ∀ l, Dom h l → s.heap l = h l
  | [], _, _, _, _, hs, _, _ => by cases hs
  | c :: cs, g, hd, hag, s, hs, l, hl => by
    have hc := hd c List.mem_cons_self
    obtain ⟨_, _, h3⟩ := solo_congr hc hag c.steps
    have hag' : ∀ l, Dom h l → (solo c.prog g c.steps).heap l = h l := by
      intro l hl
      rw [h3 l (fun hm => solo_owned_notP hc _ l hm hl)]; exact hag l hl
    rcases List.mem_cons.mp hs with e | hs'
    · subst e; exact hag' l hl
    · exact calls_frame cs _ (fun c' hc' => hd c' (List.mem_cons_of_mem _ hc')) hag' s hs' l hl

/-- no operation of any call of the sequence stores into the caller's data: it is never written, not merely restored -/
theorem calls_never_write_shared {h : Heap V} (cs : List (Call V R)) (hd : ∀ c ∈ cs, Disciplined h c.prog)
    (k : Nat) (hk : k < cs.length) : ∃ s, (runCalls h cs)[k]? = some s ∧
      ∀ o ∈ opsOf s.log, ∀ l, Dom h l → ¬ Writes o l := by
  obtain ⟨s, hs, hlog, _⟩ := calls_results_eq cs hd k hk
  refine ⟨s, hs, ?_⟩
  intro o ho l hl hw
  rw [hlog] at ho
  have hc := hd cs[k] (List.getElem_mem hk)
  exact solo_owned_notP hc _ l ((solo_footprint hc _ o ho l).1 hw) hl

/-- cells that no call of the sequence allocates are left alone by the whole sequence -/
theorem calls_untouched {h : Heap V} : ∀ (cs : List (Call V R)) (g : Heap V),
    (∀ c ∈ cs, Disciplined h c.prog) → (∀ l, Dom h l → g l = h l) →
    ∀ s ∈ runCalls g cs, ∀ l, (∀ c ∈ cs, ∀ n, l ∉ owned (solo c.prog h n).log) → s.heap l = g l
  | [], _, _, _, _, hs, _, _ => by cases hs
  | c :: cs, g, hd, hag, s, hs, l, hl => by
    have hc := hd c List.mem_cons_self
    obtain ⟨_, _, h3⟩ := solo_congr hc hag c.steps
    have hag' : ∀ l, Dom h l → (solo c.prog g c.steps).heap l = h l := by
      intro l hl
      rw [h3 l (fun hm => solo_owned_notP hc _ l hm hl)]; exact hag l hl
    have hhead : (solo c.prog g c.steps).heap l = g l := h3 l (hl c List.mem_cons_self c.steps)
    rcases List.mem_cons.mp hs with e | hs'
    · subst e; exact hhead
    · rw [calls_untouched cs _ (fun c' hc' => hd c' (List.mem_cons_of_mem _ hc')) hag' s hs' l
        (fun c' hc' => hl c' (List.mem_cons_of_mem _ hc'))]
      exact hhead

/-- every state of the sequence carries the log of the corresponding solo run -/
theorem runCalls_mem {h : Heap V} : ∀ (cs : List (Call V R)) (g : Heap V),
    (∀ c ∈ cs, Disciplined h c.prog) → (∀ l, Dom h l → g l = h l) →
    ∀ s ∈ runCalls g cs, ∃ c ∈ cs, s.log = (solo c.prog h c.steps).log
  | [], _, _, _, _, hs => by cases hs
  | c :: cs, g, hd, hag, s, hs => by
    have hc := hd c List.mem_cons_self
    obtain ⟨h1, _, h3⟩ := solo_congr hc hag c.steps
    rcases List.mem_cons.mp hs with e | hs'
    · subst e; exact ⟨c, List.mem_cons_self, h1⟩
    · have hag' : ∀ l, Dom h l → (solo c.prog g c.steps).heap l = h l := by
        intro l hl
        rw [h3 l (fun hm => solo_owned_notP hc _ l hm hl)]; exact hag l hl
      obtain ⟨c', hc', e⟩ := runCalls_mem cs _ (fun c' hc' => hd c' (List.mem_cons_of_mem _ hc')) hag' s hs'
      exact ⟨c', List.mem_cons_of_mem _ hc', e⟩

/-- **C06 (earlier results stay valid).**  If the allocator never hands out a cell twice (`Separate`: the calls'
    allocations are pairwise disjoint), then for any earlier call (state `s1` after it) and any later call (state `s2`
    after it): no operation of the later call touches a cell the earlier call allocated, and each such cell holds after
    the later call exactly what it held when the earlier call returned. -/
theorem calls_results_kept {h : Heap V} : ∀ (cs : List (Call V R)) (g : Heap V),
    (∀ c ∈ cs, Disciplined h c.prog) → (∀ l, Dom h l → g l = h l) →
    cs.Pairwise (fun a b => Separate h a.prog b.prog) →
    (runCalls g cs).Pairwise (fun s1 s2 => ∀ l ∈ owned s1.log,
      s2.heap l = s1.heap l ∧ ∀ o ∈ opsOf s2.log, ¬ Accesses o l)
  | [], _, _, _, _ => List.Pairwise.nil
  | c :: cs, g, hd, hag, hsep => by
    have hc := hd c List.mem_cons_self
    have hd' : ∀ c' ∈ cs, Disciplined h c'.prog := fun c' hc' => hd c' (List.mem_cons_of_mem _ hc')
    obtain ⟨h1, _, h3⟩ := solo_congr hc hag c.steps
    have hag' : ∀ l, Dom h l → (solo c.prog g c.steps).heap l = h l := by
      intro l hl
      rw [h3 l (fun hm => solo_owned_notP hc _ l hm hl)]; exact hag l hl
    rw [List.pairwise_cons] at hsep
    simp only [runCalls, List.pairwise_cons]
    refine ⟨?_, calls_results_kept cs _ hd' hag' hsep.2⟩
    intro s2 hs2 l hl
    rw [h1] at hl
    have hfree : ∀ c' ∈ cs, ∀ n, l ∉ owned (solo c'.prog h n).log := fun c' hc' n => hsep.1 c' hc' c.steps n l hl
    refine ⟨calls_untouched cs _ hd' hag' s2 hs2 l hfree, ?_⟩
    intro o ho hacc
    obtain ⟨c', hc', e⟩ := runCalls_mem cs _ hd' hag' s2 hs2
    rw [e] at ho
    rcases (solo_footprint (hd' c' hc') _ o ho l).2 hacc with h4 | h4
    · exact solo_owned_notP hc _ l hl h4
    · exact hfree c' hc' _ h4

/-! ## examples -/

/-- caller's data: a 2-element slice at cells 0,1 with one cell of spare capacity at 2; cell 9 is a global -/
def h0 : Heap Nat := fun l => if l = 0 then some 10 else if l = 1 then some 20 else if l = 2 then some 0
  else if l = 9 then some 0 else none

/-- "max of cells `a`, `b`" into a fresh result cell; the operations issued depend on the data (cf. `C07B.maxProg`) -/
def maxProg (a b cell : Loc) : Prog Nat Nat := fun hist =>
  match hist with
  | [] => .op (.alloc cell 0)
  | [_] => .op (.read a)
  | [some x, _] => .op (.write cell x)
  | [_, some _, _] => .op (.read b)
  | [some y, _, some x, _] => if x < y then .op (.write cell y) else .op (.read cell)
  | [_, some y, _, some x, _] => if x < y then .op (.read cell) else .ret x
  | [some z, _, _, _, _, _] => .ret z
  | _ => .ret 0

/-- three calls: max(0,1) with result in cell 5, max(1,0) in cell 6, and the first one again with result in cell 7 -/
def calls3 : List (Call Nat Nat) := [⟨maxProg 0 1 5, 8⟩, ⟨maxProg 1 0 6, 8⟩, ⟨maxProg 0 1 7, 8⟩]

theorem calls3_disciplined : ∀ c ∈ calls3, Disciplined h0 c.prog := by
  intro c hc
  simp only [calls3, List.mem_cons, List.not_mem_nil, or_false] at hc
  rcases hc with e | e | e <;> subst e
  · exact disciplined_of_check 6 (by decide)
  · exact disciplined_of_check 5 (by decide)
  · exact disciplined_of_check 6 (by decide)

theorem calls3_separate : calls3.Pairwise (fun a b => Separate h0 a.prog b.prog) := by
  simp only [calls3, List.pairwise_cons, List.mem_cons, List.not_mem_nil, or_false, forall_eq_or_imp, forall_eq,
    false_imp_iff, implies_true, List.Pairwise.nil, and_true]
  exact ⟨⟨separate_of_final 6 5 (by decide) (by decide) (by decide),
    separate_of_final 6 6 (by decide) (by decide) (by decide)⟩,
    separate_of_final 5 6 (by decide) (by decide) (by decide)⟩

/-- all three calls return 20, the third exactly as the first -/
theorem ex_three_calls :
    (runCalls h0 calls3).map (fun s => s.log) = calls3.map (fun c => (solo c.prog h0 c.steps).log) ∧
    (runCalls h0 calls3).map (fun s => obs s.log) =
      [[some 20, none, some 20, none, some 10, none], [some 20, some 10, none, some 20, none],
       [some 20, none, some 20, none, some 10, none]] :=
  ⟨calls_history_independent' calls3 calls3_disciplined, by decide⟩

example : ∀ s ∈ runCalls h0 calls3, s.heap 2 = some 0 :=
  fun s hs => calls_frame calls3 h0 calls3_disciplined (fun _ _ => rfl) s hs 2 (by simp [Dom, h0])

example : (runCalls h0 calls3).Pairwise (fun s1 s2 => ∀ l ∈ owned s1.log,
    s2.heap l = s1.heap l ∧ ∀ o ∈ opsOf s2.log, ¬ Accesses o l) :=
  calls_results_kept calls3 h0 calls3_disciplined (fun _ _ => rfl) calls3_separate

/-- the result cell of the first call (cell 5) still holds 20 after the third call -/
example : (runCalls h0 calls3).map (fun s => s.heap 5) = [some 20, some 20, some 20] := by decide

/-- a heap with the same caller data but cluttered with other things (cells 5, 6, 7 in use) -/
def h0' : Heap Nat := fun l => if l = 5 ∨ l = 6 ∨ l = 7 then some 99 else h0 l

theorem h0'_agrees : ∀ l, Dom h0 l → h0' l = h0 l := by
  intro l hl
  unfold h0'
  split
  · next hc =>
    exfalso; apply hl
    rcases hc with e | e | e <;> subst e <;> rfl
  · rfl

/-- the call does the same on the cluttered heap, and is disciplined there too -/
example : (solo (maxProg 0 1 5) h0' 8).log = (solo (maxProg 0 1 5) h0 8).log :=
  (call_pure (disciplined_of_check 6 (by decide)) h0'_agrees 8).1

example : DisciplinedOn (Dom h0) h0' (maxProg 0 1 5) :=
  disciplined_transfer (disciplined_of_check 6 (by decide)) h0'_agrees

example : (solo (maxProg 0 1 5) h0 8).heap 2 = some 0 :=
  (call_frame (disciplined_of_check 6 (by decide)) 8 2 (by unfold Dom; decide)).trans (by decide)

/-- the third call returns 20, as when run first -/
example : ∃ s, (runCalls h0 calls3)[2]? = some s ∧ resultOf (maxProg 0 1 7) s.log = some 20 := by
  obtain ⟨s, hs, _, hr⟩ := calls_results_eq calls3 calls3_disciplined 2 (by decide)
  exact ⟨s, hs, hr.trans (by decide)⟩

example : ∃ s, (runCalls h0 calls3)[1]? = some s ∧ ∀ o ∈ opsOf s.log, ∀ l, Dom h0 l → ¬ Writes o l :=
  calls_never_write_shared calls3 calls3_disciplined 1 (by decide)

/-! ## each hypothesis is needed -/

/-- a "search of document cell `d`" that memoises its answer in the GLOBAL cell 9 (0 = empty) -/
def cacheProg (d : Loc) : Prog Nat Nat := fun hist =>
  match hist with
  | [] => .op (.read 9)
  | [some 0] => .op (.read d)
  | [some v, some 0] => .op (.write 9 (v + 1))
  | [_, some v, some 0] => .ret v
  | [some c] => .ret (c - 1)
  | _ => .ret 0

/-- **Counterexample (a call that caches in a global cell).**  It is not disciplined; run first on `h0` the search of
    document 1 returns 20, but as the second call, after a search of document 0, it returns 10 — the first call's
    answer — and the global cell of `Dom h0` has been changed. -/
theorem cache_breaks :
    ¬ Disciplined h0 (cacheProg 0) ∧
    resultOf (cacheProg 1) (solo (cacheProg 1) h0 4).log = some 20 ∧
    (runCalls h0 [⟨cacheProg 0, 4⟩, ⟨cacheProg 1, 4⟩]).map (fun s => resultOf (cacheProg 1) s.log) =
      [some 10, some 10] ∧
    (runCalls h0 [⟨cacheProg 0, 4⟩, ⟨cacheProg 1, 4⟩]).map (fun s => s.heap 9) = [some 11, some 11] ∧
    h0 9 = some 0 := by
  refine ⟨?_, by decide, by decide, by decide, by decide⟩
  intro hd
  have := hd 2 (.write 9 11) (by decide)
  revert this
  show ¬ (9 ∈ owned (solo (cacheProg 0) h0 2).log)
  decide

/-- a call that appends into the caller's spare capacity (cell 2 of `Dom h0`) -/
def appendProg : Prog Nat Nat := fun hist =>
  match hist with
  | [] => .op (.write 2 7)
  | _ => .ret 0

/-- **Counterexample (append into caller memory).**  Not disciplined, and the caller's spare-capacity cell is changed. -/
theorem append_breaks : ¬ Disciplined h0 appendProg ∧ (solo appendProg h0 1).heap 2 = some 7 ∧ h0 2 = some 0 := by
  refine ⟨?_, by decide, by decide⟩
  intro hd
  have := hd 0 (.write 2 7) rfl
  revert this
  show ¬ (2 ∈ owned (solo appendProg h0 0).log)
  decide

end Jmes.C06C

