/-
  Property C14 — representation independence of numbers, third round.

  "For every document and expression, replacing each number by another Go representation of the same mathematical
  value (json.Number, int…, float32/float64 when the value is exactly representable, decimal) leaves every result equal
  in value, as long as all intermediate values are exactly representable in each representation."

  `C14` proved this helper by helper, `C14B` over expressions: unconditionally for float-free documents
  (`evaluate_congr_fragment`: everything but `/`, `to_string`, `sum`, `avg`, `sort`) and, with float leaves, for
  expressions without arithmetic operators.  This file closes the gaps a reviewer listed:

   1. **compiled expressions and expression text**: the literal conditions of `Tree.NoDiv` for what the parser produces
      (float-free: always; valued: unless a literal number is beyond decimal128's range — a counterexample shows the
      exception is real), a decidable check on the node, and the fragment theorems restated on `search e d`;
   2. **arithmetic `+ - * // %` with `float64`/`float32` leaves inside an expression** — the core case of the property.
      The proviso "all intermediate values exactly representable" is formalised for integers: `IntF k f` (the float holds
      an integer `< 2^k`).  Operator level: `arith_small_congr` (+ `arith_small_exact`: the result is again exactly
      representable).  Expression level: `evaluate_congr_float_arith` for the whole fragment `Tree.NoDiv`, for documents
      whose floats hold integers `< 2^B`, under the static bound `B · 2^(adepth) ≤ 53` (`adepth`: arithmetic depth along
      the flow of values; each level at most doubles the number of bits) — together with `evaluate_float_arith_exact`:
      under that bound every float produced anywhere in the run holds an integer `< 2^53`;
   3. **`sum`, `avg`** over arrays with float elements: `sum` has no float path, so no proviso at all; `avg` needs the final
      division to be exact;
   4. the nine measured divergent quotients `a / b` (inexact in binary64), recorded as excluded by the proviso.
-/
import Jmes.Proofs.C14CLemmasEval
import Jmes.Proofs.C14CFrag
namespace Jmes
namespace C14C
open C14 C14B

/-! ## 1. compiled expressions and expression text -/

/-- **The literals of a compiled expression are float-free** (`C05B`), so for a compiled node the fragment `Tree.NoDiv`
    reduces to a decidable check on the node: no `/`, no `to_string`/`sum`/`avg`/`sort`, every literal number converts to
    a decimal (`C14CFrag.fragNode0` at every sub-node). -/
theorem compiled_fragment_noDiv {e : Bytes} {n : INode} (hc : compile e = .ok n)
    (h : n.all C14CFrag.fragNode0 = true) : (desugar n).NoDiv :=
  C14CFrag.noDiv_of_compile hc h

example : ∀ n, compile C14CFrag.exText = .ok n → (desugar n).NoDiv :=
  fun n hc => compiled_fragment_noDiv hc (C14CFrag.exText_ok n hc)

/-- **What the parser guarantees about the numbers in literals**: each is a `json.Number` of the JSON grammar that
    converts to a finite decimal or that `decimal128.Parse` rejects with a range error (then `toDecimal` yields nothing
    and the literal is not a number for any operator). -/
theorem compiled_literals_valued_or_range {e : Bytes} {n : INode} (hc : compile e = .ok n) :
    n.all (INode.litOk C14CFrag.valuedOrRangeB) = true :=
  C14CFrag.compile_lits_valued_or_range hc

example : ∀ n, compile C14CFrag.exText = .ok n → n.all (INode.litOk C14CFrag.valuedOrRangeB) = true :=
  fun _ hc => compiled_literals_valued_or_range hc

/-- **COUNTEREXAMPLE to "every literal of a compiled expression is `Valued`"**: the text `` `1e7000` `` compiles to a
    literal that is not `Valued`; `Tree.NoDiv` and `Tree.NoArithF` fail for it.  (The literal is the same on both sides
    of a comparison of documents, so no representation dependence arises from it: the model and the Go program answer
    `` `1e7000` == a `` with `false`, `` `1e7000` + a `` with an invalid-type error and `` a < `1e7000` `` with `null`
    for `a = json.Number("1")`, `int64(1)`, `float64(1)` alike — see `C14CFrag`.) -/
theorem literal_out_of_range_not_valued :
    ∃ n v, compile C14CFrag.lit1e7000 = .ok n ∧ n = .lit v ∧ ¬ v.Valued ∧ ¬ (desugar n).NoDiv ∧
      ¬ (desugar n).NoArithF := by
  obtain ⟨n, v, h1, h2, h3, _, _, h6, h7, _⟩ := C14CFrag.lit_1e7000_not_valued
  exact ⟨n, v, h1, h2, h3, h6, h7⟩

/-- **`Search(text, document)` on float-free documents** that differ only in the Go types of their numbers: for every
    expression text whose compiled node passes the check, the same failure or results equal up to representation.
    (A text that does not compile fails identically on every document.) -/
theorem search_congr_fragment {e : Bytes} (he : ∀ n, compile e = .ok n → n.all C14CFrag.fragNode0 = true)
    {d d' : Val} (h : VR true d d') : RR (VR true) (search e d) (search e d') :=
  C14CFrag.search_congr_fragment he h

example : RR (VR true) (search C14CFrag.exText exDoc) (search C14CFrag.exText exDoc') :=
  search_congr_fragment C14CFrag.exText_ok exDoc_vr

/-- … with float leaves, for texts without arithmetic operators -/
theorem search_congr_fragment_float {e : Bytes} (he : ∀ n, compile e = .ok n → C14CFrag.fragOKF n = true)
    {d d' : Val} (h : VR false d d') : RR (VR false) (search e d) (search e d') :=
  C14CFrag.search_congr_fragment_float he h

example : RR (VR false) (search C14CFrag.exTextF exDocF) (search C14CFrag.exTextF exDocF') :=
  search_congr_fragment_float C14CFrag.exTextF_ok exDocF_vr

/-! ## 2. arithmetic on float leaves -/

/-- **`+ - * // %` on two pairs of operands of equal values**, in whatever mix of `float64`, `float32`, `json.Number`,
    decimal and integer kinds, **every float among the four holding an integer `< 2^K`, `2K ≤ 53`** (e.g. `K = 26`):
    the same error (`x // 0`, `x % 0`, a non-number operand), or results of the same value.  Operands that are not
    floats are not restricted at all (the decimal path rounds a value, not a spelling: `C14B`). -/
theorem arith_small_congr {op : BinOp} (hop : op ≠ .div) {K : Nat} (hK : 2 * K ≤ 53) {a a' b b' : Val}
    (ha : VR false a a') (hb : VR false b b') (fa : AllF (IntF K) a) (fa' : AllF (IntF K) a')
    (fb : AllF (IntF K) b) (fb' : AllF (IntF K) b') :
    RR (VR false) (applyBinOp op a b) (applyBinOp op a' b') :=
  applyBinOp_small_rr hop hK ha hb fa fa' fb fb'

/-- **… and the result is again exactly representable**: if it is a float, it holds an integer `< 2^(2K) ≤ 2^53` -/
theorem arith_small_exact {op : BinOp} (hop : op ≠ .div) {K : Nat} (hK : 2 * K ≤ 53) {a b w : Val}
    (fa : AllF (IntF K) a) (fb : AllF (IntF K) b) (h : applyBinOp op a b = .ok w) : AllF (IntF (2 * K)) w :=
  applyBinOp_small_fb hop hK fa fb h

/-- a float64 holding the integer `±v` -/
def fInt (n : Bool) (v : Nat) : Val := .num (.f64 (F64.mk n v 0))

/-- … its float holds an integer `< 2^k` as soon as `v < 2^k` -/
theorem allF_fInt {k : Nat} (n : Bool) (v : Nat) (h : v < 2 ^ k) : AllF (IntF k) (fInt n v) := by
  simp only [fInt, allF_f64]; exact ⟨n, v, h, rfl⟩

/-- a float64 holding `±v` (`v < 2^53`) is related to every well-formed number of that value -/
theorem vr_fInt {n : Bool} {v : Nat} (hv : v < 2 ^ 53) {b : Num} (hb : NumOK b)
    (hs : Num.SameValue (.f64 (F64.mk n v 0)) b) : VR false (fInt n v) (.num b) := by
  simp only [fInt, VR]
  exact ⟨hs, .inl ⟨fok_mk_int n v hv, hb⟩, fun e => by cases e⟩

-- -7 (float64) // 2 (float64)  vs  "-7" (json.Number) // 2 (uint8): the float -3 and a decimal of value -3
example : RR (VR false) (applyBinOp .idiv (fInt true 7) (fInt false 2))
    (applyBinOp .idiv (.num (.jnum [0x2D, 0x37])) (.num (.int .u8 2))) :=
  arith_small_congr (K := 26) (by decide) (by decide)
    (vr_fInt (by decide) trivial ⟨_, .fin true 7 0, rfl, by decide, by decide⟩)
    (vr_fInt (by decide) (by simp only [NumOK, IntKind.InRange]; decide) ⟨_, _, rfl, rfl, by decide⟩)
    (allF_fInt _ _ (by decide)) (by simp) (allF_fInt _ _ (by decide)) (by simp)
example : (match applyBinOp .idiv (fInt true 7) (fInt false 2),
      applyBinOp .idiv (.num (.jnum [0x2D, 0x37])) (.num (.int .u8 2)) with
    | .ok (.num (.f64 f)), .ok (.num (.dec d)) => f == F64.mk true 3 0 && Dec.cmp d (Dec.ofInt (-3)) == some 0
    | _, _ => false) = true := by decide
example : ∀ w, applyBinOp .mul (fInt true 7) (fInt false 2) = .ok w → AllF (IntF 52) w :=
  fun _ h => arith_small_exact (K := 26) (by decide) (by decide) (allF_fInt _ _ (by decide)) (allF_fInt _ _ (by decide)) h

/-- **Every intermediate value is exactly representable.**  For an expression of the fragment `Tree.NoDiv` evaluated on
    a document whose floats hold integers `< 2^B`, with `B · 2^(adepth) ≤ 53`: every float of the result holds an integer
    `< 2^(B · 2^adepth)` — and the same holds of every intermediate value (the statement applies to every
    sub-expression; it is the invariant of the induction, `seval_fb`). -/
theorem evaluate_float_arith_exact {n : INode} (hn : (desugar n).NoDiv) {B : Nat}
    (hb : B * 2 ^ adepth (desugar n) ≤ 53) {d w : Val} (hf : AllF (IntF B) d) (h : evaluate n d = .ok w) :
    AllF (IntF (B * 2 ^ adepth (desugar n))) w := by
  unfold evaluate at h
  rw [ieval_desugar] at h
  exact seval_fb B d hf (desugar n) d [] B hn (Nat.le_refl _) hb hf (fun _ _ hm => by cases hm) w h

/-- **Representation independence with float leaves and arithmetic** — the property's core case.  For every
    expression of the fragment `Tree.NoDiv` (everything but `/`, `to_string`, `sum`, `avg`, `sort`: `+ - * // %`,
    comparisons, projections, filters, slices, multi-selects, `let`, unary minus, `abs`/`ceil`/`floor`, `max`/`min`,
    `sort_by`/`max_by`/`min_by`/`group_by`, `map`, the string builtins …) and two documents that differ only in the Go
    types carrying their numbers — **`float64` and `float32` included, provided every float holds an integer `< 2^B`**
    and `B · 2^(adepth) ≤ 53` (which makes all intermediate values exactly representable,
    `evaluate_float_arith_exact`): the same failure, or results equal up to representation.
    Numbers that are not floats on either side are not restricted. -/
theorem evaluate_congr_float_arith {n : INode} (hn : (desugar n).NoDiv) {B : Nat}
    (hb : B * 2 ^ adepth (desugar n) ≤ 53) {d d' : Val} (h : VR false d d') (hf : AllF (IntF B) d)
    (hf' : AllF (IntF B) d') : RR (VR false) (evaluate n d) (evaluate n d') := by
  unfold evaluate
  rw [ieval_desugar, ieval_desugar]
  exact seval_rrq B h hf hf' (desugar n) hn B d d' [] []
    ⟨Nat.le_refl _, h, hf, hf', vrf_nil, (fun _ _ hm => by cases hm), (fun _ _ hm => by cases hm)⟩ hb

/-- … for `ieval` with arbitrary related current values and environments -/
theorem ieval_congr_float_arith {n : INode} (hn : (desugar n).NoDiv) {B : Nat}
    (hb : B * 2 ^ adepth (desugar n) ≤ 53) {root root' cur cur' : Val} {env env' : Env}
    (hr : VR false root root') (fr : AllF (IntF B) root) (fr' : AllF (IntF B) root')
    (hc : VR false cur cur') (fc : AllF (IntF B) cur) (fc' : AllF (IntF B) cur')
    (he : VRF false env env') (fe : EnvAF (IntF B) env) (fe' : EnvAF (IntF B) env') :
    RR (VR false) (ieval root n cur env) (ieval root' n cur' env') := by
  rw [ieval_desugar, ieval_desugar]
  exact seval_rrq B hr fr fr' (desugar n) hn B cur cur' env env' ⟨Nat.le_refl _, hc, fc, fc', he, fe, fe'⟩ hb

/-- **The property as stated** (documents given by `Val.Equiv`: same shape, numbers of the same value; all numbers
    well-formed Go values): the same error or results equal in value, or the same non-value outcome on both sides. -/
theorem evaluate_congr_of_equiv_float_arith {n : INode} (hn : (desugar n).NoDiv) {B : Nat}
    (hb : B * 2 ^ adepth (desugar n) ≤ 53) {d d' : Val} (h : Val.Equiv d d') (hd : d.AllOK) (hd' : d'.AllOK)
    (hf : AllF (IntF B) d) (hf' : AllF (IntF B) d') :
    ResEquiv (evaluate n d) (evaluate n d') ∨ (evaluate n d = evaluate n d' ∧ ∀ v, evaluate n d ≠ .ok v) :=
  resEquiv_of_rr (evaluate_congr_float_arith hn hb (vr_of_equiv d d' h hd hd' (fun e => by cases e)) hf hf')

/-! ### a concrete instance: `(a * b + c) % a` on `{a: 7.0 (float64), b: 5 (float32), c: 11.0 (float64)}` and on
    `{a: "7" (json.Number), b: 5 (uint8), c: 1.1e1 (decimal)}` -/

def exNodeA : INode :=
  .binop .mod (.binop .add (.binop .mul (.field [0x61]) (.field [0x62])) (.field [0x63])) (.field [0x61])

def exDocA : Val := .obj [([0x61], fInt false 7), ([0x62], .num (.f32 (F64.mk false 5 0))), ([0x63], fInt false 11)]
def exDocA' : Val := .obj [([0x61], .num (.jnum [0x37])), ([0x62], .num (.int .u8 5)),
  ([0x63], .num (.dec (.fin false 11 0)))]

/-- the expression is in the fragment -/
theorem exNodeA_noDiv : (desugar exNodeA).NoDiv := C14CFrag.noDiv_of_fragOK (by decide)

/-- three levels of arithmetic: floats below `2^6` stay below `2^48` -/
theorem exNodeA_depth : 6 * 2 ^ adepth (desugar exNodeA) ≤ 53 := by decide

/-- every float of the two documents holds an integer `< 2^6` -/
theorem exDocA_small : AllF (IntF 6) exDocA ∧ AllF (IntF 6) exDocA' := by
  simp only [exDocA, exDocA', AllF, AllFF, NumF, fInt, and_true]
  exact ⟨⟨false, 7, by decide, rfl⟩, ⟨false, 5, by decide, rfl⟩, ⟨false, 11, by decide, rfl⟩⟩

/-- the two documents carry the same values -/
theorem exDocA_vr : VR false exDocA exDocA' := by
  simp only [exDocA, exDocA', VR, VRF, and_true, true_and]
  refine ⟨vr_fInt (by decide) trivial ⟨_, .fin false 7 0, rfl, by decide, by decide⟩, ?_,
    vr_fInt (by decide) (by simp only [NumOK, Dec.Bounded]; decide) ⟨_, _, rfl, rfl, by decide⟩⟩
  exact ⟨⟨_, _, rfl, rfl, by decide⟩, .inl ⟨fok_mk_int _ _ (by decide), by simp only [NumOK, IntKind.InRange]; decide⟩,
    fun e => by cases e⟩

-- (7·5 + 11) % 7 = 4: the float 4 on one side, a decimal of value 4 on the other
example : (match evaluate exNodeA exDocA, evaluate exNodeA exDocA' with
    | .ok (.num (.f64 f)), .ok (.num (.dec d)) => f == F64.mk false 4 0 && Dec.cmp d (Dec.ofInt 4) == some 0
    | _, _ => false) = true := by decide

attribute [irreducible] exNodeA exDocA exDocA'

/-- the theorem applies to that pair of documents -/
theorem exA_related : RR (VR false) (evaluate exNodeA exDocA) (evaluate exNodeA exDocA') :=
  evaluate_congr_float_arith exNodeA_noDiv exNodeA_depth exDocA_vr exDocA_small.1 exDocA_small.2

example : ∀ w, evaluate exNodeA exDocA = .ok w → AllF (IntF (6 * 2 ^ adepth (desugar exNodeA))) w :=
  fun _ h => evaluate_float_arith_exact exNodeA_noDiv exNodeA_depth exDocA_small.1 h

example : RR (VR false) (ieval exDocA exNodeA exDocA []) (ieval exDocA' exNodeA exDocA' []) :=
  ieval_congr_float_arith exNodeA_noDiv exNodeA_depth exDocA_vr exDocA_small.1 exDocA_small.2 exDocA_vr
    exDocA_small.1 exDocA_small.2 vrf_nil (fun _ _ hm => by cases hm) (fun _ _ hm => by cases hm)

/-- all numbers of the two documents are well-formed Go values -/
theorem exDocA_allOK : exDocA.AllOK ∧ exDocA'.AllOK := by
  unfold exDocA exDocA'
  simp only [Val.AllOK, Val.AllOKF, fInt, NumOK, and_true]
  exact ⟨⟨fok_mk_int _ _ (by decide), fok_mk_int _ _ (by decide), fok_mk_int _ _ (by decide)⟩,
    trivial, by simp only [IntKind.InRange]; decide, by simp only [Dec.Bounded]; decide⟩

example : ResEquiv (evaluate exNodeA exDocA) (evaluate exNodeA exDocA') ∨
    (evaluate exNodeA exDocA = evaluate exNodeA exDocA' ∧ ∀ v, evaluate exNodeA exDocA ≠ .ok v) :=
  evaluate_congr_of_equiv_float_arith exNodeA_noDiv exNodeA_depth (vr_equiv _ _ exDocA_vr) exDocA_allOK.1
    exDocA_allOK.2 exDocA_small.1 exDocA_small.2

/-- the arithmetic depth follows the flow of values: in `items[*].(p * q)` the product sees the elements of `items`
    (depth 0 + 1), so floats below `2^26` are fine -/
example : adepth (desugar (.projectArray (.field [0x69]) (.binop .mul (.field [0x70]) (.field [0x71])))) = 1 ∧
    26 * 2 ^ 1 ≤ 53 := by decide

/-! ### on expression text -/

/-- the check on the expression text for documents whose floats hold integers `< 2^B`: the text compiles to a node of
    the fragment whose arithmetic depth `D` satisfies `B · 2^D ≤ 53` (a text that does not compile passes: `search`
    fails identically on every document) -/
def textOKA (B : Nat) (e : Bytes) : Bool :=
  match compile e with
  | .ok n => n.all C14CFrag.fragNode0 && decide (B * 2 ^ adepth (desugar n) ≤ 53)
  | .error _ => true

/-- **`Search(text, document)` with float leaves and arithmetic**: for every text passing `textOKA B` and two related
    documents whose floats hold integers `< 2^B` -/
theorem search_congr_float_arith {B : Nat} {e : Bytes} (he : textOKA B e = true) {d d' : Val} (h : VR false d d')
    (hf : AllF (IntF B) d) (hf' : AllF (IntF B) d') : RR (VR false) (search e d) (search e d') := by
  unfold search
  unfold textOKA compile at he
  cases hp : Parser.parse e with
  | error err => cases err <;> simp [RR]
  | ok n =>
    rw [hp] at he
    simp only [Bool.and_eq_true, decide_eq_true_eq] at he
    exact evaluate_congr_float_arith (compiled_fragment_noDiv hp he.1) he.2 h hf hf'

/-- the text `(a*b+c)%a` -/
def exTextA : Bytes := [0x28, 0x61, 0x2A, 0x62, 0x2B, 0x63, 0x29, 0x25, 0x61]

/-- the check runs on that text (the parser is executed by the kernel): fragment, depth 3, `6·2^3 = 48 ≤ 53` -/
theorem exTextA_ok : textOKA 6 exTextA = true := by decide +kernel

example : (match compile exTextA with | .ok _ => true | .error _ => false) = true := by decide +kernel

example : RR (VR false) (search exTextA exDocA) (search exTextA exDocA') :=
  search_congr_float_arith exTextA_ok exDocA_vr exDocA_small.1 exDocA_small.2

-- the check rejects `a/b` (inexact quotients, see section 4) and a depth that is too large for the given bound
example : textOKA 6 [0x61, 0x2F, 0x62] = false ∧ textOKA 26 exTextA = false := by decide +kernel

/-! ## 3. `sum` and `avg` over floats -/

/-- **`sum` over an array with float elements needs no proviso**: `sum` has no float path — every element, whatever its
    representation, is converted to decimal128 (exactly, for a well-formed float) and added there; decimal addition
    rounds the value, not the spelling.  (For a map-ordered array of ≥ 2 elements — the direct result of `values(…)` or
    `.*` — the model may decline on either side; that is property C15.) -/
theorem sum_congr_float {t : ATag} {xs xs' : List Val} (h : VRL false xs xs') (ht : enum2 t xs = false) :
    RR (VR false) (applyFn .sum [.arr t xs]) (applyFn .sum [.arr t xs']) :=
  numSum_rr h ht

-- sum([1.5 (float64), 2.25 (float32), 1 (uint8)]) and the same values as json.Number / decimal: 4.75 on both sides
example : (match applyFn .sum [.arr .plain [.num (.f64 (.fin false 3 (-1))), .num (.f32 (.fin false 9 (-2))), .num (.int .u8 1)]],
      applyFn .sum [.arr .plain [.num (.jnum [0x31, 0x2E, 0x35]), .num (.dec (.fin false 225 (-2))), .num (.jnum [0x31])]] with
    | .ok (.num (.dec d)), .ok (.num (.dec d')) => Dec.cmp d d' == some 0 && Dec.cmp d (.fin false 475 (-2)) == some 0
    | _, _ => false) = true := by decide

/-- **`avg`**: the sum as above, then one division by the length: congruent when that division is exact on both sides
    (`Dec.QuoFits`: the proviso) -/
theorem avg_congr_float {t : ATag} {xs xs' : List Val} (h : VRL false xs xs') (ht : enum2 t xs = false)
    (hfit : ∀ r, sumDec xs Dec.zero = some r → Dec.QuoFits r (Dec.ofInt xs.length))
    (hfit' : ∀ r, sumDec xs' Dec.zero = some r → Dec.QuoFits r (Dec.ofInt xs'.length)) :
    RR (VR false) (applyFn .avg [.arr t xs]) (applyFn .avg [.arr t xs']) :=
  numAvg_rr h ht hfit hfit'

-- avg([1.0 (float64), 2.0 (float64)]) and avg([1 (int64), "2" (json.Number)]): 3/2 = 1.5 is exact in decimal128
example : RR (VR false) (applyFn .avg [.arr .plain [fInt false 1, fInt false 2]])
    (applyFn .avg [.arr .plain [.num (.int .i64 1), .num (.jnum [0x32])]]) := by
  have q : Dec.QuoFits (.fin false 3 0) (Dec.ofInt ((2 : Nat) : Int)) := by
    have e : Dec.ofInt ((2 : Nat) : Int) = .fin false 2 0 := by decide
    rw [e]
    exact ⟨by decide, .inr ⟨15, 40, by decide, by decide, by decide, by decide, by decide⟩⟩
  refine avg_congr_float ?_ rfl ?_ ?_
  · simp only [VRL, and_true]
    exact ⟨vr_fInt (by decide) (by simp only [NumOK, IntKind.InRange]; decide) ⟨_, _, rfl, rfl, by decide⟩,
      vr_fInt (by decide) trivial ⟨_, .fin false 2 0, rfl, by decide, by decide⟩⟩
  · intro r hr
    have : sumDec [fInt false 1, fInt false 2] Dec.zero = some (.fin false 3 0) := by decide
    rw [this] at hr; cases hr; exact q
  · intro r hr
    have : sumDec [.num (.int .i64 1), .num (.jnum [0x32])] Dec.zero = some (.fin false 3 0) := by decide
    rw [this] at hr; cases hr; exact q

/-- `sum(e)` / `avg(e)` on top of related outcomes of `e` -/
theorem sum_of_rr {nf : Bool} {r r' : Res Val} (h : RR (VR nf) r r')
    (hplain : ∀ t xs, r = .ok (.arr t xs) → enum2 t xs = false) :
    RR (VR nf) (r >>= fun v => applyFn .sum [v]) (r' >>= fun v => applyFn .sum [v]) := by
  refine rr_bind_eq h (fun v v' e _ hv => ?_)
  cases v with
  | arr t xs =>
    cases v' with
    | arr u xs' =>
      simp only [VR] at hv
      obtain ⟨rfl, hx⟩ := hv
      exact numSum_rr hx (hplain t xs e)
    | _ => simp only [VR] at hv
  | _ => cases v' <;> simp only [VR] at hv <;> exact rr_errType

example : RR (VR false) ((Res.ok (.arr .plain [fInt false 1])) >>= fun v => applyFn .sum [v])
    ((Res.ok (.arr .plain [.num (.int .i64 1)])) >>= fun v => applyFn .sum [v]) :=
  sum_of_rr (RR.ok' (vr_arr (vrl_cons (vr_fInt (by decide) (by simp only [NumOK, IntKind.InRange]; decide)
    ⟨_, _, rfl, rfl, by decide⟩) vrl_nil))) (fun t xs e => by cases e; rfl)

/-- … `avg`: with the exactness of the final division on both sides -/
theorem avg_of_rr {nf : Bool} {r r' : Res Val} (h : RR (VR nf) r r')
    (hplain : ∀ t xs, r = .ok (.arr t xs) → enum2 t xs = false)
    (hfit : ∀ t xs s, r = .ok (.arr t xs) → sumDec xs Dec.zero = some s → Dec.QuoFits s (Dec.ofInt xs.length))
    (hfit' : ∀ t xs s, r' = .ok (.arr t xs) → sumDec xs Dec.zero = some s → Dec.QuoFits s (Dec.ofInt xs.length)) :
    RR (VR nf) (r >>= fun v => applyFn .avg [v]) (r' >>= fun v => applyFn .avg [v]) := by
  refine rr_bind_eq h (fun v v' e e' hv => ?_)
  cases v with
  | arr t xs =>
    cases v' with
    | arr u xs' =>
      simp only [VR] at hv
      obtain ⟨rfl, hx⟩ := hv
      exact numAvg_rr hx (hplain t xs e) (fun s hs => hfit t xs s e hs) (fun s hs => hfit' t xs' s e' hs)
    | _ => simp only [VR] at hv
  | _ => cases v' <;> simp only [VR] at hv <;> exact rr_errType

/-- **`sum(e)` with float leaves**, `e` an expression of the fragment with arithmetic (section 2): only the proviso
    of `e` itself is needed -/
theorem evaluate_sum_congr_float {n : INode} (hn : (desugar n).NoDiv) {B : Nat}
    (hb : B * 2 ^ adepth (desugar n) ≤ 53) {d d' : Val} (h : VR false d d') (hf : AllF (IntF B) d)
    (hf' : AllF (IntF B) d') (hplain : ∀ t xs, evaluate n d = .ok (.arr t xs) → enum2 t xs = false) :
    RR (VR false) (evaluate (.call .sum [n]) d) (evaluate (.call .sum [n]) d') := by
  have := sum_of_rr (evaluate_congr_float_arith hn hb h hf hf') hplain
  unfold evaluate at this ⊢
  rw [ieval_call1, ieval_call1]
  exact this

/-- **`avg(e)` with float leaves**: additionally the final division must be exact on both sides -/
theorem evaluate_avg_congr_float {n : INode} (hn : (desugar n).NoDiv) {B : Nat}
    (hb : B * 2 ^ adepth (desugar n) ≤ 53) {d d' : Val} (h : VR false d d') (hf : AllF (IntF B) d)
    (hf' : AllF (IntF B) d') (hplain : ∀ t xs, evaluate n d = .ok (.arr t xs) → enum2 t xs = false)
    (hfit : ∀ t xs s, evaluate n d = .ok (.arr t xs) → sumDec xs Dec.zero = some s →
      Dec.QuoFits s (Dec.ofInt xs.length))
    (hfit' : ∀ t xs s, evaluate n d' = .ok (.arr t xs) → sumDec xs Dec.zero = some s →
      Dec.QuoFits s (Dec.ofInt xs.length)) :
    RR (VR false) (evaluate (.call .avg [n]) d) (evaluate (.call .avg [n]) d') := by
  have := avg_of_rr (evaluate_congr_float_arith hn hb h hf hf') hplain hfit hfit'
  unfold evaluate at this ⊢
  rw [ieval_call1, ieval_call1]
  exact this

-- sum([a*b, c]) on the documents of section 2: 46 on both sides
def exNodeS : INode := .selectArrayCurrent [.binop .mul (.field [0x61]) (.field [0x62]), .field [0x63]]

example : (match evaluate (.call .sum [exNodeS]) exDocA, evaluate (.call .sum [exNodeS]) exDocA' with
    | .ok (.num (.dec d)), .ok (.num (.dec d')) => Dec.cmp d d' == some 0 && Dec.cmp d (Dec.ofInt 46) == some 0
    | _, _ => false) = true := by
  unfold exDocA exDocA'; decide

example : RR (VR false) (evaluate (.call .sum [exNodeS]) exDocA) (evaluate (.call .sum [exNodeS]) exDocA') :=
  evaluate_sum_congr_float (B := 6) (C14CFrag.noDiv_of_fragOK (by decide)) (by decide) exDocA_vr exDocA_small.1
    exDocA_small.2 (fun t xs hx => by
      have : ∀ r, evaluate exNodeS exDocA = r → ∀ t xs, r = .ok (.arr t xs) → t = .plain := by
        intro r hr t xs e
        subst hr
        unfold evaluate exNodeS at e
        simp only [ieval] at e
        split at e
        · cases e
        · cases hl : ievalList exDocA [.binop .mul (.field [0x61]) (.field [0x62]), .field [0x63]] exDocA [] <;>
            rw [hl] at e <;> simp at e
          exact e.1.symm
      have ht := this _ rfl t xs hx
      subst ht; rfl)

/-! ## 4. the nine measured divergent quotients

  `a / b` is not in the fragment: on two floats Go divides in binary64, on anything else in decimal128, and the two
  agree only when the quotient is exactly representable in both (`C14B.float_div_sameValue`,
  `C14B.evaluate_divide_congr`).  A reviewer measured nine groups of small operands on which the Go program (and the
  model) give results of different values; each is an **inexact quotient, excluded by the property's proviso**.  Each
  example states: the operands have the same values in both representations; `divide` on the two `float64` operands is
  the float `q`; on the two `json.Number` operands it is the decimal `D`; and `q`, `D` do not have the same value. -/

open C14CFrag in
/-- `0.5 / -2.5`: float64 `-3602879701896397·2^-54`, decimal128 `-0.2` -/
example : Diverges (.fin false 1 (-1)) (.fin true 5 (-1)) [0x30, 0x2E, 0x35] [0x2D, 0x32, 0x2E, 0x35]
    (.fin true 3602879701896397 (-54)) (.fin true 2 (-1)) := diverges_of_check (by decide)
open C14CFrag in
/-- `0.5 / 2.5`: float64 `3602879701896397·2^-54`, decimal128 `0.2` -/
example : Diverges (.fin false 1 (-1)) (.fin false 5 (-1)) [0x30, 0x2E, 0x35] [0x32, 0x2E, 0x35]
    (.fin false 3602879701896397 (-54)) (.fin false 2 (-1)) := diverges_of_check (by decide)
open C14CFrag in
/-- `1 / -2.5`: float64 `-3602879701896397·2^-53`, decimal128 `-0.4` -/
example : Diverges (.fin false 1 0) (.fin true 5 (-1)) [0x31] [0x2D, 0x32, 0x2E, 0x35]
    (.fin true 3602879701896397 (-53)) (.fin true 4 (-1)) := diverges_of_check (by decide)
open C14CFrag in
/-- `1 / 2.5`: float64 `3602879701896397·2^-53`, decimal128 `0.4` -/
example : Diverges (.fin false 1 0) (.fin false 5 (-1)) [0x31] [0x32, 0x2E, 0x35]
    (.fin false 3602879701896397 (-53)) (.fin false 4 (-1)) := diverges_of_check (by decide)
open C14CFrag in
/-- `2.5 / -7`: float64 `-6433713753386423·2^-54`, decimal128 `-0.3571428571428571428571428571428571` (both rounded) -/
example : Diverges (.fin false 5 (-1)) (.fin true 7 0) [0x32, 0x2E, 0x35] [0x2D, 0x37]
    (.fin true 6433713753386423 (-54)) (.fin true 3571428571428571428571428571428571 (-34)) :=
  diverges_of_check (by decide)
open C14CFrag in
/-- `3 / -2.5`: float64 `-5404319552844595·2^-52`, decimal128 `-1.2` -/
example : Diverges (.fin false 3 0) (.fin true 5 (-1)) [0x33] [0x2D, 0x32, 0x2E, 0x35]
    (.fin true 5404319552844595 (-52)) (.fin true 12 (-1)) := diverges_of_check (by decide)
open C14CFrag in
/-- `3 / -7`: float64 `-7720456504063707·2^-54`, decimal128 `-0.4285714285714285714285714285714286` (both rounded) -/
example : Diverges (.fin false 3 0) (.fin true 7 0) [0x33] [0x2D, 0x37]
    (.fin true 7720456504063707 (-54)) (.fin true 4285714285714285714285714285714286 (-34)) :=
  diverges_of_check (by decide)
open C14CFrag in
/-- `3 / 7`: float64 `7720456504063707·2^-54`, decimal128 `0.4285714285714285714285714285714286` (both rounded) -/
example : Diverges (.fin false 3 0) (.fin false 7 0) [0x33] [0x37]
    (.fin false 7720456504063707 (-54)) (.fin false 4285714285714285714285714285714286 (-34)) :=
  diverges_of_check (by decide)
open C14CFrag in
/-- `7 / 2.5`: float64 `3152519739159347·2^-50`, decimal128 `2.8` -/
example : Diverges (.fin false 7 0) (.fin false 5 (-1)) [0x37] [0x32, 0x2E, 0x35]
    (.fin false 3152519739159347 (-50)) (.fin false 28 (-1)) := diverges_of_check (by decide)

/-- in contrast, an exact quotient is representation independent: `84 / -7` on floats and on integers -/
example : ResEquiv (divide (.num (.f64 (F64.ofInt 84))) (.num (.f64 (F64.ofInt (-7)))))
    (divide (.num (.int .i64 84)) (.num (.int .i8 (-7)))) :=
  float_div_sameValue _ _ 84 (-7) (-12) (by decide) (by decide) (by decide) (by decide) (by decide)

end C14C
end Jmes

section AxiomCheck
open Jmes.C14C
end AxiomCheck
